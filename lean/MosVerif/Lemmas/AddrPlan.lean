/-
  C17 — `NewUpstream` on the rendered address forms: what is parsed, trimmed,
  dialled and used as server name.
-/
import MosVerif.Lemmas.AddrLemmas
namespace MosVerif.Addr

/-! ### rendering facts -/

theorem Host.wf_plain {h : Str} (w : (Host.plain h).wf = true) : PlainFacts h :=
  plainHost_facts (by simpa [Host.wf] using w)

theorem Host.wf_v6 {x : Str} (w : (Host.v6 x).wf = true) : V6Facts x :=
  v6_facts (by simpa [Host.wf] using w)

theorem portWf_some {p : Str} (w : portWf (some p) = true) : PlainFacts p :=
  port_facts (by simpa [portWf] using w)

/-- `trySplitHostPort` recovers host and port from every supported `host[:port]` form
    (after bracket trimming / as written in `dial_addr`). -/
theorem trySplit_render {h : Host} {p : Option Str} (wh : h.wf = true) (wp : portWf p = true) :
    trySplitHostPort (Dial.render (.host h p)) = (h.bare, p.getD []) := by
  cases h with
  | plain h =>
    have fh := Host.wf_plain wh
    cases p with
    | none => simp [Dial.render, portSuffix, trySplitHostPort, splitHostPort_noColon fh.colon, Host.bare]
    | some p =>
      simp [Dial.render, portSuffix, trySplitHostPort, splitHostPort_plain fh (portWf_some wp), Host.bare]
  | v6 x =>
    have fx := Host.wf_v6 wh
    cases p with
    | none => simp [Dial.render, trySplitHostPort, splitHostPort_v6bare fx, Host.bare]
    | some p =>
      have e := splitHostPort_v6port fx (portWf_some wp)
      simp only [List.cons_append] at e
      simp [Dial.render, trySplitHostPort, e, Host.bare]

/-- `tryRemovePort` yields the bare host. -/
theorem tryRemovePort_render {h : Host} {p : Option Str} (wh : h.wf = true) (wp : portWf p = true) :
    tryRemovePort (Dial.render (.host h p)) = h.bare := by
  cases h with
  | plain h =>
    have fh := Host.wf_plain wh
    cases p with
    | none => simp [Dial.render, portSuffix, tryRemovePort, splitHostPort_noColon fh.colon, Host.bare]
    | some p =>
      simp [Dial.render, portSuffix, tryRemovePort, splitHostPort_plain fh (portWf_some wp), Host.bare]
  | v6 x =>
    have fx := Host.wf_v6 wh
    cases p with
    | none => simp [Dial.render, tryRemovePort, splitHostPort_v6bare fx, Host.bare]
    | some p =>
      have e := splitHostPort_v6port fx (portWf_some wp)
      simp only [List.cons_append] at e
      simp [Dial.render, tryRemovePort, e, Host.bare]

/-- a form with a port is already `JoinHostPort host port` -/
theorem render_some_eq_join {h : Host} {p : Str} (wh : h.wf = true) :
    Dial.render (.host h (some p)) = joinHostPort h.bare p := by
  cases h with
  | plain h => simp [Dial.render, portSuffix, joinHostPort, Host.bare, (Host.wf_plain wh).colon]
  | v6 x => simp [Dial.render, joinHostPort, Host.bare, (Host.wf_v6 wh).colon]

theorem render_ne_nil {h : Host} {p : Option Str} (wh : h.wf = true) :
    Dial.render (.host h p) ≠ [] := by
  cases h with
  | plain h =>
    have := (Host.wf_plain wh).ne
    cases p <;> simp [Dial.render, portSuffix, this]
  | v6 x =>
    have := (Host.wf_v6 wh).ne
    cases p <;> simp [Dial.render, this]

theorem render_no_at {h : Host} {p : Option Str} (wh : h.wf = true) :
    hasAtPrefix (Dial.render (.host h p)) = false := by
  cases h with
  | plain h =>
    have f := Host.wf_plain wh
    have hd : h.head? ≠ some '@' := head?_ne_of_not_mem f.at_
    cases h with
    | nil => exact absurd rfl f.ne
    | cons a t =>
      have hd' : ¬ a = '@' := by simpa using hd
      cases p <;> simp [Dial.render, portSuffix, hasAtPrefix, hd']
  | v6 x =>
    have f := Host.wf_v6 wh
    have hd : x.head? ≠ some '@' := head?_ne_of_not_mem f.at_
    cases p with
    | none => simp [Dial.render, hasAtPrefix, hd]
    | some p => simp [Dial.render, hasAtPrefix]

/-- the core of `getDialAddr` on one supported form -/
theorem gda_form {h : Host} {p : Option Str} (d : Str) (wh : h.wf = true) (wp : portWf p = true) :
    (let (host, port) := trySplitHostPort (Dial.render (.host h p))
     if port.length = 0 then joinHostPort host d else Dial.render (.host h p))
      = joinHostPort h.bare (p.getD d) := by
  rw [trySplit_render wh wp]
  cases p with
  | none => simp
  | some p =>
    have := (portWf_some wp).ne
    simp [this, render_some_eq_join wh]

/-- ★ without `dial_addr`: the URL host and port (or the default port) -/
theorem getDialAddr_url {h : Host} {p : Option Str} (d : Str) (wh : h.wf = true) (wp : portWf p = true) :
    getDialAddr (Dial.render (.host h p)) [] d = joinHostPort h.bare (p.getD d) := by
  have := gda_form d wh wp
  simpa [getDialAddr_eq] using this

/-- ★ `@name`: unchanged -/
theorem getDialAddr_unix (url n d : Str) : getDialAddr url ('@' :: n) d = '@' :: n := by
  simp [getDialAddr_eq, hasAtPrefix]

/-! ### bracket trimming -/

/-- ★ `[x]` ↦ `x` for every `x` (never a panic) -/
theorem trim_bracketed (x : Str) : tryTrimIpv6Brackets? ('[' :: x ++ [']']) = some x := by
  have hl : ('[' :: (x ++ [']'])).getLast? = some ']' := by
    rw [← List.cons_append, List.getLast?_concat]
  simp [tryTrimIpv6Brackets?_eq, slice?, hl]
  omega

/-- ★ anything that is not of the shape `[x]` is returned unchanged -/
theorem trim_other (s : Str) (h : ¬ ∃ x, s = '[' :: x ++ [']']) : tryTrimIpv6Brackets? s = some s := by
  rw [tryTrimIpv6Brackets?_eq]
  split
  · rfl
  · split
    · rename_i hl hb
      exfalso
      apply h
      cases s with
      | nil => simp at hb
      | cons a t =>
        have ha : a = '[' := by simpa using hb.1
        have htne : t ≠ [] := by
          intro e; subst e; simp at hl
        have hlast : t.getLast? = some ']' := by
          have := hb.2
          rwa [List.getLast?_cons_of_ne_nil htne] at this
        obtain ⟨ys, e⟩ := List.getLast?_eq_some_iff.mp hlast
        exact ⟨ys, by simp [ha, e]⟩
    · rfl

theorem trim_never_panics (s : Str) : (tryTrimIpv6Brackets? s).isSome = true := by
  rw [tryTrimIpv6Brackets?_eq]
  split
  · rfl
  · split
    · rename_i hl _
      have : 1 ≤ s.length - 1 ∧ s.length - 1 ≤ s.length := by omega
      simp [slice?, this]
    · rfl

/-- trimming leaves the bare text of a supported host alone -/
theorem trim_bare {h : Host} (wh : h.wf = true) : tryTrimIpv6Brackets h.bare = h.bare := by
  have nb : '[' ∉ h.bare := by
    cases h with
    | plain h => exact (Host.wf_plain wh).lb
    | v6 x => exact (Host.wf_v6 wh).lb
  have : ¬ ∃ x, h.bare = '[' :: x ++ [']'] := by
    rintro ⟨x, e⟩
    rw [e] at nb
    simp at nb
  simp [tryTrimIpv6Brackets, trim_other _ this]

theorem trim_total_bracketed (x : Str) : tryTrimIpv6Brackets ('[' :: x ++ [']']) = x := by
  simp only [tryTrimIpv6Brackets, trim_bracketed]

/-- ★ with a `dial_addr` host: that host and port (or the default port), whatever the URL says -/
theorem getDialAddr_override {h : Host} {p : Option Str} (url d : Str) (wh : h.wf = true)
    (wp : portWf p = true) :
    getDialAddr url (Dial.render (.host h p)) d = joinHostPort h.bare (p.getD d) := by
  have ne := render_ne_nil (p := p) wh
  have l : (Dial.render (.host h p)).length > 0 := List.length_pos_iff.mpr ne
  simp only [getDialAddr_eq, l, if_true, render_no_at wh, Bool.false_eq_true, if_false]
  rw [trySplit_render wh wp]
  cases p with
  | none => simp [trim_bare wh]
  | some p =>
    have := (portWf_some wp).ne
    simp [this, render_some_eq_join wh]

/-- ★ with a `dial_addr` that is an IPv6 address in brackets without port: that address and the
    default port -/
theorem getDialAddr_bracketed {x : Str} (url d : Str) (hx : isV6Body x = true) :
    getDialAddr url ('[' :: x ++ [']']) d = joinHostPort x d := by
  have f := v6_facts hx
  have hl : lastIndexOf ':' ('[' :: x ++ [']']) ≠ none := by
    obtain ⟨a, b, e, nb⟩ := exists_last_split f.colon
    have e2 : '[' :: x ++ [']'] = ('[' :: a) ++ ':' :: (b ++ [']']) := by simp [e]
    rw [e2, lastIndexOf_append]
    · simp
    · simp [nb]
  have hi : indexOf ']' ('[' :: x ++ [']']) = some (x.length + 1) := by
    have := indexOf_append (c := ']') (a := '[' :: x) [] (by simp [f.rb])
    simpa using this
  have hs : splitHostPort ('[' :: x ++ [']']) = .error .missingPort := by
    unfold splitHostPort
    cases h : lastIndexOf ':' ('[' :: x ++ [']']) with
    | none => exact absurd h hl
    | some i =>
      simp only [List.cons_append] at hi
      simp [hi]
  have ht := trim_total_bracketed x
  simp only [List.cons_append] at hs ht
  simp [getDialAddr_eq, hasAtPrefix, trySplitHostPort, hs, ht]

/-- the URL authority after trimming is one of the forms `trySplit_render` understands -/
theorem trim_authority {h : Host} {p : Option Str} (wh : h.wf = true) (wp : portWf p = true) :
    tryTrimIpv6Brackets? (h.url ++ portSuffix p) = some (Dial.render (.host h p)) := by
  cases h with
  | plain h =>
    have f := Host.wf_plain wh
    have : ¬ ∃ x, h ++ portSuffix p = '[' :: x ++ [']'] := by
      rintro ⟨x, e⟩
      have hd := head?_ne_of_not_mem f.lb
      cases h with
      | nil => exact f.ne rfl
      | cons a t =>
        simp only [List.cons_append, List.cons.injEq] at e
        simp [e.1] at hd
    simpa [Host.url, Dial.render] using trim_other _ this
  | v6 x =>
    cases p with
    | none => simpa [Host.url, Dial.render, portSuffix] using trim_bracketed x
    | some p =>
      have fp := portWf_some wp
      have : ¬ ∃ y, ('[' :: x ++ [']']) ++ ':' :: p = '[' :: y ++ [']'] := by
        rintro ⟨y, e⟩
        have h1 : (('[' :: x ++ [']']) ++ ':' :: p).getLast? = ('[' :: y ++ [']']).getLast? := by rw [e]
        obtain ⟨q, c, hq⟩ : ∃ q c, p = q ++ [c] := by
          refine ⟨p.dropLast, p.getLast fp.ne, ?_⟩
          exact (List.dropLast_concat_getLast fp.ne).symm
        have hc : c ∈ p := by simp [hq]
        have : c = ']' := by
          subst hq
          have e2 : ('[' :: x ++ [']']) ++ ':' :: (q ++ [c]) = ('[' :: x ++ ']' :: ':' :: q) ++ [c] := by simp
          have e3 : '[' :: y ++ [']'] = ('[' :: y) ++ [']'] := by simp
          rw [e2, e3, List.getLast?_concat, List.getLast?_concat] at h1
          simpa using h1
        exact fp.rb (this ▸ hc)
      have t := trim_other _ this
      simpa [Host.url, Dial.render, portSuffix] using t

end MosVerif.Addr
