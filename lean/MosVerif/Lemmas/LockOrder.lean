/-
  Lemmas about `Model/LockOrder`: with the lock order of the code (`t.m` before `c.m`, the idle timer takes `c.m`
  only) no schedule of the picker, the idle timers, `Close` and a releasing exchange ever reaches a state in which
  somebody is unfinished and nobody can move; with the idle timer calling into the transport under `c.m` there is
  such a schedule.  The state space is finite (945 / 1575 vectors of program counters), the schedules are not:
  inductiveness of the invariant and progress are checked over all states by kernel evaluation and lifted to
  schedules of every length by induction.
-/
import MosVerif.Model.LockOrder
namespace MosVerif.LockOrder

theorem mem_allSt (nested : Bool) (s : St) (h : Inv nested s = true) : s ∈ allSt nested := by
  obtain ⟨a, b, c, d, e⟩ := s
  simp only [Inv, Bool.and_eq_true, List.all_eq_true, decide_eq_true_eq, List.mem_range, nThreads] at h
  have h0 := h.1 0 (by omega)
  have h1 := h.1 1 (by omega)
  have h2 := h.1 2 (by omega)
  have h3 := h.1 3 (by omega)
  have h4 := h.1 4 (by omega)
  simp only [pcOf] at h0 h1 h2 h3 h4
  simp only [allSt, List.mem_flatMap, List.mem_map, List.mem_range]
  exact ⟨a, by omega, b, by omega, c, by omega, d, by omega, e, by omega, rfl⟩

/-- the whole table, by kernel evaluation: the invariant is inductive, and where it holds somebody can move
    unless everybody has finished -/
theorem table_code :
    (allSt false).all (fun s => !Inv false s ||
      (((List.range nThreads).all fun i => Inv false (step false s i)) && !stuck false s)) = true := by
  decide +kernel

/-- the invariant alone is inductive in the nested variant too (mutual exclusion is not what breaks) -/
theorem table_nested :
    (allSt true).all (fun s => !Inv true s ||
      ((List.range nThreads).all fun i => Inv true (step true s i))) = true := by
  decide +kernel

theorem step_out_of_range (nested : Bool) (s : St) (i : Nat) (hi : nThreads ≤ i) : step nested s i = s := by
  have : prog nested i = [] := by
    unfold nThreads at hi
    match i, hi with
    | i + 5, _ => rfl
  simp [step, enabled, this]

theorem inv_step (s : St) (i : Nat) (h : Inv false s = true) : Inv false (step false s i) = true := by
  by_cases hi : i < nThreads
  · have ht := List.all_eq_true.mp table_code s (mem_allSt false s h)
    simp only [h, Bool.not_true, Bool.false_or, Bool.and_eq_true, List.all_eq_true, List.mem_range] at ht
    exact ht.1 i hi
  · rw [step_out_of_range false s i (by omega)]; exact h

theorem inv_init (nested : Bool) : Inv nested init = true := by cases nested <;> decide +kernel

/-- every reachable state, schedules of every length -/
theorem inv_run (sched : List Nat) (s : St) (h : Inv false s = true) : Inv false (run false sched s) = true := by
  induction sched generalizing s with
  | nil => simpa [run] using h
  | cons w ws ih =>
    have := ih (step false s w) (inv_step s w h)
    simpa [run] using this

/-- ★ no dead-lock: after any schedule, of any length, either every goroutine has returned or one of them can
    take its next step -/
theorem code_never_stuck (sched : List Nat) : stuck false (run false sched init) = false := by
  have hi := inv_run sched init (inv_init false)
  have ht := List.all_eq_true.mp table_code _ (mem_allSt false _ hi)
  simp only [hi, Bool.not_true, Bool.false_or, Bool.and_eq_true, Bool.not_eq_true'] at ht
  exact ht.2

/-- twelve rounds of round-robin -/
def roundRobin : List Nat := (List.range 60).map (· % nThreads)

/-- the round-robin schedule finishes (the statement above is not about an unreachable `finished`) -/
theorem round_robin_finishes : finished false (run false roundRobin init) = true := by decide +kernel

/-- ★ the order `t.m → c.m` is what this rests on: if the idle timer takes `t.m` while it holds `c.m`, the picker
    inside `getIdleConn` (holding `t.m`, about to look at Y) and Y's timer (holding `Y.m`, waiting for `t.m`) block
    each other for ever; `Close` and every later exchange then wait for `t.m` too. -/
theorem nested_timer_can_deadlock :
    ∃ sched, stuck true (run true sched init) = true ∧
      enabled true (run true sched init) 3 = false ∧ finished true (run true sched init) = false :=
  ⟨[0, 1, 1, 0, 0, 2, 4, 4], by decide +kernel, by decide +kernel, by decide +kernel⟩

end MosVerif.LockOrder
