/-
  Codec lemmas, part 1 (C02): big-endian primitives, the label structure of names
  (`Labels`, an inductive reading of what `NameScanner` accepts), `scanName` / `nameWF` facts.
-/
import MosVerif.Model.Pack
namespace MosVerif.Wire

/-! ### enc16/enc32 vs be16/be32 -/

theorem u8_ofNat_toNat (x : Nat) (h : x < 256) : (UInt8.ofNat x).toNat = x := by
  simp; omega

theorem be16_lt (a b : UInt8) : be16 a b < 65536 := by
  have := a.toNat_lt; have := b.toNat_lt
  unfold be16; omega

theorem be32_lt (a b c d : UInt8) : be32 a b c d < 4294967296 := by
  have := a.toNat_lt; have := b.toNat_lt; have := c.toNat_lt; have := d.toNat_lt
  unfold be32; omega

/-- decoding the two octets written by `packUint16` gives the value back -/
theorem be16_enc16 (v : Nat) (h : v < 65536) :
    be16 (UInt8.ofNat (v / 256 % 256)) (UInt8.ofNat (v % 256)) = v := by
  unfold be16
  rw [u8_ofNat_toNat _ (by omega), u8_ofNat_toNat _ (by omega)]
  omega

/-- re-encoding two decoded octets gives the same octets -/
theorem enc16_be16 (a b : UInt8) : enc16 (be16 a b) = [a, b] := by
  have ha := a.toNat_lt; have hb := b.toNat_lt
  unfold enc16 be16
  have h1 : (a.toNat * 256 + b.toNat) / 256 % 256 = a.toNat := by omega
  have h2 : (a.toNat * 256 + b.toNat) % 256 = b.toNat := by omega
  rw [h1, h2]; simp

theorem be32_enc32 (v : Nat) (h : v < 4294967296) :
    be32 (UInt8.ofNat (v / 16777216 % 256)) (UInt8.ofNat (v / 65536 % 256))
      (UInt8.ofNat (v / 256 % 256)) (UInt8.ofNat (v % 256)) = v := by
  unfold be32
  rw [u8_ofNat_toNat _ (by omega), u8_ofNat_toNat _ (by omega), u8_ofNat_toNat _ (by omega),
    u8_ofNat_toNat _ (by omega)]
  omega

theorem enc32_be32 (a b c d : UInt8) : enc32 (be32 a b c d) = [a, b, c, d] := by
  have ha := a.toNat_lt; have hb := b.toNat_lt; have hc := c.toNat_lt; have hd := d.toNat_lt
  unfold enc32 be32
  have h1 : (((a.toNat * 256 + b.toNat) * 256 + c.toNat) * 256 + d.toNat) / 16777216 % 256 = a.toNat := by omega
  have h2 : (((a.toNat * 256 + b.toNat) * 256 + c.toNat) * 256 + d.toNat) / 65536 % 256 = b.toNat := by omega
  have h3 : (((a.toNat * 256 + b.toNat) * 256 + c.toNat) * 256 + d.toNat) / 256 % 256 = c.toNat := by omega
  have h4 : (((a.toNat * 256 + b.toNat) * 256 + c.toNat) * 256 + d.toNat) % 256 = d.toNat := by omega
  rw [h1, h2, h3, h4]; simp

@[simp] theorem enc16_length (v : Nat) : (enc16 v).length = 2 := rfl
@[simp] theorem enc32_length (v : Nat) : (enc32 v).length = 4 := rfl

/-! ### the label structure of a name -/

/-- `Labels s`: `s` is a sequence of labels `len :: octets` with `1 ≤ len ≤ 63`
    (what `NameScanner` walks through without error). -/
inductive Labels : Bytes → Prop
  | nil : Labels []
  | cons (l : UInt8) (lab rest : Bytes) :
      l.toNat ≠ 0 → l.toNat ≤ 63 → lab.length = l.toNat → Labels rest → Labels (l :: (lab ++ rest))

theorem Labels.append {a b : Bytes} (ha : Labels a) (hb : Labels b) : Labels (a ++ b) := by
  induction ha with
  | nil => simpa using hb
  | cons l lab rest h0 h63 hl _ ih =>
    have : l :: (lab ++ rest) ++ b = l :: (lab ++ (rest ++ b)) := by simp
    rw [this]
    exact Labels.cons l lab _ h0 h63 hl ih

theorem Labels.single (l : UInt8) (lab : Bytes) (h0 : l.toNat ≠ 0) (h63 : l.toNat ≤ 63)
    (hl : lab.length = l.toNat) : Labels (l :: lab) := by
  have := Labels.cons l lab [] h0 h63 hl Labels.nil
  simpa using this

/-- the scanner accepts exactly the label sequences -/
theorem scanLabelsAux_isSome_of_labels {s : Bytes} (hs : Labels s) :
    ∀ fuel, s.length ≤ fuel → (scanLabelsAux fuel s).isSome = true := by
  induction hs with
  | nil => intro fuel _; cases fuel <;> simp [scanLabelsAux]
  | cons l lab rest h0 h63 hl _ ih =>
    intro fuel hf
    cases fuel with
    | zero => simp at hf
    | succ f =>
      simp only [List.length_cons, List.length_append] at hf
      have hdrop : (lab ++ rest).drop l.toNat = rest := by rw [← hl]; simp
      have hcond : ¬ (l.toNat = 0 ∨ l.toNat > 63 ∨ (lab ++ rest).length < l.toNat) := by
        simp only [List.length_append]; omega
      have := ih f (by omega)
      simp only [scanLabelsAux, hcond, if_false, hdrop]
      cases h : scanLabelsAux f rest with
      | none => simp [h] at this
      | some ls => simp

theorem labels_of_scanLabelsAux_isSome :
    ∀ fuel (s : Bytes), (scanLabelsAux fuel s).isSome = true → Labels s := by
  intro fuel
  induction fuel with
  | zero =>
    intro s h
    cases s with
    | nil => exact Labels.nil
    | cons a t => simp [scanLabelsAux] at h
  | succ f ih =>
    intro s h
    cases s with
    | nil => exact Labels.nil
    | cons l rest =>
      simp only [scanLabelsAux] at h
      split at h
      · simp at h
      · rename_i hc
        have hrec : (scanLabelsAux f (rest.drop l.toNat)).isSome = true := by
          cases h2 : scanLabelsAux f (rest.drop l.toNat) with
          | none => simp [h2] at h
          | some ls => simp
        have hl := ih _ hrec
        have : l :: rest = l :: (rest.take l.toNat ++ rest.drop l.toNat) := by simp
        rw [this]
        refine Labels.cons l _ _ (by omega) (by omega) ?_ hl
        simp only [List.length_take]; omega

/-- `nameWF n` ⇔ at most 254 octets and a sequence of labels -/
theorem nameWF_iff (n : Name) : nameWF n = true ↔ n.length ≤ 254 ∧ Labels n := by
  unfold nameWF scanName
  constructor
  · intro h
    split at h
    · simp at h
    · exact ⟨by omega, labels_of_scanLabelsAux_isSome _ _ h⟩
  · intro ⟨hl, hs⟩
    rw [if_neg (by omega)]
    exact scanLabelsAux_isSome_of_labels hs _ (Nat.le_refl _)

theorem nameWF_nil : nameWF [] = true := by
  rw [nameWF_iff]; exact ⟨by simp, Labels.nil⟩

theorem namePackLen_of_wf {n : Name} (h : nameWF n = true) : namePackLen n = n.length + 1 := by
  rw [nameWF_iff] at h
  unfold namePackLen
  rw [if_neg (by omega)]

theorem namePackLen_le (n : Name) : namePackLen n ≤ 255 := by
  unfold namePackLen; split <;> omega

end MosVerif.Wire
