/-
  C07, converse direction: `MemoryCache` on the quirky backend refines the ideal TTL map.
-/
import MosVerif.Model.QCache
set_option linter.unusedSectionVars false
set_option linter.unusedSimpArgs false
namespace MosVerif.QCache

variable {K V : Type} [Inhabited K] [DecidableEq K]

/-- what a lookup at time `t` should see: the value of the key's node while its lifetime lasts -/
def viewAt (s : QState K V) (t : Nat) (k : K) : Option V :=
  match s.nodes k with
  | some n => if t < n.exp then (s.ents n.e).2 else none
  | none => none

def view (s : QState K V) (k : K) : Option V := viewAt s s.now k

/-- the ideal map's answer at time `t` -/
def Ideal.getAt (i : Ideal K V) (t : Nat) (k : K) : Option V :=
  match i.m k with
  | some (v, exp) => if t < exp then some v else none
  | none => none

theorem Ideal.get_eq (i : Ideal K V) (k : K) : i.get k = i.getAt i.now k := rfl

/-- the invariant of `MemoryCache` over the quirky backend -/
structure QInv (s : QState K V) : Prop where
  lt : ∀ k n, s.nodes k = some n → n.e < s.next
  /-- a live node's entry holds the node's key and a value -/
  own : ∀ k n, s.nodes k = some n → s.now < n.exp → ∃ v, s.ents n.e = (k, some v)
  /-- no listener call is queued for the entry of a live node -/
  notPend : ∀ k n, s.nodes k = some n → s.now < n.exp → n.e ∉ s.pend
  pendLt : ∀ e, e ∈ s.pend → e < s.next
  /-- entry objects are not shared between nodes (no recycling) -/
  inj : ∀ k k' n n', s.nodes k = some n → s.nodes k' = some n' → n.e = n'.e → k = k'
  /-- no leak: an allocated entry is referenced by the map, queued for release, or released -/
  noLeak : ∀ e, e < s.next → Referenced s e ∨ e ∈ s.pend ∨ (s.ents e).2 = none

/-- the refinement relation to the ideal TTL map -/
structure Rel (s : QState K V) (i : Ideal K V) : Prop where
  now : s.now = i.now
  /-- now and at every later time (as long as nothing else is stored) the two agree -/
  view : ∀ t, s.now ≤ t → ∀ k, viewAt s t k = i.getAt t k

theorem qinv_empty : QInv (QState.empty : QState K V) := by
  constructor <;> intros <;> simp_all [QState.empty]

theorem rel_empty : Rel (QState.empty : QState K V) Ideal.empty := by
  constructor
  · rfl
  · intro t _ k; simp [viewAt, QState.empty, Ideal.getAt, Ideal.empty]

theorem upd_same {α : Type} (f : Nat → α) (i : Nat) (x : α) : upd f i x i = x := by simp [upd]
theorem upd_ne {α : Type} (f : Nat → α) {i j : Nat} (x : α) (h : j ≠ i) : upd f i x j = f j := by
  simp [upd, h]
theorem updK_same {α : Type} (f : K → α) (k : K) (x : α) : updK f k x k = x := by simp [updK]
theorem updK_ne {α : Type} (f : K → α) {k j : K} (x : α) (h : j ≠ k) : updK f k x j = f j := by
  simp [updK, h]

/-- `e` is not the entry of a node whose lifetime lasts -/
def NotLive (s : QState K V) (e : Nat) : Prop := ∀ k n, s.nodes k = some n → s.now < n.exp → n.e ≠ e

theorem notLive_of_pend {s : QState K V} (h : QInv s) {e : Nat} (he : e ∈ s.pend) : NotLive s e := by
  intro k n hn hl heq
  exact h.notPend k n hn hl (heq ▸ he)

theorem notLive_of_expired {s : QState K V} (h : QInv s) {k : K} {n : Node} (hn : s.nodes k = some n)
    (hx : ¬ s.now < n.exp) : NotLive s n.e := by
  intro k' n' hn' hl heq
  have := h.inj k' k n' n hn' hn heq
  subst this
  rw [hn] at hn'
  cases hn'
  exact hx hl

theorem notLive_of_fresh {s : QState K V} (h : QInv s) {e : Nat} (he : s.next ≤ e) : NotLive s e := by
  intro k n hn _ heq
  have := h.lt k n hn
  omega

/-- queueing one more listener call for an entry that no live node uses -/
theorem qinv_pend_add {s : QState K V} (h : QInv s) {e : Nat} (hlt : e < s.next) (hnl : NotLive s e) :
    QInv { s with pend := e :: s.pend } := by
  refine ⟨h.lt, h.own, ?_, ?_, h.inj, ?_⟩
  · intro k n hn hl hm
    rcases List.mem_cons.mp hm with hm | hm
    · exact hnl k n hn hl hm
    · exact h.notPend k n hn hl hm
  · intro e' he'
    rcases List.mem_cons.mp he' with he' | he'
    · subst he'; exact hlt
    · exact h.pendLt e' he'
  · intro e' he'
    rcases h.noLeak e' he' with h1 | h1 | h1
    · exact .inl h1
    · exact .inr (.inl (List.mem_cons_of_mem _ h1))
    · exact .inr (.inr h1)

/-- `releaseEntry` on an entry that no live node uses -/
theorem qinv_release {s : QState K V} (h : QInv s) {e : Nat} (hnl : NotLive s e) : QInv (release s e) := by
  refine ⟨h.lt, ?_, h.notPend, h.pendLt, h.inj, ?_⟩
  · intro k n hn hl
    obtain ⟨v, hv⟩ := h.own k n hn hl
    have hne := hnl k n hn hl
    exact ⟨v, by simp only [release]; rw [upd_ne _ _ hne]; exact hv⟩
  · intro e' he'
    by_cases hee : e' = e
    · subst hee; exact .inr (.inr (by simp [release, upd_same]))
    · rcases h.noLeak e' he' with h1 | h1 | h1
      · exact .inl h1
      · exact .inr (.inl h1)
      · exact .inr (.inr (by simp only [release]; rw [upd_ne _ _ hee]; exact h1))

theorem view_release {s : QState K V} (h : QInv s) {e : Nat} (hnl : NotLive s e) (t : Nat)
    (ht : s.now ≤ t) (k : K) : viewAt (release s e) t k = viewAt s t k := by
  unfold viewAt
  simp only [release]
  cases hn : s.nodes k with
  | none => rfl
  | some n =>
    simp only
    by_cases hl : t < n.exp
    · simp only [hl, if_true]; rw [upd_ne _ _ (hnl k n hn (by omega))]
    · simp only [hl, if_false]

/-- the listener is called for a queued task -/
theorem fire_spec {s : QState K V} (h : QInv s) (i : Nat) :
    QInv (fire s i) ∧ (∀ t, s.now ≤ t → ∀ k, viewAt (fire s i) t k = viewAt s t k) ∧
      (fire s i).now = s.now := by
  unfold fire
  cases hi : s.pend[i]? with
  | none => exact ⟨h, fun _ _ _ => rfl, rfl⟩
  | some e =>
    simp only
    have hmem : e ∈ s.pend := List.mem_of_getElem? hi
    have hnl := notLive_of_pend h hmem
    refine ⟨?_, ?_, rfl⟩
    · refine ⟨h.lt, ?_, ?_, ?_, h.inj, ?_⟩
      · intro k n hn hl
        obtain ⟨v, hv⟩ := h.own k n hn hl
        have hne := hnl k n hn hl
        exact ⟨v, by simp only [release]; rw [upd_ne _ _ hne]; exact hv⟩
      · intro k n hn hl hm
        exact h.notPend k n hn hl (List.mem_of_mem_eraseIdx hm)
      · intro e' he'; exact h.pendLt e' (List.mem_of_mem_eraseIdx he')
      · intro e' he'
        by_cases hee : e' = e
        · subst hee; exact .inr (.inr (by simp [release, upd_same]))
        · rcases h.noLeak e' he' with h2 | h2 | h2
          · exact .inl h2
          · refine .inr (.inl ?_)
            simp only [release]
            rw [List.mem_eraseIdx_iff_getElem]
            obtain ⟨j, hj, hje⟩ := List.mem_iff_getElem.mp h2
            refine ⟨j, hj, ?_, hje⟩
            intro hji
            subst hji
            rw [List.getElem?_eq_getElem hj] at hi
            cases hi
            exact hee hje.symm
          · exact .inr (.inr (by simp only [release]; rw [upd_ne _ _ hee]; exact h2))
    · intro t ht k
      unfold viewAt
      simp only [release]
      cases hn : s.nodes k with
      | none => rfl
      | some n =>
        simp only
        by_cases hl : t < n.exp
        · simp only [hl, if_true]; rw [upd_ne _ _ (hnl k n hn (by omega))]
        · simp only [hl, if_false]

theorem fireAgain_spec {s : QState K V} (h : QInv s) (i : Nat) :
    QInv (fireAgain s i) ∧ (∀ t, s.now ≤ t → ∀ k, viewAt (fireAgain s i) t k = viewAt s t k) ∧
      (fireAgain s i).now = s.now := by
  unfold fireAgain
  cases hi : s.pend[i]? with
  | none => exact ⟨h, fun _ _ _ => rfl, rfl⟩
  | some e =>
    have hnl := notLive_of_pend h (List.mem_of_getElem? hi)
    exact ⟨qinv_release h hnl, view_release h hnl, rfl⟩

theorem tick_spec {s : QState K V} (h : QInv s) (d : Nat) : QInv (tick s d) := by
  refine ⟨h.lt, ?_, ?_, h.pendLt, h.inj, h.noLeak⟩
  · intro k n hn hl; exact h.own k n hn (by simp only [tick] at hl; omega)
  · intro k n hn hl; exact h.notPend k n hn (by simp only [tick] at hl; omega)

theorem tick_rel {s : QState K V} {i : Ideal K V} (r : Rel s i) (d : Nat) :
    Rel (tick s d) { i with now := i.now + d } := by
  refine ⟨by simp [tick, r.now], ?_⟩
  intro t ht k
  simp only [tick] at ht
  exact r.view t (by omega) k

theorem cleanup_spec {s : QState K V} (h : QInv s) (k : K) :
    QInv (cleanup s k) ∧ (∀ t, s.now ≤ t → ∀ k', viewAt (cleanup s k) t k' = viewAt s t k') ∧
      (cleanup s k).now = s.now := by
  unfold cleanup
  cases hn : s.nodes k with
  | none => exact ⟨h, fun _ _ _ => rfl, rfl⟩
  | some n =>
    simp only
    by_cases hl : s.now < n.exp
    · simp only [hl, if_true]; exact ⟨h, fun _ _ _ => trivial, trivial⟩
    · simp only [hl, if_false]
      refine ⟨?_, ?_, trivial⟩
      · refine ⟨?_, ?_, ?_, ?_, ?_, ?_⟩
        · intro k' n' hn'
          simp only [updK] at hn'
          split at hn'
          · cases hn'
          · exact h.lt k' n' hn'
        · intro k' n' hn' hl'
          simp only [updK] at hn'
          split at hn'
          · cases hn'
          · exact h.own k' n' hn' hl'
        · intro k' n' hn' hl' hm
          simp only [updK] at hn'
          split at hn'
          · cases hn'
          · rcases List.mem_cons.mp hm with hm | hm
            · exact notLive_of_expired h hn hl k' n' hn' hl' hm
            · exact h.notPend k' n' hn' hl' hm
        · intro e he
          rcases List.mem_cons.mp he with he | he
          · subst he; exact h.lt k n hn
          · exact h.pendLt e he
        · intro k1 k2 n1 n2 h1 h2 he
          simp only [updK] at h1 h2
          split at h1
          · cases h1
          · split at h2
            · cases h2
            · exact h.inj k1 k2 n1 n2 h1 h2 he
        · intro e he
          rcases h.noLeak e he with ⟨k', n', hn', hne⟩ | h1 | h1
          · by_cases hkk : k' = k
            · subst hkk
              rw [hn] at hn'; cases hn'
              exact .inr (.inl (by simp [hne]))
            · exact .inl ⟨k', n', by simp [updK, hkk, hn'], hne⟩
          · exact .inr (.inl (List.mem_cons_of_mem _ h1))
          · exact .inr (.inr h1)
      · intro t ht k'
        unfold viewAt
        by_cases hkk : k' = k
        · subst hkk
          have : ¬ t < n.exp := by omega
          simp [updK, hn, this]
        · simp [updK, hkk]

/-! ### lookups -/

/-- two states that differ in the queue of listener calls only -/
structure Same (s s' : QState K V) : Prop where
  nodes : s'.nodes = s.nodes
  ents : s'.ents = s.ents
  next : s'.next = s.next
  now : s'.now = s.now

theorem Same.refl (s : QState K V) : Same s s := ⟨rfl, rfl, rfl, rfl⟩
theorem Same.trans {a b c : QState K V} (h1 : Same a b) (h2 : Same b c) : Same a c :=
  ⟨h2.nodes.trans h1.nodes, h2.ents.trans h1.ents, h2.next.trans h1.next, h2.now.trans h1.now⟩

theorem Same.viewAt {s s' : QState K V} (h : Same s s') (t : Nat) (k : K) : viewAt s' t k = viewAt s t k := by
  unfold QCache.viewAt; rw [h.nodes, h.ents]

theorem Same.view {s s' : QState K V} (h : Same s s') (k : K) : view s' k = view s k := by
  unfold QCache.view; rw [h.now]; exact h.viewAt _ k

/-- `backend.Get`: a live node is returned and nothing changes; otherwise a miss, and at most a
    listener call for the expired node's entry is queued -/
theorem bGet_spec {s : QState K V} (h : QInv s) (k : K) :
    QInv (bGet s k).2 ∧ Same s (bGet s k).2 ∧
    (∀ e, (bGet s k).1 = some e → (bGet s k).2 = s ∧ ∃ n, s.nodes k = some n ∧ s.now < n.exp ∧ n.e = e) ∧
    ((bGet s k).1 = none → ∀ n, s.nodes k = some n → ¬ s.now < n.exp) := by
  unfold bGet
  cases hn : s.nodes k with
  | none => exact ⟨h, Same.refl s, by simp, by simp⟩
  | some n =>
    simp only
    by_cases hl : s.now < n.exp
    · simp only [hl, if_true]
      refine ⟨h, Same.refl s, ?_, by simp⟩
      intro e he; simp only [Option.some.injEq] at he
      exact ⟨trivial, n, rfl, hl, he⟩
    · simp only [hl, if_false]
      refine ⟨qinv_pend_add h (h.lt k n hn) (notLive_of_expired h hn hl), ⟨rfl, rfl, rfl, rfl⟩, by simp, ?_⟩
      intro _ n' hn'; cases hn'; exact hl

theorem getLoop_state {k : K} : ∀ (left misses : Nat) (gl : List Glitch) (s : QState K V), QInv s →
    QInv (getLoop left misses gl s k).2 ∧ Same s (getLoop left misses gl s k).2
  | 0, _, _, s, h => ⟨h, Same.refl s⟩
  | left + 1, misses, g :: gl, s, h => by
    cases g <;> simp only [getLoop]
    · split
      · exact getLoop_state left _ gl s h
      · exact ⟨h, Same.refl s⟩
    · exact getLoop_state left _ gl s h
    · exact getLoop_state left _ gl s h
  | left + 1, misses, [], s, h => by
    obtain ⟨h1, h2, _, _⟩ := bGet_spec h k
    simp only [getLoop]
    cases hb : bGet s k with
    | mk r s' =>
      rw [hb] at h1 h2
      simp only at h1 h2
      cases r with
      | none =>
        simp only
        split
        · obtain ⟨a, b⟩ := getLoop_state left (misses + 1) [] s' h1
          exact ⟨a, h2.trans b⟩
        · exact ⟨h1, h2⟩
      | some e =>
        simp only
        cases he : s'.ents e with
        | mk k' v' =>
          cases v' with
          | none =>
            simp only
            obtain ⟨a, b⟩ := getLoop_state left misses [] s' h1
            exact ⟨a, h2.trans b⟩
          | some v =>
            simp only
            split
            · exact ⟨h1, h2⟩
            · obtain ⟨a, b⟩ := getLoop_state left misses [] s' h1
              exact ⟨a, h2.trans b⟩

/-- a hit is the value of the key's live node — whatever glitches the lookup met -/
theorem getLoop_sound {k : K} : ∀ (left misses : Nat) (gl : List Glitch) (s : QState K V), QInv s →
    ∀ v, (getLoop left misses gl s k).1 = some v → view s k = some v
  | 0, _, _, s, _ => by intro v hv; simp [getLoop] at hv
  | left + 1, misses, g :: gl, s, h => by
    intro v hv
    cases g <;> simp only [getLoop] at hv
    · split at hv
      · exact getLoop_sound left _ gl s h v hv
      · cases hv
    · exact getLoop_sound left _ gl s h v hv
    · exact getLoop_sound left _ gl s h v hv
  | left + 1, misses, [], s, h => by
    intro v hv
    obtain ⟨h1, h2, h3, _⟩ := bGet_spec h k
    simp only [getLoop] at hv
    cases hb : bGet s k with
    | mk r s' =>
      rw [hb] at h1 h2 h3 hv
      simp only at h1 h2 h3 hv
      cases r with
      | none =>
        simp only at hv
        split at hv
        · rw [← h2.view k]; exact getLoop_sound left _ [] s' h1 v hv
        · cases hv
      | some e =>
        simp only at hv
        obtain ⟨hs, n, hn, hl, hne⟩ := h3 e rfl
        rw [hs] at hv h1
        cases he : s.ents e with
        | mk k' v' =>
          rw [he] at hv
          cases v' with
          | none => simp only at hv; exact getLoop_sound left _ [] s h1 v hv
          | some v0 =>
            simp only at hv
            split at hv
            · simp only [Option.some.injEq] at hv
              subst hv
              simp [view, viewAt, hn, hl, hne, he]
            · exact getLoop_sound left _ [] s h1 v hv

def deadCount (gl : List Glitch) : Nat := (gl.filter (· == .deadMiss)).length

/-- ★ a live key is never reported as a miss: with enough of the retry budget left for the glitches
    the lookup meets, it returns the live value -/
theorem getLoop_live {k : K} {v : V} : ∀ (left misses : Nat) (gl : List Glitch) (s : QState K V), QInv s →
    view s k = some v → gl.length < left → misses + deadCount gl < 3 →
    (getLoop left misses gl s k).1 = some v
  | 0, _, _, _, _ => by intro _ h; omega
  | left + 1, misses, g :: gl, s, h => by
    intro hv hlen hm
    simp only [List.length_cons] at hlen
    cases g <;> simp only [getLoop]
    · have hd : deadCount (Glitch.deadMiss :: gl) = deadCount gl + 1 := by simp [deadCount]
      rw [hd] at hm
      have : misses + 1 < 3 := by omega
      simp only [this, if_true]
      exact getLoop_live left _ gl s h hv (by omega) (by omega)
    · have hd : deadCount (Glitch.released :: gl) = deadCount gl := by simp [deadCount]
      exact getLoop_live left _ gl s h hv (by omega) (by omega)
    · have hd : deadCount (Glitch.locked :: gl) = deadCount gl := by simp [deadCount]
      exact getLoop_live left _ gl s h hv (by omega) (by omega)
  | left + 1, misses, [], s, h => by
    intro hv _ _
    simp only [view, viewAt] at hv
    cases hn : s.nodes k with
    | none => simp [hn] at hv
    | some n =>
      simp only [hn] at hv
      by_cases hl : s.now < n.exp
      · simp only [hl, if_true] at hv
        obtain ⟨v', hv'⟩ := h.own k n hn hl
        rw [hv'] at hv
        simp only [Option.some.injEq] at hv
        subst hv
        simp [getLoop, bGet, hn, hl, hv']
      · simp [hl] at hv

/-! ### stores -/

/-- the invariant while a `Store` runs: `x` is its new entry, filled with `(k, v)`, not yet known
    to the backend -/
structure QInvX (s : QState K V) (x : Nat) (k : K) (v : V) : Prop where
  lt : ∀ k n, s.nodes k = some n → n.e < s.next
  own : ∀ k n, s.nodes k = some n → s.now < n.exp → ∃ v, s.ents n.e = (k, some v)
  notPend : ∀ k n, s.nodes k = some n → s.now < n.exp → n.e ∉ s.pend
  pendLt : ∀ e, e ∈ s.pend → e < s.next
  inj : ∀ k k' n n', s.nodes k = some n → s.nodes k' = some n' → n.e = n'.e → k = k'
  xlt : x < s.next
  xfresh : ∀ k n, s.nodes k = some n → n.e ≠ x
  xpend : x ∉ s.pend
  xent : s.ents x = (k, some v)
  noLeak : ∀ e, e < s.next → e = x ∨ Referenced s e ∨ e ∈ s.pend ∨ (s.ents e).2 = none

theorem allocX {s : QState K V} (h : QInv s) (k : K) (v : V) :
    QInvX (alloc s k v) s.next k v ∧ (∀ t k', viewAt (alloc s k v) t k' = viewAt s t k') := by
  have hne : ∀ k n, s.nodes k = some n → n.e ≠ s.next := by
    intro k n hn; have := h.lt k n hn; omega
  refine ⟨⟨?_, ?_, h.notPend, ?_, h.inj, ?_, hne, ?_, ?_, ?_⟩, ?_⟩
  · intro k' n hn; have := h.lt k' n hn; simp only [alloc]; omega
  · intro k' n hn hl
    obtain ⟨v', hv'⟩ := h.own k' n hn hl
    exact ⟨v', by simp only [alloc]; rw [upd_ne _ _ (hne k' n hn)]; exact hv'⟩
  · intro e he; have := h.pendLt e he; simp only [alloc]; omega
  · simp [alloc]
  · intro hm; have := h.pendLt _ hm; omega
  · simp [alloc, upd_same]
  · intro e he
    simp only [alloc] at he
    by_cases hee : e = s.next
    · exact .inl hee
    · rcases h.noLeak e (by omega) with h1 | h1 | h1
      · exact .inr (.inl h1)
      · exact .inr (.inr (.inl h1))
      · exact .inr (.inr (.inr (by simp only [alloc]; rw [upd_ne _ _ hee]; exact h1)))
  · intro t k'
    unfold viewAt
    simp only [alloc]
    cases hn : s.nodes k' with
    | none => rfl
    | some n => simp only; rw [upd_ne _ _ (hne k' n hn)]

/-- an expired node's entry is not the entry of a live node -/
theorem notLiveX_of_expired {s : QState K V} {x : Nat} {kx : K} {vx : V} (h : QInvX s x kx vx) {k : K}
    {n : Node} (hn : s.nodes k = some n) (hx : ¬ s.now < n.exp) : NotLive s n.e := by
  intro k' n' hn' hl heq
  have := h.inj k' k n' n hn' hn heq
  subst this
  rw [hn] at hn'; cases hn'
  exact hx hl

theorem pendAddX {s : QState K V} {x : Nat} {kx : K} {vx : V} (h : QInvX s x kx vx) {e : Nat}
    (hlt : e < s.next) (hnl : NotLive s e) (hex : e ≠ x) : QInvX { s with pend := e :: s.pend } x kx vx := by
  refine ⟨h.lt, h.own, ?_, ?_, h.inj, h.xlt, h.xfresh, ?_, h.xent, ?_⟩
  · intro k n hn hl hm
    rcases List.mem_cons.mp hm with hm | hm
    · exact hnl k n hn hl hm
    · exact h.notPend k n hn hl hm
  · intro e' he'
    rcases List.mem_cons.mp he' with he' | he'
    · subst he'; exact hlt
    · exact h.pendLt e' he'
  · intro hm
    rcases List.mem_cons.mp hm with hm | hm
    · exact hex hm.symm
    · exact h.xpend hm
  · intro e' he'
    rcases h.noLeak e' he' with h1 | h1 | h1 | h1
    · exact .inl h1
    · exact .inr (.inl h1)
    · exact .inr (.inr (.inl (List.mem_cons_of_mem _ h1)))
    · exact .inr (.inr (.inr h1))

theorem bGetX {s : QState K V} {x : Nat} {kx : K} {vx : V} (h : QInvX s x kx vx) (k : K) :
    QInvX (bGet s k).2 x kx vx ∧ Same s (bGet s k).2 ∧
    ((bGet s k).1 = none → ∀ n, s.nodes k = some n → ¬ s.now < n.exp) ∧
    ((bGet s k).1 ≠ none → ∃ n, s.nodes k = some n ∧ s.now < n.exp) := by
  unfold bGet
  cases hn : s.nodes k with
  | none => exact ⟨h, Same.refl s, by simp, by simp⟩
  | some n =>
    simp only
    by_cases hl : s.now < n.exp
    · simp only [hl, if_true]
      exact ⟨h, Same.refl s, by simp, fun _ => ⟨n, rfl, hl⟩⟩
    · simp only [hl, if_false]
      refine ⟨pendAddX h (h.lt k n hn) (notLiveX_of_expired h hn hl) (h.xfresh k n hn), ⟨rfl, rfl, rfl, rfl⟩, ?_, by simp⟩
      intro _ n' hn'; cases hn'; exact hl

/-- `backend.Delete` of a key whose node (if any) is expired -/
theorem bDeleteX {s : QState K V} {x : Nat} {kx : K} {vx : V} (h : QInvX s x kx vx) (k : K)
    (hx : ∀ n, s.nodes k = some n → ¬ s.now < n.exp) :
    QInvX (bDelete s k) x kx vx ∧ (bDelete s k).nodes k = none ∧ (bDelete s k).now = s.now ∧
    (bDelete s k).next = s.next ∧
    (∀ t, s.now ≤ t → ∀ k', viewAt (bDelete s k) t k' = viewAt s t k') := by
  unfold bDelete
  cases hn : s.nodes k with
  | none => exact ⟨h, hn, rfl, rfl, fun _ _ _ => rfl⟩
  | some n =>
    simp only
    have hxn := hx n hn
    refine ⟨⟨?_, ?_, ?_, ?_, ?_, h.xlt, ?_, ?_, h.xent, ?_⟩, by simp [updK], trivial, trivial, ?_⟩
    · intro k' n' hn'
      simp only [updK] at hn'
      split at hn'
      · cases hn'
      · exact h.lt k' n' hn'
    · intro k' n' hn' hl'
      simp only [updK] at hn'
      split at hn'
      · cases hn'
      · exact h.own k' n' hn' hl'
    · intro k' n' hn' hl' hm
      simp only [updK] at hn'
      split at hn'
      · cases hn'
      · rcases List.mem_cons.mp hm with hm | hm
        · exact notLiveX_of_expired h hn hxn k' n' hn' hl' hm
        · exact h.notPend k' n' hn' hl' hm
    · intro e he
      rcases List.mem_cons.mp he with he | he
      · subst he; exact h.lt k n hn
      · exact h.pendLt e he
    · intro k1 k2 n1 n2 h1 h2 he
      simp only [updK] at h1 h2
      split at h1
      · cases h1
      · split at h2
        · cases h2
        · exact h.inj k1 k2 n1 n2 h1 h2 he
    · intro k' n' hn'
      simp only [updK] at hn'
      split at hn'
      · cases hn'
      · exact h.xfresh k' n' hn'
    · intro hm
      rcases List.mem_cons.mp hm with hm | hm
      · exact h.xfresh k n hn hm.symm
      · exact h.xpend hm
    · intro e he
      rcases h.noLeak e he with h1 | ⟨k', n', hn', hne⟩ | h1 | h1
      · exact .inl h1
      · by_cases hkk : k' = k
        · subst hkk
          rw [hn] at hn'; cases hn'
          exact .inr (.inr (.inl (by simp [hne])))
        · exact .inr (.inl ⟨k', n', by simp [updK, hkk, hn'], hne⟩)
      · exact .inr (.inr (.inl (List.mem_cons_of_mem _ h1)))
      · exact .inr (.inr (.inr h1))
    · intro t ht k'
      unfold viewAt
      by_cases hkk : k' = k
      · subst hkk
        have : ¬ t < n.exp := by omega
        simp [updK, hn, this]
      · simp [updK, hkk]

/-- the new entry becomes the key's node (`Set`, or a `SetIfAbsent` that found no node) -/
theorem insertX {s : QState K V} {x : Nat} {k : K} {v : V} (h : QInvX s x k v) (ttl : Nat) :
    QInv (bSet s k x ttl) ∧ (bSet s k x ttl).now = s.now ∧
    (∀ t k', viewAt (bSet s k x ttl) t k' =
      if k' = k then (if t < s.now + ttl then some v else none) else viewAt s t k') := by
  have hold : ∀ e, e ∈ (match s.nodes k with | some n => [n.e] | none => []) →
      ∃ n, s.nodes k = some n ∧ n.e = e := by
    intro e he
    cases hn : s.nodes k with
    | none => simp [hn] at he
    | some n => simp only [hn, List.mem_singleton] at he; exact ⟨n, rfl, he.symm⟩
  refine ⟨⟨?_, ?_, ?_, ?_, ?_, ?_⟩, rfl, ?_⟩
  · intro k' n' hn'
    simp only [bSet, updK] at hn'
    split at hn'
    · cases hn'; exact h.xlt
    · exact h.lt k' n' hn'
  · intro k' n' hn' hl'
    simp only [bSet, updK] at hn'
    split at hn'
    · next hkk => cases hn'; subst hkk; exact ⟨v, h.xent⟩
    · exact h.own k' n' hn' hl'
  · intro k' n' hn' hl' hm
    simp only [bSet, updK] at hn'
    simp only [bSet] at hm
    split at hn'
    · cases hn'
      rcases List.mem_append.mp hm with hm | hm
      · obtain ⟨n, hn, hne⟩ := hold _ hm
        exact h.xfresh k n hn hne
      · exact h.xpend hm
    · next hkk =>
      rcases List.mem_append.mp hm with hm | hm
      · obtain ⟨n, hn, hne⟩ := hold _ hm
        exact hkk (h.inj k' k n' n hn' hn hne.symm)
      · exact h.notPend k' n' hn' hl' hm
  · intro e he
    simp only [bSet] at he
    rcases List.mem_append.mp he with he | he
    · obtain ⟨n, hn, hne⟩ := hold _ he
      subst hne; exact h.lt k n hn
    · exact h.pendLt e he
  · intro k1 k2 n1 n2 h1 h2 he
    simp only [bSet, updK] at h1 h2
    split at h1
    · next hk1 =>
      cases h1
      split at h2
      · next hk2 => rw [hk1, hk2]
      · exact absurd he.symm (h.xfresh k2 n2 h2)
    · split at h2
      · cases h2; exact absurd he (h.xfresh k1 n1 h1)
      · exact h.inj k1 k2 n1 n2 h1 h2 he
  · intro e he
    simp only [bSet] at he
    rcases h.noLeak e he with h1 | ⟨k', n', hn', hne⟩ | h1 | h1
    · subst h1; exact .inl ⟨k, ⟨e, s.now + ttl⟩, by simp [bSet, updK], rfl⟩
    · by_cases hkk : k' = k
      · subst hkk
        refine .inr (.inl ?_)
        simp only [bSet, hn']
        simp [hne]
      · exact .inl ⟨k', n', by simp [bSet, updK, hkk, hn'], hne⟩
    · exact .inr (.inl (by simp only [bSet]; exact List.mem_append_right _ h1))
    · exact .inr (.inr h1)
  · intro t k'
    unfold viewAt
    by_cases hkk : k' = k
    · subst hkk
      simp [bSet, updK, h.xent]
    · simp [bSet, updK, hkk]

theorem bSetIfAbsent_none {s : QState K V} {k : K} (hn : s.nodes k = none) (e ttl : Nat) :
    bSetIfAbsent s k e ttl = (true, bSet s k e ttl) := by
  simp [bSetIfAbsent, bSet, hn]

theorem bSetIfAbsent_some {s : QState K V} {k : K} {n : Node} (hn : s.nodes k = some n) (e ttl : Nat) :
    bSetIfAbsent s k e ttl = (false, s) := by
  simp [bSetIfAbsent, hn]

/-- the new entry was refused: it is released at once -/
theorem releaseX {s : QState K V} {x : Nat} {k : K} {v : V} (h : QInvX s x k v) :
    QInv (release s x) ∧ (∀ t k', viewAt (release s x) t k' = viewAt s t k') := by
  refine ⟨⟨h.lt, ?_, h.notPend, h.pendLt, h.inj, ?_⟩, ?_⟩
  · intro k' n hn hl
    obtain ⟨v', hv'⟩ := h.own k' n hn hl
    exact ⟨v', by simp only [release]; rw [upd_ne _ _ (h.xfresh k' n hn)]; exact hv'⟩
  · intro e he
    by_cases hee : e = x
    · subst hee; exact .inr (.inr (by simp [release, upd_same]))
    · rcases h.noLeak e he with h1 | h1 | h1 | h1
      · exact absurd h1 hee
      · exact .inl h1
      · exact .inr (.inl h1)
      · exact .inr (.inr (by simp only [release]; rw [upd_ne _ _ hee]; exact h1))
  · intro t k'
    unfold viewAt
    simp only [release]
    cases hn : s.nodes k' with
    | none => rfl
    | some n => simp only; rw [upd_ne _ _ (h.xfresh k' n hn)]

/-- what `Store` does to the lookups' view: either nothing (a negative answer met a live entry) or
    the key now maps to the new value for `ttl` -/
theorem store_spec {s : QState K V} (h : QInv s) (k : K) (v : V) (ttl : Nat) (nx : Bool) :
    QInv (store s k v ttl nx) ∧ (store s k v ttl nx).now = s.now ∧
    ((nx = true ∧ (view s k).isSome ∧ ∀ t, s.now ≤ t → ∀ k', viewAt (store s k v ttl nx) t k' = viewAt s t k') ∨
     ((nx = false ∨ view s k = none) ∧ ∀ t, s.now ≤ t → ∀ k', viewAt (store s k v ttl nx) t k' =
        if k' = k then (if t < s.now + ttl then some v else none) else viewAt s t k')) := by
  obtain ⟨hx, hva⟩ := allocX h k v
  have hnow : (alloc s k v).now = s.now := rfl
  have hnodes : (alloc s k v).nodes = s.nodes := rfl
  unfold store
  simp only
  cases nx with
  | false =>
    simp only [Bool.false_eq_true, if_false]
    obtain ⟨a, b, c⟩ := insertX hx ttl
    refine ⟨a, b, .inr ⟨by simp, ?_⟩⟩
    intro t _ k'
    rw [c t k', hva t k', hnow]
  | true =>
    simp only [if_true]
    cases hn : s.nodes k with
    | none =>
      rw [bSetIfAbsent_none (by rw [hnodes]; exact hn)]
      simp only
      obtain ⟨a, b, c⟩ := insertX hx ttl
      refine ⟨a, b, .inr ⟨.inr (by simp [view, viewAt, hn]), ?_⟩⟩
      intro t _ k'
      rw [c t k', hva t k', hnow]
    | some n =>
      rw [bSetIfAbsent_some (n := n) (by rw [hnodes]; exact hn)]
      simp only
      obtain ⟨g1, g2, g3, g4⟩ := bGetX hx k
      cases hb : bGet (alloc s k v) k with
      | mk r s1 =>
        rw [hb] at g1 g2 g3 g4
        simp only at g1 g2 g3 g4
        cases r with
        | some e =>
          simp only
          obtain ⟨n', hn', hl'⟩ := g4 (by simp)
          rw [hnodes, hn] at hn'; cases hn'
          obtain ⟨a, b⟩ := releaseX g1
          have hl'' : s.now < n.exp := hl'
          refine ⟨a, by simp only [release]; rw [g2.now]; exact hnow, .inl ⟨by simp, ?_, ?_⟩⟩
          · obtain ⟨v', hv'⟩ := h.own k n hn hl''
            simp [view, viewAt, hn, hl'', hv']
          · intro t _ k'
            rw [b t k', g2.viewAt t k', hva t k']
        | none =>
          simp only
          have hexp := g3 rfl
          have hexp1 : ∀ n, s1.nodes k = some n → ¬ s1.now < n.exp := by
            intro n1 hn1; rw [g2.nodes] at hn1; rw [g2.now]; exact hexp n1 hn1
          obtain ⟨d1, d2, d3, d4, d5⟩ := bDeleteX g1 k hexp1
          rw [bSetIfAbsent_none d2]
          simp only
          obtain ⟨a, b, c⟩ := insertX d1 ttl
          have hnotlive : ¬ s.now < n.exp := hexp n (by rw [hnodes]; exact hn)
          refine ⟨a, by rw [b, d3, g2.now]; exact hnow, .inr ⟨.inr (by simp [view, viewAt, hn, hnotlive]), ?_⟩⟩
          intro t ht k'
          rw [c t k', d3, g2.now, hnow]
          by_cases hkk : k' = k
          · simp [hkk]
          · simp only [hkk, if_false]
            rw [d5 t (by rw [g2.now, hnow]; exact ht) k', g2.viewAt t k', hva t k']

theorem Ideal.store_getAt (i : Ideal K V) (k : K) (v : V) (ttl : Nat) (nx : Bool) (t : Nat) (k' : K) :
    (i.store k v ttl nx).getAt t k' =
      if nx && (i.get k).isSome then i.getAt t k'
      else if k' = k then (if t < i.now + ttl then some v else none) else i.getAt t k' := by
  unfold Ideal.store
  split
  · rfl
  · simp only [Ideal.getAt, updK]
    by_cases hkk : k' = k
    · simp [hkk]
    · simp [hkk]

/-- ★ `Store` on the quirky backend is `Store` on the ideal TTL map -/
theorem store_rel {s : QState K V} {i : Ideal K V} (h : QInv s) (r : Rel s i) (k : K) (v : V)
    (ttl : Nat) (nx : Bool) :
    QInv (store s k v ttl nx) ∧ Rel (store s k v ttl nx) (i.store k v ttl nx) := by
  obtain ⟨h1, h2, h3⟩ := store_spec h k v ttl nx
  have hview : view s k = i.get k := by
    unfold view; rw [Ideal.get_eq, ← r.now]; exact r.view _ (Nat.le_refl _) k
  have hinow : (i.store k v ttl nx).now = i.now := by unfold Ideal.store; split <;> rfl
  refine ⟨h1, ⟨by rw [h2, hinow, r.now], ?_⟩⟩
  intro t ht k'
  rw [h2] at ht
  rw [Ideal.store_getAt]
  rcases h3 with ⟨hnx, hlive, hv⟩ | ⟨hc, hv⟩
  · rw [hv t ht k', hnx, ← hview, hlive]
    simp only [Bool.and_self, if_true]
    exact r.view t ht k'
  · rw [hv t ht k']
    have hcond : (nx && (i.get k).isSome) = false := by
      rcases hc with hc | hc
      · simp [hc]
      · rw [← hview, hc]; simp
    simp only [hcond, Bool.false_eq_true, if_false, r.now]
    split
    · rfl
    · exact r.view t ht k'

/-- ★ `Get`: whatever it returns is the ideal map's answer or a miss, never anything else; and with
    glitches inside the retry budget it *is* the ideal map's answer — a live key is never a miss. -/
theorem get_rel {s : QState K V} {i : Ideal K V} (h : QInv s) (r : Rel s i) (k : K) (gl : List Glitch) :
    QInv (get s k gl).2 ∧ Rel (get s k gl).2 i ∧
    (∀ v, (get s k gl).1 = some v → i.get k = some v) ∧
    (Glitch.ok gl = true → (get s k gl).1 = i.get k) := by
  have hview : view s k = i.get k := by
    unfold view; rw [Ideal.get_eq, ← r.now]; exact r.view _ (Nat.le_refl _) k
  obtain ⟨a, b⟩ := getLoop_state (k := k) 8 0 gl s h
  refine ⟨a, ⟨by rw [← r.now]; exact b.now, ?_⟩, ?_, ?_⟩
  · intro t ht k'
    have : (get s k gl).2.now = s.now := b.now
    rw [this] at ht
    exact (b.viewAt t k').trans (r.view t ht k')
  · intro v hv
    rw [← hview]; exact getLoop_sound 8 0 gl s h v hv
  · intro hok
    simp only [Glitch.ok, Bool.and_eq_true, decide_eq_true_eq] at hok
    cases hg : i.get k with
    | none =>
      cases hr : (get s k gl).1 with
      | none => rfl
      | some v =>
        have := getLoop_sound 8 0 gl s h v hr
        rw [hview, hg] at this; cases this
    | some v =>
      exact getLoop_live 8 0 gl s h (hview.trans hg) (by omega) (by unfold deadCount; omega)

/-- the glitch scripts of all lookups of an op sequence are within the retry budget -/
def OpsOk : List (Op K V) → Prop
  | [] => True
  | .get _ gl :: rest => Glitch.ok gl = true ∧ OpsOk rest
  | _ :: rest => OpsOk rest

theorem apply_rel {s : QState K V} {i : Ideal K V} (h : QInv s) (r : Rel s i) (op : Op K V) :
    QInv (apply s op) ∧ Rel (apply s op) (i.apply op) := by
  cases op with
  | store k v ttl nx => exact store_rel h r k v ttl nx
  | get k gl => obtain ⟨a, b, _, _⟩ := get_rel h r k gl; exact ⟨a, b⟩
  | fire j =>
    obtain ⟨a, b, c⟩ := fire_spec h j
    exact ⟨a, ⟨c.trans r.now, fun t ht k => (b t (c ▸ ht) k).trans (r.view t (c ▸ ht) k)⟩⟩
  | fireAgain j =>
    obtain ⟨a, b, c⟩ := fireAgain_spec h j
    exact ⟨a, ⟨c.trans r.now, fun t ht k => (b t (c ▸ ht) k).trans (r.view t (c ▸ ht) k)⟩⟩
  | tick d => exact ⟨tick_spec h d, tick_rel r d⟩
  | cleanup k =>
    obtain ⟨a, b, c⟩ := cleanup_spec h k
    exact ⟨a, ⟨c.trans r.now, fun t ht k' => (b t (c ▸ ht) k').trans (r.view t (c ▸ ht) k')⟩⟩

/-- ★ refinement over ALL op sequences (stores, lookups with any glitches, listener calls — also
    repeated ones —, clock steps, clean-ups), from any related pair of states -/
theorem run_rel {s : QState K V} {i : Ideal K V} (h : QInv s) (r : Rel s i) (ops : List (Op K V)) :
    QInv (run s ops) ∧ Rel (run s ops) (i.run ops) := by
  induction ops generalizing s i with
  | nil => exact ⟨h, r⟩
  | cons op rest ih =>
    obtain ⟨a, b⟩ := apply_rel h r op
    exact ih a b

theorem glitch_ok_nil : Glitch.ok [] = true := by decide

/-! ### `cachehist` -/

structure HistRel (s : QState String String) (past : List (String × String)) : Prop where
  inv : QInv s
  sound : ∀ key fp, view s key = some fp → (key, fp) ∈ past
  complete : ∀ key, past.any (·.1 == key) = true → (view s key).isSome = true

theorem view_store {s : QState K V} (h : QInv s) (k : K) (v : V) (ttl : Nat) (nx : Bool) (hpos : 0 < ttl)
    (k' : K) : view (store s k v ttl nx) k' =
      if nx && (view s k).isSome then view s k' else if k' = k then some v else view s k' := by
  obtain ⟨_, h2, h3⟩ := store_spec h k v ttl nx
  unfold view
  rw [h2]
  rcases h3 with ⟨hnx, hlive, hv⟩ | ⟨hc, hv⟩
  · rw [hv _ (Nat.le_refl _) k']
    have : (viewAt s s.now k).isSome = true := hlive
    simp [hnx, this]
  · rw [hv _ (Nat.le_refl _) k']
    have hcond : (nx && (viewAt s s.now k).isSome) = false := by
      rcases hc with hc | hc
      · simp [hc]
      · have : viewAt s s.now k = none := hc
        rw [this]; simp
    have hlt : s.now < s.now + ttl := by omega
    simp [hcond, hlt]

theorem histRel_store {s : QState String String} {past : List (String × String)} (h : HistRel s past)
    (key fp : String) (nx : Bool) : HistRel (store s key fp histTtl nx) ((key, fp) :: past) := by
  have hv := view_store h.inv key fp histTtl nx (by decide)
  refine ⟨(store_spec h.inv key fp histTtl nx).1, ?_, ?_⟩
  · intro k' f hg
    rw [hv k'] at hg
    split at hg
    · exact List.mem_cons_of_mem _ (h.sound k' f hg)
    · split at hg
      · next hk => simp only [Option.some.injEq] at hg; subst hg; subst hk; exact List.mem_cons_self
      · exact List.mem_cons_of_mem _ (h.sound k' f hg)
  · intro k' hany
    rw [hv k']
    simp only [List.any_cons, Bool.or_eq_true, beq_iff_eq] at hany
    by_cases hk : k' = key
    · subst hk
      split
      · next hc => simp only [Bool.and_eq_true] at hc; exact hc.2
      · simp
    · have hp : past.any (·.1 == k') = true := by
        rcases hany with hany | hany
        · exact absurd hany.symm hk
        · exact hany
      have := h.complete k' hp
      split
      · exact this
      · simp [hk, this]

theorem get_nil {s : QState K V} (h : QInv s) (k : K) :
    (get s k []).1 = view s k ∧ QInv (get s k []).2 ∧ ∀ k', view (get s k []).2 k' = view s k' := by
  obtain ⟨a, b⟩ := getLoop_state (k := k) 8 0 [] s h
  refine ⟨?_, a, fun k' => b.view k'⟩
  cases hv : view s k with
  | some v => exact getLoop_live 8 0 [] s h hv (by simp) (by simp [deadCount])
  | none =>
    cases hr : (get s k []).1 with
    | none => rfl
    | some v => have := getLoop_sound 8 0 [] s h v hr; rw [hv] at this; cases this

theorem histRel_get {s : QState String String} {past : List (String × String)} (h : HistRel s past)
    (key : String) : HistRel (get s key []).2 past := by
  obtain ⟨_, b, c⟩ := get_nil h.inv key
  exact ⟨b, fun k f hg => h.sound k f (by rw [← c k]; exact hg),
    fun k hp => by rw [c k]; exact h.complete k hp⟩

theorem hist_meets_spec_gen : ∀ (ops : List HOp) (s : QState String String) (past : List (String × String)),
    HistRel s past → histSpec past ops (histModel s ops) = true
  | [], _, _, _ => rfl
  | .store key fp nx :: rest, s, past, h => by
    simp only [histModel, histSpec]
    exact hist_meets_spec_gen rest _ _ (histRel_store h key fp nx)
  | .get key :: rest, s, past, h => by
    obtain ⟨a, _, _⟩ := get_nil h.inv key
    have hr := histRel_get h key
    simp only [histModel]
    cases hg : get s key [] with
    | mk res s' =>
      rw [hg] at a hr
      simp only at a hr
      cases res with
      | some fp =>
        simp only [histSpec, Bool.and_eq_true, List.contains_iff_mem]
        exact ⟨h.sound key fp a.symm, hist_meets_spec_gen rest s' past hr⟩
      | none =>
        simp only [histSpec, Bool.and_eq_true, Bool.not_eq_eq_eq_not, Bool.not_true]
        refine ⟨?_, hist_meets_spec_gen rest s' past hr⟩
        cases ha : past.any (·.1 == key) with
        | false => rfl
        | true => have := h.complete key ha; rw [← a] at this; cases this
  | .handle key fp :: rest, s, past, h => by
    obtain ⟨a, _, _⟩ := get_nil h.inv key
    have hr := histRel_get h key
    simp only [histModel]
    cases hg : get s key [] with
    | mk res s' =>
      rw [hg] at a hr
      simp only at a hr
      cases res with
      | some c =>
        simp only [histSpec, Bool.and_eq_true, List.contains_iff_mem]
        exact ⟨h.sound key c a.symm, hist_meets_spec_gen rest s' past hr⟩
      | none =>
        simp only [histSpec, Bool.and_eq_true, Bool.not_eq_eq_eq_not, Bool.not_true, beq_self_eq_true,
          and_true]
        refine ⟨?_, hist_meets_spec_gen rest _ _ (histRel_store hr key fp false)⟩
        cases ha : past.any (·.1 == key) with
        | false => rfl
        | true => have := h.complete key ha; rw [← a] at this; cases this

/-! ### `cacheconv` -/

structure CRel (c : CState) (ic : IState) : Prop where
  inv : QInv c.q
  rel : Rel c.q ic.i
  fillers : c.fillers = ic.fillers
  nfill : c.nfill = ic.nfill

theorem crel_store {c : CState} {ic : IState} (h : CRel c ic) (k v : String) (ttl : Nat) (nx : Bool) :
    CRel { c with q := store c.q k v ttl nx } { ic with i := ic.i.store k v ttl nx } := by
  obtain ⟨a, b⟩ := store_rel h.inv h.rel k v ttl nx
  exact ⟨a, b, h.fillers, h.nfill⟩

theorem crel_get {c : CState} {ic : IState} (h : CRel c ic) (k : String) :
    (get c.q k []).1 = ic.i.get k ∧ CRel { c with q := (get c.q k []).2 } ic := by
  obtain ⟨a, b, _, d⟩ := get_rel h.inv h.rel k []
  exact ⟨d glitch_ok_nil, ⟨a, b, h.fillers, h.nfill⟩⟩

theorem crel_write : ∀ (n : Nat) {c : CState} {ic : IState}, CRel c ic →
    CRel (writeFillers n c) (iwriteFillers n ic)
  | 0, _, _, h => h
  | n + 1, c, ic, h => by
    simp only [writeFillers, iwriteFillers]
    obtain ⟨a, b⟩ := store_rel h.inv h.rel (fillerKey (c.nfill + 1)) "0" 3600000 false
    refine crel_write n ⟨a, ?_, ?_, ?_⟩
    · rw [← h.nfill]; exact b
    · simp only; rw [h.fillers, h.nfill]
    · simp only; rw [h.nfill]

theorem drain_spec {i : Ideal String String} : ∀ (fuel : Nat) (s : QState String String), QInv s → Rel s i →
    QInv (drain fuel s) ∧ Rel (drain fuel s) i
  | 0, _, h, r => ⟨h, r⟩
  | fuel + 1, s, h, r => by
    simp only [drain]
    split
    · exact ⟨h, r⟩
    · obtain ⟨a, b, c⟩ := fire_spec h 0
      exact drain_spec fuel _ a
        ⟨c.trans r.now, fun t ht k => (b t (c ▸ ht) k).trans (r.view t (c ▸ ht) k)⟩

theorem check_spec {i : Ideal String String} : ∀ (l : List String) (s : QState String String), QInv s →
    Rel s i → (checkFillers l s).1 = icheckFillers i l ∧ QInv (checkFillers l s).2 ∧ Rel (checkFillers l s).2 i
  | [], _, h, r => ⟨rfl, h, r⟩
  | key :: rest, s, h, r => by
    obtain ⟨a, b, _, d⟩ := get_rel h r key []
    have hd := d glitch_ok_nil
    simp only [checkFillers, icheckFillers]
    cases hg : get s key [] with
    | mk res s' =>
      rw [hg] at a b hd
      simp only at a b hd
      obtain ⟨e1, e2, e3⟩ := check_spec rest s' a b
      cases res with
      | some v =>
        simp only
        rw [← hd]
        simp only [Option.isSome_some, if_true, Nat.zero_add]
        exact ⟨e1, e2, e3⟩
      | none =>
        simp only
        rw [← hd]
        simp only [Option.isSome_none, Bool.false_eq_true, if_false]
        exact ⟨by rw [e1]; omega, e2, e3⟩

/-- the model's run of a `cacheconv` case equals the ideal TTL map's -/
theorem conv_eq (cfgMax : Nat) : ∀ (ops : List COp) (c : CState) (ic : IState), CRel c ic →
    convModel cfgMax c ops = convIdeal cfgMax ic ops
  | [], _, _, _ => rfl
  | .x k :: rest, c, ic, h => by
    simp only [convModel, convIdeal]
    rw [conv_eq cfgMax rest _ _ (crel_store h k "0" 0 false)]
  | .h k r kind :: rest, c, ic, h => by
    obtain ⟨a, b⟩ := crel_get h k
    simp only [convModel, convIdeal]
    cases hg : get c.q k [] with
    | mk res q' =>
      rw [hg] at a b
      simp only at a b
      rw [← a]
      cases res with
      | some r' => simp only; rw [conv_eq cfgMax rest _ _ b]
      | none =>
        simp only
        rw [conv_eq cfgMax rest _ _ (crel_store b k r (kind.ttl cfgMax) kind.nx)]
  | .s k r kind :: rest, c, ic, h => by
    simp only [convModel, convIdeal]
    rw [conv_eq cfgMax rest _ _ (crel_store h k r (kind.ttl cfgMax) kind.nx)]
  | .g k :: rest, c, ic, h => by
    obtain ⟨a, b⟩ := crel_get h k
    simp only [convModel, convIdeal]
    cases hg : get c.q k [] with
    | mk res q' =>
      rw [hg] at a b
      simp only at a b
      rw [← a]
      cases res with
      | some r' => simp only; rw [conv_eq cfgMax rest _ _ b]
      | none => simp only; rw [conv_eq cfgMax rest _ _ b]
  | .w n :: rest, c, ic, h => by
    have hw := crel_write n h
    obtain ⟨a, b⟩ := drain_spec ((writeFillers n c).q.pend.length + 1) _ hw.inv hw.rel
    simp only [convModel, convIdeal]
    exact congrArg _ (conv_eq cfgMax rest
      { writeFillers n c with q := drain ((writeFillers n c).q.pend.length + 1) (writeFillers n c).q }
      (iwriteFillers n ic) ⟨a, b, hw.fillers, hw.nfill⟩)
  | .v :: rest, c, ic, h => by
    obtain ⟨a, b, d⟩ := check_spec c.fillers c.q h.inv h.rel
    simp only [convModel, convIdeal]
    cases hc : checkFillers c.fillers c.q with
    | mk missed q' =>
      rw [hc] at a b d
      simp only at a b d
      simp only
      rw [a, conv_eq cfgMax rest { c with q := q' } ic ⟨b, d, h.fillers, h.nfill⟩, h.fillers]
  | .z ms :: rest, c, ic, h => by
    simp only [convModel, convIdeal]
    exact congrArg _ (conv_eq cfgMax rest { c with q := tick c.q ms }
      { ic with i := { ic.i with now := ic.i.now + ms } }
      ⟨tick_spec h.inv ms, tick_rel h.rel ms, h.fillers, h.nfill⟩)
  | .r k _ _ :: rest, c, ic, h => by
    have hs := crel_store h k "0" 3600000 false
    obtain ⟨a, b⟩ := crel_get hs k
    have hlive : (ic.i.store k "0" 3600000 false).get k = some "0" := by
      simp [Ideal.store, Ideal.get, updK]
    simp only [convModel, convIdeal]
    cases hg : get (store c.q k "0" 3600000 false) k [] with
    | mk res q' =>
      rw [hg] at a b
      simp only at a b
      rw [hlive] at a
      subst a
      simp only
      rw [conv_eq cfgMax rest _ _ b]

end MosVerif.QCache
