/-
  Tie by translation (C01/C02): questions, resource headers, the per-type RDATA decoders and the header word.
  Every theorem: the model's function = the mechanical translation of the current Go function (re-packed into the
  model's structures), for all byte strings, offsets and lengths.
-/
import MosVerif.Lemmas.TranslatedCodecName
namespace MosVerif.Wire
open MosVerif

theorem Res.bind_assoc' {α β γ} (x : Res α) (f : α → Res β) (g : β → Res γ) :
    ((x >>= f) >>= g) = (x >>= fun a => f a >>= g) := by
  cases x <;> rfl

theorem Res.bind_congr' {α β} {x : Res α} {f g : α → Res β} (h : ∀ a, x = .ok a → f a = g a) :
    (x >>= f) = (x >>= g) := by
  cases x with
  | ok a => exact h a rfl
  | err => rfl
  | panic => rfl

/-! ### offsets only grow (needed where Go subtracts two `int` offsets) -/

theorem nameLoop_off (msg : Bytes) (currOff newOff ptr : Nat) (name : Bytes) :
    ∀ n o, nameLoop msg currOff newOff ptr name = .ok (n, o) → (ptr = 0 → currOff < o) ∧ (ptr ≠ 0 → o = newOff) := by
  fun_induction nameLoop msg currOff newOff ptr name
  case case1 => intros; simp_all
  case case2 => intros; simp_all
  case case3 currOff newOff ptr name h c currOff1 hlt hz newOff' hsmall =>
    intro n o heq
    simp only [Res.ok.injEq, Prod.mk.injEq] at heq
    obtain ⟨rfl, rfl⟩ := heq
    simp only [newOff', currOff1]
    constructor <;> intro hp <;> simp [hp]
  case case4 => intros; simp_all
  case case5 => intros; simp_all
  case case6 hcap ih =>
    intro n o heq
    have := ih n o heq
    constructor
    · intro hp; have := this.1 hp; omega
    · exact this.2
  case case7 => intros; simp_all
  case case8 => intros; simp_all
  case case9 currOff newOff ptr name h c currOff1 hnlt hge h2 c1 currOff2 newOff' hp ih =>
    intro n o heq
    have := (ih n o heq).2 (by omega)
    simp only [newOff', currOff2, currOff1] at this
    constructor
    · intro hp0; simp [hp0] at this; omega
    · intro hp0; simp [hp0] at this; exact this
  case case10 => intros; simp_all

theorem unpackName_off (msg : Bytes) (off : Nat) (n : Name) (o : Nat) (h : unpackName msg off = .ok (n, o)) : off < o :=
  (nameLoop_off msg off off 0 [] n o h).1 rfl

theorem u16At_off (msg : Bytes) (off : Nat) (v o : Nat) (h : u16At msg off = .ok (v, o)) : o = off + 2 := by
  unfold u16At at h
  cases hs : sliceFrom msg off with
  | err => simp [hs] at h
  | panic => simp [hs] at h
  | ok buf =>
    match buf, hs with
    | [], hs => simp [hs] at h
    | [_], hs => simp [hs] at h
    | a :: b :: r, hs => simp [hs] at h; omega

theorem u32At_off (msg : Bytes) (off : Nat) (v o : Nat) (h : u32At msg off = .ok (v, o)) : o = off + 4 := by
  unfold u32At at h
  cases hs : sliceFrom msg off with
  | err => simp [hs] at h
  | panic => simp [hs] at h
  | ok buf =>
    match buf, hs with
    | [], hs => simp [hs] at h
    | [_], hs => simp [hs] at h
    | [_, _], hs => simp [hs] at h
    | [_, _, _], hs => simp [hs] at h
    | a :: b :: c :: d :: r, hs => simp [hs] at h; omega

/-- Go's `off-start != int(length)` on `int`s (translated into ℤ) is the model's ℕ test once `start ≤ off`. -/
theorem intDiff_ne (o off len : Nat) (h : off ≤ o) :
    decide ((((o : Nat) : Int) - ((off : Nat) : Int)) ≠ ((len : Nat) : Int)) = decide (o - off ≠ len) := by
  congr 1
  apply propext
  omega

/-! ### question, resource header -/

/-- `unpackQuestion` -/
theorem unpackQuestion_translated (msg : Bytes) (off : Nat) :
    unpackQuestion msg off =
      Translated.unpackQuestion msg off >>= fun r => .ok (⟨r.1, r.2.1, r.2.2.1⟩, r.2.2.2) := by
  unfold unpackQuestion Translated.unpackQuestion
  simp only [unpackName_translated, u16At_translated, Res.bind_assoc', Res.bind_ok', Res.pure_eq]

/-- `ResourceHdr.unpack` -/
theorem unpackRHdr_translated (msg : Bytes) (off : Nat) :
    unpackRHdr msg off =
      Translated.ResourceHdr_unpack msg off >>= fun r => .ok (⟨r.1, r.2.1, r.2.2.1, r.2.2.2.1, r.2.2.2.2.1⟩, r.2.2.2.2.2) := by
  unfold unpackRHdr Translated.ResourceHdr_unpack
  simp only [unpackName_translated, u16At_translated, u32At_translated, Res.bind_assoc', Res.bind_ok', Res.pure_eq]

/-! ### RDATA (the per-type `unpack` methods of rr.go; `len` is the header's RDLENGTH) -/

/-- `A.unpack` (`r.A` is a 4-byte array) -/
theorem unpackRData_A_translated (msg : Bytes) (off len : Nat) (rA : Bytes) (hA : rA.length = 4) :
    unpackRData msg off typeA len = Translated.A_unpack msg off len rA >>= fun r => .ok (.a r.1, r.2) := by
  unfold unpackRData Translated.A_unpack
  simp only [← bytesAt_translated_dst, hA, if_true]
  by_cases h : len = 4
  · simp only [h, ne_eq, not_true_eq_false, if_false, decide_false, Bool.false_eq_true, Res.bind_assoc', Res.bind_ok', Res.pure_eq]
  · simp [h]

/-- `AAAA.unpack` (`r.AAAA` is a 16-byte array) -/
theorem unpackRData_AAAA_translated (msg : Bytes) (off len : Nat) (rA : Bytes) (hA : rA.length = 16) :
    unpackRData msg off typeAAAA len = Translated.AAAA_unpack msg off len rA >>= fun r => .ok (.aaaa r.1, r.2) := by
  unfold unpackRData Translated.AAAA_unpack
  simp only [← bytesAt_translated_dst, hA, typeA, typeAAAA, if_true]
  by_cases h : len = 16
  · simp only [h, ne_eq, not_true_eq_false, if_false, decide_false, Bool.false_eq_true, Res.bind_assoc', Res.bind_ok', Res.pure_eq]
    simp only [show ((28 : Nat) = 1) = False from by decide, if_false]
  · simp [h]

/-- `MX.unpack` -/
theorem unpackRData_MX_translated (msg : Bytes) (off len : Nat) :
    unpackRData msg off typeMX len = Translated.MX_unpack msg off len >>= fun r => .ok (.mx r.1 r.2.1, r.2.2) := by
  unfold unpackRData Translated.MX_unpack
  simp only [typeA, typeAAAA, typeMX, show ((15 : Nat) = 1) = False from by decide, show ((15 : Nat) = 28) = False from by decide,
    if_false, if_true, Res.bind_assoc', Res.bind_ok', Res.pure_eq]
  simp only [← u16At_translated, ← unpackName_translated]
  refine Res.bind_congr' fun ⟨p, o1⟩ h1 => ?_
  refine Res.bind_congr' fun ⟨n, o2⟩ h2 => ?_
  have e1 := u16At_off _ _ _ _ h1
  have e2 := unpackName_off _ _ _ _ h2
  simp only [intDiff_ne o2 off len (by omega)]
  by_cases h : o2 - off = len <;> simp [h]

/-- `NAMEResource.unpack` (CNAME / NS / PTR) -/
theorem unpackRData_NAME_translated (msg : Bytes) (off len rtype : Nat)
    (ht : rtype = typeCNAME ∨ rtype = typeNS ∨ rtype = typePTR) :
    unpackRData msg off rtype len = Translated.NAMEResource_unpack msg off len >>= fun r => .ok (.name r.1, r.2) := by
  unfold unpackRData Translated.NAMEResource_unpack
  have h1 : ¬ rtype = typeA := by rcases ht with h | h | h <;> simp [h, typeA, typeCNAME, typeNS, typePTR]
  have h2 : ¬ rtype = typeAAAA := by rcases ht with h | h | h <;> simp [h, typeAAAA, typeCNAME, typeNS, typePTR]
  have h3 : ¬ rtype = typeMX := by rcases ht with h | h | h <;> simp [h, typeMX, typeCNAME, typeNS, typePTR]
  simp only [h1, h2, h3, ht, if_false, if_true, Res.bind_assoc', Res.bind_ok', Res.pure_eq]
  simp only [← unpackName_translated]
  refine Res.bind_congr' fun ⟨n, o2⟩ h2 => ?_
  have e2 := unpackName_off _ _ _ _ h2
  simp only [intDiff_ne o2 off len (by omega)]
  by_cases h : o2 - off = len <;> simp [h]

/-- `SOA.unpack` -/
theorem unpackRData_SOA_translated (msg : Bytes) (off len : Nat) :
    unpackRData msg off typeSOA len =
      Translated.SOA_unpack msg off len >>= fun r =>
        .ok (.soa r.1 r.2.1 r.2.2.1 r.2.2.2.1 r.2.2.2.2.1 r.2.2.2.2.2.1 r.2.2.2.2.2.2.1, r.2.2.2.2.2.2.2) := by
  unfold unpackRData Translated.SOA_unpack
  simp only [typeA, typeAAAA, typeMX, typeSOA, typeCNAME, typeNS, typePTR,
    show ((6 : Nat) = 1) = False from by decide, show ((6 : Nat) = 28) = False from by decide,
    show ((6 : Nat) = 15) = False from by decide, show ((6 : Nat) = 5) = False from by decide,
    show ((6 : Nat) = 2) = False from by decide, show ((6 : Nat) = 12) = False from by decide, or_self,
    if_false, if_true, Res.bind_assoc', Res.bind_ok', Res.pure_eq]
  simp only [← u32At_translated, ← unpackName_translated]
  refine Res.bind_congr' fun ⟨ns, o1⟩ h1 => ?_
  refine Res.bind_congr' fun ⟨mb, o2⟩ h2 => ?_
  refine Res.bind_congr' fun ⟨a, o3⟩ h3 => ?_
  refine Res.bind_congr' fun ⟨b, o4⟩ h4 => ?_
  refine Res.bind_congr' fun ⟨c, o5⟩ h5 => ?_
  refine Res.bind_congr' fun ⟨d, o6⟩ h6 => ?_
  refine Res.bind_congr' fun ⟨e, o7⟩ h7 => ?_
  have e1 := unpackName_off _ _ _ _ h1
  have e2 := unpackName_off _ _ _ _ h2
  have e3 := u32At_off _ _ _ _ h3
  have e4 := u32At_off _ _ _ _ h4
  have e5 := u32At_off _ _ _ _ h5
  have e6 := u32At_off _ _ _ _ h6
  have e7 := u32At_off _ _ _ _ h7
  simp only [intDiff_ne o7 off len (by omega)]
  by_cases h : o7 - off = len <;> simp [h]

/-- `SRV.unpack` -/
theorem unpackRData_SRV_translated (msg : Bytes) (off len : Nat) :
    unpackRData msg off typeSRV len =
      Translated.SRV_unpack msg off len >>= fun r => .ok (.srv r.1 r.2.1 r.2.2.1 r.2.2.2.1, r.2.2.2.2) := by
  unfold unpackRData Translated.SRV_unpack
  simp only [typeA, typeAAAA, typeMX, typeSOA, typeSRV, typeCNAME, typeNS, typePTR,
    show ((33 : Nat) = 1) = False from by decide, show ((33 : Nat) = 28) = False from by decide,
    show ((33 : Nat) = 15) = False from by decide, show ((33 : Nat) = 5) = False from by decide,
    show ((33 : Nat) = 2) = False from by decide, show ((33 : Nat) = 12) = False from by decide,
    show ((33 : Nat) = 6) = False from by decide, or_self,
    if_false, if_true, Res.bind_assoc', Res.bind_ok', Res.pure_eq]
  simp only [← u16At_translated, ← unpackName_translated]
  refine Res.bind_congr' fun ⟨a, o1⟩ h1 => ?_
  refine Res.bind_congr' fun ⟨b, o2⟩ h2 => ?_
  refine Res.bind_congr' fun ⟨c, o3⟩ h3 => ?_
  refine Res.bind_congr' fun ⟨t, o4⟩ h4 => ?_
  have e1 := u16At_off _ _ _ _ h1
  have e2 := u16At_off _ _ _ _ h2
  have e3 := u16At_off _ _ _ _ h3
  have e4 := unpackName_off _ _ _ _ h4
  simp only [intDiff_ne o4 off len (by omega)]
  by_cases h : o4 - off = len <;> simp [h]

/-- `RawResource.unpack` (every other type) -/
theorem unpackRData_Raw_translated (msg : Bytes) (off len rtype : Nat)
    (h1 : rtype ≠ typeA) (h2 : rtype ≠ typeAAAA) (h3 : rtype ≠ typeMX) (h4 : rtype ≠ typeCNAME) (h5 : rtype ≠ typeNS)
    (h6 : rtype ≠ typePTR) (h7 : rtype ≠ typeSOA) (h8 : rtype ≠ typeSRV) :
    unpackRData msg off rtype len = Translated.RawResource_unpack msg off len >>= fun r => .ok (.raw r.1, r.2) := by
  unfold unpackRData Translated.RawResource_unpack
  simp only [h1, h2, h3, h4, h5, h6, h7, h8, or_self, if_false, Res.bind_assoc', Res.bind_ok', Res.pure_eq,
    ← bytesAt_translated]

/-! ### the header word -/

theorem and_two_pow' (bits k : Nat) : bits &&& 2 ^ k = if bits.testBit k then 2 ^ k else 0 := by
  apply Nat.eq_of_testBit_eq
  intro i
  rw [Nat.testBit_and, Nat.testBit_two_pow]
  by_cases hik : k = i
  · subst hik; cases h : bits.testBit k <;> simp [Nat.testBit_two_pow]
  · cases h : bits.testBit k <;> simp [hik, Nat.testBit_two_pow]

theorem testBit_land (bits k : Nat) : testBit bits k = decide (bits &&& (1 <<< k) ≠ 0) := by
  unfold testBit
  rw [Nat.one_shiftLeft, and_two_pow', ← Nat.testBit_eq_decide_div_mod_eq]
  have := Nat.two_pow_pos k
  cases hb : bits.testBit k
  · simp
  · simp

/-- `header.header()` -/
theorem headerOfBits_translated (id bits : Nat) :
    Translated.header_header id bits =
      .ok (let h := headerOfBits id bits
           (h.id, h.response, h.opcode, h.authoritative, h.truncated, h.rd, h.ra, h.z, h.ad, h.cd, h.rcode)) := by
  unfold Translated.header_header headerOfBits
  simp only [testBit_land, Res.pure_eq]
  have e1 : (bits >>> 11) &&& 15 = bits / 2048 % 16 := by
    rw [Nat.shiftRight_eq_div_pow]; exact Nat.and_two_pow_sub_one_eq_mod _ 4
  have e2 : bits &&& 15 = bits % 16 := Nat.and_two_pow_sub_one_eq_mod _ 4
  rw [e1, e2]

end MosVerif.Wire
