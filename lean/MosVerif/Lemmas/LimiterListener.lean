/-
  C15 helper lemmas, part 6: the listener model satisfies the listener specification
  (runs at one instant, no global limit, client rate 1 token/s).
-/
import MosVerif.Lemmas.LimiterClock
namespace MosVerif.Limiter

/-! ### the usage table -/

theorem specSame_iff (c : Opts) (x y : Addr) : specSame c x y = true ↔ subnetId c x = subnetId c y := by
  unfold specSame; exact beq_iff_eq

theorem Usage.get_add (c : Opts) (a a' : Addr) (dlo dhi : Nat) : ∀ (u : Usage),
    Usage.get c (Usage.add c u a dlo dhi) a' =
      if specSame c a' a then ((Usage.get c u a').1 + dlo, (Usage.get c u a').2 + dhi) else Usage.get c u a' := by
  intro u
  induction u with
  | nil =>
    simp only [Usage.add, Usage.get]
    split <;> simp
  | cons e rest ih =>
    obtain ⟨b, lo, hi⟩ := e
    simp only [Usage.add]
    by_cases hab : specSame c a b = true
    · rw [if_pos hab]
      simp only [Usage.get]
      have hiff : specSame c a' b = true ↔ specSame c a' a = true := by
        rw [specSame_iff, specSame_iff]
        rw [specSame_iff] at hab
        constructor
        · intro h; rw [h, hab]
        · intro h; rw [h, hab]
      by_cases h1 : specSame c a' b = true
      · simp [h1, hiff.mp h1]
      · have h2 : ¬ specSame c a' a = true := fun h => h1 (hiff.mpr h)
        simp [h1, h2]
    · rw [if_neg hab]
      simp only [Usage.get]
      rw [ih]
      by_cases h1 : specSame c a' b = true
      · have h2 : ¬ specSame c a' a = true := by
          intro h
          apply hab
          rw [specSame_iff] at h h1 ⊢
          rw [← h, h1]
        simp [h1, h2]
      · simp [h1]

/-! ### the limiter at one instant -/

/-- what the model knows that the observer does not: the exact cost charged per key -/
def ChargedK (c : Opts) (cl : ClientLimiter) (used : Addr → Nat) : Prop :=
  ∀ k, used k ≤ specBurst c ∧
    (cl.bucketOf k).avail cl.limit cl.burst 0 = (((specBurst c - used k) * nano : Nat) : Int)

/-- the observer's bounds bracket the exact charge -/
def Bracket (c : Opts) (used : Addr → Nat) (u : Usage) : Prop :=
  ∀ a, a ≠ .zero → (Usage.get c u a).1 ≤ used (mask c.setDefault a) ∧ used (mask c.setDefault a) ≤ (Usage.get c u a).2

theorem chargedK_new (c : Opts) (hs : saneBurst c = true) : ChargedK c (ClientLimiter.new c) (fun _ => 0) := by
  intro k
  refine ⟨Nat.zero_le _, ?_⟩
  rw [ClientLimiter.bucketOf_new, avail_fresh c _ _ 0 (new_limit c) (new_burst c) hs, new_burst]
  simp

theorem nano_pos : 0 < nano := by decide

/-- whole tokens: a deficit of less than one nano-token is no deficit -/
theorem nano_lt_one (x y : Nat) : ((y * nano : Nat) : Int) - ((x * nano : Nat) : Int) < 1 ↔ y ≤ x := by
  constructor
  · intro h
    apply Classical.byContradiction
    intro hn
    have h1 : (x + 1) * nano ≤ y * nano := Nat.mul_le_mul_right nano (by omega)
    rw [Nat.add_mul, Nat.one_mul] at h1
    have := nano_pos
    omega
  · intro h
    have := Nat.mul_le_mul_right nano h
    omega

theorem nano_sub (b u n : Nat) (h : u + n ≤ b) :
    (((b - u) * nano : Nat) : Int) - ((n * nano : Nat) : Int) = (((b - (u + n)) * nano : Nat) : Int) := by
  have h1 : (b - u) * nano = (b - (u + n)) * nano + n * nano := by
    rw [← Nat.add_mul]; congr 1; omega
  omega

/-- one `AllowN` at time 0 with rate 1: admitted iff the key's charge stays within the burst -/
theorem cl_allowAt (c : Opts) (hl : c.limit = 1) (cl : ClientLimiter) (hopts : cl.opts = c.setDefault)
    (used : Addr → Nat) (h : ChargedK c cl used) (a : Addr) (n : Nat) :
    ((cl.allowNAt a 0 n).1 = true ↔ used (mask cl.opts a) + n ≤ specBurst c) ∧
    ChargedK c (cl.allowNAt a 0 n).2
      (fun k => if k = mask cl.opts a ∧ (cl.allowNAt a 0 n).1 = true then used k + n else used k) := by
  have hL : cl.limit = 1 := by
    rw [limit_of_opts c cl hopts]; simp [specLimit, hl]
  have hB := burst_of_opts c cl hopts
  obtain ⟨hu, hA⟩ := h (mask cl.opts a)
  cases hd : (cl.allowNAt a 0 n).1 with
  | true =>
    have hd' := hd
    rw [ClientLimiter.allowN_fst] at hd'
    obtain ⟨h1, h2, h3⟩ := Bucket.allowN_true hd'
    rw [hA, hL] at h2
    have hle : used (mask cl.opts a) + n ≤ specBurst c := by
      have := (nano_lt_one (specBurst c - used (mask cl.opts a)) n).mp (by omega)
      omega
    refine ⟨⟨fun _ => hle, fun _ => rfl⟩, fun k => ?_⟩
    simp only [ClientLimiter.allowN_limit, ClientLimiter.allowN_burst]
    by_cases hk : k = mask cl.opts a
    · subst hk
      simp only [true_and, if_true]
      refine ⟨hle, ?_⟩
      have h4 := nano_sub _ _ _ hle
      rw [ClientLimiter.bucketOf_allowN_same, h3, Bucket.avail_after, hA]
      · exact h4
      · rw [hA, hB]
        have h5 : (specBurst c - (used (mask cl.opts a) + n)) * nano ≤ specBurst c * nano :=
          Nat.mul_le_mul_right nano (by omega)
        omega
    · have hk' : mask cl.opts a ≠ k := fun e => hk e.symm
      rw [ClientLimiter.bucketOf_allowN_other _ _ _ _ _ hk']
      simp only [hk, false_and, if_false]
      exact h k
  | false =>
    have hd' := hd
    rw [ClientLimiter.allowN_fst] at hd'
    obtain ⟨h1, h3⟩ := Bucket.allowN_false hd'
    rw [hA, hL, hB] at h1
    have hgt : ¬ used (mask cl.opts a) + n ≤ specBurst c := by
      intro hle
      apply h1
      refine ⟨by omega, ?_⟩
      have := (nano_lt_one (specBurst c - used (mask cl.opts a)) n).mpr (by omega)
      omega
    refine ⟨⟨fun hh => (by cases hh), fun hh => absurd hh hgt⟩, fun k => ?_⟩
    simp only [ClientLimiter.allowN_limit, ClientLimiter.allowN_burst, Bool.false_eq_true, and_false, if_false]
    by_cases hk : k = mask cl.opts a
    · subst hk
      rw [ClientLimiter.bucketOf_allowN_same, h3]
      exact h _
    · have hk' : mask cl.opts a ≠ k := fun e => hk e.symm
      rw [ClientLimiter.bucketOf_allowN_other _ _ _ _ _ hk']
      exact h k

/-- all of a listener run happens at one instant, so no entry's clock is ahead -/
def Charged (c : Opts) (cl : ClientLimiter) (used : Addr → Nat) : Prop := cl.SeenLe 0 ∧ ChargedK c cl used

theorem charged_new (c : Opts) (hs : saneBurst c = true) : Charged c (ClientLimiter.new c) (fun _ => 0) :=
  ⟨ClientLimiter.seenLe_new c 0, chargedK_new c hs⟩

theorem cl_allow (c : Opts) (hl : c.limit = 1) (cl : ClientLimiter) (hopts : cl.opts = c.setDefault)
    (used : Addr → Nat) (h : Charged c cl used) (a : Addr) (n : Nat) :
    ((cl.allowN a 0 n).1 = true ↔ used (mask cl.opts a) + n ≤ specBurst c) ∧
    Charged c (cl.allowN a 0 n).2
      (fun k => if k = mask cl.opts a ∧ (cl.allowN a 0 n).1 = true then used k + n else used k) := by
  rw [cl.allowN_of_seenLe h.1 (Nat.le_refl 0)]
  have hs := cl_allowAt c hl cl hopts used h.2 a n
  exact ⟨hs.1, cl.seenLe_allowNAt h.1 (Nat.le_refl 0) a n, hs.2⟩

/-- the shape of the resource limiter of a listener run: no global limit, one client limiter -/
def LRel (c : Opts) (l : ResLimiter) (u : Usage) : Prop :=
  l.global = none ∧ ∃ cl used, l.cl = some cl ∧ cl.opts = c.setDefault ∧ Charged c cl used ∧ Bracket c used u

theorem lrel_init (c : Opts) (hl : c.limit = 1) (hs : saneBurst c = true) (g : Int) (hg : g ≤ 0) :
    LRel c (ResLimiter.init ⟨g, c⟩) [] := by
  refine ⟨?_, ClientLimiter.new c, fun _ => 0, ?_, rfl, charged_new c hs, ?_⟩
  · simp only [ResLimiter.init, limitSet, decide_eq_true_eq]; rw [if_neg (by omega)]
  · simp only [ResLimiter.init, limitSet, decide_eq_true_eq]; rw [if_pos (by omega)]
  · intro a _; simp [Usage.get]

/-- a hidden charge (its verdict is ignored): the brackets survive if `hi` has room for it -/
theorem lrel_charge (c : Opts) (hl : c.limit = 1) (l : ResLimiter) (a : Addr) (n : Nat) (ha : a ≠ .zero)
    (hg : l.global = none) (cl : ClientLimiter) (used : Addr → Nat) (hcl : l.cl = some cl)
    (hopts : cl.opts = c.setDefault) (hch : Charged c cl used) :
    ∃ cl' ok, (limiterAllowN l a 0 n).2.global = none ∧ (limiterAllowN l a 0 n).2.cl = some cl' ∧
      cl'.opts = c.setDefault ∧
      ((limiterAllowN l a 0 n).1 = .ok ↔ ok = true) ∧
      (ok = true ↔ used (mask cl.opts a) + n ≤ specBurst c) ∧
      Charged c cl' (fun k => if k = mask cl.opts a ∧ ok = true then used k + n else used k) := by
  have hstep := cl_allow c hl cl hopts used hch a n
  refine ⟨(cl.allowN a 0 n).2, (cl.allowN a 0 n).1, ?_, ?_, by simpa using hopts, ?_, hstep.1, hstep.2⟩
  · simp only [limiterAllowN, ha, if_false, ResLimiter.allowN, hg, hcl]
    split <;> simp
  · simp only [limiterAllowN, ha, if_false, ResLimiter.allowN, hg, hcl]
    split <;> simp
  · simp only [limiterAllowN, ha, if_false, ResLimiter.allowN, hg, hcl]
    cases (cl.allowN a 0 n).1 <;> simp

theorem bracket_add (c : Opts) (used used' : Addr → Nat) (u : Usage) (a : Addr) (n d : Nat)
    (hb : Bracket c used u)
    (h1 : used (mask c.setDefault a) + n ≤ used' (mask c.setDefault a) ∧
          used' (mask c.setDefault a) ≤ used (mask c.setDefault a) + n + d)
    (h2 : ∀ k, k ≠ mask c.setDefault a → used' k = used k) :
    Bracket c used' (Usage.add c u a n (n + d)) := by
  intro a' ha'
  rw [Usage.get_add]
  have hb' := hb a' ha'
  by_cases hs : specSame c a' a = true
  · rw [if_pos hs]
    have hk : mask c.setDefault a' = mask c.setDefault a := by
      rw [specSame_eq] at hs; simpa using hs
    rw [hk] at hb' ⊢
    simp only
    omega
  · rw [if_neg hs]
    have hk : mask c.setDefault a' ≠ mask c.setDefault a := by
      intro e; apply hs; rw [specSame_eq]; simpa using e
    rw [h2 _ hk]; exact hb'

/-- **one attempt.**  The attempt's outcome passes the specification's step, and what the
    observer then knows still brackets the limiter's state — in continuation form. -/
theorem attempt_spec (c : Opts) (hl : c.limit = 1) (l : ResLimiter) (u : Usage) (h : LRel c l u)
    (p : Point) (a : Addr) (rest : List Atom)
    (hrest : ∀ u', LRel c (attempt l p a).2 u' → atomsSpec c (specBurst c) rest u' = true) :
    atomsSpec c (specBurst c) ((attempt l p a).1 :: rest) u = true := by
  obtain ⟨hg, cl, used, hcl, hopts, hch, hbr⟩ := h
  have hadm : admission l p false a 0 =
      (if (limiterAllowN l a 0 p.cost).1 = .ok then (p.onAllowed, (limiterAllowN l a 0 p.cost).2)
       else (p.onRefused, (limiterAllowN l a 0 p.cost).2)) := by
    simp [admission]
  by_cases ha : a = .zero
  · -- a peer without an address is admitted and nobody is charged
    subst ha
    have hz : ∀ n, limiterAllowN l .zero 0 n = (.ok, l) := fun _ => rfl
    have hatt : (attempt l p .zero).1.a = .zero ∧ (attempt l p .zero).1.admitted = true ∧ (attempt l p .zero).2 = l := by
      simp only [attempt, hadm, hz, postCharge, if_true]
      cases p <;> simp [Point.onAllowed]
    have hr := hrest u (by rw [hatt.2.2]; exact ⟨hg, cl, used, hcl, hopts, hch, hbr⟩)
    simp only [atomsSpec, hatt.1, if_true, hatt.2.1, hr, Bool.and_self]
  · obtain ⟨cl', ok, hg', hcl', hopts', hok, hokiff, hch'⟩ := lrel_charge c hl l a p.cost ha hg cl used hcl hopts hch
    rw [hopts] at hokiff hch'
    have hbr_a := hbr a ha
    cases hokv : ok with
    | false =>
      have hnok : ¬ (limiterAllowN l a 0 p.cost).1 = .ok := by rw [hok, hokv]; simp
      have hgt : ¬ used (mask c.setDefault a) + p.cost ≤ specBurst c := by rw [← hokiff, hokv]; simp
      have hatt : (attempt l p a).1 = ⟨a, p.cost, p.post, false⟩ ∧ (attempt l p a).2 = (limiterAllowN l a 0 p.cost).2 := by
        simp only [attempt, hadm, hnok, if_false]
        cases p <;> simp [Point.onRefused]
      have hch'' : Charged c cl' used := by
        refine ⟨hch'.1, fun k => ?_⟩; have := hch'.2 k; simpa [hokv] using this
      have hr := hrest u (by rw [hatt.2]; exact ⟨hg', cl', used, hcl', hopts', hch'', hbr⟩)
      rw [hatt.1]
      simp only [atomsSpec, ha, if_false, Bool.false_eq_true, hr, Bool.and_true, decide_eq_true_eq]
      omega
    | true =>
      have hisok : (limiterAllowN l a 0 p.cost).1 = .ok := by rw [hok, hokv]
      have hle : used (mask c.setDefault a) + p.cost ≤ specBurst c := by rw [← hokiff, hokv]
      by_cases hh : p.onAllowed = .handle
      · -- a query: handled, then post-charged (verdict ignored)
        obtain ⟨cl'', ok2, hg'', hcl'', hopts'', _, _, hch''⟩ :=
          lrel_charge c hl (limiterAllowN l a 0 p.cost).2 a costFromUpstream ha hg' cl' _ hcl' hopts' hch'
        rw [hopts'] at hch''
        have hatt : (attempt l p a).1 = ⟨a, p.cost, costFromUpstream, true⟩ ∧
            (attempt l p a).2 = (limiterAllowN (limiterAllowN l a 0 p.cost).2 a 0 costFromUpstream).2 := by
          simp only [attempt, hadm, hisok, if_true, hh, postCharge, Point.post]
          simp
        have hr := hrest (Usage.add c u a p.cost (p.cost + costFromUpstream)) (by
          rw [hatt.2]
          refine ⟨hg'', cl'', _, hcl'', hopts'', hch'', ?_⟩
          apply bracket_add c used _ u a p.cost costFromUpstream hbr
          · simp only [hokv, and_self, if_true, true_and]
            split <;> omega
          · intro k hk
            simp [hk])
        rw [hatt.1]
        simp only [atomsSpec, ha, if_false, if_true, hr, Bool.and_true, decide_eq_true_eq]
        omega
      · -- a connection: served
        have hserve : p.onAllowed = .serve := by cases p <;> simp_all [Point.onAllowed]
        have hatt : (attempt l p a).1 = ⟨a, p.cost, 0, true⟩ ∧ (attempt l p a).2 = (limiterAllowN l a 0 p.cost).2 := by
          simp only [attempt, hadm, hisok, if_true, hserve, Point.post]
          simp
        have hr := hrest (Usage.add c u a p.cost (p.cost + 0)) (by
          rw [hatt.2]
          refine ⟨hg', cl', _, hcl', hopts', hch', ?_⟩
          apply bracket_add c used _ u a p.cost 0 hbr
          · simp only [hokv, and_self, if_true]
            omega
          · intro k hk
            simp [hk])
        rw [hatt.1]
        simp only [atomsSpec, ha, if_false, if_true, hr, Bool.and_true, decide_eq_true_eq]
        omega

/-- a direct call of `limiterAllowN` -/
theorem direct_spec (c : Opts) (hl : c.limit = 1) (l : ResLimiter) (u : Usage) (h : LRel c l u)
    (a : Addr) (n : Nat) (rest : List Atom)
    (hrest : ∀ u', LRel c (limiterAllowN l a 0 n).2 u' → atomsSpec c (specBurst c) rest u' = true) :
    atomsSpec c (specBurst c) (⟨a, n, 0, decide ((limiterAllowN l a 0 n).1 = .ok)⟩ :: rest) u = true := by
  obtain ⟨hg, cl, used, hcl, hopts, hch, hbr⟩ := h
  by_cases ha : a = .zero
  · subst ha
    have hz : limiterAllowN l .zero 0 n = (.ok, l) := rfl
    have hr := hrest u (by rw [hz]; exact ⟨hg, cl, used, hcl, hopts, hch, hbr⟩)
    simp only [atomsSpec, if_true, hz, decide_true, hr, Bool.and_self]
  · obtain ⟨cl', ok, hg', hcl', hopts', hok, hokiff, hch'⟩ := lrel_charge c hl l a n ha hg cl used hcl hopts hch
    rw [hopts] at hokiff hch'
    have hbr_a := hbr a ha
    cases hokv : ok with
    | false =>
      have hnok : ¬ (limiterAllowN l a 0 n).1 = .ok := by rw [hok, hokv]; simp
      have hgt : ¬ used (mask c.setDefault a) + n ≤ specBurst c := by rw [← hokiff, hokv]; simp
      have hch'' : Charged c cl' used := by
        refine ⟨hch'.1, fun k => ?_⟩; have := hch'.2 k; simpa [hokv] using this
      have hr := hrest u ⟨hg', cl', used, hcl', hopts', hch'', hbr⟩
      simp only [atomsSpec, ha, if_false, hnok, decide_false, Bool.false_eq_true, hr, Bool.and_true, decide_eq_true_eq]
      omega
    | true =>
      have hisok : (limiterAllowN l a 0 n).1 = .ok := by rw [hok, hokv]
      have hle : used (mask c.setDefault a) + n ≤ specBurst c := by rw [← hokiff, hokv]
      have hr := hrest (Usage.add c u a n (n + 0)) (by
        refine ⟨hg', cl', _, hcl', hopts', hch', ?_⟩
        apply bracket_add c used _ u a n 0 hbr
        · simp only [hokv, and_self, if_true]
          omega
        · intro k hk
          simp [hk])
      simp only [atomsSpec, ha, if_false, hisok, decide_true, if_true, hr, Bool.and_true, decide_eq_true_eq]
      omega

theorem queryAtoms_spec (c : Opts) (hl : c.limit = 1) (p : Point) (a : Addr) :
    ∀ (k : Nat) (l : ResLimiter) (u : Usage) (rest : List Atom), LRel c l u →
      (∀ u', LRel c (queryAtoms p a k l).2 u' → atomsSpec c (specBurst c) rest u' = true) →
      atomsSpec c (specBurst c) ((queryAtoms p a k l).1 ++ rest) u = true := by
  intro k
  induction k with
  | zero => intro l u rest h hrest; exact hrest u h
  | succ k ih =>
    intro l u rest h hrest
    simp only [queryAtoms, List.cons_append]
    apply attempt_spec c hl l u h p a
    intro u' h'
    exact ih _ u' rest h' hrest

theorem connOp_spec (c : Opts) (hl : c.limit = 1) (pc q : Point) (a : Addr) (k : Nat)
    (l : ResLimiter) (u : Usage) (rest : List Atom) (h : LRel c l u)
    (hrest : ∀ u', LRel c
        (if (attempt l pc a).1.admitted then
          ((attempt l pc a).1 :: (queryAtoms q a k (attempt l pc a).2).1, (queryAtoms q a k (attempt l pc a).2).2)
         else ([(attempt l pc a).1], (attempt l pc a).2)).2 u' → atomsSpec c (specBurst c) rest u' = true) :
    atomsSpec c (specBurst c)
      ((if (attempt l pc a).1.admitted then
          ((attempt l pc a).1 :: (queryAtoms q a k (attempt l pc a).2).1, (queryAtoms q a k (attempt l pc a).2).2)
         else ([(attempt l pc a).1], (attempt l pc a).2)).1 ++ rest) u = true := by
  cases hadm : (attempt l pc a).1.admitted with
  | true =>
    simp only [hadm, if_true, List.cons_append] at hrest ⊢
    apply attempt_spec c hl l u h pc a
    intro u' h'
    exact queryAtoms_spec c hl q a k _ u' rest h' hrest
  | false =>
    simp only [hadm, Bool.false_eq_true, if_false, List.cons_append, List.nil_append] at hrest ⊢
    exact attempt_spec c hl l u h pc a rest hrest

theorem opAtoms_spec (c : Opts) (hl : c.limit = 1) (op : LOp) (l : ResLimiter) (u : Usage) (rest : List Atom)
    (h : LRel c l u)
    (hrest : ∀ u', LRel c (opAtoms l op).2 u' → atomsSpec c (specBurst c) rest u' = true) :
    atomsSpec c (specBurst c) ((opAtoms l op).1 ++ rest) u = true := by
  cases op with
  | udp a => exact queryAtoms_spec c hl .udpQuery a 1 l u rest h hrest
  | tcp a k => exact connOp_spec c hl .tcpConn .tcpQuery a k l u rest h hrest
  | http a k => exact connOp_spec c hl .httpConn .httpQuery a k l u rest h hrest
  | quic a k => exact connOp_spec c hl .quicConn .quicQuery a k l u rest h hrest
  | gnet a k => exact connOp_spec c hl .gnetConn .gnetQuery a k l u rest h hrest
  | fasthttp a k => exact connOp_spec c hl .fasthttpConn .fasthttpQuery a k l u rest h hrest
  | direct a n =>
    simp only [opAtoms, List.cons_append, List.nil_append] at hrest ⊢
    exact direct_spec c hl l u h a n rest hrest

/-- every run of the listener model passes the attempts specification -/
theorem listenerAtoms_spec (c : Opts) (hl : c.limit = 1) :
    ∀ (ops : List LOp) (l : ResLimiter) (u : Usage), LRel c l u →
      atomsSpec c (specBurst c) (listenerAtoms ops l) u = true := by
  intro ops
  induction ops with
  | nil => intro l u _; rfl
  | cons op ops ih =>
    intro l u h
    simp only [listenerAtoms]
    apply opAtoms_spec c hl op l u _ h
    intro u' h'
    exact ih _ u' h'

theorem handledCount_append (xs ys : List Atom) : handledCount (xs ++ ys) = handledCount xs + handledCount ys := by
  simp [handledCount, List.filter_append]

/-- the forwards the model reports are the admitted query attempts -/
theorem listenerRunAtoms_fwd : ∀ (ops : List LOp) (l : ResLimiter),
    (listenerRunAtoms ops l).2 = handledCount (listenerAtoms ops l) := by
  intro ops
  induction ops with
  | nil => intro l; rfl
  | cons op ops ih =>
    intro l
    simp only [listenerRunAtoms, listenerAtoms, handledCount_append, ih]

end MosVerif.Limiter
