/-
  C18 — the close-protocol model meets the executable specification that judges the implementation
  (`Close.spec`), for every kind, mode and script.
-/
import MosVerif.Lemmas.CloseHistory
namespace MosVerif.Close

theorem all_insertSorted (p : Nat × String → Bool) (a : Nat × String) (l : List (Nat × String)) :
    (insertSorted a l).all p = (p a && l.all p) := by
  induction l with
  | nil => simp [insertSorted]
  | cons q rest ih =>
    simp only [insertSorted]
    split
    · simp
    · simp only [List.all_cons, ih]
      cases p a <;> cases p q <;> simp

theorem all_sortRes (p : Nat × String → Bool) (l : List (Nat × String)) :
    (sortRes l).all p = l.all p := by
  induction l with
  | nil => rfl
  | cons a rest ih =>
    simp only [sortRes, List.foldr_cons, List.all_cons] at ih ⊢
    rw [all_insertSorted, ih]

theorem str_pend (r : Option Res) : (strOfRes r != "pend") = true ↔ r ≠ none := by
  cases r with
  | none => simp [strOfRes]
  | some v => cases v <;> simp [strOfRes] <;> decide

theorem str_err (r : Option Res) (h : r = some .err) : (strOfRes r == "err") = true := by
  subst h; decide

theorem str_ok (r : Option Res) (h : r ≠ some .ok) : (strOfRes r != "ok") = true := by
  cases r with
  | none => decide
  | some v => cases v <;> first | exact absurd rfl h | decide

theorem expand_close (auto : Bool) : expand auto .close = [.close] := by
  cases auto <;> rfl

theorem nostub_init (k : Kind) : NoStub (init k) := by
  constructor <;> simp [init]

theorem epilogue_closed_new (B : List Nat) (s : St) (hc : s.closed = true)
    (h : ∀ x ∈ s.exs, x.id ∈ B ∨ x.res = some .err) :
    ∀ x ∈ (epilogue s).exs, x.id ∈ B ∨ x.res = some .err := by
  simp only [epilogue, hc, if_true]
  exact run_closed_new B s _ hc h

theorem epilogue_closed_ok (R : List Nat) (s : St) (hc : s.closed = true) (hi : Inv s)
    (h : ∀ x ∈ s.exs, x.res = some .ok → x.id ∈ R) :
    ∀ x ∈ (epilogue s).exs, x.res = some .ok → x.id ∈ R := by
  simp only [epilogue, hc, if_true]
  exact run_closed_ok s _ R hc hi h

theorem epilogue_nostub (s : St) (hi : Inv s) (h : NoStub s) : NoStub (epilogue s) := by
  unfold epilogue
  split
  · apply run_nostub _ _ _ hi h
    intro op hop
    simp only [List.mem_map] at hop
    obtain ⟨d, _, rfl⟩ := hop
    rfl
  · exact h

/-- The final state of a script that contains a Close, decomposed at the first Close: the transport is closed,
    no dial is pending, no connection is open, every exchange has returned; an exchange whose id was not started
    before the Close has an error; a success stems from a reply before the Close; and without a dialer that
    ignores its context nobody was blocked when the first Close had returned. -/
theorem script_facts (k : Kind) (auto : Bool) (ops0 : List Op)
    (hcl : (fullOps auto ops0).contains .close = true) :
    let before := (fullOps auto ops0).takeWhile (· != .close)
    let s := runScript k auto ops0
    Inv s ∧ s.closed = true ∧ s.dials = [] ∧
    (∀ x ∈ s.exs, x.res ≠ none) ∧
    s.conns.filter (·.isOpen) = [] ∧
    (∀ x ∈ s.exs, x.id ∈ before.filterMap startId ∨ x.res = some .err) ∧
    (∀ x ∈ s.exs, x.res = some .ok → Op.reply x.id ∈ before) ∧
    ((fullOps auto ops0).any isStubStart = false → s.atClose.getD [] = []) := by
  generalize hops : fullOps auto ops0 = ops at hcl ⊢
  obtain ⟨rest, hdrop, hsplit⟩ := split_close ops hcl
  intro before s
  -- states along the script
  let sb := run (init k) (before.flatMap (expand auto))
  let sc := closeOp sb
  let sr := run sc (rest.flatMap (expand auto))
  have hfinal : s = epilogue sr := by
    show runScript k auto ops0 = epilogue sr
    unfold runScript
    rw [hops]
    conv => lhs; rw [hsplit]
    simp only [List.flatMap_append, List.flatMap_cons, expand_close, run_append, List.singleton_append]
    rfl
  have hib : Inv sb := reach_inv k _
  have hic : Inv sc := inv_close sb hib
  have hcc : sc.closed = true := closeOp_closed sb
  have hir : Inv sr := inv_run sc _ hic
  have hcr : sr.closed = true := closed_run sc _ hcc
  have hif : Inv (epilogue sr) := epilogue_inv sr hir
  have hcf : (epilogue sr).closed = true := epilogue_closed sr hcr
  have hdf : (epilogue sr).dials = [] := epilogue_dials sr hcr
  -- nothing hangs, nothing is open
  have hnone : ∀ x ∈ (epilogue sr).exs, x.res ≠ none := by
    intro x hx hn
    obtain ⟨⟨d, hdm, _⟩, _⟩ := hif.closedBlocked hcf x hx hn
    simp [hdf] at hdm
  have hopen : (epilogue sr).conns.filter (·.isOpen) = [] := by
    apply List.filter_eq_nil_iff.mpr
    intro c hc
    simp [hif.closedNoOpen hcf c hc]
  -- ids of the exchanges that exist at the first Close were started before it
  have hidsc : ∀ x ∈ sc.exs, x.id ∈ before.filterMap startId := by
    intro x hx
    have hx' : x ∈ (run (init k) (before.flatMap (expand auto) ++ [Op.close])).exs := by
      rw [run_append]; exact hx
    rcases run_ids (init k) _ x hx' with ⟨y, hy, _⟩ | h
    · simp [init] at hy
    · have := expand_startIds auto before
      simpa [List.filterMap_append, startId, this] using h
  have hnew : ∀ x ∈ (epilogue sr).exs, x.id ∈ before.filterMap startId ∨ x.res = some .err :=
    epilogue_closed_new _ sr hcr
      (run_closed_new _ sc _ hcc (fun x hx => Or.inl (hidsc x hx)))
  -- successes come from replies before the first Close
  have hokb : ∀ x ∈ sb.exs, x.res = some .ok → x.id ∈ (before.flatMap (expand auto)).filterMap replyId := by
    have := run_ok (init k) (before.flatMap (expand auto)) [] (by simp [init])
    simpa using this
  have hokc : ∀ x ∈ sc.exs, x.res = some .ok → x.id ∈ (before.flatMap (expand auto)).filterMap replyId := by
    intro x hx hr
    rcases step_ok sb .close x hx hr with ⟨y, hy, hid, hyr⟩ | h
    · exact hid ▸ hokb y hy hyr
    · simp [replyId] at h
  have hokf : ∀ x ∈ (epilogue sr).exs, x.res = some .ok → Op.reply x.id ∈ before := by
    intro x hx hr
    exact expand_reply auto before x.id
      (epilogue_closed_ok _ sr hcr hir (run_closed_ok sc _ _ hcc hic hokc) x hx hr)
  -- blocked at the first Close
  have hatc : ops.any isStubStart = false → (epilogue sr).atClose.getD [] = [] := by
    intro hns
    have hall : ∀ op ∈ ops.flatMap (expand auto), isStubStart op = false := expand_nostub auto ops hns
    have hsr : sr = run (init k) (ops.flatMap (expand auto)) := by
      conv => rhs; rw [hsplit]
      simp only [List.flatMap_append, List.flatMap_cons, expand_close, run_append, List.singleton_append]
      rfl
    have hns' : NoStub sr := by
      rw [hsr]
      exact run_nostub _ _ hall (inv_init k) (nostub_init k)
    exact (epilogue_nostub sr hir hns').atc
  rw [hfinal]
  exact ⟨hif, hcf, hdf, hnone, hopen, hnew, hokf, hatc⟩

theorem model_meets_spec (k : Kind) (auto : Bool) (ops0 : List Op) :
    spec auto ops0
      (obsOf ((fullOps auto ops0).filter (· == .close)).length (runScript k auto ops0)) = true := by
  by_cases hcl : (fullOps auto ops0).contains .close = true
  · obtain ⟨_, _, _, hnone, hopen, hnew, hokf, hatc⟩ := script_facts k auto ops0 hcl
    unfold spec
    simp only [hcl, Bool.not_true, Bool.false_eq_true, if_false, obsOf, beq_self_eq_true, Bool.true_and,
      all_sortRes, List.all_map, Function.comp_def, hopen, List.length_nil, Bool.and_eq_true, List.all_eq_true,
      Bool.or_eq_true]
    refine ⟨⟨⟨⟨?_, ?_⟩, ?_⟩, ?_⟩, ?_⟩
    · intro x hx
      exact (str_pend x.res).mpr (hnone x hx)
    · intro e _
      by_cases hb : (List.filterMap startId
          (List.takeWhile (fun x => x != Op.close) (fullOps auto ops0))).contains e = true
      · exact Or.inl hb
      · right
        intro x hx
        by_cases hid : x.id = e
        · rcases hnew x hx with h | h
          · exact absurd (by simpa [hid] using h) (by simpa using hb)
          · simp [str_err x.res h]
        · simp [hid]
    · intro e _
      by_cases hb : (List.takeWhile (fun x => x != Op.close) (fullOps auto ops0)).contains (Op.reply e) = true
      · exact Or.inl hb
      · right
        intro x hx
        by_cases hid : x.id = e
        · right
          apply str_ok
          intro hr
          have := hokf x hx hr
          rw [hid] at this
          exact hb (by simpa using this)
        · simp [hid]
    · trivial
    · by_cases hs : (fullOps auto ops0).any isStubStart = true
      · exact Or.inl hs
      · right
        have := hatc (by simpa using hs)
        simp [this, sortNat, sortRes]
  · have hcl' : (fullOps auto ops0).contains Op.close = false := by simpa using hcl
    unfold spec
    simp only [hcl', Bool.not_false, if_true, obsOf]
    simp

end MosVerif.Close
