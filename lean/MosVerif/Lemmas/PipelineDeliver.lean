/-
  C05 — the ghost record of deliveries: every reply event is received by at most one
  exchange, and only by the exchange registered under its (connection, wire id).
-/
import MosVerif.Lemmas.PipelineGhost
namespace MosVerif.Pipeline

/-- the event with chronological index `k` (the oldest event has index 0) -/
def evAt : List Ev → Nat → Option Ev
  | [], _ => none
  | ev :: h, k => if k = h.length then some ev else evAt h k

theorem evAt_cons_lt {ev : Ev} {h : List Ev} {k : Nat} (hk : k < h.length) : evAt (ev :: h) k = evAt h k := by
  simp [evAt]; omega

theorem evAt_mem {h : List Ev} {k : Nat} {ev : Ev} (he : evAt h k = some ev) : ev ∈ h := by
  induction h with
  | nil => simp [evAt] at he
  | cons x t ih =>
    simp only [evAt] at he
    split at he
    · cases he; exact List.mem_cons_self
    · exact List.mem_cons_of_mem _ (ih he)

structure GInv (cfg : Cfg) (s : State) : Prop where
  ch_st : ∀ ch p k, s.chans ch = .full p k → k < s.hist.length
  tk_st : ∀ e k, (e, k) ∈ s.taken → k < s.hist.length
  /-- a reply event sits in at most one channel … -/
  ch_inj : ∀ ch ch' p p' k, s.chans ch = .full p k → s.chans ch' = .full p' k → ch = ch'
  /-- … and not in a channel once it was received -/
  ch_tk : ∀ ch p k e, s.chans ch = .full p k → (e, k) ∉ s.taken
  /-- received at most once -/
  tk_inj : ∀ e e' k, (e, k) ∈ s.taken → (e', k) ∈ s.taken → e = e'
  tk_pc : ∀ e k, (e, k) ∈ s.taken → (∃ c q p, s.pcs e = .leaving c q (some p)) ∨ s.pcs e = .done
  /-- an exchange receives at most one reply -/
  tk_one : ∀ e k k', (e, k) ∈ s.taken → (e, k') ∈ s.taken → k = k'
  ch_ev : ∀ ch p k, s.chans ch = .full p k → ∃ c id, evAt s.hist k = some (.reply c id p) ∧
            ∀ e c' q', (s.pcs e = .registered c' q' ch ∨ s.pcs e = .waiting c' q' ch) → c' = c ∧ q' = id
  tk_ev : ∀ e k, (e, k) ∈ s.taken → ∃ c id p, evAt s.hist k = some (.reply c id p) ∧
            (s.pcs e = .leaving c id (some p) ∨ (s.pcs e = .done ∧ Ev.ret e (some (cfg.cid e, p)) ∈ s.hist))
  /-- whoever holds or returned a message received a reply event carrying that payload -/
  lv_tk : ∀ e c q p, s.pcs e = .leaving c q (some p) → ∃ k, (e, k) ∈ s.taken ∧ evAt s.hist k = some (.reply c q p)
  ret_tk : ∀ e mid p, Ev.ret e (some (mid, p)) ∈ s.hist →
            ∃ k c id, (e, k) ∈ s.taken ∧ evAt s.hist k = some (.reply c id p)

theorem ginv_init (cfg : Cfg) : GInv cfg (init cfg) := by
  constructor <;> simp [init]

section steps
variable {cfg : Cfg} {s : State}

theorem ginv_cancel (h : GInv cfg s) (e : Nat) : GInv cfg (step cfg s (.cancel e)) := by
  simp only [step]
  split
  · rename_i c q ch hpc
    obtain ⟨g1, g2, g3, g4, g5, g6, g7, g8, g9, g10, g11⟩ := h
    constructor <;> simp only [] <;> grind [upd]
  · exact h

theorem ginv_dead (h : GInv cfg s) (e : Nat) : GInv cfg (step cfg s (.dead e)) := by
  simp only [step]
  split
  · split
    · obtain ⟨g1, g2, g3, g4, g5, g6, g7, g8, g9, g10, g11⟩ := h
      constructor <;> simp only [] <;> grind [upd]
    · exact h
  · exact h

theorem ginv_reserve (h : GInv cfg s) (c : Nat) : GInv cfg (step cfg s (.reserve c)) := by
  obtain ⟨g1, g2, g3, g4, g5, g6, g7, g8, g9, g10, g11⟩ := h
  constructor <;> simp only [step] <;> assumption

theorem ginv_close (h : GInv cfg s) (c : Nat) : GInv cfg (step cfg s (.close c)) := by
  obtain ⟨g1, g2, g3, g4, g5, g6, g7, g8, g9, g10, g11⟩ := h
  constructor <;> simp only [step] <;> assumption

theorem ginv_write (h : GInv cfg s) (e : Nat) (ok closes : Bool) : GInv cfg (step cfg s (.write e ok closes)) := by
  simp only [step]
  split
  · rename_i c q ch hpc
    split
    · have hev : ∀ k, k < s.hist.length → evAt (Ev.query e c q :: s.hist) k = evAt s.hist k := fun k hk => evAt_cons_lt hk
      have hlen : (Ev.query e c q :: s.hist).length = s.hist.length + 1 := rfl
      have hmem : ∀ ev, ev ∈ s.hist → ev ∈ Ev.query e c q :: s.hist := fun ev hm => List.mem_cons_of_mem _ hm
      obtain ⟨g1, g2, g3, g4, g5, g6, g7, g8, g9, g10, g11⟩ := h
      constructor <;> simp only [] <;> grind [upd]
    · obtain ⟨g1, g2, g3, g4, g5, g6, g7, g8, g9, g10, g11⟩ := h
      constructor <;> simp only [] <;> grind [upd]
  · exact h

theorem ginv_giveUp (h : GInv cfg s) (e : Nat) : GInv cfg (step cfg s (.giveUp e)) := by
  simp only [step]
  split
  · rename_i hpc
    have hev : ∀ k, k < s.hist.length → evAt (Ev.ret e none :: s.hist) k = evAt s.hist k := fun k hk => evAt_cons_lt hk
    have hlen : (Ev.ret e none :: s.hist).length = s.hist.length + 1 := rfl
    have hmem : ∀ ev, ev ∈ s.hist → ev ∈ Ev.ret e none :: s.hist := fun ev hm => List.mem_cons_of_mem _ hm
    obtain ⟨g1, g2, g3, g4, g5, g6, g7, g8, g9, g10, g11⟩ := h
    constructor <;> simp only [] <;> grind [upd]
  · exact h

theorem ginv_delQ (h : GInv cfg s) (e : Nat) : GInv cfg (step cfg s (.delQ e)) := by
  simp only [step]
  split
  · rename_i c q r hpc
    cases r with
    | none =>
      obtain ⟨g1, g2, g3, g4, g5, g6, g7, g8, g9, g10, g11⟩ := h
      constructor <;> simp only [] <;> grind [upd]
    | some p =>
      have hev : ∀ k, k < s.hist.length → evAt (Ev.ret e (some (cfg.cid e, p)) :: s.hist) k = evAt s.hist k :=
        fun k hk => evAt_cons_lt hk
      have hlen : (Ev.ret e (some (cfg.cid e, p)) :: s.hist).length = s.hist.length + 1 := rfl
      have hmem : ∀ ev, ev ∈ s.hist → ev ∈ Ev.ret e (some (cfg.cid e, p)) :: s.hist := fun ev hm => List.mem_cons_of_mem _ hm
      have hself : Ev.ret e (some (cfg.cid e, p)) ∈ Ev.ret e (some (cfg.cid e, p)) :: s.hist := List.mem_cons_self
      obtain ⟨g1, g2, g3, g4, g5, g6, g7, g8, g9, g10, g11⟩ := h
      constructor <;> simp only [] <;> grind [upd]
  · exact h

theorem ginv_addQ (hi : Inv cfg s) (h : GInv cfg s) (e c : Nat) : GInv cfg (step cfg s (.addQ e c)) := by
  simp only [step]
  split
  · rename_i hpc
    split
    · obtain ⟨g1, g2, g3, g4, g5, g6, g7, g8, g9, g10, g11⟩ := h
      constructor <;> simp only [] <;> assumption
    · rename_i c' q hadd
      have hev : ∀ k, k < s.hist.length → evAt (Ev.assign e c q :: s.hist) k = evAt s.hist k := fun k hk => evAt_cons_lt hk
      have hlen : (Ev.assign e c q :: s.hist).length = s.hist.length + 1 := rfl
      have hmem : ∀ ev, ev ∈ s.hist → ev ∈ Ev.assign e c q :: s.hist := fun ev hm => List.mem_cons_of_mem _ hm
      have hch := hi.ch_lt
      obtain ⟨g1, g2, g3, g4, g5, g6, g7, g8, g9, g10, g11⟩ := h
      constructor <;> simp only [] <;> grind [upd]
  · exact h

theorem ginv_take (h : GInv cfg s) (e : Nat) : GInv cfg (step cfg s (.take e)) := by
  simp only [step]
  split
  · rename_i c q ch hpc
    split
    · rename_i p k hfull
      have hmem : ∀ e' k', (e', k') ∈ (e, k) :: s.taken ↔ (e' = e ∧ k' = k) ∨ (e', k') ∈ s.taken := by
        intro e' k'; simp
      obtain ⟨g1, g2, g3, g4, g5, g6, g7, g8, g9, g10, g11⟩ := h
      obtain ⟨c0, id0, hk0, hown0⟩ := g8 ch p k hfull
      obtain ⟨hc0, hq0⟩ := hown0 e c q (Or.inr hpc)
      subst hc0; subst hq0
      refine ⟨?_, ?_, ?_, ?_, ?_, ?_, ?_, ?_, ?_, ?_, ?_⟩ <;> simp only [hmem]
      · grind [upd]
      · grind [upd]
      · grind [upd]
      · grind [upd]
      · grind [upd]
      · grind [upd]
      · grind [upd]
      · grind [upd]
      · intro e' k' hm
        rcases hm with ⟨h1, h2⟩ | hm
        · subst h1; subst h2
          exact ⟨c, q, p, hk0, Or.inl (by simp)⟩
        · obtain ⟨c1, id1, p1, a1, a2⟩ := g9 e' k' hm
          have hne : e' ≠ e := by
            intro he; subst he
            rcases g6 e' k' hm with ⟨_, _, _, h3⟩ | h3 <;> simp [hpc] at h3
          exact ⟨c1, id1, p1, a1, by simpa [hne] using a2⟩
      · intro e' c' q' p' hp
        by_cases he : e' = e
        · subst he
          simp at hp
          obtain ⟨h1, h2, h3⟩ := hp
          subst h1; subst h2; subst h3
          exact ⟨k, Or.inl ⟨rfl, rfl⟩, hk0⟩
        · simp [he] at hp
          obtain ⟨k1, a1, a2⟩ := g10 e' c' q' p' hp
          exact ⟨k1, Or.inr a1, a2⟩
      · intro e' mid p' hm
        obtain ⟨k1, c1, id1, a1, a2⟩ := g11 e' mid p' hm
        exact ⟨k1, c1, id1, Or.inr a1, a2⟩
    · exact h
  · exact h

theorem ginv_srvReply (hi : Inv cfg s) (h : GInv cfg s) (c id p : Nat) : GInv cfg (step cfg s (.srvReply c id p)) := by
  have hev : ∀ k, k < s.hist.length → evAt (Ev.reply c id p :: s.hist) k = evAt s.hist k := fun k hk => evAt_cons_lt hk
  have hev0 : evAt (Ev.reply c id p :: s.hist) s.hist.length = some (Ev.reply c id p) := by simp [evAt]
  have hlen : (Ev.reply c id p :: s.hist).length = s.hist.length + 1 := rfl
  have hmem : ∀ ev, ev ∈ s.hist → ev ∈ Ev.reply c id p :: s.hist := fun ev hm => List.mem_cons_of_mem _ hm
  have base : GInv cfg { s with hist := Ev.reply c id p :: s.hist } := by
    obtain ⟨g1, g2, g3, g4, g5, g6, g7, g8, g9, g10, g11⟩ := h
    constructor <;> simp only [] <;> grind
  simp only [step]
  split
  · exact base
  · rename_i ch hq
    split
    · rename_i hempty
      have hown := hi.own c id ch
      obtain ⟨g1, g2, g3, g4, g5, g6, g7, g8, g9, g10, g11⟩ := h
      constructor <;> simp only [] <;> grind [upd]
    · exact base

theorem ginv_step (hi : Inv cfg s) (h : GInv cfg s) (st : Step) : GInv cfg (step cfg s st) := by
  cases st with
  | reserve c => exact ginv_reserve h c
  | addQ e c => exact ginv_addQ hi h e c
  | write e ok closes => exact ginv_write h e ok closes
  | srvReply c id p => exact ginv_srvReply hi h c id p
  | take e => exact ginv_take h e
  | cancel e => exact ginv_cancel h e
  | dead e => exact ginv_dead h e
  | delQ e => exact ginv_delQ h e
  | giveUp e => exact ginv_giveUp h e
  | close c => exact ginv_close h c

theorem ginv_exec (hi : Inv cfg s) (h : GInv cfg s) (steps : List Step) : GInv cfg (exec cfg s steps) := by
  induction steps generalizing s with
  | nil => exact h
  | cons st rest ih => exact ih (inv_step hi st) (ginv_step hi h st)

end steps
end MosVerif.Pipeline
