/-
  C15 helper lemmas, part 5: the interleaving model refines the sequential limiter.
-/
import MosVerif.Model.LimiterConc
import MosVerif.Lemmas.LimiterTable
import MosVerif.Lemmas.LimiterClock
namespace MosVerif.Limiter

@[simp] theorem upd_same {α β : Type} [DecidableEq α] (f : α → β) (a : α) (v : β) : upd f a v a = v := by
  simp [upd]

theorem upd_other {α β : Type} [DecidableEq α] (f : α → β) (a : α) (v : β) (x : α) (h : x ≠ a) :
    upd f a v x = f x := by
  simp [upd, h]

/-- the heap/map invariant: an allocated entry is live (not dead) exactly when the map points
    to it — so whoever finds an entry live under its lock is working on *the* entry of the key. -/
structure CState.Inv (s : CState) : Prop where
  mapped : ∀ k id, s.map k = some id → id < s.next ∧ s.keyOf id = k ∧ (s.heap id).dead = false
  live : ∀ id, id < s.next → (s.heap id).dead = false → s.map (s.keyOf id) = some id
  virgin : ∀ id, id < s.next → (s.heap id).lastSeen = none → (s.heap id).b = Bucket.fresh

theorem CState.inv_init (o : Opts) : (CState.init o).Inv :=
  ⟨fun _ _ h => by simp [CState.init] at h, fun _ h _ => by simp [CState.init] at h,
   fun _ h _ => by simp [CState.init] at h⟩

theorem CState.inv_step (s : CState) (h : s.Inv) (st : Step) : (s.step st).2.Inv := by
  cases st with
  | load k =>
    simp only [CState.step]
    cases hm : s.map k with
    | some id => simpa [hm] using h
    | none =>
      simp only
      refine ⟨fun k' id hk => ?_, fun id hid hd => ?_, fun id hid hl => ?_⟩
      · simp only at hk ⊢
        by_cases hkk : k' = k
        · subst hkk
          rw [upd_same] at hk
          cases hk
          simp
        · rw [upd_other _ _ _ _ hkk] at hk
          obtain ⟨h1, h2, h3⟩ := h.mapped k' id hk
          have hne : id ≠ s.next := by omega
          rw [upd_other _ _ _ _ hne, upd_other _ _ _ _ hne]
          exact ⟨by omega, h2, h3⟩
      · simp only at hid hd ⊢
        by_cases hne : id = s.next
        · subst hne; simp
        · rw [upd_other _ _ _ _ hne] at hd ⊢
          have hl := h.live id (by omega) hd
          have hkk : s.keyOf id ≠ k := by
            intro he; rw [he, hm] at hl; cases hl
          rw [upd_other _ _ _ _ hkk]; exact hl
      · simp only at hid hl ⊢
        by_cases hne : id = s.next
        · subst hne; simp
        · rw [upd_other _ _ _ _ hne] at hl ⊢
          exact h.virgin id (by omega) hl
  | locked id addr now n =>
    simp only [CState.step]
    by_cases hh : s.holds id addr
    · rw [if_pos hh]
      cases hd : (s.heap id).dead with
      | true => simpa using h
      | false =>
        simp only [Bool.false_eq_true, if_false]
        refine ⟨fun k' id' hk => ?_, fun id' hid hd' => ?_, fun id' hid hl => ?_⟩
        · obtain ⟨h1, h2, h3⟩ := h.mapped k' id' hk
          refine ⟨h1, h2, ?_⟩
          simp only
          by_cases hne : id' = id
          · subst hne; simp
          · rw [upd_other _ _ _ _ hne]; exact h3
        · simp only at hid hd' ⊢
          by_cases hne : id' = id
          · subst hne; exact h.live id' hid hd
          · rw [upd_other _ _ _ _ hne] at hd'; exact h.live id' hid hd'
        · simp only at hid hl ⊢
          by_cases hne : id' = id
          · subst hne; simp at hl
          · rw [upd_other _ _ _ _ hne] at hl ⊢; exact h.virgin id' hid hl
    · rw [if_neg hh]; exact h
  | gcEntry k now =>
    simp only [CState.step]
    cases hm : s.map k with
    | none => simpa [hm] using h
    | some id =>
      simp only
      split
      · obtain ⟨hid, hkey, hdead⟩ := h.mapped k id hm
        refine ⟨fun k' id' hk => ?_, fun id' hid' hd' => ?_, fun id' hid' hl => ?_⟩
        · simp only at hk ⊢
          by_cases hkk : k' = k
          · subst hkk; simp at hk
          · rw [upd_other _ _ _ _ hkk] at hk
            obtain ⟨h1, h2, h3⟩ := h.mapped k' id' hk
            have hne : id' ≠ id := by
              intro he; subst he; exact hkk (h2.symm.trans hkey)
            rw [upd_other _ _ _ _ hne]
            exact ⟨h1, h2, h3⟩
        · simp only at hid' hd' ⊢
          by_cases hne : id' = id
          · subst hne; simp at hd'
          · rw [upd_other _ _ _ _ hne] at hd'
            have hl := h.live id' hid' hd'
            have hkk : s.keyOf id' ≠ k := by
              intro he; rw [he, hm] at hl; cases hl; exact hne rfl
            rw [upd_other _ _ _ _ hkk]; exact hl
        · simp only at hid' hl ⊢
          by_cases hne : id' = id
          · subst hne; simp only [upd_same] at hl ⊢; exact h.virgin id' hid' hl
          · rw [upd_other _ _ _ _ hne] at hl ⊢; exact h.virgin id' hid' hl
      · exact h

/-- **every `AllowN` verdict is taken on the live entry of its key**: the locked region
    returns a verdict only on the entry the map currently holds for the key. -/
theorem CState.locked_on_mapped_entry (s : CState) (h : s.Inv) (id : Nat) (addr : Addr) (now n : Nat) (v : Bool)
    (hv : (s.step (.locked id addr now n)).1 = some v) : s.map (mask s.opts addr) = some id := by
  simp only [CState.step] at hv
  by_cases hh : s.holds id addr
  · rw [if_pos hh] at hv
    cases hd : (s.heap id).dead with
    | true => simp [hd] at hv
    | false => rw [← hh.2]; exact h.live id hh.1 hd
  · rw [if_neg hh] at hv; simp at hv

theorem ClientLimiter.ext_pointwise (c1 c2 : ClientLimiter) (ho : c1.opts = c2.opts) (hm : ∀ k, c1.m k = c2.m k) : c1 = c2 := by
  obtain ⟨o1, m1⟩ := c1
  obtain ⟨o2, m2⟩ := c2
  simp only at ho hm
  subst ho
  have : m1 = m2 := funext hm
  subst this; rfl

/-- an invisible step changes nothing the sequential limiter can see -/
theorem CState.sim_invisible (s : CState) (h : s.Inv) (st : Step) (hop : s.absOp st = none) :
    (s.step st).1 = none ∧ (s.step st).2.abs = s.abs := by
  cases st with
  | load k =>
    simp only [CState.step]
    cases hm : s.map k with
    | some id => simp
    | none =>
      refine ⟨rfl, ClientLimiter.ext_pointwise _ _ rfl fun k' => ?_⟩
      simp only [CState.abs]
      by_cases hkk : k' = k
      · subst hkk; simp [hm]
      · rw [upd_other _ _ _ _ hkk]
        cases hk : s.map k' with
        | none => rfl
        | some id' =>
          have hne : id' ≠ s.next := by have := (h.mapped k' id' hk).1; omega
          simp only [upd_other _ _ _ _ hne]
  | locked id addr now n =>
    simp only [CState.absOp] at hop
    simp only [CState.step]
    by_cases hh : s.holds id addr
    · rw [if_pos hh]
      cases hd : (s.heap id).dead with
      | true => simp
      | false => simp [hh, hd] at hop
    · rw [if_neg hh]; exact ⟨rfl, rfl⟩
  | gcEntry k now => simp [CState.absOp] at hop

theorem CState.abs_limit (s : CState) : s.abs.limit = s.limit := rfl
theorem CState.abs_burst (s : CState) : s.abs.burst = s.burst := rfl

theorem CState.abs_m_none (s : CState) (k : Addr) (h : s.map k = none) : s.abs.m k = none := by
  simp [CState.abs, h]

theorem CState.abs_m_virgin (s : CState) (k : Addr) (id : Nat) (h : s.map k = some id)
    (hl : (s.heap id).lastSeen = none) : s.abs.m k = none := by
  simp [CState.abs, h, hl]

theorem CState.abs_m_used (s : CState) (k : Addr) (id ls : Nat) (h : s.map k = some id)
    (hl : (s.heap id).lastSeen = some ls) : s.abs.m k = some ⟨(s.heap id).b, ls⟩ := by
  simp [CState.abs, h, hl]

theorem ClientLimiter.gc_m_other (cl : ClientLimiter) (now : Nat) (k k' : Addr) (h : k' ≠ k) :
    (cl.gc now (some k)).m k' = cl.m k' := by
  simp only [ClientLimiter.gc, ClientLimiter.gcWith]
  cases cl.m k' with
  | none => rfl
  | some e =>
    simp only
    rw [if_neg]
    intro hc
    rcases hc.1 with h1 | h1
    · cases h1
    · exact h (Option.some.inj h1).symm

theorem ClientLimiter.gc_m_same (cl : ClientLimiter) (now : Nat) (k : Addr) (e : Entry) (h : cl.m k = some e) :
    (cl.gc now (some k)).m k =
      if e.lastSeen + entryTtl < now ∧ ((cl.burst * nano : Nat) : Int) ≤ e.b.avail cl.limit cl.burst now
      then none else some e := by
  have hg : (cl.gc now (some k)).m k = match cl.m k with
      | some e =>
        if (some k = none ∨ some k = some k) ∧ e.lastSeen + entryTtl < now ∧
            (gcRequiresFull = false ∨ ((cl.burst * nano : Nat) : Int) ≤ e.b.avail cl.limit cl.burst now)
        then none else some e
      | none => none := rfl
  rw [hg, h]
  dsimp only
  by_cases hc : e.lastSeen + entryTtl < now ∧ ((cl.burst * nano : Nat) : Int) ≤ e.b.avail cl.limit cl.burst now
  · rw [if_pos hc, if_pos ⟨Or.inr rfl, hc.1, Or.inr hc.2⟩]
  · have hc2 : ¬ ((some k = none ∨ some k = some k) ∧ e.lastSeen + entryTtl < now ∧
        (gcRequiresFull = false ∨ ((cl.burst * nano : Nat) : Int) ≤ e.b.avail cl.limit cl.burst now)) := by
      intro hc'
      apply hc
      refine ⟨hc'.2.1, ?_⟩
      rcases hc'.2.2 with h2 | h2
      · exact absurd h2 (by decide)
      · exact h2
    rw [if_neg hc, if_neg hc2]

theorem ClientLimiter.gc_m_same_none (cl : ClientLimiter) (now : Nat) (k : Addr) (h : cl.m k = none) :
    (cl.gc now (some k)).m k = none := by
  simp only [ClientLimiter.gc, ClientLimiter.gcWith, h]

/-- a `locked` region on a live entry is the sequential `AllowN` -/
theorem CState.sim_allow (s : CState) (h : s.Inv) (id : Nat) (addr : Addr) (now0 n : Nat)
    (hh : s.holds id addr) (hd : (s.heap id).dead = false) :
    (s.step (.locked id addr now0 n)).1 = some (s.abs.allowN addr now0 n).1 ∧
    (s.step (.locked id addr now0 n)).2.abs = (s.abs.allowN addr now0 n).2 := by
  have hmap : s.map (mask s.opts addr) = some id := by rw [← hh.2]; exact h.live id hh.1 hd
  have hbk : s.abs.bucketOf (mask s.abs.opts addr) = (s.heap id).b := by
    show s.abs.bucketOf (mask s.opts addr) = _
    unfold ClientLimiter.bucketOf
    cases hl : (s.heap id).lastSeen with
    | none => rw [s.abs_m_virgin _ id hmap hl, h.virgin id hh.1 hl]
    | some ls => rw [s.abs_m_used _ id ls hmap hl]
  -- the sequential limiter clamps to the same clock
  have hclk : s.abs.clock addr now0 = (s.heap id).clock now0 := by
    show (match s.abs.m (mask s.opts addr) with
      | some e => max e.lastSeen now0
      | none => now0) = _
    unfold CEntry.clock
    cases hl : (s.heap id).lastSeen with
    | none => rw [s.abs_m_virgin _ id hmap hl]
    | some ls => rw [s.abs_m_used _ id ls hmap hl]
  have hstep : s.step (.locked id addr now0 n) =
      (some ((s.heap id).b.allowN s.limit s.burst ((s.heap id).clock now0) n).1,
        { s with heap := upd s.heap id ⟨((s.heap id).b.allowN s.limit s.burst ((s.heap id).clock now0) n).2,
            some ((s.heap id).clock now0), false⟩ }) := by
    simp only [CState.step, if_pos hh, hd, Bool.false_eq_true, if_false]
  rw [hstep]
  show _ = some (s.abs.allowNAt addr (s.abs.clock addr now0) n).1 ∧ _ = (s.abs.allowNAt addr (s.abs.clock addr now0) n).2
  rw [hclk]
  generalize (s.heap id).clock now0 = now
  dsimp only
  constructor
  · rw [ClientLimiter.allowN_fst, hbk]; rfl
  · refine ClientLimiter.ext_pointwise _ _ rfl fun k' => ?_
    by_cases hkk : k' = mask s.opts addr
    · subst hkk
      have h1 := s.abs.m_allowN_same addr now n
      rw [hbk] at h1
      have h1' : (s.abs.allowNAt addr now n).2.m (mask s.opts addr) = _ := h1
      rw [h1']
      have hm' : ({ s with heap := upd s.heap id ⟨((s.heap id).b.allowN s.limit s.burst now n).2, some now, false⟩ } : CState).map
          (mask s.opts addr) = some id := hmap
      rw [CState.abs_m_used _ _ id now hm' (by simp)]
      simp
      rfl
    · have hkk' : mask s.abs.opts addr ≠ k' := fun e => hkk e.symm
      rw [ClientLimiter.m_allowN_other _ _ _ _ _ hkk']
      cases hk : s.map k' with
      | none => rw [s.abs_m_none k' hk]; exact CState.abs_m_none _ k' hk
      | some id' =>
        have hne : id' ≠ id := by
          intro he; subst he
          exact hkk ((h.mapped k' id' hk).2.1.symm.trans hh.2)
        cases hl : (s.heap id').lastSeen with
        | none =>
          rw [s.abs_m_virgin k' id' hk hl]
          exact CState.abs_m_virgin _ k' id' hk (by simp only [upd_other _ _ _ _ hne]; exact hl)
        | some ls =>
          rw [s.abs_m_used k' id' ls hk hl]
          have := CState.abs_m_used
            ({ s with heap := upd s.heap id ⟨((s.heap id).b.allowN s.limit s.burst now n).2, some now, false⟩ } : CState)
            k' id' ls hk (by simp only [upd_other _ _ _ _ hne]; exact hl)
          rw [this]
          simp only [upd_other _ _ _ _ hne]

/-- gc's locked region for one key is the sequential per-key gc pass -/
theorem CState.sim_gc (s : CState) (h : s.Inv) (k : Addr) (now : Nat) :
    (s.step (.gcEntry k now)).1 = none ∧ (s.step (.gcEntry k now)).2.abs = s.abs.gc now (some k) := by
  cases hm : s.map k with
  | none =>
    have hstep : s.step (.gcEntry k now) = (none, s) := by simp only [CState.step, hm]
    rw [hstep]
    dsimp only
    refine ⟨rfl, ClientLimiter.ext_pointwise _ _ rfl fun k' => ?_⟩
    by_cases hkk : k' = k
    · subst hkk
      rw [ClientLimiter.gc_m_same_none _ _ _ (s.abs_m_none k' hm), s.abs_m_none k' hm]
    · rw [ClientLimiter.gc_m_other _ _ _ _ hkk]
  | some id =>
    obtain ⟨hid, hkey, hdead⟩ := h.mapped k id hm
    by_cases hc : (s.heap id).idle now ∧ ((s.burst * nano : Nat) : Int) ≤ (s.heap id).b.avail s.limit s.burst now
    · have hstep : s.step (.gcEntry k now) =
          (none, { s with heap := upd s.heap id { s.heap id with dead := true }, map := upd s.map k none }) := by
        simp only [CState.step, hm, if_pos hc]
      rw [hstep]
      dsimp only
      refine ⟨rfl, ClientLimiter.ext_pointwise _ _ rfl fun k' => ?_⟩
      by_cases hkk : k' = k
      · subst hkk
        rw [CState.abs_m_none _ k' (by simp)]
        cases hl : (s.heap id).lastSeen with
        | none => rw [ClientLimiter.gc_m_same_none _ _ _ (s.abs_m_virgin k' id hm hl)]
        | some ls =>
          have hcp : ls + entryTtl < now ∧
              ((s.abs.burst * nano : Nat) : Int) ≤ (s.heap id).b.avail s.abs.limit s.abs.burst now := by
            refine ⟨?_, hc.2⟩
            have := hc.1
            simp only [CEntry.idle, hl] at this
            exact this
          rw [ClientLimiter.gc_m_same _ _ _ _ (s.abs_m_used k' id ls hm hl), if_pos hcp]
      · rw [ClientLimiter.gc_m_other _ _ _ _ hkk]
        cases hk : s.map k' with
        | none => rw [s.abs_m_none k' hk]; exact CState.abs_m_none _ k' (by simp only [upd_other _ _ _ _ hkk]; exact hk)
        | some id' =>
          have hne : id' ≠ id := by
            intro he; subst he
            exact hkk ((h.mapped k' id' hk).2.1.symm.trans hkey)
          have hk' : ({ s with heap := upd s.heap id { s.heap id with dead := true }, map := upd s.map k none } : CState).map k'
              = some id' := by simp only [upd_other _ _ _ _ hkk]; exact hk
          cases hl : (s.heap id').lastSeen with
          | none =>
            rw [s.abs_m_virgin k' id' hk hl]
            exact CState.abs_m_virgin _ k' id' hk' (by simp only [upd_other _ _ _ _ hne]; exact hl)
          | some ls =>
            rw [s.abs_m_used k' id' ls hk hl, CState.abs_m_used _ k' id' ls hk' (by simp only [upd_other _ _ _ _ hne]; exact hl)]
            simp only [upd_other _ _ _ _ hne]
    · have hstep : s.step (.gcEntry k now) = (none, s) := by simp only [CState.step, hm, if_neg hc]
      rw [hstep]
      dsimp only
      refine ⟨rfl, ClientLimiter.ext_pointwise _ _ rfl fun k' => ?_⟩
      by_cases hkk : k' = k
      · subst hkk
        cases hl : (s.heap id).lastSeen with
        | none =>
          rw [ClientLimiter.gc_m_same_none _ _ _ (s.abs_m_virgin k' id hm hl), s.abs_m_virgin k' id hm hl]
        | some ls =>
          have hcn : ¬ (ls + entryTtl < now ∧
              ((s.abs.burst * nano : Nat) : Int) ≤ (s.heap id).b.avail s.abs.limit s.abs.burst now) := by
            intro hc'
            apply hc
            refine ⟨?_, hc'.2⟩
            simp only [CEntry.idle, hl]; exact hc'.1
          rw [ClientLimiter.gc_m_same _ _ _ _ (s.abs_m_used k' id ls hm hl), if_neg hcn]
          exact s.abs_m_used k' id ls hm hl
      · rw [ClientLimiter.gc_m_other _ _ _ _ hkk]

/-- **linearizability.**  The verdicts returned along any schedule are the verdicts of the
    sequential limiter on the schedule's visible steps, taken in schedule order. -/
theorem CState.linearizable : ∀ (sts : List Step) (s : CState), s.Inv →
    s.exec sts = s.abs.runOps (s.absOps sts) := by
  intro sts
  induction sts with
  | nil => intro s _; rfl
  | cons st sts ih =>
    intro s h
    have IH := ih (s.step st).2 (s.inv_step h st)
    simp only [CState.exec, CState.absOps]
    cases hop : s.absOp st with
    | none =>
      obtain ⟨h1, h2⟩ := s.sim_invisible h st hop
      simp only [h1]
      rw [IH, h2]
    | some o =>
      cases st with
      | load k => simp [CState.absOp] at hop
      | locked id addr now n =>
        simp only [CState.absOp] at hop
        split at hop
        · rename_i hc
          cases hop
          obtain ⟨h1, h2⟩ := s.sim_allow h id addr now n hc.1 hc.2
          simp only [h1]
          rw [IH, h2]
          rfl
        · cases hop
      | gcEntry k now =>
        simp only [CState.absOp] at hop
        cases hop
        obtain ⟨h1, h2⟩ := s.sim_gc h k now
        simp only [h1]
        rw [IH, h2]
        rfl

end MosVerif.Limiter
