/-
  Helper lemmas for C01: the decoder never panics and every offset it returns stays inside
  the message.
-/
import MosVerif.Model.Wire
namespace MosVerif.Wire

/-- `r` is not a panic and any offset it returns is within `len`. -/
def Safe {α} (r : Res (α × Nat)) (len : Nat) : Prop :=
  r ≠ .panic ∧ ∀ a o, r = .ok (a, o) → o ≤ len

theorem Safe.bind {α β} {x : Res (α × Nat)} {f : α × Nat → Res (β × Nat)} {len : Nat}
    (hx : Safe x len) (hf : ∀ a o, x = .ok (a, o) → o ≤ len → Safe (f (a, o)) len) :
    Safe (x >>= f) len := by
  cases x with
  | ok p =>
    obtain ⟨a, o⟩ := p
    have := hf a o rfl (hx.2 a o rfl)
    simpa [Bind.bind, Res.bind] using this
  | err => constructor <;> simp [Bind.bind, Res.bind]
  | panic => exact absurd rfl hx.1

theorem safe_err {α} (len : Nat) : Safe (Res.err : Res (α × Nat)) len := by
  constructor <;> simp

theorem safe_ok {α} (a : α) {o len : Nat} (h : o ≤ len) : Safe (Res.ok (a, o)) len := by
  constructor
  · simp
  · intro a' o' h'; cases h'; exact h

theorem sliceFrom_ok {msg : Bytes} {off : Nat} (h : off ≤ msg.length) :
    sliceFrom msg off = .ok (msg.drop off) := by
  simp [sliceFrom, h]

theorem u16At_safe (msg : Bytes) (off : Nat) (h : off ≤ msg.length) : Safe (u16At msg off) msg.length := by
  unfold u16At
  rw [sliceFrom_ok h]
  simp only [Bind.bind, Res.bind]
  match hd : msg.drop off with
  | [] => simp [safe_err]
  | [_] => simp [safe_err]
  | a :: b :: rest =>
    simp only
    apply safe_ok
    have : (msg.drop off).length = msg.length - off := List.length_drop
    rw [hd] at this
    simp at this
    omega

theorem u32At_safe (msg : Bytes) (off : Nat) (h : off ≤ msg.length) : Safe (u32At msg off) msg.length := by
  unfold u32At
  rw [sliceFrom_ok h]
  simp only [Bind.bind, Res.bind]
  match hd : msg.drop off with
  | [] => simp [safe_err]
  | [_] => simp [safe_err]
  | [_, _] => simp [safe_err]
  | [_, _, _] => simp [safe_err]
  | a :: b :: c :: d :: rest =>
    simp only
    apply safe_ok
    have : (msg.drop off).length = msg.length - off := List.length_drop
    rw [hd] at this
    simp at this
    omega

theorem bytesAt_safe (msg : Bytes) (off l : Nat) (h : off ≤ msg.length) : Safe (bytesAt msg off l) msg.length := by
  unfold bytesAt
  rw [sliceFrom_ok h]
  simp only [Bind.bind, Res.bind]
  split
  · exact safe_err _
  · apply safe_ok
    have : (msg.drop off).length = msg.length - off := List.length_drop
    omega

end MosVerif.Wire

namespace MosVerif.Wire

/-- The name loop never overflows its 254-byte scratch buffer (hence never reports `panic`),
    returns an offset inside the message and a name of at most 254 octets. -/
theorem nameLoop_safe (msg : Bytes) (currOff newOff ptr : Nat) (name : Bytes) :
    newOff ≤ msg.length → name.length ≤ 254 →
    nameLoop msg currOff newOff ptr name ≠ .panic ∧
    ∀ n o, nameLoop msg currOff newOff ptr name = .ok (n, o) → o ≤ msg.length ∧ n.length ≤ 254 := by
  fun_induction nameLoop msg currOff newOff ptr name
  case case1 => intros; simp
  case case2 => intro _ hl; omega
  case case3 currOff newOff ptr name h c currOff1 hlt hz newOff' hsmall =>
    intro hn hl
    refine ⟨by simp, ?_⟩
    intro n o heq
    simp only [Res.ok.injEq, Prod.mk.injEq] at heq
    obtain ⟨rfl, rfl⟩ := heq
    refine ⟨?_, hl⟩
    simp only [newOff', currOff1]
    split <;> omega
  case case4 => intros; simp
  case case5 => intros; simp
  case case6 hcap ih =>
    intro hn hl
    apply ih hn
    simp only [List.length_append, List.length_cons, List.length_nil, List.length_take, List.length_drop]
    simp only [nameCap] at hcap
    omega
  case case7 => intros; simp
  case case8 => intros; simp
  case case9 currOff newOff ptr name h c currOff1 hnlt hge h2 c1 currOff2 newOff' hp ih =>
    intro hn hl
    apply ih _ hl
    simp only [newOff', currOff2, currOff1]
    split <;> omega
  case case10 => intros; simp

theorem unpackName_safe (msg : Bytes) (off : Nat) (h : off ≤ msg.length) :
    Safe (unpackName msg off) msg.length := by
  unfold unpackName
  have := nameLoop_safe msg off off 0 [] h (by simp)
  exact ⟨this.1, fun a o e => (this.2 a o e).1⟩

theorem unpackName_len (msg : Bytes) (off : Nat) (h : off ≤ msg.length) (n : Name) (o : Nat)
    (e : unpackName msg off = .ok (n, o)) : n.length ≤ 254 := by
  unfold unpackName at e
  exact ((nameLoop_safe msg off off 0 [] h (by simp)).2 n o e).2

end MosVerif.Wire

namespace MosVerif.Wire

theorem unpackQuestion_safe (msg : Bytes) (off : Nat) (h : off ≤ msg.length) :
    Safe (unpackQuestion msg off) msg.length := by
  unfold unpackQuestion
  refine Safe.bind (unpackName_safe msg off h) fun n o _ ho => ?_
  refine Safe.bind (u16At_safe msg o ho) fun t o2 _ ho2 => ?_
  refine Safe.bind (u16At_safe msg o2 ho2) fun c o3 _ ho3 => ?_
  exact safe_ok _ ho3

theorem unpackRHdr_safe (msg : Bytes) (off : Nat) (h : off ≤ msg.length) :
    Safe (unpackRHdr msg off) msg.length := by
  unfold unpackRHdr
  refine Safe.bind (unpackName_safe msg off h) fun n o _ ho => ?_
  refine Safe.bind (u16At_safe msg o ho) fun t o2 _ ho2 => ?_
  refine Safe.bind (u16At_safe msg o2 ho2) fun c o3 _ ho3 => ?_
  refine Safe.bind (u32At_safe msg o3 ho3) fun ttl o4 _ ho4 => ?_
  refine Safe.bind (u16At_safe msg o4 ho4) fun l o5 _ ho5 => ?_
  exact safe_ok _ ho5

/-- `if c then err else ok (a, o)` with `o` in range -/
theorem safe_ite_err {α} {c : Prop} [Decidable c] (a : α) {o len : Nat} (h : o ≤ len) :
    Safe (if c then Res.err else Res.ok (a, o)) len := by
  split
  · exact safe_err _
  · exact safe_ok _ h

theorem unpackRData_safe (msg : Bytes) (off rtype len : Nat) (h : off ≤ msg.length) :
    Safe (unpackRData msg off rtype len) msg.length := by
  unfold unpackRData
  split
  · split
    · exact safe_err _
    · exact Safe.bind (bytesAt_safe msg off 4 h) fun b o _ ho => safe_ok _ ho
  split
  · split
    · exact safe_err _
    · exact Safe.bind (bytesAt_safe msg off 16 h) fun b o _ ho => safe_ok _ ho
  split
  · refine Safe.bind (u16At_safe msg off h) fun p o _ ho => ?_
    refine Safe.bind (unpackName_safe msg o ho) fun n o2 _ ho2 => ?_
    exact safe_ite_err _ ho2
  split
  · refine Safe.bind (unpackName_safe msg off h) fun n o _ ho => ?_
    exact safe_ite_err _ ho
  split
  · refine Safe.bind (unpackName_safe msg off h) fun ns o _ ho => ?_
    refine Safe.bind (unpackName_safe msg o ho) fun mb o2 _ ho2 => ?_
    refine Safe.bind (u32At_safe msg o2 ho2) fun a o3 _ ho3 => ?_
    refine Safe.bind (u32At_safe msg o3 ho3) fun b o4 _ ho4 => ?_
    refine Safe.bind (u32At_safe msg o4 ho4) fun c o5 _ ho5 => ?_
    refine Safe.bind (u32At_safe msg o5 ho5) fun d o6 _ ho6 => ?_
    refine Safe.bind (u32At_safe msg o6 ho6) fun e o7 _ ho7 => ?_
    exact safe_ite_err _ ho7
  split
  · refine Safe.bind (u16At_safe msg off h) fun p o _ ho => ?_
    refine Safe.bind (u16At_safe msg o ho) fun w o2 _ ho2 => ?_
    refine Safe.bind (u16At_safe msg o2 ho2) fun port o3 _ ho3 => ?_
    refine Safe.bind (unpackName_safe msg o3 ho3) fun t o4 _ ho4 => ?_
    exact safe_ite_err _ ho4
  · exact Safe.bind (bytesAt_safe msg off len h) fun b o _ ho => safe_ok _ ho

theorem unpackResource_safe (msg : Bytes) (off : Nat) (h : off ≤ msg.length) :
    Safe (unpackResource msg off) msg.length := by
  unfold unpackResource
  refine Safe.bind (unpackRHdr_safe msg off h) fun hd o _ ho => ?_
  refine Safe.bind (unpackRData_safe msg o hd.rtype hd.length ho) fun rd o2 _ ho2 => ?_
  exact safe_ok _ ho2

theorem unpackQuestions_safe (msg : Bytes) (n off : Nat) (h : off ≤ msg.length) :
    Safe (unpackQuestions msg n off) msg.length := by
  induction n generalizing off with
  | zero => exact safe_ok _ h
  | succ n ih =>
    unfold unpackQuestions
    refine Safe.bind (unpackQuestion_safe msg off h) fun q o _ ho => ?_
    refine Safe.bind (ih o ho) fun qs o2 _ ho2 => ?_
    exact safe_ok _ ho2

theorem unpackResources_safe (msg : Bytes) (n off : Nat) (h : off ≤ msg.length) :
    Safe (unpackResources msg n off) msg.length := by
  induction n generalizing off with
  | zero => exact safe_ok _ h
  | succ n ih =>
    unfold unpackResources
    refine Safe.bind (unpackResource_safe msg off h) fun r o _ ho => ?_
    refine Safe.bind (ih o ho) fun rs o2 _ ho2 => ?_
    exact safe_ok _ ho2

theorem unpackMsgEnd_safe (msg : Bytes) : Safe (unpackMsgEnd msg) msg.length := by
  unfold unpackMsgEnd
  rw [sliceFrom_ok (Nat.zero_le _)]
  simp only [Bind.bind, Res.bind]
  have hd : (msg.drop 0).length = msg.length := by simp
  generalize msg.drop 0 = hdr at hd ⊢
  split
  next i0 i1 b0 b1 q0 q1 a0 a1 n0 n1 x0 x1 rest =>
    have hlen : 12 ≤ msg.length := by rw [← hd]; simp
    refine Safe.bind (unpackQuestions_safe msg _ 12 hlen) fun qs o _ ho => ?_
    refine Safe.bind (unpackResources_safe msg _ o ho) fun an o2 _ ho2 => ?_
    refine Safe.bind (unpackResources_safe msg _ o2 ho2) fun ns o3 _ ho3 => ?_
    refine Safe.bind (unpackResources_safe msg _ o3 ho3) fun ar o4 _ ho4 => ?_
    exact safe_ok _ ho4
  next => exact safe_err _

/-- `unpackMsg` is `unpackMsgEnd` without the final offset. -/
theorem unpackMsg_eq (msg : Bytes) :
    unpackMsg msg = (unpackMsgEnd msg >>= fun p => Res.ok p.1) := by
  unfold unpackMsg unpackMsgEnd
  cases hs : sliceFrom msg 0 with
  | err => rfl
  | panic => rfl
  | ok hdr =>
    simp only [Bind.bind, Res.bind]
    split
    next =>
      cases unpackQuestions msg _ 12 with
      | err => rfl
      | panic => rfl
      | ok p1 =>
        obtain ⟨qs, o⟩ := p1
        simp only [Res.bind]
        cases unpackResources msg _ o with
        | err => rfl
        | panic => rfl
        | ok p2 =>
          obtain ⟨an, o2⟩ := p2
          simp only [Res.bind]
          cases unpackResources msg _ o2 with
          | err => rfl
          | panic => rfl
          | ok p3 =>
            obtain ⟨ns, o3⟩ := p3
            simp only [Res.bind]
            cases unpackResources msg _ o3 with
            | err => rfl
            | panic => rfl
            | ok p4 => rfl
    next => rfl

end MosVerif.Wire
