/-
  Codec lemmas, part 4 (C02): questions, RDATA of every kind and whole resource records:
  what `pack*` appends is read back by `unpack*`, the table invariant is kept, lengths are as
  advertised.
-/
import MosVerif.Lemmas.CodecPackName
namespace MosVerif.Wire

/-- closes offset equalities such as `(buf ++ a ++ enc16 v).length = buf.length + a.length + 2` -/
macro "len_tac" : tactic => `(tactic|
  ((try simp only [List.length_append, List.length_cons, List.length_nil, enc16_length, enc32_length]) <;> (try omega)))

/-! ### fixed-width fields on a buffer that contains their encoding -/

theorem u16At_enc (msg pre post : Bytes) (off v : Nat) (hv : v < 65536)
    (hmsg : msg = pre ++ (enc16 v ++ post)) (hoff : off = pre.length) :
    u16At msg off = .ok (v, off + 2) := by
  subst hmsg hoff
  unfold u16At
  rw [sliceFrom_ok (by simp)]
  simp only [Bind.bind, Res.bind, List.drop_left, enc16, List.cons_append, List.nil_append]
  rw [be16_enc16 v hv]

theorem u32At_enc (msg pre post : Bytes) (off v : Nat) (hv : v < 4294967296)
    (hmsg : msg = pre ++ (enc32 v ++ post)) (hoff : off = pre.length) :
    u32At msg off = .ok (v, off + 4) := by
  subst hmsg hoff
  unfold u32At
  rw [sliceFrom_ok (by simp)]
  simp only [Bind.bind, Res.bind, List.drop_left, enc32, List.cons_append, List.nil_append]
  rw [be32_enc32 v hv]

theorem bytesAt_enc (msg pre d post : Bytes) (off l : Nat)
    (hmsg : msg = pre ++ (d ++ post)) (hoff : off = pre.length) (hl : l = d.length) :
    bytesAt msg off l = .ok (d, off + l) := by
  subst hmsg hoff hl
  unfold bytesAt
  rw [sliceFrom_ok (by simp)]
  simp [Bind.bind, Res.bind]

theorem Enc.reads' {α : Type} {dec : Bytes → Nat → Res (α × Nat)} {buf : Bytes} {tbl : Option Table} {x : α}
    {len : Nat} {bs : Bytes} {tbl' : Option Table} (h : Enc dec buf tbl x len bs tbl')
    (msg post : Bytes) (off : Nat) (hmsg : msg = buf ++ (bs ++ post)) (hoff : off = buf.length) :
    dec msg off = .ok (x, off + bs.length) := by
  subst hoff; exact h.reads msg post hmsg

theorem Enc.none_tbl {α : Type} {dec : Bytes → Nat → Res (α × Nat)} {buf : Bytes} {tbl : Option Table} {x : α}
    {len : Nat} {bs : Bytes} {tbl' : Option Table} (h : Enc dec buf tbl x len bs tbl') (hn : tbl = none) :
    tbl' = none := by
  have := h.mode
  subst hn
  cases tbl' <;> simp_all

theorem Res.ok_bind {α β : Type} (a : α) (f : α → Res β) : (Res.ok a >>= f) = f a := rfl

/-! ### questions -/

theorem packQuestion_enc (buf : Bytes) (off : Nat) (hoff : off = buf.length) (tbl : Option Table) (q : Question)
    (hq : questionWF q = true) (hT : TableOK' buf tbl) :
    ∃ bs tbl', packQuestion off tbl q = .ok (bs, tbl') ∧
      Enc unpackQuestion buf tbl q (questionLen q) bs tbl' := by
  simp only [questionWF, Bool.and_eq_true, u16, decide_eq_true_eq] at hq
  obtain ⟨⟨hn, ht⟩, hc⟩ := hq
  obtain ⟨nb, tbl', hpk, hE⟩ := packName_enc buf off hoff tbl q.name hn hT
  refine ⟨nb ++ enc16 q.qtype ++ enc16 q.qclass, tbl', ?_, ?_⟩
  · simp [packQuestion, hpk, Bind.bind, Res.bind]
  · have hle := hE.le
    constructor
    · have := hE.table.append (enc16 q.qtype ++ enc16 q.qclass)
      simpa [List.append_assoc] using this
    · exact hE.mode
    · simp only [questionLen, namePackLen_of_wf hn, List.length_append, enc16_length]; omega
    · intro h; have := hE.exact h
      simp only [questionLen, namePackLen_of_wf hn, List.length_append, enc16_length]; omega
    · intro msg post hmsg
      unfold unpackQuestion
      rw [hE.reads msg (enc16 q.qtype ++ (enc16 q.qclass ++ post)) (by rw [hmsg]; simp)]
      simp only [Res.ok_bind]
      rw [u16At_enc msg (buf ++ nb) (enc16 q.qclass ++ post) _ q.qtype ht (by rw [hmsg]; simp) (by simp)]
      simp only [Res.ok_bind]
      rw [u16At_enc msg (buf ++ nb ++ enc16 q.qtype) post _ q.qclass hc (by rw [hmsg]; simp)
        (by simp only [List.length_append, enc16_length])]
      simp only [Res.ok_bind, Res.ok.injEq, Prod.mk.injEq, List.length_append, enc16_length, true_and]
      omega

/-! ### RDATA, one lemma per kind -/

/-- the decoder specialised to a record type and RDLENGTH -/
abbrev decRData (t len : Nat) : Bytes → Nat → Res (RData × Nat) := fun msg o => unpackRData msg o t len

theorem packRData_a (buf : Bytes) (off : Nat) (_hoff : off = buf.length) (tbl : Option Table) (t : Nat) (b : Bytes)
    (hrd : rdataWF t (.a b) = true) (hT : TableOK' buf tbl) :
    ∃ bs tbl', packRData off tbl (.a b) = .ok (bs, tbl') ∧
      Enc (decRData t bs.length) buf tbl (.a b) (rdataPackLen (.a b)) bs tbl' := by
  simp only [rdataWF, Bool.and_eq_true, beq_iff_eq] at hrd
  obtain ⟨ht, hb⟩ := hrd
  refine ⟨b, tbl, rfl, ?_⟩
  constructor
  · exact hT.append b
  · rfl
  · simp [rdataPackLen, hb]
  · intro _; simp [rdataPackLen, hb]
  · intro msg post hmsg
    simp only [decRData, unpackRData, ht, hb, if_true, ne_eq, not_true_eq_false, if_false]
    rw [bytesAt_enc msg buf b post _ 4 hmsg rfl hb.symm]
    simp [Bind.bind, Res.bind]

theorem packRData_aaaa (buf : Bytes) (off : Nat) (_hoff : off = buf.length) (tbl : Option Table) (t : Nat) (b : Bytes)
    (hrd : rdataWF t (.aaaa b) = true) (hT : TableOK' buf tbl) :
    ∃ bs tbl', packRData off tbl (.aaaa b) = .ok (bs, tbl') ∧
      Enc (decRData t bs.length) buf tbl (.aaaa b) (rdataPackLen (.aaaa b)) bs tbl' := by
  simp only [rdataWF, Bool.and_eq_true, beq_iff_eq] at hrd
  obtain ⟨ht, hb⟩ := hrd
  refine ⟨b, tbl, rfl, ?_⟩
  constructor
  · exact hT.append b
  · rfl
  · simp [rdataPackLen, hb]
  · intro _; simp [rdataPackLen, hb]
  · intro msg post hmsg
    have h1 : ¬ typeAAAA = typeA := by decide
    simp only [decRData, unpackRData, ht, hb, h1, if_true, ne_eq, not_true_eq_false, if_false]
    rw [bytesAt_enc msg buf b post _ 16 hmsg rfl hb.symm]
    simp [Bind.bind, Res.bind]

theorem packRData_raw (buf : Bytes) (off : Nat) (_hoff : off = buf.length) (tbl : Option Table) (t : Nat) (d : Bytes)
    (hrd : rdataWF t (.raw d) = true) (hT : TableOK' buf tbl) :
    ∃ bs tbl', packRData off tbl (.raw d) = .ok (bs, tbl') ∧
      Enc (decRData t bs.length) buf tbl (.raw d) (rdataPackLen (.raw d)) bs tbl' := by
  simp only [rdataWF, isTypedRR, Bool.and_eq_true, Bool.not_eq_true', Bool.or_eq_false_iff, beq_eq_false_iff_ne,
    decide_eq_true_eq] at hrd
  obtain ⟨⟨⟨⟨⟨⟨⟨⟨h1, h2⟩, h3⟩, h4⟩, h5⟩, h6⟩, h7⟩, h8⟩, hd⟩ := hrd
  have hnd : ¬ d.length > 65535 := by omega
  refine ⟨d, tbl, by simp [packRData, hnd], ?_⟩
  constructor
  · exact hT.append d
  · rfl
  · simp [rdataPackLen, hnd]
  · intro _; simp [rdataPackLen, hnd]
  · intro msg post hmsg
    simp only [decRData, unpackRData, h1, h2, h3, h4, h5, h6, h7, h8, if_false, or_self]
    rw [bytesAt_enc msg buf d post _ _ hmsg rfl rfl]
    simp [Bind.bind, Res.bind]

theorem packRData_name (buf : Bytes) (off : Nat) (hoff : off = buf.length) (tbl : Option Table) (t : Nat) (n : Name)
    (hrd : rdataWF t (.name n) = true) (hT : TableOK' buf tbl) :
    ∃ bs tbl', packRData off tbl (.name n) = .ok (bs, tbl') ∧
      Enc (decRData t bs.length) buf tbl (.name n) (rdataPackLen (.name n)) bs tbl' := by
  simp only [rdataWF, Bool.and_eq_true, Bool.or_eq_true, beq_iff_eq] at hrd
  obtain ⟨ht, hn⟩ := hrd
  obtain ⟨nb, tbl', hpk, hE⟩ := packName_enc buf off hoff tbl n hn hT
  refine ⟨nb, tbl', by simpa [packRData] using hpk, ?_⟩
  have hle := hE.le
  constructor
  · exact hE.table
  · exact hE.mode
  · simp only [rdataPackLen, namePackLen_of_wf hn]; omega
  · intro h; have := hE.exact h; simp only [rdataPackLen, namePackLen_of_wf hn]; omega
  · intro msg post hmsg
    have hdec := hE.reads msg post hmsg
    have h1 : ¬ t = typeA := by rcases ht with (rfl | rfl) | rfl <;> decide
    have h2 : ¬ t = typeAAAA := by rcases ht with (rfl | rfl) | rfl <;> decide
    have h3 : ¬ t = typeMX := by rcases ht with (rfl | rfl) | rfl <;> decide
    have h4 : t = typeCNAME ∨ t = typeNS ∨ t = typePTR := by rcases ht with (h | h) | h <;> simp [h]
    simp only [decRData, unpackRData, h1, h2, h3, h4, if_true, if_false, hdec, Res.ok_bind]
    simp

theorem packRData_mx (buf : Bytes) (off : Nat) (hoff : off = buf.length) (tbl : Option Table) (t pref : Nat) (n : Name)
    (hrd : rdataWF t (.mx pref n) = true) (hT : TableOK' buf tbl) :
    ∃ bs tbl', packRData off tbl (.mx pref n) = .ok (bs, tbl') ∧
      Enc (decRData t bs.length) buf tbl (.mx pref n) (rdataPackLen (.mx pref n)) bs tbl' := by
  simp only [rdataWF, Bool.and_eq_true, beq_iff_eq, u16, decide_eq_true_eq] at hrd
  obtain ⟨⟨ht, hp⟩, hn⟩ := hrd
  obtain ⟨nb, tbl', hpk, hE⟩ := packName_enc (buf ++ enc16 pref) (off + 2) (by simp [hoff]) tbl n hn
    (hT.append _)
  refine ⟨enc16 pref ++ nb, tbl', by simp [packRData, hpk, Bind.bind, Res.bind], ?_⟩
  have hle := hE.le
  constructor
  · simpa [List.append_assoc] using hE.table
  · exact hE.mode
  · simp only [rdataPackLen, namePackLen_of_wf hn, List.length_append, enc16_length]; omega
  · intro h; have := hE.exact h
    simp only [rdataPackLen, namePackLen_of_wf hn, List.length_append, enc16_length]; omega
  · intro msg post hmsg
    have h1 : ¬ typeMX = typeA := by decide
    have h2 : ¬ typeMX = typeAAAA := by decide
    simp only [decRData, unpackRData, ht, h1, h2, if_true, if_false]
    rw [u16At_enc msg buf (nb ++ post) _ pref hp (by rw [hmsg]; simp) rfl]
    simp only [Res.ok_bind]
    rw [hE.reads' msg post _ (by rw [hmsg]; simp) (by simp)]
    simp only [Res.ok_bind, List.length_append, enc16_length]
    rw [if_neg (by omega)]
    simp only [Res.ok.injEq, Prod.mk.injEq, true_and]; omega

theorem packRData_srv (buf : Bytes) (off : Nat) (hoff : off = buf.length) (tbl : Option Table)
    (t prio weight port : Nat) (n : Name)
    (hrd : rdataWF t (.srv prio weight port n) = true) (hT : TableOK' buf tbl) :
    ∃ bs tbl', packRData off tbl (.srv prio weight port n) = .ok (bs, tbl') ∧
      Enc (decRData t bs.length) buf tbl (.srv prio weight port n) (rdataPackLen (.srv prio weight port n)) bs tbl' := by
  simp only [rdataWF, Bool.and_eq_true, beq_iff_eq, u16, decide_eq_true_eq] at hrd
  obtain ⟨⟨⟨⟨ht, hp⟩, hw⟩, hpo⟩, hn⟩ := hrd
  obtain ⟨nb, tbl', hpk, hE⟩ := packName_enc (buf ++ (enc16 prio ++ enc16 weight ++ enc16 port)) (off + 6)
    (by simp [hoff]) tbl n hn (hT.append _)
  refine ⟨enc16 prio ++ enc16 weight ++ enc16 port ++ nb, tbl', by simp [packRData, hpk, Bind.bind, Res.bind], ?_⟩
  have hle := hE.le
  constructor
  · simpa [List.append_assoc] using hE.table
  · exact hE.mode
  · simp only [rdataPackLen, namePackLen_of_wf hn, List.length_append, enc16_length]; omega
  · intro h; have := hE.exact h
    simp only [rdataPackLen, namePackLen_of_wf hn, List.length_append, enc16_length]; omega
  · intro msg post hmsg
    have h1 : ¬ typeSRV = typeA := by decide
    have h2 : ¬ typeSRV = typeAAAA := by decide
    have h3 : ¬ typeSRV = typeMX := by decide
    have h4 : ¬ (typeSRV = typeCNAME ∨ typeSRV = typeNS ∨ typeSRV = typePTR) := by decide
    have h5 : ¬ typeSRV = typeSOA := by decide
    simp only [decRData, unpackRData, ht, h1, h2, h3, h4, h5, if_true, if_false]
    rw [u16At_enc msg buf (enc16 weight ++ (enc16 port ++ (nb ++ post))) _ prio hp (by rw [hmsg]; simp) rfl]
    simp only [Res.ok_bind]
    rw [u16At_enc msg (buf ++ enc16 prio) (enc16 port ++ (nb ++ post)) _ weight hw (by rw [hmsg]; simp) (by simp)]
    simp only [Res.ok_bind]
    rw [u16At_enc msg (buf ++ enc16 prio ++ enc16 weight) (nb ++ post) _ port hpo (by rw [hmsg]; simp) (by simp)]
    simp only [Res.ok_bind]
    rw [hE.reads' msg post _ (by rw [hmsg]; simp) (by simp)]
    simp only [Res.ok_bind, List.length_append, enc16_length]
    rw [if_neg (by omega)]
    simp only [Res.ok.injEq, Prod.mk.injEq, true_and]; omega

theorem packRData_soa (buf : Bytes) (off : Nat) (hoff : off = buf.length) (tbl : Option Table)
    (t : Nat) (ns mbox : Name) (a b c d e : Nat)
    (hrd : rdataWF t (.soa ns mbox a b c d e) = true) (hT : TableOK' buf tbl) :
    ∃ bs tbl', packRData off tbl (.soa ns mbox a b c d e) = .ok (bs, tbl') ∧
      Enc (decRData t bs.length) buf tbl (.soa ns mbox a b c d e) (rdataPackLen (.soa ns mbox a b c d e)) bs tbl' := by
  simp only [rdataWF, Bool.and_eq_true, beq_iff_eq, u32, decide_eq_true_eq] at hrd
  obtain ⟨⟨⟨⟨⟨⟨⟨ht, hns⟩, hmb⟩, ha⟩, hb⟩, hc⟩, hd⟩, he⟩ := hrd
  obtain ⟨b1, tbl1, hpk1, hE1⟩ := packName_enc buf off hoff tbl ns hns hT
  obtain ⟨b2, tbl2, hpk2, hE2⟩ := packName_enc (buf ++ b1) (off + b1.length) (by simp [hoff]) tbl1 mbox hmb hE1.table
  refine ⟨b1 ++ b2 ++ enc32 a ++ enc32 b ++ enc32 c ++ enc32 d ++ enc32 e, tbl2,
    by simp [packRData, hpk1, hpk2, Bind.bind, Res.bind], ?_⟩
  have hle1 := hE1.le
  have hle2 := hE2.le
  constructor
  · have := hE2.table.append (enc32 a ++ enc32 b ++ enc32 c ++ enc32 d ++ enc32 e)
    simpa [List.append_assoc] using this
  · exact hE2.mode.trans hE1.mode
  · simp only [rdataPackLen, namePackLen_of_wf hns, namePackLen_of_wf hmb, List.length_append, enc32_length]; omega
  · intro h
    have e1 := hE1.exact h
    have e2 := hE2.exact (hE1.none_tbl h)
    simp only [rdataPackLen, namePackLen_of_wf hns, namePackLen_of_wf hmb, List.length_append, enc32_length]; omega
  · intro msg post hmsg
    have h1 : ¬ typeSOA = typeA := by decide
    have h2 : ¬ typeSOA = typeAAAA := by decide
    have h3 : ¬ typeSOA = typeMX := by decide
    have h4 : ¬ (typeSOA = typeCNAME ∨ typeSOA = typeNS ∨ typeSOA = typePTR) := by decide
    simp only [decRData, unpackRData, ht, h1, h2, h3, h4, if_true, if_false]
    rw [hE1.reads msg (b2 ++ (enc32 a ++ (enc32 b ++ (enc32 c ++ (enc32 d ++ (enc32 e ++ post))))))
      (by rw [hmsg]; simp)]
    simp only [Res.ok_bind]
    rw [hE2.reads' msg (enc32 a ++ (enc32 b ++ (enc32 c ++ (enc32 d ++ (enc32 e ++ post))))) _
      (by rw [hmsg]; simp) (by len_tac)]
    simp only [Res.ok_bind]
    rw [u32At_enc msg (buf ++ b1 ++ b2) (enc32 b ++ (enc32 c ++ (enc32 d ++ (enc32 e ++ post)))) _ a ha
      (by rw [hmsg]; simp) (by len_tac)]
    simp only [Res.ok_bind]
    rw [u32At_enc msg (buf ++ b1 ++ b2 ++ enc32 a) (enc32 c ++ (enc32 d ++ (enc32 e ++ post))) _ b hb
      (by rw [hmsg]; simp) (by len_tac)]
    simp only [Res.ok_bind]
    rw [u32At_enc msg (buf ++ b1 ++ b2 ++ enc32 a ++ enc32 b) (enc32 d ++ (enc32 e ++ post)) _ c hc
      (by rw [hmsg]; simp) (by len_tac)]
    simp only [Res.ok_bind]
    rw [u32At_enc msg (buf ++ b1 ++ b2 ++ enc32 a ++ enc32 b ++ enc32 c) (enc32 e ++ post) _ d hd
      (by rw [hmsg]; simp) (by len_tac)]
    simp only [Res.ok_bind]
    rw [u32At_enc msg (buf ++ b1 ++ b2 ++ enc32 a ++ enc32 b ++ enc32 c ++ enc32 d) post _ e he
      (by rw [hmsg]; simp) (by len_tac)]
    simp only [Res.ok_bind, List.length_append, enc32_length]
    rw [if_neg (by omega)]
    simp only [Res.ok.injEq, Prod.mk.injEq, true_and]; omega

/-- every kind of RDATA -/
theorem packRData_enc (buf : Bytes) (off : Nat) (hoff : off = buf.length) (tbl : Option Table) (t : Nat) (rd : RData)
    (hrd : rdataWF t rd = true) (hT : TableOK' buf tbl) :
    ∃ bs tbl', packRData off tbl rd = .ok (bs, tbl') ∧
      Enc (decRData t bs.length) buf tbl rd (rdataPackLen rd) bs tbl' := by
  cases rd with
  | a b => exact packRData_a buf off hoff tbl t b hrd hT
  | aaaa b => exact packRData_aaaa buf off hoff tbl t b hrd hT
  | name n => exact packRData_name buf off hoff tbl t n hrd hT
  | mx p n => exact packRData_mx buf off hoff tbl t p n hrd hT
  | soa ns mb a b c d e => exact packRData_soa buf off hoff tbl t ns mb a b c d e hrd hT
  | srv p w po tg => exact packRData_srv buf off hoff tbl t p w po tg hrd hT
  | raw d => exact packRData_raw buf off hoff tbl t d hrd hT

theorem rdataPackLen_le (rd : RData) : rdataPackLen rd ≤ 65535 := by
  cases rd with
  | a b => simp [rdataPackLen]
  | aaaa b => simp [rdataPackLen]
  | name n => have := namePackLen_le n; simp only [rdataPackLen]; omega
  | mx p n => have := namePackLen_le n; simp only [rdataPackLen]; omega
  | soa ns mb a b c d e =>
    have := namePackLen_le ns; have := namePackLen_le mb; simp only [rdataPackLen]; omega
  | srv p w po tg => have := namePackLen_le tg; simp only [rdataPackLen]; omega
  | raw d => simp only [rdataPackLen]; split <;> omega

/-! ### whole resource records -/

theorem packResource_enc (buf : Bytes) (off : Nat) (hoff : off = buf.length) (tbl : Option Table) (r : Resource)
    (hr : resourceWF r = true) (hT : TableOK' buf tbl) :
    ∃ bs tbl', packResource off tbl r = .ok (bs, tbl') ∧
      Enc unpackResource buf tbl r (resourcePackLen r) bs tbl' := by
  simp only [resourceWF, Bool.and_eq_true, u16, u32, decide_eq_true_eq] at hr
  obtain ⟨⟨⟨⟨hn, hty⟩, hcl⟩, httl⟩, hrd⟩ := hr
  obtain ⟨nb, tbl1, hpk, hE⟩ := packName_enc buf off hoff tbl r.name hn hT
  -- the RDATA bytes depend only on the offset and the table, not on the RDLENGTH field before them
  obtain ⟨rd, tbl2, hpr, _⟩ := packRData_enc
    (buf ++ (nb ++ enc16 r.rtype ++ enc16 r.rclass ++ enc32 r.ttl) ++ enc16 0)
    (off + (nb ++ enc16 r.rtype ++ enc16 r.rclass ++ enc32 r.ttl).length + 2)
    (by subst hoff; len_tac) tbl1 r.rtype r.rdata hrd
    (by have := hE.table.append (enc16 r.rtype ++ enc16 r.rclass ++ enc32 r.ttl ++ enc16 0)
        simpa [List.append_assoc] using this)
  obtain ⟨rd', tbl2', hpr', hE2⟩ := packRData_enc
    (buf ++ (nb ++ enc16 r.rtype ++ enc16 r.rclass ++ enc32 r.ttl) ++ enc16 (rd.length % 65536))
    (off + (nb ++ enc16 r.rtype ++ enc16 r.rclass ++ enc32 r.ttl).length + 2)
    (by subst hoff; len_tac) tbl1 r.rtype r.rdata hrd
    (by have := hE.table.append (enc16 r.rtype ++ enc16 r.rclass ++ enc32 r.ttl ++ enc16 (rd.length % 65536))
        simpa [List.append_assoc] using this)
  have hsame : rd' = rd ∧ tbl2' = tbl2 := by
    have := hpr'.symm.trans hpr
    simpa using this
  obtain ⟨rfl, rfl⟩ := hsame
  have hle := hE.le
  have hle2 := hE2.le
  have hrdl := rdataPackLen_le r.rdata
  have hmod : rd'.length % 65536 = rd'.length := by omega
  refine ⟨nb ++ enc16 r.rtype ++ enc16 r.rclass ++ enc32 r.ttl ++ enc16 (rd'.length % 65536) ++ rd', tbl2', ?_, ?_⟩
  · simp only [packResource, hpk, Res.ok_bind, hpr]
  · constructor
    · have := hE2.table
      simpa [List.append_assoc] using this
    · exact hE2.mode.trans hE.mode
    · simp only [resourcePackLen, namePackLen_of_wf hn, List.length_append, enc16_length, enc32_length]; omega
    · intro h
      have e1 := hE.exact h
      have e2 := hE2.exact (hE.none_tbl h)
      simp only [resourcePackLen, namePackLen_of_wf hn, List.length_append, enc16_length, enc32_length]; omega
    · intro msg post hmsg
      unfold unpackResource unpackRHdr
      rw [hE.reads msg (enc16 r.rtype ++ (enc16 r.rclass ++ (enc32 r.ttl ++ (enc16 (rd'.length % 65536) ++ (rd' ++ post)))))
        (by rw [hmsg]; simp)]
      simp only [Res.ok_bind]
      rw [u16At_enc msg (buf ++ nb) (enc16 r.rclass ++ (enc32 r.ttl ++ (enc16 (rd'.length % 65536) ++ (rd' ++ post))))
        _ r.rtype hty (by rw [hmsg]; simp) (by len_tac)]
      simp only [Res.ok_bind]
      rw [u16At_enc msg (buf ++ nb ++ enc16 r.rtype) (enc32 r.ttl ++ (enc16 (rd'.length % 65536) ++ (rd' ++ post)))
        _ r.rclass hcl (by rw [hmsg]; simp) (by len_tac)]
      simp only [Res.ok_bind]
      rw [u32At_enc msg (buf ++ nb ++ enc16 r.rtype ++ enc16 r.rclass) (enc16 (rd'.length % 65536) ++ (rd' ++ post))
        _ r.ttl httl (by rw [hmsg]; simp) (by len_tac)]
      simp only [Res.ok_bind]
      rw [u16At_enc msg (buf ++ nb ++ enc16 r.rtype ++ enc16 r.rclass ++ enc32 r.ttl) (rd' ++ post)
        _ (rd'.length % 65536) (by omega) (by rw [hmsg]; simp) (by len_tac)]
      simp only [Res.ok_bind, hmod]
      have := hE2.reads' msg post (buf.length + nb.length + 2 + 2 + 4 + 2) (by rw [hmsg]; simp) (by len_tac)
      simp only [decRData] at this
      rw [this]
      simp only [Res.ok_bind, List.length_append, enc16_length, enc32_length, Res.ok.injEq, Prod.mk.injEq]
      exact ⟨trivial, by omega⟩

/-- `raw_bytes_verbatim`, record level: for a record of a type the proxy does not interpret,
    the RDATA octets are the last octets `packResource` writes, byte for byte, preceded by their
    length — whatever the compression table contains. -/
theorem packResource_raw_verbatim (off : Nat) (tbl : Option Table) (r : Resource) (d : Bytes)
    (hr : r.rdata = .raw d) (bs : Bytes) (tbl' : Option Table) (h : packResource off tbl r = .ok (bs, tbl')) :
    ∃ front, bs = front ++ enc16 (d.length % 65536) ++ d := by
  unfold packResource at h
  cases hp : packName off tbl r.name with
  | err => simp [hp, Bind.bind, Res.bind] at h
  | panic => simp [hp, Bind.bind, Res.bind] at h
  | ok p =>
    obtain ⟨nb, t1⟩ := p
    simp only [hp, Res.ok_bind, hr, packRData] at h
    split at h
    · simp [Bind.bind, Res.bind] at h
    · simp only [Res.ok_bind, Res.ok.injEq, Prod.mk.injEq] at h
      exact ⟨_, h.1.symm⟩

end MosVerif.Wire
