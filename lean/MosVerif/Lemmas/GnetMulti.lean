/-
  C13 — several connections: a connection's state is a function of its own events only, and each
  connection refines its own reference run.
-/
import MosVerif.Model.GnetMulti
import MosVerif.Lemmas.GnetResp
namespace MosVerif.GnetMulti
open MosVerif.Gnet

theorem proj_cons (k : Nat) (o : MOp) (ops : List MOp) :
    proj k (o :: ops) = if o.k = k then o.op :: proj k ops else proj k ops := by
  by_cases h : o.k = k <;> simp [proj, List.filter_cons, h]

/-- ★ independence: after ANY interleaving of the events of several connections, the state of
    connection `k` is what its own events alone produce from its own initial state. -/
theorem mrun_proj (dec : Bytes → Bool) (max : Nat) : ∀ (ops : List MOp) (s : Listener) (k : Nat),
    mrun dec max ops s k = lrun dec max (proj k ops) (s k) := by
  intro ops
  induction ops with
  | nil => intro s k; rfl
  | cons o ops ih =>
    intro s k
    show mrun dec max ops (mstep dec max s o) k = _
    rw [ih, proj_cons]
    by_cases h : o.k = k
    · subst h
      simp [mstep, lrun]
    · have h' : ¬ k = o.k := fun e => h e.symm
      simp only [mstep, h', if_false, h]

structure MSim (m : MConn) (r : MRef) : Prop where
  opened : m.opened = r.opened
  gone : m.gone = r.gone
  late : m.late = r.late
  sim : Sim m.c r.r

theorem msim_init : MSim {} {} := ⟨rfl, rfl, rfl, sim_init⟩

def lopOk (m : MRef) : LOp → Bool
  | .seg bs => !(m.opened && !m.gone) || opNoEmpty m.r (.seg bs)
  | _ => true

theorem lnoEmpty_cons (dec : Bytes → Bool) (max : Nat) (op : LOp) (ops : List LOp) (m : MRef) :
    lnoEmpty dec max (op :: ops) m = (lopOk m op && lnoEmpty dec max ops (lrefStep dec max m op)) := by
  cases op <;> simp [lnoEmpty, lopOk, opNoEmpty]

theorem msim_step (dec : Bytes → Bool) (max : Nat) (m : MConn) (r : MRef) (op : LOp)
    (hs : MSim m r) (hok : lopOk r op = true) :
    MSim (lstep dec max m op) (lrefStep dec max r op) := by
  have hro : r.opened = m.opened := hs.opened.symm
  have hrg : r.gone = m.gone := hs.gone.symm
  have hrl : r.late = m.late := hs.late.symm
  cases op with
  | opn =>
    simp only [lstep, lrefStep, hro]
    by_cases h : m.opened = true
    · simpa [h] using hs
    · simp only [h]; exact ⟨rfl, rfl, rfl, sim_init⟩
  | seg bs =>
    simp only [lstep, lrefStep, hro, hrg]
    by_cases h : (m.opened && !m.gone) = true
    · simp only [h, if_true]
      have hne : opNoEmpty r.r (.seg bs) = true := by
        simp only [lopOk, hro, hrg, h, Bool.not_true, Bool.false_or] at hok
        exact hok
      exact ⟨(by first | rfl | exact hs.opened | exact hs.gone | exact hs.late | simp [hs.opened, hs.gone, hs.late]), (by first | rfl | exact hs.opened | exact hs.gone | exact hs.late | simp [hs.opened, hs.gone, hs.late]), (by first | rfl | exact hs.opened | exact hs.gone | exact hs.late | simp [hs.opened, hs.gone, hs.late]), sim_step dec max m.c r.r (.seg bs) hs.sim hne⟩
    · simp only [h]; exact hs
  | cls =>
    simp only [lstep, lrefStep, hro]
    by_cases h : m.opened = true
    · simp only [h, if_true]; exact ⟨(by first | rfl | exact hs.opened | exact hs.gone | exact hs.late | simp [hs.opened, hs.gone, hs.late]), rfl, (by first | rfl | exact hs.opened | exact hs.gone | exact hs.late | simp [hs.opened, hs.gone, hs.late]), hs.sim⟩
    · simp only [h]; exact hs
  | rel j =>
    simp only [lstep, lrefStep, hro, hrg, ← hs.sim.pending]
    by_cases ho : m.opened = true
    · by_cases hg : m.gone = true
      · simp only [ho, hg, Bool.not_true, Bool.false_eq_true, if_false, if_true]
        cases hj : m.c.pending[j]? with
        | none => exact hs
        | some b =>
          refine ⟨(by first | rfl | exact hs.opened | exact hs.gone | exact hs.late | simp [hs.opened, hs.gone, hs.late]), (by first | rfl | exact hs.opened | exact hs.gone | exact hs.late | simp [hs.opened, hs.gone, hs.late]), by simp [hrl], ?_⟩
          refine ⟨hs.sim.bad, hs.sim.log, by simp [hs.sim.pending], hs.sim.writes, hs.sim.closed, ?_⟩
          intro hcl
          obtain ⟨hrest, hrun⟩ := hs.sim.rest hcl
          exact ⟨hrest.set_concurrent _, by simp [hrun]⟩
      · simp only [ho, hg, Bool.not_true, Bool.false_eq_true, if_false]
        exact ⟨(by first | rfl | exact hs.opened | exact hs.gone | exact hs.late | simp [hs.opened, hs.gone, hs.late]), (by first | rfl | exact hs.opened | exact hs.gone | exact hs.late | simp [hs.opened, hs.gone, hs.late]), (by first | rfl | exact hs.opened | exact hs.gone | exact hs.late | simp [hs.opened, hs.gone, hs.late]), sim_step dec max m.c r.r (.rel j) hs.sim rfl⟩
    · simp only [ho]; simpa using hs

theorem msim_run (dec : Bytes → Bool) (max : Nat) : ∀ (ops : List LOp) (m : MConn) (r : MRef),
    MSim m r → lnoEmpty dec max ops r = true →
    MSim (lrun dec max ops m) (lrefRun dec max ops r) := by
  intro ops
  induction ops with
  | nil => intro m r hs _; exact hs
  | cons op ops ih =>
    intro m r hs hne
    rw [lnoEmpty_cons, Bool.and_eq_true] at hne
    exact ih _ _ (msim_step dec max m r op hs hne.1) hne.2

theorem msim_drain {m : MConn} {r : MRef} (hs : MSim m r) : MSim (mdrain m) (mrefDrain r) := by
  have hrg : r.gone = m.gone := hs.gone.symm
  simp only [mdrain, mrefDrain, hrg]
  by_cases hg : m.gone = true
  · simp only [hg, if_true]
    refine ⟨(by first | rfl | exact hs.opened | exact hs.gone | exact hs.late | simp [hs.opened, hs.gone, hs.late]), (by first | rfl | exact hs.opened | exact hs.gone | exact hs.late | simp [hs.opened, hs.gone, hs.late]), by simp [hs.late, hs.sim.pending], ?_⟩
    refine ⟨hs.sim.bad, hs.sim.log, rfl, hs.sim.writes, hs.sim.closed, ?_⟩
    intro hcl
    obtain ⟨hrest, hrun⟩ := hs.sim.rest hcl
    exact ⟨hrest.set_concurrent _, by simp [hrun, hs.sim.pending]⟩
  · have hg' : m.gone = false := by simpa using hg
    simp only [hg', Bool.false_eq_true, if_false]
    exact ⟨(by first | rfl | exact hs.opened | exact hs.gone | exact hs.late | simp [hs.opened, hs.gone, hs.late]), (by first | rfl | exact hs.opened | exact hs.gone | exact hs.late | simp [hs.opened, hs.gone, hs.late]), (by first | rfl | exact hs.opened | exact hs.gone | exact hs.late | simp [hs.opened, hs.gone, hs.late]), sim_drain hs.sim⟩

theorem cobs_of_msim {m : MConn} {r : MRef} (hs : MSim m r) : cobsOf m = cobsOfRef r := by
  simp only [cobsOf, cobsOfRef, hs.late, hs.sim.log, hs.sim.writes, hs.sim.closed]

end MosVerif.GnetMulti
