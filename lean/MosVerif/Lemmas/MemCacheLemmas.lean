/-
  Invariant of the concurrent memory-cache model (C07) and its preservation by every step.
-/
import MosVerif.Model.MemCache
set_option linter.unusedSectionVars false
set_option linter.unusedSimpArgs false
namespace MosVerif.MemCache

variable {K V : Type}

@[simp] theorem upd_same {α : Type} (f : Nat → α) (i : Nat) (x : α) : upd f i x i = x := by simp [upd]
theorem upd_ne {α : Type} (f : Nat → α) {i j : Nat} (x : α) (h : j ≠ i) : upd f i x j = f j := by
  simp [upd, h]

/-- what a thread at program counter `p` knows about the shared state -/
def PcOk (s : State K V) : Pc K V → Prop
  | .sNew k v _ | .sLock _ k v _ | .sFillK _ k v _ | .sSet _ k v _ => (k, v) ∈ s.hist
  | .sFillV e k v _ => (k, v) ∈ s.hist ∧ (s.ent e).k = k
  | .sUnlock e k v _ => (k, v) ∈ s.hist ∧ (s.ent e).k = k ∧ (s.ent e).v = some v
  | .rUnlock e => (s.ent e).v = none
  | .gCopy e k _ _ => (s.ent e).k = k ∧ (s.ent e).v ≠ none
  | .gUnlockHit _ k v => (k, v) ∈ s.hist
  | .gDone k (some v) => (k, v) ∈ s.hist
  | .gBad => False
  | _ => True

/-- The invariant.
    * `wr_iff` / `rd_iff`: the mutex state is exactly the set of threads inside a write / read section;
    * `excl`: a writer excludes readers;
    * `data` ★: whenever the entry is not write-locked, a non-nil value is paired with the key it
      was stored under — the value and its key were written inside one write section;
    * `pcok`: the local knowledge of every thread. -/
structure Inv (s : State K V) : Prop where
  wr_iff : ∀ e t, (s.ent e).wr = some t ↔ (s.pc t).wsec = some e
  rd_iff : ∀ e t, t ∈ (s.ent e).rd ↔ (s.pc t).rsec = some e
  excl : ∀ e t, (s.ent e).wr = some t → (s.ent e).rd = []
  data : ∀ e, (s.ent e).wr = none → ∀ v, (s.ent e).v = some v → ((s.ent e).k, v) ∈ s.hist
  pcok : ∀ t, PcOk s (s.pc t)

/-- `PcOk` only looks at the `k`/`v` fields and at the history, and the history only grows -/
theorem PcOk.mono {s s' : State K V} {p : Pc K V}
    (hk : ∀ e, (s'.ent e).k = (s.ent e).k) (hv : ∀ e, (s'.ent e).v = (s.ent e).v)
    (hh : ∀ x, x ∈ s.hist → x ∈ s'.hist) (h : PcOk s p) : PcOk s' p := by
  cases p <;> simp only [PcOk, hk, hv] at h ⊢ <;> try exact h
  all_goals first
    | exact hh _ h
    | exact ⟨hh _ h.1, h.2⟩
    | (rename_i res; cases res <;> simp only [PcOk] at h ⊢ <;> first | exact hh _ h | trivial)

/-- a write to the data fields of entry `e` does not disturb a thread that holds no lock on `e` -/
theorem PcOk.frame {s s' : State K V} {p : Pc K V} (e : Nat)
    (hent : ∀ e', e' ≠ e → s'.ent e' = s.ent e') (hh : s'.hist = s.hist)
    (hw : p.wsec ≠ some e) (hr : p.rsec ≠ some e) (h : PcOk s p) : PcOk s' p := by
  cases p <;> simp only [PcOk, hh, Pc.wsec, Pc.rsec, ne_eq, Option.some.injEq] at h hw hr ⊢ <;> try exact h
  all_goals first
    | (rw [hent _ hw]; exact h)
    | (rw [hent _ hr]; exact h)
    | (rename_i res; cases res <;> simp only [PcOk, hh] at h ⊢ <;> exact h)

/-- the other threads hold no lock on an entry that `t` holds for writing -/
theorem other_no_lock {s : State K V} (h : Inv s) {t t' e : Nat} (hw : (s.pc t).wsec = some e)
    (hne : t' ≠ t) : (s.pc t').wsec ≠ some e ∧ (s.pc t').rsec ≠ some e := by
  have hwr := (h.wr_iff e t).mpr hw
  constructor
  · intro h'
    have := (h.wr_iff e t').mpr h'
    rw [hwr] at this
    exact hne (Option.some.inj this).symm
  · intro h'
    have := (h.rd_iff e t').mpr h'
    rw [h.excl e t hwr] at this
    cases this

/-- a step that only moves `t`'s program counter between two points with the same lock holdings -/
theorem inv_setPc {s : State K V} (h : Inv s) (t : Nat) (p' : Pc K V)
    (hw : p'.wsec = (s.pc t).wsec) (hr : p'.rsec = (s.pc t).rsec) (hp : PcOk s p') :
    Inv (s.setPc t p') := by
  constructor
  · intro e t'
    simp only [State.setPc, upd]
    split
    · next h' => subst h'; rw [hw]; exact h.wr_iff e _
    · exact h.wr_iff e t'
  · intro e t'
    simp only [State.setPc, upd]
    split
    · next h' => subst h'; rw [hr]; exact h.rd_iff e _
    · exact h.rd_iff e t'
  · exact h.excl
  · exact h.data
  · intro t'
    simp only [State.setPc, upd]
    split
    · exact PcOk.mono (s := s) (fun _ => rfl) (fun _ => rfl) (fun _ hx => hx) hp
    · exact PcOk.mono (s := s) (fun _ => rfl) (fun _ => rfl) (fun _ hx => hx) (h.pcok t')

/-- the lock fields of entry `e` change, the data fields do not; `t` moves to `p'` -/
theorem pcok_lockstep {s : State K V} (h : Inv s) (t e : Nat) (x : Entry K V) (p' : Pc K V)
    (hk : x.k = (s.ent e).k) (hv : x.v = (s.ent e).v) (hp : PcOk s p') :
    ∀ t', PcOk ((s.setEnt e x).setPc t p') (((s.setEnt e x).setPc t p').pc t') := by
  have hk' : ∀ e', (((s.setEnt e x).setPc t p').ent e').k = (s.ent e').k := by
    intro e'; simp only [State.setPc, State.setEnt, upd]; split <;> simp_all
  have hv' : ∀ e', (((s.setEnt e x).setPc t p').ent e').v = (s.ent e').v := by
    intro e'; simp only [State.setPc, State.setEnt, upd]; split <;> simp_all
  intro t'
  have : ((s.setEnt e x).setPc t p').pc t' = if t' = t then p' else s.pc t' := by
    simp only [State.setPc, State.setEnt, upd]
  rw [this]
  split
  · exact PcOk.mono hk' hv' (fun _ hx => hx) hp
  · exact PcOk.mono hk' hv' (fun _ hx => hx) (h.pcok t')

/-- `t` holds the write lock of `e` and writes a data field; `hp` is `t`'s own new knowledge -/
theorem pcok_datastep {s : State K V} (h : Inv s) (t e : Nat) (x : Entry K V) (p' : Pc K V)
    (hw : (s.pc t).wsec = some e)
    (hp : PcOk ((s.setEnt e x).setPc t p') p') :
    ∀ t', PcOk ((s.setEnt e x).setPc t p') (((s.setEnt e x).setPc t p').pc t') := by
  intro t'
  have : ((s.setEnt e x).setPc t p').pc t' = if t' = t then p' else s.pc t' := by
    simp only [State.setPc, State.setEnt, upd]
  rw [this]
  split
  · exact hp
  · next hne =>
    obtain ⟨h1, h2⟩ := other_no_lock h hw hne
    refine PcOk.frame (s := s) e ?_ rfl h1 h2 (h.pcok t')
    intro e' he'
    simp only [State.setPc, State.setEnt, upd, he', if_false]

theorem again_wsec (k : K) (n m : Nat) : (Pc.again k n m : Pc K V).wsec = none := by
  unfold Pc.again; split <;> rfl
theorem again_rsec (k : K) (n m : Nat) : (Pc.again k n m : Pc K V).rsec = none := by
  unfold Pc.again; split <;> rfl
theorem again_ok (s : State K V) (k : K) (n m : Nat) : PcOk s (Pc.again k n m) := by
  unfold Pc.again; split <;> trivial

section
variable [Inhabited K] [DecidableEq K]

theorem inv_init : Inv (init : State K V) := by
  constructor <;> intros <;> simp_all [init, Pc.wsec, Pc.rsec, PcOk]

/-- ★ every statement of every thread preserves the invariant -/
theorem step_inv {s s' : State K V} (h : Inv s) (st : Step s s') : Inv s' := by
  have h1 := h.wr_iff; have h2 := h.rd_iff; have h3 := h.excl; have h4 := h.data; have h5 := h.pcok
  cases st
  case callStore t k v nx hpc =>
    constructor
    · intro e t'; simp only [State.setPc, upd]; grind [Pc.wsec]
    · intro e t'; simp only [State.setPc, upd]; grind [Pc.rsec]
    · exact h3
    · intro e hw v' hv'; exact List.mem_cons_of_mem _ (h4 e hw v' hv')
    · intro t'
      simp only [State.setPc, upd]
      split
      · simp [PcOk]
      · exact PcOk.mono (s := s) (fun _ => rfl) (fun _ => rfl) (fun _ hx => List.mem_cons_of_mem _ hx) (h5 t')
  case storeNew t k v nx e hpc =>
    have := h5 t; rw [hpc] at this
    exact inv_setPc h t _ (by rw [hpc]; rfl) (by rw [hpc]; rfl) this
  case storeLock t e k v nx hpc hwr hrd =>
    have hp := h5 t; rw [hpc] at hp
    constructor
    · intro e' t'; simp only [State.setPc, State.setEnt, upd]; grind [Pc.wsec]
    · intro e' t'; simp only [State.setPc, State.setEnt, upd]; grind [Pc.rsec]
    · intro e' t'; simp only [State.setPc, State.setEnt, upd]; grind
    · intro e'; simp only [State.setPc, State.setEnt, upd]; grind
    · exact pcok_lockstep h t e _ _ rfl rfl hp
  case storeFillK t e k v nx hpc =>
    have hp := h5 t; rw [hpc] at hp
    have hw : (s.pc t).wsec = some e := by rw [hpc]; rfl
    have hwr := (h1 e t).mpr hw
    constructor
    · intro e' t'; simp only [State.setPc, State.setEnt, upd]; grind [Pc.wsec]
    · intro e' t'; simp only [State.setPc, State.setEnt, upd]; grind [Pc.rsec]
    · intro e' t'; simp only [State.setPc, State.setEnt, upd]; grind
    · intro e'; simp only [State.setPc, State.setEnt, upd]; grind
    · apply pcok_datastep h t e _ _ hw
      simp only [PcOk, State.setPc, State.setEnt, upd_same]
      exact ⟨hp, trivial⟩
  case storeFillV t e k v nx hpc =>
    have hp := h5 t; rw [hpc] at hp
    have hw : (s.pc t).wsec = some e := by rw [hpc]; rfl
    have hwr := (h1 e t).mpr hw
    constructor
    · intro e' t'; simp only [State.setPc, State.setEnt, upd]; grind [Pc.wsec]
    · intro e' t'; simp only [State.setPc, State.setEnt, upd]; grind [Pc.rsec]
    · intro e' t'; simp only [State.setPc, State.setEnt, upd]; grind
    · intro e'; simp only [State.setPc, State.setEnt, upd]; grind
    · apply pcok_datastep h t e _ _ hw
      simp only [PcOk, State.setPc, State.setEnt, upd_same]
      exact ⟨hp.1, hp.2, trivial⟩
  case storeUnlock t e k v nx hpc =>
    have hp := h5 t; rw [hpc] at hp
    simp only [PcOk] at hp
    have hw : (s.pc t).wsec = some e := by rw [hpc]; rfl
    have hwr := (h1 e t).mpr hw
    constructor
    · intro e' t'; simp only [State.setPc, State.setEnt, upd]; grind [Pc.wsec]
    · intro e' t'; simp only [State.setPc, State.setEnt, upd]; grind [Pc.rsec]
    · intro e' t'; simp only [State.setPc, State.setEnt, upd]; grind
    · intro e'; simp only [State.setPc, State.setEnt, upd]; grind
    · exact pcok_lockstep h t e _ _ rfl rfl hp.1
  case storeSet t e k v nx hpc =>
    exact inv_setPc h t _ (by rw [hpc]; rfl) (by rw [hpc]; rfl) trivial
  case storeRefused t e k v nx hpc =>
    exact inv_setPc h t _ (by rw [hpc]; rfl) (by rw [hpc]; rfl) trivial
  case callGet t k hpc =>
    exact inv_setPc h t _ (by rw [hpc]; rfl) (by rw [hpc]; rfl) trivial
  case getLookupHit t k n m e hpc =>
    exact inv_setPc h t _ (by rw [hpc]; rfl) (by rw [hpc]; rfl) trivial
  case getLookupMiss t k n m hpc =>
    apply inv_setPc h t _
    · rw [hpc]; split
      · exact again_wsec ..
      · rfl
    · rw [hpc]; split
      · exact again_rsec ..
      · rfl
    · split
      · exact again_ok ..
      · trivial
  case getTryOk t e k n m hpc hwr =>
    constructor
    · intro e' t'; simp only [State.setPc, State.setEnt, upd]; grind [Pc.wsec]
    · intro e' t'; simp only [State.setPc, State.setEnt, upd]; grind [Pc.rsec]
    · intro e' t'; simp only [State.setPc, State.setEnt, upd]; grind
    · intro e'; simp only [State.setPc, State.setEnt, upd]; grind
    · exact pcok_lockstep h t e _ _ rfl rfl trivial
  case getTryFail t e k n m hpc =>
    exact inv_setPc h t _ (by rw [hpc]; exact again_wsec ..) (by rw [hpc]; exact again_rsec ..) (again_ok ..)
  case getCheck t e k n m hpc =>
    apply inv_setPc h t _
    · rw [hpc]; split <;> rfl
    · rw [hpc]; split <;> rfl
    · split
      · trivial
      · next hc =>
        simp only [Bool.or_eq_true, Option.isNone_iff_eq_none, decide_eq_true_eq, not_or,
          Decidable.not_not] at hc
        exact ⟨hc.2, hc.1⟩
  case getCopy t e k n m hpc =>
    have hp := h5 t; rw [hpc] at hp
    simp only [PcOk] at hp
    have hr : (s.pc t).rsec = some e := by rw [hpc]; rfl
    have hrd := (h2 e t).mpr hr
    have hwn : (s.ent e).wr = none := by
      cases hw : (s.ent e).wr with
      | none => rfl
      | some t'' => rw [h3 e t'' hw] at hrd; cases hrd
    apply inv_setPc h t _
    · rw [hpc]; split <;> rfl
    · rw [hpc]; split
      · rfl
      · next hv0 => exact absurd hv0 hp.2
    · split
      · next v0 hv0 =>
        have := h4 e hwn v0 hv0
        rw [hp.1] at this
        exact this
      · next hv0 => exact hp.2 hv0
  case getUnlockHit t e k v hpc =>
    have hp := h5 t; rw [hpc] at hp
    constructor
    · intro e' t'; simp only [State.setPc, State.setEnt, upd]; grind [Pc.wsec]
    · intro e' t'; simp only [State.setPc, State.setEnt, upd]; grind [Pc.rsec]
    · intro e' t'; simp only [State.setPc, State.setEnt, upd]; grind
    · intro e'; simp only [State.setPc, State.setEnt, upd]; grind
    · exact pcok_lockstep h t e _ _ rfl rfl hp
  case getUnlockMiss t e k n m hpc =>
    have hw0 := again_wsec (V := V) k n m
    have hr0 := again_rsec (V := V) k n m
    constructor
    · intro e' t'; simp only [State.setPc, State.setEnt, upd]; grind [Pc.wsec]
    · intro e' t'; simp only [State.setPc, State.setEnt, upd]; grind [Pc.rsec]
    · intro e' t'; simp only [State.setPc, State.setEnt, upd]; grind
    · intro e'; simp only [State.setPc, State.setEnt, upd]; grind
    · exact pcok_lockstep h t e _ _ rfl rfl (again_ok ..)
  case getRet t k res hpc =>
    exact inv_setPc h t _ (by rw [hpc]; rfl) (by rw [hpc]; rfl) trivial
  case callRelease t e hpc =>
    exact inv_setPc h t _ (by rw [hpc]; rfl) (by rw [hpc]; rfl) trivial
  case relLock t e hpc hwr hrd =>
    constructor
    · intro e' t'; simp only [State.setPc, State.setEnt, upd]; grind [Pc.wsec]
    · intro e' t'; simp only [State.setPc, State.setEnt, upd]; grind [Pc.rsec]
    · intro e' t'; simp only [State.setPc, State.setEnt, upd]; grind
    · intro e'; simp only [State.setPc, State.setEnt, upd]; grind
    · exact pcok_lockstep h t e _ _ rfl rfl trivial
  case relWipeK t e hpc =>
    have hw : (s.pc t).wsec = some e := by rw [hpc]; rfl
    have hwr := (h1 e t).mpr hw
    constructor
    · intro e' t'; simp only [State.setPc, State.setEnt, upd]; grind [Pc.wsec]
    · intro e' t'; simp only [State.setPc, State.setEnt, upd]; grind [Pc.rsec]
    · intro e' t'; simp only [State.setPc, State.setEnt, upd]; grind
    · intro e'; simp only [State.setPc, State.setEnt, upd]; grind
    · exact pcok_datastep h t e _ _ hw trivial
  case relWipeV t e hpc =>
    have hw : (s.pc t).wsec = some e := by rw [hpc]; rfl
    have hwr := (h1 e t).mpr hw
    constructor
    · intro e' t'; simp only [State.setPc, State.setEnt, upd]; grind [Pc.wsec]
    · intro e' t'; simp only [State.setPc, State.setEnt, upd]; grind [Pc.rsec]
    · intro e' t'; simp only [State.setPc, State.setEnt, upd]; grind
    · intro e'; simp only [State.setPc, State.setEnt, upd]; grind
    · apply pcok_datastep h t e _ _ hw
      simp only [PcOk, State.setPc, State.setEnt, upd_same]
  case relUnlock t e hpc =>
    have hp := h5 t; rw [hpc] at hp
    simp only [PcOk] at hp
    have hw : (s.pc t).wsec = some e := by rw [hpc]; rfl
    have hwr := (h1 e t).mpr hw
    constructor
    · intro e' t'; simp only [State.setPc, State.setEnt, upd]; grind [Pc.wsec]
    · intro e' t'; simp only [State.setPc, State.setEnt, upd]; grind [Pc.rsec]
    · intro e' t'; simp only [State.setPc, State.setEnt, upd]; grind
    · intro e'; simp only [State.setPc, State.setEnt, upd]; grind
    · exact pcok_lockstep h t e _ _ rfl rfl trivial

theorem reachable_inv {s : State K V} (h : Reachable s) : Inv s := by
  induction h with
  | init => exact inv_init
  | step _ st ih => exact step_inv ih st

end

end MosVerif.MemCache
