/-
  Codec lemmas, part 7 (C02): everything the decoder returns is well formed (`msgWF`), i.e. the
  well-formedness predicates of Model/Pack.lean describe exactly the decoder's range
  (the other inclusion is the round trip itself).
-/
import MosVerif.Lemmas.CodecMsg
namespace MosVerif.Wire

theorem u16At_lt {msg : Bytes} {off v o : Nat} (h : u16At msg off = .ok (v, o)) : v < 65536 := by
  unfold u16At at h
  obtain ⟨buf, _, h⟩ := Res.bind_eq_ok h
  split at h
  · simp only [Res.ok.injEq, Prod.mk.injEq] at h
    rw [← h.1]; exact be16_lt _ _
  · simp at h

theorem u32At_lt {msg : Bytes} {off v o : Nat} (h : u32At msg off = .ok (v, o)) : v < 4294967296 := by
  unfold u32At at h
  obtain ⟨buf, _, h⟩ := Res.bind_eq_ok h
  split at h
  · simp only [Res.ok.injEq, Prod.mk.injEq] at h
    rw [← h.1]; exact be32_lt _ _ _ _
  · simp at h

theorem bytesAt_len {msg : Bytes} {off l o : Nat} {b : Bytes} (h : bytesAt msg off l = .ok (b, o)) : b.length = l := by
  unfold bytesAt at h
  obtain ⟨buf, _, h⟩ := Res.bind_eq_ok h
  split at h
  · simp at h
  · simp only [Res.ok.injEq, Prod.mk.injEq] at h
    rw [← h.1, List.length_take]; omega

theorem unpackQuestion_wf {msg : Bytes} {off o : Nat} {q : Question} (h : unpackQuestion msg off = .ok (q, o)) :
    questionWF q = true := by
  unfold unpackQuestion at h
  obtain ⟨⟨n, o1⟩, h1, h⟩ := Res.bind_eq_ok h
  obtain ⟨⟨t, o2⟩, h2, h⟩ := Res.bind_eq_ok h
  obtain ⟨⟨c, o3⟩, h3, h⟩ := Res.bind_eq_ok h
  simp only [Res.ok.injEq, Prod.mk.injEq] at h
  rw [← h.1]
  simp [questionWF, u16, unpackName_wf _ _ _ _ h1, u16At_lt h2, u16At_lt h3]

theorem ite_err_ok {α : Type} {c : Prop} [Decidable c] {a b : α} (h : (if c then Res.err else Res.ok a) = Res.ok b) :
    a = b := by
  split at h
  · simp at h
  · simpa using h

theorem unpackRData_wf {msg : Bytes} {off t len o : Nat} {rd : RData} (hlen : len < 65536)
    (h : unpackRData msg off t len = .ok (rd, o)) : rdataWF t rd = true := by
  unfold unpackRData at h
  split at h
  · rename_i ht
    split at h
    · simp at h
    · obtain ⟨⟨b, o1⟩, h1, h⟩ := Res.bind_eq_ok h
      simp only [Res.ok.injEq, Prod.mk.injEq] at h
      rw [← h.1]; simp [rdataWF, ht, bytesAt_len h1]
  split at h
  · rename_i ht
    split at h
    · simp at h
    · obtain ⟨⟨b, o1⟩, h1, h⟩ := Res.bind_eq_ok h
      simp only [Res.ok.injEq, Prod.mk.injEq] at h
      rw [← h.1]; simp [rdataWF, ht, bytesAt_len h1]
  split at h
  · rename_i ht
    obtain ⟨⟨p, o1⟩, h1, h⟩ := Res.bind_eq_ok h
    obtain ⟨⟨n, o2⟩, h2, h⟩ := Res.bind_eq_ok h
    have := ite_err_ok h
    simp only [Prod.mk.injEq] at this
    rw [← this.1]; simp [rdataWF, ht, u16, u16At_lt h1, unpackName_wf _ _ _ _ h2]
  split at h
  · rename_i ht
    obtain ⟨⟨n, o2⟩, h2, h⟩ := Res.bind_eq_ok h
    have := ite_err_ok h
    simp only [Prod.mk.injEq] at this
    rw [← this.1]
    simp only [rdataWF, Bool.and_eq_true, Bool.or_eq_true, beq_iff_eq, unpackName_wf _ _ _ _ h2, and_true]
    rcases ht with h | h | h <;> simp [h]
  split at h
  · rename_i ht
    obtain ⟨⟨ns, o1⟩, h1, h⟩ := Res.bind_eq_ok h
    obtain ⟨⟨mb, o2⟩, h2, h⟩ := Res.bind_eq_ok h
    obtain ⟨⟨a, o3⟩, h3, h⟩ := Res.bind_eq_ok h
    obtain ⟨⟨b, o4⟩, h4, h⟩ := Res.bind_eq_ok h
    obtain ⟨⟨c, o5⟩, h5, h⟩ := Res.bind_eq_ok h
    obtain ⟨⟨d, o6⟩, h6, h⟩ := Res.bind_eq_ok h
    obtain ⟨⟨e, o7⟩, h7, h⟩ := Res.bind_eq_ok h
    have := ite_err_ok h
    simp only [Prod.mk.injEq] at this
    rw [← this.1]
    simp [rdataWF, ht, u32, unpackName_wf _ _ _ _ h1, unpackName_wf _ _ _ _ h2, u32At_lt h3, u32At_lt h4,
      u32At_lt h5, u32At_lt h6, u32At_lt h7]
  split at h
  · rename_i ht
    obtain ⟨⟨p, o1⟩, h1, h⟩ := Res.bind_eq_ok h
    obtain ⟨⟨w, o2⟩, h2, h⟩ := Res.bind_eq_ok h
    obtain ⟨⟨po, o3⟩, h3, h⟩ := Res.bind_eq_ok h
    obtain ⟨⟨tg, o4⟩, h4, h⟩ := Res.bind_eq_ok h
    have := ite_err_ok h
    simp only [Prod.mk.injEq] at this
    rw [← this.1]
    simp [rdataWF, ht, u16, u16At_lt h1, u16At_lt h2, u16At_lt h3, unpackName_wf _ _ _ _ h4]
  · rename_i n1 n2 n3 n4 n5 n6
    obtain ⟨⟨b, o1⟩, h1, h⟩ := Res.bind_eq_ok h
    simp only [Res.ok.injEq, Prod.mk.injEq] at h
    rw [← h.1]
    have := bytesAt_len h1
    simp only [rdataWF, isTypedRR, Bool.and_eq_true, Bool.not_eq_true', Bool.or_eq_false_iff,
      beq_eq_false_iff_ne, decide_eq_true_eq]
    refine ⟨⟨⟨⟨⟨⟨⟨⟨n1, n2⟩, n3⟩, ?_⟩, ?_⟩, ?_⟩, n5⟩, n6⟩, by omega⟩
    · intro h'; exact n4 (Or.inl h')
    · intro h'; exact n4 (Or.inr (Or.inl h'))
    · intro h'; exact n4 (Or.inr (Or.inr h'))

theorem unpackResource_wf {msg : Bytes} {off o : Nat} {r : Resource} (h : unpackResource msg off = .ok (r, o)) :
    resourceWF r = true := by
  unfold unpackResource at h
  obtain ⟨⟨hd, o1⟩, h1, h⟩ := Res.bind_eq_ok h
  obtain ⟨⟨rd, o2⟩, h2, h⟩ := Res.bind_eq_ok h
  unfold unpackRHdr at h1
  obtain ⟨⟨n, p1⟩, g1, h1⟩ := Res.bind_eq_ok h1
  obtain ⟨⟨t, p2⟩, g2, h1⟩ := Res.bind_eq_ok h1
  obtain ⟨⟨c, p3⟩, g3, h1⟩ := Res.bind_eq_ok h1
  obtain ⟨⟨ttl, p4⟩, g4, h1⟩ := Res.bind_eq_ok h1
  obtain ⟨⟨l, p5⟩, g5, h1⟩ := Res.bind_eq_ok h1
  simp only [Res.ok.injEq, Prod.mk.injEq] at h1 h
  obtain ⟨rfl, _⟩ := h1
  rw [← h.1]
  have := unpackRData_wf (u16At_lt g5) h2
  simp only [] at this
  simp [resourceWF, u16, u32, unpackName_wf _ _ _ _ g1, u16At_lt g2, u16At_lt g3, u32At_lt g4, this]

theorem unpackQuestions_wf {msg : Bytes} : ∀ (n off o : Nat) (qs : List Question),
    unpackQuestions msg n off = .ok (qs, o) → qs.length = n ∧ ∀ q ∈ qs, questionWF q = true := by
  intro n
  induction n with
  | zero => intro off o qs h; simp only [unpackQuestions, Res.ok.injEq, Prod.mk.injEq] at h; simp [← h.1]
  | succ n ih =>
    intro off o qs h
    unfold unpackQuestions at h
    obtain ⟨⟨q, o1⟩, h1, h⟩ := Res.bind_eq_ok h
    obtain ⟨⟨qs', o2⟩, h2, h⟩ := Res.bind_eq_ok h
    simp only [Res.ok.injEq, Prod.mk.injEq] at h
    obtain ⟨hl, hw⟩ := ih _ _ _ h2
    rw [← h.1]
    refine ⟨by simp [hl], ?_⟩
    intro q' hq'
    simp only [List.mem_cons] at hq'
    rcases hq' with rfl | hq'
    · exact unpackQuestion_wf h1
    · exact hw _ hq'

theorem unpackResources_wf {msg : Bytes} : ∀ (n off o : Nat) (rs : List Resource),
    unpackResources msg n off = .ok (rs, o) → rs.length = n ∧ ∀ r ∈ rs, resourceWF r = true := by
  intro n
  induction n with
  | zero => intro off o rs h; simp only [unpackResources, Res.ok.injEq, Prod.mk.injEq] at h; simp [← h.1]
  | succ n ih =>
    intro off o rs h
    unfold unpackResources at h
    obtain ⟨⟨r, o1⟩, h1, h⟩ := Res.bind_eq_ok h
    obtain ⟨⟨rs', o2⟩, h2, h⟩ := Res.bind_eq_ok h
    simp only [Res.ok.injEq, Prod.mk.injEq] at h
    obtain ⟨hl, hw⟩ := ih _ _ _ h2
    rw [← h.1]
    refine ⟨by simp [hl], ?_⟩
    intro r' hr'
    simp only [List.mem_cons] at hr'
    rcases hr' with rfl | hr'
    · exact unpackResource_wf h1
    · exact hw _ hr'

/-- Every message the decoder accepts is well formed. -/
theorem unpackMsg_wf' {b : Bytes} {m : Msg} (h : unpackMsg b = .ok m) : msgWF m = true := by
  unfold unpackMsg at h
  obtain ⟨hdr, _, h⟩ := Res.bind_eq_ok h
  split at h
  next i0 i1 b0 b1 q0 q1 a0 a1 n0 n1 x0 x1 tail heq =>
    obtain ⟨⟨qs, o1⟩, h1, h⟩ := Res.bind_eq_ok h
    obtain ⟨⟨an, o2⟩, h2, h⟩ := Res.bind_eq_ok h
    obtain ⟨⟨ns, o3⟩, h3, h⟩ := Res.bind_eq_ok h
    obtain ⟨⟨ar, o4⟩, h4, h⟩ := Res.bind_eq_ok h
    simp only [Res.ok.injEq] at h
    obtain ⟨l1, w1⟩ := unpackQuestions_wf _ _ _ _ h1
    obtain ⟨l2, w2⟩ := unpackResources_wf _ _ _ _ h2
    obtain ⟨l3, w3⟩ := unpackResources_wf _ _ _ _ h3
    obtain ⟨l4, w4⟩ := unpackResources_wf _ _ _ _ h4
    have c1 := be16_lt q0 q1; have c2 := be16_lt a0 a1; have c3 := be16_lt n0 n1; have c4 := be16_lt x0 x1
    have c0 := be16_lt i0 i1
    rw [← h]
    simp only [msgWF, headerWF, headerOfBits, u16, Bool.and_eq_true, decide_eq_true_eq, List.all_eq_true]
    refine ⟨⟨⟨⟨⟨⟨⟨⟨⟨⟨?_, ?_⟩, ?_⟩, w1⟩, w2⟩, w3⟩, w4⟩, ?_⟩, ?_⟩, ?_⟩, ?_⟩ <;>
      first | omega | exact decide_eq_true (by omega)
  next => simp at h

/-- the header of an accepted message is `header.header()` of the first four octets -/
theorem unpackMsg_hdr_inv {b : Bytes} {m : Msg} (h : unpackMsg b = .ok m) :
    ∃ i0 i1 b0 b1 rest, b = i0 :: i1 :: b0 :: b1 :: rest ∧ m.hdr = headerOfBits (be16 i0 i1) (be16 b0 b1) := by
  unfold unpackMsg at h
  obtain ⟨hdr, hs, h⟩ := Res.bind_eq_ok h
  rw [sliceFrom_ok (Nat.zero_le _), List.drop_zero] at hs
  simp only [Res.ok.injEq] at hs
  subst hs
  split at h
  next i0 i1 b0 b1 q0 q1 a0 a1 n0 n1 x0 x1 tail heq =>
    obtain ⟨⟨qs, o1⟩, h1, h⟩ := Res.bind_eq_ok h
    obtain ⟨⟨an, o2⟩, h2, h⟩ := Res.bind_eq_ok h
    obtain ⟨⟨ns, o3⟩, h3, h⟩ := Res.bind_eq_ok h
    obtain ⟨⟨ar, o4⟩, h4, h⟩ := Res.bind_eq_ok h
    simp only [Res.ok.injEq] at h
    exact ⟨i0, i1, b0, b1, _, (by first | rfl | exact heq), by rw [← h]⟩
  next => simp at h
