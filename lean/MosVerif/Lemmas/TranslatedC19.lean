/-
  Tie by translation (C19): the comparison of `needPrefetch` (`remainTtl < lifeSpan >> 2`), translated mechanically
  from the current Go source, equals the model's.
-/
import MosVerif.Generated.Translated
import MosVerif.Model.Prefetch
namespace MosVerif.Prefetch
open MosVerif

theorem needPrefetch_translated (stored expire now : Int) :
    needPrefetch stored expire now = Translated.needPrefetch_cmp (expire - now) (expire - stored) := by
  unfold needPrefetch Translated.needPrefetch_cmp
  simp [Id.run]
  rfl
