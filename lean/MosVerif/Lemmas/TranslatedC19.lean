/-
  Tie by translation (C19): the whole of `needPrefetch`, translated mechanically from the current Go source, equals
  the model's. (The earlier comparison-only theorem on fragment `needPrefetch_cmp` of translate.json is subsumed and
  gone: that fragment is located by the text `return remainTtl` and takes the local `lifeSpan` as a parameter, so
  it broke on a renamed local.)
-/
import MosVerif.Generated.Translated
import MosVerif.Model.Prefetch
namespace MosVerif.Prefetch
open MosVerif

theorem id_pure_any {α : Type} (x : α) : (pure x : Id α) = x := rfl

/-- ★ tie: the WHOLE of `needPrefetch` — `lifeSpan := expireTime.Sub(storedTime)`, `remainTtl := time.Until(expireTime)`,
    the comparison with the arithmetic shift — translated with the translator's arithmetic reading of time.Time
    (spec option `time`: instants are integer nanoseconds, ℤ arithmetic), IS the model's `needPrefetch`, for all
    instants. (Go's Sub/Until saturate at ±2⁶³ ns ≈ 292 years; cache lifetimes are at most ten years, C08.) -/
theorem c19_needPrefetch_translated (stored expire now : Int) :
    needPrefetch stored expire now = Translated.c19_needPrefetch stored expire now := by
  unfold needPrefetch Translated.c19_needPrefetch
  simp only [Id.run, id_pure_any]

end MosVerif.Prefetch
