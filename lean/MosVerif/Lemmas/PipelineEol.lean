/-
  C05 — the wire id counter only grows; an exhausted connection hands out nothing any more.
-/
import MosVerif.Lemmas.PipelineLate
namespace MosVerif.Pipeline

theorem nextQid_mono_step (cfg : Cfg) (s : State) (st : Step) (c : Nat) :
    (s.conns c).nextQid ≤ ((step cfg s st).conns c).nextQid := by
  cases st with
  | reserve c' =>
    simp only [step]; by_cases hc : c = c'
    · subst hc; simp [reserve_nextQid]
    · simp [hc]
  | close c' =>
    simp only [step]; by_cases hc : c = c'
    · subst hc; simp
    · simp [hc]
  | addQ e c' =>
    simp only [step]
    split
    · split
      · rename_i c'' hadd
        obtain ⟨_, a2, _⟩ := addQueueC_none hadd
        by_cases hc : c = c'
        · subst hc; simp [a2]
        · simp [hc]
      · rename_i c'' q hadd
        obtain ⟨_, _, a3, _⟩ := addQueueC_some hadd
        by_cases hc : c = c'
        · subst hc; simp [a3]
        · simp [hc]
    · exact Nat.le_refl _
  | write e ok closes =>
    simp only [step]
    split
    · rename_i c' q ch hpc
      split
      · exact Nat.le_refl _
      · by_cases hc : c = c' <;> cases closes <;> simp [hc]
    · exact Nat.le_refl _
  | srvReply c' id p =>
    simp only [step]
    split
    · exact Nat.le_refl _
    · split <;> exact Nat.le_refl _
  | take e =>
    simp only [step]
    split
    · split <;> exact Nat.le_refl _
    · exact Nat.le_refl _
  | cancel e =>
    simp only [step]
    split <;> exact Nat.le_refl _
  | dead e =>
    simp only [step]
    split
    · split <;> exact Nat.le_refl _
    · exact Nat.le_refl _
  | delQ e =>
    simp only [step]
    split
    · rename_i c' q r hpc
      cases r <;> by_cases hc : c = c' <;> simp [hc, deleteQueueC_nextQid]
    · exact Nat.le_refl _
  | giveUp e =>
    simp only [step]
    split <;> exact Nat.le_refl _

theorem assignedIds_step_exhausted (cfg : Cfg) (s : State) (st : Step) (c : Nat)
    (hx : (s.conns c).nextQid > 65535) :
    assignedIds c (step cfg s st).hist = assignedIds c s.hist := by
  rcases step_hist cfg s st with h | ⟨ev, h, hne⟩ | ⟨e, c', h, hle⟩
  · rw [h]
  · rw [h, assignedIds_cons_of_not_assign c ev _ hne]
  · rw [h]
    have hc : c' ≠ c := by intro hc; subst hc; omega
    simp [assignedIds, hc]

theorem exhausted_exec {cfg : Cfg} {s : State} (hi : Inv cfg s) (c : Nat) (hx : (s.conns c).nextQid = 65536)
    (steps : List Step) :
    ((exec cfg s steps).conns c).nextQid = 65536 ∧ assignedIds c (exec cfg s steps).hist = assignedIds c s.hist := by
  induction steps generalizing s with
  | nil => exact ⟨hx, rfl⟩
  | cons st rest ih =>
    have hi' := inv_step hi st
    have h1 := nextQid_mono_step cfg s st c
    have h2 := hi'.nq_le c
    have hx' : ((step cfg s st).conns c).nextQid = 65536 := by omega
    obtain ⟨a, b⟩ := ih hi' hx'
    exact ⟨a, by show assignedIds c (exec cfg (step cfg s st) rest).hist = _; rw [b]; exact assignedIds_step_exhausted cfg s st c (by omega)⟩

theorem assignedIds_append (c : Nat) (l1 l2 : List Ev) :
    assignedIds c (l1 ++ l2) = assignedIds c l1 ++ assignedIds c l2 := by
  induction l1 with
  | nil => rfl
  | cons ev t ih =>
    cases ev with
    | assign e c' id =>
      by_cases hc : c' = c <;> simp [assignedIds, hc, ih]
    | query _ _ _ => simpa [assignedIds] using ih
    | reply _ _ _ => simpa [assignedIds] using ih
    | ret _ _ => simpa [assignedIds] using ih

theorem assignedIds_of_mem {e c id : Nat} {h : List Ev} (hm : Ev.assign e c id ∈ h) : id ∈ assignedIds c h := by
  induction h with
  | nil => simp at hm
  | cons ev t ih =>
    rcases List.mem_cons.mp hm with h1 | h1
    · subst h1; simp [assignedIds]
    · have := ih h1
      cases ev with
      | assign e' c' id' =>
        by_cases hc : c' = c <;> simp [assignedIds, hc, this]
      | query _ _ _ => simpa [assignedIds] using this
      | reply _ _ _ => simpa [assignedIds] using this
      | ret _ _ => simpa [assignedIds] using this

end MosVerif.Pipeline
