/-
  C05 — wire ids are handed out in strictly increasing order; the ghost record of
  deliveries (`taken`, stamps in the channels) and its invariant.
-/
import MosVerif.Lemmas.PipelineSteps
namespace MosVerif.Pipeline

/-- wire ids handed out on connection `c`, newest first -/
def assignedIds (c : Nat) : List Ev → List Nat
  | [] => []
  | .assign _ c' id :: t => if c' = c then id :: assignedIds c t else assignedIds c t
  | _ :: t => assignedIds c t

theorem mem_assignedIds {c id : Nat} {h : List Ev} (hm : id ∈ assignedIds c h) : ∃ e, Ev.assign e c id ∈ h := by
  induction h with
  | nil => simp [assignedIds] at hm
  | cons ev t ih =>
    cases ev with
    | assign e' c' id' =>
      by_cases hc : c' = c
      · subst hc
        simp [assignedIds] at hm
        rcases hm with h1 | h1
        · subst h1; exact ⟨e', List.mem_cons_self⟩
        · obtain ⟨e, he⟩ := ih h1; exact ⟨e, List.mem_cons_of_mem _ he⟩
      · simp [assignedIds, hc] at hm
        obtain ⟨e, he⟩ := ih hm; exact ⟨e, List.mem_cons_of_mem _ he⟩
    | query _ _ _ => obtain ⟨e, he⟩ := ih (by simpa [assignedIds] using hm); exact ⟨e, List.mem_cons_of_mem _ he⟩
    | reply _ _ _ => obtain ⟨e, he⟩ := ih (by simpa [assignedIds] using hm); exact ⟨e, List.mem_cons_of_mem _ he⟩
    | ret _ _ => obtain ⟨e, he⟩ := ih (by simpa [assignedIds] using hm); exact ⟨e, List.mem_cons_of_mem _ he⟩

theorem assignedIds_cons_of_not_assign (c : Nat) (ev : Ev) (h : List Ev) (hne : ∀ e c' q, ev ≠ .assign e c' q) :
    assignedIds c (ev :: h) = assignedIds c h := by
  cases ev with
  | assign e c' q => exact absurd rfl (hne e c' q)
  | _ => rfl

/-- how one step extends the history -/
theorem step_hist (cfg : Cfg) (s : State) (st : Step) :
    (step cfg s st).hist = s.hist ∨
    (∃ ev, (step cfg s st).hist = ev :: s.hist ∧ ∀ e c q, ev ≠ .assign e c q) ∨
    (∃ e c, (step cfg s st).hist = .assign e c (s.conns c).nextQid :: s.hist ∧ (s.conns c).nextQid ≤ 65535) := by
  cases st with
  | reserve c => left; rfl
  | close c => left; rfl
  | addQ e c =>
    simp only [step]
    split
    · split
      · left; rfl
      · rename_i c' q hadd
        obtain ⟨a1, a2, _⟩ := addQueueC_some hadd
        right; right; exact ⟨e, c, by simp [a2], a1⟩
    · left; rfl
  | write e ok closes =>
    simp only [step]
    split
    · split
      · right; left; exact ⟨_, rfl, by intro _ _ _; simp⟩
      · left; rfl
    · left; rfl
  | srvReply c id p =>
    right; left
    refine ⟨.reply c id p, ?_, by intro _ _ _; simp⟩
    simp only [step]
    split
    · rfl
    · split <;> rfl
  | take e =>
    simp only [step]
    split
    · split <;> (left; rfl)
    · left; rfl
  | cancel e =>
    simp only [step]
    split <;> (left; rfl)
  | dead e =>
    simp only [step]
    split
    · split <;> (left; rfl)
    · left; rfl
  | delQ e =>
    simp only [step]
    split
    · rename_i c q r hpc
      cases r with
      | none => left; rfl
      | some p => right; left; exact ⟨_, rfl, by intro _ _ _; simp⟩
    · left; rfl
  | giveUp e =>
    simp only [step]
    split
    · right; left; exact ⟨_, rfl, by intro _ _ _; simp⟩
    · left; rfl

/-- ids are handed out in strictly increasing order (newest first: strictly decreasing) -/
def Mono (s : State) : Prop := ∀ c, (assignedIds c s.hist).Pairwise (· > ·)

theorem mono_step {cfg : Cfg} {s : State} (hi : Inv cfg s) (hm : Mono s) (st : Step) : Mono (step cfg s st) := by
  intro c
  rcases step_hist cfg s st with h | ⟨ev, h, hne⟩ | ⟨e, c', h, _⟩
  · rw [h]; exact hm c
  · rw [h, assignedIds_cons_of_not_assign c ev _ hne]; exact hm c
  · rw [h]
    by_cases hc : c' = c
    · subst hc
      simp only [assignedIds, if_true]
      refine List.Pairwise.cons ?_ (hm c')
      intro id hid
      obtain ⟨e', he'⟩ := mem_assignedIds hid
      exact hi.asg_lt e' c' id he'
    · simp only [assignedIds, hc, if_false]; exact hm c

theorem mono_exec {cfg : Cfg} {s : State} (hi : Inv cfg s) (hm : Mono s) (steps : List Step) :
    Mono (exec cfg s steps) := by
  induction steps generalizing s with
  | nil => exact hm
  | cons st rest ih => exact ih (inv_step hi st) (mono_step hi hm st)

end MosVerif.Pipeline
