/-
  C13 — the reference stream parser `parse` and the admission function `admission`.
-/
import MosVerif.Lemmas.GnetBasic
namespace MosVerif.Gnet

theorem parse_complete (a b : UInt8) (t : Bytes) (h : rd16 a b ≤ t.length) :
    parse (a :: b :: t) =
      (t.take (rd16 a b) :: (parse (t.drop (rd16 a b))).1, (parse (t.drop (rd16 a b))).2) := by
  rw [parse]; simp [h]

theorem parse_incomplete (a b : UInt8) (t : Bytes) (h : t.length < rd16 a b) :
    parse (a :: b :: t) = ([], a :: b :: t) := by
  have h' : ¬ rd16 a b ≤ t.length := by omega
  rw [parse]; simp [h']

theorem parse_short (s : Bytes) (h : s.length < 2) : parse s = ([], s) := by
  match s, h with
  | [], _ => rw [parse]; simp
  | [_], _ => rw [parse]; simp
  | _ :: _ :: _, h => simp at h; omega

/-- `u` is the beginning of a frame that is not complete yet. -/
def Incomplete (u : Bytes) : Prop :=
  u.length < 2 ∨ ∃ a b t, u = a :: b :: t ∧ t.length < rd16 a b

theorem parse_of_incomplete {u : Bytes} (h : Incomplete u) : parse u = ([], u) := by
  rcases h with h | ⟨a, b, t, rfl, h⟩
  · exact parse_short u h
  · exact parse_incomplete a b t h

theorem parse_rest_incomplete (s : Bytes) : Incomplete (parse s).2 := by
  induction s using parse.induct with
  | case1 a b t h ih => rw [parse_complete a b t h]; exact ih
  | case2 a b t h => rw [parse_incomplete a b t (by omega)]; exact Or.inr ⟨a, b, t, rfl, by omega⟩
  | case3 s h =>
    have : s.length < 2 := by
      match s, h with
      | [], _ => simp
      | [_], _ => simp
      | a :: b :: t, h => exact absurd rfl (h a b t)
    rw [parse_short s this]; exact Or.inl this

/-- Parsing is compositional: what was received earlier can be parsed first, only the
    incomplete tail has to be kept. -/
theorem parse_append (s t : Bytes) :
    parse (s ++ t) =
      ((parse s).1 ++ (parse ((parse s).2 ++ t)).1, (parse ((parse s).2 ++ t)).2) := by
  induction s using parse.induct with
  | case1 a b t' h ih =>
    have h2 : rd16 a b ≤ (t' ++ t).length := by simp; omega
    rw [parse_complete a b t' h]
    show parse (a :: b :: (t' ++ t)) = _
    rw [parse_complete a b (t' ++ t) h2]
    have e1 : List.take (rd16 a b) (t' ++ t) = List.take (rd16 a b) t' := by
      rw [List.take_append_of_le_length h]
    have e2 : List.drop (rd16 a b) (t' ++ t) = List.drop (rd16 a b) t' ++ t := by
      rw [List.drop_append_of_le_length h]
    rw [e1, e2, ih]
    simp
  | case2 a b t' h => rw [parse_incomplete a b t' (by omega)]; simp
  | case3 s h =>
    have : s.length < 2 := by
      match s, h with
      | [], _ => simp
      | [_], _ => simp
      | a :: b :: t, h => exact absurd rfl (h a b t)
    rw [parse_short s this]; simp

/-- A frame with a body shorter than 65536 octets followed by anything parses as that body first. -/
theorem parse_frame_append (f s : Bytes) (hf : f.length < 65536) :
    parse (frame f ++ s) = (f :: (parse s).1, (parse s).2) := by
  have hr : rd16 (UInt8.ofNat (f.length / 256)) (UInt8.ofNat f.length) = f.length := rd16_be16 _ hf
  show parse (UInt8.ofNat (f.length / 256) :: UInt8.ofNat f.length :: (f ++ s)) = _
  rw [parse_complete _ _ _ (by rw [hr]; simp)]
  rw [hr]
  simp

/-- ★ reference parser on a well-formed stream: the frames come back, the incomplete tail is left. -/
theorem parse_frames (frames : List Bytes) (tail : Bytes)
    (hf : ∀ f ∈ frames, f.length < 65536) (ht : Incomplete tail) :
    parse (frames.flatMap frame ++ tail) = (frames, tail) := by
  induction frames with
  | nil => simpa using parse_of_incomplete ht
  | cons f fs ih =>
    have hfs : ∀ g ∈ fs, g.length < 65536 := fun g hg => hf g (List.mem_cons_of_mem _ hg)
    simp only [List.flatMap_cons, List.append_assoc]
    rw [parse_frame_append f _ (hf f (List.mem_cons_self ..)), ih hfs]

/-! ### admission -/

theorem admission_bodies (max : Nat) (fs : List Bytes) : ∀ c, (admission max c fs).1.map Event.body = fs := by
  induction fs with
  | nil => intro c; simp [admission]
  | cons f fs ih =>
    intro c
    by_cases h : c + 1 > max
    · simp [admission, h, ih, Event.body]
    · simp [admission, h, ih, Event.body]

theorem admission_length (max : Nat) (fs : List Bytes) (c : Nat) : (admission max c fs).1.length = fs.length := by
  have := congrArg List.length (admission_bodies max fs c)
  simpa using this

theorem admission_append (max : Nat) (xs ys : List Bytes) : ∀ c,
    admission max c (xs ++ ys) =
      ((admission max c xs).1 ++ (admission max (admission max c xs).2 ys).1, (admission max (admission max c xs).2 ys).2) := by
  induction xs with
  | nil => intro c; simp [admission]
  | cons f fs ih =>
    intro c
    by_cases h : c + 1 > max
    · simp [admission, h, ih]
    · simp [admission, h, ih]

/-- at or over the limit every query is REFUSED and the counter does not move -/
theorem admission_over (max : Nat) (fs : List Bytes) (c : Nat) (h : max ≤ c) :
    admission max c fs = (fs.map Event.refused, c) := by
  induction fs with
  | nil => simp [admission]
  | cons f fs ih =>
    have : c + 1 > max := by omega
    simp [admission, this, ih]

end MosVerif.Gnet
