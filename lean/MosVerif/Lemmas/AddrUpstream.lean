/-
  C17 — `NewUpstream` on every rendered case: the plan it builds.
-/
import MosVerif.Lemmas.AddrPlan
namespace MosVerif.Addr

/-! ### scheme separator, scheme split, authority split -/

theorem containsSep_noSlash {s : Str} (h : '/' ∉ s) : containsSep s = false := by
  induction s with
  | nil => rfl
  | cons c t ih =>
    simp only [List.mem_cons, not_or] at h
    have iht := ih h.2
    cases t with
    | nil => simp [containsSep]
    | cons d t' =>
      have hd : d ≠ '/' := by
        have := h.2
        simp only [List.mem_cons, not_or] at this
        exact fun e => this.1 e.symm
      unfold containsSep
      rw [iht]
      split
      · rename_i heq
        simp only [List.cons.injEq] at heq
        exact absurd heq.1 hd
      · rfl

theorem containsSep_append (a b : Str) : containsSep (a ++ ':' :: '/' :: '/' :: b) = true := by
  induction a with
  | nil => simp [containsSep]
  | cons c t ih => simp [containsSep, ih]

theorem splitScheme_append {a : Str} (r : Str) (h : ':' ∉ a) :
    splitScheme (a ++ ':' :: r) = some (a, r) := by
  induction a with
  | nil => simp [splitScheme]
  | cons c t ih =>
    simp only [List.mem_cons, not_or] at h
    have hc : ¬ c = ':' := fun e => h.1 e.symm
    simp [splitScheme, hc, ih h.2]

theorem takeWhile_authority {hp path : Str} (h : '/' ∉ hp) (hpath : path = [] ∨ path.head? = some '/') :
    (hp ++ path).takeWhile (· ≠ '/') = hp ∧ (hp ++ path).dropWhile (· ≠ '/') = path := by
  induction hp with
  | nil =>
    rcases hpath with e | e
    · simp [e]
    · cases path with
      | nil => simp
      | cons a t =>
        have : a = '/' := by simpa using e
        simp [this]
  | cons c t ih =>
    simp only [List.mem_cons, not_or] at h
    have hc : c ≠ '/' := fun e => h.1 e.symm
    have := ih h.2
    simpa [hc] using this

theorem scheme_text_noColon (s : Scheme) : ':' ∉ s.text := by
  cases s <;> simp [Scheme.text, sUdp, sTcp, sTls, sHttps, sHttp, sH3, sQuic, sDoq, sTcpPipeline, sTlsPipeline]

theorem scheme_text_ne_nil {s : Scheme} (h : s ≠ .none) : s.text ≠ [] := by
  cases s <;> simp_all [Scheme.text, sUdp, sTcp, sTls, sHttps, sHttp, sH3, sQuic, sDoq, sTcpPipeline, sTlsPipeline]

/-- the authority `host[:port]` of a well-formed case contains no '/' -/
theorem authority_noSlash {h : Host} {p : Option Str} (wh : h.wf = true) (wp : portWf p = true) :
    '/' ∉ h.url ++ portSuffix p := by
  have hs : '/' ∉ h.url := by
    cases h with
    | plain h => simpa [Host.url] using (Host.wf_plain wh).slash
    | v6 x => simpa [Host.url] using (Host.wf_v6 wh).slash
  cases p with
  | none => simpa [portSuffix] using hs
  | some p =>
    have := (portWf_some wp).slash
    simp [portSuffix, hs, this]

/-- the scheme `url.Parse` reports: "udp" when none was written -/
def Scheme.parsed (s : Scheme) : Str := if s = .none then sUdp else s.text

structure CaseFacts (c : Case) : Prop where
  host : c.host.wf = true
  port : portWf c.port = true
  dial : c.dial.wf = true
  path : c.path = [] ∨ (c.path.head? = some '/' ∧ c.scheme ≠ .none)

theorem Case.facts {c : Case} (w : c.wf = true) : CaseFacts c := by
  simp only [Case.wf, Bool.and_eq_true, Bool.or_eq_true, List.isEmpty_iff, beq_iff_eq, bne_iff_ne] at w
  exact ⟨w.1.1.1, w.1.1.2, w.1.2, w.2⟩

/-- ★ scheme defaulting and URL parsing: the address of every well-formed case is read as
    (scheme or "udp", `host[:port]` exactly as written, path). -/
theorem parse_addr {c : Case} (w : c.wf = true) :
    urlParse (if !containsSep c.addr then sUdp ++ sSep ++ c.addr else c.addr)
      = some ⟨c.scheme.parsed, c.host.url ++ portSuffix c.port, c.path⟩ := by
  have f := Case.facts w
  have ns := authority_noSlash f.host f.port
  by_cases hs : c.scheme = .none
  · have hp : c.path = [] := by
      rcases f.path with e | e
      · exact e
      · exact absurd hs e.2
    have ea : c.addr = c.host.url ++ portSuffix c.port := by simp [Case.addr, hs, hp]
    have tw := takeWhile_authority (path := []) ns (Or.inl rfl)
    simp only [List.append_nil] at tw
    rw [ea, containsSep_noSlash ns]
    have sp := splitScheme_append (a := sUdp) ('/' :: '/' :: (c.host.url ++ portSuffix c.port)) (by simp [sUdp])
    have e2 : sUdp ++ sSep ++ (c.host.url ++ portSuffix c.port)
        = sUdp ++ ':' :: '/' :: '/' :: (c.host.url ++ portSuffix c.port) := by simp [sSep]
    simp only [Bool.not_false, if_true, e2, urlParse, sp, tw.1, tw.2, Scheme.parsed, hs, hp]
    simp [sUdp]
  · have ea : c.addr = c.scheme.text ++ ':' :: '/' :: '/' :: ((c.host.url ++ portSuffix c.port) ++ c.path) := by
      simp [Case.addr, hs, sSep]
    have hpath : c.path = [] ∨ c.path.head? = some '/' := f.path.imp id (·.1)
    have tw := takeWhile_authority ns hpath
    have sp := splitScheme_append ('/' :: '/' :: ((c.host.url ++ portSuffix c.port) ++ c.path))
      (scheme_text_noColon c.scheme)
    rw [ea, containsSep_append]
    simp only [Bool.not_true, Bool.false_eq_true, if_false, urlParse, sp, tw.1, tw.2, Scheme.parsed, hs,
      scheme_text_ne_nil hs]

/-! ### the plan -/

def Scheme.proto : Scheme → Proto
  | .none | .udp => .udp
  | .tcp | .tcpPipeline => .tcp
  | .tls | .tlsPipeline => .tls
  | .https | .h3 => .https
  | .http => .http
  | .quic | .doq => .quic

def Scheme.pipeline : Scheme → Bool
  | .tcpPipeline | .tlsPipeline => true
  | _ => false

def Scheme.isH3 : Scheme → Bool
  | .h3 => true
  | _ => false

/-- the address the property says is dialled -/
def Case.expDial (c : Case) : Str :=
  match c.dial with
  | .none => joinHostPort c.host.bare (c.port.getD c.scheme.defaultPort)
  | .host h p => joinHostPort h.bare (p.getD c.scheme.defaultPort)
  | .bracketed x => joinHostPort x c.scheme.defaultPort
  | .unix n => '@' :: n
  | .raw s => getDialAddr (Dial.render (.host c.host c.port)) s c.scheme.defaultPort

def Case.expNet (c : Case) : Str :=
  if c.scheme.stream then
    (match c.dial with
     | .unix _ => sUnix
     | .raw s => dialNetworkTcpOrUnix (getDialAddr (Dial.render (.host c.host c.port)) s c.scheme.defaultPort)
     | _ => sTcp)
  else sUdp

/-- the TLS server name: the URL host, never the dial address -/
def Case.expServerName (c : Case) : Str :=
  match c.scheme with
  | .tls | .tlsPipeline | .quic | .doq | .h3 | .https => c.host.bare
  | _ => []

def Case.expHttpHost (c : Case) : Str :=
  match c.scheme with
  | .https | .http | .h3 => c.host.url ++ portSuffix c.port
  | _ => []

def Case.expPlan (c : Case) : Plan :=
  ⟨c.scheme.proto, c.scheme.pipeline, c.scheme.isH3, c.expNet, c.expDial, c.expServerName, c.expHttpHost,
    if c.scheme.tcpRetry then some c.expDial else none⟩

theorem join_no_at {h : Host} (p : Str) (wh : h.wf = true) : hasAtPrefix (joinHostPort h.bare p) = false := by
  cases h with
  | plain h =>
    have f := Host.wf_plain wh
    have hd := head?_ne_of_not_mem f.at_
    cases h with
    | nil => exact absurd rfl f.ne
    | cons a t =>
      have : ¬ a = '@' := by simpa using hd
      simp [joinHostPort, Host.bare, hasAtPrefix]
      split <;> simp [this]
  | v6 x => simp [joinHostPort, Host.bare, hasAtPrefix, (Host.wf_v6 wh).colon]

/-- the dial address computed by the code on every well-formed case -/
theorem getDialAddr_case {c : Case} (w : c.wf = true) :
    getDialAddr (Dial.render (.host c.host c.port)) c.dial.render c.scheme.defaultPort = c.expDial := by
  have f := Case.facts w
  cases hd : c.dial with
  | none => simpa [Case.expDial, hd, Dial.render] using getDialAddr_url c.scheme.defaultPort f.host f.port
  | host h p =>
    have wd := f.dial
    simp only [hd, Dial.wf, Bool.and_eq_true] at wd
    simpa [Case.expDial, hd] using getDialAddr_override _ c.scheme.defaultPort wd.1 wd.2
  | bracketed x =>
    have wd := f.dial
    simp only [hd, Dial.wf] at wd
    simpa [Case.expDial, hd, Dial.render] using getDialAddr_bracketed _ c.scheme.defaultPort wd
  | unix n => simp [Case.expDial, hd, Dial.render, getDialAddr_unix]
  | raw s => simp [Case.expDial, hd, Dial.render]

theorem network_case {c : Case} (w : c.wf = true) (hs : c.scheme.stream = true) :
    dialNetworkTcpOrUnix c.expDial = c.expNet := by
  have f := Case.facts w
  cases hd : c.dial with
  | none => simp [Case.expDial, Case.expNet, hd, hs, dialNetworkTcpOrUnix, join_no_at _ f.host]
  | host h p =>
    have wd := f.dial
    simp only [hd, Dial.wf, Bool.and_eq_true] at wd
    simp [Case.expDial, Case.expNet, hd, hs, dialNetworkTcpOrUnix, join_no_at _ wd.1]
  | bracketed x =>
    have wd := f.dial
    simp only [hd, Dial.wf] at wd
    have := join_no_at (h := .v6 x) c.scheme.defaultPort (by simpa [Host.wf] using wd)
    simp only [Host.bare] at this
    simp [Case.expDial, Case.expNet, hd, hs, dialNetworkTcpOrUnix, this]
  | unix n => simp [Case.expDial, Case.expNet, hd, hs, dialNetworkTcpOrUnix, hasAtPrefix]
  | raw s => simp [Case.expDial, Case.expNet, hd, hs]

/-- `URL.Hostname()` of the authority is the bare host -/
theorem urlHostname_authority {h : Host} {p : Option Str} (wh : h.wf = true) (wp : portWf p = true) :
    urlHostname (h.url ++ portSuffix p) = h.bare := by
  cases h with
  | plain h =>
    have f := Host.wf_plain wh
    cases p with
    | none => simp [Host.url, portSuffix, urlHostname, indexOf_none f.colon, Host.bare]
    | some p =>
      have fp := portWf_some wp
      have nr : ']' ∉ h ++ ':' :: p := by simp [f.rb, fp.rb]
      simp [Host.url, portSuffix, urlHostname, indexOf_append p f.colon, indexOf_none nr, Host.bare]
  | v6 x =>
    have f := Host.wf_v6 wh
    obtain ⟨a, b, e, _⟩ := exists_last_split f.colon
    have ic : ∀ t, ∃ k, indexOf ':' ('[' :: (x ++ t)) = some k := by
      intro t
      have : ':' ∈ '[' :: (x ++ t) := by simp [f.colon]
      cases hi : indexOf ':' ('[' :: (x ++ t)) with
      | some k => exact ⟨k, rfl⟩
      | none =>
        exfalso
        clear e
        generalize '[' :: (x ++ t) = l at this hi
        induction l with
        | nil => simp at this
        | cons y ys ih =>
          by_cases hy : y = ':'
          · simp [indexOf, hy] at hi
          · have : ':' ∈ ys := by
              rcases List.mem_cons.mp this with e | e
              · exact absurd e.symm hy
              · exact e
            simp only [indexOf, hy, if_false, Option.map_eq_none_iff] at hi
            exact ih this hi
    have ib : ∀ t, indexOf ']' ('[' :: (x ++ ']' :: t)) = some (x.length + 1) := by
      intro t
      have := indexOf_append (c := ']') (a := '[' :: x) t (by simp [f.rb])
      simpa using this
    cases p with
    | none =>
      obtain ⟨k, hk⟩ := ic [']']
      simp [Host.url, portSuffix, urlHostname, hk, ib [], Host.bare]
    | some p =>
      obtain ⟨k, hk⟩ := ic (']' :: ':' :: p)
      simp [Host.url, portSuffix, urlHostname, hk, ib (':' :: p), Host.bare]

/-- ★ `NewUpstream` on every well-formed case builds exactly the plan the property describes:
    protocol, helper flags, socket network, dial address, TLS server name, HTTP host. -/
theorem newUpstream_case {c : Case} (w : c.wf = true) :
    newUpstream c.addr c.dial.render = .ok c.expPlan := by
  have f := Case.facts w
  have hp := parse_addr w
  have ht := trim_authority f.host f.port
  have hd := getDialAddr_case w
  have hr := tryRemovePort_render f.host f.port
  have hh := urlHostname_authority f.host f.port
  unfold newUpstream
  simp only [hp, ht]
  have hn := network_case w
  have en : c.expNet = if c.scheme.stream then c.expNet else sUdp := by
    by_cases h : c.scheme.stream = true <;> simp [h, Case.expNet]
  cases hs : c.scheme <;>
  · rw [hs] at hd hn en
    simp only [Scheme.stream, Scheme.defaultPort] at hd hn en
    simp [Scheme.parsed, Scheme.text, sUdp, sTcp, sTls, sHttps, sHttp, sH3, sQuic, sDoq, sTcpPipeline,
      sTlsPipeline, hd, hn, hr, hh, Case.expPlan, hs, Scheme.proto, Scheme.pipeline, Scheme.isH3,
      Case.expServerName, Case.expHttpHost, httpsServerName, h3ServerName, Scheme.tcpRetry]
    first | done | exact en.symm

end MosVerif.Addr
