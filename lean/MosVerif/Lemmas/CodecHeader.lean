/-
  Codec lemmas, part 5 (C02): the header flag word.  `Header.Pack` or-s disjoint bit fields
  together; `header.header()` extracts them again.  Extraction of a bit field (`fld`)
  distributes over `|||`, so each decoded field only sees its own contribution.
-/
import MosVerif.Lemmas.CodecBasic
namespace MosVerif.Wire

theorem lor_eq (x y : Nat) : Nat.lor x y = x ||| y := rfl

/-- the `w`-bit field starting at bit `a` -/
def fld (a w x : Nat) : Nat := x / 2 ^ a % 2 ^ w

theorem fld_or (a w x y : Nat) : fld a w (x ||| y) = fld a w x ||| fld a w y := by
  simp only [fld, Nat.or_div_two_pow, Nat.or_mod_two_pow]

theorem fld_ite (a w : Nat) (b : Bool) (m : Nat) :
    fld a w (if b = true then m else 0) = if b = true then fld a w m else 0 := by
  cases b <;> simp [fld]

/-- one `if flag { bits |= m }` step of `Header.Pack` -/
def orIf (b : Bool) (m x : Nat) : Nat := if b = true then Nat.lor x m else x

theorem orIf_eq (b : Bool) (m x : Nat) : orIf b m x = x ||| (if b = true then m else 0) := by
  cases b <;> simp [orIf]

theorem bitsOfHeader_orIf (h : Header) :
    bitsOfHeader h = orIf h.cd 16 (orIf h.ad 32 (orIf h.z 64 (orIf h.response 32768 (orIf h.authoritative 1024
      (orIf h.truncated 512 (orIf h.rd 256 (orIf h.ra 128
        ((h.opcode * 2048 % 65536) ||| (h.rcode % 65536))))))))) := rfl

/-- `opcode<<11 | rcode` for 4-bit operands is their positional sum -/
theorem base_bits (op rc : Nat) (hop : op < 16) (hrc : rc < 16) :
    (op * 2048 % 65536) ||| (rc % 65536) = op * 2048 + rc := by
  have h1 : op * 2048 % 65536 = 2 ^ 11 * op := by omega
  have h2 : rc % 65536 = rc := by omega
  rw [h1, h2, ← Nat.two_pow_add_eq_or_of_lt (by omega) op]
  omega

/-- the flag word as an or of independent contributions -/
theorem bitsOfHeader_eq (h : Header) (hop : h.opcode < 16) (hrc : h.rcode < 16) :
    bitsOfHeader h = (h.opcode * 2048 + h.rcode) ||| (if h.ra = true then 128 else 0)
      ||| (if h.rd = true then 256 else 0) ||| (if h.truncated = true then 512 else 0)
      ||| (if h.authoritative = true then 1024 else 0) ||| (if h.response = true then 32768 else 0)
      ||| (if h.z = true then 64 else 0) ||| (if h.ad = true then 32 else 0) ||| (if h.cd = true then 16 else 0) := by
  rw [bitsOfHeader_orIf]
  simp only [orIf_eq, base_bits _ _ hop hrc]

theorem bitsOfHeader_lt (h : Header) (hop : h.opcode < 16) (hrc : h.rcode < 16) : bitsOfHeader h < 65536 := by
  rw [bitsOfHeader_eq h hop hrc]
  have e : (65536 : Nat) = 2 ^ 16 := by decide
  rw [e]
  refine Nat.or_lt_two_pow (Nat.or_lt_two_pow (Nat.or_lt_two_pow (Nat.or_lt_two_pow (Nat.or_lt_two_pow
    (Nat.or_lt_two_pow (Nat.or_lt_two_pow (Nat.or_lt_two_pow ?_ ?_) ?_) ?_) ?_) ?_) ?_) ?_) ?_
  · omega
  all_goals (split <;> omega)

theorem testBit_fld (bits k : Nat) : testBit bits k = decide (fld k 1 bits = 1) := by
  simp [testBit, fld]

theorem ite_one_eq (b : Bool) : decide ((if b = true then 1 else 0) = 1) = b := by cases b <;> simp

/-- ★ header level round trip: the flag word written by `Header.Pack` is read back by
    `header.header()` as the same header (opcode and rcode are 4-bit fields). -/
theorem headerOfBits_bitsOfHeader (h : Header) (hop : h.opcode < 16) (hrc : h.rcode < 16) :
    headerOfBits h.id (bitsOfHeader h) = h := by
  have hb := bitsOfHeader_eq h hop hrc
  have f15 : fld 15 1 (h.opcode * 2048 + h.rcode) = 0 := by simp only [fld]; omega
  have f10 : fld 10 1 (h.opcode * 2048 + h.rcode) = 0 := by simp only [fld]; omega
  have f9 : fld 9 1 (h.opcode * 2048 + h.rcode) = 0 := by simp only [fld]; omega
  have f8 : fld 8 1 (h.opcode * 2048 + h.rcode) = 0 := by simp only [fld]; omega
  have f7 : fld 7 1 (h.opcode * 2048 + h.rcode) = 0 := by simp only [fld]; omega
  have f6 : fld 6 1 (h.opcode * 2048 + h.rcode) = 0 := by simp only [fld]; omega
  have f5 : fld 5 1 (h.opcode * 2048 + h.rcode) = 0 := by simp only [fld]; omega
  have f4 : fld 4 1 (h.opcode * 2048 + h.rcode) = 0 := by simp only [fld]; omega
  have fop : fld 11 4 (h.opcode * 2048 + h.rcode) = h.opcode := by simp only [fld]; omega
  have frc : fld 0 4 (h.opcode * 2048 + h.rcode) = h.rcode := by simp only [fld]; omega
  have hop' : bitsOfHeader h / 2048 % 16 = fld 11 4 (bitsOfHeader h) := by simp [fld]
  have hrc' : bitsOfHeader h % 16 = fld 0 4 (bitsOfHeader h) := by simp [fld]
  unfold headerOfBits
  rw [hop', hrc']
  simp only [testBit_fld, hb, fld_or, fld_ite, f15, f10, f9, f8, f7, f6, f5, f4, fop, frc]
  cases h with
  | mk id qr op aa tc rd ra ad cd rc z =>
    simp [fld]

/-! ### the other direction: no bit of an accepted flag word is lost -/

theorem bit_eq_of_decide_eq {x y : Nat} (h : decide (x % 2 = 1) = decide (y % 2 = 1)) : x % 2 = y % 2 := by
  by_cases hx : x % 2 = 1 <;> by_cases hy : y % 2 = 1 <;> simp [hx, hy] at h <;> omega

/-- `header.header()` is injective on 16-bit flag words: every one of the 16 bits lands in a field -/
theorem headerOfBits_inj (i j x y : Nat) (hx : x < 65536) (hy : y < 65536)
    (h : headerOfBits i x = headerOfBits j y) : x = y := by
  simp only [headerOfBits, testBit, Header.mk.injEq] at h
  obtain ⟨_, h15, hop, h10, h9, h8, h7, h5, h4, hrc, h6⟩ := h
  have b15 := bit_eq_of_decide_eq h15
  have b10 := bit_eq_of_decide_eq h10
  have b9 := bit_eq_of_decide_eq h9
  have b8 := bit_eq_of_decide_eq h8
  have b7 := bit_eq_of_decide_eq h7
  have b6 := bit_eq_of_decide_eq h6
  have b5 := bit_eq_of_decide_eq h5
  have b4 := bit_eq_of_decide_eq h4
  omega

/-- ★ decode-then-encode of the flag word is the identity on ALL 16 bits (including the reserved
    bit Z): no header bit of an accepted message is lost. -/
theorem bitsOfHeader_headerOfBits (id bits : Nat) (hb : bits < 65536) :
    bitsOfHeader (headerOfBits id bits) = bits := by
  have hop : (headerOfBits id bits).opcode < 16 := by simp only [headerOfBits]; omega
  have hrc : (headerOfBits id bits).rcode < 16 := by simp only [headerOfBits]; omega
  have hlt := bitsOfHeader_lt _ hop hrc
  have hrt := headerOfBits_bitsOfHeader (headerOfBits id bits) hop hrc
  exact headerOfBits_inj _ _ _ _ hlt hb hrt
