/-
  Codec lemmas, part 3 (C02): the encoder `packName` against the decoder.
  Table invariant `TableOK`, its preservation, and the name-level round trip through the
  compression table.
-/
import MosVerif.Lemmas.CodecName
namespace MosVerif.Wire

/-! ### buffers that hold a literal name at an offset -/

/-- the bytes of `buf` at `off` are `k ++ [0]` -/
def LitAt (buf : Bytes) (off : Nat) (k : Bytes) : Prop :=
  ∃ pre post, buf = pre ++ (k ++ 0 :: post) ∧ pre.length = off

theorem LitAt.append {buf : Bytes} {off : Nat} {k : Bytes} (h : LitAt buf off k) (x : Bytes) :
    LitAt (buf ++ x) off k := by
  obtain ⟨pre, post, rfl, hp⟩ := h
  exact ⟨pre, post ++ x, by simp, hp⟩

/-- the literal's tail after its first label is itself a literal, further right -/
theorem LitAt.tail {buf : Bytes} {off : Nat} {l : UInt8} {lab rest : Bytes}
    (h : LitAt buf off (l :: (lab ++ rest))) : LitAt buf (off + 1 + lab.length) rest := by
  obtain ⟨pre, post, rfl, hp⟩ := h
  refine ⟨pre ++ l :: lab, post, by simp, ?_⟩
  simp only [List.length_append, List.length_cons]; omega

/-! ### the table invariant -/

/-- Every binding `(k, off)` of the compression table points (within 14 bits) at a literal,
    pointer-free, zero-terminated, well-formed name `k` already in the buffer. -/
def TableOK (buf : Bytes) (t : Table) : Prop :=
  ∀ k off, (k, off) ∈ t → off ≤ 16383 ∧ nameWF k = true ∧ LitAt buf off k

/-- lifted to "compression off" = `none` -/
def TableOK' (buf : Bytes) (tbl : Option Table) : Prop := ∀ t, tbl = some t → TableOK buf t

theorem TableOK.nil (buf : Bytes) : TableOK buf [] := by
  intro k off h; simp at h

theorem TableOK.append {buf : Bytes} {t : Table} (h : TableOK buf t) (x : Bytes) : TableOK (buf ++ x) t := by
  intro k off hm
  obtain ⟨h1, h2, h3⟩ := h k off hm
  exact ⟨h1, h2, h3.append x⟩

theorem TableOK'.append {buf : Bytes} {tbl : Option Table} (h : TableOK' buf tbl) (x : Bytes) :
    TableOK' (buf ++ x) tbl := fun t ht => (h t ht).append x

theorem TableOK'.ofNone (buf : Bytes) : TableOK' buf Option.none := by intro t h; simp at h

theorem TableOK'.init (buf : Bytes) (c : Bool) : TableOK' buf (if c then some [] else Option.none) := by
  intro t h; cases c <;> simp at h; subst h; exact TableOK.nil _

theorem TableOK.cons {buf : Bytes} {t : Table} (h : TableOK buf t) (k : Bytes) (off : Nat)
    (h1 : off ≤ 16383) (h2 : nameWF k = true) (h3 : LitAt buf off k) : TableOK buf ((k, off) :: t) := by
  intro k' off' hm
  simp only [List.mem_cons, Prod.mk.injEq] at hm
  rcases hm with ⟨rfl, rfl⟩ | hm
  · exact ⟨h1, h2, h3⟩
  · exact h k' off' hm

theorem Table.find_mem {t : Table} {k : Bytes} {off : Nat} (h : Table.find t k = some off) : (k, off) ∈ t := by
  induction t with
  | nil => simp [Table.find] at h
  | cons hd tl ih =>
    obtain ⟨k', v⟩ := hd
    simp only [Table.find] at h
    split at h
    · rename_i hk
      simp only [Option.some.injEq] at h
      subst hk; subst h; simp
    · exact List.mem_cons_of_mem _ (ih h)

theorem ptrLimit_eq : ptrLimit = 16383 := by decide

/-- registering the suffixes of a literal that is in the buffer keeps the invariant -/
theorem registerSuffixes_ok {s : Bytes} (hs : Labels s) :
    ∀ (fuel : Nat) (t : Table) (pos : Nat) (buf : Bytes), s.length ≤ 254 → TableOK buf t → LitAt buf pos s →
      TableOK buf (registerSuffixes fuel t pos s) := by
  induction hs with
  | nil => intro fuel t pos buf _ hT _; cases fuel <;> simpa [registerSuffixes] using hT
  | cons l lab rest h0 h63 hl hrest ih =>
    intro fuel t pos buf hlen hT hLit
    cases fuel with
    | zero => simpa [registerSuffixes] using hT
    | succ f =>
      simp only [registerSuffixes]
      have hdrop : (lab ++ rest).drop l.toNat = rest := by rw [← hl]; simp
      rw [hdrop]
      simp only [List.length_cons, List.length_append] at hlen
      apply ih f _ _ buf (by omega)
      · split
        · rename_i hpos
          rw [ptrLimit_eq] at hpos
          refine hT.cons _ _ hpos ?_ hLit
          rw [nameWF_iff]
          exact ⟨by simp only [List.length_cons, List.length_append]; omega,
            Labels.cons l lab rest h0 h63 hl hrest⟩
        · exact hT
      · rw [← hl]; exact hLit.tail

/-! ### the scanning loop of `Name.pack` -/

theorem packNameLoop_none {s : Bytes} (hs : Labels s) :
    ∀ (fuel : Nat) (acc : Bytes), s.length ≤ fuel → packNameLoop fuel none s acc = .ok (acc ++ s, false) := by
  induction hs with
  | nil => intro fuel acc _; cases fuel <;> simp [packNameLoop]
  | cons l lab rest h0 h63 hl _ ih =>
    intro fuel acc hf
    cases fuel with
    | zero => simp at hf
    | succ f =>
      simp only [List.length_cons, List.length_append] at hf
      have hdrop : (lab ++ rest).drop l.toNat = rest := by rw [← hl]; simp
      have htake : (lab ++ rest).take l.toNat = lab := by rw [← hl]; simp
      have hcond : ¬ (l.toNat = 0 ∨ l.toNat > 63 ∨ (lab ++ rest).length < l.toNat) := by
        simp only [List.length_append]; omega
      simp only [packNameLoop, hcond, if_false, hdrop, htake, Option.bind]
      rw [ih f _ (by omega)]
      simp

/-- With a table: either no suffix hits (the whole name is written) or the first hitting
    suffix `k` (at a label boundary) is replaced by a pointer. -/
theorem packNameLoop_some {s : Bytes} (hs : Labels s) (t : Table) :
    ∀ (fuel : Nat) (acc : Bytes), s.length ≤ fuel →
      packNameLoop fuel (some t) s acc = .ok (acc ++ s, false) ∨
      ∃ p k off, s = p ++ k ∧ Labels p ∧ Labels k ∧ k ≠ [] ∧ t.find k = some off ∧
        packNameLoop fuel (some t) s acc = .ok (acc ++ p ++ ptrBytes off, true) := by
  induction hs with
  | nil => intro fuel acc _; left; cases fuel <;> simp [packNameLoop]
  | cons l lab rest h0 h63 hl hrest ih =>
    intro fuel acc hf
    cases fuel with
    | zero => simp at hf
    | succ f =>
      simp only [List.length_cons, List.length_append] at hf
      have hdrop : (lab ++ rest).drop l.toNat = rest := by rw [← hl]; simp
      have htake : (lab ++ rest).take l.toNat = lab := by rw [← hl]; simp
      have hcond : ¬ (l.toNat = 0 ∨ l.toNat > 63 ∨ (lab ++ rest).length < l.toNat) := by
        simp only [List.length_append]; omega
      cases hfind : t.find (l :: (lab ++ rest)) with
      | some off =>
        right
        refine ⟨[], l :: (lab ++ rest), off, by simp, Labels.nil, Labels.cons l lab rest h0 h63 hl hrest,
          by simp, hfind, ?_⟩
        simp only [packNameLoop, hcond, if_false, Option.bind, hfind, ptrBytes]
        simp
      | none =>
        have hstep : packNameLoop (f + 1) (some t) (l :: (lab ++ rest)) acc
            = packNameLoop f (some t) rest (acc ++ [l] ++ lab) := by
          simp only [packNameLoop, hcond, if_false, Option.bind, hfind, hdrop, htake]
        rw [hstep]
        rcases ih f (acc ++ [l] ++ lab) (by omega) with h | ⟨p, k, off, hsplit, hp, hk, hne, hf', hres⟩
        · left; rw [h]; simp
        · right
          refine ⟨l :: (lab ++ p), k, off, by simp [hsplit], ?_, hk, hne, hf', ?_⟩
          · exact Labels.cons l lab p h0 h63 hl hp
          · rw [hres]; simp

/-! ### `packName` -/

/-- What `packName` returns on a well-formed name: a literal (and the suffixes registered), or
    a label prefix and a pointer taken from the table. -/
theorem packName_cases (off : Nat) (tbl : Option Table) (n : Name) (hn : nameWF n = true) :
    (packName off tbl n = .ok (n ++ [0], tbl.map (fun t => registerSuffixes n.length t off n))) ∨
    (∃ t p k o, tbl = some t ∧ n = p ++ k ∧ Labels p ∧ Labels k ∧ k ≠ [] ∧ t.find k = some o ∧
        packName off tbl n = .ok (p ++ ptrBytes o, tbl)) := by
  rw [nameWF_iff] at hn
  obtain ⟨hlen, hL⟩ := hn
  unfold packName
  rw [if_neg (by omega)]
  cases tbl with
  | none =>
    left
    rw [packNameLoop_none hL _ _ (Nat.le_refl _)]
    simp
  | some t =>
    rcases packNameLoop_some hL t n.length [] (Nat.le_refl _) with h | ⟨p, k, o, hsplit, hp, hk, hne, hf, hres⟩
    · left; rw [h]; simp
    · right
      refine ⟨t, p, k, o, rfl, hsplit, hp, hk, hne, hf, ?_⟩
      rw [hres]; simp

/-- Bundle of what the proofs need about one encoding step: `bs` was appended to `buf`
    (table `tbl` ↦ `tbl'`), and the decoder `dec` reads `x` back from it, whatever follows. -/
structure Enc {α : Type} (dec : Bytes → Nat → Res (α × Nat)) (buf : Bytes) (tbl : Option Table) (x : α)
    (len : Nat) (bs : Bytes) (tbl' : Option Table) : Prop where
  /-- the table invariant holds for the extended buffer -/
  table : TableOK' (buf ++ bs) tbl'
  /-- compression stays on/off -/
  mode : tbl'.isSome = tbl.isSome
  /-- never longer than the advertised (uncompressed) length -/
  le : bs.length ≤ len
  /-- without compression exactly the advertised length -/
  exact : tbl = none → bs.length = len
  /-- decoding at the old end of the buffer yields `x` and the new end, whatever is appended later -/
  reads : ∀ msg post, msg = buf ++ (bs ++ post) → dec msg buf.length = .ok (x, buf.length + bs.length)

/-- ★ rung 3: `packName` on a buffer satisfying the table invariant succeeds, preserves the
    invariant, writes at most `len+1` octets (exactly that without compression) and decoding at
    the old end of the buffer yields the name. -/
theorem packName_enc (buf : Bytes) (off : Nat) (hoff : off = buf.length) (tbl : Option Table) (n : Name)
    (hn : nameWF n = true) (hT : TableOK' buf tbl) :
    ∃ bs tbl', packName off tbl n = .ok (bs, tbl') ∧ Enc unpackName buf tbl n (n.length + 1) bs tbl' := by
  have hn' := (nameWF_iff n).1 hn
  rcases packName_cases off tbl n hn with h | ⟨t, p, k, o, ht, hsplit, hp, hk, hne, hfind, h⟩
  · refine ⟨_, _, h, ?_⟩
    constructor
    · intro t' ht'
      cases tbl with
      | none => simp at ht'
      | some t =>
        simp only [Option.map_some, Option.some.injEq] at ht'
        subst ht'
        apply registerSuffixes_ok hn'.2 _ _ _ _ hn'.1 ((hT t rfl).append _)
        exact ⟨buf, [], by simp, hoff.symm⟩
    · cases tbl <;> simp
    · simp
    · intro _; simp
    · intro msg post hmsg
      have e : msg = buf ++ (n ++ 0 :: post) := by rw [hmsg]; simp
      rw [e, decode_literal n hn buf post]
      simp; omega
  · refine ⟨_, _, h, ?_⟩
    obtain ⟨ho, hkwf, pre2, post2, hbuf, hpre2⟩ := hT t ht k o (Table.find_mem hfind)
    have hklen : 1 ≤ k.length := by
      cases k with
      | nil => exact absurd rfl hne
      | cons a b => simp
    have hnlen : n.length = p.length + k.length := by rw [hsplit]; simp
    constructor
    · exact hT.append _
    · rfl
    · simp only [List.length_append, ptrBytes, List.length_cons, List.length_nil]; omega
    · intro hnone; rw [ht] at hnone; simp at hnone
    · intro msg post hmsg
      have e : msg = buf ++ (p ++ ptrBytes o ++ post) := by rw [hmsg]
      have hb2 : buf ++ (p ++ ptrBytes o ++ post) = pre2 ++ (k ++ 0 :: (post2 ++ (p ++ ptrBytes o ++ post))) := by
        rw [show buf ++ (p ++ ptrBytes o ++ post) = (pre2 ++ (k ++ 0 :: post2)) ++ (p ++ ptrBytes o ++ post) from by
          rw [← hbuf]]
        simp
      rw [e, decode_prefix_pointer p k hp hk (by omega) buf post pre2 _ o ho hb2 hpre2, hsplit]
      simp [ptrBytes]; omega

theorem ptrBytes_length (o : Nat) : (ptrBytes o).length = 2 := rfl

end MosVerif.Wire
