/-
  Tie by translation (C08): the lifetime switch of `cacheCtl.Store` (statements `var ttl time.Duration` …
  `ttl = c.maximumTtl`), translated mechanically from the current Go source, equals the model's `storeTtl`.
-/
import MosVerif.Generated.Translated
import MosVerif.Model.Ttl
namespace MosVerif.Ttl
open MosVerif

/-- the lifetime policy as one expression -/
def storeCore (rcode : Int) (hasRr : Bool) (mm maximumTtl : Int) : Int :=
  let ttl : Int :=
    if rcode = 3 then (if hasRr then min (1000000000 * 30) mm else 1000000000 * 30)
    else if rcode = 2 then (if hasRr then min (1000000000 * 1) mm else 1000000000 * 1)
    else if rcode = 0 then (if hasRr then mm else 1000000000 * 30)
    else (if hasRr then min (1000000000 * 5) mm else 1000000000 * 5)
  let ttl := if ttl ≤ 0 then 1000000000 else ttl
  if ttl > maximumTtl then maximumTtl else ttl

theorem id_pure_int (x : Int) : (pure x : Id Int) = x := rfl

/-- the mechanical translation of the Go statements computes `storeCore` -/
theorem Store_ttl_core (rcode : Int) (hasRr : Bool) (mm maximumTtl : Int) :
    Translated.Store_ttl rcode hasRr mm maximumTtl = storeCore rcode hasRr mm maximumTtl := by
  unfold Translated.Store_ttl storeCore
  simp only [Id.run, id_pure_int, decide_eq_true_eq]
  by_cases h3 : rcode = 3
  · cases hasRr <;> simp only [h3, ↓reduceIte] <;> (repeat' split) <;> omega
  · by_cases h2 : rcode = 2
    · cases hasRr <;> simp only [h2, ↓reduceIte] <;> (repeat' split) <;> omega
    · by_cases h0 : rcode = 0
      · cases hasRr <;> simp only [h0, ↓reduceIte] <;> (repeat' split) <;> omega
      · cases hasRr <;> simp only [h3, h2, h0, ↓reduceIte] <;> (repeat' split) <;> omega

/-- … and so does the hand-written model -/
theorem storeTtl_core (m : Msg) (maximumTtl : Int) :
    storeTtl m maximumTtl =
      storeCore (m.rcode : Int) (getMinimalTTL m).2 (durOfSeconds (getMinimalTTL m).1) maximumTtl := by
  unfold storeTtl storeCore
  generalize getMinimalTTL m = g
  obtain ⟨u, hasRr⟩ := g
  simp only [second]
  rcases hrc : m.rcode with _ | _ | _ | _ | n
  · simp
  · simp
  · simp
  · simp
  · have h3 : ((n + 1 + 1 + 1 + 1 : Nat) : Int) ≠ 3 := by omega
    have h2 : ((n + 1 + 1 + 1 + 1 : Nat) : Int) ≠ 2 := by omega
    have h0 : ((n + 1 + 1 + 1 + 1 : Nat) : Int) ≠ 0 := by omega
    simp only [h3, h2, h0, ↓reduceIte]

/-- ★ tie: the model's lifetime policy IS the translated Go code, for every message and every cap -/
theorem Store_ttl_translated (m : Msg) (maximumTtl : Int) :
    storeTtl m maximumTtl =
      Translated.Store_ttl (m.rcode : Int) (getMinimalTTL m).2 (durOfSeconds (getMinimalTTL m).1) maximumTtl := by
  rw [Store_ttl_core, storeTtl_core]

end MosVerif.Ttl
