/-
  Tie by translation (C08): the lifetime switch of `cacheCtl.Store` (statements `var ttl time.Duration` …
  `ttl = c.maximumTtl`), translated mechanically from the current Go source, equals the model's `storeTtl`.
-/
import MosVerif.Generated.Translated
import MosVerif.Model.Ttl
import MosVerif.Model.RedisCache
namespace MosVerif.Ttl
open MosVerif

/-- the lifetime policy as one expression -/
def storeCore (rcode : Int) (hasRr : Bool) (mm maximumTtl : Int) : Int :=
  let ttl : Int :=
    if rcode = 3 then (if hasRr then min (1000000000 * 30) mm else 1000000000 * 30)
    else if rcode = 2 then (if hasRr then min (1000000000 * 1) mm else 1000000000 * 1)
    else if rcode = 0 then (if hasRr then mm else 1000000000 * 30)
    else (if hasRr then min (1000000000 * 5) mm else 1000000000 * 5)
  let ttl := if ttl ≤ 0 then 1000000000 else ttl
  if ttl > maximumTtl then maximumTtl else ttl

theorem id_pure_int (x : Int) : (pure x : Id Int) = x := rfl
theorem id_pure_bool (x : Bool) : (pure x : Id Bool) = x := rfl

/-- the mechanical translation of the Go statements computes `storeCore` -/
theorem Store_ttl_core (rcode : Int) (hasRr : Bool) (mm maximumTtl : Int) :
    Translated.Store_ttl rcode hasRr mm maximumTtl = storeCore rcode hasRr mm maximumTtl := by
  unfold Translated.Store_ttl storeCore
  simp only [Id.run, id_pure_int, decide_eq_true_eq]
  by_cases h3 : rcode = 3
  · cases hasRr <;> simp only [h3, ↓reduceIte] <;> (repeat' split) <;> omega
  · by_cases h2 : rcode = 2
    · cases hasRr <;> simp only [h2, ↓reduceIte] <;> (repeat' split) <;> omega
    · by_cases h0 : rcode = 0
      · cases hasRr <;> simp only [h0, ↓reduceIte] <;> (repeat' split) <;> omega
      · cases hasRr <;> simp only [h3, h2, h0, ↓reduceIte] <;> (repeat' split) <;> omega

/-- … and so does the hand-written model -/
theorem storeTtl_core (m : Msg) (maximumTtl : Int) :
    storeTtl m maximumTtl =
      storeCore (m.rcode : Int) (getMinimalTTL m).2 (durOfSeconds (getMinimalTTL m).1) maximumTtl := by
  unfold storeTtl storeCore
  generalize getMinimalTTL m = g
  obtain ⟨u, hasRr⟩ := g
  simp only [second]
  rcases hrc : m.rcode with _ | _ | _ | _ | n
  · simp
  · simp
  · simp
  · simp
  · have h3 : ((n + 1 + 1 + 1 + 1 : Nat) : Int) ≠ 3 := by omega
    have h2 : ((n + 1 + 1 + 1 + 1 : Nat) : Int) ≠ 2 := by omega
    have h0 : ((n + 1 + 1 + 1 + 1 : Nat) : Int) ≠ 0 := by omega
    simp only [h3, h2, h0, ↓reduceIte]

/-- ★ tie: the model's lifetime policy IS the translated Go code, for every message and every cap -/
theorem Store_ttl_translated (m : Msg) (maximumTtl : Int) :
    storeTtl m maximumTtl =
      Translated.Store_ttl (m.rcode : Int) (getMinimalTTL m).2 (durOfSeconds (getMinimalTTL m).1) maximumTtl := by
  rw [Store_ttl_core, storeTtl_core]

/-! ### initCache: the configured maximum (multiplication, default, ten-year limit) -/

/-- ★ tie: `initMaxTtl` IS the translated statements `c.maximumTtl = time.Duration(cfg.MaximumTTL) * time.Second` …
    `if c.maximumTtl > maxCacheTtlLimit {…}` of `router.initCache`, whatever `c.maximumTtl` held before. The
    translation multiplies in ℤ; Go multiplies in int64, which the model writes as `wrap64`: the range hypothesis
    (seconds·10⁹ fits int64) is exactly where the two could part. -/
theorem c08_initMaxTtl_translated (old cfgMax : Int)
    (h1 : -9223372036854775808 ≤ cfgMax * second) (h2 : cfgMax * second < 9223372036854775808) :
    initMaxTtl cfgMax = Translated.c08_initMaxTtl old cfgMax := by
  unfold initMaxTtl Translated.c08_initMaxTtl
  rw [show wrap64 (cfgMax * second) = cfgMax * second from by
    unfold wrap64; rw [Int.emod_eq_of_lt (by omega) (by omega)]; omega]
  simp only [Id.run, id_pure_int, decide_eq_true_eq, defaultMaxCacheTtl, maxCacheTtlLimit, second]
  (repeat' split) <;> omega

/-- non-vacuity and the other side: outside the range the int64 product wraps (D41/D42's family) and the model
    follows Go, not ℤ -/
example : initMaxTtl 9223372037 ≠ Translated.c08_initMaxTtl 0 9223372037 := by decide
example : initMaxTtl 7 = Translated.c08_initMaxTtl 12345 7 := by decide

/-! ### cacheCtl.Store: `msgRrMinTtl := time.Duration(u) * time.Second`, `negativeResp := …` -/

/-- ★ tie: the duration of the smallest record TTL. `u` is a uint32, so the int64 product cannot wrap: no range
    hypothesis is needed beyond the type. -/
theorem c08_minDur_translated (u : UInt32) : durOfSeconds u = Translated.c08_minDur (u.toNat : Int) := by
  have h := u.toNat_lt
  unfold durOfSeconds wrap64 second Translated.c08_minDur
  simp only [Id.run, id_pure_int]
  omega

/-- ★ tie: which responses are stored set-if-absent -/
theorem c08_negativeResp_translated (rcode : Nat) : negativeResp rcode = Translated.c08_negativeResp rcode := by
  unfold negativeResp Translated.c08_negativeResp
  simp only [Id.run, id_pure_bool]
  by_cases h : rcode = 0 <;> simp [h]

/-- ★ tie: AsyncStore drops a SET whose relative ttl is `ttlMs <= 10` (all theorems of this file live in one
    namespace: the audit resolves names per file) -/
theorem c08_redisTtlTooShort_translated (ttlMs : Int) :
    RedisCache.redisTtlTooShort ttlMs = Translated.c08_redisTtlTooShort ttlMs := by
  unfold RedisCache.redisTtlTooShort Translated.c08_redisTtlTooShort; grind

end MosVerif.Ttl
