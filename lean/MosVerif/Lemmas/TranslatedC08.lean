/-
  Tie by translation (C08): the lifetime switch of `cacheCtl.Store` (statements `var ttl time.Duration` …
  `ttl = c.maximumTtl`), translated mechanically from the current Go source, equals the model's `storeTtl`.
-/
import MosVerif.Generated.Translated
import MosVerif.Model.Ttl
import MosVerif.Model.RedisCache
namespace MosVerif.Ttl
open MosVerif

/-- the lifetime policy as one expression -/
def storeCore (rcode : Int) (hasRr : Bool) (mm maximumTtl : Int) : Int :=
  let ttl : Int :=
    if rcode = 3 then (if hasRr then min (1000000000 * 30) mm else 1000000000 * 30)
    else if rcode = 2 then (if hasRr then min (1000000000 * 1) mm else 1000000000 * 1)
    else if rcode = 0 then (if hasRr then mm else 1000000000 * 30)
    else (if hasRr then min (1000000000 * 5) mm else 1000000000 * 5)
  let ttl := if ttl ≤ 0 then 1000000000 else ttl
  if ttl > maximumTtl then maximumTtl else ttl

theorem id_pure_int (x : Int) : (pure x : Id Int) = x := rfl
theorem id_pure_bool (x : Bool) : (pure x : Id Bool) = x := rfl
theorem id_pure_any {α : Type} (x : α) : (pure x : Id α) = x := rfl

/-- the mechanical translation of the Go statements computes `storeCore` -/
theorem Store_ttl_core (rcode : Int) (hasRr : Bool) (mm maximumTtl : Int) :
    Translated.Store_ttl rcode hasRr mm maximumTtl = storeCore rcode hasRr mm maximumTtl := by
  unfold Translated.Store_ttl storeCore
  simp only [Id.run, id_pure_int, decide_eq_true_eq]
  by_cases h3 : rcode = 3
  · cases hasRr <;> simp only [h3, ↓reduceIte] <;> (repeat' split) <;> omega
  · by_cases h2 : rcode = 2
    · cases hasRr <;> simp only [h2, ↓reduceIte] <;> (repeat' split) <;> omega
    · by_cases h0 : rcode = 0
      · cases hasRr <;> simp only [h0, ↓reduceIte] <;> (repeat' split) <;> omega
      · cases hasRr <;> simp only [h3, h2, h0, ↓reduceIte] <;> (repeat' split) <;> omega

/-- … and so does the hand-written model -/
theorem storeTtl_core (m : Msg) (maximumTtl : Int) :
    storeTtl m maximumTtl =
      storeCore (m.rcode : Int) (getMinimalTTL m).2 (durOfSeconds (getMinimalTTL m).1) maximumTtl := by
  unfold storeTtl storeCore
  generalize getMinimalTTL m = g
  obtain ⟨u, hasRr⟩ := g
  simp only [second]
  rcases hrc : m.rcode with _ | _ | _ | _ | n
  · simp
  · simp
  · simp
  · simp
  · have h3 : ((n + 1 + 1 + 1 + 1 : Nat) : Int) ≠ 3 := by omega
    have h2 : ((n + 1 + 1 + 1 + 1 : Nat) : Int) ≠ 2 := by omega
    have h0 : ((n + 1 + 1 + 1 + 1 : Nat) : Int) ≠ 0 := by omega
    simp only [h3, h2, h0, ↓reduceIte]

/-- ★ tie: the model's lifetime policy IS the translated Go code, for every message and every cap -/
theorem Store_ttl_translated (m : Msg) (maximumTtl : Int) :
    storeTtl m maximumTtl =
      Translated.Store_ttl (m.rcode : Int) (getMinimalTTL m).2 (durOfSeconds (getMinimalTTL m).1) maximumTtl := by
  rw [Store_ttl_core, storeTtl_core]

/-! ### initCache: the configured maximum (multiplication, default, ten-year limit) -/

/-- ★ tie: `initMaxTtl` IS the translated statements `c.maximumTtl = time.Duration(cfg.MaximumTTL) * time.Second` …
    `if c.maximumTtl > maxCacheTtlLimit {…}` of `router.initCache`, whatever `c.maximumTtl` held before. The
    translation multiplies in ℤ; Go multiplies in int64, which the model writes as `wrap64`: the range hypothesis
    (seconds·10⁹ fits int64) is exactly where the two could part. -/
theorem c08_initMaxTtl_translated (old cfgMax : Int)
    (h1 : -9223372036854775808 ≤ cfgMax * second) (h2 : cfgMax * second < 9223372036854775808) :
    initMaxTtl cfgMax = Translated.c08_initMaxTtl old cfgMax := by
  unfold initMaxTtl Translated.c08_initMaxTtl
  rw [show wrap64 (cfgMax * second) = cfgMax * second from by
    unfold wrap64; rw [Int.emod_eq_of_lt (by omega) (by omega)]; omega]
  simp only [Id.run, id_pure_int, decide_eq_true_eq, defaultMaxCacheTtl, maxCacheTtlLimit, second]
  (repeat' split) <;> omega

/-- non-vacuity and the other side: outside the range the int64 product wraps (D41/D42's family) and the model
    follows Go, not ℤ -/
example : initMaxTtl 9223372037 ≠ Translated.c08_initMaxTtl 0 9223372037 := by decide
example : initMaxTtl 7 = Translated.c08_initMaxTtl 12345 7 := by decide

/-! ### cacheCtl.Store: `msgRrMinTtl := time.Duration(u) * time.Second`, `negativeResp := …` -/

/-- ★ tie: the duration of the smallest record TTL. `u` is a uint32, so the int64 product cannot wrap: no range
    hypothesis is needed beyond the type. -/
theorem c08_minDur_translated (u : UInt32) : durOfSeconds u = Translated.c08_minDur (u.toNat : Int) := by
  have h := u.toNat_lt
  unfold durOfSeconds wrap64 second Translated.c08_minDur
  simp only [Id.run, id_pure_int]
  omega

/-- ★ tie: which responses are stored set-if-absent -/
theorem c08_negativeResp_translated (rcode : Nat) : negativeResp rcode = Translated.c08_negativeResp rcode := by
  unfold negativeResp Translated.c08_negativeResp
  simp only [Id.run, id_pure_bool]
  by_cases h : rcode = 0 <;> simp [h]

/-- ★ tie: AsyncStore drops a SET whose relative ttl is `ttlMs <= 10` (all theorems of this file live in one
    namespace: the audit resolves names per file) -/
theorem c08_redisTtlTooShort_translated (ttlMs : Int) :
    RedisCache.redisTtlTooShort ttlMs = Translated.c08_redisTtlTooShort ttlMs := by
  unfold RedisCache.redisTtlTooShort Translated.c08_redisTtlTooShort; grind

/-! ### internal/dnsutils/msg_ttl.go: one iteration of each loop (uint32 arithmetic) -/

/-- ★ tie: the body of GetMinimalTTL's inner loop (`if hdr.Type == TypeOPT { continue }; hasRecord = true;
    if ttl := hdr.TTL; ttl < minTTL { minTTL = ttl }`) as a function of (minTTL, hasRecord) IS `minStep`, on both
    variables, for every record and every uint32 accumulator. -/
theorem c08_minStep_translated (acc : UInt32 × Bool) (rr : RR) :
    (minStep acc rr).1.toNat = Translated.c08_minStep_min rr.typ rr.ttl.toNat acc.1.toNat acc.2 ∧
    (minStep acc rr).2 = Translated.c08_minStep_has rr.typ rr.ttl.toNat acc.1.toNat acc.2 := by
  unfold minStep Translated.c08_minStep_min Translated.c08_minStep_has
  simp only [Id.run, id_pure_any, typeOPT, GT.gt, UInt32.lt_iff_toNat_lt]
  by_cases h : rr.typ = 41
  · simp [h]
  · by_cases h2 : rr.ttl.toNat < acc.1.toNat <;> simp [h, h2] <;> omega

/-- ★ tie: the body of SubtractTTL's inner loop IS `subRR`. The model subtracts in `UInt32` (wraps exactly as Go's
    `hdr.TTL -= delta`), the translation in ℕ (truncated): they agree for ALL uint32 values because the subtraction
    is guarded by `hdr.TTL > delta` — drop or weaken the guard in the source and this theorem fails (D41/D42's family:
    a wrapped TTL). The type `UInt32` is the range hypothesis. -/
theorem c08_subRR_translated (d : UInt32) (rr : RR) :
    (subRR d rr).ttl.toNat = Translated.c08_subRR_ttl rr.typ rr.ttl.toNat d.toNat ∧ (subRR d rr).typ = rr.typ := by
  unfold subRR Translated.c08_subRR_ttl
  simp only [Id.run, id_pure_any, typeOPT, GT.gt, UInt32.lt_iff_toNat_lt]
  by_cases h : rr.typ = 41
  · simp [h]
  · by_cases h2 : d.toNat < rr.ttl.toNat
    · have : d ≤ rr.ttl := by rw [UInt32.le_iff_toNat_le]; omega
      simp [h, h2, UInt32.toNat_sub_of_le _ _ this] <;> omega
    · simp [h, h2] <;> omega

/-! ### instants: `expireTime := now.Add(ttl)`, `time.Until(expireTime)`, AsyncStore's `ttlMs`

  Translated with the translator's arithmetic reading of time.Time / time.Duration (spec option `time`): instants
  and durations are integer nanoseconds, ℤ arithmetic. Go's Until/Sub saturate and Add wraps at ±2⁶³ ns (≈ 292
  years); lifetimes are at most ten years (`C08.lifetime_le_ten_years`), far inside. -/

/-- ★ tie: the expire time handed to the backends -/
theorem c08_expireAt_translated (now ttl : Int) : expireAt now ttl = Translated.c08_expireAt now ttl := by
  unfold expireAt Translated.c08_expireAt
  simp only [Id.run, id_pure_any] <;> omega

/-- ★ tie: MemoryCache.Store's relative ttl `time.Until(expireTime)` -/
theorem c08_memUntil_translated (expire now : Int) : timeUntil expire now = Translated.c08_memUntil expire now := by
  unfold timeUntil Translated.c08_memUntil
  simp only [Id.run, id_pure_any] <;> omega

/-- ★ tie: AsyncStore's `ttlMs := time.Until(expireTime).Milliseconds()` (division truncating toward zero) -/
theorem c08_redisTtlMs_translated (expire now : Int) :
    RedisCache.redisTtlMs expire now = Translated.c08_redisTtlMs expire now := by
  unfold RedisCache.redisTtlMs timeUntil Translated.c08_redisTtlMs
  simp only [Id.run, id_pure_any]

end MosVerif.Ttl
