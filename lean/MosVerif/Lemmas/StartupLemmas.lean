/-
  C18 — helper lemmas about the start-up / shutdown model (Model/Startup.lean).
-/
import MosVerif.Model.Startup
namespace MosVerif.Startup

/-! ### closeImpl, piece by piece -/

theorem filter_notin_cons (u : Nat) (rest l : List Nat) :
    List.filter (fun i => !rest.contains i) (List.filter (fun x => x != u) l)
      = List.filter (fun i => !(u :: rest).contains i) l := by
  rw [List.filter_filter]
  apply List.filter_congr
  intro x _
  by_cases h : x = u <;> simp [h]

theorem closeUpstreams_eq (us : List Nat) (w : World) :
    closeUpstreams us w =
      { w with acts := w.acts ++ us.map Act.upClose, live := w.live.filter (fun i => !us.contains i) } := by
  induction us generalizing w with
  | nil =>
    cases w
    simp only [closeUpstreams, List.contains_nil, Bool.not_false, List.map_nil, List.append_nil]
    congr 1
    exact (List.filter_eq_self.mpr (by simp)).symm
  | cons u rest ih =>
    simp only [closeUpstreams, ih, filter_notin_cons]
    simp

theorem runClosers_some (cs : List Nat) (w : World) :
    runClosers (cs.map some) w =
      { w with acts := w.acts ++ cs.map Act.srvClose, live := w.live.filter (fun i => !cs.contains i) } := by
  induction cs generalizing w with
  | nil =>
    cases w
    simp only [runClosers, List.map_nil, List.contains_nil, Bool.not_false, List.append_nil]
    congr 1
    exact (List.filter_eq_self.mpr (by simp)).symm
  | cons c rest ih =>
    simp only [List.map_cons, runClosers, ih, filter_notin_cons]
    simp

/-- what an all-successful prefix leaves behind -/
def upstreamIds : Nat → List Item → List Nat
  | _, [] => []
  | id, it :: rest => if it.kind = .upstream then id :: upstreamIds (id + 1) rest else upstreamIds (id + 1) rest

def listenerIds : Nat → List Item → List Nat
  | _, [] => []
  | id, it :: rest =>
    if it.kind = .metrics ∨ it.kind = .server then id :: listenerIds (id + 1) rest else listenerIds (id + 1) rest

def cacheId : Nat → List Item → Option Nat → Option Nat
  | _, [], c => c
  | id, it :: rest, c => if it.kind = .cache then cacheId (id + 1) rest (some id) else cacheId (id + 1) rest c

/-- ids of the items of an all-successful prefix that own a socket, in start order -/
def sockIds : Nat → List Item → List Nat
  | _, [] => []
  | id, it :: rest =>
    if it.kind = .metrics ∨ it.kind = .server ∨ (it.kind = .upstream ∧ it.sock = true)
    then id :: sockIds (id + 1) rest else sockIds (id + 1) rest

theorem sockIds_sub (id : Nat) (items : List Item) :
    ∀ i ∈ sockIds id items, i ∈ upstreamIds id items ∨ i ∈ listenerIds id items := by
  induction items generalizing id with
  | nil => simp [sockIds]
  | cons it rest ih =>
    intro i hi
    simp only [sockIds] at hi
    cases hk : it.kind <;> simp [hk, upstreamIds, listenerIds] at hi ⊢
    all_goals
      first
      | (rcases hi with rfl | hi
         · simp
         · rcases ih _ _ hi with h | h <;> simp [h])
      | (split at hi
         · rcases List.mem_cons.mp hi with rfl | hi
           · simp
           · rcases ih _ _ hi with h | h <;> simp [h]
         · rcases ih _ _ hi with h | h <;> simp [h])
      | (rcases ih _ _ hi with h | h <;> simp [h])

/-- the state after a prefix whose items all initialise -/
theorem runFrom_prefix (pre rest : List Item) (hpre : ∀ x ∈ pre, x.ok = true)
    (id : Nat) (r : Router) (w : World) (att : List Nat) :
    runFrom id (pre ++ rest) r w att =
      runFrom (id + pre.length) rest
        { r with upstreams := r.upstreams ++ upstreamIds id pre
                 cache := cacheId id pre r.cache
                 closers := r.closers ++ (listenerIds id pre).map some }
        { w with live := w.live ++ sockIds id pre }
        (att ++ (List.range pre.length).map (id + ·)) := by
  induction pre generalizing id r w att with
  | nil => simp [upstreamIds, cacheId, listenerIds, sockIds]
  | cons it pre ih =>
    have hok : it.ok = true := hpre it (by simp)
    have hpre' : ∀ x ∈ pre, x.ok = true := fun x hx => hpre x (by simp [hx])
    have hrange : (List.range (pre.length + 1)).map (id + ·)
        = id :: (List.range pre.length).map (id + 1 + ·) := by
      rw [List.range_succ_eq_map]
      simp [List.map_map, Function.comp_def, Nat.add_assoc, Nat.add_comm 1]
    simp only [List.cons_append, runFrom]
    cases hk : it.kind <;>
      simp [initItem, startServer, hok, hk, ih hpre', upstreamIds, cacheId, listenerIds, sockIds, hrange,
        Nat.add_assoc, Nat.add_comm 1] <;>
      (try split) <;> simp

theorem closeImpl_eq (ups : List Nat) (c : Option Nat) (ls : List Nat) (b : Bool) (w : World) :
    closeImpl ⟨ups, c, ls.map some, b⟩ w =
      { live := (w.live.filter (fun i => !ups.contains i)).filter (fun i => !ls.contains i)
        acts := w.acts ++ [.cancel, .limiterClose] ++ ups.map .upClose ++ c.toList.map .cacheClose ++ ls.map .srvClose
        panicked := w.panicked } := by
  cases c <;> simp [closeImpl, closeUpstreams_eq, runClosers_some]

/-- the state `run` has reached when every item of `pre` initialised -/
def afterPrefix (pre : List Item) : Router × World :=
  ({ upstreams := upstreamIds 0 pre, cache := cacheId 0 pre none, closers := (listenerIds 0 pre).map some },
   { live := sockIds 0 pre })

theorem initItem_fail (id : Nat) (it : Item) (r : Router) (w : World) (h : it.ok = false) :
    initItem id it r w = none := by
  cases hk : it.kind <;> simp [initItem, startServer, h, hk]

theorem run_failure (pre post : List Item) (it : Item)
    (hpre : ∀ x ∈ pre, x.ok = true) (hit : it.ok = false) :
    run (pre ++ it :: post) =
      ⟨true, { (afterPrefix pre).1 with closeDone := true },
        closeImpl (afterPrefix pre).1 (afterPrefix pre).2, List.range (pre.length + 1)⟩ := by
  unfold run
  rw [runFrom_prefix pre (it :: post) hpre]
  simp [runFrom, initItem_fail _ _ _ _ hit, close, afterPrefix, List.range_succ]

theorem live_after_close (pre : List Item) :
    (closeImpl (afterPrefix pre).1 (afterPrefix pre).2).live = [] := by
  simp only [afterPrefix, closeImpl_eq, List.filter_filter]
  apply List.filter_eq_nil_iff.mpr
  intro i hi
  rcases sockIds_sub 0 pre i hi with h | h <;> simp [h]

theorem run_success (cfg : List Item) (h : ∀ x ∈ cfg, x.ok = true) :
    run cfg = ⟨false, (afterPrefix cfg).1, (afterPrefix cfg).2, List.range cfg.length⟩ := by
  have := runFrom_prefix cfg [] h 0 {} {} []
  simp only [List.append_nil] at this
  unfold run
  rw [this]
  simp [runFrom, afterPrefix]

/-- either every item initialises, or there is a first one that does not -/
theorem split_first_fail (cfg : List Item) :
    (∀ x ∈ cfg, x.ok = true) ∨
    ∃ pre it post, cfg = pre ++ it :: post ∧ (∀ x ∈ pre, x.ok = true) ∧ it.ok = false := by
  induction cfg with
  | nil => left; simp
  | cons a rest ih =>
    by_cases ha : a.ok = true
    · rcases ih with h | ⟨pre, it, post, rfl, hp, hi⟩
      · left
        intro x hx
        rcases List.mem_cons.mp hx with rfl | hx
        · exact ha
        · exact h x hx
      · right
        refine ⟨a :: pre, it, post, by simp, ?_, hi⟩
        intro x hx
        rcases List.mem_cons.mp hx with rfl | hx
        · exact ha
        · exact hp x hx
    · right
      exact ⟨[], a, rest, by simp, by simp, by simpa using ha⟩

theorem close_closed (r : Router) (w : World) (h : r.closeDone = true) : close r w = (r, w) := by
  simp [close, h]

theorem closeN_closed (n : Nat) (r : Router) (w : World) (h : r.closeDone = true) :
    closeN n r w = (r, w) := by
  induction n with
  | zero => rfl
  | succ n ih => simp [closeN, close_closed r w h, ih]

end MosVerif.Startup

