/-
  C18 — helper lemmas about the start-up / shutdown model (Model/Startup.lean).
-/
import MosVerif.Model.Startup
namespace MosVerif.Startup

/-! ### closeImpl, piece by piece -/

theorem filter_notin_cons (u : Nat) (rest l : List Nat) :
    List.filter (fun i => !rest.contains i) (List.filter (fun x => x != u) l)
      = List.filter (fun i => !(u :: rest).contains i) l := by
  rw [List.filter_filter]
  apply List.filter_congr
  intro x _
  by_cases h : x = u <;> simp [h]

theorem closeUpstreams_eq (us : List Nat) (w : World) :
    closeUpstreams us w =
      { w with acts := w.acts ++ us.map Act.upClose, live := w.live.filter (fun i => !us.contains i) } := by
  induction us generalizing w with
  | nil =>
    cases w
    simp only [closeUpstreams, List.contains_nil, Bool.not_false, List.map_nil, List.append_nil]
    congr 1
    exact (List.filter_eq_self.mpr (by simp)).symm
  | cons u rest ih =>
    simp only [closeUpstreams, ih, filter_notin_cons]
    simp

theorem runClosers_some (cs : List Nat) (w : World) :
    runClosers (cs.map some) w =
      { w with acts := w.acts ++ cs.map Act.srvClose, live := w.live.filter (fun i => !cs.contains i) } := by
  induction cs generalizing w with
  | nil =>
    cases w
    simp only [runClosers, List.map_nil, List.contains_nil, Bool.not_false, List.append_nil]
    congr 1
    exact (List.filter_eq_self.mpr (by simp)).symm
  | cons c rest ih =>
    simp only [List.map_cons, runClosers, ih, filter_notin_cons]
    simp

theorem closeBackends_eq (bs : List Nat) (w : World) :
    closeBackends bs w =
      { w with acts := w.acts ++ bs.map Act.cacheClose, live := w.live.filter (fun i => !bs.contains i) } := by
  induction bs generalizing w with
  | nil =>
    cases w
    simp only [closeBackends, List.contains_nil, Bool.not_false, List.map_nil, List.append_nil]
    congr 1
    exact (List.filter_eq_self.mpr (by simp)).symm
  | cons u rest ih =>
    simp only [closeBackends, ih, filter_notin_cons]
    simp

/-- what an all-successful prefix leaves behind -/
def upstreamIds : Nat → List Item → List Nat
  | _, [] => []
  | id, it :: rest => if it.kind = .upstream then id :: upstreamIds (id + 1) rest else upstreamIds (id + 1) rest

def listenerIds : Nat → List Item → List Nat
  | _, [] => []
  | id, it :: rest =>
    if it.kind = .metrics ∨ it.kind = .server then id :: listenerIds (id + 1) rest else listenerIds (id + 1) rest

/-- ids of the cache backends (memory cache, redis) of an all-successful prefix -/
def backendIds : Nat → List Item → List Nat
  | _, [] => []
  | id, it :: rest =>
    if it.kind = .memCache ∨ it.kind = .redisCache then id :: backendIds (id + 1) rest
    else backendIds (id + 1) rest

/-- (`initCache`'s local backends, `r.cache`) after an all-successful prefix -/
def cacheAfter : Nat → List Item → List Nat × Option (List Nat) → List Nat × Option (List Nat)
  | _, [], st => st
  | id, it :: rest, st =>
    if it.kind = .memCache ∨ it.kind = .redisCache then cacheAfter (id + 1) rest (st.1 ++ [id], st.2)
    else if it.kind = .cacheDone then cacheAfter (id + 1) rest ([], some (st.2.getD [] ++ st.1))
    else cacheAfter (id + 1) rest st

/-- ids of the items of an all-successful prefix that own a resource (socket, goroutines), in start order -/
def resIds : Nat → List Item → List Nat
  | _, [] => []
  | id, it :: rest =>
    if it.kind = .metrics ∨ it.kind = .server ∨ (it.kind = .upstream ∧ it.sock = true) ∨
       it.kind = .memCache ∨ it.kind = .redisCache
    then id :: resIds (id + 1) rest else resIds (id + 1) rest

theorem resIds_sub (id : Nat) (items : List Item) :
    ∀ i ∈ resIds id items,
      i ∈ upstreamIds id items ∨ i ∈ listenerIds id items ∨ i ∈ backendIds id items := by
  induction items generalizing id with
  | nil => simp [resIds]
  | cons it rest ih =>
    intro i hi
    simp only [resIds] at hi
    have hrec : ∀ i ∈ resIds (id + 1) rest,
        i ∈ upstreamIds id (it :: rest) ∨ i ∈ listenerIds id (it :: rest) ∨ i ∈ backendIds id (it :: rest) := by
      intro j hj
      rcases ih (id + 1) j hj with h | h | h
      · left; simp only [upstreamIds]; split <;> simp [h]
      · right; left; simp only [listenerIds]; split <;> simp [h]
      · right; right; simp only [backendIds]; split <;> simp [h]
    split at hi
    · rcases List.mem_cons.mp hi with rfl | hi
      · rename_i hc
        rcases hc with hc | hc | hc | hc | hc
        · right; left; simp [listenerIds, hc]
        · right; left; simp [listenerIds, hc]
        · left; simp [upstreamIds, hc.1]
        · right; right; simp [backendIds, hc]
        · right; right; simp [backendIds, hc]
      · exact hrec i hi
    · exact hrec i hi

/-- no backend is ever forgotten: what `r.cache` owns plus what `initCache` holds locally are exactly the
    backends started so far -/
theorem cacheAfter_all (id : Nat) (items : List Item) (st : List Nat × Option (List Nat)) :
    (cacheAfter id items st).2.getD [] ++ (cacheAfter id items st).1
      = st.2.getD [] ++ st.1 ++ backendIds id items := by
  induction items generalizing id st with
  | nil => simp [cacheAfter, backendIds]
  | cons it rest ih =>
    simp only [cacheAfter, backendIds]
    split
    · rw [ih]; simp
    · split
      · rw [ih]; simp
      · rw [ih]

/-- the automaton state of `stagedFrom` after a prefix -/
def inAfter : Bool → List Item → Bool
  | b, [] => b
  | b, it :: rest =>
    if it.kind = .memCache ∨ it.kind = .redisCache ∨ it.kind = .ipMarker then inAfter true rest
    else inAfter false rest

theorem staged_prefix (pre rest : List Item) (b : Bool) (st : List Nat × Option (List Nat)) (id : Nat)
    (hst : stagedFrom b (pre ++ rest) = true) (hb : b = false → st.1 = []) :
    stagedFrom (inAfter b pre) rest = true ∧
      (inAfter b pre = false → (cacheAfter id pre st).1 = []) := by
  induction pre generalizing b st id with
  | nil => exact ⟨hst, by simpa [inAfter, cacheAfter] using hb⟩
  | cons it pre ih =>
    simp only [List.cons_append, stagedFrom] at hst
    cases hk : it.kind <;> simp only [hk] at hst <;>
      simp only [inAfter, cacheAfter, hk, reduceCtorEq, or_false, false_or, or_true, true_or, if_true, if_false,
        or_self]
    all_goals
      first
      | (simp only [Bool.and_eq_true, Bool.not_eq_true'] at hst
         exact ih false _ _ hst.2 (fun _ => by first | exact hb hst.1 | rfl))
      | exact ih true _ _ hst (fun h => by simp at h)
      | (simp only [Bool.and_eq_true, Bool.not_eq_true'] at hst
         exact ih true _ _ hst.2 (fun h => by simp at h))
      | exact ih false _ _ hst (fun _ => rfl)

/-- the state after a prefix whose items all initialise -/
theorem runFrom_prefix (pre rest : List Item) (hpre : ∀ x ∈ pre, x.ok = true)
    (id : Nat) (r : Router) (w : World) (att : List Nat) :
    runFrom id (pre ++ rest) r w att =
      runFrom (id + pre.length) rest
        { r with upstreams := r.upstreams ++ upstreamIds id pre
                 cacheLocal := (cacheAfter id pre (r.cacheLocal, r.cache)).1
                 cache := (cacheAfter id pre (r.cacheLocal, r.cache)).2
                 closers := r.closers ++ (listenerIds id pre).map some }
        { w with live := w.live ++ resIds id pre }
        (att ++ (List.range pre.length).map (id + ·)) := by
  induction pre generalizing id r w att with
  | nil => simp [upstreamIds, cacheAfter, listenerIds, resIds]
  | cons it pre ih =>
    have hok : it.ok = true := hpre it (by simp)
    have hpre' : ∀ x ∈ pre, x.ok = true := fun x hx => hpre x (by simp [hx])
    have hrange : (List.range (pre.length + 1)).map (id + ·)
        = id :: (List.range pre.length).map (id + 1 + ·) := by
      rw [List.range_succ_eq_map]
      simp [List.map_map, Function.comp_def, Nat.add_assoc, Nat.add_comm 1]
    simp only [List.cons_append, runFrom]
    cases hk : it.kind <;>
      simp [initItem, startServer, hok, hk, ih hpre', upstreamIds, cacheAfter, listenerIds, resIds, hrange,
        Nat.add_assoc, Nat.add_comm 1] <;>
      (try split) <;> simp

theorem closeImpl_eq (ups loc : List Nat) (c : Option (List Nat)) (ls : List Nat) (b : Bool) (w : World) :
    closeImpl ⟨ups, loc, c, ls.map some, b⟩ w =
      { live := ((w.live.filter (fun i => !ups.contains i)).filter (fun i => !(c.getD []).contains i)).filter
                  (fun i => !ls.contains i)
        acts := w.acts ++ [.cancel, .limiterClose] ++ ups.map .upClose ++ (c.getD []).map .cacheClose
                  ++ ls.map .srvClose
        panicked := w.panicked } := by
  cases c with
  | none =>
    simp only [closeImpl, closeUpstreams_eq, runClosers_some, Option.getD_none, List.contains_nil,
      Bool.not_false, List.map_nil, List.append_nil]
    congr 1
    simp
  | some bs => simp [closeImpl, closeUpstreams_eq, runClosers_some, closeBackends_eq]

/-- the state `run` has reached when every item of `pre` initialised -/
def afterPrefix (pre : List Item) : Router × World :=
  ({ upstreams := upstreamIds 0 pre
     cacheLocal := (cacheAfter 0 pre ([], none)).1
     cache := (cacheAfter 0 pre ([], none)).2
     closers := (listenerIds 0 pre).map some },
   { live := resIds 0 pre })

theorem initItem_fail (id : Nat) (it : Item) (r : Router) (w : World) (h : it.ok = false) :
    initItem id it r w = none := by
  cases hk : it.kind <;> simp [initItem, startServer, h, hk]

/-- the state in which the deferred `close` runs after the failure of `it` -/
def failState (pre : List Item) (it : Item) : Router × World :=
  failCleanup it (afterPrefix pre).1 (afterPrefix pre).2

theorem run_failure (pre post : List Item) (it : Item)
    (hpre : ∀ x ∈ pre, x.ok = true) (hit : it.ok = false) :
    run (pre ++ it :: post) =
      ⟨true, { (failState pre it).1 with closeDone := true },
        closeImpl (failState pre it).1 (failState pre it).2, List.range (pre.length + 1)⟩ := by
  have hcd : (failState pre it).1.closeDone = false := by
    simp only [failState, failCleanup, afterPrefix]
    split <;> rfl
  unfold run
  rw [runFrom_prefix pre (it :: post) hpre]
  simp only [runFrom, initItem_fail _ _ _ _ hit, Nat.zero_add, List.nil_append, List.append_nil]
  have : ({ upstreams := ([] : List Nat) ++ upstreamIds 0 pre
            cacheLocal := (cacheAfter 0 pre (([] : List Nat), none)).1
            cache := (cacheAfter 0 pre (([] : List Nat), none)).2
            closers := ([] : List (Option Nat)) ++ (listenerIds 0 pre).map some } : Router)
      = (afterPrefix pre).1 := by simp [afterPrefix]
  simp only [failState, afterPrefix, List.nil_append] at hcd ⊢
  simp [close, hcd, List.range_succ]

/-- whether the failing item's error path releases `initCache`'s local backends -/
def releasesLocal (k : Kind) : Bool := k == .redisCache || k == .ipMarker || k == .cacheDone

theorem live_after_fail (pre : List Item) (it : Item)
    (hloc : releasesLocal it.kind = true ∨ (afterPrefix pre).1.cacheLocal = []) :
    (closeImpl (failState pre it).1 (failState pre it).2).live = [] := by
  have hall := cacheAfter_all 0 pre ([], none)
  simp only [Option.getD_none, List.append_nil, List.nil_append] at hall
  have hmem : ∀ i ∈ resIds 0 pre,
      i ∈ upstreamIds 0 pre ∨ i ∈ listenerIds 0 pre ∨
        i ∈ (cacheAfter 0 pre ([], none)).2.getD [] ∨ i ∈ (cacheAfter 0 pre ([], none)).1 := by
    intro i hi
    rcases resIds_sub 0 pre i hi with h | h | h
    · exact Or.inl h
    · exact Or.inr (Or.inl h)
    · rw [← hall] at h
      rcases List.mem_append.mp h with h | h
      · exact Or.inr (Or.inr (Or.inl h))
      · exact Or.inr (Or.inr (Or.inr h))
  by_cases hrel : releasesLocal it.kind = true
  · have hfc : failCleanup it (afterPrefix pre).1 (afterPrefix pre).2 =
        ({ (afterPrefix pre).1 with cacheLocal := [] },
          closeBackends (afterPrefix pre).1.cacheLocal (afterPrefix pre).2) := by
      cases hk : it.kind <;> simp [releasesLocal, hk] at hrel <;> simp [failCleanup, hk]
    unfold failState
    rw [hfc]
    simp only [afterPrefix, closeImpl_eq, closeBackends_eq, List.filter_filter]
    apply List.filter_eq_nil_iff.mpr
    intro i hi
    rcases hmem i hi with h | h | h | h <;> simp [h]
  · have hloc' : (afterPrefix pre).1.cacheLocal = [] := by
      rcases hloc with h | h
      · exact absurd h hrel
      · exact h
    have hfc : failCleanup it (afterPrefix pre).1 (afterPrefix pre).2 = (afterPrefix pre) := by
      cases hk : it.kind <;> simp [releasesLocal, hk] at hrel <;> simp [failCleanup, hk]
    simp only [afterPrefix] at hloc'
    unfold failState
    rw [hfc]
    simp only [afterPrefix, closeImpl_eq, List.filter_filter]
    apply List.filter_eq_nil_iff.mpr
    intro i hi
    rcases hmem i hi with h | h | h | h
    · simp [h]
    · simp [h]
    · simp [h]
    · rw [hloc'] at h; simp at h

/-- in a staged configuration the precondition of `live_after_fail` holds at every failing position -/
theorem staged_local (pre post : List Item) (it : Item) (hst : staged (pre ++ it :: post) = true) :
    releasesLocal it.kind = true ∨ (afterPrefix pre).1.cacheLocal = [] := by
  obtain ⟨h1, h2⟩ := staged_prefix pre (it :: post) false ([], none) 0 (by simpa [staged] using hst) (fun _ => rfl)
  by_cases hb : inAfter false pre = false
  · right; simpa [afterPrefix] using h2 hb
  · have hb' : inAfter false pre = true := by simpa using hb
    rw [hb'] at h1
    simp only [stagedFrom] at h1
    cases hk : it.kind <;> simp [hk] at h1 <;> simp [releasesLocal, hk]

theorem staged_end (cfg : List Item) (hst : staged cfg = true) : (afterPrefix cfg).1.cacheLocal = [] := by
  have h := staged_prefix cfg [] false ([], none) 0 (by simpa [staged] using hst) (fun _ => rfl)
  obtain ⟨h1, h2⟩ := h
  simp only [stagedFrom, Bool.not_eq_true'] at h1
  simpa [afterPrefix] using h2 h1

theorem live_after_close (cfg : List Item) (hst : staged cfg = true) :
    (closeImpl (afterPrefix cfg).1 (afterPrefix cfg).2).live = [] := by
  have h := live_after_fail cfg ⟨.server, false, true⟩ (Or.inr (staged_end cfg hst))
  simpa [failState, failCleanup] using h

theorem run_success (cfg : List Item) (h : ∀ x ∈ cfg, x.ok = true) :
    run cfg = ⟨false, (afterPrefix cfg).1, (afterPrefix cfg).2, List.range cfg.length⟩ := by
  have := runFrom_prefix cfg [] h 0 {} {} []
  simp only [List.append_nil] at this
  unfold run
  rw [this]
  simp [runFrom, afterPrefix]

/-- either every item initialises, or there is a first one that does not -/
theorem split_first_fail (cfg : List Item) :
    (∀ x ∈ cfg, x.ok = true) ∨
    ∃ pre it post, cfg = pre ++ it :: post ∧ (∀ x ∈ pre, x.ok = true) ∧ it.ok = false := by
  induction cfg with
  | nil => left; simp
  | cons a rest ih =>
    by_cases ha : a.ok = true
    · rcases ih with h | ⟨pre, it, post, rfl, hp, hi⟩
      · left
        intro x hx
        rcases List.mem_cons.mp hx with rfl | hx
        · exact ha
        · exact h x hx
      · right
        refine ⟨a :: pre, it, post, by simp, ?_, hi⟩
        intro x hx
        rcases List.mem_cons.mp hx with rfl | hx
        · exact ha
        · exact hp x hx
    · right
      exact ⟨[], a, rest, by simp, by simp, by simpa using ha⟩

theorem close_closed (r : Router) (w : World) (h : r.closeDone = true) : close r w = (r, w) := by
  simp [close, h]

theorem closeN_closed (n : Nat) (r : Router) (w : World) (h : r.closeDone = true) :
    closeN n r w = (r, w) := by
  induction n with
  | zero => rfl
  | succ n ih => simp [closeN, close_closed r w h, ih]

end MosVerif.Startup

