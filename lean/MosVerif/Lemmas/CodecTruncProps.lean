/-
  Codec lemmas, part 10 (C09): consequences of `packMsg_kept` for well-formed messages:
  the retained sub-message is well formed and is what the output decodes to; size bound;
  nothing is dropped when the message fits; the question survives under the budget hypothesis.
-/
import MosVerif.Lemmas.CodecTruncMsg
namespace MosVerif.Wire

/-- shape of `keptMsg` and of the output when `Msg.Pack` succeeds -/
theorem packMsg_ok_shape (m : Msg) (c : Bool) (size cap : Nat) (hcnt : countsOK m) (out : Bytes)
    (h : packMsg m c size cap = .ok out) :
    ∃ s1 kq s2 ka s3 kn s4 kx s5,
      packQuestionsLoop (limitOf m size) m.questions (initState c) = .ok (s1, kq) ∧
      packResourcesLoop (limitOf m size) m.answers s1 = .ok (s2, ka) ∧
      packResourcesLoop (limitOf m size) m.authorities s2 = .ok (s3, kn) ∧
      packResourcesLoop (limitOf m size) (popped m size).2 s3 = .ok (s4, kx) ∧
      packResourcesLoop none (popped m size).1.toList s4 = .ok (s5, 0) ∧
      out.length = 12 + s5.body.length ∧ 12 ≤ cap ∧
      keptMsg m c size =
        { hdr := { m.hdr with truncated := m.hdr.truncated || decide (kq + ka + kn + kx > 0) }
          questions := keptQ (limitOf m size) m.questions (initState c)
          answers := keptR (limitOf m size) m.answers s1
          authorities := keptR (limitOf m size) m.authorities s2
          additionals := keptR (limitOf m size) (popped m size).2 s3 ++ (popped m size).1.toList } ∧
      kq + (keptQ (limitOf m size) m.questions (initState c)).length = m.questions.length ∧
      ka + (keptR (limitOf m size) m.answers s1).length = m.answers.length ∧
      kn + (keptR (limitOf m size) m.authorities s2).length = m.authorities.length ∧
      kx + (keptR (limitOf m size) (popped m size).2 s3).length = (popped m size).2.length := by
  have hcap : 12 ≤ cap := by
    unfold packMsg at h
    split at h
    · simp at h
    · simp only at h
      split at h
      · simp at h
      · omega
  obtain ⟨s1, kq, s2, ka, s3, kn, s4, kx, s5, h1, h2, h3, h4, h5, hout, hlen⟩ :=
    packMsg_ok_inv m c size cap hcnt hcap out h
  refine ⟨s1, kq, s2, ka, s3, kn, s4, kx, s5, h1, h2, h3, h4, h5, ?_, hcap, ?_,
    (packQuestionsLoop_kept _ _ _ _ _ h1).2, (packResourcesLoop_kept _ _ _ _ _ h2).2,
    (packResourcesLoop_kept _ _ _ _ _ h3).2, (packResourcesLoop_kept _ _ _ _ _ h4).2⟩
  · rw [hout, List.length_append, hdrBytes_length]
  · simp only [keptMsg, h1, h2, h3, h4]

theorem popped_mem (m : Msg) (size : Nat) :
    (∀ x ∈ (popped m size).2, x ∈ m.additionals) ∧ (∀ o, (popped m size).1 = some o → o ∈ m.additionals ∧ o.rtype = typeOPT) := by
  unfold popped
  split
  · rcases popEDNS0_spec m.additionals with h | ⟨o, rs', h, ht, hm, _, hs, _⟩
    · rw [h]; exact ⟨fun x hx => hx, fun o ho => by simp at ho⟩
    · rw [h]
      refine ⟨hs, fun o' ho' => ?_⟩
      simp only [Option.some.injEq] at ho'
      subst ho'; exact ⟨hm, ht⟩
  · exact ⟨fun x hx => hx, fun o ho => by simp at ho⟩

theorem popped_sum (m : Msg) (size : Nat) (f : Resource → Nat) :
    ((popped m size).2.map f).sum + ((popped m size).1.toList.map f).sum = (m.additionals.map f).sum := by
  unfold popped
  split
  · rcases popEDNS0_spec m.additionals with h | ⟨o, rs', h, _, _, _, _, hsum⟩
    · rw [h]; simp
    · rw [h]; simp only [Option.toList_some, List.map_cons, List.map_nil, List.sum_cons, List.sum_nil]
      have := hsum f; omega
  · simp

/-- the retained sub-message of a well-formed message is well formed -/
theorem keptMsg_wf (m : Msg) (c : Bool) (size : Nat) (hm : msgWF m = true) : msgWF (keptMsg m c size) = true := by
  obtain ⟨⟨hid, hop, hrc⟩, hq, ha, hn, hx, cq, ca, cn, cx⟩ := msgWF_parts hm
  unfold keptMsg
  split
  · rename_i s1 kq h1
    split
    · rename_i s2 ka h2
      split
      · rename_i s3 kn h3
        split
        · rename_i s4 kx h4
          have hpl := popped_length m size
          obtain ⟨hpm, hpo⟩ := popped_mem m size
          have l1 := (keptQ_sublist (limitOf m size) m.questions (initState c))
          have l2 := (keptR_sublist (limitOf m size) m.answers s1)
          have l3 := (keptR_sublist (limitOf m size) m.authorities s2)
          have l4 := (keptR_sublist (limitOf m size) (popped m size).2 s3)
          have n1 := l1.length_le; have n2 := l2.length_le; have n3 := l3.length_le; have n4 := l4.length_le
          simp only [msgWF, headerWF, u16, Bool.and_eq_true, decide_eq_true_eq, List.all_eq_true, List.length_append]
          refine ⟨⟨⟨⟨⟨⟨⟨⟨⟨⟨hid, hop⟩, hrc⟩, ?_⟩, ?_⟩, ?_⟩, ?_⟩, by omega⟩, by omega⟩, by omega⟩, by omega⟩
          · exact fun x hx => hq x (l1.subset hx)
          · exact fun x hx => ha x (l2.subset hx)
          · exact fun x hx => hn x (l3.subset hx)
          · intro x hmem
            rw [List.mem_append] at hmem
            rcases hmem with hmem | hmem
            · exact hx x (hpm x (l4.subset hmem))
            · cases ho : (popped m size).1 with
              | none => rw [ho] at hmem; simp at hmem
              | some o =>
                rw [ho] at hmem
                simp only [Option.toList_some, List.mem_singleton] at hmem
                subst hmem
                exact hx x (hpo x ho).1
        · exact hm
      · exact hm
    · exact hm
  · exact hm

/-! ### the output decodes to the retained sub-message -/

theorem packMsg_ok_counts {m : Msg} {c : Bool} {size cap : Nat} {out : Bytes} (h : packMsg m c size cap = .ok out) :
    countsOK m := by
  unfold packMsg at h
  split at h
  · simp at h
  · rename_i hc
    unfold countsOK; omega

/-- the capacity only decides between success and `ErrSmallBuffer`, never the bytes -/
theorem packMsg_cap_indep {m : Msg} {c : Bool} {size cap1 cap2 : Nat} {a b : Bytes}
    (h1 : packMsg m c size cap1 = .ok a) (h2 : packMsg m c size cap2 = .ok b) : a = b := by
  have hcnt := packMsg_ok_counts h1
  obtain ⟨s1, kq, s2, ka, s3, kn, s4, kx, s5, p1, p2, p3, p4, p5, _, hc1, _⟩ := packMsg_ok_shape m c size cap1 hcnt a h1
  obtain ⟨t1, jq, t2, ja, t3, jn, t4, jx, t5, q1, q2, q3, q4, q5, _, hc2, _⟩ := packMsg_ok_shape m c size cap2 hcnt b h2
  obtain ⟨_, _, _, _, _, _, _, _, _, r1, r2, r3, r4, r5, o1, _⟩ := packMsg_ok_inv m c size cap1 hcnt hc1 a h1
  obtain ⟨_, _, _, _, _, _, _, _, _, u1, u2, u3, u4, u5, o2, _⟩ := packMsg_ok_inv m c size cap2 hcnt hc2 b h2
  rw [r1] at u1; simp only [Res.ok.injEq, Prod.mk.injEq] at u1; obtain ⟨rfl, rfl⟩ := u1
  rw [r2] at u2; simp only [Res.ok.injEq, Prod.mk.injEq] at u2; obtain ⟨rfl, rfl⟩ := u2
  rw [r3] at u3; simp only [Res.ok.injEq, Prod.mk.injEq] at u3; obtain ⟨rfl, rfl⟩ := u3
  rw [r4] at u4; simp only [Res.ok.injEq, Prod.mk.injEq] at u4; obtain ⟨rfl, rfl⟩ := u4
  rw [r5] at u5; simp only [Res.ok.injEq, Prod.mk.injEq] at u5; obtain ⟨rfl, _⟩ := u5
  rw [o1, o2]

/-- A size-limited `Msg.Pack` of a well-formed message decodes — cleanly, counts matching what
    is present — to exactly the retained sub-message. -/
theorem packMsg_decodes (m : Msg) (c : Bool) (size cap : Nat) (hm : msgWF m = true) (out : Bytes)
    (h : packMsg m c size cap = .ok out) : unpackMsg out = .ok (keptMsg m c size) := by
  have hk := packMsg_kept m c size cap (packMsg_ok_counts h) out h
  obtain ⟨bs, hb, _, _, hdec, _⟩ := packMsg_roundtrip (keptMsg m c size) c (keptMsg_wf m c size hm)
  rw [packMsg_cap_indep hk hb]; exact hdec

/-! ### the budget -/

theorem minSize_eq : minSize = 512 := by decide

theorem effSize_pos_ge {size : Nat} (h : 0 < effSize size) : 512 ≤ effSize size := by
  unfold effSize at *
  rw [minSize_eq] at *
  split <;> rename_i hc
  · omega
  · rw [if_neg hc] at h; omega

theorem effSize_eq_max {size : Nat} (h : 0 < size) : effSize size = max 512 size := by
  unfold effSize
  rw [minSize_eq]
  split <;> omega

theorem limitOf_cases (m : Msg) (size : Nat) :
    (effSize size = 0 ∧ limitOf m size = none) ∨
    (0 < effSize size ∧ (popped m size).1 = none ∧ limitOf m size = some (effSize size)) ∨
    (0 < effSize size ∧ ∃ o, (popped m size).1 = some o ∧
      ((resourcePackLen o < effSize size ∧ limitOf m size = some (effSize size - resourcePackLen o)) ∨
       (effSize size ≤ resourcePackLen o ∧ limitOf m size = none))) := by
  by_cases h0 : effSize size > 0
  · right
    cases ho : (popped m size).1 with
    | none => left; exact ⟨h0, rfl, by simp [limitOf, h0, ho]⟩
    | some o =>
      right
      refine ⟨h0, o, rfl, ?_⟩
      by_cases hl : effSize size > resourcePackLen o
      · left; exact ⟨hl, by simp [limitOf, h0, ho, hl]⟩
      · right; exact ⟨by omega, by simp [limitOf, h0, ho, hl]⟩
  · left; exact ⟨by omega, by simp [limitOf, h0]⟩

theorem packQuestionsLoop_none_k (qs : List Question) : ∀ (s s' : PState) (k : Nat),
    packQuestionsLoop none qs s = .ok (s', k) → k = 0 := by
  induction qs with
  | nil => intro s s' k h; simp only [packQuestionsLoop, Res.ok.injEq, Prod.mk.injEq] at h; exact h.2.symm
  | cons q qs ih =>
    intro s s' k h
    rw [packQuestionsLoop_cons] at h
    simp only [skips, Bool.false_eq_true, if_false] at h
    obtain ⟨p, _, h2⟩ := Res.bind_eq_ok h
    exact ih _ _ _ h2

theorem packResourcesLoop_none_k (rs : List Resource) : ∀ (s s' : PState) (k : Nat),
    packResourcesLoop none rs s = .ok (s', k) → k = 0 := by
  induction rs with
  | nil => intro s s' k h; simp only [packResourcesLoop, Res.ok.injEq, Prod.mk.injEq] at h; exact h.2.symm
  | cons r rs ih =>
    intro s s' k h
    rw [packResourcesLoop_cons] at h
    simp only [skips, Bool.false_eq_true, if_false] at h
    obtain ⟨p, _, h2⟩ := Res.bind_eq_ok h
    exact ih _ _ _ h2

/-- bundle: the invariants of the four limited loops and of the final OPT, for a well-formed message -/
theorem packMsg_ok_wf (m : Msg) (c : Bool) (size cap : Nat) (hm : msgWF m = true) (out : Bytes)
    (h : packMsg m c size cap = .ok out) :
    ∃ kq ka kn kx : Nat, ∃ body4 : Bytes,
      (keptMsg m c size).hdr = { m.hdr with truncated := m.hdr.truncated || decide (kq + ka + kn + kx > 0) } ∧
      kq + (keptMsg m c size).questions.length = m.questions.length ∧
      ka + (keptMsg m c size).answers.length = m.answers.length ∧
      kn + (keptMsg m c size).authorities.length = m.authorities.length ∧
      kx + (keptMsg m c size).additionals.length = m.additionals.length ∧
      out.length ≤ 12 + body4.length + ((popped m size).1.toList.map resourcePackLen).sum ∧
      (∀ L, limitOf m size = some L → 12 + body4.length ≤ max L 12) ∧
      ((limitOf m size = none ∨ ∃ L, limitOf m size = some L ∧
          12 + (m.questions.map questionLen).sum + (m.answers.map resourcePackLen).sum
            + (m.authorities.map resourcePackLen).sum + ((popped m size).2.map resourcePackLen).sum ≤ L) →
        kq = 0 ∧ ka = 0 ∧ kn = 0 ∧ kx = 0) := by
  obtain ⟨⟨hid, hop, hrc⟩, hq, ha, hn, hx, cq, ca, cn, cx⟩ := msgWF_parts hm
  have hcnt := packMsg_ok_counts h
  obtain ⟨s1, kq, s2, ka, s3, kn, s4, kx, s5, h1, h2, h3, h4, h5, hlen, _, hk, l1, l2, l3, l4⟩ :=
    packMsg_ok_shape m c size cap hcnt out h
  obtain ⟨hpm, hpo⟩ := popped_mem m size
  have hpl := popped_length m size
  let H : Bytes := hdrBytes 0 0 0 0 0 0
  have hH : H.length = 12 := rfl
  obtain ⟨T1, B1, F1⟩ := packQuestionsLoop_wf H hH (limitOf m size) m.questions [] _ s1 kq hq
    (TableOK'.init _ c) h1
  obtain ⟨T2, B2, F2⟩ := packResourcesLoop_wf H hH (limitOf m size) m.answers s1.body s1.tbl s2 ka ha T1 h2
  obtain ⟨T3, B3, F3⟩ := packResourcesLoop_wf H hH (limitOf m size) m.authorities s2.body s2.tbl s3 kn hn T2 h3
  obtain ⟨T4, B4, F4⟩ := packResourcesLoop_wf H hH (limitOf m size) (popped m size).2 s3.body s3.tbl s4 kx
    (fun x hx' => hx x (hpm x hx')) T3 h4
  obtain ⟨b5, t5, hp5, hE5⟩ := packResourcesLoop_none_enc H hH (popped m size).1.toList s4.body s4.tbl
    (by
      intro x hx'
      cases ho : (popped m size).1 with
      | none => rw [ho] at hx'; simp at hx'
      | some o =>
        rw [ho] at hx'
        simp only [Option.toList_some, List.mem_singleton] at hx'
        subst hx'; exact hx x (hpo x ho).1) T4
  have hs5 : s5 = ⟨s4.body ++ b5, t5⟩ := by
    have : packResourcesLoop none (popped m size).1.toList s4 = .ok (⟨s4.body ++ b5, t5⟩, 0) := hp5
    rw [h5] at this
    simp only [Res.ok.injEq, Prod.mk.injEq] at this
    exact this.1
  have hle5 := hE5.le
  refine ⟨kq, ka, kn, kx, s4.body, ?_, ?_, ?_, ?_, ?_, ?_, ?_, ?_⟩
  · rw [hk]
  · rw [hk]; exact l1
  · rw [hk]; exact l2
  · rw [hk]; exact l3
  · rw [hk]; simp only [List.length_append]; omega
  · rw [hlen, hs5]; simp only [List.length_append]; omega
  · intro L hL
    have b1 := B1 L hL (by simp; omega)
    have b2 := B2 L hL b1
    have b3 := B3 L hL b2
    exact B4 L hL b3
  · intro hfit
    rcases hfit with hnone | ⟨L, hL, hsum⟩
    · rw [hnone] at h1 h2 h3 h4
      exact ⟨packQuestionsLoop_none_k _ _ _ _ h1, packResourcesLoop_none_k _ _ _ _ h2,
        packResourcesLoop_none_k _ _ _ _ h3, packResourcesLoop_none_k _ _ _ _ h4⟩
    · obtain ⟨k1, g1⟩ := F1 L hL (by simp only [List.length_nil]; omega)
      obtain ⟨k2, g2⟩ := F2 L hL (by simp only [List.length_nil] at g1; omega)
      obtain ⟨k3, g3⟩ := F3 L hL (by simp only [List.length_nil] at g1; omega)
      obtain ⟨k4, g4⟩ := F4 L hL (by simp only [List.length_nil] at g1; omega)
      exact ⟨k1, k2, k3, k4⟩

end MosVerif.Wire
