/-
  C05 — whatever the chunking and wherever reads fail, the read loop dispatches a prefix of the
  frames the server sent, and nothing any more after a read error.
-/
import MosVerif.Model.PipeFrame
namespace MosVerif.PipeFrame

theorem stream_append (a b : List Bytes) : stream (a ++ b) = stream a ++ stream b := by
  induction a with
  | nil => rfl
  | cons f fs ih => simp [stream, ih]

theorem stream_take_drop (k : Nat) (frames : List Bytes) :
    stream (frames.take k) ++ stream (frames.drop k) = stream frames := by
  rw [← stream_append, List.take_append_drop]

/-- reading a frame off a prefix of a frame stream yields the first frame and leaves a prefix of the rest -/
theorem readFrame_of_prefix {buf m rest : Bytes} {fs : List Bytes} (hp : buf <+: stream fs)
    (hr : readFrame buf = some (m, rest)) : ∃ fs', fs = m :: fs' ∧ rest <+: stream fs' ∧ buf = enc m ++ rest := by
  match buf, hr with
  | hi :: lo :: r0, hr =>
    simp only [readFrame] at hr
    split at hr
    · rename_i hle
      cases hr
      cases fs with
      | nil => simp [stream] at hp
      | cons f fs' =>
        simp only [stream, enc, List.cons_append] at hp
        rw [List.cons_prefix_cons] at hp
        obtain ⟨h1, hp⟩ := hp
        rw [List.cons_prefix_cons] at hp
        obtain ⟨h2, hp⟩ := hp
        have hn : hi * 256 + lo = f.length := by
          subst h1; subst h2
          have := Nat.div_add_mod f.length 256
          omega
        obtain ⟨t, ht⟩ := hp
        -- r0 ++ t = f ++ stream fs'
        have htake : r0.take f.length = f := by
          have h3 : (r0 ++ t).take f.length = f := by rw [ht]; simp
          rw [List.take_append_of_le_length (by omega)] at h3
          exact h3
        have hdrop : r0.drop f.length ++ t = stream fs' := by
          have h3 : (r0 ++ t).drop f.length = stream fs' := by rw [ht]; simp
          rw [List.drop_append_of_le_length (by omega)] at h3
          exact h3
        refine ⟨fs', ?_, ?_, ?_⟩
        · rw [hn, htake]
        · rw [hn]; exact ⟨t, hdrop⟩
        · rw [hn, htake]
          subst h1; subst h2
          simp only [enc, List.cons_append]
          congr 2
          conv => lhs; rw [← List.take_append_drop f.length r0]
          rw [htake]
    · cases hr

/-- the frames dispatched so far are the first `k` frames sent, and together with the buffer they
    account for exactly the bytes received -/
def Good (frames : List Bytes) (rcvd buf : Bytes) (out : List Bytes) : Prop :=
  ∃ k, out = frames.take k ∧ k ≤ frames.length ∧ stream (frames.take k) ++ buf = rcvd

theorem good_buf_prefix {frames : List Bytes} {rcvd buf : Bytes} {k : Nat} (hp : rcvd <+: stream frames)
    (h : stream (frames.take k) ++ buf = rcvd) : buf <+: stream (frames.drop k) := by
  rw [← h, ← stream_take_drop k frames] at hp
  exact (List.prefix_append_right_inj _).mp hp

theorem drainFrames_good (frames : List Bytes) (rcvd : Bytes) (hp : rcvd <+: stream frames) (fuel : Nat)
    (buf : Bytes) (out : List Bytes) (h : Good frames rcvd buf out) :
    Good frames rcvd (drainFrames fuel buf out).1 (drainFrames fuel buf out).2 := by
  induction fuel generalizing buf out with
  | zero => exact h
  | succ n ih =>
    simp only [drainFrames]
    split
    · rename_i m rest hr
      apply ih
      obtain ⟨k, h1, h2, h3⟩ := h
      obtain ⟨fs', hfs, _, hbuf⟩ := readFrame_of_prefix (good_buf_prefix hp h3) hr
      have hk : k < frames.length := by
        rcases Nat.lt_or_ge k frames.length with hlt | hge
        · exact hlt
        · rw [List.drop_eq_nil_of_le hge] at hfs; cases hfs
      have hm : frames[k]? = some m := by
        have : (frames.drop k)[0]? = some m := by rw [hfs]; rfl
        simpa using this
      have htk : frames.take (k + 1) = frames.take k ++ [m] := by
        rw [List.take_add_one, hm]; rfl
      refine ⟨k + 1, ?_, hk, ?_⟩
      · rw [h1, htk]
      · rw [htk, stream_append, ← h3, hbuf]
        simp [stream]
    · exact h

/-- invariant of the loop w.r.t. the bytes received so far -/
def Inv (frames : List Bytes) (rcvd : Bytes) (r : Reader) : Prop :=
  if r.closed then ∃ k, r.out = frames.take k
  else Good frames rcvd r.buf r.out

theorem inv_out_prefix {frames : List Bytes} {rcvd : Bytes} {r : Reader} (h : Inv frames rcvd r) : r.out <+: frames := by
  unfold Inv at h
  split at h
  · obtain ⟨k, hk⟩ := h; rw [hk]; exact List.take_prefix k frames
  · obtain ⟨k, hk, _⟩ := h; rw [hk]; exact List.take_prefix k frames

theorem rstep_inv (frames : List Bytes) (rcvd : Bytes) (r : Reader) (ev : REv)
    (h : Inv frames rcvd r) (hp : rcvd ++ received [ev] <+: stream frames) :
    Inv frames (rcvd ++ received [ev]) (rstep r ev) := by
  cases ev with
  | readErr =>
    unfold Inv at h ⊢
    simp only [rstep, if_true]
    split at h
    · exact h
    · obtain ⟨k, hk, _⟩ := h; exact ⟨k, hk⟩
  | recv chunk =>
    simp only [received, List.append_nil] at hp ⊢
    unfold Inv at h
    by_cases hc : r.closed = true
    · simp only [hc, if_true] at h
      unfold Inv
      simp only [rstep, hc, if_true]
      exact h
    · simp only [hc] at h
      unfold Inv
      simp only [rstep, hc]
      apply drainFrames_good frames _ hp
      obtain ⟨k, h1, h2, h3⟩ := h
      exact ⟨k, h1, h2, by rw [← h3, List.append_assoc]⟩

theorem received_append (a b : List REv) : received (a ++ b) = received a ++ received b := by
  induction a with
  | nil => rfl
  | cons ev t ih => cases ev <;> simp [received, ih]

theorem run_inv (frames : List Bytes) (evs : List REv) (rcvd : Bytes) (r : Reader)
    (h : Inv frames rcvd r) (hp : rcvd ++ received evs <+: stream frames) :
    Inv frames (rcvd ++ received evs) (run r evs) := by
  induction evs generalizing rcvd r with
  | nil => simpa [received, run] using h
  | cons ev t ih =>
    have e1 : rcvd ++ received (ev :: t) = (rcvd ++ received [ev]) ++ received t := by
      rw [List.append_assoc, ← received_append]; rfl
    rw [e1] at hp ⊢
    have hp1 : rcvd ++ received [ev] <+: stream frames := (List.prefix_append _ _).trans hp
    exact ih _ _ (rstep_inv frames rcvd r ev h hp1) hp

theorem closed_run (r : Reader) (hc : r.closed = true) (evs : List REv) : run r evs = { r with buf := (run r evs).buf } ∧ (run r evs).out = r.out := by
  induction evs generalizing r with
  | nil => exact ⟨rfl, rfl⟩
  | cons ev t ih =>
    cases ev with
    | recv chunk =>
      have : rstep r (.recv chunk) = r := by simp [rstep, hc]
      simp only [run, List.foldl_cons, this]
      exact ih r hc
    | readErr =>
      have h2 := ih (rstep r .readErr) (by simp [rstep])
      simp only [run, List.foldl_cons] at h2 ⊢
      refine ⟨?_, by rw [h2.2]; rfl⟩
      rw [h2.1]; simp [rstep, hc]

end MosVerif.PipeFrame
