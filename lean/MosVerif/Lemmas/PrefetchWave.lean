/-
  C19 — a wave of client threads run one after the other (the canonical interleaving used by the scenario model).
-/
import MosVerif.Lemmas.Prefetch
namespace MosVerif.Prefetch
open MosVerif.Ttl

theorem run_append (P : Params) (a b : List Label) : ∀ s, run P s (a ++ b) = run P (run P s a) b := by
  induction a with
  | nil => intro s; rfl
  | cons l ls ih => intro s; simp only [List.cons_append, run]; exact ih _

/-- does a client that finds hit `(e, now)` on key `k` in state `s` start a refresh? -/
def spawns (P : Params) (s : State) (k : Nat) (e : Entry) (now : Nat) : Bool :=
  needPrefetch e.stored e.expire now && !s.queue (P.pkey k)

/-- one client thread, run to its end on its own -/
theorem client_run (P : Params) (s : State) (i now k : Nat) (served : Msg) (e : Entry)
    (hc : s.clients[i]? = some ⟨k, .start⟩)
    (hget : cacheGet P.clock s.mem k now = some (served, e)) :
    run P s (clientLabels i now) =
      { s with clients := s.clients.set i ⟨k, .responded ⟨served, e.stored, e.expire, e.id⟩⟩,
               queue := if spawns P s k e now then (reserve s.queue (P.pkey k)).1 else s.queue,
               refreshers := if spawns P s k e now then s.refreshers ++ [⟨k, P.pkey k, .spawned⟩] else s.refreshers } := by
  obtain ⟨hi, he⟩ := getElem?_some _ _ _ hc
  unfold clientLabels spawns
  simp only [run, step]
  -- step 1: lookup
  have h1 : clientStep P s i now = { s with clients := s.clients.set i ⟨k, .looked ⟨served, e.stored, e.expire, e.id⟩⟩ } := by
    simp [clientStep, hc, hget]
  rw [h1]
  by_cases hn : needPrefetch e.stored e.expire now = true
  · by_cases hq : s.queue (P.pkey k) = true
    · -- in the window, already reserved by somebody else
      simp [clientStep, List.getElem?_set, hi, hn, hq, reserve_held]
    · have hqf : s.queue (P.pkey k) = false := by simpa using hq
      simp [clientStep, List.getElem?_set, hi, hn, hqf, reserve_free]
  · have hnf : needPrefetch e.stored e.expire now = false := by simpa using hn
    simp [clientStep, List.getElem?_set, hi, hnf]

/-- clients `first … first+n-1` replaced by `c` -/
def markRange (l : List Client) (first : Nat) : Nat → Client → List Client
  | 0, _ => l
  | n + 1, c => (markRange l first n c).set (first + n) c

theorem markRange_length (l : List Client) (first n : Nat) (c : Client) :
    (markRange l first n c).length = l.length := by
  induction n with
  | zero => rfl
  | succ n ih => simp [markRange, ih]

theorem markRange_get_out (l : List Client) (first n : Nat) (c : Client) (j : Nat)
    (hj : j < first ∨ first + n ≤ j) : (markRange l first n c)[j]? = l[j]? := by
  induction n with
  | zero => rfl
  | succ n ih =>
    simp only [markRange]
    rw [List.getElem?_set_ne (by omega)]
    exact ih (by omega)

theorem markRange_get_in (l : List Client) (first n : Nat) (c : Client) (j : Nat)
    (hj : first ≤ j ∧ j < first + n) (hl : first + n ≤ l.length) : (markRange l first n c)[j]? = some c := by
  induction n with
  | zero => omega
  | succ n ih =>
    simp only [markRange]
    by_cases hjn : j = first + n
    · subst hjn
      rw [List.getElem?_set_self (by rw [markRange_length]; omega)]
    · rw [List.getElem?_set_ne (by omega)]
      exact ih (by omega) (by omega)

theorem waveLabels_succ (first n now : Nat) :
    waveLabels first (n + 1) now = waveLabels first n now ++ clientLabels (first + n) now := by
  simp [waveLabels, List.range_succ, List.flatMap_append]

theorem reserve_fst_self (q : Queue) (k : Nat) (h : q k = false) : (reserve q k).1 k = true := by
  simp [reserve_free _ _ h]

/-- the state after a wave of `n` client threads on question `k`, each run to its end in turn -/
def waveState (P : Params) (s : State) (k now : Nat) (served : Msg) (e : Entry) (first n : Nat) : State :=
  { s with clients := markRange s.clients first n ⟨k, .responded ⟨served, e.stored, e.expire, e.id⟩⟩,
           queue := if 0 < n ∧ spawns P s k e now = true then (reserve s.queue (P.pkey k)).1 else s.queue,
           refreshers := if 0 < n ∧ spawns P s k e now = true then s.refreshers ++ [⟨k, P.pkey k, .spawned⟩]
                         else s.refreshers }

theorem spawns_waveState (P : Params) (s : State) (k now : Nat) (served : Msg) (e : Entry) (first n : Nat) :
    spawns P (waveState P s k now served e first n) k e now = (decide (n = 0) && spawns P s k e now) := by
  by_cases hn : n = 0
  · subst hn; simp [spawns, waveState]
  · have hn' : 0 < n := by omega
    cases hsp : spawns P s k e now with
    | false =>
      have : (waveState P s k now served e first n).queue = s.queue := by simp [waveState, hsp]
      simp only [spawns] at hsp ⊢
      rw [this, hsp]; simp [hn]
    | true =>
      have hq : s.queue (P.pkey k) = false := by
        simp only [spawns, Bool.and_eq_true, Bool.not_eq_true'] at hsp; exact hsp.2
      have : (waveState P s k now served e first n).queue = (reserve s.queue (P.pkey k)).1 := by
        simp [waveState, hsp, hn']
      simp only [spawns]
      rw [this, reserve_fst_self _ _ hq]; simp [hn]

/-- a wave of `n` client threads on the same question, each run to its end in turn: all respond with the looked-up
    entry; the first one starts the refresh if the window test says so and nobody holds the key -/
theorem wave_run (P : Params) (k now : Nat) (served : Msg) (e : Entry) (first : Nat) :
    ∀ (n : Nat) (s : State), (∀ i, i < n → s.clients[first + i]? = some ⟨k, .start⟩) →
    cacheGet P.clock s.mem k now = some (served, e) →
    run P s (waveLabels first n now) = waveState P s k now served e first n := by
  intro n
  induction n with
  | zero => intro s _ _; simp [waveLabels, run, markRange, waveState]
  | succ n ih =>
    intro s hstart hget
    rw [waveLabels_succ, run_append, ih s (fun i hi => hstart i (by omega)) hget]
    have hcl : (waveState P s k now served e first n).clients[first + n]? = some ⟨k, .start⟩ := by
      simp only [waveState]
      rw [markRange_get_out _ _ _ _ _ (by omega)]; exact hstart n (by omega)
    have hget' : cacheGet P.clock (waveState P s k now served e first n).mem k now = some (served, e) := hget
    rw [client_run P (waveState P s k now served e first n) (first + n) now k served e hcl hget',
      spawns_waveState]
    by_cases hn : n = 0
    · subst hn
      cases hsp : spawns P s k e now <;> simp [waveState, markRange, hsp]
    · have hn' : 0 < n := by omega
      cases hsp : spawns P s k e now <;> simp [waveState, markRange, hsp, hn, hn']

end MosVerif.Prefetch
