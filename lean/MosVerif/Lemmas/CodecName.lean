/-
  Codec lemmas, part 2 (C02): the decoder's name loop on buffers that contain an encoded name —
  a literal (`s ++ [0]`) or a label prefix followed by one compression pointer to a literal.
  Also: every name the decoder returns is well formed (`nameWF`).
-/
import MosVerif.Lemmas.CodecBasic
import MosVerif.Lemmas.WireSafe
namespace MosVerif.Wire

/-! ### one-step unfoldings of `nameLoop` -/

theorem getElem_at_prefix (pre : Bytes) (x : UInt8) (rest : Bytes) (h : pre.length < (pre ++ x :: rest).length) :
    (pre ++ x :: rest)[pre.length]'h = x := by
  simp

/-- terminating zero octet -/
theorem nameLoop_zero (pre post : Bytes) (newOff ptr : Nat) (name : Bytes) (hn : name.length ≤ 254) :
    nameLoop (pre ++ 0 :: post) pre.length newOff ptr name
      = .ok (name, if ptr = 0 then pre.length + 1 else newOff) := by
  rw [nameLoop]
  have hlt : ¬ pre.length ≥ (pre ++ 0 :: post).length := by simp
  rw [dif_neg hlt]
  have hb : (pre ++ 0 :: post)[pre.length]'(by simp) = 0 := by simp
  simp only [hb]
  have : ¬ name.length > 254 := by omega
  simp [this]

/-- one label -/
theorem nameLoop_label (pre : Bytes) (l : UInt8) (lab rest : Bytes) (newOff ptr : Nat) (name : Bytes)
    (h0 : l.toNat ≠ 0) (h63 : l.toNat ≤ 63) (hl : lab.length = l.toNat)
    (hn : name.length + 1 + l.toNat + 1 ≤ 255) :
    nameLoop (pre ++ l :: (lab ++ rest)) pre.length newOff ptr name
      = nameLoop (pre ++ l :: (lab ++ rest)) (pre.length + 1 + l.toNat) newOff ptr (name ++ l :: lab) := by
  conv => lhs; rw [nameLoop]
  have hlt : ¬ pre.length ≥ (pre ++ l :: (lab ++ rest)).length := by simp
  rw [dif_neg hlt]
  have hb : (pre ++ l :: (lab ++ rest))[pre.length]'(by simp) = l := by simp
  simp only [hb]
  have h1 : l.toNat < 64 := by omega
  have h2 : ¬ pre.length + 1 + l.toNat > (pre ++ l :: (lab ++ rest)).length := by
    simp only [List.length_append, List.length_cons]; omega
  have h3 : ¬ name.length + 1 + l.toNat + 1 > nameCap := by
    simp only [nameCap]; omega
  have h4 : ((pre ++ l :: (lab ++ rest)).drop (pre.length + 1)).take l.toNat = lab := by
    have : (pre ++ l :: (lab ++ rest)).drop (pre.length + 1) = lab ++ rest := by
      rw [List.drop_append]; simp
    rw [this, ← hl]; simp
  have h5 : UInt8.ofNat l.toNat = l := by simp
  simp only [h1, h0, h2, h3, h4, h5, if_true, if_false]
  simp

/-- one compression pointer -/
theorem nameLoop_ptr (pre : Bytes) (hi lo : UInt8) (post : Bytes) (newOff ptr : Nat) (name : Bytes)
    (hhi : hi.toNat ≥ 192) (hp : ptr + 1 ≤ 10) :
    nameLoop (pre ++ hi :: lo :: post) pre.length newOff ptr name
      = nameLoop (pre ++ hi :: lo :: post) ((hi.toNat - 192) * 256 + lo.toNat)
          (if ptr = 0 then pre.length + 2 else newOff) (ptr + 1) name := by
  conv => lhs; rw [nameLoop]
  have hlt : ¬ pre.length ≥ (pre ++ hi :: lo :: post).length := by simp
  rw [dif_neg hlt]
  have hb : (pre ++ hi :: lo :: post)[pre.length]'(by simp) = hi := by simp
  have hlt2 : ¬ pre.length + 1 ≥ (pre ++ hi :: lo :: post).length := by simp
  have hb2 : (pre ++ hi :: lo :: post)[pre.length + 1]'(by simp) = lo := by
    rw [List.getElem_append_right (by omega)]; simp
  simp only [hb]
  have h1 : ¬ hi.toNat < 64 := by omega
  have h3 : ¬ ptr + 1 > hopLimit := by simp only [hopLimit]; omega
  simp only [h1, hhi, if_true, if_false, dif_neg hlt2, hb2, h3]

/-! ### a run of labels -/

/-- the loop walks through a label sequence `p`, copying it to the scratch name -/
theorem nameLoop_labels {p : Bytes} (hp : Labels p) :
    ∀ (pre rest : Bytes) (newOff ptr : Nat) (name : Bytes), name.length + p.length ≤ 254 →
    nameLoop (pre ++ (p ++ rest)) pre.length newOff ptr name
      = nameLoop (pre ++ (p ++ rest)) (pre.length + p.length) newOff ptr (name ++ p) := by
  induction hp with
  | nil => intros; simp
  | cons l lab tl h0 h63 hl _ ih =>
    intro pre rest newOff ptr name hn
    simp only [List.length_cons, List.length_append] at hn
    have e1 : pre ++ (l :: (lab ++ tl) ++ rest) = pre ++ l :: (lab ++ (tl ++ rest)) := by simp
    rw [e1, nameLoop_label pre l lab (tl ++ rest) newOff ptr name h0 h63 hl (by omega)]
    have e2 : pre ++ l :: (lab ++ (tl ++ rest)) = (pre ++ l :: lab) ++ (tl ++ rest) := by simp
    have e3 : pre.length + 1 + l.toNat = (pre ++ l :: lab).length := by
      simp only [List.length_append, List.length_cons, hl]; omega
    rw [e2, e3, ih (pre ++ l :: lab) rest newOff ptr (name ++ l :: lab)
      (by simp only [List.length_append, List.length_cons]; omega)]
    congr 1
    · simp only [List.length_append, List.length_cons]; omega
    · simp

/-! ### literal names -/

/-- Loop form of `decode_literal`: with the literal encoding `s ++ [0]` of a label sequence at
    the current offset, the loop returns the accumulated name extended by `s`. -/
theorem nameLoop_literal {s : Bytes} (hs : Labels s) (pre post : Bytes) (newOff ptr : Nat) (name : Bytes)
    (hn : name.length + s.length ≤ 254) :
    nameLoop (pre ++ (s ++ 0 :: post)) pre.length newOff ptr name
      = .ok (name ++ s, if ptr = 0 then pre.length + s.length + 1 else newOff) := by
  rw [nameLoop_labels hs pre (0 :: post) newOff ptr name hn]
  have e : pre ++ (s ++ 0 :: post) = (pre ++ s) ++ 0 :: post := by simp
  have e2 : pre.length + s.length = (pre ++ s).length := by simp
  rw [e, e2, nameLoop_zero (pre ++ s) post newOff ptr (name ++ s) (by simp; omega)]

/-- ★ rung 2a `decode_literal`: for every well-formed name, decoding its literal encoding
    `n ++ [0]` placed at any offset of any buffer (whatever precedes and follows) yields `n` and
    the offset just behind the terminator. Stability under appending bytes is the arbitrary `post`. -/
theorem decode_literal (n : Name) (hn : nameWF n = true) (pre post : Bytes) :
    unpackName (pre ++ (n ++ 0 :: post)) pre.length = .ok (n, pre.length + n.length + 1) := by
  rw [nameWF_iff] at hn
  unfold unpackName
  rw [nameLoop_literal hn.2 pre post pre.length 0 [] (by simpa using hn.1)]
  simp

/-! ### label prefix followed by a pointer to a literal -/

/-- the two octets `Name.pack` emits for a pointer to `off` -/
def ptrBytes (off : Nat) : Bytes := [UInt8.ofNat (Nat.lor (off / 256 % 256) 192), UInt8.ofNat (off % 256)]

theorem lor_192 : ∀ x, x < 64 → Nat.lor x 192 = x + 192 := by decide

theorem ptrBytes_hi (off : Nat) (h : off ≤ 16383) :
    (UInt8.ofNat (Nat.lor (off / 256 % 256) 192)).toNat = off / 256 + 192 := by
  have h64 : off / 256 % 256 < 64 := by omega
  rw [lor_192 _ h64, u8_ofNat_toNat _ (by omega)]; omega

/-- Loop form of rung 2b: labels `p`, then a pointer to `off`, where the buffer holds the
    literal `s ++ [0]` at `off`: the result is `name ++ p ++ s`, continuing behind the pointer. -/
theorem nameLoop_prefix_ptr {p s : Bytes} (hp : Labels p) (hs : Labels s)
    (pre post pre2 post2 : Bytes) (off : Nat) (hoff : off ≤ 16383)
    (hbuf : pre ++ (p ++ ptrBytes off ++ post) = pre2 ++ (s ++ 0 :: post2)) (hpre2 : pre2.length = off)
    (name : Bytes) (hn : name.length + p.length + s.length ≤ 254) :
    nameLoop (pre ++ (p ++ ptrBytes off ++ post)) pre.length pre.length 0 name
      = .ok (name ++ p ++ s, pre.length + p.length + 2) := by
  have e0 : pre ++ (p ++ ptrBytes off ++ post) = pre ++ (p ++ (ptrBytes off ++ post)) := by simp
  rw [e0, nameLoop_labels hp pre (ptrBytes off ++ post) pre.length 0 name (by omega)]
  have e1 : pre ++ (p ++ (ptrBytes off ++ post))
      = (pre ++ p) ++ UInt8.ofNat (Nat.lor (off / 256 % 256) 192) :: UInt8.ofNat (off % 256) :: post := by
    simp [ptrBytes]
  have e2 : pre.length + p.length = (pre ++ p).length := by simp
  rw [e1, e2, nameLoop_ptr (pre ++ p) _ _ post _ 0 (name ++ p)
    (by rw [ptrBytes_hi off hoff]; omega) (by omega)]
  have htgt : ((UInt8.ofNat (Nat.lor (off / 256 % 256) 192)).toNat - 192) * 256
      + (UInt8.ofNat (off % 256)).toNat = pre2.length := by
    rw [ptrBytes_hi off hoff, u8_ofNat_toNat _ (by omega)]; omega
  rw [htgt, ← e1, ← e0, hbuf]
  rw [nameLoop_literal hs pre2 post2 _ 1 (name ++ p) (by simp only [List.length_append]; omega)]
  simp

/-- ★ rung 2b `decode_prefix_pointer`: decoding `labels-prefix ++ pointer(off)` where the buffer
    holds a literal `s ++ [0]` at `off ≤ 0x3FFF` yields `prefix ++ s` (one hop, inside the hop
    limit 10) and continues right behind the two pointer octets. -/
theorem decode_prefix_pointer (p s : Name) (hp : Labels p) (hs : Labels s) (hlen : p.length + s.length ≤ 254)
    (pre post pre2 post2 : Bytes) (off : Nat) (hoff : off ≤ 16383)
    (hbuf : pre ++ (p ++ ptrBytes off ++ post) = pre2 ++ (s ++ 0 :: post2)) (hpre2 : pre2.length = off) :
    unpackName (pre ++ (p ++ ptrBytes off ++ post)) pre.length = .ok (p ++ s, pre.length + p.length + 2) := by
  unfold unpackName
  rw [nameLoop_prefix_ptr hp hs pre post pre2 post2 off hoff hbuf hpre2 [] (by simpa using hlen)]
  simp

/-! ### decoder output is well formed -/

theorem nameLoop_wf (msg : Bytes) (currOff newOff ptr : Nat) (name : Bytes) :
    Labels name → name.length ≤ 254 →
    ∀ n o, nameLoop msg currOff newOff ptr name = .ok (n, o) → Labels n ∧ n.length ≤ 254 := by
  fun_induction nameLoop msg currOff newOff ptr name
  case case1 => intros; simp_all
  case case2 => intros; simp_all
  case case3 =>
    intro hL hl n o heq
    simp only [Res.ok.injEq, Prod.mk.injEq] at heq
    obtain ⟨rfl, _⟩ := heq
    exact ⟨hL, hl⟩
  case case4 => intros; simp_all
  case case5 => intros; simp_all
  case case6 currOff newOff ptr name h c currOff1 hlt hz endOff hend hcap ih =>
    intro hL hl
    simp only [nameCap] at hcap
    have hc256 : c < 256 := by omega
    apply ih
    · rw [List.append_assoc]
      apply Labels.append hL
      apply Labels.single
      · rw [u8_ofNat_toNat _ hc256]; exact hz
      · rw [u8_ofNat_toNat _ hc256]; omega
      · rw [u8_ofNat_toNat _ hc256]
        have : endOff ≤ msg.length := by omega
        show (List.take c (List.drop currOff1 msg)).length = c
        simp only [List.length_take, List.length_drop]
        omega
    · simp only [List.length_append, List.length_cons, List.length_nil, List.length_take, List.length_drop]
      omega
  case case7 => intros; simp_all
  case case8 => intros; simp_all
  case case9 ih => intro hL hl; exact ih hL hl
  case case10 => intros; simp_all

/-- every name the decoder returns is well formed (`nameWF` ⇐ decoder-producible; the converse
    is `decode_literal`) -/
theorem unpackName_wf (msg : Bytes) (off : Nat) (n : Name) (o : Nat)
    (e : unpackName msg off = .ok (n, o)) : nameWF n = true := by
  unfold unpackName at e
  have := nameLoop_wf msg off off 0 [] Labels.nil (by simp) n o e
  rw [nameWF_iff]; exact ⟨this.2, this.1⟩

/-- `nameWF` ⇔ some buffer decodes to the name -/
theorem nameWF_iff_decodable (n : Name) :
    nameWF n = true ↔ ∃ msg off o, unpackName msg off = .ok (n, o) := by
  constructor
  · intro h
    refine ⟨[] ++ (n ++ 0 :: []), 0, _, decode_literal n h [] []⟩
  · intro ⟨msg, off, o, e⟩
    exact unpackName_wf msg off n o e

end MosVerif.Wire
