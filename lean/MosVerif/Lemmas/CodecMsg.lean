/-
  Codec lemmas, part 6 (C02): the section loops of `Msg.Pack` (no size limit) against the
  count-driven loops of `Msg.Unpack`, and the message header.
-/
import MosVerif.Lemmas.CodecRecord
import MosVerif.Lemmas.CodecHeader
namespace MosVerif.Wire

theorem Res.bind_eq_ok {α β : Type} {x : Res α} {f : α → Res β} {b : β} (h : (x >>= f) = .ok b) :
    ∃ a, x = .ok a ∧ f a = .ok b := by
  cases x with
  | ok a => exact ⟨a, rfl, h⟩
  | err => simp [Bind.bind, Res.bind] at h
  | panic => simp [Bind.bind, Res.bind] at h

/-- the loops only ever append to the body (any limit) -/
theorem packResourcesLoop_body_prefix (limit : Option Nat) (rs : List Resource) :
    ∀ (s s' : PState) (k : Nat), packResourcesLoop limit rs s = .ok (s', k) → ∃ bs, s'.body = s.body ++ bs := by
  induction rs with
  | nil => intro s s' k h; simp only [packResourcesLoop, Res.ok.injEq, Prod.mk.injEq] at h; exact ⟨[], by simp [← h.1]⟩
  | cons r rs ih =>
    intro s s' k h
    have hpack : ∀ (h' : (packResource (12 + s.body.length) s.tbl r >>= fun p =>
        packResourcesLoop limit rs ⟨s.body ++ p.1, p.2⟩) = .ok (s', k)), ∃ bs, s'.body = s.body ++ bs := by
      intro h'
      obtain ⟨⟨b1, t1⟩, _, h2⟩ := Res.bind_eq_ok h'
      obtain ⟨b2, e⟩ := ih _ _ _ h2
      exact ⟨b1 ++ b2, by rw [e]; simp⟩
    cases limit with
    | none => simp only [packResourcesLoop] at h; exact hpack h
    | some size =>
      simp only [packResourcesLoop] at h
      split at h
      · obtain ⟨⟨s1, k1⟩, h1, h2⟩ := Res.bind_eq_ok h
        simp only [Res.ok.injEq, Prod.mk.injEq] at h2
        obtain ⟨b, e⟩ := ih _ _ _ h1
        exact ⟨b, by rw [← h2.1]; exact e⟩
      · exact hpack h

theorem packQuestionsLoop_body_prefix (limit : Option Nat) (qs : List Question) :
    ∀ (s s' : PState) (k : Nat), packQuestionsLoop limit qs s = .ok (s', k) → ∃ bs, s'.body = s.body ++ bs := by
  induction qs with
  | nil => intro s s' k h; simp only [packQuestionsLoop, Res.ok.injEq, Prod.mk.injEq] at h; exact ⟨[], by simp [← h.1]⟩
  | cons r rs ih =>
    intro s s' k h
    have hpack : ∀ (h' : (packQuestion (12 + s.body.length) s.tbl r >>= fun p =>
        packQuestionsLoop limit rs ⟨s.body ++ p.1, p.2⟩) = .ok (s', k)), ∃ bs, s'.body = s.body ++ bs := by
      intro h'
      obtain ⟨⟨b1, t1⟩, _, h2⟩ := Res.bind_eq_ok h'
      obtain ⟨b2, e⟩ := ih _ _ _ h2
      exact ⟨b1 ++ b2, by rw [e]; simp⟩
    cases limit with
    | none => simp only [packQuestionsLoop] at h; exact hpack h
    | some size =>
      simp only [packQuestionsLoop] at h
      split at h
      · obtain ⟨⟨s1, k1⟩, h1, h2⟩ := Res.bind_eq_ok h
        simp only [Res.ok.injEq, Prod.mk.injEq] at h2
        obtain ⟨b, e⟩ := ih _ _ _ h1
        exact ⟨b, by rw [← h2.1]; exact e⟩
      · exact hpack h

/-! ### section loops without a size limit -/

/-- the decoder of a whole section of `n` questions -/
abbrev decQuestions (n : Nat) : Bytes → Nat → Res (List Question × Nat) := fun msg off => unpackQuestions msg n off
abbrev decResources (n : Nat) : Bytes → Nat → Res (List Resource × Nat) := fun msg off => unpackResources msg n off

theorem packQuestionsLoop_none_enc (H : Bytes) (hH : H.length = 12) (qs : List Question) :
    ∀ (body : Bytes) (tbl : Option Table), (∀ q ∈ qs, questionWF q = true) → TableOK' (H ++ body) tbl →
    ∃ bs tbl', packQuestionsLoop none qs ⟨body, tbl⟩ = .ok (⟨body ++ bs, tbl'⟩, 0) ∧
      Enc (decQuestions qs.length) (H ++ body) tbl qs ((qs.map questionLen).sum) bs tbl' := by
  induction qs with
  | nil =>
    intro body tbl _ hT
    refine ⟨[], tbl, by simp [packQuestionsLoop], ?_⟩
    constructor
    · simpa using hT
    · rfl
    · simp
    · intro _; simp
    · intro msg post _; simp [decQuestions, unpackQuestions]
  | cons q qs ih =>
    intro body tbl hq hT
    obtain ⟨b1, t1, hp1, hE1⟩ := packQuestion_enc (H ++ body) (12 + body.length)
      (by simp only [List.length_append, hH]) tbl q (hq q (by simp)) hT
    obtain ⟨b2, t2, hp2, hE2⟩ := ih (body ++ b1) t1 (fun q' h' => hq q' (by simp [h']))
      (by have := hE1.table; simpa [List.append_assoc] using this)
    refine ⟨b1 ++ b2, t2, ?_, ?_⟩
    · simp only [packQuestionsLoop, hp1, Res.ok_bind, hp2, List.append_assoc]
    · have l1 := hE1.le
      have l2 := hE2.le
      constructor
      · have := hE2.table; simpa [List.append_assoc] using this
      · exact hE2.mode.trans hE1.mode
      · simp only [List.length_append, List.map_cons, List.sum_cons]; omega
      · intro h
        have e1 := hE1.exact h
        have e2 := hE2.exact (hE1.none_tbl h)
        simp only [List.length_append, List.map_cons, List.sum_cons]; omega
      · intro msg post hmsg
        simp only [decQuestions, List.length_cons, unpackQuestions]
        rw [hE1.reads msg (b2 ++ post) (by rw [hmsg]; simp)]
        simp only [Res.ok_bind]
        have := hE2.reads' msg post ((H ++ body).length + b1.length) (by rw [hmsg]; simp) (by len_tac)
        simp only [decQuestions] at this
        rw [this]
        simp only [Res.ok_bind, List.length_append, Res.ok.injEq, Prod.mk.injEq, true_and]
        omega

theorem packResourcesLoop_none_enc (H : Bytes) (hH : H.length = 12) (rs : List Resource) :
    ∀ (body : Bytes) (tbl : Option Table), (∀ r ∈ rs, resourceWF r = true) → TableOK' (H ++ body) tbl →
    ∃ bs tbl', packResourcesLoop none rs ⟨body, tbl⟩ = .ok (⟨body ++ bs, tbl'⟩, 0) ∧
      Enc (decResources rs.length) (H ++ body) tbl rs ((rs.map resourcePackLen).sum) bs tbl' := by
  induction rs with
  | nil =>
    intro body tbl _ hT
    refine ⟨[], tbl, by simp [packResourcesLoop], ?_⟩
    constructor
    · simpa using hT
    · rfl
    · simp
    · intro _; simp
    · intro msg post _; simp [decResources, unpackResources]
  | cons r rs ih =>
    intro body tbl hr hT
    obtain ⟨b1, t1, hp1, hE1⟩ := packResource_enc (H ++ body) (12 + body.length)
      (by simp only [List.length_append, hH]) tbl r (hr r (by simp)) hT
    obtain ⟨b2, t2, hp2, hE2⟩ := ih (body ++ b1) t1 (fun r' h' => hr r' (by simp [h']))
      (by have := hE1.table; simpa [List.append_assoc] using this)
    refine ⟨b1 ++ b2, t2, ?_, ?_⟩
    · simp only [packResourcesLoop, hp1, Res.ok_bind, hp2, List.append_assoc]
    · have l1 := hE1.le
      have l2 := hE2.le
      constructor
      · have := hE2.table; simpa [List.append_assoc] using this
      · exact hE2.mode.trans hE1.mode
      · simp only [List.length_append, List.map_cons, List.sum_cons]; omega
      · intro h
        have e1 := hE1.exact h
        have e2 := hE2.exact (hE1.none_tbl h)
        simp only [List.length_append, List.map_cons, List.sum_cons]; omega
      · intro msg post hmsg
        simp only [decResources, List.length_cons, unpackResources]
        rw [hE1.reads msg (b2 ++ post) (by rw [hmsg]; simp)]
        simp only [Res.ok_bind]
        have := hE2.reads' msg post ((H ++ body).length + b1.length) (by rw [hmsg]; simp) (by len_tac)
        simp only [decResources] at this
        rw [this]
        simp only [Res.ok_bind, List.length_append, Res.ok.injEq, Prod.mk.injEq, true_and]
        omega

/-- every record of a section packed without limit occupies a contiguous slice of the output -/
theorem packResourcesLoop_none_slices (rs : List Resource) :
    ∀ (body : Bytes) (tbl : Option Table) (bs : Bytes) (tbl' : Option Table) (k : Nat),
    packResourcesLoop none rs ⟨body, tbl⟩ = .ok (⟨body ++ bs, tbl'⟩, k) →
    ∀ r ∈ rs, ∃ off t1 rb t2, packResource off t1 r = .ok (rb, t2) ∧ ∃ pre post, bs = pre ++ (rb ++ post) := by
  induction rs with
  | nil => intro _ _ _ _ _ _ r hr; simp at hr
  | cons r0 rs ih =>
    intro body tbl bs tbl' k h r hr
    simp only [packResourcesLoop] at h
    obtain ⟨⟨b1, t1⟩, h1, h⟩ := Res.bind_eq_ok h
    simp only at h
    have hlen := packResourcesLoop_body_prefix none rs _ _ _ h
    obtain ⟨b2, hb2⟩ := hlen
    simp only [List.append_assoc, List.append_cancel_left_eq] at hb2
    subst hb2
    rw [← List.append_assoc] at h
    simp only [List.mem_cons] at hr
    rcases hr with rfl | hr
    · exact ⟨_, _, b1, t1, h1, [], b2, by simp⟩
    · obtain ⟨off, t1', rb, t2, hp, pre, post, e⟩ := ih _ _ _ _ _ h r hr
      exact ⟨off, t1', rb, t2, hp, b1 ++ pre, post, by rw [e]; simp⟩

/-! ### the 12-octet header -/

/-- the header `Msg.Pack` writes -/
def hdrBytes (id bits qn an nn xn : Nat) : Bytes :=
  enc16 id ++ enc16 bits ++ enc16 qn ++ enc16 an ++ enc16 nn ++ enc16 xn

theorem hdrBytes_length (id bits qn an nn xn : Nat) : (hdrBytes id bits qn an nn xn).length = 12 := rfl

/-- `Msg.Unpack` on a buffer that starts with an encoded header -/
theorem unpackMsg_hdr (msg rest : Bytes) (id bits qn an nn xn : Nat)
    (hid : id < 65536) (hbits : bits < 65536) (hqn : qn < 65536) (han : an < 65536) (hnn : nn < 65536)
    (hxn : xn < 65536) (hmsg : msg = hdrBytes id bits qn an nn xn ++ rest) :
    unpackMsg msg = (do
      let (qs, off) ← unpackQuestions msg qn 12
      let (an', off) ← unpackResources msg an off
      let (ns, off) ← unpackResources msg nn off
      let (ar, _) ← unpackResources msg xn off
      .ok ⟨headerOfBits id bits, qs, an', ns, ar⟩) := by
  have hc : msg = UInt8.ofNat (id / 256 % 256) :: UInt8.ofNat (id % 256)
      :: UInt8.ofNat (bits / 256 % 256) :: UInt8.ofNat (bits % 256)
      :: UInt8.ofNat (qn / 256 % 256) :: UInt8.ofNat (qn % 256)
      :: UInt8.ofNat (an / 256 % 256) :: UInt8.ofNat (an % 256)
      :: UInt8.ofNat (nn / 256 % 256) :: UInt8.ofNat (nn % 256)
      :: UInt8.ofNat (xn / 256 % 256) :: UInt8.ofNat (xn % 256) :: rest := by
    rw [hmsg]; simp [hdrBytes, enc16]
  conv => lhs; unfold unpackMsg
  rw [sliceFrom_ok (Nat.zero_le _), List.drop_zero]
  simp only [Res.ok_bind]
  split
  next i0 i1 b0 b1 q0 q1 a0 a1 n0 n1 x0 x1 tail =>
    simp only [List.cons.injEq] at hc
    obtain ⟨rfl, rfl, rfl, rfl, rfl, rfl, rfl, rfl, rfl, rfl, rfl, rfl, _⟩ := hc
    simp only [be16_enc16 _ hid, be16_enc16 _ hbits, be16_enc16 _ hqn, be16_enc16 _ han, be16_enc16 _ hnn,
      be16_enc16 _ hxn]
  next hno => exact absurd hc (hno _ _ _ _ _ _ _ _ _ _ _ _ _)

/-! ### whole messages, no size limit -/

theorem msgWF_parts {m : Msg} (hm : msgWF m = true) :
    (m.hdr.id < 65536 ∧ m.hdr.opcode < 16 ∧ m.hdr.rcode < 16) ∧
    (∀ q ∈ m.questions, questionWF q = true) ∧ (∀ r ∈ m.answers, resourceWF r = true) ∧
    (∀ r ∈ m.authorities, resourceWF r = true) ∧ (∀ r ∈ m.additionals, resourceWF r = true) ∧
    m.questions.length ≤ 65535 ∧ m.answers.length ≤ 65535 ∧ m.authorities.length ≤ 65535 ∧
    m.additionals.length ≤ 65535 := by
  simp only [msgWF, headerWF, u16, Bool.and_eq_true, decide_eq_true_eq, List.all_eq_true] at hm
  obtain ⟨⟨⟨⟨⟨⟨⟨⟨⟨⟨h1, h2⟩, h3⟩, hq⟩, ha⟩, hn⟩, hx⟩, cq⟩, ca⟩, cn⟩, cx⟩ := hm
  exact ⟨⟨h1, h2, h3⟩, hq, ha, hn, hx, cq, ca, cn, cx⟩

/-- Core of C02: packing a well-formed message without a size limit into a buffer of `Msg.Len`
    octets succeeds; the output is never longer than `Msg.Len` (exactly `Msg.Len` without
    compression) and decodes to the same message. -/
theorem packMsg_roundtrip (m : Msg) (c : Bool) (hm : msgWF m = true) :
    ∃ bs, packMsg m c 0 (msgLen m) = .ok bs ∧ bs.length ≤ msgLen m ∧
      (c = false → bs.length = msgLen m) ∧ unpackMsg bs = .ok m ∧
      (∀ r d, (r ∈ m.answers ∨ r ∈ m.authorities ∨ r ∈ m.additionals) → r.rdata = .raw d →
        ∃ pre post, bs = pre ++ (enc16 d.length ++ d ++ post)) ∧
      bs.take 4 = enc16 m.hdr.id ++ enc16 (bitsOfHeader m.hdr) := by
  obtain ⟨⟨hid, hop, hrc⟩, hq, ha, hn, hx, cq, ca, cn, cx⟩ := msgWF_parts hm
  let H := hdrBytes m.hdr.id (bitsOfHeader m.hdr) m.questions.length m.answers.length
    m.authorities.length m.additionals.length
  have hH : H.length = 12 := rfl
  obtain ⟨b1, t1, hp1, hE1⟩ := packQuestionsLoop_none_enc H hH m.questions [] (if c then some [] else none) hq
    (TableOK'.init _ c)
  obtain ⟨b2, t2, hp2, hE2⟩ := packResourcesLoop_none_enc H hH m.answers ([] ++ b1) t1 ha
    (by have := hE1.table; simpa [List.append_assoc] using this)
  obtain ⟨b3, t3, hp3, hE3⟩ := packResourcesLoop_none_enc H hH m.authorities ([] ++ b1 ++ b2) t2 hn
    (by have := hE2.table; simpa [List.append_assoc] using this)
  obtain ⟨b4, t4, hp4, hE4⟩ := packResourcesLoop_none_enc H hH m.additionals ([] ++ b1 ++ b2 ++ b3) t3 hx
    (by have := hE3.table; simpa [List.append_assoc] using this)
  have l1 := hE1.le; have l2 := hE2.le; have l3 := hE3.le; have l4 := hE4.le
  refine ⟨H ++ ([] ++ b1 ++ b2 ++ b3 ++ b4), ?_, ?_, ?_, ?_, ?_, by simp [H, hdrBytes, enc16]⟩
  · unfold packMsg
    have hcnt : ¬ (m.questions.length > 65535 ∨ m.answers.length > 65535 ∨ m.authorities.length > 65535
        ∨ m.additionals.length > 65535) := by omega
    have hcap : ¬ msgLen m < 12 := by unfold msgLen; omega
    simp only [hcnt, hcap, if_false, Nat.lt_irrefl, false_and, gt_iff_lt, hp1, hp2, hp3, hp4, Res.ok_bind, packOpt]
    simp only [Nat.sub_zero]
    rw [if_neg (by
      simp only [List.length_append, enc16_length, List.length_nil]
      unfold msgLen; omega)]
    rfl
  · simp only [List.length_append, hH, List.length_nil]
    unfold msgLen; omega
  · intro hc
    have hnone : (if c = true then some ([] : Table) else none) = none := by simp [hc]
    have e1 := hE1.exact hnone
    have n1 := hE1.none_tbl hnone
    have e2 := hE2.exact n1
    have n2 := hE2.none_tbl n1
    have e3 := hE3.exact n2
    have n3 := hE3.none_tbl n2
    have e4 := hE4.exact n3
    simp only [List.length_append, hH, List.length_nil]
    unfold msgLen; omega
  · have hbits := bitsOfHeader_lt m.hdr hop hrc
    rw [unpackMsg_hdr (H ++ ([] ++ b1 ++ b2 ++ b3 ++ b4)) ([] ++ b1 ++ b2 ++ b3 ++ b4) m.hdr.id (bitsOfHeader m.hdr)
      m.questions.length m.answers.length m.authorities.length m.additionals.length hid hbits
      (by omega) (by omega) (by omega) (by omega) rfl]
    have r1 := hE1.reads' (H ++ ([] ++ b1 ++ b2 ++ b3 ++ b4)) (b2 ++ b3 ++ b4) 12 (by simp) (by simp [hH])
    have r2 := hE2.reads' (H ++ ([] ++ b1 ++ b2 ++ b3 ++ b4)) (b3 ++ b4) (12 + b1.length) (by simp)
      (by simp [hH])
    have r3 := hE3.reads' (H ++ ([] ++ b1 ++ b2 ++ b3 ++ b4)) b4 (12 + b1.length + b2.length) (by simp)
      (by simp [hH]; omega)
    have r4 := hE4.reads' (H ++ ([] ++ b1 ++ b2 ++ b3 ++ b4)) [] (12 + b1.length + b2.length + b3.length) (by simp)
      (by simp [hH]; omega)
    simp only [decQuestions, decResources] at r1 r2 r3 r4
    rw [r1]; simp only [Res.ok_bind]
    rw [r2]; simp only [Res.ok_bind]
    rw [r3]; simp only [Res.ok_bind]
    rw [r4]; simp only [Res.ok_bind]
    rw [headerOfBits_bitsOfHeader m.hdr hop hrc]
  · intro r d hr hd
    have key : ∀ (sec : List Resource) (body bsec : Bytes) (ta tb : Option Table),
        packResourcesLoop none sec ⟨body, ta⟩ = .ok (⟨body ++ bsec, tb⟩, 0) → r ∈ sec →
        (∀ r ∈ sec, resourceWF r = true) → ∃ pre post, bsec = pre ++ (enc16 d.length ++ d ++ post) := by
      intro sec body bsec ta tb hp hmem hwf
      obtain ⟨off, t1', rb, t2', hpr, pre, post, e⟩ := packResourcesLoop_none_slices sec body ta bsec tb 0 hp r hmem
      obtain ⟨front, hf⟩ := packResource_raw_verbatim off t1' r d hd rb t2' hpr
      have hdl : d.length ≤ 65535 := by
        have := hwf r hmem
        simp only [resourceWF, Bool.and_eq_true, hd, rdataWF, decide_eq_true_eq] at this
        exact this.2.2
      refine ⟨pre ++ front, post, ?_⟩
      rw [e, hf, Nat.mod_eq_of_lt (by omega)]; simp
    rcases hr with hr | hr | hr
    · obtain ⟨pre, post, e⟩ := key _ _ _ _ _ hp2 hr ha
      exact ⟨H ++ ([] ++ b1) ++ pre, post ++ b3 ++ b4, by rw [e]; simp⟩
    · obtain ⟨pre, post, e⟩ := key _ _ _ _ _ hp3 hr hn
      exact ⟨H ++ ([] ++ b1 ++ b2) ++ pre, post ++ b4, by rw [e]; simp⟩
    · obtain ⟨pre, post, e⟩ := key _ _ _ _ _ hp4 hr hx
      exact ⟨H ++ ([] ++ b1 ++ b2 ++ b3) ++ pre, post, by rw [e]; simp⟩

end MosVerif.Wire
