/-
  Tie by translation (C07): the integer / boolean logic of `internal/netlist` (`Ipv6.cmp`, the range tests of
  `contains`, `Add`, `Build`, `Lookup`), of `MemoryCache.Get`'s retry budgets and of `NewMemoryCache`'s size clamp,
  translated mechanically from the current Go source, equals what the models use.
-/
import MosVerif.Generated.Translated
import MosVerif.Model.Netlist
import MosVerif.Model.MemCache
import MosVerif.Model.QCache
namespace MosVerif.Netlist
open MosVerif

theorem id_pure_any {α : Type} (x : α) : (pure x : Id α) = x := rfl

/-! ### internal/netlist -/

/-- ★ tie: `Ipv6.cmp` (whole function) on the uint64 halves -/
theorem c07_ipv6cmp_translated (a b : Ipv6) :
    a.cmp b = Translated.c07_ipv6cmp a.h.toNat a.l.toNat b.h.toNat b.l.toNat := by
  unfold Ipv6.cmp Translated.c07_ipv6cmp
  simp only [Id.run, id_pure_any, GT.gt, UInt64.lt_iff_toNat_lt]
  grind

/-- ★ tie: `ipRange.contains` is the translated condition applied to the two `cmp` calls of the source (the calls
    are the fragment's parameters: another call in the source and the translation fails) -/
theorem c07_contains_translated {V} (r : Range V) (ip : Ipv6) :
    r.contains ip = if Translated.c07_containsCond (r.start.cmp ip) (ip.cmp r.stop) then some r.v else none := by
  unfold Range.contains Translated.c07_containsCond
  by_cases h1 : r.start.cmp ip ≤ 0 <;> by_cases h2 : ip.cmp r.stop ≤ 0 <;> simp [h1, h2] <;> omega

/-- ★ tie: `ListBuilder.Add` refuses exactly when the translated `r.start.cmp(r.end) > 0` says so -/
theorem c07_builderAdd_translated {V} (b : List (Range V)) (start stop : Addr) (v : V) :
    builderAdd b start stop v =
      if !start.isValid || !stop.isValid then none
      else if Translated.c07_addRangeBad ((addr2Ipv6 start).cmp (addr2Ipv6 stop)) then none
      else some (b ++ [{ start := addr2Ipv6 start, stop := addr2Ipv6 stop, v := v }]) := by
  unfold builderAdd Translated.c07_addRangeBad
  by_cases h0 : (!start.isValid || !stop.isValid) = true
  · simp only [h0, if_true]
  · by_cases h1 : (addr2Ipv6 start).cmp (addr2Ipv6 stop) > 0 <;> simp [h0, h1] <;> omega

/-- ★ tie: `Build`'s overlap test between neighbours -/
theorem c07_overlapAdj_translated {V} (a b : Range V) (rest : List (Range V)) :
    overlapAdj (a :: b :: rest) = (Translated.c07_overlapCond (a.stop.cmp b.start) || overlapAdj (b :: rest)) := by
  rw [overlapAdj]
  unfold Translated.c07_overlapCond
  by_cases h : a.stop.cmp b.start ≥ 0 <;> simp [h] <;> omega

/-- ★ tie: `Lookup`'s `if i == 0 { return }` -/
theorem c07_lookupNone_translated (i : Nat) : lookupNone i ↔ Translated.c07_lookupNone i = true := by
  unfold lookupNone Translated.c07_lookupNone; grind

/-! ### internal/cache/mem.go -/

/-- ★ tie: the loop condition of `MemoryCache.Get` -/
theorem c07_getBudget_translated (retry : Nat) : MemCache.getBudget retry ↔ Translated.c07_getBudget retry = true := by
  unfold MemCache.getBudget Translated.c07_getBudget; grind

/-- ★ tie: `if misses++; misses < 3 { continue }`, in both models of the loop -/
theorem c07_getMisses_translated (misses : Nat) :
    (MemCache.getMissesCond misses ↔ Translated.c07_getMisses misses = true) ∧
    (QCache.getMissesCond misses ↔ Translated.c07_getMisses misses = true) := by
  unfold MemCache.getMissesCond QCache.getMissesCond Translated.c07_getMisses; grind

/-- ★ tie: `if uint64(size) > math.MaxUint32 { size = math.MaxUint32 }` for every size ≥ 0 (the model's sizes are
    naturals — that IS the range hypothesis: for a negative `size` Go's `uint64(size)` wraps to ≥ 2⁶³ and clamps,
    which the translation, reading the conversion as the identity, does not follow). -/
theorem c07_clampSize_translated (size : Nat) :
    ((QCache.clampSize size : Nat) : Int) = Translated.c07_clampSize (size : Int) := by
  unfold QCache.clampSize Translated.c07_clampSize
  simp only [Id.run, id_pure_any]
  grind

example : Translated.c07_clampSize (-1) = -1 := by decide

/-! ### app/router/cache.go: the lifetime cap -/

/-- the translated limit (`initCache`) followed by the translated cap (`Store`), as one expression -/
theorem c07_ttlApply_initMaxTtl (old M T : Int) :
    Translated.c07_ttlApply T (Translated.c08_initMaxTtl old M) =
      (let m := M * 1000000000
       let m := if m ≤ 0 then 21600000000000 else m
       let m := if m > 315360000000000000 then 315360000000000000 else m
       if T > m then m else T) := by
  unfold Translated.c07_ttlApply Translated.c08_initMaxTtl
  simp only [Id.run, id_pure_any, decide_eq_true_eq, Int.reduceMul]
  (repeat' split) <;> omega

theorem clampTtl_eq (mx ttl : Nat) : QCache.clampTtl mx ttl = min ttl (min mx 315360000) := by
  unfold QCache.clampTtl QCache.tenYears
  simp only [Nat.reduceMul]

/-- ★ tie: the model's `clampTtl` (whole seconds) is `initCache`'s limit (translated: `c08_initMaxTtl`) followed by
    `Store`'s `if ttl > c.maximumTtl { ttl = c.maximumTtl }`, for every positive configured maximum and every ttl
    (the translation multiplies in ℤ; the range hypothesis of the int64 product is `c08_initMaxTtl_translated`'s). -/
theorem c07_clampTtl_translated (old : Int) (mx ttl : Nat) (h0 : 0 < mx) :
    ((QCache.clampTtl mx ttl : Nat) : Int) * 1000000000 =
      Translated.c07_ttlApply ((ttl : Int) * 1000000000) (Translated.c08_initMaxTtl old (mx : Int)) := by
  rw [c07_ttlApply_initMaxTtl, clampTtl_eq]
  simp only
  (repeat' split) <;> omega

end MosVerif.Netlist
