/-
  Tie by translation (C01/C02): the DNS wire DECODER.  `MosVerif/Generated/TranslatedCodec.lean` is regenerated
  from the current Go source of /repo/internal/dnsmsg by the byte-slice mode of /verif/extract/gotolean against the
  prelude `Model/GoSem.lean`; the hand-written model `Model/Wire.lean` is proved EQUAL to it, for all byte strings
  and all offsets.  This file: the primitives of utils.go.
-/
import MosVerif.Generated.TranslatedCodec
namespace MosVerif.Wire
open MosVerif

@[simp] theorem Res.bind_ok' {α β} (a : α) (f : α → Res β) : (Res.ok a >>= f) = f a := rfl
@[simp] theorem Res.bind_err' {α β} (f : α → Res β) : ((Res.err : Res α) >>= f) = .err := rfl
@[simp] theorem Res.bind_panic' {α β} (f : α → Res β) : ((Res.panic : Res α) >>= f) = .panic := rfl
@[simp] theorem Res.pure_eq {α} (a : α) : (pure a : Res α) = .ok a := rfl

theorem goSem_sliceFrom (msg : Bytes) (off : Nat) : GoSem.sliceFrom msg off = sliceFrom msg off := rfl

/-- `unpackUint16Msg` -/
theorem u16At_translated (msg : Bytes) (off : Nat) : u16At msg off = Translated.unpackUint16Msg msg off := by
  unfold u16At Translated.unpackUint16Msg Translated.unpackUint16
  rw [goSem_sliceFrom]
  cases h : sliceFrom msg off with
  | err => rfl
  | panic => rfl
  | ok buf =>
    match buf with
    | [] => rfl
    | [_] => rfl
    | a :: b :: r => simp [GoSem.beUint16]

/-- `unpackUint32Msg` -/
theorem u32At_translated (msg : Bytes) (off : Nat) : u32At msg off = Translated.unpackUint32Msg msg off := by
  unfold u32At Translated.unpackUint32Msg
  rw [goSem_sliceFrom]
  cases h : sliceFrom msg off with
  | err => rfl
  | panic => rfl
  | ok buf =>
    match buf with
    | [] => rfl
    | [_] => rfl
    | [_, _] => rfl
    | [_, _, _] => rfl
    | a :: b :: c :: d :: r => simp [GoSem.beUint32]

/-- `unpackBytesMsgToBuffer` (the pool buffer is a plain copy) -/
theorem bytesAt_translated (msg : Bytes) (off l : Nat) : bytesAt msg off l = Translated.unpackBytesMsgToBuffer msg off l := by
  unfold bytesAt Translated.unpackBytesMsgToBuffer
  rw [goSem_sliceFrom]
  cases h : sliceFrom msg off with
  | err => rfl
  | panic => rfl
  | ok buf =>
    by_cases hl : buf.length < l
    · simp [hl]
    · have : l ≤ buf.length := by omega
      simp [hl, GoSem.sliceTo, this]

/-- `unpackBytesMsg`: `dst` (a fixed-size array slice `r.A[:]`) receives `len(dst)` octets -/
theorem bytesAt_translated_dst (msg : Bytes) (off : Nat) (dst : Bytes) :
    bytesAt msg off dst.length = Translated.unpackBytesMsg msg off dst := by
  unfold bytesAt Translated.unpackBytesMsg
  rw [goSem_sliceFrom]
  cases h : sliceFrom msg off with
  | err => rfl
  | panic => rfl
  | ok buf =>
    by_cases hl : buf.length < dst.length
    · simp [hl]
    · have h1 : dst.length ≤ buf.length := by omega
      have h2 : List.drop buf.length dst = [] := List.drop_eq_nil_of_le h1
      simp [hl, GoSem.copy, h2, Nat.min_eq_left h1]
      omega

end MosVerif.Wire
