/-
  C14 — link to C05's interleaving model of the pipelined connection (`Model/Pipeline.lean`):
  in that model too a closed connection stays closed and wakes every exchange waiting on it.
-/
import MosVerif.Model.Pipeline
namespace MosVerif.Retry
open MosVerif

theorem pl_reserve_closed (c : Pipeline.Conn) : c.reserve.closed = c.closed := by
  unfold Pipeline.Conn.reserve; split <;> rfl

theorem pl_addQueueC_closed (c : Pipeline.Conn) (ch : Nat) : (c.addQueueC ch).1.closed = c.closed := by
  unfold Pipeline.Conn.addQueueC
  simp only
  split <;> split <;> rfl

theorem pl_deleteQueueC_closed (c : Pipeline.Conn) (q : Nat) (h : c.closed = true) : (c.deleteQueueC q).closed = true := by
  simp [Pipeline.Conn.deleteQueueC, h]

/-- in C05's model a closed connection stays closed, whatever any exchange, read loop or server does -/
theorem pl_step_closed_mono (cfg : Pipeline.Cfg) (s : Pipeline.State) (st : Pipeline.Step) (c : Nat)
    (h : (s.conns c).closed = true) : ((Pipeline.step cfg s st).conns c).closed = true := by
  have hupd : ∀ (c' : Nat) (n : Pipeline.Conn), ((s.conns c').closed = true → n.closed = true) →
      (Pipeline.upd s.conns c' n c).closed = true := by
    intro c' n hn
    by_cases hc : c = c'
    · subst hc; simpa using hn h
    · simpa [Pipeline.upd, hc] using h
  cases st <;> simp only [Pipeline.step]
  all_goals (repeat' split)
  all_goals first
    | exact h
    | (apply hupd; intro hh; first
        | (rw [pl_reserve_closed]; exact hh)
        | (exact pl_deleteQueueC_closed _ _ hh)
        | rfl
        | (simp_all; done))
    | skip
  all_goals
    rename_i heq
    apply hupd
    intro hh
    have h2 := congrArg (fun p => p.1.closed) heq
    simp only [pl_addQueueC_closed] at h2
    rw [← h2]
    exact hh


theorem pl_exec_closed_mono (cfg : Pipeline.Cfg) (s : Pipeline.State) (l : List Pipeline.Step) (c : Nat)
    (h : (s.conns c).closed = true) : ((Pipeline.exec cfg s l).conns c).closed = true := by
  induction l generalizing s with
  | nil => exact h
  | cons st t ih => exact ih _ (pl_step_closed_mono cfg s st c h)

theorem pl_close_closes (cfg : Pipeline.Cfg) (s : Pipeline.State) (c : Nat) :
    ((Pipeline.step cfg s (.close c)).conns c).closed = true := by
  simp [Pipeline.step, Pipeline.upd]

/-- a failed write that aborts the connection (`closes = true`) closes it as well -/
theorem pl_write_fail_closes (cfg : Pipeline.Cfg) (s : Pipeline.State) (e c q ch : Nat)
    (h : s.pcs e = .registered c q ch) :
    ((Pipeline.step cfg s (.write e false true)).conns c).closed = true := by
  simp [Pipeline.step, h, Pipeline.upd]

end MosVerif.Retry
