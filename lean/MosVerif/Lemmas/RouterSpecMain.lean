/-
  The request-handling model satisfies its own executable specification (RouterIO.spec).
-/
import MosVerif.Lemmas.RouterSpecReq
import MosVerif.Lemmas.OptPop
namespace MosVerif.Router
open MosVerif MosVerif.Wire MosVerif.RouterIO

/-! ### the shape of `handle` -/

/-- the header fix-up at the end of `handleReqMsg` -/
def fixHdr (m resp : Msg) : Msg :=
  { resp with hdr := { resp.hdr with id := m.hdr.id, response := true, opcode := m.hdr.opcode, ra := true, rd := m.hdr.rd } }

/-- the EDNS0 fix-up of `handleReqMsg` -/
def optFix (m resp : Msg) : Msg :=
  if queryHasOptAny m then addOrReplaceOpt resp else removeEDNS0 resp

/-- the NOTIMP predicate of `handleReqMsg` -/
def notImpl (m : Msg) : Bool := m.hdr.response || !m.hdr.rd || m.hdr.opcode != 0 || m.questions.length != 1

theorem handle_notImpl (env : Env) (m : Msg) (h : notImpl m = true) :
    (handle env m).resp = fixHdr m (makeEmptyRespM m rcodeNotImp) ∧ (handle env m).forwards = [] := by
  unfold notImpl at h
  unfold handle
  simp [h, fixHdr]

theorem handle_impl (env : Env) (m : Msg) (q0 : Question) (h : notImpl m = false) (hq : m.questions = [q0]) :
    (handle env m).resp = fixHdr m (optFix m (handleReq env ⟨lowerName q0.name, q0.qtype, q0.qclass⟩).1) ∧
    (handle env m).forwards = (handleReq env ⟨lowerName q0.name, q0.qtype, q0.qclass⟩).2.2 := by
  unfold notImpl at h
  unfold handle
  rw [hq] at h ⊢
  simp only [h, Bool.false_eq_true, ↓reduceIte, fixHdr, optFix]
  refine ⟨?_, ?_⟩ <;> first | trivial | rfl

theorem notImpl_false (m : Msg) (h : notImpl m = false) :
    m.hdr.response = false ∧ m.hdr.rd = true ∧ m.hdr.opcode = 0 ∧ ∃ q0, m.questions = [q0] := by
  unfold notImpl at h
  simp only [Bool.or_eq_false_iff, Bool.not_eq_false', bne_eq_false_iff_eq] at h
  obtain ⟨⟨⟨h1, h2⟩, h3⟩, h4⟩ := h
  refine ⟨h1, h2, h3, ?_⟩
  match hm : m.questions, h4 with
  | [q0], _ => exact ⟨q0, rfl⟩

/-- the specification's "supported" flag is the negation of the model's NOTIMP predicate -/
theorem supported_eq (m : Msg) :
    (!m.hdr.response && m.hdr.rd && m.hdr.opcode == 0 && m.questions.length == 1) = !notImpl m := by
  unfold notImpl
  cases m.hdr.response <;> cases m.hdr.rd <;> simp [bne]

/-! ### `handleReq` without the rule index -/

/-- response and forwards of `handleReq` as a function of the first applicable rule -/
def routed (env : Env) (q : Question) : Msg × List (Nat × Bytes) :=
  match env.rules.find? (fun r => r.applies q.name) with
  | none => (makeEmptyResp q rcodeRefused, [])
  | some r =>
    if r.reject > 0 then (makeEmptyResp q r.reject, [])
    else match r.upstream with
      | none => (makeEmptyResp q rcodeRefused, [])
      | some u =>
        match packReq env q with
        | .ok wire =>
          match env.ups[u]? with
          | some (.reply resp) =>
            if isRespOfQuestion resp q then (stripOpt resp, [(u, wire)])
            else (makeEmptyResp q rcodeServFail, [(u, wire)])
          | _ => (makeEmptyResp q rcodeServFail, [(u, wire)])
        | _ => (makeEmptyResp q rcodeServFail, [])

theorem find_some_idx (rules : List Rule) (p : Rule → Bool) (r : Rule) (h : rules.find? p = some r) :
    ∃ j, rules.findIdx? p = some j := by
  cases hj : rules.findIdx? p with
  | some j => exact ⟨j, rfl⟩
  | none =>
    rw [List.findIdx?_eq_none_iff] at hj
    have hp := List.find?_some h
    have hm := List.mem_of_find?_eq_some h
    rw [hj r hm] at hp
    cases hp

theorem handleReq_routed (env : Env) (q : Question) :
    ((handleReq env q).1, (handleReq env q).2.2) = routed env q := by
  unfold handleReq routed
  rw [find_spec]
  cases hf : env.rules.find? (fun r => r.applies q.name) with
  | none => cases env.rules.findIdx? (fun r => r.applies q.name) <;> rfl
  | some r =>
    obtain ⟨j, hj⟩ := find_some_idx _ _ _ hf
    rw [hj]
    simp only
    by_cases hr : r.reject > 0
    · simp only [isReject, decide_eq_true_eq, hr, ↓reduceIte]
    · simp only [isReject, decide_eq_true_eq, hr, ↓reduceIte]
      cases r.upstream with
      | none => rfl
      | some u =>
        simp only
        cases packReq env q with
        | err => rfl
        | panic => rfl
        | ok wire =>
          simp only
          cases env.ups[u]? with
          | none => rfl
          | some o =>
            cases o with
            | fail => rfl
            | reply resp =>
              simp only
              by_cases hq : isRespOfQuestion resp q = true
              · simp only [hq, ↓reduceIte]
              · simp only [hq, Bool.false_eq_true, ↓reduceIte]

/-! ### the specification, cut at its joints

  `specForwarded`, `specRouted` are the corresponding sub-terms of `RouterIO.spec`, copied verbatim;
  `spec_supported` / `specRouted_forward` prove that `spec` really is their composition, so nothing here
  can drift away from the judgement the harness applies to the Go code. -/

/-- what `spec` demands once the single forwarded query `wire` went to the right upstream `u` -/
def specForwarded (env : Env) (q : Question) (u : Nat) (r : Msg) (wire : Bytes) : String :=
  match unpackMsg wire with
  | .ok fm =>
    if fm.questions ≠ [q] then "viol:C10:forwarded-question"
    else if !fm.hdr.rd ∨ fm.hdr.response then "viol:C10:forwarded-flags"
    else if !fm.answers.isEmpty ∨ !fm.authorities.isEmpty then "viol:C12:forwarded-records"
    else match fm.additionals with
      | [opt] =>
        if opt.rtype ≠ typeOPT then "viol:C12:forwarded-additional"
        else
          if opt.rdata ≠ .raw (wantEcs env) then "viol:C12:ecs"
          else
            match env.ups[u]? with
            | some (.reply um) =>
              if isRespOfQuestion um q then
                (if r.hdr.rcode ≠ um.hdr.rcode then "viol:C03:relayed-rcode"
                 else if r.answers ≠ relayed um.answers ∨ r.authorities ≠ relayed um.authorities then "viol:C03:relayed-records"
                 else "ok")
              else (if r.hdr.rcode ≠ rcodeServFail then "viol:C03:servfail" else "ok")
            | _ => if r.hdr.rcode ≠ rcodeServFail then "viol:C03:servfail" else "ok"
      | _ => "viol:C12:forwarded-opt-count"
  | _ => "viol:C10:forwarded-undecodable"

/-- the C10 part of `spec` (and the relay part of C03) for a supported query with first question `q0` -/
def specRouted (env : Env) (q0 : Question) (o : ImplOut) : String :=
  let r := o.resp
  let qname := lowerName q0.name
  let first := env.rules.find? (fun ru => ru.applies qname)
  let expectedFw : Option Nat := match first with
    | some ru => if ru.reject > 0 then none else ru.upstream
    | none => none
  match expectedFw with
  | none =>
    if !o.forwards.isEmpty then "viol:C10:contacted-upstream"
    else match first with
      | some ru => if ru.reject > 0 then (if r.hdr.rcode ≠ ru.reject % 16 then "viol:C10:reject-rcode" else "ok")
                   else (if r.hdr.rcode ≠ rcodeRefused then "viol:C10:refused" else "ok")
      | none => if r.hdr.rcode ≠ rcodeRefused then "viol:C10:refused" else "ok"
  | some u =>
    match o.forwards with
    | [(k, wire)] =>
      if k ≠ u then "viol:C10:wrong-upstream"
      else specForwarded env ⟨qname, q0.qtype, q0.qclass⟩ u r wire
    | [] => "viol:C10:not-forwarded"
    | _ => "viol:C10:forwarded-more-than-once"

/-- the specification's "the query contained an OPT record" is the model's `queryOpt(m) != nil` -/
theorem queryAny_eq (m : Msg) :
    (m.answers ++ m.authorities ++ m.additionals).any (fun r => r.rtype == typeOPT) = queryHasOptAny m := by
  unfold queryHasOptAny
  simp only [List.any_append]
  cases m.answers.any (fun r => r.rtype == typeOPT) <;> cases m.authorities.any (fun r => r.rtype == typeOPT) <;>
    cases m.additionals.any (fun r => r.rtype == typeOPT) <;> rfl

/-- the facts about a response that the C03-header, C03-question and C12-client-OPT checks of `spec` ask for -/
structure RespOK (m : Msg) (q0 : Question) (r : Msg) : Prop where
  id : r.hdr.id = m.hdr.id
  opcode : r.hdr.opcode = m.hdr.opcode
  response : r.hdr.response = true
  ra : r.hdr.ra = true
  rd : r.hdr.rd = m.hdr.rd
  questions : r.questions = [] ∨ ∃ rq, r.questions = [rq] ∧ lowerName rq.name = lowerName q0.name ∧
    rq.qtype = q0.qtype ∧ rq.qclass = q0.qclass
  optCount : optCount r = if queryHasOptAny m then 1 else 0
  optContent : queryHasOptAny m = true →
    r.additionals.filter (fun x => x.rtype == typeOPT) = [newEDNS0 1200 []]

/-- `spec` on a supported query whose answer passes the header / question / OPT checks is `specRouted` -/
theorem spec_supported (env : Env) (m : Msg) (q0 : Question) (o : ImplOut) (hn : notImpl m = false)
    (hq : m.questions = [q0]) (h : RespOK m q0 o.resp) : spec env m o = specRouted env q0 o := by
  have hcont : ¬ (queryHasOptAny m = true ∧
      ¬ List.filter (fun x => x.rtype == typeOPT) o.resp.additionals = [newEDNS0 1200 []]) := by
    intro ⟨h1, h2⟩
    exact h2 (h.optContent h1)
  unfold spec
  simp only [supported_eq, hn, queryAny_eq]
  simp only [hq, h.id, h.opcode, h.response, h.ra, h.rd, ne_eq, not_true_eq_false, ↓reduceIte,
    Bool.not_true, Bool.false_eq_true, Bool.not_false, h.optCount]
  rcases h.questions with h0 | ⟨rq, h1, h2, h3, h4⟩
  · simp only [h0, List.length_nil, gt_iff_lt, Nat.not_lt_zero, ↓reduceIte, Bool.false_eq_true]
    rw [if_neg hcont]
    rfl
  · simp only [h1, h2, h3, h4, List.length_cons, List.length_nil, Nat.zero_add, gt_iff_lt, Nat.lt_irrefl, ↓reduceIte,
      BEq.rfl, Bool.and_self, Bool.not_true, Bool.false_eq_true]
    rw [if_neg hcont]
    rfl

/-! ### unsupported queries -/

theorem spec_notImpl (env : Env) (m : Msg) (hn : notImpl m = true) :
    spec env m ⟨fixHdr m (makeEmptyRespM m rcodeNotImp), []⟩ = "ok" := by
  unfold spec
  simp only [supported_eq, hn]
  cases hq : m.questions with
  | nil => simp [fixHdr, makeEmptyRespM, hq, optCount]
  | cons q0 rest => simp [fixHdr, makeEmptyRespM, hq, optCount]

/-! ### the client-side checks on the model's answer -/

theorem optCount_parts (r : Msg) :
    optCount r = (r.answers.filter (fun x => x.rtype == typeOPT)).length
      + (r.authorities.filter (fun x => x.rtype == typeOPT)).length
      + (r.additionals.filter (fun x => x.rtype == typeOPT)).length := by
  simp only [optCount, List.filter_append, List.length_append]

theorem countOpt_eq_filter (rs : List Resource) :
    countOpt rs = (rs.filter (fun x => x.rtype == typeOPT)).length := by
  unfold countOpt
  rw [List.countP_eq_length_filter]
  rfl

/-- `removeOpt` leaves no OPT record -/
theorem removeOpt_noOpt (rs : List Resource) : (removeOpt rs).filter (fun x => x.rtype == typeOPT) = [] := by
  simp [removeOpt, List.filter_eq_nil_iff]

/-- `dnsmsg.RemoveEDNS0` leaves no OPT record in any section -/
theorem stripOpt_noOpt (x : Msg) : optCount (stripOpt x) = 0 := by
  rw [optCount_parts]
  simp only [stripOpt, removeOpt_noOpt, List.length_nil]

theorem makeEmptyResp_noOpt (q : Question) (rc : Nat) : optCount (makeEmptyResp q rc) = 0 := rfl

@[simp] theorem fixHdr_questions (m x : Msg) : (fixHdr m x).questions = x.questions := rfl
@[simp] theorem fixHdr_answers (m x : Msg) : (fixHdr m x).answers = x.answers := rfl
@[simp] theorem fixHdr_authorities (m x : Msg) : (fixHdr m x).authorities = x.authorities := rfl
@[simp] theorem fixHdr_additionals (m x : Msg) : (fixHdr m x).additionals = x.additionals := rfl
@[simp] theorem fixHdr_rcode (m x : Msg) : (fixHdr m x).hdr.rcode = x.hdr.rcode := rfl
@[simp] theorem optFix_questions (m x : Msg) : (optFix m x).questions = x.questions := by
  unfold optFix; split <;> rfl
@[simp] theorem optFix_answers (m x : Msg) : (optFix m x).answers = x.answers := by
  unfold optFix; split <;> rfl
@[simp] theorem optFix_authorities (m x : Msg) : (optFix m x).authorities = x.authorities := by
  unfold optFix; split <;> rfl
@[simp] theorem optFix_hdr (m x : Msg) : (optFix m x).hdr = x.hdr := by
  unfold optFix; split <;> rfl

theorem countOpt_zero_filter (rs : List Resource) (h : countOpt rs = 0) :
    rs.filter (fun x => x.rtype == typeOPT) = [] := by
  unfold countOpt at h
  rw [List.countP_eq_length_filter, List.length_eq_zero_iff] at h
  exact h

/-- the EDNS0 fix-up leaves exactly the proxy's own OPT (query with an OPT somewhere) or none (query without),
    given a response without OPT records -/
theorem optFix_opt (m x : Msg) (hx : optCount x = 0) :
    optCount (optFix m x) = (if queryHasOptAny m then 1 else 0) ∧
    (queryHasOptAny m = true →
      (optFix m x).additionals.filter (fun r => r.rtype == typeOPT) = [newEDNS0 1200 []]) := by
  rw [optCount_parts] at hx
  have ha : (x.answers.filter (fun r => r.rtype == typeOPT)).length = 0 := by omega
  have hn : (x.authorities.filter (fun r => r.rtype == typeOPT)).length = 0 := by omega
  have hx' : countOpt x.additionals = 0 := by rw [countOpt_eq_filter]; omega
  have hpop : countOpt (popEDNS0 x.additionals).2 = 0 := by rw [countOpt_pop]; omega
  have hpopf := countOpt_zero_filter _ hpop
  have hnew : newEDNS0 udpSize [] = newEDNS0 1200 [] := rfl
  unfold optFix
  by_cases ho : queryHasOptAny m = true
  · simp only [ho, ↓reduceIte, forall_const]
    constructor
    · rw [optCount_parts]
      simp only [addOrReplaceOpt, ha, hn, List.filter_append, hpopf, hnew]
      rfl
    · simp only [addOrReplaceOpt, List.filter_append, hpopf, hnew]
      rfl
  · simp only [ho, Bool.false_eq_true, ↓reduceIte, false_implies, and_true]
    rw [optCount_parts]
    simp only [removeEDNS0, ha, hn, hpopf, List.length_nil]

theorem respOK_fix (m : Msg) (q0 : Question) (x : Msg)
    (hquest : x.questions = [] ∨ ∃ rq, x.questions = [rq] ∧ lowerName rq.name = lowerName q0.name ∧
      rq.qtype = q0.qtype ∧ rq.qclass = q0.qclass)
    (hx : optCount x = 0) : RespOK m q0 (fixHdr m (optFix m x)) := by
  obtain ⟨h1, h2⟩ := optFix_opt m x hx
  exact {
    id := rfl, opcode := rfl, response := rfl, ra := rfl, rd := rfl
    questions := by simpa using hquest
    optCount := h1
    optContent := h2 }

/-! ### the routing checks on the model's answer -/

/-- what `forward` answers once the query went out to upstream `u` -/
def relay (env : Env) (q : Question) (u : Nat) : Msg :=
  match env.ups[u]? with
  | some (.reply resp) => if isRespOfQuestion resp q then stripOpt resp else makeEmptyResp q rcodeServFail
  | _ => makeEmptyResp q rcodeServFail

theorem routed_forward (env : Env) (q : Question) (ru : Rule) (u : Nat) (wire : Bytes)
    (hf : env.rules.find? (fun r => r.applies q.name) = some ru) (hr : ¬ ru.reject > 0)
    (hu : ru.upstream = some u) (hp : packReq env q = .ok wire) :
    routed env q = (relay env q u, [(u, wire)]) := by
  unfold routed relay
  simp only [hf, hr, ↓reduceIte, hu, hp]
  cases env.ups[u]? with
  | none => rfl
  | some o =>
    cases o with
    | fail => rfl
    | reply resp =>
      simp only
      by_cases hq : isRespOfQuestion resp q = true
      · simp only [hq, ↓reduceIte]
      · simp only [hq, Bool.false_eq_true, ↓reduceIte]

/-- the forwarded query and the relayed answer pass the forwarding part of `spec` -/
theorem specForwarded_model (env : Env) (m : Msg) (q : Question) (u : Nat) (wire : Bytes)
    (hdec : unpackMsg wire = .ok (reqMsg env q)) :
    specForwarded env q u (fixHdr m (optFix m (relay env q u))) wire = "ok" := by
  unfold specForwarded relay
  rw [hdec, reqMsg_eq]
  simp only [ownOpt, emptyHdr, ne_eq, not_true_eq_false, ↓reduceIte, Bool.not_true, Bool.false_eq_true, or_self,
    List.isEmpty_nil, fixHdr_rcode, optFix_hdr, fixHdr_answers, optFix_answers, fixHdr_authorities,
    optFix_authorities]
  cases env.ups[u]? with
  | none => simp [makeEmptyResp]
  | some o =>
    cases o with
    | fail => simp [makeEmptyResp]
    | reply resp =>
      simp only
      by_cases hq : isRespOfQuestion resp q = true
      · simp [hq, stripOpt, removeOpt, relayed]
      · simp [hq, makeEmptyResp]

/-- ★ the model's answer and forwards pass the C10 part of `spec`: first-match rule, reject code, REFUSED,
    exactly one query to exactly the selected upstream, which decodes to the expected message -/
theorem specRouted_model (env : Env) (m : Msg) (q0 : Question)
    (hq0 : ∀ ru u, env.rules.find? (fun r => r.applies (lowerName q0.name)) = some ru → ru.reject = 0 →
      ru.upstream = some u → questionWF q0 = true)
    (hrej : ∀ ru, env.rules.find? (fun r => r.applies (lowerName q0.name)) = some ru → ru.reject < 16) :
    specRouted env q0 ⟨fixHdr m (optFix m (routed env ⟨lowerName q0.name, q0.qtype, q0.qclass⟩).1),
      (routed env ⟨lowerName q0.name, q0.qtype, q0.qclass⟩).2⟩ = "ok" := by
  cases hf : env.rules.find? (fun r => r.applies (lowerName q0.name)) with
  | none =>
    unfold specRouted routed
    simp [hf, makeEmptyResp]
  | some ru =>
    by_cases hr : ru.reject > 0
    · unfold specRouted routed
      simp [hf, hr, makeEmptyResp, Nat.mod_eq_of_lt (hrej ru hf)]
    · cases hu : ru.upstream with
      | none =>
        unfold specRouted routed
        simp [hf, hr, hu, makeEmptyResp]
      | some u =>
        obtain ⟨wire, hp, hdec⟩ := packReq_decodes env ⟨lowerName q0.name, q0.qtype, q0.qclass⟩ (questionWF_lower q0 (hq0 ru u hf (by omega) hu))
        have hrt := routed_forward env ⟨lowerName q0.name, q0.qtype, q0.qclass⟩ ru u wire hf hr hu hp
        rw [hrt]
        unfold specRouted
        simp only [hf, hr, ↓reduceIte, hu, ne_eq, not_true_eq_false]
        exact specForwarded_model env m _ u wire hdec

/-! ### assembling -/

theorem routed_fst (env : Env) (q : Question) : (routed env q).1 = (handleReq env q).1 :=
  (congrArg Prod.fst (handleReq_routed env q)).symm

theorem routed_snd (env : Env) (q : Question) : (routed env q).2 = (handleReq env q).2.2 :=
  (congrArg Prod.snd (handleReq_routed env q)).symm

/-- what `handleReq` returns carries no OPT record in any section: a locally built empty response, or an
    upstream reply after `dnsmsg.RemoveEDNS0` -/
theorem routed_noOpt (env : Env) (q : Question) : optCount (routed env q).1 = 0 := by
  have h0 : ∀ rc, optCount (makeEmptyResp q rc) = 0 := makeEmptyResp_noOpt q
  unfold routed
  cases env.rules.find? (fun r => r.applies q.name) with
  | none => exact h0 _
  | some ru =>
    simp only
    by_cases hr : ru.reject > 0
    · simp only [hr, ↓reduceIte]; exact h0 _
    · simp only [hr, ↓reduceIte]
      cases ru.upstream with
      | none => exact h0 _
      | some u =>
        simp only
        cases packReq env q with
        | err => exact h0 _
        | panic => exact h0 _
        | ok wire =>
          simp only
          cases env.ups[u]? with
          | none => exact h0 _
          | some o =>
            cases o with
            | fail => exact h0 _
            | reply resp =>
              simp only
              by_cases hq : isRespOfQuestion resp q = true
              · simp only [hq, ↓reduceIte]; exact stripOpt_noOpt resp
              · simp only [hq, Bool.false_eq_true, ↓reduceIte]; exact h0 _

theorem routed_questions (env : Env) (q0 : Question) :
    let x := (routed env ⟨lowerName q0.name, q0.qtype, q0.qclass⟩).1
    x.questions = [] ∨ ∃ rq, x.questions = [rq] ∧ lowerName rq.name = lowerName q0.name ∧
      rq.qtype = q0.qtype ∧ rq.qclass = q0.qclass := by
  intro x
  right
  have hx : x = (handleReq env ⟨lowerName q0.name, q0.qtype, q0.qclass⟩).1 := routed_fst env _
  rcases handleReq_questions env ⟨lowerName q0.name, q0.qtype, q0.qclass⟩ with h | ⟨rq, h, hc, ht, hn⟩
  · exact ⟨⟨lowerName q0.name, q0.qtype, q0.qclass⟩, by rw [hx, h], lowerName_idem _, rfl, rfl⟩
  · exact ⟨rq, by rw [hx, h], by rw [hn]; exact lowerName_idem _, ht, hc⟩

/-- ★ supported queries, hypotheses restricted to the path the query takes (`ru` is the deciding rule) -/
theorem spec_model_supported (env : Env) (m : Msg) (q0 : Question) (hn : notImpl m = false) (hq : m.questions = [q0])
    (hwf : ∀ ru u, env.rules.find? (fun r => r.applies (lowerName q0.name)) = some ru → ru.reject = 0 →
      ru.upstream = some u → questionWF q0 = true)
    (hrej : ∀ ru, env.rules.find? (fun r => r.applies (lowerName q0.name)) = some ru → ru.reject < 16) :
    spec env m ⟨(handle env m).resp, (handle env m).forwards⟩ = "ok" := by
  obtain ⟨h1, h2⟩ := handle_impl env m q0 hn hq
  rw [h1, h2, ← routed_fst, ← routed_snd]
  rw [spec_supported env m q0 _ hn hq
    (respOK_fix m q0 _ (routed_questions env q0) (routed_noOpt env _))]
  exact specRouted_model env m q0 hwf hrej

/-- ★ unsupported queries: no hypothesis at all -/
theorem spec_model_notImpl (env : Env) (m : Msg) (hn : notImpl m = true) :
    spec env m ⟨(handle env m).resp, (handle env m).forwards⟩ = "ok" := by
  obtain ⟨h1, h2⟩ := handle_notImpl env m hn
  rw [h1, h2]
  exact spec_notImpl env m hn

/-- ★★ The model satisfies its own executable specification: for every environment and every query whose
    questions are well formed, with reject codes that fit the 4-bit RCODE field, `spec` judges the model's answer and forwards "ok". -/
theorem spec_model (env : Env) (m : Msg)
    (hq : ∀ q ∈ m.questions, questionWF q = true)
    (hrej : ∀ ru ∈ env.rules, ru.reject < 16) :
    spec env m ⟨(handle env m).resp, (handle env m).forwards⟩ = "ok" := by
  cases hn : notImpl m with
  | true => exact spec_model_notImpl env m hn
  | false =>
    obtain ⟨_, _, _, q0, hq0⟩ := notImpl_false m hn
    exact spec_model_supported env m q0 hn hq0
      (fun _ _ _ _ _ => hq q0 (by rw [hq0]; exact List.mem_singleton.mpr rfl))
      (fun ru hf => hrej ru (List.mem_of_find?_eq_some hf))

end MosVerif.Router
