/-
  C04 ∘ C07: the composed protocol model of `Model/System` works on abstract keys (`Key = Nat`, "a key stands for
  (lower-cased name, class, type, client group)").  Here the abstraction is discharged: a request carries a concrete
  question and the client's group label, its key is the byte string `cacheCtl` really builds (`CacheKey.reqKey`,
  whose layout is `CacheKey.keyLayout`, `Props/C07.key_layout`), numbered injectively into `Nat`.  The theorems of
  `Props/C04` then speak of questions: whatever the schedule, the data a request answers with is the upstream's
  answer for a question with the same lower-cased name, class, type and client group.
-/
import MosVerif.Lemmas.SystemInv
import MosVerif.Lemmas.CacheKeyLemmas
namespace MosVerif.SystemConcrete
open MosVerif MosVerif.System MosVerif.CacheKey

/-- bijective base-256 numbering of byte strings -/
def enc : Bytes → Nat
  | [] => 0
  | b :: bs => b.toNat + 1 + 256 * enc bs

def dec (n : Nat) : Bytes :=
  if h : n = 0 then [] else UInt8.ofNat ((n - 1) % 256) :: dec ((n - 1) / 256)
termination_by n
decreasing_by omega

theorem dec_enc (l : Bytes) : dec (enc l) = l := by
  induction l with
  | nil => rw [enc, dec]; simp
  | cons b bs ih =>
    have hb : b.toNat < 256 := b.toNat_lt
    rw [enc, dec]
    have h0 : b.toNat + 1 + 256 * enc bs ≠ 0 := by omega
    simp only [h0, ↓reduceDIte]
    have h1 : (b.toNat + 1 + 256 * enc bs - 1) % 256 = b.toNat := by omega
    have h2 : (b.toNat + 1 + 256 * enc bs - 1) / 256 = enc bs := by omega
    rw [h1, h2, ih]
    simp

theorem enc_inj {a b : Bytes} (h : enc a = enc b) : a = b := by
  have := congrArg dec h
  rwa [dec_enc, dec_enc] at this

/-- a request as the handler sees it: the question and the client's group label (ip marker) -/
structure Req where
  q : Question
  mark : Bytes

/-- the byte string `cacheCtl.Get/Store` use as the key of the request (after `ToLowerName`) -/
def layoutOf (r : Req) : Bytes := keyLayout { r.q with name := toLowerName r.q.name } r.mark

/-- … and its number: the abstract key of `Model/System` -/
def keyOf (r : Req) : Key := enc (layoutOf r)

theorem layoutOf_is_reqKey (dirty : Bytes) (r : Req) : reqKey dirty r.q r.mark = some (layoutOf r) := by
  unfold reqKey layoutOf
  exact cacheKey_eq dirty _ r.mark

/-- two requests share a key exactly when they agree on the lower-cased name, class, type and group -/
theorem keyOf_eq_iff {r₁ r₂ : Req} (h₁ : WfName63 r₁.q.name) (h₂ : WfName63 r₂.q.name) :
    keyOf r₁ = keyOf r₂ ↔
      (toLowerName r₁.q.name = toLowerName r₂.q.name ∧ r₁.q.cls = r₂.q.cls ∧ r₁.q.typ = r₂.q.typ ∧ r₁.mark = r₂.mark) := by
  constructor
  · intro h
    have hl := enc_inj h
    unfold layoutOf at hl
    obtain ⟨hq, hm⟩ := keyLayout_inj (wf_toLowerName h₁) (wf_toLowerName h₂) hl
    simp only [Question.mk.injEq] at hq
    exact ⟨hq.1, hq.2.1, hq.2.2, hm⟩
  · rintro ⟨hn, hc, ht, hm⟩
    unfold keyOf layoutOf
    simp only [hn, hc, ht, hm]

/-- the question a request asked is never altered by any step of any request -/
theorem run_q (f : Key → Val) (s : State) (steps : List Step) (t : Nat) :
    ((run f s steps).threads[t]?).map (·.q) = (s.threads[t]?).map (·.q) := by
  induction steps generalizing s with
  | nil => rfl
  | cons st rest ih =>
    show ((run f (step f s st) rest).threads[t]?).map (·.q) = _
    rw [ih, step_q]

/-- ★ the composed statement on concrete questions: the upstream answers a query as a function `F` of what
    identifies it (the key layout: lower-cased name, class, type, group); for EVERY interleaving of any number of
    requests, a request that answers with data answers with `F` of ITS OWN identification. -/
theorem answers_own_concrete (F : Bytes → Val) (reqs : List Req) (steps : List Step) (t : Nat) (th : Thread)
    (v : Val) (ht : (run (fun k => F (dec k)) (init (reqs.map keyOf)) steps).threads[t]? = some th)
    (hd : th.stage = .done (some v)) :
    ∃ r, reqs[t]? = some r ∧ v = F (layoutOf r) := by
  have hinv := inv_run (fun k => F (dec k)) (init (reqs.map keyOf)) steps (inv_init _ _)
  have hv := hinv.done_ok t th v ht hd
  -- the thread's question is the initial one
  have hq := run_q (fun k => F (dec k)) (init (reqs.map keyOf)) steps t
  rw [ht] at hq
  simp only [init, List.getElem?_map, Option.map_some, Option.map_map] at hq
  cases hr : reqs[t]? with
  | none => simp [hr] at hq
  | some r =>
    simp [hr] at hq
    refine ⟨r, rfl, ?_⟩
    rw [hv, hq, keyOf, dec_enc]

/-- ★ consequence for two requests of different identification: whatever the schedule, the data of one is never
    the other one's unless the upstream itself answers both alike. -/
theorem never_anothers_answer (F : Bytes → Val) (reqs : List Req) (steps : List Step) (t u : Nat) (th : Thread)
    (v : Val) (r ru : Req)
    (ht : (run (fun k => F (dec k)) (init (reqs.map keyOf)) steps).threads[t]? = some th)
    (hd : th.stage = .done (some v)) (hr : reqs[t]? = some r) (_hu : reqs[u]? = some ru)
    (hne : F (layoutOf ru) ≠ F (layoutOf r)) : v ≠ F (layoutOf ru) := by
  obtain ⟨r', hr', hv⟩ := answers_own_concrete F reqs steps t th v ht hd
  rw [hr] at hr'
  cases hr'
  rw [hv]
  exact fun h => hne h.symm

end MosVerif.SystemConcrete
