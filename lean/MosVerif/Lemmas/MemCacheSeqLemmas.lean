/-
  The sequential "otter as a map + entry pool" layer (C07): recycling entries through the pool is
  invisible — the layer refines a plain finite map.
-/
import MosVerif.Model.MemCache
import MosVerif.Lemmas.MemCacheLemmas
set_option linter.unusedSectionVars false
set_option linter.unusedSimpArgs false
namespace MosVerif.MemCache

variable {K V : Type} [Inhabited K] [DecidableEq K]

structure SeqInv (s : Seq K V) : Prop where
  /-- a mapped entry holds its own key and a value -/
  own : ∀ k e, s.map k = some e → ∃ v, s.heap e = (k, some v)
  /-- pooled entries are not reachable from the map -/
  freeUnmapped : ∀ e, e ∈ s.free → ∀ k, s.map k ≠ some e
  mapLt : ∀ k e, s.map k = some e → e < s.next
  freeLt : ∀ e, e ∈ s.free → e < s.next
  freeNodup : s.free.Nodup

theorem seqInv_empty : SeqInv (Seq.empty : Seq K V) := by
  constructor <;> intros <;> simp_all [Seq.empty]

/-- the plain map the layer implements -/
def astore (m : K → Option V) (k : K) (v : V) (nx : Bool) : K → Option V :=
  if nx && (m k).isSome then m else updK m k (some v)

theorem get_eq {s : Seq K V} (h : SeqInv s) (k : K) :
    s.get k = match s.map k with | none => none | some e => (s.heap e).2 := by
  unfold Seq.get
  cases hm : s.map k with
  | none => rfl
  | some e =>
    obtain ⟨v, hv⟩ := h.own k e hm
    simp [hv]

/-- the entry `alloc` returns is not reachable from the map; nothing else changes -/
theorem alloc_spec {s : Seq K V} (h : SeqInv s) :
    ∃ e s1, s.alloc = (e, s1) ∧ (∀ k, s.map k ≠ some e) ∧ s1.map = s.map ∧ s1.heap = s.heap ∧
      e < s1.next ∧ (∀ k e', s.map k = some e' → e' < s1.next) ∧
      (∀ e', e' ∈ s1.free → e' < s1.next ∧ ∀ k, s.map k ≠ some e') ∧ e ∉ s1.free ∧ s1.free.Nodup := by
  unfold Seq.alloc
  cases hf : s.free with
  | nil =>
    refine ⟨_, _, rfl, ?_, rfl, rfl, by simp, ?_, by simp [hf], by simp [hf], by simp [hf]⟩
    · intro k hk; have := h.mapLt k _ hk; omega
    · intro k e hk; have := h.mapLt k e hk; simp only; omega
  | cons e rest =>
    have he : e ∈ s.free := by rw [hf]; simp
    have hnd := h.freeNodup
    rw [hf, List.nodup_cons] at hnd
    refine ⟨_, _, rfl, h.freeUnmapped e he, rfl, rfl, h.freeLt e he, h.mapLt, ?_, hnd.1, hnd.2⟩
    intro e' he'
    have : e' ∈ s.free := by rw [hf]; exact List.mem_cons_of_mem _ he'
    exact ⟨h.freeLt e' this, h.freeUnmapped e' this⟩

theorem own_inj {s : Seq K V} (h : SeqInv s) {k k' : K} {e : Nat} (h1 : s.map k = some e)
    (h2 : s.map k' = some e) : k = k' := by
  obtain ⟨v, hv⟩ := h.own k e h1
  obtain ⟨v', hv'⟩ := h.own k' e h2
  rw [hv] at hv'
  exact (Prod.mk.inj hv').1

/-- ★ `Store` on the pooled representation is `astore` on the plain map, and keeps the invariant -/
theorem store_spec {s : Seq K V} (h : SeqInv s) (k : K) (v : V) (nx : Bool) :
    SeqInv (s.store k v nx) ∧ ∀ k', (s.store k v nx).get k' = astore s.get k v nx k' := by
  obtain ⟨e, s1, halloc, hun, hmap, hheap, helt, hmlt, hfree, henf, hnd⟩ := alloc_spec h
  have hget := get_eq h
  unfold Seq.store
  rw [halloc]
  simp only [hmap, hheap]
  cases hk : s.map k with
  | none =>
    simp only
    have hinv : SeqInv ({ s1 with heap := upd s.heap e (k, some v), map := updK s.map k (some e) } : Seq K V) := by
      constructor
      · intro k' e' hm
        simp only [updK] at hm
        by_cases hkk : k' = k
        · simp only [hkk, if_true, Option.some.injEq] at hm
          subst hm; subst hkk
          exact ⟨v, by simp [upd]⟩
        · simp only [hkk, if_false] at hm
          obtain ⟨v', hv'⟩ := h.own k' e' hm
          have hne : e' ≠ e := fun he => hun k' (he ▸ hm)
          exact ⟨v', by simp [upd, hne, hv']⟩
      · intro e' he' k' hm
        simp only [updK] at hm
        by_cases hkk : k' = k
        · simp only [hkk, if_true, Option.some.injEq] at hm
          subst hm; exact henf he'
        · simp only [hkk, if_false] at hm
          exact (hfree e' he').2 k' hm
      · intro k' e' hm
        simp only [updK] at hm
        by_cases hkk : k' = k
        · simp only [hkk, if_true, Option.some.injEq] at hm
          subst hm; exact helt
        · simp only [hkk, if_false] at hm
          exact hmlt k' e' hm
      · intro e' he'; exact (hfree e' he').1
      · exact hnd
    refine ⟨hinv, ?_⟩
    intro k'
    rw [get_eq hinv]
    simp only [astore, hget, hk, Option.isSome_none, Bool.and_false, Bool.false_eq_true, if_false, updK]
    by_cases hkk : k' = k
    · simp [hkk, upd]
    · simp only [hkk, if_false]
      cases hm : s.map k' with
      | none => rfl
      | some e' =>
        have hne : e' ≠ e := fun he => hun k' (he ▸ hm)
        simp [upd, hne]
  | some old =>
    have hoe : old ≠ e := fun he => hun k (he ▸ hk)
    obtain ⟨vo, hvo⟩ := h.own k old hk
    cases nx with
    | true =>
      simp only [if_true]
      have hinv : SeqInv ({ s1 with heap := upd s.heap e (k, some v), map := s.map } : Seq K V) := by
        constructor
        · intro k' e' hm
          obtain ⟨v', hv'⟩ := h.own k' e' hm
          have hne : e' ≠ e := fun he => hun k' (he ▸ hm)
          exact ⟨v', by simp [upd, hne, hv']⟩
        · intro e' he' k' hm
          exact (hfree e' he').2 k' hm
        · intro k' e' hm
          exact hmlt k' e' hm
        · intro e' he'; exact (hfree e' he').1
        · exact hnd
      refine ⟨hinv, ?_⟩
      intro k'
      rw [get_eq hinv]
      have hsome : (s.get k).isSome = true := by rw [hget, hk]; simp [hvo]
      have hast : astore s.get k v true k' = s.get k' := by simp [astore, hsome]
      rw [hast, hget]
      simp only []
      cases hm : s.map k' with
      | none => rfl
      | some e' =>
        have hne : e' ≠ e := fun he => hun k' (he ▸ hm)
        simp [upd, hne]
    | false =>
      simp only [Bool.false_eq_true, if_false, Seq.release]
      have hinv : SeqInv ({ s1 with heap := upd (upd s.heap e (k, some v)) old (default, none),
                                    map := updK s.map k (some e), free := old :: s1.free } : Seq K V) := by
        constructor
        · intro k' e' hm
          simp only [updK] at hm
          by_cases hkk : k' = k
          · simp only [hkk, if_true, Option.some.injEq] at hm
            subst hm; subst hkk
            exact ⟨v, by simp [upd, hoe.symm]⟩
          · simp only [hkk, if_false] at hm
            obtain ⟨v', hv'⟩ := h.own k' e' hm
            have hne : e' ≠ e := fun he => hun k' (he ▸ hm)
            have hno : e' ≠ old := fun he => hkk (own_inj h (he ▸ hm) hk)
            exact ⟨v', by simp [upd, hne, hno, hv']⟩
        · intro e' he' k' hm
          simp only [updK] at hm
          by_cases hkk : k' = k
          · simp only [hkk, if_true, Option.some.injEq] at hm
            subst hm
            rcases List.mem_cons.mp he' with he' | he'
            · exact hoe he'.symm
            · exact henf he'
          · simp only [hkk, if_false] at hm
            rcases List.mem_cons.mp he' with he' | he'
            · subst he'; exact hkk (own_inj h hm hk)
            · exact (hfree e' he').2 k' hm
        · intro k' e' hm
          simp only [updK] at hm
          by_cases hkk : k' = k
          · simp only [hkk, if_true, Option.some.injEq] at hm
            subst hm; exact helt
          · simp only [hkk, if_false] at hm
            exact hmlt k' e' hm
        · intro e' he'
          rcases List.mem_cons.mp he' with he' | he'
          · subst he'; exact hmlt k _ hk
          · exact (hfree e' he').1
        · refine List.nodup_cons.mpr ⟨?_, hnd⟩
          intro ho; exact (hfree old ho).2 k hk
      refine ⟨hinv, ?_⟩
      intro k'
      rw [get_eq hinv]
      simp only [astore, Bool.false_and, Bool.false_eq_true, if_false, updK, hget]
      by_cases hkk : k' = k
      · simp [hkk, upd, hoe.symm]
      · simp only [hkk, if_false]
        cases hm : s.map k' with
        | none => rfl
        | some e' =>
          have hne : e' ≠ e := fun he => hun k' (he ▸ hm)
          have hno : e' ≠ old := fun he => hkk (own_inj h (he ▸ hm) hk)
          simp [upd, hne, hno]

/-- eviction / expiry removes exactly that key -/
theorem evict_spec {s : Seq K V} (h : SeqInv s) (k : K) :
    SeqInv (s.evict k) ∧ ∀ k', (s.evict k).get k' = if k' = k then none else s.get k' := by
  have hget := get_eq h
  unfold Seq.evict
  cases hk : s.map k with
  | none =>
    refine ⟨h, ?_⟩
    intro k'
    by_cases hkk : k' = k
    · simp [hkk, hget, hk]
    · simp [hkk]
  | some old =>
    simp only [Seq.release]
    have hinv : SeqInv ({ s with map := updK s.map k none, heap := upd s.heap old (default, none),
                                 free := old :: s.free } : Seq K V) := by
      constructor
      · intro k' e' hm
        simp only [updK] at hm
        by_cases hkk : k' = k
        · simp [hkk] at hm
        · simp only [hkk, if_false] at hm
          obtain ⟨v', hv'⟩ := h.own k' e' hm
          have hno : e' ≠ old := fun he => hkk (own_inj h (he ▸ hm) hk)
          exact ⟨v', by simp [upd, hno, hv']⟩
      · intro e' he' k' hm
        simp only [updK] at hm
        by_cases hkk : k' = k
        · simp [hkk] at hm
        · simp only [hkk, if_false] at hm
          rcases List.mem_cons.mp he' with he' | he'
          · subst he'; exact hkk (own_inj h hm hk)
          · exact h.freeUnmapped e' he' k' hm
      · intro k' e' hm
        simp only [updK] at hm
        by_cases hkk : k' = k
        · simp [hkk] at hm
        · simp only [hkk, if_false] at hm
          exact h.mapLt k' e' hm
      · intro e' he'
        rcases List.mem_cons.mp he' with he' | he'
        · subst he'; exact h.mapLt k _ hk
        · exact h.freeLt e' he'
      · refine List.nodup_cons.mpr ⟨?_, h.freeNodup⟩
        intro ho; exact h.freeUnmapped old ho k hk
    refine ⟨hinv, ?_⟩
    intro k'
    rw [get_eq hinv]
    by_cases hkk : k' = k
    · simp [hkk, updK]
    · simp only [hkk, if_false, updK, hget]
      cases hm : s.map k' with
      | none => rfl
      | some e' =>
        have hno : e' ≠ old := fun he => hkk (own_inj h (he ▸ hm) hk)
        simp [upd, hno]

/-- the plain-map reading of an operation -/
def aapply (m : K → Option V) : Op K V → (K → Option V)
  | .store k v nx => astore m k v nx
  | .get _ => m
  | .evict k => updK m k none

theorem apply_spec {s : Seq K V} (h : SeqInv s) (op : Op K V) :
    SeqInv (s.apply op) ∧ ∀ k', (s.apply op).get k' = aapply s.get op k' := by
  cases op with
  | store k v nx => exact store_spec h k v nx
  | get k => exact ⟨h, fun _ => rfl⟩
  | evict k =>
    obtain ⟨h1, h2⟩ := evict_spec h k
    exact ⟨h1, fun k' => by show (s.evict k).get k' = _; rw [h2 k']; simp [aapply, updK]⟩

/-- ★ refinement: any sequence of stores / lookups / evictions on the pooled representation
    behaves as the same sequence on a plain finite map -/
theorem run_spec {s : Seq K V} (h : SeqInv s) (ops : List (Op K V)) :
    SeqInv (s.run ops) ∧ ∀ k', (s.run ops).get k' = (ops.foldl aapply s.get) k' := by
  induction ops generalizing s with
  | nil => exact ⟨h, fun _ => rfl⟩
  | cons op rest ih =>
    obtain ⟨h1, h2⟩ := apply_spec h op
    have := ih h1
    simp only [Seq.run, List.foldl_cons] at this ⊢
    have hfe : (s.apply op).get = aapply s.get op := funext h2
    rw [hfe] at this
    exact this

omit [Inhabited K] in
theorem aapply_keeps {m : K → Option V} {k : K} (hm : (m k).isSome = true) (op : Op K V)
    (hop : ∀ k', op = .evict k' → k' ≠ k) : ((aapply m op) k).isSome = true := by
  cases op with
  | store k' v nx =>
    simp only [aapply, astore]
    split
    · exact hm
    · simp only [updK]; split <;> simp [hm]
  | get _ => exact hm
  | evict k' =>
    have := hop k' rfl
    simp only [aapply, updK]
    split
    · next h => exact absurd h.symm this
    · exact hm

omit [Inhabited K] in
theorem foldl_keeps {k : K} (ops : List (Op K V)) (hop : ∀ op ∈ ops, ∀ k', op = .evict k' → k' ≠ k) :
    ∀ (m : K → Option V), (m k).isSome = true → ((ops.foldl aapply m) k).isSome = true := by
  induction ops with
  | nil => intro m hm; exact hm
  | cons op rest ih =>
    intro m hm
    simp only [List.foldl_cons]
    exact ih (fun o ho => hop o (List.mem_cons_of_mem _ ho)) _
      (aapply_keeps hm op (hop op List.mem_cons_self))

/-- ★ `repeat_hits`: once `Store(k, …)` has completed, `Get(k)` hits for as long as the backend does
    not evict / expire `k` — whatever other stores, lookups and evictions of other keys (with all
    the entry recycling they cause) happen in between. -/
theorem repeat_hits {s : Seq K V} (h : SeqInv s) (k : K) (v : V) (nx : Bool) (ops : List (Op K V))
    (hop : ∀ op ∈ ops, ∀ k', op = .evict k' → k' ≠ k) :
    (((s.store k v nx).run ops).get k).isSome = true := by
  obtain ⟨h1, h2⟩ := store_spec h k v nx
  rw [(run_spec h1 ops).2 k]
  apply foldl_keeps ops hop
  rw [h2 k]
  simp only [astore]
  split
  · next hc => simp only [Bool.and_eq_true] at hc; exact hc.2
  · simp [updK]

/-- with `Set` (positive answers) and no later write to `k`, the hit returns exactly the stored value -/
theorem repeat_hits_same {s : Seq K V} (h : SeqInv s) (k : K) (v : V) :
    ((s.store k v false).get k) = some v := by
  rw [(store_spec h k v false).2 k]
  simp [astore, updK]

/-! ### the `cachehist` reference model meets the property's specification -/

/-- what links the reference state to the set of responses written so far -/
structure HistRel (s : Seq String String) (past : List (String × String)) : Prop where
  inv : SeqInv s
  sound : ∀ key fp, s.get key = some fp → (key, fp) ∈ past
  complete : ∀ key, past.any (·.1 == key) = true → (s.get key).isSome = true

theorem histRel_store {s : Seq String String} {past : List (String × String)} (h : HistRel s past)
    (key fp : String) (nx : Bool) : HistRel (s.store key fp nx) ((key, fp) :: past) := by
  obtain ⟨h1, h2⟩ := store_spec h.inv key fp nx
  refine ⟨h1, ?_, ?_⟩
  · intro k' f hg
    rw [h2 k'] at hg
    simp only [astore] at hg
    split at hg
    · exact List.mem_cons_of_mem _ (h.sound k' f hg)
    · simp only [updK] at hg
      split at hg
      · next hk => simp only [Option.some.injEq] at hg; subst hg; subst hk; exact List.mem_cons_self
      · exact List.mem_cons_of_mem _ (h.sound k' f hg)
  · intro k' hany
    rw [h2 k']
    simp only [List.any_cons, Bool.or_eq_true, beq_iff_eq] at hany
    simp only [astore]
    by_cases hk : k' = key
    · subst hk
      split
      · next hc => simp only [Bool.and_eq_true] at hc; exact hc.2
      · simp [updK]
    · have hp : past.any (·.1 == k') = true := by
        rcases hany with hany | hany
        · exact absurd hany.symm hk
        · exact hany
      have := h.complete k' hp
      split
      · exact this
      · simp [updK, hk, this]

theorem hist_meets_spec_gen : ∀ (ops : List HOp) (s : Seq String String) (past : List (String × String)),
    HistRel s past → histSpec past ops (histModel s ops) = true
  | [], _, _, _ => rfl
  | .store key fp nx :: rest, s, past, h => by
    simp only [histModel, histSpec]
    exact hist_meets_spec_gen rest _ _ (histRel_store h key fp nx)
  | .get key :: rest, s, past, h => by
    simp only [histModel]
    cases hg : s.get key with
    | some fp =>
      simp only [histSpec, Bool.and_eq_true, List.contains_iff_mem]
      exact ⟨h.sound key fp hg, hist_meets_spec_gen rest s past h⟩
    | none =>
      simp only [histSpec, Bool.and_eq_true, Bool.not_eq_eq_eq_not, Bool.not_true]
      refine ⟨?_, hist_meets_spec_gen rest s past h⟩
      cases ha : past.any (·.1 == key) with
      | false => rfl
      | true => have := h.complete key ha; rw [hg] at this; cases this
  | .handle key fp :: rest, s, past, h => by
    simp only [histModel]
    cases hg : s.get key with
    | some c =>
      simp only [histSpec, Bool.and_eq_true, List.contains_iff_mem]
      exact ⟨h.sound key c hg, hist_meets_spec_gen rest s past h⟩
    | none =>
      simp only [histSpec, Bool.and_eq_true, Bool.not_eq_eq_eq_not, Bool.not_true, beq_self_eq_true,
        and_true]
      refine ⟨?_, hist_meets_spec_gen rest _ _ (histRel_store h key fp false)⟩
      cases ha : past.any (·.1 == key) with
      | false => rfl
      | true => have := h.complete key ha; rw [hg] at this; cases this

end MosVerif.MemCache
