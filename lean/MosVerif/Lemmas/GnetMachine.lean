/-
  C13 — one `OnTraffic` call refines the reference parser.
-/
import MosVerif.Lemmas.GnetParse
namespace MosVerif.Gnet

/-! ### what one pass through `read:` does, state by state -/

theorem readOne_idle_short (rn : Nat) (rh : Bool) (c : Nat) (s : Bytes) (h : s.length < 2) :
    readOne ⟨none, rn, rh, c⟩ s = .ret ⟨some (getBuf 2), 0, true, c⟩ s := by
  have hn : next s 2 = ([], s) := next_short s 2 (by omega)
  simp [readOne, hn, goCopy_nil]

theorem readOne_idle_partial (rn : Nat) (rh : Bool) (c : Nat) (a b : UInt8) (t : Bytes)
    (h : t.length < rd16 a b) :
    readOne ⟨none, rn, rh, c⟩ (a :: b :: t) = .ret ⟨some (getBuf (rd16 a b)), 0, false, c⟩ t := by
  have hn : next (a :: b :: t) 2 = ([a, b], t) := by
    have := next_exact (a :: b :: t) 2 (by omega) (by simp)
    simpa using this
  have hb : next t (rd16 a b : Int) = ([], t) := next_short t _ (by omega)
  have hpos : 0 < rd16 a b := by omega
  simp [readOne, hn, hb, goCopy_nil, hpos]

theorem readOne_idle_full (rn : Nat) (rh : Bool) (c : Nat) (a b : UInt8) (t : Bytes)
    (h0 : 0 < rd16 a b) (h : rd16 a b ≤ t.length) :
    readOne ⟨none, rn, rh, c⟩ (a :: b :: t) =
      .msg ⟨none, rn, rh, c⟩ (t.drop (rd16 a b)) (t.take (rd16 a b)) := by
  have hn : next (a :: b :: t) 2 = ([a, b], t) := by
    have := next_exact (a :: b :: t) 2 (by omega) (by simp)
    simpa using this
  have hb := next_exact t (rd16 a b) h0 h
  have hl : (List.take (rd16 a b) t).length = rd16 a b := by simp; omega
  simp [readOne, hn, hb, hl]

theorem readBody_partial (c : Nat) (L : Nat) (t : Bytes) (h : t.length < L) :
    readBody ⟨some (getBuf L), 0, false, c⟩ (getBuf L) t = .ret ⟨some (getBuf L), 0, false, c⟩ t := by
  have hb : next t ((getBuf L).length - (0 : Nat) : Int) = ([], t) :=
    next_short t _ (by simp [getBuf_length]; omega)
  simp only [readBody, hb, goCopy_nil]
  simp [getBuf_length]; omega

theorem readBody_full (c : Nat) (L : Nat) (t : Bytes) (h0 : 0 < L) (h : L ≤ t.length) :
    readBody ⟨some (getBuf L), 0, false, c⟩ (getBuf L) t =
      .msg ⟨none, L, false, c⟩ (t.drop L) (t.take L) := by
  have hb : next t ((getBuf L).length - (0 : Nat) : Int) = (t.take L, t.drop L) := by
    have := next_exact t L h0 h
    simpa [getBuf_length] using this
  have hl : (List.take L t).length = L := by simp; omega
  have hc : goCopy (getBuf L) 0 (List.take L t) = (List.take L t, L) := by
    have := goCopy_full (List.take L t)
    rw [hl] at this; exact this
  simp only [readBody, hb, hc]
  simp [hl]

theorem readOne_body_partial (c : Nat) (L : Nat) (t : Bytes) (h : t.length < L) :
    readOne ⟨some (getBuf L), 0, false, c⟩ t = .ret ⟨some (getBuf L), 0, false, c⟩ t := by
  simp [readOne, readBody_partial c L t h]

theorem readOne_body_full (c : Nat) (L : Nat) (t : Bytes) (h0 : 0 < L) (h : L ≤ t.length) :
    readOne ⟨some (getBuf L), 0, false, c⟩ t = .msg ⟨none, L, false, c⟩ (t.drop L) (t.take L) := by
  simp [readOne, readBody_full c L t h0 h]

theorem readOne_hdr_short (c : Nat) (s : Bytes) (h : s.length < 2) :
    readOne ⟨some (getBuf 2), 0, true, c⟩ s = .ret ⟨some (getBuf 2), 0, true, c⟩ s := by
  have hn : next s ((getBuf 2).length - (0 : Nat) : Int) = ([], s) :=
    next_short s _ (by simp [getBuf_length]; omega)
  simp only [readOne, hn, goCopy_nil]
  simp

theorem readOne_hdr_go (c : Nat) (a b : UInt8) (t : Bytes) :
    readOne ⟨some (getBuf 2), 0, true, c⟩ (a :: b :: t) =
      readBody ⟨some (getBuf (rd16 a b)), 0, false, c⟩ (getBuf (rd16 a b)) t := by
  have hn : next (a :: b :: t) ((getBuf 2).length - (0 : Nat) : Int) = ([a, b], t) := by
    have := next_exact (a :: b :: t) 2 (by omega) (by simp)
    simpa [getBuf_length] using this
  have hc : goCopy (getBuf 2) 0 [a, b] = ([a, b], 2) := goCopy_full [a, b]
  simp only [readOne, hn, hc]
  simp [getBuf_length]

/-! ### the rest states and the refinement statement -/

/-- `Rest cc inb u`: between two `OnTraffic` calls the connection holds exactly the
    incomplete frame `u`: nothing of it is in `cc.buffer` (`readN = 0`), a header that
    was already consumed survives only as the buffer's length. -/
inductive Rest : ConnCtx → Bytes → Bytes → Prop
  | idle (rn : Nat) (rh : Bool) (c : Nat) : Rest ⟨none, rn, rh, c⟩ [] []
  | hdr (c : Nat) (x : UInt8) : Rest ⟨some (getBuf 2), 0, true, c⟩ [x] [x]
  | body (c : Nat) (a b : UInt8) (t : Bytes) : t.length < rd16 a b →
      Rest ⟨some (getBuf (rd16 a b)), 0, false, c⟩ t (a :: b :: t)

/-- the outcome `r` of an `OnTraffic` call is the one the reference parser prescribes for the
    logical stream `s`, with `c0` handlers running at entry -/
def Good (dec : Bytes → Bool) (max c0 : Nat) (s : Bytes) (r : Out) : Prop :=
  r.evs = (admission max c0 ((parse s).1.takeWhile dec)).1 ∧
  (if (parse s).1.all dec = true then
     r.act = .none ∧ Rest r.cc r.inb (parse s).2 ∧
       r.cc.concurrent = (admission max c0 ((parse s).1.takeWhile dec)).2
   else r.act = .close)

theorem good_ret (dec : Bytes → Bool) (max fuel : Nat) (cc cc' : ConnCtx) (inb inb' s : Bytes)
    (h : readOne cc inb = .ret cc' inb') (hp : parse s = ([], s)) (hr : Rest cc' inb' s) :
    Good dec max cc'.concurrent s (onTraffic dec max (fuel + 1) cc inb) := by
  simp [onTraffic, h, Good, hp, admission, hr]

theorem good_msg (dec : Bytes → Bool) (max fuel : Nat) (cc : ConnCtx) (inb s rest body : Bytes)
    (rn : Nat) (rh : Bool) (c0 : Nat)
    (h : readOne cc inb = .msg ⟨none, rn, rh, c0⟩ rest body)
    (hp : parse s = (body :: (parse rest).1, (parse rest).2))
    (ih : ∀ c, rest ≠ [] → Good dec max c rest (onTraffic dec max fuel ⟨none, rn, rh, c⟩ rest)) :
    Good dec max c0 s (onTraffic dec max (fuel + 1) cc inb) := by
  unfold onTraffic
  simp only [h]
  by_cases hd : dec body = true
  · have hd' : ¬ (dec body = false) := by simp [hd]
    simp only [if_neg hd']
    by_cases hl : inboundBuffered rest > 0
    · simp only [if_pos hl]
      have hnz : rest ≠ [] := by
        intro h0; subst h0; simp [inboundBuffered] at hl
      by_cases hm : c0 + 1 > max
      · have g := ih c0 hnz
        simp only [Good, hp, if_pos hm, List.takeWhile_cons, hd, List.all_cons, Bool.true_and, admission, if_true] at g ⊢
        refine ⟨by rw [g.1], ?_⟩
        split
        · rename_i hall; have g2 := g.2; simp only [hall, if_true] at g2; exact g2
        · rename_i hall; have g2 := g.2; simp only [hall] at g2; simpa using g2
      · have g := ih (c0 + 1) hnz
        simp only [Good, hp, if_neg hm, List.takeWhile_cons, hd, List.all_cons, Bool.true_and, admission, if_true] at g ⊢
        refine ⟨by rw [g.1], ?_⟩
        split
        · rename_i hall; have g2 := g.2; simp only [hall, if_true] at g2; exact g2
        · rename_i hall; have g2 := g.2; simp only [hall] at g2; simpa using g2
    · simp only [if_neg hl]
      have hrest : rest = [] := by
        cases rest with
        | nil => rfl
        | cons x xs => simp [inboundBuffered] at hl
      subst hrest
      have hp0 : parse ([] : Bytes) = ([], []) := parse_short [] (by simp)
      by_cases hm : c0 + 1 > max
      · simp [Good, hp, hp0, hd, hm, admission, Rest.idle]
      · simp [Good, hp, hp0, hd, hm, admission, Rest.idle]
  · have hd' : dec body = false := by simpa using hd
    simp [Good, hp, hd', admission]

/-- Lemma A: from the idle state (`cc.buffer = nil`) one `OnTraffic` call on the buffered bytes `s`. -/
theorem good_idle (dec : Bytes → Bool) (max : Nat) : ∀ (fuel : Nat) (rn : Nat) (rh : Bool) (c : Nat) (s : Bytes),
    s ≠ [] → s.length < fuel → (∀ f ∈ (parse s).1, f ≠ []) →
    Good dec max c s (onTraffic dec max fuel ⟨none, rn, rh, c⟩ s) := by
  intro fuel
  induction fuel with
  | zero => intro rn rh c s _ h; omega
  | succ fuel ih =>
    intro rn rh c s hs hlen hne
    match s, hs, hlen, hne with
    | [x], _, _, _ =>
      exact good_ret dec max fuel _ _ _ _ _ (readOne_idle_short rn rh c [x] (by simp))
        (parse_short [x] (by simp)) (Rest.hdr c x)
    | a :: b :: t, _, hlen, hne =>
      by_cases hc : rd16 a b ≤ t.length
      · have hp := parse_complete a b t hc
        have h0 : 0 < rd16 a b := by
          have := hne (t.take (rd16 a b)) (by rw [hp]; simp)
          cases hz : rd16 a b with
          | zero => simp [hz] at this
          | succ n => omega
        refine good_msg dec max fuel _ _ _ _ _ rn rh c (readOne_idle_full rn rh c a b t h0 hc) hp ?_
        intro c' hnz
        apply ih
        · exact hnz
        · simp at hlen ⊢; omega
        · intro f hf; apply hne; rw [hp]; simp [hf]
      · have hlt : t.length < rd16 a b := by omega
        exact good_ret dec max fuel _ _ _ _ _ (readOne_idle_partial rn rh c a b t hlt)
          (parse_incomplete a b t hlt) (Rest.body c a b t hlt)

/-- Lemma B: from the "partial header" rest state with `s` buffered. -/
theorem good_hdr (dec : Bytes → Bool) (max : Nat) (c : Nat) : ∀ (s : Bytes) (fuel : Nat),
    s ≠ [] → s.length < fuel → (∀ f ∈ (parse s).1, f ≠ []) →
    Good dec max c s (onTraffic dec max fuel ⟨some (getBuf 2), 0, true, c⟩ s) := by
  intro s fuel hs hlen hne
  obtain ⟨fuel, rfl⟩ : ∃ k, fuel = k + 1 := ⟨fuel - 1, by omega⟩
  match s, hs, hlen, hne with
  | [x], _, _, _ =>
    exact good_ret dec max _ _ _ _ _ _ (readOne_hdr_short c [x] (by simp))
      (parse_short [x] (by simp)) (Rest.hdr c x)
  | a :: b :: t, _, hlen, hne =>
    by_cases hc : rd16 a b ≤ t.length
    · have hp := parse_complete a b t hc
      have h0 : 0 < rd16 a b := by
        have := hne (t.take (rd16 a b)) (by rw [hp]; simp)
        cases hz : rd16 a b with
        | zero => simp [hz] at this
        | succ n => omega
      have hro : readOne ⟨some (getBuf 2), 0, true, c⟩ (a :: b :: t) =
          .msg ⟨none, rd16 a b, false, c⟩ (t.drop (rd16 a b)) (t.take (rd16 a b)) := by
        rw [readOne_hdr_go, readBody_full c _ t h0 hc]
      refine good_msg dec max _ _ _ _ _ _ _ _ c hro hp ?_
      intro c' hnz
      apply good_idle
      · exact hnz
      · simp at hlen ⊢; omega
      · intro f hf; apply hne; rw [hp]; simp [hf]
    · have hlt : t.length < rd16 a b := by omega
      have hro : readOne ⟨some (getBuf 2), 0, true, c⟩ (a :: b :: t) =
          .ret ⟨some (getBuf (rd16 a b)), 0, false, c⟩ t := by
        rw [readOne_hdr_go, readBody_partial c _ t hlt]
      exact good_ret dec max _ _ _ _ _ _ hro (parse_incomplete a b t hlt) (Rest.body c a b t hlt)

/-- Lemma C: from the "partial body" rest state (header `a b` consumed earlier) with `t` buffered. -/
theorem good_body (dec : Bytes → Bool) (max : Nat) (c : Nat) (a b : UInt8) (t : Bytes) (fuel : Nat)
    (h0 : 0 < rd16 a b) (hlen : t.length < fuel) (hne : ∀ f ∈ (parse (a :: b :: t)).1, f ≠ []) :
    Good dec max c (a :: b :: t) (onTraffic dec max fuel ⟨some (getBuf (rd16 a b)), 0, false, c⟩ t) := by
  obtain ⟨fuel, rfl⟩ : ∃ k, fuel = k + 1 := ⟨fuel - 1, by omega⟩
  by_cases hc : rd16 a b ≤ t.length
  · have hp := parse_complete a b t hc
    refine good_msg dec max _ _ _ _ _ _ _ _ c (readOne_body_full c _ t h0 hc) hp ?_
    intro c' hnz
    apply good_idle
    · exact hnz
    · simp; omega
    · intro f hf; apply hne; rw [hp]; simp [hf]
  · have hlt : t.length < rd16 a b := by omega
    exact good_ret dec max _ _ _ _ _ _ (readOne_body_partial c _ t hlt)
      (parse_incomplete a b t hlt) (Rest.body c a b t hlt)

/-- One `OnTraffic` call from any rest state, after the (non-empty) segment `seg` was appended to the
    connection's inbound bytes, does what the reference parser prescribes for `u ++ seg`. -/
theorem good_step (dec : Bytes → Bool) (max : Nat) (cc : ConnCtx) (inb u seg : Bytes)
    (hr : Rest cc inb u) (hseg : seg ≠ []) (hne : ∀ f ∈ (parse (u ++ seg)).1, f ≠ []) :
    Good dec max cc.concurrent (u ++ seg)
      (onTraffic dec max ((inb ++ seg).length + 1) cc (inb ++ seg)) := by
  cases hr with
  | idle rn rh c => exact good_idle dec max _ rn rh c _ (by simpa using hseg) (by simp) hne
  | hdr c x => exact good_hdr dec max c _ _ (by simp) (by simp) hne
  | body c a b _ ht => exact good_body dec max c a b _ _ (by omega) (by simp) hne

/-- with nothing left over the connection is back in the idle state with an empty inbound buffer -/
theorem Rest.idle_of_nil {cc : ConnCtx} {inb : Bytes} (h : Rest cc inb []) :
    cc.buffer = none ∧ inb = [] := by
  cases h with
  | idle rn rh c => exact ⟨rfl, rfl⟩

/-- ★ between `OnTraffic` calls `cc.buffer` never holds data: `readN = 0` whenever a buffer is kept
    (because `Next` is all-or-nothing the copy into it happens only when it can be filled completely,
    and then it is consumed at once). -/
theorem Rest.readN_zero {cc : ConnCtx} {inb u : Bytes} (h : Rest cc inb u) :
    cc.buffer = none ∨ cc.readN = 0 := by
  cases h with
  | idle rn rh c => exact Or.inl rfl
  | hdr c x => exact Or.inr rfl
  | body c a b t ht => exact Or.inr rfl

end MosVerif.Gnet
