/-
  Tie by translation (C02/C09): the DNS wire ENCODER, `Question.pack`, `ResourceHdr.pack` and the per-type packers of
  rr.go.  Every theorem: the buffer view of the model's packer (`Wire.packQuestionBuf` / `packResourceBuf`, i.e. the
  octets of `packQuestion` / `packResource` written with `writeAt`) is EQUAL to the function regenerated from the Go
  source, for all buffers, offsets, compression tables and field values — given the tie of `Name.pack`
  (`NamePackTied`, proved in `Lemmas/TranslatedEncName.lean`).
-/
import MosVerif.Lemmas.TranslatedEnc
namespace MosVerif.Wire
open MosVerif

/-- `Name.pack` is tied: the model's `packName`, written into the buffer, is the translated function. -/
def NamePackTied : Prop :=
  ∀ (n : Name) (msg : Bytes) (off : Nat) (tbl : Option Table), packNameBuf msg off tbl n = Translated.Name_pack n msg off tbl

theorem Res.bind_assoc' {α β γ} (x : Res α) (f : α → Res β) (g : β → Res γ) :
    ((x >>= f) >>= g) = (x >>= fun a => f a >>= g) := by
  cases x <;> rfl

/-- the buffer view of a packer whose octets are `a ++ b`: write `a`, then `b` -/
theorem writeRes_append (msg : Bytes) (off : Nat) (a b : Bytes) (t : Option Table) :
    writeRes msg off (.ok (a ++ b, t)) =
      (writeRes msg off (.ok (a, t)) >>= fun r => writeAt r.1 r.2.2 b >>= fun w => .ok (w.1, t, w.2)) := by
  simp only [writeRes, writeAt_append]
  cases h : writeAt msg off a with
  | ok r =>
    simp only [Res.bind_ok']
    cases h2 : writeAt r.1 r.2 b <;> rfl
  | err => rfl
  | panic => rfl

theorem writeRes_err (msg : Bytes) (off : Nat) : writeRes msg off .err = .err := rfl

theorem writeRes_ok (msg : Bytes) (off : Nat) (a : Bytes) (t : Option Table) :
    writeRes msg off (.ok (a, t)) = (writeAt msg off a >>= fun w => .ok (w.1, t, w.2)) := by
  simp only [writeRes]
  cases writeAt msg off a <;> rfl

/-- a write never panics; whatever follows, if it always fails the whole fails -/
theorem writeAt_bind_err {α : Type} (b : Bytes) (off : Nat) (bs : Bytes) (f : Bytes × Nat → Res α)
    (h : ∀ a, f a = .err) : (writeAt b off bs >>= f) = .err := by
  unfold writeAt
  by_cases hf : off + bs.length ≤ b.length
  · simp only [hf, if_true, Res.bind_ok', h]
  · simp only [hf, if_false, Res.bind_err']

/-- `Question.pack` -/
theorem Question_pack_translated (hN : NamePackTied) (msg : Bytes) (off : Nat) (tbl : Option Table) (q : Question) :
    packQuestionBuf msg off tbl q = Translated.Question_pack q.name q.qtype q.qclass msg off tbl := by
  unfold packQuestionBuf packQuestion Translated.Question_pack
  rw [← hN]
  unfold packNameBuf
  cases hp : packName off tbl q.name with
  | err => rfl
  | panic => rfl
  | ok r =>
    obtain ⟨nb, tbl'⟩ := r
    simp only [Res.bind_ok']
    show writeRes msg off (.ok (nb ++ enc16 q.qtype ++ enc16 q.qclass, tbl')) = _
    simp only [writeRes_ok, writeAt_append, ← packUint16_translated, Res.bind_assoc', Res.bind_ok', Res.pure_eq]

/-- canonical form of `ResourceHdr.pack`: the owner name, then type, class, TTL and the given RDLENGTH -/
theorem ResourceHdr_pack_eq (hN : NamePackTied) (name : Name) (ty cls ttl : Nat) (msg : Bytes) (off : Nat)
    (tbl : Option Table) (dl : Nat) :
    Translated.ResourceHdr_pack name ty cls ttl msg off tbl dl =
      writeRes msg off ((packName off tbl name) >>= fun r =>
        .ok (r.1 ++ enc16 ty ++ enc16 cls ++ enc32 ttl ++ enc16 dl, r.2)) := by
  unfold Translated.ResourceHdr_pack
  rw [← hN]
  unfold packNameBuf
  cases hp : packName off tbl name with
  | err => rfl
  | panic => rfl
  | ok r =>
    obtain ⟨nb, tbl'⟩ := r
    simp only [writeRes_ok, writeAt_append, ← packUint16_translated, ← packUint32_translated, Res.bind_assoc',
      Res.bind_ok', Res.pure_eq]

/-- `A.pack` (`r.A` is a `[4]byte`) -/
theorem A_pack_translated (hN : NamePackTied) (msg : Bytes) (off : Nat) (tbl : Option Table)
    (name : Name) (ty cls ttl : Nat) (b : Bytes) (hb : b.length = 4) :
    packResourceBuf msg off tbl ⟨name, ty, cls, ttl, .a b⟩ = Translated.A_pack name ty cls ttl b msg off tbl := by
  unfold packResourceBuf packResource Translated.A_pack
  rw [ResourceHdr_pack_eq hN]
  cases hp : packName off tbl name with
  | err => rfl
  | panic => rfl
  | ok r =>
    obtain ⟨nb, tbl'⟩ := r
    simp only [packRData, hb, writeRes_ok, writeAt_append, ← packBytes_translated, Res.bind_assoc', Res.bind_ok',
      Res.pure_eq]

/-- `AAAA.pack` (`r.AAAA` is a `[16]byte`) -/
theorem AAAA_pack_translated (hN : NamePackTied) (msg : Bytes) (off : Nat) (tbl : Option Table)
    (name : Name) (ty cls ttl : Nat) (b : Bytes) (hb : b.length = 16) :
    packResourceBuf msg off tbl ⟨name, ty, cls, ttl, .aaaa b⟩ = Translated.AAAA_pack name ty cls ttl b msg off tbl := by
  unfold packResourceBuf packResource Translated.AAAA_pack
  rw [ResourceHdr_pack_eq hN]
  cases hp : packName off tbl name with
  | err => rfl
  | panic => rfl
  | ok r =>
    obtain ⟨nb, tbl'⟩ := r
    simp only [packRData, hb, writeRes_ok, writeAt_append, ← packBytes_translated, Res.bind_assoc', Res.bind_ok',
      Res.pure_eq]

/-- `RawResource.pack`: any RDATA up to 65535 octets, `errResTooLong` beyond -/
theorem Raw_pack_translated (hN : NamePackTied) (msg : Bytes) (off : Nat) (tbl : Option Table)
    (name : Name) (ty cls ttl : Nat) (d : Bytes) :
    packResourceBuf msg off tbl ⟨name, ty, cls, ttl, .raw d⟩ = Translated.RawResource_pack name ty cls ttl d msg off tbl := by
  unfold packResourceBuf packResource Translated.RawResource_pack
  rw [← hN]
  unfold packNameBuf
  cases hp : packName off tbl name with
  | err => rfl
  | panic => rfl
  | ok r =>
    obtain ⟨nb, tbl'⟩ := r
    by_cases hd : d.length > 65535
    · simp only [packRData, hd, if_true, writeRes_ok, ← packUint16_translated, ← packUint32_translated,
        Res.bind_assoc', Res.bind_ok', Res.pure_eq, Res.bind_err', writeRes_err, GoSem.len, decide_true]
      symm
      apply writeAt_bind_err; intro _
      apply writeAt_bind_err; intro _
      apply writeAt_bind_err; intro _
      apply writeAt_bind_err; intro _
      rfl
    · simp only [packRData, hd, if_false, writeRes_ok, writeAt_append, ← packUint16_translated,
        ← packUint32_translated, ← packBytes_translated, Res.bind_assoc', Res.bind_ok', Res.pure_eq, GoSem.len,
        decide_false, Bool.false_eq_true]

end MosVerif.Wire
