/-
  Tie by translation (C11): the integer / boolean logic of `internal/domain_matcher` (`sub_domain.go`, `mix.go`,
  `loader_helper.go`) and of the name helpers of `internal/dnsmsg` (`name.go`: `NameScanner.Scan`,
  `NameBuilder.AppendLabel` / `ParseReadable`, `ToReadable`, `appendEscapedLabel`; `utils.go`: `asciiToLower`,
  `isPrintableLabelChar`) is translated mechanically from the current Go source (`Generated/Translated.lean`,
  fragments `c11_…` of `extract/translate.d/C11.json`).  Each theorem below shows, for ALL arguments, that a
  definition of the model (`Model/Text.lean`, `Model/Trie.lean`) IS the function that branches on / computes
  exactly the translated fragment.  A changed bound, a flipped comparison or a dropped conjunct in the Go
  source changes the translated definition and breaks the corresponding equation; a harmless rewrite
  (`24 > l`, `l <= 23`, swapped conjuncts, a renamed local) does not.

  Offsets: the model's loops run over the remaining suffix `s[off:]`; the equations are stated for EVERY offset
  `off` with `len(s) = off + rest.length`.
-/
import MosVerif.Generated.Translated
import MosVerif.Model.Trie
namespace MosVerif.Trie   -- one namespace per file (the audit reads the first `namespace` line)
open MosVerif MosVerif.Text

/-- closes `Translated.<cond> … = decide P` whatever (equivalent, linear-arithmetic) way the Go condition is
    written: the proofs below must survive harmless rewrites of the source. -/
macro "tr_cond" : tactic =>
  `(tactic| (rw [Bool.eq_iff_iff]; (try simp [Id.run, pure]); (try omega)))

/-- the same for a translated integer computation. -/
macro "tr_val" : tactic =>
  `(tactic| ((try simp only [Id.run, pure, bind]) <;> ((repeat' split) <;> (first | omega | simp))))

/-! ### what each translated fragment computes (robust against harmless rewrites of the Go source) -/

theorem c11_keyLt_addLeaf_spec (l : Nat) : Translated.c11_keyLt_addLeaf l = decide (l < 24) := by
  unfold Translated.c11_keyLt_addLeaf; tr_cond
theorem c11_keyLt_getOrAdd_spec (l : Nat) : Translated.c11_keyLt_getOrAdd l = decide (l < 24) := by
  unfold Translated.c11_keyLt_getOrAdd; tr_cond
theorem c11_keyLt_getChild_spec (l : Nat) : Translated.c11_keyLt_getChild l = decide (l < 24) := by
  unfold Translated.c11_keyLt_getChild; tr_cond
theorem c11_add_rootCond_spec (r : Bool) : Translated.c11_add_rootCond r = r := by
  cases r <;> simp [Translated.c11_add_rootCond]
theorem c11_add_loopCond_spec (i : Int) : Translated.c11_add_loopCond i = decide (0 ≤ i) := by
  unfold Translated.c11_add_loopCond; tr_cond
theorem c11_add_skipCond_spec (n : Nat) : Translated.c11_add_skipCond n = decide (n = 0) := by
  unfold Translated.c11_add_skipCond; tr_cond
theorem c11_add_leafCond_spec (i : Int) : Translated.c11_add_leafCond i = decide (i = 0) := by
  unfold Translated.c11_add_leafCond; tr_cond
theorem c11_add_noLabelCond_spec (b : Bool) : Translated.c11_add_noLabelCond b = !b := by
  cases b <;> simp [Translated.c11_add_noLabelCond]
theorem c11_match_loopCond_spec (i : Int) : Translated.c11_match_loopCond i = decide (0 ≤ i) := by
  unfold Translated.c11_match_loopCond; tr_cond
theorem c11_mix_sepCond_spec (i : Int) : Translated.c11_mix_sepCond i = decide (0 ≤ i) := by
  unfold Translated.c11_mix_sepCond; tr_cond
theorem c11_loader_commentCond_spec (i : Int) : Translated.c11_loader_commentCond i = decide (0 ≤ i) := by
  unfold Translated.c11_loader_commentCond; tr_cond
theorem c11_loader_blankCond_spec (n : Nat) : Translated.c11_loader_blankCond n = decide (n = 0) := by
  unfold Translated.c11_loader_blankCond; tr_cond
theorem c11_isPrintable_spec (b : Nat) :
    Translated.c11_isPrintable b =
      decide ((97 ≤ b ∧ b ≤ 122) ∨ (65 ≤ b ∧ b ≤ 90) ∨ (48 ≤ b ∧ b ≤ 57) ∨ b = 45) := by
  unfold Translated.c11_isPrintable; tr_cond
theorem c11_lowerCond_spec (c : Nat) : Translated.c11_lowerCond c = decide (65 ≤ c ∧ c ≤ 90) := by
  unfold Translated.c11_lowerCond; tr_cond
theorem c11_lowerBody_spec (c s_i : Nat) : Translated.c11_lowerBody c s_i = c + 32 := by
  unfold Translated.c11_lowerBody; tr_val
theorem c11_escape_bs_spec (b : Nat) : Translated.c11_escape_bs b = 92 := by
  unfold Translated.c11_escape_bs; tr_val
theorem c11_escape_d2_spec (b : Nat) : Translated.c11_escape_d2 b = 48 + b / 100 := by
  unfold Translated.c11_escape_d2; tr_val
theorem c11_escape_d1_spec (b : Nat) : Translated.c11_escape_d1 b = 48 + b / 10 % 10 := by
  unfold Translated.c11_escape_d1; tr_val
theorem c11_escape_d0_spec (b : Nat) : Translated.c11_escape_d0 b = 48 + b % 10 := by
  unfold Translated.c11_escape_d0; tr_val
theorem c11_readable_rootCond_spec (n : Nat) : Translated.c11_readable_rootCond n = decide (n = 0) := by
  unfold Translated.c11_readable_rootCond; tr_cond
theorem c11_append_zeroCond_spec (l : Nat) : Translated.c11_append_zeroCond l = decide (l = 0) := by
  unfold Translated.c11_append_zeroCond; tr_cond
theorem c11_append_longCond_spec (l : Nat) : Translated.c11_append_longCond l = decide (l > 63) := by
  unfold Translated.c11_append_longCond; tr_cond
theorem c11_append_labelEnd_spec (l b_l : Nat) : Translated.c11_append_labelEnd l b_l = b_l + 1 + l := by
  unfold Translated.c11_append_labelEnd; tr_val
theorem c11_append_endCond_spec (e : Nat) : Translated.c11_append_endCond e = decide (e > 253) := by
  unfold Translated.c11_append_endCond; tr_cond
theorem c11_parse_trailCond_spec (n last : Nat) :
    Translated.c11_parse_trailCond n last = decide (n > 0 ∧ last = 46) := by
  unfold Translated.c11_parse_trailCond; tr_cond
theorem c11_parse_rootCond_spec (n : Nat) : Translated.c11_parse_rootCond n = decide (n = 0) := by
  unfold Translated.c11_parse_rootCond; tr_cond
theorem c11_parse_loopCond_spec (off n : Nat) : Translated.c11_parse_loopCond off n = decide (off < n) := by
  unfold Translated.c11_parse_loopCond; tr_cond
theorem c11_parse_idxCond_spec (i : Int) : Translated.c11_parse_idxCond i = decide (i > 0) := by
  unfold Translated.c11_parse_idxCond; tr_cond
theorem c11_parse_advance_spec (off n : Nat) : Translated.c11_parse_advance off n = off + n + 1 := by
  unfold Translated.c11_parse_advance; tr_val
theorem c11_scan_tooLongCond_spec (n : Nat) : Translated.c11_scan_tooLongCond n = decide (n > 254) := by
  unfold Translated.c11_scan_tooLongCond; tr_cond
theorem c11_scan_doneCond_spec (off n : Int) : Translated.c11_scan_doneCond off n = decide (off ≥ n) := by
  unfold Translated.c11_scan_doneCond; tr_cond
theorem c11_scan_zeroCond_spec (n : Nat) : Translated.c11_scan_zeroCond n = decide (n = 0) := by
  unfold Translated.c11_scan_zeroCond; tr_cond
theorem c11_scan_longCond_spec (n : Nat) : Translated.c11_scan_longCond n = decide (n > 63) := by
  unfold Translated.c11_scan_longCond; tr_cond
theorem c11_scan_labelEnd_spec (off n : Nat) : Translated.c11_scan_labelEnd off n = off + 1 + n := by
  unfold Translated.c11_scan_labelEnd; tr_val
theorem c11_scan_endCond_spec (e n : Nat) : Translated.c11_scan_endCond e n = decide (e > n) := by
  unfold Translated.c11_scan_endCond; tr_cond

/-! ### utils.go -/

/-- `isPrintableLabelChar` is the translated function body. -/
theorem isPrintableLabelChar_translated (b : UInt8) :
    isPrintableLabelChar b = Translated.c11_isPrintable b.toNat := by
  rw [c11_isPrintable_spec]
  unfold isPrintableLabelChar
  have h45 : (b == 45) = decide (b.toNat = 45) := by
    rw [Bool.eq_iff_iff]; simp [← UInt8.toNat_inj]
  rw [Bool.eq_iff_iff]
  simp [UInt8.le_iff_toNat_le, h45]
  omega

/-- one octet of `asciiToLower`: the translated test, then the translated body (`c += 'a' - 'A'; s[i] = c`);
    `s[i]` is `c` before the step (`for i, c := range s`). -/
theorem lowerByte_translated (c : UInt8) :
    lowerByte c =
      if Translated.c11_lowerCond c.toNat then UInt8.ofNat (Translated.c11_lowerBody c.toNat c.toNat) else c := by
  rw [c11_lowerCond_spec, c11_lowerBody_spec]
  unfold lowerByte
  simp only [UInt8.le_iff_toNat_le, decide_eq_true_eq]
  have h1 : (65 : UInt8).toNat = 65 := rfl
  have h2 : (90 : UInt8).toNat = 90 := rfl
  rw [h1, h2]
  split
  · apply UInt8.toNat_inj.mp
    have h3 : (32 : UInt8).toNat = 32 := rfl
    rw [UInt8.toNat_add, UInt8.toNat_ofNat', h3]
  · rfl

/-! ### ToReadable -/

/-- the `\DDD` escape appends the four translated arguments of `append(dst, '\\', '0'+b/100, '0'+b/10%10, '0'+b%10)`. -/
theorem escapeByte_translated (b : UInt8) :
    escapeByte b =
      if Translated.c11_isPrintable b.toNat then [b]
      else if b = 46 then [92, 46]
      else if b = 92 then [92, 92]
      else [UInt8.ofNat (Translated.c11_escape_bs b.toNat), UInt8.ofNat (Translated.c11_escape_d2 b.toNat),
        UInt8.ofNat (Translated.c11_escape_d1 b.toNat), UInt8.ofNat (Translated.c11_escape_d0 b.toNat)] := by
  unfold escapeByte
  rw [isPrintableLabelChar_translated, c11_escape_bs_spec, c11_escape_d2_spec, c11_escape_d1_spec,
    c11_escape_d0_spec]
  have e2 : (48 + b / 100 : UInt8) = UInt8.ofNat (48 + b.toNat / 100) := by
    apply UInt8.toNat_inj.mp
    rw [UInt8.toNat_add, UInt8.toNat_div, UInt8.toNat_ofNat']
    show (48 + b.toNat / 100) % 2 ^ 8 = _
    rfl
  have e1 : (48 + b / 10 % 10 : UInt8) = UInt8.ofNat (48 + b.toNat / 10 % 10) := by
    apply UInt8.toNat_inj.mp
    rw [UInt8.toNat_add, UInt8.toNat_mod, UInt8.toNat_div, UInt8.toNat_ofNat']
    show (48 + b.toNat / 10 % 10) % 2 ^ 8 = _
    rfl
  have e0 : (48 + b % 10 : UInt8) = UInt8.ofNat (48 + b.toNat % 10) := by
    apply UInt8.toNat_inj.mp
    rw [UInt8.toNat_add, UInt8.toNat_mod, UInt8.toNat_ofNat']
    show (48 + b.toNat % 10) % 2 ^ 8 = _
    rfl
  rw [e2, e1, e0]
  rfl

/-- `ToReadable`: the root test `len(n) == 0`. -/
theorem toReadable_translated (n : Bytes) :
    toReadable n =
      if Translated.c11_readable_rootCond n.length then some [46] else (scan n).map (readableLoop false []) := by
  rw [c11_readable_rootCond_spec]
  unfold toReadable
  simp

/-! ### NameBuilder -/

/-- `AppendLabel`: the three translated tests, on the translated `labelEnd`. -/
theorem appendLabel_translated (b : Builder) (s : Bytes) :
    b.appendLabel s =
      if Translated.c11_append_zeroCond s.length then none
      else if Translated.c11_append_longCond s.length then none
      else if Translated.c11_append_endCond (Translated.c11_append_labelEnd s.length b.data.length) then none
      else some ⟨b.data ++ UInt8.ofNat s.length :: s⟩ := by
  rw [c11_append_zeroCond_spec, c11_append_longCond_spec, c11_append_endCond_spec, c11_append_labelEnd_spec]
  unfold Builder.appendLabel
  simp [labelMax, builderMax]

/-- `bytes.IndexByte` as a Go `int` (`-1` = absent). -/
def idxInt : Option Nat → Int
  | some i => (i : Int)
  | none => -1

/-- the trailing-dot test of `ParseReadable`: `len(s) > 0 && s[len(s)-1] == '.'` (`s[len(s)-1]` is only read
    when `len(s) > 0`; any value stands for it otherwise). -/
theorem dropTrailingDot_translated (s : Bytes) (dflt : UInt8) :
    dropTrailingDot s =
      if Translated.c11_parse_trailCond s.length (s.getLast?.getD dflt).toNat then s.dropLast else s := by
  rw [c11_parse_trailCond_spec]
  unfold dropTrailingDot
  rcases List.eq_nil_or_concat s with rfl | ⟨l, x, rfl⟩
  · simp
  · simp only [List.concat_eq_append, List.getLast?_append, List.getLast?_singleton, Option.some_or,
      Option.some.injEq, List.length_append, List.length_cons, List.length_nil, Option.getD_some,
      ← UInt8.toNat_inj]
    have : (46 : UInt8).toNat = 46 := rfl
    simp [this]

/-- `ParseReadable`: trailing dot, then the root test `len(s) == 0`. -/
theorem parseReadable_translated (s : Bytes) :
    parseReadable s =
      let s := dropTrailingDot s
      if Translated.c11_parse_rootCond s.length then some {} else parseLoop s.length s {} := by
  simp only [c11_parse_rootCond_spec]
  unfold parseReadable
  simp

/-- one iteration of the `for off < len(s)` loop of `ParseReadable`, at ANY offset `off`
    (`rest = s[off:]`, so `len(s) = off + rest.length`): the loop test, the `i > 0` test on the index
    returned by `bytes.IndexByte`, and the advance `off += len(label) + 1`. -/
theorem parseLoop_translated (fuel off : Nat) (rest : Bytes) (b : Builder) :
    parseLoop (fuel + 1) rest b =
      if Translated.c11_parse_loopCond off (off + rest.length) then
        let i := idxInt (indexByte 46 rest)
        let label := if Translated.c11_parse_idxCond i then rest.take i.toNat else rest
        match b.appendLabel label with
        | none => none
        | some b' => parseLoop fuel (rest.drop (Translated.c11_parse_advance off label.length - off)) b'
      else some b := by
  rw [parseLoop]
  simp only [c11_parse_loopCond_spec, c11_parse_idxCond_spec, c11_parse_advance_spec]
  cases rest with
  | nil => simp
  | cons x xs =>
    have hadv : ∀ n : Nat, off + n + 1 - off = n + 1 := fun n => by omega
    simp only [List.isEmpty_cons, Bool.false_eq_true, ↓reduceIte, List.length_cons, hadv]
    have hlt : off < off + (xs.length + 1) := by omega
    simp only [hlt, decide_true, ↓reduceIte]
    cases hi : indexByte 46 (x :: xs) with
    | none => simp [idxInt]; rfl
    | some i =>
      cases i with
      | zero => simp [idxInt]; rfl
      | succ j => simp [idxInt]; rfl

/-! ### NameScanner -/

/-- `Scan`, first test: `len(s.n) > 254`. -/
theorem scan_translated (n : Bytes) :
    scan n = if Translated.c11_scan_tooLongCond n.length then none else scanLoop (n.length + 1) n := by
  rw [c11_scan_tooLongCond_spec]
  unfold scan
  simp [scanMax]

/-- `Scan` at the end of the name (`s.n[s.off:]` empty): `s.off > len(s.n)-1` holds (as Go `int`s:
    for the empty name `0 > -1`). -/
theorem scanLoop_nil_translated (fuel off : Nat) :
    scanLoop (fuel + 1) [] =
      if Translated.c11_scan_doneCond (off : Int) ((off + ([] : Bytes).length : Nat) : Int) then some []
      else none := by
  rw [c11_scan_doneCond_spec]
  simp [scanLoop]

/-- `Scan` with `s.n[s.off:] = c :: rest`, at ANY offset `off` (`len(s.n) = off + 1 + rest.length`): the
    end test, `labelLen == 0`, `labelLen > 63`, and `labelEnd > len(s.n)` on the translated `labelEnd`. -/
theorem scanLoop_cons_translated (fuel off : Nat) (c : UInt8) (rest : Bytes) :
    scanLoop (fuel + 1) (c :: rest) =
      if Translated.c11_scan_doneCond (off : Int) ((off + (c :: rest).length : Nat) : Int) then some []
      else if Translated.c11_scan_zeroCond c.toNat then none
      else if Translated.c11_scan_longCond c.toNat then none
      else if Translated.c11_scan_endCond (Translated.c11_scan_labelEnd off c.toNat) (off + (c :: rest).length) then none
      else (scanLoop fuel (rest.drop c.toNat)).map (rest.take c.toNat :: ·) := by
  rw [scanLoop]
  simp only [c11_scan_doneCond_spec, c11_scan_zeroCond_spec, c11_scan_longCond_spec, c11_scan_endCond_spec,
    c11_scan_labelEnd_spec]
  have h : ¬ ((off : Int) ≥ ((off + (rest.length + 1) : Nat) : Int)) := by omega
  have e : (off + 1 + c.toNat > off + (rest.length + 1)) = (c.toNat > rest.length) := by
    apply propext; omega
  simp only [List.length_cons, h, decide_false, Bool.false_eq_true, ↓reduceIte, e,
    labelMax, beq_iff_eq, decide_eq_true_eq]
  rfl

/-- `ToLowerName` runs the same scanner: same tests. -/
theorem toLowerName_translated (n : Bytes) :
    toLowerName n = if Translated.c11_scan_tooLongCond n.length then n else toLowerLoop (n.length + 1) n := by
  rw [c11_scan_tooLongCond_spec]
  unfold toLowerName
  simp [scanMax]

theorem toLowerLoop_cons_translated (fuel off : Nat) (c : UInt8) (rest : Bytes) :
    toLowerLoop (fuel + 1) (c :: rest) =
      if Translated.c11_scan_doneCond (off : Int) ((off + (c :: rest).length : Nat) : Int) then c :: rest
      else if Translated.c11_scan_zeroCond c.toNat then c :: rest
      else if Translated.c11_scan_longCond c.toNat then c :: rest
      else if Translated.c11_scan_endCond (Translated.c11_scan_labelEnd off c.toNat) (off + (c :: rest).length) then c :: rest
      else c :: (lowerLabel (rest.take c.toNat) ++ toLowerLoop fuel (rest.drop c.toNat)) := by
  rw [toLowerLoop]
  simp only [c11_scan_doneCond_spec, c11_scan_zeroCond_spec, c11_scan_longCond_spec, c11_scan_endCond_spec,
    c11_scan_labelEnd_spec]
  have h : ¬ ((off : Int) ≥ ((off + (rest.length + 1) : Nat) : Int)) := by omega
  have e : (off + 1 + c.toNat > off + (rest.length + 1)) = (c.toNat > rest.length) := by
    apply propext; omega
  simp only [List.length_cons, h, decide_false, Bool.false_eq_true, ↓reduceIte, e,
    labelMax, beq_iff_eq, decide_eq_true_eq]
  rfl

/-! ### loader_helper.go -/

/-- `if i := bytes.IndexByte(b, '#'); i >= 0 { b = b[:i] }` -/
theorem stripComment_translated (b : Bytes) :
    stripComment b =
      let i := idxInt (indexByte 35 b)
      if Translated.c11_loader_commentCond i then b.take i.toNat else b := by
  simp only [c11_loader_commentCond_spec]
  unfold stripComment
  cases indexByte 35 b with
  | none => simp [idxInt]
  | some i => simp [idxInt]

/-- `if len(b) == 0 { continue }` -/
theorem loaderLine_translated (line : Bytes) :
    loaderLine line =
      let b := trimSpace (stripComment line)
      if Translated.c11_loader_blankCond b.length then none else some b := by
  simp only [c11_loader_blankCond_spec]
  unfold loaderLine
  simp

/-! ### sub_domain.go -/

/-- which map: the `l < 24` test of `AddLeaf`, of `GetOrAddChild` and of `GetChild` (three copies in the Go
    source, one `keyOf` in the model: all three must agree with it). -/
theorem keyOf_translated_addLeaf (label : Label) :
    keyOf label =
      if Translated.c11_keyLt_addLeaf label.length then .short (shortLabelKey label) else .long label := by
  rw [c11_keyLt_addLeaf_spec]
  unfold keyOf
  simp only [keyWidth, decide_eq_true_eq]
  rfl

theorem keyOf_translated_getOrAdd (label : Label) :
    keyOf label =
      if Translated.c11_keyLt_getOrAdd label.length then .short (shortLabelKey label) else .long label := by
  rw [c11_keyLt_getOrAdd_spec]
  unfold keyOf
  simp only [keyWidth, decide_eq_true_eq]
  rfl

theorem keyOf_translated_getChild (label : Label) :
    keyOf label =
      if Translated.c11_keyLt_getChild label.length then .short (shortLabelKey label) else .long label := by
  rw [c11_keyLt_getChild_spec]
  unfold keyOf
  simp only [keyWidth, decide_eq_true_eq]
  rfl

/-- the loop of `DomainMatcher.Add`: the list holds `labels[i], …, labels[0]`, i.e. `i = length - 1`; the loop
    test `i >= 0`, the `continue` test `len(label) == 0` and the leaf test `i == 0`. -/
theorem addWalk_translated (ls : List Label) (n : Children) :
    addWalk ls n =
      if Translated.c11_add_loopCond ((ls.length : Int) - 1) then
        match ls with
        | [] => n
        | label :: rest =>
          if Translated.c11_add_skipCond label.length then addWalk rest n
          else if Translated.c11_add_leafCond (((label :: rest).length : Int) - 1) then addLeaf n label
          else
            match getChild n label with
            | some .leaf => n
            | _ =>
              let r := getOrAddChild n label
              store (keyOf label) (.node (addWalk rest r.2)) r.1
      else n := by
  simp only [c11_add_loopCond_spec, c11_add_skipCond_spec, c11_add_leafCond_spec]
  cases ls with
  | nil => simp [addWalk]
  | cons label rest =>
    rw [addWalk]
    have h : (0 ≤ (((label :: rest).length : Nat) : Int) - 1) := by simp
    have e : (((((label :: rest).length : Nat) : Int) - 1 = 0)) = (rest.isEmpty = true) := by
      apply propext
      cases rest <;> simp
      omega
    simp only [h, decide_true, ↓reduceIte, e, beq_iff_eq, decide_eq_true_eq, Bool.decide_eq_true]
    rfl

/-- `DomainMatcher.Add`: `if m.rootMatched { return }` … `if !hasLabel { … }`. -/
theorem add_translated (m : DM) (labels : List Label) :
    m.add labels =
      if Translated.c11_add_rootCond m.rootMatched then m
      else if Translated.c11_add_noLabelCond (labels.any (fun l => l.length != 0)) then
        { root := [], rootMatched := true }
      else { m with root := addWalk labels.reverse m.root } := by
  rw [c11_add_rootCond_spec, c11_add_noLabelCond_spec]
  rfl

/-- the second loop of `DomainMatcher.Match`: the test `i >= 0` with `i = length - 1`. -/
theorem matchWalk_translated (ls : List Label) (n : Children) :
    matchWalk ls n =
      if Translated.c11_match_loopCond ((ls.length : Int) - 1) then
        match ls with
        | [] => false
        | label :: rest =>
          match getChild n label with
          | none => false
          | some .leaf => true
          | some (.node c) => matchWalk rest c
      else false := by
  simp only [c11_match_loopCond_spec]
  cases ls with
  | nil => simp [matchWalk]
  | cons label rest =>
    rw [matchWalk]
    have h : (0 ≤ (((label :: rest).length : Nat) : Int) - 1) := by simp
    simp only [h, decide_true, ↓reduceIte]
    rfl

/-! ### mix.go -/

/-- `if i := bytes.IndexByte(rule, ':'); i >= 0 { typ = rule[:i]; exp = rule[i+1:] } else { exp = rule }` -/
def splitRule (rule : Bytes) : Bytes × Bytes :=
  let i := idxInt (indexByte 58 rule)
  if Translated.c11_mix_sepCond i then (rule.take i.toNat, rule.drop (i.toNat + 1)) else ([], rule)

theorem splitRule_eq (rule : Bytes) :
    splitRule rule =
      (match indexByte 58 rule with
      | some i => (rule.take i, rule.drop (i + 1))
      | none => ([], rule)) := by
  unfold splitRule
  simp only [c11_mix_sepCond_spec]
  cases indexByte 58 rule with
  | none => simp [idxInt]
  | some i => simp [idxInt]

/-- `MixMatcher.Add` splits the rule with the translated test. -/
theorem mixAdd_translated (re : Re) (m : Mix) (rule : Bytes) :
    m.add re rule =
      let (typ, exp) := splitRule rule
      if typ = [] ∨ typ = typDomain then
        match parseReadable exp with
        | none => none
        | some b =>
          let data := toLowerName b.data
          match scan data with
          | none => some m
          | some labels => some { m with domain := m.domain.add labels }
      else if typ = typFull then
        match parseReadable exp with
        | none => none
        | some b => some { m with full := fullAdd m.full (toLowerName b.data) }
      else if typ = typRegexp then
        match regexpAdd re m.regexp exp with
        | none => none
        | some r => some { m with regexp := r }
      else none := by
  rw [splitRule_eq]
  rfl

end MosVerif.Trie
