/-
  The upstream query of the request-handling model (Model/Router.lean `reqMsg` / `packReq`) against the
  executable specification's view of it (Model/RouterIO.lean `wantEcs`, `checkForwarded`):

    * lower-casing keeps a name well formed (`nameWF_lowerName`): length octets are ≤ 63, hence not letters;
    * the ECS option the model builds is octet for octet the one the specification expects (`reqData_eq`),
      for client addresses of ANY length (the mask leaves the kept octets untouched);
    * `reqMsg env q` is a well-formed message whenever the question is (`reqMsg_wf`);
    * therefore `packReq` succeeds and its bytes decode back to `reqMsg env q` (`packReq_decodes`),
      by the codec round trip of C02.
-/
import MosVerif.Lemmas.CodecWF
import MosVerif.Lemmas.RouterBasic
import MosVerif.Model.RouterIO
namespace MosVerif.Router
open MosVerif MosVerif.Wire MosVerif.RouterIO

/-! ### lower-casing and well-formed names -/

theorem lowerByte_small (l : UInt8) (h : l.toNat ≤ 63) : lowerByte l = l := by
  unfold lowerByte
  rw [if_neg (by omega)]

theorem lowerName_append (a b : Name) : lowerName (a ++ b) = lowerName a ++ lowerName b := by
  simp [lowerName]

theorem lowerName_cons (l : UInt8) (a : Name) : lowerName (l :: a) = lowerByte l :: lowerName a := by
  simp [lowerName]

/-- lower-casing every octet of a label sequence leaves the label structure intact -/
theorem labels_lowerName {n : Name} (h : Labels n) : Labels (lowerName n) := by
  induction h with
  | nil => exact Labels.nil
  | cons l lab rest h0 h63 hl _ ih =>
    rw [lowerName_cons, lowerName_append, lowerByte_small l h63]
    exact Labels.cons l (lowerName lab) (lowerName rest) h0 h63 (by rw [lowerName_length]; exact hl) ih

/-- ★ `ToLowerName` of a well-formed name is a well-formed name -/
theorem nameWF_lowerName (n : Name) (h : nameWF n = true) : nameWF (lowerName n) = true := by
  rw [nameWF_iff] at h ⊢
  exact ⟨by rw [lowerName_length]; exact h.1, labels_lowerName h.2⟩

theorem questionWF_lower (q0 : Question) (h : questionWF q0 = true) :
    questionWF ⟨lowerName q0.name, q0.qtype, q0.qclass⟩ = true := by
  simp only [questionWF, Bool.and_eq_true] at h ⊢
  exact ⟨⟨nameWF_lowerName _ h.1.1, h.1.2⟩, h.2⟩

/-! ### the ECS option -/

/-- masking to `bits` leading bits does not touch the first `k` octets when `8·k ≤ bits` -/
theorem maskBytes_take (b : Bytes) (bits k : Nat) (hk : k * 8 ≤ bits) : (maskBytes b bits).take k = b.take k := by
  apply List.ext_getElem?
  intro i
  simp only [maskBytes, List.getElem?_take, List.getElem?_map]
  by_cases hik : i < k
  · simp only [hik, ↓reduceIte]
    by_cases hib : i < b.length
    · have h8 : (i + 1) * 8 ≤ bits := by
        have : (i + 1) * 8 ≤ k * 8 := Nat.mul_le_mul_right 8 hik
        omega
      simp [List.getElem?_range hib, List.getElem?_eq_getElem hib, h8]
    · have : b.length ≤ i := by omega
      simp [List.getElem?_eq_none this]
      exact this
  · simp [hik]

/-- ★ the option data the model sends is exactly what the specification expects (`wantEcs`) -/
theorem reqData_eq (env : Env) :
    (if env.ecs ∧ env.addr.isValid then (makeECS env.addr).getD [] else []) = wantEcs env := by
  unfold wantEcs
  by_cases h : env.ecs ∧ env.addr.isValid
  · rw [if_pos h, if_pos h]
    unfold makeECS
    cases hu : env.addr.unmap with
    | none => rfl
    | v4 b =>
      simp only [Option.getD_some]
      have := maskBytes_take b ecsMask4 ecsKeep4 (by decide)
      rw [this]
      rfl
    | v6 b =>
      simp only [Option.getD_some]
      have := maskBytes_take b ecsMask6 ecsKeep6 (by decide)
      rw [this]
      rfl
  · rw [if_neg h, if_neg h]

/-- at most 8 + 7 octets of option data -/
theorem wantEcs_length (env : Env) : (wantEcs env).length ≤ 15 := by
  unfold wantEcs
  split
  · split
    · simp only [List.length_append, List.length_cons, List.length_nil, List.length_take]; omega
    · simp only [List.length_append, List.length_cons, List.length_nil, List.length_take]; omega
    · simp
  · simp

/-! ### the upstream query -/

/-- the proxy's own OPT record carrying `d` as its options -/
def ownOpt (d : Bytes) : Resource := ⟨[], typeOPT, 1200, 0, .raw d⟩

theorem newEDNS0_udp (d : Bytes) : newEDNS0 udpSize d = ownOpt d := by
  simp [newEDNS0, udpSize, Facts.udpSize, ownOpt]

/-- ★ the upstream query, spelled out in the specification's terms -/
theorem reqMsg_eq (env : Env) (q : Question) :
    reqMsg env q = ⟨{ emptyHdr with rd := true }, [q], [], [], [ownOpt (wantEcs env)]⟩ := by
  unfold reqMsg
  simp only [ecsGuard, Bool.and_eq_true, reqData_eq, newEDNS0_udp]

theorem ownOpt_wf (d : Bytes) (h : d.length ≤ 65535) : resourceWF (ownOpt d) = true := by
  have hn : nameWF [] = true := nameWF_nil
  simp only [resourceWF, ownOpt, hn, rdataWF, Bool.true_and, Bool.and_eq_true, decide_eq_true_eq]
  refine ⟨⟨⟨by decide, by decide⟩, by decide⟩, by decide, h⟩

/-- ★ the upstream query is a well-formed message whenever its question is -/
theorem reqMsg_wf (env : Env) (q : Question) (hq : questionWF q = true) : msgWF (reqMsg env q) = true := by
  rw [reqMsg_eq]
  have ho := ownOpt_wf (wantEcs env) (by have := wantEcs_length env; omega)
  simp only [msgWF, List.all_cons, List.all_nil, hq, ho, Bool.and_true, List.length_cons,
    List.length_nil, Bool.and_eq_true, decide_eq_true_eq]
  refine ⟨⟨⟨⟨by decide, by omega⟩, by omega⟩, by omega⟩, by omega⟩

/-- ★ key sub-lemma: `packReq` never fails on a well-formed question, and what it sends decodes back to
    `reqMsg env q` (C02 round trip, no compression, buffer of `Msg.Len()` octets). -/
theorem packReq_decodes (env : Env) (q : Question) (hq : questionWF q = true) :
    ∃ wire, packReq env q = .ok wire ∧ unpackMsg wire = .ok (reqMsg env q) := by
  obtain ⟨bs, h1, _, _, h4, _⟩ := packMsg_roundtrip (reqMsg env q) false (reqMsg_wf env q hq)
  exact ⟨bs, h1, h4⟩

theorem packReq_ok_decodes (env : Env) (q : Question) (hq : questionWF q = true) (wire : Bytes)
    (h : packReq env q = .ok wire) : unpackMsg wire = .ok (reqMsg env q) := by
  obtain ⟨w, h1, h2⟩ := packReq_decodes env q hq
  rw [h] at h1
  cases h1
  exact h2

/-- ★ refresh path: the query a background refresh sends (`packReq` again, same client address) passes the
    C10/C12 judgement of a forwarded query. -/
theorem checkForwarded_packReq (env : Env) (q : Question) (hq : questionWF q = true) (wire : Bytes)
    (h : packReq env q = .ok wire) : checkForwarded env q wire = "ok" := by
  unfold checkForwarded
  rw [packReq_ok_decodes env q hq wire h, reqMsg_eq]
  simp [ownOpt, emptyHdr]

end MosVerif.Router
