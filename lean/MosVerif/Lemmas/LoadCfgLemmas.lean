/-
  The tag tables of `run` accept exactly the configurations the property describes.
-/
import MosVerif.Model.LoadCfg
namespace MosVerif.LoadCfg

theorem loadUpstreams_spec (tbl : List String) (ups : List (String × Bool)) :
    (∃ r, loadUpstreams tbl ups = some r ∧ ∀ x, x ∈ r ↔ x ∈ tbl ∨ x ∈ ups.map (·.1)) ↔
    ((ups.map (·.1)).all (· ≠ "") = true ∧ (ups.map (·.1)).Nodup ∧ ups.all (·.2) = true ∧
      ∀ x ∈ ups.map (·.1), x ∉ tbl) := by
  induction ups generalizing tbl with
  | nil => simp [loadUpstreams]
  | cons p rest ih =>
    obtain ⟨tag, hasAddr⟩ := p
    simp only [loadUpstreams, List.map_cons, List.all_cons, List.nodup_cons, List.mem_cons, forall_eq_or_imp]
    by_cases h1 : tag = ""
    · simp [h1]
    · by_cases h2 : tbl.contains tag = true
      · have : tag ∈ tbl := by simpa using h2
        simp [h1, h2, this]
      · have hnot : tag ∉ tbl := by simpa using h2
        cases hasAddr with
        | false => simp [h1, h2]
        | true =>
          simp only [h1, ↓reduceIte, h2, Bool.false_eq_true, Bool.not_true, ne_eq, not_false_eq_true,
            decide_true, Bool.true_and, Bool.and_true]
          have := ih (tag :: tbl)
          constructor
          · rintro ⟨r, hr, hm⟩
            have h' := this.mp ⟨r, hr, by
              intro x; rw [hm x]; simp only [List.mem_cons]; constructor
              · rintro (h | h | h)
                · exact Or.inl (Or.inr h)
                · exact Or.inl (Or.inl h)
                · exact Or.inr h
              · rintro ((h | h) | h)
                · exact Or.inr (Or.inl h)
                · exact Or.inl h
                · exact Or.inr (Or.inr h)⟩
            obtain ⟨ha, hn, hb, hd⟩ := h'
            refine ⟨by simpa using ha, ⟨?_, hn⟩, hb, hnot, ?_⟩
            · intro hmem; exact (hd tag hmem) (by simp)
            · intro x hx hxt; exact (hd x hx) (by simp [hxt])
          · rintro ⟨ha, ⟨hnm, hn⟩, hb, _, hd⟩
            have h' := this.mpr ⟨by simpa using ha, hn, hb, by
              intro x hx hxt
              simp only [List.mem_cons] at hxt
              rcases hxt with rfl | hxt
              · exact hnm hx
              · exact hd x hx hxt⟩
            obtain ⟨r, hr, hm⟩ := h'
            refine ⟨r, hr, ?_⟩
            intro x; rw [hm x]; simp only [List.mem_cons]; constructor
            · rintro ((h | h) | h)
              · exact Or.inr (Or.inl h)
              · exact Or.inl h
              · exact Or.inr (Or.inr h)
            · rintro (h | h | h)
              · exact Or.inl (Or.inr h)
              · exact Or.inl (Or.inl h)
              · exact Or.inr h

end MosVerif.LoadCfg

namespace MosVerif.LoadCfg

theorem loadDomainSets_eq (tbl : List String) (dss : List String) :
    loadDomainSets tbl dss = loadUpstreams tbl (dss.map (fun t => (t, true))) := by
  induction dss generalizing tbl with
  | nil => rfl
  | cons t rest ih =>
    simp only [loadDomainSets, loadUpstreams, List.map_cons]
    by_cases h1 : t = ""
    · simp [h1]
    · by_cases h2 : t ∈ tbl
      · simp [h1, h2]
      · simp [h1, h2, ih]

theorem loadRules_spec (ups dss : List String) (rules : List (String × String)) :
    loadRules ups dss rules = rules.all (fun (d, f) => (d = "" || dss.contains d) && (f = "" || ups.contains f)) := by
  induction rules with
  | nil => rfl
  | cons p rest ih =>
    obtain ⟨d, f⟩ := p
    simp only [loadRules, List.all_cons, ih]
    by_cases hd : d = "" <;> by_cases hf : f = "" <;> by_cases hdc : d ∈ dss <;>
      by_cases hfc : f ∈ ups <;> simp [hd, hf, hdc, hfc, Bool.and_assoc]

/-- the table returned by a successful load has exactly the configured tags -/
theorem loadUpstreams_mem (ups : List (String × Bool)) (r : List String) (h : loadUpstreams [] ups = some r) :
    ∀ x, r.contains x = (ups.map (·.1)).contains x := by
  -- run the recursion with an explicit accumulator invariant
  have key : ∀ (tbl : List String) (ups : List (String × Bool)) (r : List String),
      loadUpstreams tbl ups = some r → ∀ x, x ∈ r ↔ x ∈ tbl ∨ x ∈ ups.map (·.1) := by
    intro tbl ups
    induction ups generalizing tbl with
    | nil => intro r h x; simp [loadUpstreams] at h; subst h; simp
    | cons p rest ih =>
      obtain ⟨tag, hasAddr⟩ := p
      intro r h x
      simp only [loadUpstreams] at h
      split at h
      · cases h
      · split at h
        · cases h
        · split at h
          · cases h
          · have := ih (tag :: tbl) r h x
            rw [this]
            simp only [List.mem_cons, List.map_cons]
            constructor
            · rintro ((h | h) | h)
              · exact Or.inr (Or.inl h)
              · exact Or.inl h
              · exact Or.inr (Or.inr h)
            · rintro (h | h | h)
              · exact Or.inl (Or.inr h)
              · exact Or.inl (Or.inl h)
              · exact Or.inr h
  intro x
  have := key [] ups r h x
  simp only [List.not_mem_nil, false_or] at this
  by_cases hx : x ∈ r
  · have hx2 := this.mp hx
    simp [hx, hx2]
  · have hx2 : x ∉ ups.map (·.1) := fun h' => hx (this.mpr h')
    have e1 : r.contains x = false := by simpa using hx
    have e2 : (ups.map (·.1)).contains x = false := by simpa using hx2
    rw [e1, e2]

end MosVerif.LoadCfg

namespace MosVerif.LoadCfg

/-- the full start-up decision agrees with the full specification as soon as the tag tables do -/
theorem acceptsFull_eq (c : Cfg) (h : accepts c = specAccepts c) : acceptsFull c = specFull c := by
  unfold acceptsFull specFull; rw [h]; rfl

/-- a configuration that starts has only reject values that are DNS header rcodes -/
theorem accepted_rejects_are_rcodes (c : Cfg) (h : acceptsFull c = true) : ∀ r ∈ c.rejects, r < 16 := by
  unfold acceptsFull at h
  simp only [Bool.and_eq_true, List.all_eq_true, rejectInRange, decide_eq_true_eq] at h
  intro r hr
  have := h.1.2 r hr
  omega

example : acceptsFull { upstreams := [("a", true)], domainSets := [], rules := [("", "a")], unknownKey := false, rejects := [16] } = false := by decide
example : acceptsFull { upstreams := [("a", true)], domainSets := [], rules := [("", "a")], unknownKey := false, rejects := [5], multiDoc := true } = false := by decide
example : acceptsFull { upstreams := [("a", true)], domainSets := [], rules := [("", "a")], unknownKey := false, rejects := [15] } = true := by decide

end MosVerif.LoadCfg

