/-
  C18 — history lemmas about the close-protocol model: where exchange ids, successes and blocked callers
  come from.  Used by the theorem that the model meets the executable specification.
-/
import MosVerif.Lemmas.CloseLemmas
namespace MosVerif.Close

def replyId : Op → Option Nat | .reply e => some e | _ => none

/-- ids of exchanges come from `start` operations -/
theorem step_ids (s : St) (op : Op) :
    ∀ x ∈ (step s op).exs, (∃ y ∈ s.exs, y.id = x.id) ∨ startId op = some x.id := by
  rw [step_exs]
  cases op <;>
    simp only [step0, startOp, dialOkOp, dialErrOp, replyOp, cancelOp, timerOp, closeOp, failWaiters] <;>
    intro x hx <;> repeat' split at hx
  all_goals
    first
    | exact Or.inl ⟨x, hx, rfl⟩
    | (simp only [List.mem_append, List.mem_singleton, List.mem_map] at hx; grind [startId])

theorem run_ids (s : St) (l : List Op) :
    ∀ x ∈ (run s l).exs, (∃ y ∈ s.exs, y.id = x.id) ∨ x.id ∈ l.filterMap startId := by
  induction l generalizing s with
  | nil => intro x hx; exact Or.inl ⟨x, hx, rfl⟩
  | cons op rest ih =>
    intro x hx
    rcases ih (step s op) x hx with ⟨y, hy, hid⟩ | h
    · rcases step_ids s op y hy with ⟨z, hz, hzid⟩ | h
      · exact Or.inl ⟨z, hz, hzid.trans hid⟩
      · right
        simp only [List.filterMap_cons, h]
        simp [← hid]
    · right
      simp only [List.filterMap_cons]
      split <;> simp [h]

/-- in a closed state, an exchange outside the id set `B` that already failed stays failed, and every
    exchange that appears fails -/
theorem step_closed_new (B : List Nat) (s : St) (op : Op) (hc : s.closed = true)
    (h : ∀ x ∈ s.exs, x.id ∈ B ∨ x.res = some .err) :
    ∀ x ∈ (step s op).exs, x.id ∈ B ∨ x.res = some .err := by
  rw [step_exs]
  cases op with
  | start e b =>
    simp only [step0, startOp, hc, if_true]
    split
    · exact h
    · intro x hx
      simp only [List.mem_append, List.mem_singleton] at hx
      rcases hx with hx | rfl
      · exact h x hx
      · simp
  | close => simpa [step0, closeOp, hc] using h
  | trunc e => exact h
  | burn k => exact h
  | timer =>
    simp only [step0, timerOp]
    intro x hx
    repeat' split at hx
    all_goals exact h x hx
  | _ =>
    simp only [step0, dialOkOp, dialErrOp, replyOp, cancelOp, failWaiters, hc, if_true]
    intro x hx
    repeat' split at hx
    all_goals
      first
      | exact h x hx
      | (simp only [List.mem_map] at hx
         obtain ⟨y, hy, rfl⟩ := hx
         rcases h y hy with hb | he
         · left; split <;> simp_all
         · right; split <;> simp_all)

/-- an exchange only succeeds through a reply -/
theorem step_ok (s : St) (op : Op) :
    ∀ x ∈ (step s op).exs, x.res = some .ok →
      (∃ y ∈ s.exs, y.id = x.id ∧ y.res = some .ok) ∨ replyId op = some x.id := by
  rw [step_exs]
  cases op with
  | start e b =>
    simp only [step0, startOp]
    intro x hx hr
    repeat' split at hx
    all_goals
      first
      | exact Or.inl ⟨x, hx, rfl, hr⟩
      | (simp only [List.mem_append, List.mem_singleton] at hx
         rcases hx with hx | rfl
         · exact Or.inl ⟨x, hx, rfl, hr⟩
         · simp at hr)
  | close =>
    simp only [step0, closeOp]
    intro x hx hr
    split at hx
    · exact Or.inl ⟨x, hx, rfl, hr⟩
    · simp only [List.mem_map] at hx
      obtain ⟨y, hy, rfl⟩ := hx
      left
      refine ⟨y, hy, ?_, ?_⟩
      · repeat' split
        all_goals rfl
      · repeat' split at hr
        all_goals first | exact hr | (cases hyr : y.res <;> simp_all)
  | trunc e => intro x hx hr; exact Or.inl ⟨x, hx, rfl, hr⟩
  | burn k => intro x hx hr; exact Or.inl ⟨x, hx, rfl, hr⟩
  | timer =>
    simp only [step0, timerOp]
    intro x hx hr
    repeat' split at hx
    all_goals exact Or.inl ⟨x, hx, rfl, hr⟩
  | reply e =>
    simp only [step0, replyOp]
    intro x hx hr
    repeat' split at hx
    all_goals
      first
      | exact Or.inl ⟨x, hx, rfl, hr⟩
      | (simp only [List.mem_map] at hx
         obtain ⟨y, hy, rfl⟩ := hx
         by_cases hid : y.id = e
         · right; simp [replyId, hid]
         · left; exact ⟨y, hy, by simp [hid], by simpa [hid] using hr⟩)
  | cancel e =>
    simp only [step0, cancelOp, List.mem_map]
    rintro x ⟨y, hy, rfl⟩ hr
    split at hr
    · simp at hr
    · left; exact ⟨y, hy, by simp_all, hr⟩
  | dialErr d =>
    simp only [step0, dialErrOp]
    intro x hx hr
    split at hx
    · exact Or.inl ⟨x, hx, rfl, hr⟩
    · exact Or.inl (failWaiters_ok d s.exs x hx hr)
  | dialOk d =>
    simp only [step0, dialOkOp]
    intro x hx hr
    repeat' split at hx
    · exact Or.inl ⟨x, hx, rfl, hr⟩
    · exact Or.inl (failWaiters_ok d s.exs x hx hr)
    · simp only [List.mem_map] at hx
      obtain ⟨y, hy, rfl⟩ := hx
      left
      refine ⟨y, hy, ?_, ?_⟩
      · repeat' split
        all_goals rfl
      · repeat' split at hr
        all_goals exact hr

/-- no stubborn dial is pending and nobody was blocked when the first Close had returned -/
structure NoStub (s : St) : Prop where
  dials : ∀ d ∈ s.dials, d.stubborn = false
  atc : s.atClose.getD [] = []

theorem step_nostub (s : St) (op : Op) (hop : isStubStart op = false) (hi : Inv s) (h : NoStub s) :
    NoStub (step s op) := by
  suffices h0 : NoStub (step0 s op) from
    ⟨by rw [step_dials]; exact h0.dials, by rw [step_atClose]; exact h0.atc⟩
  obtain ⟨hd, ha⟩ := h
  cases op with
  | start e b =>
    have hb : b = false := by cases b <;> simp_all [isStubStart]
    subst hb
    simp only [step0, startOp]
    repeat' split
    all_goals
      constructor
      · first | exact hd | (simp only [List.mem_append, List.mem_singleton]; grind)
      · exact ha
  | close =>
    by_cases hc : s.closed = true
    · simpa [step0, closeOp, hc] using (⟨hd, ha⟩ : NoStub s)
    · have hc' : s.closed = false := by simpa using hc
      have hb := close_blocked s hi.waiting hc'
      constructor
      · simp only [step0, closeOp, hc', Bool.false_eq_true, if_false, List.mem_filter]; grind
      · have hat : (closeOp s).atClose = some (((closeOp s).exs.filter (·.res.isNone)).map (·.id)) := by
          simp [closeOp, hc']
        have hnil : (closeOp s).exs.filter (·.res.isNone) = [] := by
          apply List.filter_eq_nil_iff.mpr
          intro x hx hn
          have hn' : x.res = none := by simpa using hn
          obtain ⟨⟨d, hdm, _⟩, _⟩ := hb x hx hn'
          simp only [closeOp, hc', Bool.false_eq_true, if_false, List.mem_filter] at hdm
          have := hd d hdm.1
          simp_all
        simp only [step0, hat, hnil]
        rfl
  | trunc e => exact ⟨hd, ha⟩
  | burn k => exact ⟨hd, ha⟩
  | timer =>
    simp only [step0, timerOp]
    repeat' split
    all_goals exact ⟨hd, ha⟩
  | _ =>
    simp only [step0, dialOkOp, dialErrOp, replyOp, cancelOp]
    repeat' split
    all_goals
      first
      | exact ⟨hd, ha⟩
      | (constructor
         · simp only [List.mem_filter]; grind
         · exact ha)

theorem run_nostub (s : St) (l : List Op) (hl : ∀ op ∈ l, isStubStart op = false) (hi : Inv s)
    (h : NoStub s) : NoStub (run s l) := by
  induction l generalizing s with
  | nil => exact h
  | cons op rest ih =>
    exact ih (step s op) (fun o ho => hl o (by simp [ho])) (inv_step s op hi)
      (step_nostub s op (hl op (by simp)) hi h)

theorem run_append (s : St) (a b : List Op) : run s (a ++ b) = run (run s a) b := by
  simp [run, List.foldl_append]

theorem run_closed_new (B : List Nat) (s : St) (l : List Op) (hc : s.closed = true)
    (h : ∀ x ∈ s.exs, x.id ∈ B ∨ x.res = some .err) :
    ∀ x ∈ (run s l).exs, x.id ∈ B ∨ x.res = some .err := by
  induction l generalizing s with
  | nil => exact h
  | cons op rest ih => exact ih (step s op) (closed_step s op hc) (step_closed_new B s op hc h)

theorem run_ok (s : St) (l : List Op) (R : List Nat)
    (h : ∀ x ∈ s.exs, x.res = some .ok → x.id ∈ R) :
    ∀ x ∈ (run s l).exs, x.res = some .ok → x.id ∈ R ++ l.filterMap replyId := by
  induction l generalizing s R with
  | nil => simpa [run] using h
  | cons op rest ih =>
    intro x hx hr
    have hstep : ∀ y ∈ (step s op).exs, y.res = some .ok → y.id ∈ R ++ (replyId op).toList := by
      intro y hy hyr
      rcases step_ok s op y hy hyr with ⟨z, hz, hid, hzr⟩ | hrep
      · simp [← hid, h z hz hzr]
      · simp [hrep]
    have := ih (step s op) (R ++ (replyId op).toList) hstep x hx hr
    simp only [List.filterMap_cons]
    cases hro : replyId op <;> simp_all

theorem run_closed_ok (s : St) (l : List Op) (R : List Nat) (hc : s.closed = true) (hi : Inv s)
    (h : ∀ x ∈ s.exs, x.res = some .ok → x.id ∈ R) :
    ∀ x ∈ (run s l).exs, x.res = some .ok → x.id ∈ R := by
  induction l generalizing s with
  | nil => exact h
  | cons op rest ih =>
    apply ih (step s op) (closed_step s op hc) (inv_step s op hi)
    intro y hy hyr
    obtain ⟨z, hz, hid, hzr⟩ := no_ok_after_close s op hi hc y hy hyr
    exact hid ▸ h z hz hzr

/-! ### scripts: expansion and the position of the first Close -/

theorem expand_startIds (auto : Bool) (l : List Op) :
    (l.flatMap (expand auto)).filterMap startId = l.filterMap startId := by
  induction l with
  | nil => rfl
  | cons op rest ih =>
    simp only [List.flatMap_cons, List.filterMap_append, ih, List.filterMap_cons]
    cases op <;> cases auto <;> simp [expand, startId]

theorem expand_reply (auto : Bool) (l : List Op) (e : Nat) :
    e ∈ (l.flatMap (expand auto)).filterMap replyId → Op.reply e ∈ l := by
  induction l with
  | nil => simp
  | cons op rest ih =>
    simp only [List.flatMap_cons, List.filterMap_append, List.mem_append, List.mem_cons]
    rintro (h | h)
    · left
      cases op <;> cases auto <;> simp_all [expand, replyId]
    · exact Or.inr (ih h)

theorem expand_nostub1 (auto : Bool) (o : Op) (h : isStubStart o = false) :
    ∀ op ∈ expand auto o, isStubStart op = false := by
  cases o with
  | start e b => cases b <;> cases auto <;> simp_all [expand, isStubStart]
  | _ => cases auto <;> simp [expand, isStubStart]

theorem expand_nostub (auto : Bool) (l : List Op) (h : l.any isStubStart = false) :
    ∀ op ∈ l.flatMap (expand auto), isStubStart op = false := by
  induction l with
  | nil => simp
  | cons o rest ih =>
    simp only [List.any_cons, Bool.or_eq_false_iff] at h
    simp only [List.flatMap_cons, List.mem_append]
    rintro op (hop | hop)
    · exact expand_nostub1 auto o h.1 op hop
    · exact ih h.2 op hop

theorem split_close (ops : List Op) (h : ops.contains .close = true) :
    ∃ rest, ops.dropWhile (· != .close) = .close :: rest ∧
      ops = ops.takeWhile (· != .close) ++ .close :: rest := by
  induction ops with
  | nil => simp at h
  | cons op rest ih =>
    by_cases hop : op = .close
    · subst hop
      exact ⟨rest, by simp [List.dropWhile], by simp [List.takeWhile]⟩
    · have h' : rest.contains .close = true := by
        simp only [List.contains_cons, Bool.or_eq_true, beq_iff_eq] at h
        rcases h with h | h
        · exact absurd h.symm hop
        · exact h
      obtain ⟨r, h1, h2⟩ := ih h'
      have hne : (op != Op.close) = true := by simpa using hop
      refine ⟨r, ?_, ?_⟩
      · simp only [List.dropWhile_cons, hne, if_true]; exact h1
      · simp only [List.takeWhile_cons, hne, if_true, List.cons_append, ← h2]

theorem takeWhile_noclose (ops : List Op) : ∀ op ∈ ops.takeWhile (· != .close), op ≠ .close := by
  induction ops with
  | nil => simp
  | cons o rest ih =>
    intro op hop
    by_cases ho : o = .close
    · subst ho
      simp at hop
    · have hne : (o != Op.close) = true := by simpa using ho
      simp only [List.takeWhile_cons, hne, if_true, List.mem_cons] at hop
      rcases hop with rfl | hop
      · exact ho
      · exact ih op hop

theorem expand_noclose_ids (auto : Bool) (l : List Op) :
    ((l ++ [Op.close]).flatMap (expand auto)).filterMap startId = l.filterMap startId := by
  rw [expand_startIds]
  simp [List.filterMap_append, startId]

end MosVerif.Close
