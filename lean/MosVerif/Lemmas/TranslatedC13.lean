/-
  Tie by translation (C13): the integer / boolean tests of the framing state machine of
  `gnetServer.OnTraffic` (app/router/server_tcp_gnet_linux.go) — `cc.readingHdr`, `hdrRemains` / `bodyRemains`,
  `cc.readN < 2`, `cc.readN < len(cc.buffer)`, `len(hdr) < 2`, `len(body) < l`, the admission test
  `ccr > e.maxConcurrent || limiter != nil`, the re-loop test `c.InboundBuffered() > 0` — and the admission
  test of `tcpServer.handleConn` (app/router/server_tcp.go) are translated mechanically from the current Go
  source (`Generated/Translated.lean`, fragments `c13_…` of `extract/translate.d/C13.json`).  Each theorem shows,
  for ALL arguments, that the model function (`Model/Gnet.lean`, `Model/Framing.lean`) IS the function that
  branches on / computes exactly the translated fragments (Go `int`s are `Int`; the model's `Nat`s are cast).
  The gnet model takes the client limiter to allow every query (`limited = false`, see Model/Gnet.lean).
-/
import MosVerif.Generated.Translated
import MosVerif.Model.Framing
namespace MosVerif.Gnet
open MosVerif

/-- closes `Translated.<cond> … = decide P` whatever (equivalent, linear-arithmetic) way the Go condition is
    written: the proofs below must survive harmless rewrites of the source. -/
macro "tr_cond" : tactic =>
  `(tactic| (rw [Bool.eq_iff_iff]; (try simp [Id.run, pure]); (try omega)))

/-- the same for a translated integer computation. -/
macro "tr_val" : tactic =>
  `(tactic| ((try simp only [Id.run, pure, bind]) <;> ((repeat' split) <;> (first | omega | simp))))

/-! ### what each translated fragment computes (robust against harmless rewrites of the Go source) -/

theorem c13_gnet_readingHdrCond_spec (b : Bool) : Translated.c13_gnet_readingHdrCond b = b := by
  cases b <;> simp [Translated.c13_gnet_readingHdrCond]
theorem c13_gnet_hdrRemains_spec (n r : Int) : Translated.c13_gnet_hdrRemains n r = n - r := by
  unfold Translated.c13_gnet_hdrRemains; tr_val
theorem c13_gnet_hdrDoneCond_spec (r : Int) : Translated.c13_gnet_hdrDoneCond r = decide (r < 2) := by
  unfold Translated.c13_gnet_hdrDoneCond; tr_cond
theorem c13_gnet_bodyRemains_spec (n r : Int) : Translated.c13_gnet_bodyRemains n r = n - r := by
  unfold Translated.c13_gnet_bodyRemains; tr_val
theorem c13_gnet_bodyDoneCond_spec (r n : Int) : Translated.c13_gnet_bodyDoneCond r n = decide (r < n) := by
  unfold Translated.c13_gnet_bodyDoneCond; tr_cond
theorem c13_gnet_hdrShortCond_spec (n : Int) : Translated.c13_gnet_hdrShortCond n = decide (n < 2) := by
  unfold Translated.c13_gnet_hdrShortCond; tr_cond
theorem c13_gnet_bodyShortCond_spec (n l : Int) : Translated.c13_gnet_bodyShortCond n l = decide (n < l) := by
  unfold Translated.c13_gnet_bodyShortCond; tr_cond
theorem c13_gnet_limitCond_spec (ccr m : Int) (limited : Bool) :
    Translated.c13_gnet_limitCond ccr m limited = (decide (ccr > m) || limited) := by
  unfold Translated.c13_gnet_limitCond; cases limited <;> tr_cond
theorem c13_gnet_reloopCond_spec (n : Int) : Translated.c13_gnet_reloopCond n = decide (n > 0) := by
  unfold Translated.c13_gnet_reloopCond; tr_cond
theorem c13_tcp_limitCond_spec (cc m : Int) (limited : Bool) :
    Translated.c13_tcp_limitCond cc m limited = (decide (cc > m) || limited) := by
  unfold Translated.c13_tcp_limitCond; cases limited <;> tr_cond

theorem c13_tcp_busyCond_spec (n load : Int) (deadline : Bool) :
    Translated.c13_tcp_busyCond n load deadline = (decide (n = 0) && decide (load > 0) && deadline) := by
  unfold Translated.c13_tcp_busyCond; cases deadline <;> tr_cond
theorem c13_gnet_timerBusyCond_spec (load : Int) :
    Translated.c13_gnet_timerBusyCond load = decide (load > 0) := by
  unfold Translated.c13_gnet_timerBusyCond; tr_cond

/-! ### the model functions branch on exactly the translated fragments -/

/-- the body phase: `bodyRemains := len(cc.buffer) - cc.readN` and `cc.readN < len(cc.buffer)`. -/
theorem readBody_translated (cc : ConnCtx) (buf inb : Bytes) :
    readBody cc buf inb =
      (let nx := next inb (Translated.c13_gnet_bodyRemains (buf.length : Int) (cc.readN : Int))
       if cc.readN > buf.length then .panic else
       let cp := goCopy buf cc.readN nx.1
       let cc := { cc with buffer := some cp.1, readN := cc.readN + cp.2 }
       if Translated.c13_gnet_bodyDoneCond (cc.readN : Int) (cp.1.length : Int) then .ret cc nx.2
       else .msg { cc with buffer := none } nx.2 cp.1) := by
  simp only [c13_gnet_bodyRemains_spec, c13_gnet_bodyDoneCond_spec]
  unfold readBody
  simp only [Int.ofNat_lt, decide_eq_true_eq]

/-- one pass from `read:` to the decode step: every integer / boolean test is the translated one. -/
theorem readOne_translated (cc : ConnCtx) (inb : Bytes) :
    readOne cc inb =
      match cc.buffer with
      | some buf =>
        if Translated.c13_gnet_readingHdrCond cc.readingHdr then
          let nx := next inb (Translated.c13_gnet_hdrRemains (buf.length : Int) (cc.readN : Int))
          if cc.readN > buf.length then .panic else
          let cp := goCopy buf cc.readN nx.1
          let cc := { cc with buffer := some cp.1, readN := cc.readN + cp.2 }
          if Translated.c13_gnet_hdrDoneCond (cc.readN : Int) then .ret cc nx.2
          else
            match cp.1 with
            | a :: b :: _ =>
              let buf := getBuf (rd16 a b)
              readBody { cc with buffer := some buf, readN := 0, readingHdr := false } buf nx.2
            | _ => .panic
        else readBody cc buf inb
      | none =>
        let nx := next inb 2
        if Translated.c13_gnet_hdrShortCond (nx.1.length : Int) then
          let cp := goCopy (getBuf 2) 0 nx.1
          .ret { cc with buffer := some cp.1, readN := cp.2, readingHdr := true } nx.2
        else
          match nx.1 with
          | a :: b :: _ =>
            let l := rd16 a b
            let nb := next nx.2 (l : Int)
            if Translated.c13_gnet_bodyShortCond (nb.1.length : Int) (l : Int) then
              let cp := goCopy (getBuf l) 0 nb.1
              .ret { cc with buffer := some cp.1, readN := cp.2, readingHdr := false } nb.2
            else .msg cc nb.2 nb.1
          | _ => .panic := by
  simp only [c13_gnet_readingHdrCond_spec, c13_gnet_hdrRemains_spec, c13_gnet_hdrDoneCond_spec,
    c13_gnet_hdrShortCond_spec, c13_gnet_bodyShortCond_spec]
  unfold readOne
  have h2 : ∀ n : Nat, ((n : Int) < 2) = (n < 2) := fun n => by apply propext; omega
  simp only [Int.ofNat_lt, decide_eq_true_eq, h2]
  rfl

/-- one pass of the `read:` loop of `OnTraffic`: the admission test (`limited = false`: the limiter allows the
    query) and the re-loop test are the translated ones. -/
theorem onTraffic_translated (dec : Bytes → Bool) (max fuel : Nat) (cc : ConnCtx) (inb : Bytes) :
    onTraffic dec max (fuel + 1) cc inb =
      match readOne cc inb with
      | .panic => ⟨cc, inb, [], .panic⟩
      | .ret cc inb => ⟨cc, inb, [], .none⟩
      | .msg cc inb body =>
        if dec body = false then ⟨cc, inb, [], .close⟩
        else
          let ccr := cc.concurrent + 1
          let refuse := Translated.c13_gnet_limitCond (ccr : Int) (max : Int) false
          let ev := if refuse then Event.refused body else Event.query body
          let cc := if refuse then cc else { cc with concurrent := ccr }
          if Translated.c13_gnet_reloopCond (inboundBuffered inb : Int) then
            let r := onTraffic dec max fuel cc inb
            { r with evs := ev :: r.evs }
          else ⟨cc, inb, [ev], .none⟩ := by
  rw [onTraffic]
  simp only [c13_gnet_limitCond_spec, c13_gnet_reloopCond_spec]
  have h0 : ∀ n : Nat, ((n : Int) > 0) = (n > 0) := fun n => by apply propext; omega
  have hm : ∀ a b : Nat, ((a : Int) > (b : Int)) = (a > b) := fun a b => by apply propext; omega
  simp only [Bool.or_false, decide_eq_true_eq, h0, hm]
  rfl

/-- the loop of `tcpServer.handleConn`: the admission test `cc > s.maxConcurrent || limiter != nil`. -/
theorem handleConn_translated (dec : Bytes → Bool) (max : Nat) (done : Nat → Nat) (lim : Nat → Bool)
    (fuel i : Nat) (cs : Framing.Chunks) (running : Nat) :
    Framing.handleConn dec max done lim (fuel + 1) i cs running =
      match Framing.readMsgFromTCP dec cs with
      | .panic => ([], .panic)
      | .err n => ([], .closed n)
      | .invalid _ => ([], .invalid)
      | .msg body rest =>
        let running := running - done i
        let cc := running + 1
        if Translated.c13_tcp_limitCond (cc : Int) (max : Int) (lim i) then
          let r := Framing.handleConn dec max done lim fuel (i + 1) rest running
          (.refused body :: r.1, r.2)
        else
          let r := Framing.handleConn dec max done lim fuel (i + 1) rest cc
          (.query body :: r.1, r.2) := by
  rw [Framing.handleConn]
  simp only [c13_tcp_limitCond_spec]
  have hm : ∀ a b : Nat, decide ((a : Int) > (b : Int)) = decide (a > b) := fun a b => by
    congr 1; apply propext; omega
  simp only [hm]
  rfl

/-- the idle deadline of `tcpServer.handleConn` firing before the message is whole: the `continue` test
    `n == 0 && concurrent.Load() > 0 && errors.Is(err, os.ErrDeadlineExceeded)` — for every `n` / counter value
    that mean what the model's abstractions say (`n = 0` iff nothing of the message had arrived at the deadline,
    i.e. `p > now + idle`; the counter is positive iff `busy` at the deadline; the error IS the deadline). -/
theorem idleLoopB_translated (idle : Nat) (busy : Nat → Bool) (lag : Nat → Nat) (fuel j now p a : Nat)
    (as : List (Nat × Nat)) (n load : Int)
    (hn : n = 0 ↔ p > now + idle) (hl : load > 0 ↔ busy (now + idle) = true) :
    Framing.idleLoopB idle busy lag (fuel + 1) j now ((p, a) :: as) =
      if a ≤ now + idle then 1 + Framing.idleLoopB idle busy lag fuel (j + 1) (Nat.max now a + lag j) as
      else if Translated.c13_tcp_busyCond n load true then
        Framing.idleLoopB idle busy lag fuel j (now + idle) ((p, a) :: as)
      else 0 := by
  rw [Framing.idleLoopB, c13_tcp_busyCond_spec]
  have e : (decide (n = 0) && decide (load > 0) && true) = (decide (p > now + idle) && busy (now + idle)) := by
    rw [Bool.eq_iff_iff]; simp [hn, hl]
  rw [e]

/-- the gnet idle timer's callback: `if cc.concurrentRequests.Load() > 0 { re-arm } else { c.Close() }`, for
    every counter value that is positive iff the model's `busy` holds when the timer fires. -/
theorem gnetIdleB_translated (idle : Nat) (busy : Nat → Bool) (fuel last t : Nat) (ts : List Nat) (load : Int)
    (hl : load > 0 ↔ busy (last + idle) = true) :
    Framing.gnetIdleB idle busy (fuel + 1) last (t :: ts) =
      if t < last + idle then 1 + Framing.gnetIdleB idle busy fuel (Nat.max last t) ts
      else if Translated.c13_gnet_timerBusyCond load then Framing.gnetIdleB idle busy fuel (last + idle) (t :: ts)
      else 0 := by
  rw [Framing.gnetIdleB, c13_gnet_timerBusyCond_spec]
  have e : decide (load > 0) = busy (last + idle) := by
    rw [Bool.eq_iff_iff]; simp [hl]
  rw [e]

end MosVerif.Gnet
