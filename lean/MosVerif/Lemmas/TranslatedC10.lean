/-
  Tie by translation (C10): the reject test of the rule scan (`rejectRCode := matchedRule.reject; rejectRCode > 0`,
  router.go `handleReq`) and the range check of a rule's `reject` value (`cfg.Reject < 0 || cfg.Reject > 15`, rule.go
  `loadRule`, fix 871570a), translated mechanically from the current Go source, equal the tests `Router.handleReq`
  and `LoadCfg.acceptsFull` branch on.
-/
import MosVerif.Generated.Translated
import MosVerif.Model.Router
import MosVerif.Model.LoadCfg
namespace MosVerif.Router
open MosVerif

/-- equality of two Boolean tests built from `decide`s of linear (in)equalities, `&&`, `||`, `!`: robust against
    reordering and re-phrasing of the translated side -/
macro "bool_arith10" : tactic =>
  `(tactic| (rw [Bool.eq_iff_iff] <;>
      simp only [Bool.and_eq_true, Bool.or_eq_true, Bool.not_eq_true', Bool.or_eq_false_iff, Bool.and_eq_false_imp, Bool.not_eq_eq_eq_not, Bool.not_true,
        decide_eq_true_eq, decide_eq_false_iff_not] <;> omega))

/-- `rejectRCode > 0`: the matched rule is a reject rule -/
theorem rejectCond_translated (rc : Nat) : isReject rc = Translated.c10_rejectCond rc := by
  unfold isReject Translated.c10_rejectCond
  bool_arith10

/-- a rule is loaded iff NOT `cfg.Reject < 0 || cfg.Reject > 15` (the model's configuration values are naturals:
    the negative half of the test is never taken) -/
theorem rejectRange_translated (r : Nat) :
    LoadCfg.rejectInRange r = !Translated.c10_rejectRange (r : Int) := by
  unfold LoadCfg.rejectInRange Translated.c10_rejectRange
  bool_arith10

/-- … and a negative value is refused by the source's test -/
theorem rejectRange_negative (r : Int) (h : r < 0) : Translated.c10_rejectRange r = true := by
  unfold Translated.c10_rejectRange
  simp only [Bool.or_eq_true, decide_eq_true_eq]; omega

end MosVerif.Router
