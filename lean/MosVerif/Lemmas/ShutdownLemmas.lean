/-
  C18 — the shutdown scenario (Model/Shutdown.lean) meets its specification, for every configuration whose
  items all initialise, every upstream kind and every number of queries in flight.
-/
import MosVerif.Model.Shutdown
import MosVerif.Lemmas.CloseSpec
import MosVerif.Lemmas.StartupLemmas
namespace MosVerif.Shutdown
open MosVerif.Close

def cancelId : Op → Option Nat | .cancel e => some e | _ => none

/-- without a cancellation nobody gets a context error -/
theorem step_noctx (s : St) (op : Op) (hop : cancelId op = none)
    (h : ∀ x ∈ s.exs, x.res ≠ some .ctx) : ∀ x ∈ (step s op).exs, x.res ≠ some .ctx := by
  rw [step_exs]
  cases op with
  | cancel e => simp [cancelId] at hop
  | trunc e => exact h
  | burn k => exact h
  | timer =>
    simp only [step0, timerOp]
    intro x hx
    repeat' split at hx
    all_goals exact h x hx
  | start e b =>
    simp only [step0, startOp]
    intro x hx
    repeat' split at hx
    all_goals
      first
      | exact h x hx
      | (simp only [List.mem_append, List.mem_singleton] at hx
         rcases hx with hx | rfl
         · exact h x hx
         · simp)
  | _ =>
    simp only [step0, dialOkOp, dialErrOp, replyOp, closeOp, failWaiters]
    intro x hx
    repeat' split at hx
    all_goals
      first
      | exact h x hx
      | (simp only [List.mem_map] at hx
         obtain ⟨y, hy, rfl⟩ := hx
         have hy' := h y hy
         repeat' split
         all_goals first | exact hy' | (cases hyr : y.res <;> simp_all))

theorem run_noctx (s : St) (l : List Op) (hl : ∀ op ∈ l, cancelId op = none)
    (h : ∀ x ∈ s.exs, x.res ≠ some .ctx) : ∀ x ∈ (run s l).exs, x.res ≠ some .ctx := by
  induction l generalizing s with
  | nil => exact h
  | cons op rest ih =>
    exact ih (step s op) (fun o ho => hl o (by simp [ho])) (step_noctx s op (hl op (by simp)) h)

/-- exchanges never disappear -/
theorem step_exists (s : St) (op : Op) (e : Nat) (h : ∃ x ∈ s.exs, x.id = e) :
    ∃ x ∈ (step s op).exs, x.id = e := by
  obtain ⟨x, hx, hid⟩ := h
  rw [step_exs]
  cases op <;>
    simp only [step0, startOp, dialOkOp, dialErrOp, replyOp, cancelOp, timerOp, closeOp, failWaiters] <;>
    repeat' split
  all_goals
    first
    | exact ⟨x, hx, hid⟩
    | (simp only [List.mem_append, List.mem_map]
       first
       | exact ⟨x, Or.inl hx, hid⟩
       | (refine ⟨_, ⟨x, hx, rfl⟩, ?_⟩
          repeat' split
          all_goals exact hid))

theorem start_exists (s : St) (e : Nat) (b : Bool) : ∃ x ∈ (step s (.start e b)).exs, x.id = e := by
  rw [step_exs]
  simp only [step0, startOp]
  split
  · rename_i h
    simp only [St.hasEx, List.any_eq_true, beq_iff_eq] at h
    exact h
  · repeat' split
    all_goals simp

theorem run_exists' (s : St) (l : List Op) (e : Nat) (h : ∃ x ∈ s.exs, x.id = e) :
    ∃ x ∈ (run s l).exs, x.id = e := by
  induction l generalizing s with
  | nil => exact h
  | cons op rest ih => exact ih (step s op) (step_exists s op e h)

theorem run_exists (s : St) (l : List Op) (e : Nat) (b : Bool) (h : Op.start e b ∈ l) :
    ∃ x ∈ (run s l).exs, x.id = e := by
  induction l generalizing s with
  | nil => simp at h
  | cons op rest ih =>
    rcases List.mem_cons.mp h with rfl | h
    · exact run_exists' _ rest e (start_exists s e b)
    · exact ih (step s op) h

theorem epilogue_exists (s : St) (e : Nat) (h : ∃ x ∈ s.exs, x.id = e) :
    ∃ x ∈ (epilogue s).exs, x.id = e := by
  unfold epilogue
  split
  · exact run_exists' s _ e h
  · exact h

theorem resOf_spec (s : St) (e : Nat) (h : ∃ x ∈ s.exs, x.id = e) :
    ∃ y ∈ s.exs, y.id = e ∧ resOf s e = y.res := by
  obtain ⟨x, hx, hid⟩ := h
  unfold resOf
  cases hf : s.exs.find? (·.id == e) with
  | none =>
    have := List.find?_eq_none.mp hf x hx
    simp [hid] at this
  | some y =>
    have hy := List.mem_of_find?_eq_some hf
    have hp := List.find?_some hf
    exact ⟨y, hy, by simpa using hp, rfl⟩

end MosVerif.Shutdown

namespace MosVerif.Shutdown
open MosVerif.Close

theorem takeWhile_prefix (a rest : List Op) (ha : ∀ op ∈ a, op ≠ .close) :
    (a ++ Op.close :: rest).takeWhile (· != .close) = a := by
  induction a with
  | nil => simp
  | cons x a ih =>
    have hx : (x != Op.close) = true := by simpa using ha x (by simp)
    simp only [List.cons_append, List.takeWhile_cons, hx, if_true]
    rw [ih (fun op hop => ha op (by simp [hop]))]

theorem runScript_noctx (k : Kind) (auto : Bool) (ops0 : List Op) (h : ∀ op ∈ ops0, cancelId op = none) :
    ∀ x ∈ (runScript k auto ops0).exs, x.res ≠ some .ctx := by
  unfold runScript
  have hE : ∀ op ∈ (fullOps auto ops0).flatMap (expand auto), cancelId op = none := by
    intro op hop
    simp only [List.mem_flatMap] at hop
    obtain ⟨o, ho, hop⟩ := hop
    have ho' : cancelId o = none := by
      unfold fullOps at ho
      split at ho
      · rcases List.mem_append.mp ho with ho | ho
        · exact h o ho
        · simp only [List.mem_singleton] at ho; subst ho; rfl
      · exact h o ho
    have hexp : ∀ (o2 : Op), cancelId o2 = none → ∀ op2 ∈ expand auto o2, cancelId op2 = none := by
      intro o2 hc2 op2 hop2
      cases o2 <;> cases auto <;> simp [expand] at hop2
      all_goals first | (rcases hop2 with rfl | rfl <;> rfl) | (subst hop2; first | rfl | exact hc2)
    exact hexp o ho' op hop
  have h1 := run_noctx (init k) _ hE (by simp [init])
  unfold epilogue
  split
  · apply run_noctx _ _ _ h1
    intro op hop
    simp only [List.mem_map] at hop
    obtain ⟨d, _, rfl⟩ := hop
    rfl
  · exact h1

theorem runScript_exists (k : Kind) (ops0 : List Op) (e : Nat) (b : Bool) (h : Op.start e b ∈ ops0) :
    ∃ x ∈ (runScript k true ops0).exs, x.id = e := by
  unfold runScript
  apply epilogue_exists
  apply run_exists _ _ e false
  simp only [List.mem_flatMap]
  exact ⟨.start e b, by simp [fullOps, h], by simp [expand]⟩

/-- the operations before the first Close in the shutdown script -/
def beforeOps (warm : Bool) (n : Nat) : List Op :=
  (if warm then [.start 0 false, .reply 0] else []) ++ (List.range n).map (fun i => Op.start (i + 1) false)

theorem script_split (warm : Bool) (n : Nat) :
    fullOps true (script warm n) =
      beforeOps warm n ++ Op.close :: [.close, .start (n + 1) false, .close] := by
  simp [fullOps, script, beforeOps]

theorem before_noclose (warm : Bool) (n : Nat) : ∀ op ∈ beforeOps warm n, op ≠ .close := by
  intro op hop
  simp only [beforeOps, List.mem_append, List.mem_map, List.mem_range] at hop
  rcases hop with hop | ⟨i, _, rfl⟩
  · split at hop <;> simp at hop
    rcases hop with rfl | rfl <;> simp
  · simp

theorem before_starts (warm : Bool) (n : Nat) (e : Nat) :
    e ∈ (beforeOps warm n).filterMap startId → e ≤ n := by
  simp only [beforeOps, List.filterMap_append, List.mem_append, List.mem_filterMap, List.mem_map,
    List.mem_range]
  rintro (⟨op, hop, hs⟩ | ⟨op, ⟨i, hi, rfl⟩, hs⟩)
  · split at hop <;> simp at hop
    rcases hop with rfl | rfl <;> simp [startId] at hs
    omega
  · simp [startId] at hs
    omega

theorem before_replies (warm : Bool) (n : Nat) (e : Nat) :
    Op.reply e ∈ beforeOps warm n → e = 0 := by
  simp only [beforeOps, List.mem_append, List.mem_map, List.mem_range]
  rintro (hop | ⟨i, _, h⟩)
  · split at hop <;> simp at hop
    exact hop
  · simp at h

/-- the upstream side of the shutdown scenario: every query in flight fails, the query after close fails,
    nothing is left open -/
theorem upstream_side (k : Kind) (warm : Bool) (n : Nat) :
    let s := runScript k true (script warm n)
    (∀ i, i < n → resOf s (i + 1) = some .err) ∧ resOf s (n + 1) = some .err ∧
    s.conns.filter (·.isOpen) = [] := by
  intro s
  have hcl : (fullOps true (script warm n)).contains .close = true := by
    rw [script_split]; simp
  obtain ⟨_, _, _, hnone, hopen, hnew, hokf, _⟩ := script_facts k true (script warm n) hcl
  have hbefore : (fullOps true (script warm n)).takeWhile (· != .close) = beforeOps warm n := by
    rw [script_split]
    exact takeWhile_prefix _ _ (before_noclose warm n)
  rw [hbefore] at hnew hokf
  have hnoctx := runScript_noctx k true (script warm n) (by
    intro op hop
    simp only [script, List.mem_append, List.mem_map, List.mem_range, List.mem_cons] at hop
    rcases hop with (hop | ⟨i, _, rfl⟩) | hop
    · split at hop <;> simp at hop
      rcases hop with rfl | rfl <;> rfl
    · rfl
    · rcases hop with rfl | rfl | rfl | hop
      · rfl
      · rfl
      · rfl
      · simp at hop)
  refine ⟨?_, ?_, hopen⟩
  · intro i hi
    have hex := runScript_exists k (script warm n) (i + 1) false (by
      simp only [script, List.mem_append, List.mem_map, List.mem_range]
      exact Or.inl (Or.inr ⟨i, hi, rfl⟩))
    obtain ⟨y, hy, hid, hres⟩ := resOf_spec _ _ hex
    rw [hres]
    have h1 := hnone y hy
    have h2 := hnoctx y hy
    have h3 : y.res ≠ some .ok := by
      intro hr
      have := before_replies warm n y.id (hokf y hy hr)
      omega
    cases hr : y.res with
    | none => exact absurd hr h1
    | some v => cases v <;> simp_all
  · have hex := runScript_exists k (script warm n) (n + 1) false (by simp [script])
    obtain ⟨y, hy, hid, hres⟩ := resOf_spec _ _ hex
    rw [hres]
    rcases hnew y hy with h | h
    · have := before_starts warm n y.id h
      omega
    · exact h

end MosVerif.Shutdown
