/-
  Tie by translation (C02/C09): fragments of internal/dnsmsg translated mechanically from the current Go source by
  /verif/extract/gotolean (MosVerif/Generated/Translated.lean) are EQUAL to the hand-written model.
  The translation works on unbounded integers; where Go's fixed-width arithmetic could wrap, the statement
  carries the explicit range hypothesis.
-/
import MosVerif.Generated.Translated
import MosVerif.Model.Pack
namespace MosVerif.Wire
open MosVerif

/-- `Name.PackLen` -/
theorem Name_PackLen_translated (n : Name) : Translated.Name_PackLen n.length = namePackLen n := by
  unfold Translated.Name_PackLen namePackLen
  by_cases h : n.length > 254 <;> simp [h, Id.run] <;> rfl

/-- `Header.Pack` (bits), for opcode / rcode in their 4-bit range -/
theorem Header_Pack_translated (h : Header) (ho : h.opcode < 16) (hr : h.rcode < 16) :
    Translated.Header_Pack_bits h.id h.opcode h.rcode h.ra h.rd h.truncated h.authoritative h.response h.z h.ad h.cd
      = bitsOfHeader h := by
  have e1 : h.opcode % 65536 = h.opcode := Nat.mod_eq_of_lt (by omega)
  have e2 : h.rcode % 65536 = h.rcode := Nat.mod_eq_of_lt (by omega)
  have e3 : h.opcode * 2048 % 65536 = h.opcode * 2048 := Nat.mod_eq_of_lt (by omega)
  have e4 : h.opcode <<< 11 = h.opcode * 2048 := by simp [Nat.shiftLeft_eq]
  unfold Translated.Header_Pack_bits bitsOfHeader
  simp only [e1, e2, e3, e4, Id.run]
  cases h.ra <;> cases h.rd <;> cases h.truncated <;> cases h.authoritative <;> cases h.response <;>
    cases h.z <;> cases h.ad <;> cases h.cd <;> rfl

/-- the "minimum 512" clamp at the top of `Msg.Pack` -/
theorem Pack_sizeClamp_translated (size : Nat) :
    Translated.Pack_sizeClamp size = (if size > 0 ∧ size < 512 then 512 else size) := by
  unfold Translated.Pack_sizeClamp
  by_cases h : size > 0 ∧ size < 512
  · simp [h, Id.run]; rfl
  · have : ¬ (0 < size ∧ size < 512) := h
    simp only [Id.run]
    by_cases h1 : size > 0 <;> by_cases h2 : size < 512 <;> simp_all <;> rfl

/-- the 14-bit guard `newPtr <= int(^uint16(0)>>2)` of `Name.pack` is the model's `pos ≤ ptrLimit` -/
theorem ptrFits_translated (pos : Nat) : decide (pos ≤ ptrLimit) = Translated.c02_ptrFits pos := by
  unfold Translated.c02_ptrFits ptrLimit
  rfl

end MosVerif.Wire
