/-
  Tie by translation (C02/C09): fragments of internal/dnsmsg translated mechanically from the current Go source by
  /verif/extract/gotolean (MosVerif/Generated/Translated.lean) are EQUAL to the hand-written model.
  The translation works on unbounded integers; where Go's fixed-width arithmetic could wrap, the statement
  carries the explicit range hypothesis.
-/
import MosVerif.Generated.Translated
import MosVerif.Model.Pack
namespace MosVerif.Wire
open MosVerif

/-- `Name.PackLen` -/
theorem Name_PackLen_translated (n : Name) : Translated.Name_PackLen n.length = namePackLen n := by
  unfold Translated.Name_PackLen namePackLen
  by_cases h : n.length > 254 <;> simp [h, Id.run] <;> rfl

/-- `Header.Pack` (bits), for opcode / rcode in their 4-bit range -/
theorem Header_Pack_translated (h : Header) (ho : h.opcode < 16) (hr : h.rcode < 16) :
    Translated.Header_Pack_bits h.id h.opcode h.rcode h.ra h.rd h.truncated h.authoritative h.response h.z h.ad h.cd
      = bitsOfHeader h := by
  have e1 : h.opcode % 65536 = h.opcode := Nat.mod_eq_of_lt (by omega)
  have e2 : h.rcode % 65536 = h.rcode := Nat.mod_eq_of_lt (by omega)
  have e3 : h.opcode * 2048 % 65536 = h.opcode * 2048 := Nat.mod_eq_of_lt (by omega)
  have e4 : h.opcode <<< 11 = h.opcode * 2048 := by simp [Nat.shiftLeft_eq]
  unfold Translated.Header_Pack_bits bitsOfHeader
  simp only [e1, e2, e3, e4, Id.run]
  cases h.ra <;> cases h.rd <;> cases h.truncated <;> cases h.authoritative <;> cases h.response <;>
    cases h.z <;> cases h.ad <;> cases h.cd <;> rfl

/-- the "minimum 512" clamp at the top of `Msg.Pack` -/
theorem Pack_sizeClamp_translated (size : Nat) :
    Translated.Pack_sizeClamp size = (if size > 0 ∧ size < 512 then 512 else size) := by
  unfold Translated.Pack_sizeClamp
  by_cases h : size > 0 ∧ size < 512
  · simp [h, Id.run]; rfl
  · have : ¬ (0 < size ∧ size < 512) := h
    simp only [Id.run]
    by_cases h1 : size > 0 <;> by_cases h2 : size < 512 <;> simp_all <;> rfl

/-- the 14-bit guard `newPtr <= int(^uint16(0)>>2)` of `Name.pack` is the model's `pos ≤ ptrLimit` -/
theorem ptrFits_translated (pos : Nat) : decide (pos ≤ ptrLimit) = Translated.c02_ptrFits pos := by
  have hc : ((65536 - 1 - (0 % 65536)) >>> 2) = 16383 := by decide
  unfold Translated.c02_ptrFits ptrLimit
  by_cases h : pos ≤ 16383 <;> simp [hc, h] <;> omega

/-! ### `Question.Len`, `ResourceHdr.packLen` and the per-type `packLen` (the lengths `Msg.Len` and the size limit of
    `Msg.Pack` add up) -/

theorem Id_pure_nat (x : Nat) : (pure x : Id Nat) = x := rfl

theorem Question_Len_eq (nameLen : Nat) : Translated.c02_Question_Len nameLen = nameLen + 4 := by
  unfold Translated.c02_Question_Len; simp [Id.run, Id_pure_nat] <;> omega
theorem RHdr_packLen_eq (nameLen : Nat) : Translated.c02_RHdr_packLen nameLen = nameLen + 10 := by
  unfold Translated.c02_RHdr_packLen; simp [Id.run, Id_pure_nat] <;> omega
theorem Raw_packLen_eq (hdrLen n : Nat) :
    Translated.c02_Raw_packLen hdrLen n = hdrLen + (if n > 65535 then 65535 else n) := by
  unfold Translated.c02_Raw_packLen
  by_cases h : n > 65535 <;> simp [Id.run, h, Id_pure_nat] <;> omega

/-- `Question.Len` -/
theorem Question_Len_translated (q : Question) :
    questionLen q = Translated.c02_Question_Len (namePackLen q.name) := by
  rw [Question_Len_eq]; rfl

/-- every `packLen` of rr.go: the model's `resourcePackLen`, type by type -/
theorem packLen_translated (name : Name) (ty cls ttl : Nat) :
    let hdr := Translated.c02_RHdr_packLen (namePackLen name)
    (∀ b, resourcePackLen ⟨name, ty, cls, ttl, .a b⟩ = Translated.c02_A_packLen hdr) ∧
    (∀ b, resourcePackLen ⟨name, ty, cls, ttl, .aaaa b⟩ = Translated.c02_AAAA_packLen hdr) ∧
    (∀ n, resourcePackLen ⟨name, ty, cls, ttl, .name n⟩ = Translated.c02_NAME_packLen hdr (namePackLen n)) ∧
    (∀ p n, resourcePackLen ⟨name, ty, cls, ttl, .mx p n⟩ = Translated.c02_MX_packLen hdr (namePackLen n)) ∧
    (∀ ns mb a b c d e, resourcePackLen ⟨name, ty, cls, ttl, .soa ns mb a b c d e⟩ =
      Translated.c02_SOA_packLen hdr (namePackLen ns) (namePackLen mb)) ∧
    (∀ p w port t, resourcePackLen ⟨name, ty, cls, ttl, .srv p w port t⟩ = Translated.c02_SRV_packLen hdr (namePackLen t)) ∧
    (∀ d, resourcePackLen ⟨name, ty, cls, ttl, .raw d⟩ = Translated.c02_Raw_packLen hdr d.length) := by
  simp only [RHdr_packLen_eq, Raw_packLen_eq]
  refine ⟨?_, ?_, ?_, ?_, ?_, ?_, ?_⟩ <;> intros <;>
    simp [resourcePackLen, rdataPackLen, Translated.c02_A_packLen, Translated.c02_AAAA_packLen,
      Translated.c02_NAME_packLen, Translated.c02_MX_packLen, Translated.c02_SOA_packLen,
      Translated.c02_SRV_packLen, Id.run, Id_pure_nat] <;> omega

end MosVerif.Wire
