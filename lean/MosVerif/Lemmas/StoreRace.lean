/-
  Lemmas about `Model/StoreRace`: with the stripe lock taken by BOTH branches of `MemoryCache.Store`, every
  interleaving of a plain store and a set-if-absent store of one key ends like a serial order, and the plain
  (positive) value is what the key holds at the end.  The state space of the model is finite (588 states), the
  schedules are not: inductiveness of the invariant is checked over all states by kernel evaluation and lifted
  to schedules of every length by induction.
-/
import MosVerif.Model.StoreRace
namespace MosVerif.StoreRace

/-- invariant of the code in which both branches lock -/
def Inv (s : St) : Bool :=
  -- the lock is held exactly inside the critical sections
  (decide (s.lock = .plain) == (s.pp == .set || s.pp == .unlock)) &&
  (decide (s.lock = .nx) == (s.pn == .sia1 || s.pn == .get || s.pn == .del || s.pn == .sia2 || s.pn == .unlock)) &&
  -- once the plain store has written, the key holds its value
  (!(s.pp == .unlock || s.pp == .done) || s.slot == .live .p) &&
  -- the remove-and-retry runs only while the plain store has not begun
  (!(s.pn == .del || s.pn == .sia2) || s.pp == .lock)

theorem mem_allTok (t : Tok) : t ∈ allTok := by cases t <;> simp [allTok]
theorem mem_allSlot (s : Slot) : s ∈ allSlot := by
  cases s with
  | absent => simp [allSlot]
  | dead t => cases t <;> simp [allSlot, allTok]
  | live t => cases t <;> simp [allSlot, allTok]
theorem mem_allPcP (p : PcP) : p ∈ allPcP := by cases p <;> simp [allPcP]
theorem mem_allPcN (p : PcN) : p ∈ allPcN := by cases p <;> simp [allPcN]
theorem mem_allHolder (h : Holder) : h ∈ allHolder := by cases h <;> simp [allHolder]

theorem mem_allSt (s : St) : s ∈ allSt := by
  obtain ⟨sl, h, p, n⟩ := s
  simp only [allSt, List.mem_flatMap, List.mem_map]
  exact ⟨sl, mem_allSlot sl, h, mem_allHolder h, p, mem_allPcP p, n, mem_allPcN n, rfl⟩

/-- the whole table, by kernel evaluation -/
theorem inv_inductive_table :
    allSt.all (fun s => !Inv s || (Inv (stepP true s) && Inv (stepN s))) = true := by decide +kernel

theorem inv_step (s : St) (who : Bool) (h : Inv s = true) : Inv (step true s who) = true := by
  have ht := List.all_eq_true.mp inv_inductive_table s (mem_allSt s)
  simp only [h, Bool.not_true, Bool.false_or, Bool.and_eq_true] at ht
  cases who
  · simpa [step] using ht.1
  · simpa [step] using ht.2

theorem inv_init (s0 : Slot) : Inv (init s0) = true := by
  cases s0 with
  | absent => decide
  | dead t => cases t <;> decide
  | live t => cases t <;> decide

/-- every reachable state, schedules of every length -/
theorem inv_run (sched : List Bool) (s : St) (h : Inv s = true) : Inv (run true sched s) = true := by
  induction sched generalizing s with
  | nil => simpa [run] using h
  | cons w ws ih =>
    have := ih (step true s w) (inv_step s w h)
    simpa [run] using this

/-- ★ with the lock, whatever the key held before (nothing, an expired leftover, a live entry) and whatever the
    schedule: when both stores have returned the key holds the plain store's value — the set-if-absent value
    (an error response) has not displaced it. -/
theorem locked_final_is_plain (s0 : Slot) (sched : List Bool)
    (hf : finished (run true sched (init s0)) = true) :
    (run true sched (init s0)).slot = .live .p := by
  have hi := inv_run sched (init s0) (inv_init s0)
  generalize run true sched (init s0) = s at hf hi
  obtain ⟨sl, h, p, n⟩ := s
  simp only [finished, Bool.and_eq_true, beq_iff_eq] at hf
  obtain ⟨rfl, rfl⟩ := hf
  simp only [Inv, Bool.and_eq_true] at hi
  simpa using hi.1.2

/-- ★ serializability: the end state of every schedule is the end state of both serial orders -/
theorem locked_is_serial (s0 : Slot) (sched : List Bool)
    (hf : finished (run true sched (init s0)) = true) :
    (run true sched (init s0)).slot = (serialPN true s0).slot ∧
    (run true sched (init s0)).slot = (serialNP true s0).slot := by
  rw [locked_final_is_plain s0 sched hf]
  cases s0 with
  | absent => decide
  | dead t => cases t <;> decide
  | live t => cases t <;> decide

/-- the serial schedules do finish (the hypothesis of the theorems above is satisfiable) -/
theorem serial_finishes (s0 : Slot) : finished (serialPN true s0) = true ∧ finished (serialNP true s0) = true := by
  cases s0 with
  | absent => decide
  | dead t => cases t <;> decide
  | live t => cases t <;> decide

/-- a thread that keeps being scheduled finishes: after nine steps of each (in any order in which the lock
    holder is eventually scheduled) — here the round-robin schedule -/
theorem round_robin_finishes (s0 : Slot) :
    finished (run true [false, true, false, true, false, true, false, true, false, true, false, true,
      false, true, false, true, false, true] (init s0)) = true := by
  cases s0 with
  | absent => decide
  | dead t => cases t <;> decide
  | live t => cases t <;> decide

/-- ★ the lock on the plain branch is what the property rests on: without it there is a schedule, from an
    expired leftover, after which the key holds the refused value although the plain store has completed. -/
theorem unlocked_can_displace :
    ∃ sched, finished (run false sched (init (.dead .init))) = true ∧
      (run false sched (init (.dead .init))).slot = .live .n :=
  ⟨[true, true, true, false, false, false, true, true, true], by decide, by decide⟩

end MosVerif.StoreRace
