/-
  C15 helper lemmas, part 1: arithmetic of one `rate.Limiter` bucket.
-/
import MosVerif.Model.Limiter
namespace MosVerif.Limiter

/-- `last ≤ τ` (vacuous for a brand-new bucket) -/
def Bucket.lastLe (b : Bucket) (τ : Nat) : Prop := ∀ l, b.last = some l → l ≤ τ

/-- reachable buckets: never more than the truncation slack below zero, `last` in the past -/
def Bucket.Inv (L : Nat) (b : Bucket) (τ : Nat) : Prop := -((L : Int) - 1) ≤ b.tokens ∧ b.lastLe τ

theorem Bucket.inv_fresh (L : Nat) (hL : 0 < L) (τ : Nat) : Bucket.fresh.Inv L τ := by
  constructor
  · simp [Bucket.fresh]; omega
  · intro l h; simp [Bucket.fresh] at h

theorem Bucket.Inv.mono {L : Nat} {b : Bucket} {τ τ' : Nat} (h : b.Inv L τ) (hτ : τ ≤ τ') : b.Inv L τ' :=
  ⟨h.1, fun l hl => Nat.le_trans (h.2 l hl) hτ⟩

theorem Bucket.elapsed_step (b : Bucket) {τ t t' : Nat} (h : b.lastLe τ) (h1 : τ ≤ t) (h2 : t ≤ t') :
    b.elapsed t' ≤ b.elapsed t + (t' - t) := by
  unfold Bucket.elapsed
  cases hl : b.last with
  | none => simp
  | some l =>
    have := h l hl
    simp only
    split <;> split <;> omega

theorem Bucket.avail_le_cap (L B : Nat) (b : Bucket) (t : Nat) :
    b.avail L B t ≤ ((B * nano : Nat) : Int) := by
  unfold Bucket.avail; omega

/-- refilling is at most `L` nano-tokens per nanosecond -/
theorem Bucket.avail_step (L B : Nat) (b : Bucket) {τ t t' : Nat} (h : b.lastLe τ) (h1 : τ ≤ t) (h2 : t ≤ t') :
    b.avail L B t' ≤ b.avail L B t + ((L * (t' - t) : Nat) : Int) := by
  have he := b.elapsed_step h h1 h2
  have hm : L * b.elapsed t' ≤ L * b.elapsed t + L * (t' - t) := by
    rw [← Nat.mul_add]; exact Nat.mul_le_mul_left L he
  unfold Bucket.avail
  omega

theorem Bucket.avail_ge (L B : Nat) (hL : 0 < L) (b : Bucket) (τ t : Nat) (h : b.Inv L τ) :
    -((L : Int) - 1) ≤ b.avail L B t := by
  unfold Bucket.avail
  have := h.1
  have : (0 : Int) ≤ ((L * b.elapsed t : Nat) : Int) := Int.natCast_nonneg _
  have : (0 : Int) ≤ ((B * nano : Nat) : Int) := Int.natCast_nonneg _
  omega

/-- the outcome of one `AllowN`, spelled out -/
theorem Bucket.allowN_true {L B : Nat} {b : Bucket} {t n : Nat} (h : (b.allowN L B t n).1 = true) :
    n ≤ B ∧ -(b.avail L B t - ((n * nano : Nat) : Int)) < (L : Int) ∧
    (b.allowN L B t n).2 = ⟨b.avail L B t - ((n * nano : Nat) : Int), some t⟩ := by
  unfold Bucket.allowN at h ⊢
  simp only at h ⊢
  split at h
  · rename_i hc; rw [if_pos hc]; exact ⟨hc.1, hc.2, rfl⟩
  · simp at h

theorem Bucket.allowN_false {L B : Nat} {b : Bucket} {t n : Nat} (h : (b.allowN L B t n).1 = false) :
    ¬ (n ≤ B ∧ -(b.avail L B t - ((n * nano : Nat) : Int)) < (L : Int)) ∧ (b.allowN L B t n).2 = b := by
  unfold Bucket.allowN at h ⊢
  simp only at h ⊢
  split at h
  · simp at h
  · rename_i hc; rw [if_neg hc]; exact ⟨hc, rfl⟩

/-- right after an admission at `t`, the bucket holds exactly what was left -/
theorem Bucket.avail_after (L B : Nat) (x : Int) (t : Nat) (hx : x ≤ ((B * nano : Nat) : Int)) :
    (Bucket.mk x (some t)).avail L B t = x := by
  unfold Bucket.avail Bucket.elapsed
  simp
  omega

theorem Bucket.allowN_inv {L B : Nat} {b : Bucket} {τ t n : Nat} (h : b.Inv L τ) (ht : τ ≤ t) :
    (b.allowN L B t n).2.Inv L t := by
  cases hd : (b.allowN L B t n).1 with
  | true =>
    obtain ⟨_, h2, h3⟩ := Bucket.allowN_true hd
    rw [h3]
    constructor
    · simp only; omega
    · intro l hl; simp at hl; omega
  | false =>
    rw [(Bucket.allowN_false hd).2]; exact h.mono ht

end MosVerif.Limiter
