/-
  C19 — invariants of the prefetch model (Model/Prefetch.lean) over arbitrary interleavings.
-/
import MosVerif.Model.Prefetch
import MosVerif.Lemmas.TtlHist
namespace MosVerif.Prefetch
open MosVerif.Ttl

/-! ### list bookkeeping -/

theorem countP_set_add {α : Type} (p : α → Bool) (l : List α) (i : Nat) (a : α) (h : i < l.length) :
    (l.set i a).countP p + (if p l[i] then 1 else 0) = l.countP p + (if p a then 1 else 0) := by
  induction l generalizing i with
  | nil => simp at h
  | cons x xs ih =>
    cases i with
    | zero =>
      simp only [List.set_cons_zero, List.countP_cons, List.getElem_cons_zero]
      omega
    | succ i =>
      have h' : i < xs.length := by simpa using h
      have := ih i h'
      simp only [List.set_cons_succ, List.countP_cons, List.getElem_cons_succ]
      omega

theorem getElem?_some {α : Type} (l : List α) (i : Nat) (a : α) (h : l[i]? = some a) :
    ∃ hi : i < l.length, l[i] = a := List.getElem?_eq_some_iff.1 h

theorem reserve_held (q : Queue) (k : Nat) (h : q k = true) : reserve q k = (q, false) := by
  simp [reserve, h]

theorem reserve_free (q : Queue) (k : Nat) (h : q k = false) :
    reserve q k = (fun k' => if k' = k then true else q k', true) := by
  simp [reserve, h]

/-! ### single flight -/

/-- per prefetch key: (clients that reserved it and have not yet spawned) + (refresh goroutines that have not yet
    called done) is 1 if the key is in prefetchCtl's queue and 0 otherwise -/
def SF (P : Params) (s : State) : Prop :=
  ∀ pk, s.clients.countP (Client.spawningOn P pk) + s.refreshers.countP (Refresher.inflightOn pk)
    = if s.queue pk then 1 else 0

theorem sf_init (P : Params) (mem : Mem) (keys : List Nat) (n : Nat) : SF P (init mem keys n) := by
  intro pk
  simp only [init, Queue.empty, List.countP_nil, Nat.add_zero]
  induction keys with
  | nil => simp
  | cons k ks ih => simpa [List.countP_cons, Client.spawningOn] using ih

/-- a client's state change that neither enters nor leaves `spawning` keeps the counts -/
theorem sf_client_neutral (P : Params) (s : State) (i : Nat) (c c' : Client) (h : s.clients[i]? = some c)
    (hc : ∀ pk, Client.spawningOn P pk c = false) (hc' : ∀ pk, Client.spawningOn P pk c' = false) (hsf : SF P s) :
    SF P { s with clients := s.clients.set i c' } := by
  intro pk
  obtain ⟨hi, he⟩ := getElem?_some _ _ _ h
  have := countP_set_add (Client.spawningOn P pk) s.clients i c' hi
  rw [he, hc pk, hc' pk] at this
  have h2 := hsf pk
  simp only at this ⊢
  omega

theorem sf_clientStep (P : Params) (s : State) (i now : Nat) (hsf : SF P s) : SF P (clientStep P s i now) := by
  unfold clientStep
  cases hc : s.clients[i]? with
  | none => exact hsf
  | some c =>
    obtain ⟨hi, he⟩ := getElem?_some _ _ _ hc
    simp only
    cases hpc : c.pc with
    | start =>
      simp only
      cases cacheGet P.clock s.mem c.key now with
      | none => exact sf_client_neutral P s i c _ hc (by simp [Client.spawningOn, hpc]) (by simp [Client.spawningOn]) hsf
      | some p =>
        exact sf_client_neutral P s i c _ hc (by simp [Client.spawningOn, hpc]) (by simp [Client.spawningOn]) hsf
    | looked h =>
      simp only
      by_cases hn : needPrefetch h.stored h.expire now = true
      · simp only [hn, if_true]
        by_cases hq : s.queue (P.pkey c.key) = true
        · simp only [reserve_held _ _ hq, Bool.false_eq_true, if_false]
          exact sf_client_neutral P s i c _ hc (by simp [Client.spawningOn, hpc]) (by simp [Client.spawningOn]) hsf
        · have hqf : s.queue (P.pkey c.key) = false := by simpa using hq
          simp only [reserve_free _ _ hqf, if_true]
          intro pk
          have hset := countP_set_add (Client.spawningOn P pk) s.clients i { c with pc := .spawning h } hi
          have hold : Client.spawningOn P pk s.clients[i] = false := by rw [he]; simp [Client.spawningOn, hpc]
          rw [hold] at hset
          have h2 := hsf pk
          simp only [Client.spawningOn] at hset ⊢
          by_cases hpk : P.pkey c.key = pk
          · subst hpk
            simp only [beq_self_eq_true, if_true] at hset ⊢
            rw [hqf] at h2
            simp only [Bool.false_eq_true, if_false] at h2 hset ⊢
            omega
          · have hne : (P.pkey c.key == pk) = false := by simpa using hpk
            have hne' : ¬ pk = P.pkey c.key := fun h => hpk h.symm
            simp only [hne, Bool.false_eq_true, if_false, hne'] at hset ⊢
            omega
      · simp only [hn, if_false, Bool.false_eq_true]
        exact sf_client_neutral P s i c _ hc (by simp [Client.spawningOn, hpc]) (by simp [Client.spawningOn]) hsf
    | spawning h =>
      simp only
      intro pk
      have hset := countP_set_add (Client.spawningOn P pk) s.clients i { c with pc := .ready h } hi
      have hold : Client.spawningOn P pk s.clients[i] = (P.pkey c.key == pk) := by rw [he]; simp [Client.spawningOn, hpc]
      rw [hold] at hset
      have h2 := hsf pk
      simp only [Client.spawningOn, List.countP_append, List.countP_cons, List.countP_nil, Refresher.inflightOn] at hset ⊢
      by_cases hpk : (P.pkey c.key == pk) = true
      · simp only [hpk, if_true, Bool.true_and] at hset ⊢
        simp only [Bool.false_eq_true, if_false] at hset
        omega
      · have hpk' : (P.pkey c.key == pk) = false := by simpa using hpk
        simp only [hpk', Bool.false_eq_true, if_false, Bool.false_and] at hset ⊢
        omega
    | ready h =>
      exact sf_client_neutral P s i c _ hc (by simp [Client.spawningOn, hpc]) (by simp [Client.spawningOn]) hsf
    | responded h => exact hsf
    | missed => exact hsf

/-- a refresher's state change between not-finished states keeps the counts -/
theorem sf_refresher_neutral (P : Params) (s : State) (j : Nat) (r r' : Refresher) (h : s.refreshers[j]? = some r)
    (hr : ∀ pk, Refresher.inflightOn pk r' = Refresher.inflightOn pk r) (mem : Mem) (n : Nat) (hsf : SF P s) :
    SF P { s with mem := mem, nextId := n, refreshers := s.refreshers.set j r' } := by
  intro pk
  obtain ⟨hj, he⟩ := getElem?_some _ _ _ h
  have := countP_set_add (Refresher.inflightOn pk) s.refreshers j r' hj
  rw [he, hr pk] at this
  have h2 := hsf pk
  simp only at this ⊢
  omega

theorem sf_step (P : Params) (s : State) (l : Label) (hsf : SF P s) : SF P (step P s l) := by
  cases l with
  | client i now => exact sf_clientStep P s i now hsf
  | forward j out =>
    show SF P (forwardStep s j out)
    unfold forwardStep
    cases hr : s.refreshers[j]? with
    | none => exact hsf
    | some r =>
      simp only
      cases hpc : r.pc <;> cases out <;> simp only <;> try exact hsf
      · exact sf_refresher_neutral P s j r _ hr (by intro pk; simp [Refresher.inflightOn, hpc]) s.mem s.nextId hsf
      · exact sf_refresher_neutral P s j r _ hr (by intro pk; simp [Refresher.inflightOn, hpc]) s.mem s.nextId hsf
  | store j now delay =>
    show SF P (storeStep P s j now delay)
    unfold storeStep
    cases hr : s.refreshers[j]? with
    | none => exact hsf
    | some r =>
      simp only
      cases hpc : r.pc <;> simp only <;> try exact hsf
      exact sf_refresher_neutral P s j r _ hr (by intro pk; simp [Refresher.inflightOn, hpc]) _ _ hsf
  | done j =>
    show SF P (doneStep s j)
    unfold doneStep
    cases hr : s.refreshers[j]? with
    | none => exact hsf
    | some r =>
      simp only
      cases hpc : r.pc <;> simp only <;> try exact hsf
      intro pk
      obtain ⟨hj, he⟩ := getElem?_some _ _ _ hr
      have hset := countP_set_add (Refresher.inflightOn pk) s.refreshers j { r with pc := .finished } hj
      have hold : Refresher.inflightOn pk s.refreshers[j] = (r.pk == pk) := by rw [he]; simp [Refresher.inflightOn, hpc]
      rw [hold] at hset
      have h2 := hsf pk
      simp only [Refresher.inflightOn, done] at hset ⊢
      by_cases hpk : r.pk = pk
      · subst hpk
        simp only [beq_self_eq_true, if_true, Bool.and_false, Bool.false_eq_true, if_false] at hset ⊢
        cases hq : s.queue r.pk <;> simp only [hq, Bool.false_eq_true, if_false, if_true] at h2 <;> omega
      · have hne : (r.pk == pk) = false := by simpa using hpk
        have hne' : ¬ pk = r.pk := fun h => hpk h.symm
        simp only [hne, Bool.false_eq_true, if_false, Bool.false_and, hne'] at hset ⊢
        omega

theorem sf_run (P : Params) (labels : List Label) : ∀ s, SF P s → SF P (run P s labels) := by
  induction labels with
  | nil => intro s h; exact h
  | cons l ls ih => intro s h; exact ih _ (sf_step P s l h)

/-! ### the client threads' own progress -/

def clientPc (s : State) (i : Nat) : Option CPc := (s.clients[i]?).map (·.pc)

/-- number of own steps a client thread still has to take -/
def CPc.rank : CPc → Nat
  | .start => 4
  | .looked _ => 3
  | .spawning _ => 2
  | .ready _ => 1
  | .responded _ => 0
  | .missed => 0

/-- the hit a client thread holds -/
def CPc.hit : CPc → Option Hit
  | .looked h => some h
  | .spawning h => some h
  | .ready h => some h
  | .responded h => some h
  | _ => none

theorem clientStep_length (P : Params) (s : State) (i now : Nat) :
    (clientStep P s i now).clients.length = s.clients.length := by
  unfold clientStep
  cases hc : s.clients[i]? with
  | none => rfl
  | some c =>
    simp only
    cases hpc : c.pc with
    | start => simp only; cases cacheGet P.clock s.mem c.key now <;> simp
    | looked hh =>
      simp only
      by_cases hn : needPrefetch hh.stored hh.expire now = true
      · by_cases hq : (reserve s.queue (P.pkey c.key)).2 = true <;> simp [hn, hq]
      · simp [hn]
    | spawning hh => simp
    | ready hh => simp
    | responded hh => rfl
    | missed => rfl

theorem clientStep_other (P : Params) (s : State) (i i' now : Nat) (h : i' ≠ i) :
    clientPc (clientStep P s i' now) i = clientPc s i := by
  unfold clientStep clientPc
  cases hc : s.clients[i']? with
  | none => rfl
  | some c =>
    simp only
    cases hpc : c.pc with
    | start => simp only; cases cacheGet P.clock s.mem c.key now <;> simp [List.getElem?_set, h]
    | looked hh =>
      simp only
      by_cases hn : needPrefetch hh.stored hh.expire now = true
      · by_cases hq : (reserve s.queue (P.pkey c.key)).2 = true <;> simp [hn, hq, List.getElem?_set, h]
      · simp [hn, List.getElem?_set, h]
    | spawning hh => simp [List.getElem?_set, h]
    | ready hh => simp [List.getElem?_set, h]
    | responded hh => rfl
    | missed => rfl

/-- one own step: the rank drops by at least one (until 0) and a held hit is kept -/
theorem clientStep_self (P : Params) (s : State) (i now : Nat) (pc : CPc) (h : clientPc s i = some pc) :
    ∃ pc', clientPc (clientStep P s i now) i = some pc' ∧ pc'.rank ≤ pc.rank - 1 ∧
      (∀ hit, pc.hit = some hit → pc'.hit = some hit) := by
  unfold clientPc at h
  cases hc : s.clients[i]? with
  | none => simp [hc] at h
  | some c =>
    obtain ⟨hi, he⟩ := getElem?_some _ _ _ hc
    simp only [hc, Option.map_some, Option.some.injEq] at h
    unfold clientStep clientPc
    simp only [hc]
    subst h
    cases hpc : c.pc with
    | start =>
      simp only
      cases cacheGet P.clock s.mem c.key now with
      | none => exact ⟨.missed, by simp [List.getElem?_set, hi], by simp [CPc.rank], by simp [CPc.hit]⟩
      | some p => exact ⟨.looked ⟨p.1, p.2.stored, p.2.expire, p.2.id⟩, by simp [List.getElem?_set, hi], by simp [CPc.rank], by simp [CPc.hit]⟩
    | looked hh =>
      simp only
      by_cases hn : needPrefetch hh.stored hh.expire now = true
      · by_cases hq : (reserve s.queue (P.pkey c.key)).2 = true
        · exact ⟨.spawning hh, by simp [hn, hq, List.getElem?_set, hi], by simp [CPc.rank], by simp [CPc.hit]⟩
        · exact ⟨.ready hh, by simp [hn, hq, List.getElem?_set, hi], by simp [CPc.rank], by simp [CPc.hit]⟩
      · exact ⟨.ready hh, by simp [hn, List.getElem?_set, hi], by simp [CPc.rank], by simp [CPc.hit]⟩
    | spawning hh => exact ⟨.ready hh, by simp [List.getElem?_set, hi], by simp [CPc.rank], by simp [CPc.hit]⟩
    | ready hh => exact ⟨.responded hh, by simp [List.getElem?_set, hi], by simp [CPc.rank], by simp [CPc.hit]⟩
    | responded hh => exact ⟨.responded hh, by simp [hc, hpc], by simp [CPc.rank], by simp [CPc.hit]⟩
    | missed => exact ⟨.missed, by simp [hc, hpc], by simp [CPc.rank], by simp [CPc.hit]⟩

/-- steps of refresh goroutines never touch a client thread -/
theorem step_refresher_clients (P : Params) (s : State) (l : Label) (hl : ∀ i now, l ≠ .client i now) :
    (step P s l).clients = s.clients := by
  cases l with
  | client i now => exact absurd rfl (hl i now)
  | forward j out =>
    show (forwardStep s j out).clients = s.clients
    unfold forwardStep
    cases s.refreshers[j]? with
    | none => rfl
    | some r => simp only; cases r.pc <;> cases out <;> rfl
  | store j now delay =>
    show (storeStep P s j now delay).clients = s.clients
    unfold storeStep
    cases s.refreshers[j]? with
    | none => rfl
    | some r => simp only; cases r.pc <;> rfl
  | done j =>
    show (doneStep s j).clients = s.clients
    unfold doneStep
    cases s.refreshers[j]? with
    | none => rfl
    | some r => simp only; cases r.pc <;> rfl

end MosVerif.Prefetch
