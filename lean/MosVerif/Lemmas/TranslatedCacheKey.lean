/-
  Tie by translation (C07): `cacheKey` (app/router/cache.go).  `Translated.c07_cacheKey` is regenerated from the
  current Go source by the byte-slice mode of /verif/extract/gotolean (the recycled buffer of `pool.GetBuf` is the
  parameter `dirty`; every slice / index expression panics as in Go); the hand-written statement-by-statement model
  `CacheKey.cacheKey` (`none` = panic) is EQUAL to it for all names, classes, types, marks and buffer contents.
-/
import MosVerif.Generated.TranslatedCodec
import MosVerif.Model.CacheKey
namespace MosVerif.CacheKey
open MosVerif
open MosVerif.Wire (Res)

/-- the model's `Option` (none = panic) as a `Res` -/
def resOfOpt {α : Type} : Option α → Res α
  | some a => .ok a
  | none => .panic

theorem resOfOpt_bind {α β : Type} (x : Option α) (f : α → Option β) :
    resOfOpt (x >>= f) = (resOfOpt x >>= fun a => resOfOpt (f a)) := by
  cases x <;> rfl

theorem split2 (b : Bytes) (off : Nat) (h : off ≤ b.length) : ∃ p r, b = p ++ r ∧ p.length = off :=
  ⟨b.take off, b.drop off, by simp, by simp; omega⟩

theorem copy_length (d s : Bytes) : (GoSem.copy d s).length = d.length := by
  unfold GoSem.copy; simp; omega

/-- `copy(b[off:], src)` -/
theorem copyAt_eq (b : Bytes) (off : Nat) (src : Bytes) :
    resOfOpt ((copyAt b off src).map (·.1)) =
      (GoSem.sliceFrom b off >>= fun t => pure (GoSem.splice b off (GoSem.copy t src))) := by
  unfold copyAt GoSem.sliceFrom
  by_cases h : off > b.length
  · have : ¬ off ≤ b.length := by omega
    simp [h, this, resOfOpt]; rfl
  · have h' : off ≤ b.length := by omega
    obtain ⟨p, r, rfl, rfl⟩ := split2 b off h'
    have hl := copy_length r src
    simp only [h, h', if_false, if_true, Option.map_some, resOfOpt, GoSem.splice]
    show Res.ok _ = Res.ok _
    congr 1
    simp only [List.drop_left, List.take_left, hl]
    have : List.drop (p.length + r.length) (p ++ r) = [] := by simp
    rw [this]
    simp only [List.length_append, Nat.add_sub_cancel_left, List.append_nil, List.append_assoc, List.append_cancel_left_eq]
    unfold GoSem.copy
    rcases Nat.le_total r.length src.length with hle | hle
    · rw [Nat.min_eq_left hle, List.drop_eq_nil_of_le hle]
      simp
    · rw [Nat.min_eq_right hle, List.take_of_length_le (Nat.le_refl _), List.take_of_length_le hle]
      simp

/-- `off := copy(b, src)` -/
theorem copyAt_zero (b src : Bytes) : copyAt b 0 src = some (GoSem.copy b src, min b.length src.length) := by
  unfold copyAt GoSem.copy
  simp only [Nat.not_lt_zero, if_false, Nat.sub_zero, List.take_zero, List.nil_append, Nat.zero_add]
  rcases Nat.le_total b.length src.length with hle | hle
  · rw [Nat.min_eq_left hle, List.drop_eq_nil_of_le hle, List.drop_eq_nil_of_le (Nat.le_refl _)]
  · rw [Nat.min_eq_right hle, List.take_of_length_le (Nat.le_refl _), List.take_of_length_le hle]

/-- `b[off] = v` -/
theorem setAt_eq (b : Bytes) (off : Nat) : resOfOpt (setAt b off 0) = GoSem.setIndex b off 0 := by
  unfold setAt GoSem.setIndex
  by_cases h : off < b.length <;> simp [h, resOfOpt] <;> rfl

/-- `binary.BigEndian.PutUint16(b[off:], v)` -/
theorem putU16_eq (b : Bytes) (off : Nat) (v : UInt16) :
    resOfOpt (putU16 b off v) =
      (GoSem.sliceFrom b off >>= fun t => GoSem.putUint16 t v.toNat >>= fun t' => pure (GoSem.splice b off t')) := by
  unfold putU16 GoSem.sliceFrom
  by_cases h : off + 2 ≤ b.length
  · obtain ⟨p, m, r, rfl, rfl, hm⟩ : ∃ p m r, b = p ++ (m ++ r) ∧ p.length = off ∧ m.length = 2 := by
      refine ⟨b.take off, (b.drop off).take 2, b.drop (off + 2), ?_, by simp; omega, by simp; omega⟩
      rw [← List.drop_drop, List.take_append_drop, List.take_append_drop]
    match m, hm with
    | [m0, m1], _ =>
      have h1 : p.length ≤ (p ++ ([m0, m1] ++ r)).length := by simp
      have hv : UInt8.ofNat (v.toNat % 256) = UInt8.ofNat v.toNat := by
        apply UInt8.toNat_inj.1; simp [UInt8.toNat_ofNat']
      simp [resOfOpt, GoSem.putUint16, GoSem.splice, hi8, lo8, hv]
      show Res.ok _ = Res.ok _
      simp
  · simp only [h, if_false, resOfOpt]
    by_cases h1 : off ≤ b.length
    · simp only [h1, if_true]
      have : (b.drop off).length < 2 := by simp; omega
      match hd : b.drop off, this with
      | [], _ => rfl
      | [_], _ => rfl
    · simp [h1]; rfl

theorem bind_ok {α β} (a : α) (f : α → Res β) : (Res.ok a >>= f) = f a := rfl
theorem pure_eq {α} (a : α) : (pure a : Res α) = .ok a := rfl
theorem bind_assoc {α β γ} (x : Res α) (f : α → Res β) (g : β → Res γ) :
    ((x >>= f) >>= g) = (x >>= fun a => f a >>= g) := by
  cases x <;> rfl

theorem copyAt_eq' (b : Bytes) (off : Nat) (src : Bytes) :
    (resOfOpt (copyAt b off src) >>= fun a => resOfOpt (pure a.fst)) =
      (GoSem.sliceFrom b off >>= fun t => pure (GoSem.splice b off (GoSem.copy t src))) := by
  rw [← copyAt_eq]
  cases copyAt b off src <;> rfl

/-- ★ `cacheKey`: the statement-by-statement model IS the translation of the current source. -/
theorem cacheKey_translated (dirty : Bytes) (q : Question) (mark : Bytes) :
    resOfOpt (cacheKey dirty q mark) = Translated.c07_cacheKey q.name q.cls.toNat q.typ.toNat mark dirty := by
  unfold cacheKey Translated.c07_cacheKey
  simp only [resOfOpt_bind, copyAt_zero, copyAt_eq', setAt_eq, putU16_eq]
  simp only [resOfOpt, bind_assoc, bind_ok, pure_eq]
  rfl

end MosVerif.CacheKey
