/-
  C08 — invariants of the cache model with the redis backend (Model/RedisCache.lean) over arbitrary histories,
  including SETs that redis applies late or never.
-/
import MosVerif.Model.RedisCache
import MosVerif.Lemmas.TtlHist
namespace MosVerif.RedisCache
open MosVerif.Ttl

/-- every lifetime is a whole number of seconds when the maximum is -/
theorem storeTtl_whole (m : Msg) (cap : Int) (hc : cap % second = 0) (hpos : 0 < cap) :
    storeTtl m cap % second = 0 ∧ 0 < storeTtl m cap := by
  refine ⟨?_, (storeTtl_pos m cap hpos).1⟩
  rw [storeTtl_eq]
  unfold clampTtl baseTtl second at *
  generalize (getMinimalTTL m).1.toNat = u
  generalize (getMinimalTTL m).2 = has
  generalize m.rcode = rc
  simp only
  match rc with
  | 0 => cases has <;> simp only [if_true, if_false, Bool.false_eq_true] <;> (repeat' split) <;> omega
  | 1 => cases has <;> simp only [if_true, if_false, Bool.false_eq_true] <;> (repeat' split) <;> omega
  | 2 => cases has <;> simp only [if_true, if_false, Bool.false_eq_true] <;> (repeat' split) <;> omega
  | 3 => cases has <;> simp only [if_true, if_false, Bool.false_eq_true] <;> (repeat' split) <;> omega
  | n + 4 => cases has <;> simp only [if_true, if_false, Bool.false_eq_true] <;> (repeat' split) <;> omega

/-- truncating both ends of a whole-second lifetime to Unix seconds keeps the lifetime -/
theorem floorSec_add (now : Nat) (L : Int) (h0 : 0 < L) (hw : L % second = 0) :
    ((floorSec ((now : Int) + L).toNat : Nat) : Int) = (floorSec now : Nat) + L := by
  unfold floorSec G second at *
  have hk : L = (L / 1000000000) * 1000000000 := by omega
  generalize L / 1000000000 = k at hk
  have hk0 : 0 < k := by omega
  obtain ⟨kn, rfl⟩ : ∃ kn : Nat, k = kn := ⟨k.toNat, by omega⟩
  subst hk
  have h1 : ((now : Int) + (kn : Int) * 1000000000).toNat = now + kn * 1000000000 := by omega
  rw [h1]
  omega

structure RCfgOK (cfg : RCfg) : Prop where
  pos : 0 < cfg.maximumTtl
  whole : cfg.maximumTtl % second = 0

theorem rcfgOK_init (mem red : Bool) (c : Int) (h1 : -9223372037 < c) (h2 : c < 9223372037) :
    RCfgOK ⟨mem, red, initMaxTtl c⟩ := by
  obtain ⟨a, -, b, -, -, -⟩ := initMaxTtl_bounds c h1 h2
  exact ⟨by unfold second at a; simp only; omega, b⟩

/-- what is true of every redis value and of every waiting SET: the Unix seconds it carries are a lifetime of the
    policy apart, and the message is not truncated -/
structure ValOK (max : Int) (stored expire : Nat) (msg : Msg) : Prop where
  life : (expire : Int) = stored + storeTtl msg max
  notTC : msg.tc = false

structure RInv (cfg : RCfg) (off : Nat) (st : RState) : Prop where
  mem : Inv ⟨true, cfg.maximumTtl⟩ off st.mem
  redis : ∀ k v, st.redis k = some v → ValOK cfg.maximumTtl v.stored v.expire v.msg
  pending : ∀ op ∈ st.pending, ValOK cfg.maximumTtl op.stored op.expire op.msg

theorem rinv_empty (cfg : RCfg) (off : Nat) : RInv cfg off RState.empty :=
  ⟨inv_empty _ _, by intro k v h; simp [RState.empty] at h, by intro op h; simp [RState.empty] at h⟩

theorem rStore_inv (clock : Nat → Nat) (off : Nat) (cfg : RCfg) (hcfg : RCfgOK cfg) (st : RState) (k : Nat)
    (resp : Option Msg) (now delay id : Nat) (hclk : ClockOK clock off) (hd : delay < G) (h : RInv cfg off st) :
    RInv cfg off (rStore clock cfg st k resp now delay id) := by
  unfold rStore
  cases hs : store (cfg.hasMem || cfg.hasRedis) resp cfg.maximumTtl with
  | none => exact h
  | some c =>
    cases resp with
    | none => cases hb : (cfg.hasMem || cfg.hasRedis) <;> simp [store, hb] at hs
    | some m =>
      obtain ⟨-, htc, hmsg, httl, -⟩ := store_some _ _ _ _ hs
      obtain ⟨hw, hp⟩ := storeTtl_whole m cfg.maximumTtl hcfg.whole hcfg.pos
      have hmem : Inv ⟨true, cfg.maximumTtl⟩ off
          (if cfg.hasMem = true then cacheStore clock ⟨true, cfg.maximumTtl⟩ st.mem k (some m) now delay id else st.mem) := by
        split
        · exact cacheStore_inv clock off ⟨true, cfg.maximumTtl⟩ st.mem k (some m) now delay id hclk hcfg.pos hd h.mem
        · exact h.mem
      have hnewop : ValOK cfg.maximumTtl (floorSec now) (floorSec ((now : Int) + c.ttl).toNat) c.msg := by
        refine ⟨?_, by rw [hmsg]; exact htc⟩
        rw [hmsg, httl]
        exact floorSec_add now _ hp hw
      refine ⟨hmem, h.redis, ?_⟩
      intro op hop
      dsimp only at hop
      split at hop
      · rcases List.mem_append.1 hop with h1 | h1
        · exact h.pending op h1
        · simp only [List.mem_singleton] at h1
          subst h1
          exact hnewop
      · exact h.pending op hop

theorem rinv_ite (cfg : RCfg) (off : Nat) (c : Prop) [Decidable c] (a b : RState) (ha : RInv cfg off a)
    (hb : RInv cfg off b) : RInv cfg off (if c then a else b) := by
  split <;> assumption

theorem rApply_inv (cfg : RCfg) (off : Nat) (st : RState) (t : Nat) (h : RInv cfg off st) :
    RInv cfg off (rApply st t) := by
  unfold rApply
  cases hp : st.pending with
  | nil => exact h
  | cons op rest =>
    have hop := h.pending op (by rw [hp]; simp)
    have hrest : ∀ o ∈ rest, ValOK cfg.maximumTtl o.stored o.expire o.msg :=
      fun o ho => h.pending o (by rw [hp]; simp [ho])
    dsimp only
    apply rinv_ite
    · exact ⟨h.mem, h.redis, hrest⟩
    · refine ⟨h.mem, ?_, hrest⟩
      intro k v hv
      dsimp only at hv
      split at hv
      · cases hv; exact hop
      · exact h.redis k v hv

theorem rDrop_inv (cfg : RCfg) (off : Nat) (st : RState) (h : RInv cfg off st) : RInv cfg off (rDrop st) :=
  ⟨h.mem, h.redis, fun op hop => h.pending op (List.mem_of_mem_tail hop)⟩

/-- what a hit guarantees, whichever backend it came from -/
structure HitOK (max : Int) (t : Nat) (e : Entry) (served : Msg) : Prop where
  val : ValOK max e.stored e.expire e.msg
  fresh : t < e.expire + 2 * G
  aged : served = subtractTTL e.msg (elapsedDelta (t - e.stored))

theorem rGet_sound (clock : Nat → Nat) (off : Nat) (cfg : RCfg) (st : RState) (k now : Nat)
    (hclk : ClockOK clock off) (h : RInv cfg off st) :
    RInv cfg off (rGet clock cfg st k now).1 ∧
    ∀ served e, (rGet clock cfg st k now).2 = some (served, e) → HitOK cfg.maximumTtl now e served := by
  unfold rGet
  cases hm : (if cfg.hasMem = true then cacheGet clock st.mem k now else none) with
  | some hit =>
    obtain ⟨served, e⟩ := hit
    refine ⟨h, ?_⟩
    intro s' e' heq
    simp only [Option.some.injEq, Prod.mk.injEq] at heq
    obtain ⟨rfl, rfl⟩ := heq
    have hg : cacheGet clock st.mem k now = some (served, e) := by
      cases hb : cfg.hasMem with
      | false => simp [hb] at hm
      | true => simpa [hb] using hm
    obtain ⟨hmk, hl, hs⟩ := cacheGet_some _ _ _ _ _ _ hg
    have he := h.mem k e hmk
    exact ⟨⟨he.life, he.notTC⟩, hit_before_expiry clock off _ e now hclk he hl, hs⟩
  | none =>
    simp only
    cases hr : cfg.hasRedis with
    | false => exact ⟨h, by intro _ _ heq; simp at heq⟩
    | true =>
      simp only [if_true]
      cases hv : st.redis k with
      | none => exact ⟨h, by intro _ _ heq; simp at heq⟩
      | some v =>
        simp only
        have hval := h.redis k v hv
        by_cases hc : now < v.gone ∧ now < v.expire
        · simp only [hc, and_self, if_true]
          refine ⟨⟨?_, h.redis, h.pending⟩, ?_⟩
          · -- the copy in the memory cache
            dsimp only
            split
            · unfold otterSet
              have hnew : EntryOK ⟨true, cfg.maximumTtl⟩ off
                  { stored := v.stored, expire := v.expire,
                    expTick := (clock now + otterTtlTicks ((v.expire : Int) - (now : Int))) % u32, msg := v.msg, id := v.id } := by
                refine ⟨hval.life, hval.notTC, ?_⟩
                simp only
                have ha := hclk.notAhead now
                have ha' : clock now * 1000000000 ≤ now + off :=
                  Nat.le_trans (Nat.mul_le_mul_right _ ha) (Nat.div_mul_le_self _ _)
                have hb := otterTtlTicks_le ((v.expire : Int) - (now : Int)) (by omega)
                generalize otterTtlTicks _ = b at hb ⊢
                generalize clock now = a at ha' ⊢
                clear ha
                show (a + b) % u32 * 1000000000 < v.expire + off + 1000000000
                unfold u32
                have hr' : (a + b) % 4294967296 ≤ a + b := Nat.mod_le _ _
                generalize (a + b) % 4294967296 = r at hr' ⊢
                omega
              dsimp only
              rw [if_pos rfl]
              split
              · split
                · exact inv_set _ _ _ _ _ h.mem hnew
                · exact h.mem
              · exact inv_set _ _ _ _ _ h.mem hnew
            · exact h.mem
          · intro s' e' heq
            simp only [Option.some.injEq, Prod.mk.injEq] at heq
            obtain ⟨rfl, rfl⟩ := heq
            exact ⟨hval, by simp only [G]; omega, rfl⟩
        · simp only [hc, if_false]
          exact ⟨h, by intro _ _ heq; simp at heq⟩

/-- the Store calls of a step are not stalled for a second or more -/
def RStep.prompt : RStep → Prop
  | .store _ _ _ d => d < G
  | .query _ _ _ d => d < G
  | _ => True

/-- what a single observation guarantees -/
def RObsOK (max : Int) : RStep → Obs → Prop
  | .get _ t, .hit e served => HitOK max t e served
  | .get _ _, .miss => True
  | .query _ _ t _, .q (.cached id served) => ∃ e sv, e.id = id ∧ HitOK max t e sv ∧ served = popEDNS0 sv
  | .query _ (.reply m) _ _, .q (.upstream _ m') => m' = removeEDNS0 m
  | .query _ .err _ _, .q .failed => True
  | .store _ _ _ _, .none => True
  | .apply _, .none => True
  | .drop, .none => True
  | .evict _, .none => True
  | .revict _, .none => True
  | _, _ => False

theorem rStep_sound (clock : Nat → Nat) (off : Nat) (cfg : RCfg) (hcfg : RCfgOK cfg) (st : RState) (id : Nat)
    (s : RStep) (hclk : ClockOK clock off) (hp : s.prompt) (h : RInv cfg off st) :
    RInv cfg off (rStep clock cfg st id s).1 ∧ RObsOK cfg.maximumTtl s (rStep clock cfg st id s).2 := by
  cases s with
  | store k resp t delay => exact ⟨rStore_inv clock off cfg hcfg st k resp t delay id hclk hp h, trivial⟩
  | get k t =>
    obtain ⟨hi, ho⟩ := rGet_sound clock off cfg st k t hclk h
    show RInv cfg off (match rGet clock cfg st k t with
        | (st', none) => (st', Obs.miss) | (st', some (served, e)) => (st', Obs.hit e served)).1 ∧
      RObsOK cfg.maximumTtl (.get k t) (match rGet clock cfg st k t with
        | (st', none) => (st', Obs.miss) | (st', some (served, e)) => (st', Obs.hit e served)).2
    cases hg : rGet clock cfg st k t with
    | mk st' r =>
      rw [hg] at hi ho
      cases r with
      | none => exact ⟨hi, trivial⟩
      | some p => obtain ⟨served, e⟩ := p; exact ⟨hi, ho served e rfl⟩
  | query k up t delay =>
    obtain ⟨hi, ho⟩ := rGet_sound clock off cfg st k t hclk h
    show RInv cfg off (rQuery clock cfg st k up t delay id).1 ∧
      RObsOK cfg.maximumTtl (.query k up t delay) (.q (rQuery clock cfg st k up t delay id).2)
    unfold rQuery
    cases hg : rGet clock cfg st k t with
    | mk st' r =>
      rw [hg] at hi ho
      cases r with
      | some p =>
        obtain ⟨served, e⟩ := p
        exact ⟨hi, e, served, rfl, ho served e rfl, rfl⟩
      | none =>
        cases up with
        | err => exact ⟨hi, trivial⟩
        | reply m => exact ⟨rStore_inv clock off cfg hcfg st' k _ t delay id hclk hp hi, rfl⟩
  | apply t => exact ⟨rApply_inv cfg off st t h, trivial⟩
  | drop => exact ⟨rDrop_inv cfg off st h, trivial⟩
  | evict k => exact ⟨⟨inv_del _ _ _ _ h.mem, h.redis, h.pending⟩, trivial⟩
  | revict k =>
    refine ⟨⟨h.mem, ?_, h.pending⟩, trivial⟩
    intro k' v hv
    dsimp only [rStep] at hv
    split at hv
    · cases hv
    · exact h.redis k' v hv

def RAllObsOK (max : Int) : List RStep → List Obs → Prop
  | [], [] => True
  | s :: ss, o :: os => RObsOK max s o ∧ RAllObsOK max ss os
  | _, _ => False

theorem rRun_sound (clock : Nat → Nat) (off : Nat) (cfg : RCfg) (hcfg : RCfgOK cfg) (hclk : ClockOK clock off)
    (steps : List RStep) : ∀ (st : RState) (id : Nat), (∀ s ∈ steps, s.prompt) → RInv cfg off st →
    RInv cfg off (rRunFrom clock cfg st id steps).1 ∧ RAllObsOK cfg.maximumTtl steps (rRunFrom clock cfg st id steps).2 := by
  induction steps with
  | nil => intro st id _ h; exact ⟨h, trivial⟩
  | cons s rest ih =>
    intro st id hp h
    obtain ⟨hs, ho⟩ := rStep_sound clock off cfg hcfg st id s hclk (hp s (by simp)) h
    have := ih (rStep clock cfg st id s).1 (id + 1) (fun x hx => hp x (by simp [hx])) hs
    simp only [rRunFrom]
    exact ⟨this.1, ho, this.2⟩

end MosVerif.RedisCache
