/-
  C05 — preservation of the invariant by the exchange-side steps.
-/
import MosVerif.Lemmas.PipelineInv
namespace MosVerif.Pipeline

section steps
variable {cfg : Cfg} {s : State}

theorem inv_cancel (h : Inv cfg s) (e : Nat) : Inv cfg (step cfg s (.cancel e)) := by
  simp only [step]
  split
  · rename_i c q ch hpc
    obtain ⟨h1, h2, h3, h4, h5, h6, h7, h8, h9, h10, h11, h12, h13⟩ := h
    constructor <;> simp only [] <;> grind [upd]
  · exact h

theorem inv_dead (h : Inv cfg s) (e : Nat) : Inv cfg (step cfg s (.dead e)) := by
  simp only [step]
  split
  · rename_i c q ch hpc
    split
    · obtain ⟨h1, h2, h3, h4, h5, h6, h7, h8, h9, h10, h11, h12, h13⟩ := h
      constructor <;> simp only [] <;> grind [upd]
    · exact h
  · exact h

theorem inv_take (h : Inv cfg s) (e : Nat) : Inv cfg (step cfg s (.take e)) := by
  simp only [step]
  split
  · rename_i c q ch hpc
    split
    · rename_i p k hfull
      obtain ⟨h1, h2, h3, h4, h5, h6, h7, h8, h9, h10, h11, h12, h13⟩ := h
      constructor <;> simp only [] <;> grind [upd]
    · exact h
  · exact h

theorem inv_write (h : Inv cfg s) (e : Nat) (ok closes : Bool) : Inv cfg (step cfg s (.write e ok closes)) := by
  simp only [step]
  split
  · rename_i c q ch hpc
    split
    · -- the query reaches the server
      have hca : ∀ e', curAssign e' (Ev.query e c q :: s.hist) = curAssign e' s.hist := fun _ => rfl
      have hret : ∀ e', returned e' (Ev.query e c q :: s.hist) = returned e' s.hist := fun e' =>
        returned_cons_of_not_ret _ _ _ (by intro r; simp)
      have hrs : ∀ e' c' q' p', replySince e' c' q' p' s.hist = true →
          replySince e' c' q' p' (Ev.query e c q :: s.hist) = true := fun e' c' q' p' hr =>
        replySince_cons_of_not_assign _ _ _ _ _ _ (by intro _ _; simp) hr
      have hmem : ∀ e' c' id', Ev.assign e' c' id' ∈ Ev.query e c q :: s.hist → Ev.assign e' c' id' ∈ s.hist := by
        intro e' c' id' hm
        rcases List.mem_cons.mp hm with h1 | h1
        · cases h1
        · exact h1
      have hsp : spec cfg (Ev.query e c q :: s.hist) = true := by
        simp [spec, okEv, h.sp, h.cur_reg e c q ch hpc]
      obtain ⟨h1, h2, h3, h4, h5, h6, h7, h8, h9, h10, h11, h12, h13⟩ := h
      constructor <;> simp only [] <;> grind [upd]
    · -- the write failed
      have hq : ∀ c', ((if closes = true then upd s.conns c { s.conns c with closed := true } else s.conns) c').queue
          = (s.conns c').queue := by
        intro c'; by_cases hc : c' = c <;> cases closes <;> simp [hc]
      have hn : ∀ c', ((if closes = true then upd s.conns c { s.conns c with closed := true } else s.conns) c').nextQid
          = (s.conns c').nextQid := by
        intro c'; by_cases hc : c' = c <;> cases closes <;> simp [hc]
      obtain ⟨h1, h2, h3, h4, h5, h6, h7, h8, h9, h10, h11, h12, h13⟩ := h
      constructor <;> simp only [hq, hn] <;> grind [upd]
  · exact h

theorem inv_giveUp (h : Inv cfg s) (e : Nat) : Inv cfg (step cfg s (.giveUp e)) := by
  simp only [step]
  split
  · rename_i hpc
    have hca : ∀ e', curAssign e' (Ev.ret e none :: s.hist) = curAssign e' s.hist := fun _ => rfl
    have hret : ∀ e', e' ≠ e → returned e' (Ev.ret e none :: s.hist) = returned e' s.hist := fun e' hne =>
      returned_cons_of_not_ret _ _ _ (by intro r hr; cases hr; exact hne rfl)
    have hrs : ∀ e' c' q' p', replySince e' c' q' p' s.hist = true →
        replySince e' c' q' p' (Ev.ret e none :: s.hist) = true := fun e' c' q' p' hr =>
      replySince_cons_of_not_assign _ _ _ _ _ _ (by intro _ _; simp) hr
    have hmem : ∀ e' c' id', Ev.assign e' c' id' ∈ Ev.ret e none :: s.hist → Ev.assign e' c' id' ∈ s.hist := by
      intro e' c' id' hm
      rcases List.mem_cons.mp hm with h1 | h1
      · cases h1
      · exact h1
    have hsp : spec cfg (Ev.ret e none :: s.hist) = true := by
      have := h.noret e (by rw [hpc]; simp)
      simp [spec, okEv, h.sp, this]
    obtain ⟨h1, h2, h3, h4, h5, h6, h7, h8, h9, h10, h11, h12, h13⟩ := h
    constructor <;> simp only [] <;> grind [upd]
  · exact h

theorem inv_delQ (h : Inv cfg s) (e : Nat) : Inv cfg (step cfg s (.delQ e)) := by
  simp only [step]
  split
  · rename_i c q r hpc
    have hn : ∀ c', (upd s.conns c ((s.conns c).deleteQueueC q) c').nextQid = (s.conns c').nextQid := by
      intro c'; by_cases hc : c' = c
      · subst hc; simp [deleteQueueC_nextQid]
      · simp [hc]
    have hqg : ∀ c' a ch, qget a (upd s.conns c ((s.conns c).deleteQueueC q) c').queue = some ch →
        qget a (s.conns c').queue = some ch := by
      intro c' a ch; by_cases hc : c' = c
      · subst hc; simp [deleteQueueC_queue, qget_qdel]
      · simp [hc]
    cases r with
    | none =>
      obtain ⟨h1, h2, h3, h4, h5, h6, h7, h8, h9, h10, h11, h12, h13⟩ := h
      constructor <;> simp only [hn] <;> grind [upd]
    | some p =>
      have hca : ∀ e', curAssign e' (Ev.ret e (some (cfg.cid e, p)) :: s.hist) = curAssign e' s.hist := fun _ => rfl
      have hret : ∀ e', e' ≠ e → returned e' (Ev.ret e (some (cfg.cid e, p)) :: s.hist) = returned e' s.hist :=
        fun e' hne => returned_cons_of_not_ret _ _ _ (by intro r hr; cases hr; exact hne rfl)
      have hrs : ∀ e' c' q' p', replySince e' c' q' p' s.hist = true →
          replySince e' c' q' p' (Ev.ret e (some (cfg.cid e, p)) :: s.hist) = true := fun e' c' q' p' hr =>
        replySince_cons_of_not_assign _ _ _ _ _ _ (by intro _ _; simp) hr
      have hmem : ∀ e' c' id', Ev.assign e' c' id' ∈ Ev.ret e (some (cfg.cid e, p)) :: s.hist →
          Ev.assign e' c' id' ∈ s.hist := by
        intro e' c' id' hm
        rcases List.mem_cons.mp hm with h1 | h1
        · cases h1
        · exact h1
      have hsp : spec cfg (Ev.ret e (some (cfg.cid e, p)) :: s.hist) = true := by
        have a1 := h.noret e (by rw [hpc]; simp)
        have a2 := h.cur_leave e c q _ hpc
        have a3 := h.got e c q p hpc
        simp [spec, okEv, h.sp, a1, a2, a3]
      obtain ⟨h1, h2, h3, h4, h5, h6, h7, h8, h9, h10, h11, h12, h13⟩ := h
      constructor <;> simp only [hn] <;> grind [upd]
  · exact h

theorem inv_addQ (h : Inv cfg s) (e c : Nat) : Inv cfg (step cfg s (.addQ e c)) := by
  simp only [step]
  split
  · rename_i hpc
    split
    · -- end of life: nothing is registered
      rename_i c' hadd
      obtain ⟨_, a2, a3, _⟩ := addQueueC_none hadd
      have hn : ∀ c'', (upd s.conns c c' c'').nextQid = (s.conns c'').nextQid := by
        intro c''; by_cases hc : c'' = c
        · subst hc; simp [a2]
        · simp [hc]
      have hq : ∀ c'', (upd s.conns c c' c'').queue = (s.conns c'').queue := by
        intro c''; by_cases hc : c'' = c
        · subst hc; simp [a3]
        · simp [hc]
      obtain ⟨h1, h2, h3, h4, h5, h6, h7, h8, h9, h10, h11, h12, h13⟩ := h
      constructor <;> simp only [hn, hq] <;> assumption
    · rename_i c' q hadd
      obtain ⟨a1, a2, a3, a4, _⟩ := addQueueC_some hadd
      have hn : ∀ c'', (upd s.conns c c' c'').nextQid = if c'' = c then (s.conns c).nextQid + 1 else (s.conns c'').nextQid := by
        intro c''; by_cases hc : c'' = c
        · subst hc; simp [a3]
        · simp [hc]
      have hqg : ∀ c'' a, qget a (upd s.conns c c' c'').queue =
          if c'' = c ∧ a = q then some s.nchan else qget a (s.conns c'').queue := by
        intro c'' a; by_cases hc : c'' = c
        · subst hc; simp [a4, qget_qput]
        · simp [hc]
      have hca : ∀ e', curAssign e' (Ev.assign e c q :: s.hist) = if e = e' then some (c, q) else curAssign e' s.hist :=
        fun _ => rfl
      have hret : ∀ e', returned e' (Ev.assign e c q :: s.hist) = returned e' s.hist := fun e' =>
        returned_cons_of_not_ret _ _ _ (by intro r; simp)
      have hrs : ∀ e' c' q' p', e' ≠ e → replySince e' c' q' p' s.hist = true →
          replySince e' c' q' p' (Ev.assign e c q :: s.hist) = true := fun e' c' q' p' hne hr =>
        replySince_cons_of_not_assign _ _ _ _ _ _ (by intro _ _ he; cases he; exact hne rfl) hr
      have hmem : ∀ e' c'' id', Ev.assign e' c'' id' ∈ Ev.assign e c q :: s.hist →
          (e' = e ∧ c'' = c ∧ id' = q) ∨ Ev.assign e' c'' id' ∈ s.hist := by
        intro e' c'' id' hm
        rcases List.mem_cons.mp hm with h1 | h1
        · cases h1; exact Or.inl ⟨rfl, rfl, rfl⟩
        · exact Or.inr h1
      have hsp : spec cfg (Ev.assign e c q :: s.hist) = true := by
        have b1 := h.noret e (by rw [hpc]; simp)
        have b2 : idUsed c q s.hist = false := by
          cases hu : idUsed c q s.hist with
          | false => rfl
          | true =>
            obtain ⟨e', he'⟩ := (idUsed_eq_true_iff c q s.hist).mp hu
            have := h.asg_lt e' c q he'
            omega
        have b3 := h.base_le c
        have b4 : q < 65536 := by omega
        have b5 : cfg.base c ≤ q := by omega
        simp [spec, okEv, h.sp, b1, b2, b4, b5]
      obtain ⟨h1, h2, h3, h4, h5, h6, h7, h8, h9, h10, h11, h12, h13⟩ := h
      constructor <;> simp only [hn, hqg] <;> grind [upd]
  · exact h

theorem inv_step (h : Inv cfg s) (st : Step) : Inv cfg (step cfg s st) := by
  cases st with
  | reserve c => exact inv_reserve h c
  | addQ e c => exact inv_addQ h e c
  | write e ok closes => exact inv_write h e ok closes
  | srvReply c id p => exact inv_srvReply h c id p
  | take e => exact inv_take h e
  | cancel e => exact inv_cancel h e
  | dead e => exact inv_dead h e
  | delQ e => exact inv_delQ h e
  | giveUp e => exact inv_giveUp h e
  | close c => exact inv_close h c

theorem inv_exec (h : Inv cfg s) (steps : List Step) : Inv cfg (exec cfg s steps) := by
  induction steps generalizing s with
  | nil => exact h
  | cons st rest ih => exact ih (inv_step h st)

end steps
end MosVerif.Pipeline
