/-
  Helper lemmas for the `cacheKey` model (C07).
-/
import MosVerif.Model.CacheKey
namespace MosVerif.CacheKey

theorem getBuf_length (d : Bytes) (n : Nat) : (getBuf d n).length = n := by
  simp [getBuf]; omega

theorem exists_cons_of_length_succ {α} (l : List α) (k : Nat) (h : l.length = k + 1) :
    ∃ x r, l = x :: r ∧ r.length = k := by
  cases l with
  | nil => simp at h
  | cons x r => exact ⟨x, r, rfl, by simpa using h⟩

/-- a buffer of the size `cacheKey` asks for splits into the five regions the function writes -/
theorem split_buf (d : Bytes) (n m : Nat) (h : d.length = n + 1 + 4 + m) :
    ∃ d₁ x0 x1 x2 x3 x4 d₂, d = d₁ ++ x0 :: x1 :: x2 :: x3 :: x4 :: d₂ ∧
      d₁.length = n ∧ d₂.length = m := by
  have h0 : (d.drop n).length = (m + 4) + 1 := by simp; omega
  obtain ⟨x0, r0, e0, h1⟩ := exists_cons_of_length_succ _ _ h0
  obtain ⟨x1, r1, e1, h2⟩ := exists_cons_of_length_succ r0 (m + 3) h1
  obtain ⟨x2, r2, e2, h3⟩ := exists_cons_of_length_succ r1 (m + 2) h2
  obtain ⟨x3, r3, e3, h4⟩ := exists_cons_of_length_succ r2 (m + 1) h3
  obtain ⟨x4, r4, e4, h5⟩ := exists_cons_of_length_succ r3 m h4
  refine ⟨d.take n, x0, x1, x2, x3, x4, r4, ?_, ?_, h5⟩
  · rw [← e4, ← e3, ← e2, ← e1, ← e0, List.take_append_drop]
  · simp; omega

theorem copyAt_front (d₁ rest src : Bytes) (h : d₁.length = src.length) :
    copyAt (d₁ ++ rest) 0 src = some (src ++ rest, src.length) := by
  have hn : min (d₁.length + rest.length) src.length = src.length := by omega
  simp [copyAt, hn, List.drop_left' h]

theorem copyAt_back (p d₂ src : Bytes) (off : Nat) (ho : off = p.length)
    (h : d₂.length = src.length) :
    copyAt (p ++ d₂) off src = some (p ++ src, src.length) := by
  subst ho
  have hn : min (p.length + d₂.length - p.length) src.length = src.length := by omega
  simp [copyAt, h]

theorem setAt_mid (p rest : Bytes) (x v : UInt8) (off : Nat) (ho : off = p.length) :
    setAt (p ++ x :: rest) off v = some (p ++ v :: rest) := by
  subst ho
  simp [setAt]

theorem putU16_mid (p rest : Bytes) (x y : UInt8) (v : UInt16) (off : Nat) (ho : off = p.length) :
    putU16 (p ++ x :: y :: rest) off v = some (p ++ hi8 v :: lo8 v :: rest) := by
  subst ho
  have h1 : p.length + 2 ≤ p.length + (rest.length + 1 + 1) := by omega
  simp [putU16, h1]

/-- ★ the function writes every octet of its buffer: whatever the recycled array held, the
    result is exactly `name ‖ 0 ‖ class ‖ type ‖ mark`, and it never panics. -/
theorem cacheKey_eq (dirty : Bytes) (q : Question) (mark : Bytes) :
    cacheKey dirty q mark = some (keyLayout q mark) := by
  obtain ⟨d₁, x0, x1, x2, x3, x4, d₂, hd, h1, h2⟩ :=
    split_buf (getBuf dirty (q.name.length + 1 + 4 + mark.length)) q.name.length mark.length
      (getBuf_length _ _)
  unfold cacheKey
  rw [hd]
  simp only [copyAt_front d₁ _ q.name h1, Option.bind_some, bind, pure]
  rw [setAt_mid q.name _ x0 0 _ rfl]
  simp only [Option.bind_some]
  have e1 : q.name ++ 0 :: x1 :: x2 :: x3 :: x4 :: d₂ = (q.name ++ [0]) ++ x1 :: x2 :: x3 :: x4 :: d₂ := by
    simp
  rw [e1, putU16_mid (q.name ++ [0]) _ x1 x2 q.cls _ (by simp)]
  simp only [Option.bind_some]
  have e2 : (q.name ++ [0]) ++ hi8 q.cls :: lo8 q.cls :: x3 :: x4 :: d₂
      = (q.name ++ [0, hi8 q.cls, lo8 q.cls]) ++ x3 :: x4 :: d₂ := by simp
  rw [e2, putU16_mid (q.name ++ [0, hi8 q.cls, lo8 q.cls]) _ x3 x4 q.typ _ (by simp)]
  simp only [Option.bind_some]
  have e3 : (q.name ++ [0, hi8 q.cls, lo8 q.cls]) ++ hi8 q.typ :: lo8 q.typ :: d₂
      = (q.name ++ [0, hi8 q.cls, lo8 q.cls, hi8 q.typ, lo8 q.typ]) ++ d₂ := by simp
  rw [e3, copyAt_back _ d₂ mark _ (by simp) h2]
  simp [keyLayout, be16]

/-! ### injectivity -/

theorem be16_inj {a b : UInt16} (h : be16 a = be16 b) : a = b := by
  simp only [be16, hi8, lo8, List.cons.injEq, and_true] at h
  obtain ⟨h1, h2⟩ := h
  have ha := a.toNat_lt
  have hb := b.toNat_lt
  have h1' := congrArg UInt8.toNat h1
  have h2' := congrArg UInt8.toNat h2
  simp only [UInt8.toNat_ofNat'] at h1' h2'
  apply UInt16.toNat_inj.mp
  omega

theorem be16_length (a : UInt16) : (be16 a).length = 2 := rfl

/-- a well-formed name followed by the zero octet parses uniquely: the terminator cannot be
    mistaken for a label length and no label length can be mistaken for the terminator. -/
theorem wf_prefix_inj {n₁ : Bytes} (h₁ : WfName n₁) :
    ∀ {n₂ r₁ r₂ : Bytes}, WfName n₂ → n₁ ++ 0 :: r₁ = n₂ ++ 0 :: r₂ → n₁ = n₂ ∧ r₁ = r₂ := by
  induction h₁ with
  | nil =>
    intro n₂ r₁ r₂ h₂ h
    cases h₂ with
    | nil => simpa using h
    | cons l lab rest hl _ _ =>
      simp only [List.nil_append, List.cons_append, List.cons.injEq] at h
      exact absurd h.1.symm hl
  | cons l lab rest hl hlen _ ih =>
    intro n₂ r₁ r₂ h₂ h
    cases h₂ with
    | nil =>
      simp only [List.nil_append, List.cons_append, List.cons.injEq] at h
      exact absurd h.1 hl
    | cons l' lab' rest' hl' hlen' hrest' =>
      simp only [List.cons_append, List.cons.injEq, List.append_assoc] at h
      obtain ⟨hll, h⟩ := h
      subst hll
      have hlens : lab.length = lab'.length := by rw [hlen, hlen']
      obtain ⟨e1, e2⟩ := List.append_inj h hlens
      obtain ⟨e3, e4⟩ := ih hrest' e2
      subst e1 e3
      exact ⟨rfl, e4⟩

theorem keyLayout_inj {q₁ q₂ : Question} {m₁ m₂ : Bytes} (h₁ : WfName q₁.name) (h₂ : WfName q₂.name)
    (h : keyLayout q₁ m₁ = keyLayout q₂ m₂) : q₁ = q₂ ∧ m₁ = m₂ := by
  obtain ⟨hn, hr⟩ := wf_prefix_inj h₁ h₂ h
  obtain ⟨hc, hr⟩ := List.append_inj hr (by simp [be16_length])
  obtain ⟨ht, hm⟩ := List.append_inj hr (by simp [be16_length])
  refine ⟨?_, hm⟩
  cases q₁; cases q₂
  simp only [Question.mk.injEq]
  exact ⟨hn, be16_inj hc, be16_inj ht⟩

/-! ### lower-casing -/

theorem WfName63.wf {n : Bytes} (h : WfName63 n) : WfName n := by
  induction h with
  | nil => exact .nil
  | cons l lab rest hl _ hlen _ ih => exact .cons l lab rest hl hlen ih

theorem lowerByte_small {l : UInt8} (h : l.toNat ≤ 63) : lowerByte l = l := by
  unfold lowerByte
  have : ¬ (65 ≤ l ∧ l ≤ 90) := by
    intro ⟨h1, _⟩
    have := UInt8.le_iff_toNat_le.mp h1
    simp at this
    omega
  simp [this]

theorem toNat_ne_zero {l : UInt8} (h : l ≠ 0) : l.toNat ≠ 0 := by
  intro h0
  apply h
  apply UInt8.toNat_inj.mp
  simpa using h0

/-- on a valid name `ToLowerName` lower-cases every octet (length octets are < 'A') -/
theorem lowerLabels_eq_map {n : Bytes} (h : WfName63 n) :
    ∀ fuel, n.length ≤ fuel → lowerLabels fuel n = n.map lowerByte := by
  induction h with
  | nil => intro fuel _; cases fuel <;> simp [lowerLabels]
  | cons l lab rest hl h63 hlen _ ih =>
    intro fuel hf
    cases fuel with
    | zero => simp at hf
    | succ f =>
      have h0 := toNat_ne_zero hl
      have hfit : ¬ (l.toNat = 0 ∨ l.toNat > 63 ∨ l.toNat > (lab ++ rest).length) := by
        simp only [List.length_append]; omega
      have hf' : rest.length ≤ f := by
        simp only [List.length_cons, List.length_append] at hf; omega
      rw [lowerLabels, if_neg hfit, List.take_left' hlen, List.drop_left' hlen, ih f hf']
      simp [lowerByte_small h63]

theorem toLowerName_eq_map {n : Bytes} (h : WfName63 n) (hl : n.length ≤ 254) :
    toLowerName n = n.map lowerByte := by
  have : ¬ n.length > 254 := by omega
  simp [toLowerName, this, lowerLabels_eq_map h n.length (Nat.le_refl _)]

theorem wf63_map_lower {n : Bytes} (h : WfName63 n) : WfName63 (n.map lowerByte) := by
  induction h with
  | nil => exact .nil
  | cons l lab rest hl h63 hlen _ ih =>
    simp only [List.map_cons, List.map_append, lowerByte_small h63]
    exact .cons l _ _ hl h63 (by simpa using hlen) ih

/-- lower-casing keeps a valid name valid (so the key's name part always parses) -/
theorem wf_toLowerName {n : Bytes} (h : WfName63 n) : WfName (toLowerName n) := by
  by_cases hl : n.length ≤ 254
  · rw [toLowerName_eq_map h hl]; exact (wf63_map_lower h).wf
  · have : n.length > 254 := by omega
    simp [toLowerName, this, h.wf]

/-- the executable validity check used by the driver is sound -/
theorem wfNameB_sound : ∀ (fuel : Nat) (n : Bytes), wfNameB fuel n = true → WfName63 n := by
  intro fuel
  induction fuel with
  | zero =>
    intro n h
    cases n with
    | nil => exact .nil
    | cons _ _ => simp [wfNameB] at h
  | succ f ih =>
    intro n h
    cases n with
    | nil => exact .nil
    | cons l rest =>
      simp only [wfNameB, Bool.and_eq_true, decide_eq_true_eq, ne_eq] at h
      obtain ⟨⟨⟨h0, h63⟩, hfit⟩, hrest⟩ := h
      have e : rest = rest.take l.toNat ++ rest.drop l.toNat := (List.take_append_drop _ _).symm
      rw [e]
      refine .cons l _ _ ?_ h63 ?_ (ih _ hrest)
      · intro hl; apply h0; simp [hl]
      · simp; omega

end MosVerif.CacheKey
