/-
  C13 — the blocking reader: `io.ReadFull` over any chunking sees only the concatenation;
  `handleConn` refines the reference stream parser.
-/
import MosVerif.Model.Framing
import MosVerif.Lemmas.GnetParse
namespace MosVerif.Framing
open MosVerif.Gnet

theorem readFull_zero (cs : Chunks) (acc : Bytes) : readFull cs 0 acc = .ok acc cs := by
  cases cs <;> rfl

/-- enough octets: `ReadFull` returns exactly the next `n` octets of the concatenation, whatever the chunking -/
theorem readFull_ok : ∀ (cs : Chunks) (n : Nat) (acc : Bytes), n ≤ cs.flatten.length →
    ∃ cs', readFull cs n acc = .ok (acc ++ cs.flatten.take n) cs' ∧ cs'.flatten = cs.flatten.drop n := by
  intro cs
  induction cs with
  | nil =>
    intro n acc h
    have : n = 0 := by simpa using h
    subst this
    exact ⟨[], by simp [readFull_zero], by simp⟩
  | cons c cs ih =>
    intro n acc h
    have hl : (c :: cs).flatten.length = c.length + cs.flatten.length := by
      rw [List.flatten_cons, List.length_append]
    rw [hl] at h
    cases n with
    | zero => exact ⟨c :: cs, by simp [readFull_zero], by simp⟩
    | succ n =>
      by_cases hc : c.length ≤ n + 1
      · have h' : n + 1 - c.length ≤ cs.flatten.length := by omega
        obtain ⟨cs', h1, h2⟩ := ih (n + 1 - c.length) (acc ++ c) h'
        refine ⟨cs', ?_, ?_⟩
        · simp only [readFull, if_pos hc, h1, List.flatten_cons]
          rw [List.take_append, List.take_of_length_le hc]
          simp
        · rw [h2, List.flatten_cons, List.drop_append, List.drop_of_length_le hc]
          simp
      · have hlt : n + 1 ≤ c.length := by omega
        refine ⟨c.drop (n + 1) :: cs, ?_, ?_⟩
        · simp only [readFull, if_neg hc, List.flatten_cons]
          rw [List.take_append_of_le_length hlt]
        · simp only [List.flatten_cons]
          rw [List.drop_append_of_le_length hlt]

/-- not enough octets before EOF -/
theorem readFull_short : ∀ (cs : Chunks) (n : Nat) (acc : Bytes), cs.flatten.length < n →
    readFull cs n acc =
      if (acc ++ cs.flatten).isEmpty then .eof else .unexpected (acc.length + cs.flatten.length) := by
  intro cs
  induction cs with
  | nil =>
    intro n acc h
    cases n with
    | zero => simp at h
    | succ n => simp [readFull]
  | cons c cs ih =>
    intro n acc h
    have hl : (c :: cs).flatten.length = c.length + cs.flatten.length := by
      rw [List.flatten_cons, List.length_append]
    rw [hl] at h
    cases n with
    | zero => omega
    | succ n =>
      have hc : c.length ≤ n + 1 := by omega
      have h' : cs.flatten.length < n + 1 - c.length := by
        generalize c.length = x at *
        generalize cs.flatten.length = y at *
        omega
      simp only [readFull, if_pos hc, ih _ _ h', List.flatten_cons]
      simp [Nat.add_assoc]

/-- the outcome of `handleConn`'s loop that the reference parser prescribes for the stream `S` -/
def endOf (dec : Bytes → Bool) (S : Bytes) : End :=
  if (parse S).1.all dec then .closed (parse S).2.length else .invalid

/-- ★ for every chunking of the byte stream, every completion schedule and every limiter behaviour
    the blocking reader decodes exactly the frames of the concatenation (up to the first that does
    not decode) and stops with the error `ReadMsgFromTCP` reports for the incomplete tail. -/
theorem handleConn_refines (dec : Bytes → Bool) (max : Nat) (done : Nat → Nat) (lim : Nat → Bool) :
    ∀ (fuel i : Nat) (cs : Chunks) (running : Nat), cs.flatten.length < fuel →
      (handleConn dec max done lim fuel i cs running).1.map Event.body =
          (parse cs.flatten).1.takeWhile dec ∧
      (handleConn dec max done lim fuel i cs running).2 = endOf dec cs.flatten := by
  intro fuel
  induction fuel with
  | zero => intro i cs r h; omega
  | succ fuel ih =>
    intro i cs running hlen
    match hS : cs.flatten with
    | [] =>
      have h1 := readFull_short cs 2 [] (by rw [hS]; simp)
      rw [hS] at h1
      simp [handleConn, readMsgFromTCP, h1, endOf, parse_short]
    | [x] =>
      have h1 := readFull_short cs 2 [] (by rw [hS]; simp)
      rw [hS] at h1
      simp [handleConn, readMsgFromTCP, h1, endOf, parse_short]
    | a :: b :: t =>
      obtain ⟨cs1, h1, h1f⟩ := readFull_ok cs 2 [] (by rw [hS]; simp)
      rw [hS] at h1 h1f
      simp only [List.nil_append, List.take_succ_cons, List.take_zero, List.drop_succ_cons, List.drop_zero] at h1 h1f
      by_cases hc : rd16 a b ≤ t.length
      · obtain ⟨cs2, h2, h2f⟩ := readFull_ok cs1 (rd16 a b) [] (by rw [h1f]; exact hc)
        rw [h1f] at h2 h2f
        simp only [List.nil_append] at h2
        have hp := parse_complete a b t hc
        by_cases hd : dec (t.take (rd16 a b)) = true
        · have hlen2 : cs2.flatten.length < fuel := by
            rw [h2f]; rw [hS] at hlen; simp at hlen ⊢; omega
          have hrm : readMsgFromTCP dec cs = .msg (t.take (rd16 a b)) cs2 := by
            simp [readMsgFromTCP, h1, h2, hd]
          by_cases hadm : running - done i + 1 > max || lim i
          · obtain ⟨g1, g2⟩ := ih (i + 1) cs2 (running - done i) hlen2
            rw [h2f] at g1 g2
            simp only [handleConn, hrm, hadm, if_true, List.map_cons, g1, g2, hp, endOf]
            simp [List.takeWhile_cons, hd, Event.body, g1]
          · obtain ⟨g1, g2⟩ := ih (i + 1) cs2 (running - done i + 1) hlen2
            rw [h2f] at g1 g2
            simp only [handleConn, hrm, hadm, List.map_cons, g1, g2, hp, endOf]
            simp [List.takeWhile_cons, hd, Event.body, g1]
        · have hd' : dec (t.take (rd16 a b)) = false := by simpa using hd
          have hrm : readMsgFromTCP dec cs = .invalid (2 + (t.take (rd16 a b)).length) := by
            simp [readMsgFromTCP, h1, h2, hd']
          simp [handleConn, hrm, hp, endOf, List.takeWhile_cons, hd']
      · have hlt : t.length < rd16 a b := by omega
        have h2 := readFull_short cs1 (rd16 a b) [] (by rw [h1f]; exact hlt)
        rw [h1f] at h2
        have hp := parse_incomplete a b t hlt
        cases t with
        | nil => simp [handleConn, readMsgFromTCP, h1, h2, hp, endOf]
        | cons y ys =>
          simp [handleConn, readMsgFromTCP, h1, h2, hp, endOf]; omega


/-- when no handler completes while the stream is read and the limiter allows everything, the admission
    decisions are those of the reference counter: the first `max - running` queries are accepted,
    every later one is REFUSED -/
theorem handleConn_nodone (dec : Bytes → Bool) (max : Nat) :
    ∀ (fuel i : Nat) (cs : Chunks) (running : Nat), cs.flatten.length < fuel →
      (handleConn dec max (fun _ => 0) (fun _ => false) fuel i cs running).1 =
          (admission max running ((parse cs.flatten).1.takeWhile dec)).1 := by
  intro fuel
  induction fuel with
  | zero => intro i cs r h; omega
  | succ fuel ih =>
    intro i cs running hlen
    match hS : cs.flatten with
    | [] =>
      have h1 := readFull_short cs 2 [] (by rw [hS]; simp)
      rw [hS] at h1
      simp [handleConn, readMsgFromTCP, h1, parse_short, admission]
    | [x] =>
      have h1 := readFull_short cs 2 [] (by rw [hS]; simp)
      rw [hS] at h1
      simp [handleConn, readMsgFromTCP, h1, parse_short, admission]
    | a :: b :: t =>
      obtain ⟨cs1, h1, h1f⟩ := readFull_ok cs 2 [] (by rw [hS]; simp)
      rw [hS] at h1 h1f
      simp only [List.nil_append, List.take_succ_cons, List.take_zero, List.drop_succ_cons, List.drop_zero] at h1 h1f
      by_cases hc : rd16 a b ≤ t.length
      · obtain ⟨cs2, h2, h2f⟩ := readFull_ok cs1 (rd16 a b) [] (by rw [h1f]; exact hc)
        rw [h1f] at h2 h2f
        simp only [List.nil_append] at h2
        have hp := parse_complete a b t hc
        by_cases hd : dec (t.take (rd16 a b)) = true
        · have hlen2 : cs2.flatten.length < fuel := by
            rw [h2f]; rw [hS] at hlen; simp at hlen ⊢; omega
          have hrm : readMsgFromTCP dec cs = .msg (t.take (rd16 a b)) cs2 := by
            simp [readMsgFromTCP, h1, h2, hd]
          by_cases hadm : running + 1 > max
          · have g1 := ih (i + 1) cs2 running hlen2
            rw [h2f] at g1
            simp [handleConn, hrm, hadm, g1, hp, List.takeWhile_cons, hd, admission]
          · have g1 := ih (i + 1) cs2 (running + 1) hlen2
            rw [h2f] at g1
            simp [handleConn, hrm, hadm, g1, hp, List.takeWhile_cons, hd, admission]
        · have hd' : dec (t.take (rd16 a b)) = false := by simpa using hd
          have hrm : readMsgFromTCP dec cs = .invalid (2 + (t.take (rd16 a b)).length) := by
            simp [readMsgFromTCP, h1, h2, hd']
          simp [handleConn, hrm, hp, List.takeWhile_cons, hd', admission]
      · have hlt : t.length < rd16 a b := by omega
        have h2 := readFull_short cs1 (rd16 a b) [] (by rw [h1f]; exact hlt)
        rw [h1f] at h2
        have hp := parse_incomplete a b t hlt
        cases t with
        | nil => simp [handleConn, readMsgFromTCP, h1, h2, hp, admission]
        | cons y ys => simp [handleConn, readMsgFromTCP, h1, h2, hp, admission]


/-- ping-pong schedule (the previous handler always finished, at most one was running): with a limit
    of at least one every decodable frame is handed to a handler, none is REFUSED -/
theorem handleConn_pingpong (dec : Bytes → Bool) (max : Nat) (hmax : 1 ≤ max) :
    ∀ (fuel i : Nat) (cs : Chunks) (running : Nat), running ≤ 1 → cs.flatten.length < fuel →
      (handleConn dec max (fun _ => 1) (fun _ => false) fuel i cs running).1 =
          ((parse cs.flatten).1.takeWhile dec).map Event.query := by
  intro fuel
  induction fuel with
  | zero => intro i cs r _ h; omega
  | succ fuel ih =>
    intro i cs running hrun hlen
    match hS : cs.flatten with
    | [] =>
      have h1 := readFull_short cs 2 [] (by rw [hS]; simp)
      rw [hS] at h1
      simp [handleConn, readMsgFromTCP, h1, parse_short]
    | [x] =>
      have h1 := readFull_short cs 2 [] (by rw [hS]; simp)
      rw [hS] at h1
      simp [handleConn, readMsgFromTCP, h1, parse_short]
    | a :: b :: t =>
      obtain ⟨cs1, h1, h1f⟩ := readFull_ok cs 2 [] (by rw [hS]; simp)
      rw [hS] at h1 h1f
      simp only [List.nil_append, List.take_succ_cons, List.take_zero, List.drop_succ_cons, List.drop_zero] at h1 h1f
      by_cases hc : rd16 a b ≤ t.length
      · obtain ⟨cs2, h2, h2f⟩ := readFull_ok cs1 (rd16 a b) [] (by rw [h1f]; exact hc)
        rw [h1f] at h2 h2f
        simp only [List.nil_append] at h2
        have hp := parse_complete a b t hc
        by_cases hd : dec (t.take (rd16 a b)) = true
        · have hlen2 : cs2.flatten.length < fuel := by
            rw [h2f]; rw [hS] at hlen; simp at hlen ⊢; omega
          have hrm : readMsgFromTCP dec cs = .msg (t.take (rd16 a b)) cs2 := by
            simp [readMsgFromTCP, h1, h2, hd]
          have hz : running - 1 = 0 := by omega
          have hadm : ¬ (0 + 1 > max) := by omega
          have g1 := ih (i + 1) cs2 (0 + 1) (by omega) hlen2
          rw [h2f] at g1
          simp [handleConn, hrm, hz, hadm, g1, hp, List.takeWhile_cons, hd]
        · have hd' : dec (t.take (rd16 a b)) = false := by simpa using hd
          have hrm : readMsgFromTCP dec cs = .invalid (2 + (t.take (rd16 a b)).length) := by
            simp [readMsgFromTCP, h1, h2, hd']
          simp [handleConn, hrm, hp, List.takeWhile_cons, hd']
      · have hlt : t.length < rd16 a b := by omega
        have h2 := readFull_short cs1 (rd16 a b) [] (by rw [h1f]; exact hlt)
        rw [h1f] at h2
        have hp := parse_incomplete a b t hlt
        cases t with
        | nil => simp [handleConn, readMsgFromTCP, h1, h2, hp]
        | cons y ys => simp [handleConn, readMsgFromTCP, h1, h2, hp]


theorem admissionS_refused (max : Nat) (done : Nat → Nat) (lim : Nat → Bool) (i running : Nat)
    (f : Bytes) (fs : List Bytes) (h : (running - done i + 1 > max || lim i) = true) :
    admissionS max done lim i running (f :: fs) =
      .refused f :: admissionS max done lim (i + 1) (running - done i) fs := by
  simp only [admissionS, h, if_true]

theorem admissionS_query (max : Nat) (done : Nat → Nat) (lim : Nat → Bool) (i running : Nat)
    (f : Bytes) (fs : List Bytes) (h : ¬ (running - done i + 1 > max || lim i) = true) :
    admissionS max done lim i running (f :: fs) =
      .query f :: admissionS max done lim (i + 1) (running - done i + 1) fs := by
  simp only [admissionS, h]
  simp

/-- ★ for every completion schedule and limiter behaviour the admission decisions of `handleConn` are
    those of the reference counter `admissionS` -/
theorem handleConn_sched (dec : Bytes → Bool) (max : Nat) (done : Nat → Nat) (lim : Nat → Bool) :
    ∀ (fuel i : Nat) (cs : Chunks) (running : Nat), cs.flatten.length < fuel →
      (handleConn dec max done lim fuel i cs running).1 =
          admissionS max done lim i running ((parse cs.flatten).1.takeWhile dec) := by
  intro fuel
  induction fuel with
  | zero => intro i cs r h; omega
  | succ fuel ih =>
    intro i cs running hlen
    match hS : cs.flatten with
    | [] =>
      have h1 := readFull_short cs 2 [] (by rw [hS]; simp)
      rw [hS] at h1
      simp [handleConn, readMsgFromTCP, h1, parse_short, admissionS]
    | [x] =>
      have h1 := readFull_short cs 2 [] (by rw [hS]; simp)
      rw [hS] at h1
      simp [handleConn, readMsgFromTCP, h1, parse_short, admissionS]
    | a :: b :: t =>
      obtain ⟨cs1, h1, h1f⟩ := readFull_ok cs 2 [] (by rw [hS]; simp)
      rw [hS] at h1 h1f
      simp only [List.nil_append, List.take_succ_cons, List.take_zero, List.drop_succ_cons, List.drop_zero] at h1 h1f
      by_cases hc : rd16 a b ≤ t.length
      · obtain ⟨cs2, h2, h2f⟩ := readFull_ok cs1 (rd16 a b) [] (by rw [h1f]; exact hc)
        rw [h1f] at h2 h2f
        simp only [List.nil_append] at h2
        have hp := parse_complete a b t hc
        by_cases hd : dec (t.take (rd16 a b)) = true
        · have hlen2 : cs2.flatten.length < fuel := by
            rw [h2f]; rw [hS] at hlen; simp at hlen ⊢; omega
          have hrm : readMsgFromTCP dec cs = .msg (t.take (rd16 a b)) cs2 := by
            simp [readMsgFromTCP, h1, h2, hd]
          by_cases hadm : (running - done i + 1 > max || lim i) = true
          · have g1 := ih (i + 1) cs2 (running - done i) hlen2
            rw [h2f] at g1
            simp only [handleConn, hrm, hadm, if_true, g1, hp, List.takeWhile_cons, hd]
            rw [admissionS_refused _ _ _ _ _ _ _ hadm]
          · have g1 := ih (i + 1) cs2 (running - done i + 1) hlen2
            rw [h2f] at g1
            simp only [handleConn, hrm, hadm, g1, hp, List.takeWhile_cons, hd, if_true, Bool.false_eq_true,
              if_false]
            rw [admissionS_query _ _ _ _ _ _ _ hadm]
        · have hd' : dec (t.take (rd16 a b)) = false := by simpa using hd
          have hrm : readMsgFromTCP dec cs = .invalid (2 + (t.take (rd16 a b)).length) := by
            simp [readMsgFromTCP, h1, h2, hd']
          simp [handleConn, hrm, hp, List.takeWhile_cons, hd', admissionS]
      · have hlt : t.length < rd16 a b := by omega
        have h2 := readFull_short cs1 (rd16 a b) [] (by rw [h1f]; exact hlt)
        rw [h1f] at h2
        have hp := parse_incomplete a b t hlt
        cases t with
        | nil => simp [handleConn, readMsgFromTCP, h1, h2, hp, admissionS]
        | cons y ys => simp [handleConn, readMsgFromTCP, h1, h2, hp, admissionS]


/-! ### idle deadline -/

theorem idleLoop_paced (idle : Nat) (lag : Nat → Nat) : ∀ (arr : List Nat) (j prev now : Nat),
    prev ≤ now → paced idle prev arr → idleLoop idle lag j now arr = arr.length := by
  intro arr
  induction arr with
  | nil => intro j prev now _ _; rfl
  | cons a as ih =>
    intro j prev now hle hp
    obtain ⟨h1, h2⟩ := hp
    have hna : ¬ a > now + idle := by omega
    have hmax : a ≤ Nat.max now a + lag j := by
      have : a ≤ Nat.max now a := Nat.le_max_right now a
      omega
    simp only [idleLoop, hna, if_false, List.length_cons]
    rw [ih (j + 1) a _ hmax h2]; omega

theorem gnetIdle_gaps (idle : Nat) : ∀ (ts : List Nat) (prev last : Nat),
    prev ≤ last → gapsBelow idle prev ts → gnetIdle idle last ts = ts.length := by
  intro ts
  induction ts with
  | nil => intro prev last _ _; rfl
  | cons t ts ih =>
    intro prev last hle hp
    obtain ⟨h1, h2⟩ := hp
    have hn : ¬ t ≥ last + idle := by omega
    simp only [gnetIdle, hn, if_false, List.length_cons]
    rw [ih t _ (Nat.le_max_right last t) h2]; omega


theorem fuelFor_pos (now : Nat) (arr : List Nat) : 1 ≤ fuelFor now arr := by
  cases arr <;> simp [fuelFor] <;> omega

theorem fuelFor_le_zero (now : Nat) (arr : List Nat) : fuelFor now arr ≤ fuelFor 0 arr := by
  cases arr with
  | nil => simp [fuelFor]
  | cons a as => simp only [fuelFor]; omega

theorem idleLoopB_pacedB (idle : Nat) (hidle : 1 ≤ idle) (busy : Nat → Bool) (lag : Nat → Nat) :
    ∀ (fuel : Nat) (arr : List Nat) (j prev now : Nat),
      prev ≤ now → pacedB idle busy prev arr → fuelFor now arr ≤ fuel →
      idleLoopB idle busy lag fuel j now (arr.map (fun a => (a, a))) = arr.length := by
  intro fuel
  induction fuel with
  | zero =>
    intro arr j prev now _ _ hf
    have := fuelFor_pos now arr; omega
  | succ fuel ih =>
    intro arr j prev now hle hp hf
    cases arr with
    | nil => simp [idleLoopB]
    | cons a as =>
      obtain ⟨h1, h2⟩ := hp
      simp only [fuelFor] at hf
      by_cases ha : a ≤ now + idle
      · have hmax : a ≤ Nat.max now a + lag j := by
          have : a ≤ Nat.max now a := Nat.le_max_right now a
          omega
        have hf2 : fuelFor (Nat.max now a + lag j) as ≤ fuel := by
          have := fuelFor_le_zero (Nat.max now a + lag j) as; omega
        simp only [List.map_cons, idleLoopB, ha, if_true, List.length_cons]
        rw [ih as (j + 1) a _ hmax h2 hf2]; omega
      · have hgt : a > now + idle := by omega
        have hb : busy (now + idle) = true := by
          rcases h1 with h1 | h1
          · omega
          · exact h1 (now + idle) (by omega) hgt
        have hf2 : fuelFor (now + idle) (a :: as) ≤ fuel := by
          simp only [fuelFor]; omega
        have hcont : (decide (a > now + idle) && busy (now + idle)) = true := by simp [hgt, hb]
        simp only [List.map_cons, idleLoopB, ha, if_false, hcont, if_true]
        have := ih (a :: as) j prev (now + idle) (by omega) ⟨h1, h2⟩ hf2
        simpa using this

/-- a message of which some octets have arrived when the deadline passes is NOT waited for any longer,
    queries in flight or not (`n > 0`) -/
theorem idleLoopB_partial (idle : Nat) (busy : Nat → Bool) (lag : Nat → Nat) (fuel j now p a : Nat)
    (as : List (Nat × Nat)) (hp : p ≤ now + idle) (ha : now + idle < a) :
    idleLoopB idle busy lag (fuel + 1) j now ((p, a) :: as) = 0 := by
  have h1 : ¬ a ≤ now + idle := by omega
  have h2 : ¬ p > now + idle := by omega
  simp [idleLoopB, h1, h2]

theorem gnetIdleB_gaps (idle : Nat) (hidle : 1 ≤ idle) (busy : Nat → Bool) :
    ∀ (fuel : Nat) (ts : List Nat) (prev last : Nat),
      prev ≤ last → gapsBelowB idle busy prev ts → fuelFor last ts ≤ fuel →
      gnetIdleB idle busy fuel last ts = ts.length := by
  intro fuel
  induction fuel with
  | zero =>
    intro ts prev last _ _ hf
    have := fuelFor_pos last ts; omega
  | succ fuel ih =>
    intro ts prev last hle hp hf
    cases ts with
    | nil => simp [gnetIdleB]
    | cons t ts =>
      obtain ⟨h1, h2⟩ := hp
      simp only [fuelFor] at hf
      by_cases ht : t < last + idle
      · have hf2 : fuelFor (Nat.max last t) ts ≤ fuel := by
          have := fuelFor_le_zero (Nat.max last t) ts; omega
        simp only [gnetIdleB, ht, if_true, List.length_cons]
        rw [ih ts t _ (Nat.le_max_right last t) h2 hf2]; omega
      · have hb : busy (last + idle) = true := by
          rcases h1 with h1 | h1
          · omega
          · exact h1 (last + idle) (by omega) (by omega)
        have hf2 : fuelFor (last + idle) (t :: ts) ≤ fuel := by
          simp only [fuelFor]; omega
        simp only [gnetIdleB, ht, if_false, hb, if_true]
        exact ih (t :: ts) prev (last + idle) (by omega) ⟨h1, h2⟩ hf2

end MosVerif.Framing
