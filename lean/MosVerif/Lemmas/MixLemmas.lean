/-
  C11 — the model of `MixMatcher` / the loader refines the declarative
  specification of `Model/DomainSet.lean`.
-/
import MosVerif.Model.DomainSet
import MosVerif.Lemmas.TextLemmas
import MosVerif.Lemmas.TrieLemmas
import MosVerif.Lemmas.ReadableLemmas
namespace MosVerif.DomainSet
open MosVerif.Text MosVerif.Trie

/-! ### `bytes.IndexByte` against the declarative splitting -/

theorem splitDots_of_index_none (s : Bytes) (h : indexByte 46 s = none) : splitDots s = [s] := by
  induction s with
  | nil => rfl
  | cons x xs ih =>
    by_cases hx : x = 46
    · simp [indexByte, hx] at h
    · simp only [indexByte, hx, ↓reduceIte, Option.map_eq_none_iff] at h
      simp [splitDots, hx, ih h]

theorem splitDots_of_index_some (s : Bytes) (i : Nat) (h : indexByte 46 s = some i) :
    splitDots s = s.take i :: splitDots (s.drop (i + 1)) ∧ i < s.length := by
  induction s generalizing i with
  | nil => simp [indexByte] at h
  | cons x xs ih =>
    by_cases hx : x = 46
    · simp only [indexByte, hx, ↓reduceIte, Option.some.injEq] at h
      subst h
      simp [splitDots, hx]
    · simp only [indexByte, hx, ↓reduceIte, Option.map_eq_some_iff] at h
      obtain ⟨j, hj, rfl⟩ := h
      obtain ⟨h1, h2⟩ := ih j hj
      simp [splitDots, hx, h1, h2]

theorem nameOctets_eq_wireLen (ls : List Label) : nameOctets ls = wireLen ls := by
  induction ls with
  | nil => rfl
  | cons l ls ih =>
    simp only [nameOctets, List.map_cons, List.sum_cons, wireLen] at ih ⊢
    omega

theorem goodLabels_of_all (ls : List Label) (h : ls.all goodLabel = true) : GoodLabels ls := by
  intro l hl
  have := List.all_eq_true.mp h l hl
  simpa [goodLabel] using this

/-! ### `ParseReadable` on a dotted text whose pieces are labels -/

theorem parseLoop_nil (fuel : Nat) (b : Builder) : parseLoop fuel [] b = some b := by
  cases fuel <;> simp [parseLoop]

theorem appendLabel_good (b : Builder) (s : Bytes) (h1 : 1 ≤ s.length) (h63 : s.length ≤ 63)
    (hw : b.data.length + 1 + s.length ≤ 253) :
    b.appendLabel s = some ⟨b.data ++ UInt8.ofNat s.length :: s⟩ := by
  have e0 : (s.length == 0) = false := by rw [beq_eq_false_iff_ne]; omega
  have e1 : ¬ s.length > 63 := by omega
  have e2 : ¬ b.data.length + 1 + s.length > 253 := by omega
  simp [Builder.appendLabel, labelMax, builderMax, e0, e1, e2]

theorem parseLoop_good (fuel : Nat) (rest : Bytes) (b : Builder) (hf : rest.length ≤ fuel)
    (hg : GoodLabels (splitDots rest)) (hw : b.data.length + wireLen (splitDots rest) ≤ 253) :
    parseLoop fuel rest b = some ⟨b.data ++ encode (splitDots rest)⟩ := by
  induction fuel generalizing rest b with
  | zero =>
    have : rest = [] := List.eq_nil_of_length_eq_zero (by omega)
    subst this
    have := hg [] (by simp [splitDots])
    simp at this
  | succ f ih =>
    have hne : rest.isEmpty = false := by
      cases rest with
      | nil =>
        have := hg [] (by simp [splitDots])
        simp at this
      | cons _ _ => rfl
    simp only [parseLoop, hne, Bool.false_eq_true, ↓reduceIte]
    cases hi : indexByte 46 rest with
    | none =>
      have hs := splitDots_of_index_none rest hi
      rw [hs] at hg hw ⊢
      have ⟨h1, h63⟩ := hg rest (by simp)
      simp only [wireLen] at hw
      rw [appendLabel_good b rest h1 h63 (by omega)]
      have hd : rest.drop (rest.length + 1) = [] := List.drop_eq_nil_of_le (by omega)
      simp [hd, parseLoop_nil, encode]
    | some i =>
      obtain ⟨hs, hlt⟩ := splitDots_of_index_some rest i hi
      cases i with
      | zero =>
        rw [hs] at hg
        have := hg [] (by simp)
        simp at this
      | succ i =>
        rw [hs] at hg hw ⊢
        have ⟨h1, h63⟩ := hg (rest.take (i + 1)) (by simp)
        have hlen : (rest.take (i + 1)).length = i + 1 := by simp; omega
        simp only [wireLen] at hw
        simp only []
        rw [appendLabel_good b _ h1 h63 (by omega)]
        simp only [hlen]
        rw [ih (rest.drop (i + 1 + 1)) _ (by simp; omega) (fun x hx => hg x (by simp [hx]))
          (by simp only [List.length_append, List.length_cons, hlen]; omega)]
        simp [encode, hlen]

/-- `ParseReadable` followed by `ToLowerName` and a scan, on a well-formed entry name:
    exactly the lower-cased labels the specification reads. -/
theorem parseReadable_spec (x : Bytes) (ls : List Label) (h : specName x = some ls) :
    ∃ b, parseReadable x = some b ∧ toLowerName b.data = encode ls ∧ GoodLabels ls ∧
      wireLen ls ≤ 253 := by
  unfold specName at h
  unfold parseReadable dropTrailingDot
  generalize (if x.getLast? = some 46 then x.dropLast else x) = y at h ⊢
  by_cases hy : y = []
  · subst hy
    simp at h; subst h
    exact ⟨{}, by simp, by decide, fun _ hx => by simp at hx, by decide⟩
  · simp only [hy, ↓reduceIte, Bool.and_eq_true, decide_eq_true_eq] at h
    split at h
    · rename_i hc
      simp only [Option.some.injEq] at h
      subst h
      have hg := goodLabels_of_all _ hc.1
      have hw : wireLen (splitDots y) ≤ 253 := by rw [← nameOctets_eq_wireLen]; exact hc.2
      have hl : (y.length == 0) = false := by simp [hy]
      refine ⟨⟨encode (splitDots y)⟩, ?_, ?_, goodLabels_lower _ hg, by rw [wireLen_lower]; exact hw⟩
      · simp only [hl, Bool.false_eq_true, ↓reduceIte]
        rw [parseLoop_good y.length y {} (Nat.le_refl _) hg (by simpa using hw)]
        simp
      · exact toLowerName_encode _ hg (by omega)
    · simp at h

/-! ### the three sub-matchers on a well-formed query name -/

theorem wf_of_good (ls : List Label) (hg : GoodLabels ls) : WF ls := by
  intro l hl h
  have := (hg l hl).1
  simp [h] at this

theorem dm_match_encode (m : DM) (q : List Label) (hg : GoodLabels q) (hw : wireLen q ≤ 254) :
    m.match (encode q) = m.matchLabels q := by
  unfold DM.match DM.matchLabels
  rw [scan_encode q hg hw]
  cases m.rootMatched <;> simp

theorem dm_add_match (m : DM) (ls q : List Label) (hls : GoodLabels ls) (hg : GoodLabels q)
    (hw : wireLen q ≤ 254) :
    (m.add ls).match (encode q) = (m.match (encode q) || ls.isSuffixOf q) := by
  rw [dm_match_encode _ q hg hw, dm_match_encode _ q hg hw, Bool.eq_iff_iff,
    matchLabels_add m ls (wf_of_good ls hls) q, Bool.or_eq_true, List.isSuffixOf_iff_suffix]

theorem fullMatch_fullAdd (m : List Bytes) (n w : Bytes) :
    fullMatch (fullAdd m n) w = (fullMatch m w || w == n) := by
  unfold fullMatch fullAdd
  by_cases h : n ∈ m
  · have hc : m.contains n = true := List.contains_iff_mem.mpr h
    simp only [hc, ↓reduceIte]
    by_cases hw : w = n
    · subst hw; simp [h]
    · simp [hw]
  · have hc : m.contains n = false := by
      rw [← Bool.not_eq_true, List.contains_iff_mem]; exact h
    simp only [hc, Bool.false_eq_true, ↓reduceIte, List.contains_cons]
    rw [Bool.or_comm]

theorem regexpMatch_eq (re : Re) (m : List Bytes) (q : List Label) (hg : GoodLabels q)
    (hw : wireLen q ≤ 254) :
    regexpMatch re m (encode q) = m.any (fun r => re.isMatch r (specText q)) := by
  unfold regexpMatch
  rw [toReadable_encode q hg hw]
  cases m <;> simp

theorem regexpAdd_spec (re : Re) (m : List Bytes) (p : Bytes) (hc : re.compiles p = true) :
    ∃ m', regexpAdd re m p = some m' ∧
      ∀ t, m'.any (fun r => re.isMatch r t) = (m.any (fun r => re.isMatch r t) || re.isMatch p t) := by
  unfold regexpAdd
  by_cases h : p ∈ m
  · have hc' : m.contains p = true := List.contains_iff_mem.mpr h
    refine ⟨m, by simp only [hc', ↓reduceIte], fun t => ?_⟩
    by_cases ht : re.isMatch p t = true
    · have : m.any (fun r => re.isMatch r t) = true :=
        List.any_eq_true.mpr ⟨p, h, ht⟩
      simp [this]
    · simp [ht]
  · have hc' : m.contains p = false := by
      rw [← Bool.not_eq_true, List.contains_iff_mem]; exact h
    refine ⟨p :: m, by simp only [hc', hc, Bool.false_eq_true, ↓reduceIte], fun t => ?_⟩
    simp [Bool.or_comm]

/-! ### `MixMatcher.Add` on the rule shapes of the specification -/

theorem indexByte_of_not_contains (c : UInt8) (s : Bytes) (h : s.contains c = false) :
    indexByte c s = none := by
  induction s with
  | nil => rfl
  | cons x xs ih =>
    simp only [List.contains_cons, Bool.or_eq_false_iff, beq_eq_false_iff_ne, ne_eq] at h
    have hx : ¬ x = c := fun e => h.1 e.symm
    simp [indexByte, hx, ih h.2]

theorem add_full (re : Re) (m : Mix) (t : Bytes) :
    m.add re (pfxFull ++ t) = (match parseReadable t with
      | none => none
      | some b => some { m with full := fullAdd m.full (toLowerName b.data) }) := by
  simp [Mix.add, pfxFull, indexByte, typDomain, typFull]
  rfl

theorem add_domain (re : Re) (m : Mix) (t : Bytes) :
    m.add re (pfxDomain ++ t) = (match parseReadable t with
      | none => none
      | some b => match scan (toLowerName b.data) with
        | none => some m
        | some labels => some { m with domain := m.domain.add labels }) := by
  simp [Mix.add, pfxDomain, indexByte, typDomain]
  rfl

theorem add_regexp (re : Re) (m : Mix) (t : Bytes) :
    m.add re (pfxRegexp ++ t) = (match regexpAdd re m.regexp t with
      | none => none
      | some r => some { m with regexp := r }) := by
  simp [Mix.add, pfxRegexp, indexByte, typDomain, typFull, typRegexp]
  rfl

theorem add_bare (re : Re) (m : Mix) (t : Bytes) (h : t.contains 58 = false) :
    m.add re t = (match parseReadable t with
      | none => none
      | some b => match scan (toLowerName b.data) with
        | none => some m
        | some labels => some { m with domain := m.domain.add labels }) := by
  simp [Mix.add, indexByte_of_not_contains 58 t h]
  rfl

/-- what a matcher means on well-formed names: the declarative match over `es`. -/
def Sem (re : Re) (m : Mix) (es : List Entry) : Prop :=
  ∀ q, GoodLabels q → wireLen q ≤ 254 → m.match re (encode q) = specMatch re es q

theorem sem_empty (re : Re) : Sem re {} [] := by
  intro q hg hw
  simp [Mix.match, fullMatch, dm_match_encode _ q hg hw, DM.matchLabels, matchWalk_empty,
    regexpMatch, specMatch]

theorem sem_domain_step (re : Re) (m : Mix) (es : List Entry) (x : Bytes) (ls : List Label)
    (hs : Sem re m es) (hx : specName x = some ls) :
    ∃ m', (match parseReadable x with
      | none => none
      | some b => match scan (toLowerName b.data) with
        | none => some m
        | some labels => some { m with domain := m.domain.add labels }) = some m' ∧
      Sem re m' (es ++ [.domain ls]) := by
  obtain ⟨b, hp, hl, hg, hw⟩ := parseReadable_spec x ls hx
  refine ⟨{ m with domain := m.domain.add ls }, ?_, ?_⟩
  · simp [hp, hl, scan_encode ls hg (by omega)]
  · intro q hgq hwq
    have := hs q hgq hwq
    simp only [Mix.match, specMatch, List.any_append, List.any_cons, List.any_nil, Bool.or_false,
      entryMatches] at this ⊢
    rw [dm_add_match m.domain ls q hg hgq hwq, ← this]
    cases fullMatch m.full (encode q) <;> cases m.domain.match (encode q) <;>
      cases regexpMatch re m.regexp (encode q) <;> cases ls.isSuffixOf q <;> rfl

theorem sem_full_step (re : Re) (m : Mix) (es : List Entry) (x : Bytes) (ls : List Label)
    (hs : Sem re m es) (hx : specName x = some ls) :
    ∃ m', (match parseReadable x with
      | none => none
      | some b => some { m with full := fullAdd m.full (toLowerName b.data) }) = some m' ∧
      Sem re m' (es ++ [.full ls]) := by
  obtain ⟨b, hp, hl, hg, hw⟩ := parseReadable_spec x ls hx
  refine ⟨{ m with full := fullAdd m.full (encode ls) }, ?_, ?_⟩
  · simp [hp, hl]
  · intro q hgq hwq
    have := hs q hgq hwq
    simp only [Mix.match, specMatch, List.any_append, List.any_cons, List.any_nil, Bool.or_false,
      entryMatches] at this ⊢
    rw [fullMatch_fullAdd, ← this]
    have he : (encode q == encode ls) = (ls == q) := by
      rw [Bool.eq_iff_iff]
      simp only [beq_iff_eq]
      constructor
      · intro h; exact (encode_injective q ls hgq hg h).symm
      · intro h; rw [h]
    rw [he]
    cases fullMatch m.full (encode q) <;> cases m.domain.match (encode q) <;>
      cases regexpMatch re m.regexp (encode q) <;> cases (ls == q) <;> rfl

theorem sem_regexp_step (re : Re) (m : Mix) (es : List Entry) (p : Bytes)
    (hs : Sem re m es) (hc : re.compiles p = true) :
    ∃ m', (match regexpAdd re m.regexp p with
      | none => none
      | some r => some { m with regexp := r }) = some m' ∧
      Sem re m' (es ++ [.regexp p]) := by
  obtain ⟨r, hr, hany⟩ := regexpAdd_spec re m.regexp p hc
  refine ⟨{ m with regexp := r }, by simp [hr], ?_⟩
  intro q hgq hwq
  have := hs q hgq hwq
  simp only [Mix.match, specMatch, List.any_append, List.any_cons, List.any_nil, Bool.or_false,
    entryMatches] at this ⊢
  rw [regexpMatch_eq re r q hgq hwq, hany, ← this, regexpMatch_eq re m.regexp q hgq hwq]
  simp [Bool.or_assoc]

/-- one well-formed rule: `Add` succeeds and the matcher means one entry more. -/
theorem add_sem (re : Re) (m : Mix) (es : List Entry) (rule : Bytes) (e : Entry)
    (hs : Sem re m es) (hr : specRule re rule = some e) :
    ∃ m', m.add re rule = some m' ∧ Sem re m' (es ++ [e]) := by
  unfold specRule at hr
  split at hr
  · rename_i hp
    obtain ⟨t, rfl⟩ := List.isPrefixOf_iff_prefix.mp hp
    simp only [List.drop_left', Option.map_eq_some_iff] at hr
    obtain ⟨ls, hx, rfl⟩ := hr
    rw [add_full]
    exact sem_full_step re m es t ls hs hx
  · split at hr
    · rename_i hp
      obtain ⟨t, rfl⟩ := List.isPrefixOf_iff_prefix.mp hp
      simp only [List.drop_left', Option.map_eq_some_iff] at hr
      obtain ⟨ls, hx, rfl⟩ := hr
      rw [add_domain]
      exact sem_domain_step re m es t ls hs hx
    · split at hr
      · rename_i hp
        obtain ⟨t, rfl⟩ := List.isPrefixOf_iff_prefix.mp hp
        simp only [List.drop_left'] at hr
        split at hr
        · rename_i hc
          simp only [Option.some.injEq] at hr
          subst hr
          rw [add_regexp]
          exact sem_regexp_step re m es t hs hc
        · simp at hr
      · split at hr
        · simp at hr
        · rename_i hc
          simp only [Option.map_eq_some_iff] at hr
          obtain ⟨ls, hx, rfl⟩ := hr
          rw [add_bare re m rule (by simpa using hc)]
          exact sem_domain_step re m es rule ls hs hx

/-! ### files, groups, cases -/

theorem takeWhile_eq_stripComment (line : Bytes) :
    line.takeWhile (· ≠ 35) = stripComment line := by
  unfold stripComment
  induction line with
  | nil => rfl
  | cons x xs ih =>
    by_cases hx : x = 35
    · simp [indexByte, hx]
    · simp only [List.takeWhile_cons, ne_eq, hx, not_false_eq_true, decide_true, ↓reduceIte,
        indexByte]
      rw [ih]
      cases indexByte 35 xs <;> simp

theorem specLine_ignored (re : Re) (line : Bytes) (h : specLine re line = .ignored) :
    loaderLine line = none := by
  unfold specLine at h
  unfold loaderLine
  rw [takeWhile_eq_stripComment] at h
  by_cases hb : trimSpace (stripComment line) = []
  · simp [hb]
  · simp only [hb, ↓reduceIte] at h
    split at h <;> simp at h

theorem specLine_entry (re : Re) (line : Bytes) (e : Entry) (h : specLine re line = .entry e) :
    ∃ b, loaderLine line = some b ∧ specRule re b = some e := by
  unfold specLine at h
  unfold loaderLine
  rw [takeWhile_eq_stripComment] at h
  by_cases hb : trimSpace (stripComment line) = []
  · simp [hb] at h
  · simp only [hb, ↓reduceIte] at h
    refine ⟨trimSpace (stripComment line), by simp [hb], ?_⟩
    split at h
    · rename_i e' he
      simp only [LineKind.entry.injEq] at h
      rw [he, h]
    · simp at h

theorem specGroupEntries_load_cons (re : Re) (line : Bytes) (rest : List Bytes) :
    specGroupEntries re (.load (line :: rest)) =
      (match specLine re line, specGroupEntries re (.load rest) with
      | .ignored, some es => some es
      | .entry e, some es => some (e :: es)
      | _, _ => none) := rfl

theorem specGroupEntries_adds_cons (re : Re) (r : Bytes) (rest : List Bytes) :
    specGroupEntries re (.adds (r :: rest)) =
      (match specRule re r, specGroupEntries re (.adds rest) with
      | some e, some es => some (e :: es)
      | _, _ => none) := rfl

theorem loadLines_sem (re : Re) (lines : List Bytes) (el : List Entry)
    (h : specGroupEntries re (.load lines) = some el) (m : Mix) (es : List Entry)
    (hs : Sem re m es) :
    ∃ m', loadLines re m lines = (m', true) ∧ Sem re m' (es ++ el) := by
  induction lines generalizing m es el with
  | nil =>
    simp only [specGroupEntries, List.foldr_nil, Option.some.injEq] at h
    subst h
    exact ⟨m, rfl, by simpa using hs⟩
  | cons line rest ih =>
    rw [specGroupEntries_load_cons] at h
    cases hl : specLine re line with
    | ignored =>
      cases hr : specGroupEntries re (.load rest) with
      | none => simp [hl, hr] at h
      | some er =>
        simp only [hl, hr, Option.some.injEq] at h
        subst h
        simp only [loadLines, specLine_ignored re line hl]
        exact ih er hr m es hs
    | bad => simp [hl] at h
    | entry e =>
      cases hr : specGroupEntries re (.load rest) with
      | none => simp [hl, hr] at h
      | some er =>
        simp only [hl, hr, Option.some.injEq] at h
        subst h
        obtain ⟨b, hb, hrule⟩ := specLine_entry re line e hl
        obtain ⟨m1, hadd, hs1⟩ := add_sem re m es b e hs hrule
        simp only [loadLines, hb, hadd]
        obtain ⟨m', hm', hs'⟩ := ih er hr m1 (es ++ [e]) hs1
        exact ⟨m', hm', by simpa using hs'⟩

theorem runAdds_sem (re : Re) (rules : List Bytes) (el : List Entry)
    (h : specGroupEntries re (.adds rules) = some el) (m : Mix) (es : List Entry)
    (hs : Sem re m es) :
    ∃ m', runAdds re m rules = (m', rules.map (fun _ => true)) ∧ Sem re m' (es ++ el) := by
  induction rules generalizing m es el with
  | nil =>
    simp only [specGroupEntries, List.foldr_nil, Option.some.injEq] at h
    subst h
    exact ⟨m, rfl, by simpa using hs⟩
  | cons r rest ih =>
    rw [specGroupEntries_adds_cons] at h
    cases hl : specRule re r with
    | none => simp [hl] at h
    | some e =>
      cases hr : specGroupEntries re (.adds rest) with
      | none => simp [hl, hr] at h
      | some er =>
        simp only [hl, hr, Option.some.injEq] at h
        subst h
        obtain ⟨m1, hadd, hs1⟩ := add_sem re m es r e hs hl
        obtain ⟨m', hm', hs'⟩ := ih er hr m1 (es ++ [e]) hs1
        refine ⟨m', ?_, by simpa using hs'⟩
        simp [runAdds, hadd, hm']

theorem runGroups_sem (re : Re) (gs : List Group) (el : List Entry)
    (h : specEntries re gs = some el) (m : Mix) (es : List Entry) (hs : Sem re m es) :
    ∃ m', runGroups re m gs = (m', gs.map allLoaded) ∧ Sem re m' (es ++ el) := by
  induction gs generalizing m es el with
  | nil =>
    simp only [specEntries, Option.some.injEq] at h
    subst h
    exact ⟨m, rfl, by simpa using hs⟩
  | cons g rest ih =>
    simp only [specEntries] at h
    cases hg : specGroupEntries re g with
    | none => simp [hg] at h
    | some eg =>
      cases hr : specEntries re rest with
      | none => simp [hg, hr] at h
      | some er =>
        simp only [hg, hr, Option.some.injEq] at h
        subst h
        cases g with
        | load lines =>
          obtain ⟨m1, h1, hs1⟩ := loadLines_sem re lines eg hg m es hs
          obtain ⟨m', hm', hs'⟩ := ih er hr m1 (es ++ eg) hs1
          refine ⟨m', ?_, by simpa using hs'⟩
          simp [runGroups, h1, hm', allLoaded]
        | adds rules =>
          obtain ⟨m1, h1, hs1⟩ := runAdds_sem re rules eg hg m es hs
          obtain ⟨m', hm', hs'⟩ := ih er hr m1 (es ++ eg) hs1
          refine ⟨m', ?_, by simpa using hs'⟩
          simp [runGroups, h1, hm', allLoaded]

theorem goodName_good (ls : List Label) (h : goodName ls = true) :
    GoodLabels ls ∧ wireLen ls ≤ 254 := by
  simp only [goodName, Bool.and_eq_true, decide_eq_true_eq] at h
  exact ⟨goodLabels_of_all ls h.1, by rw [← nameOctets_eq_wireLen]; exact h.2⟩

theorem specQueries_sem (re : Re) (m : Mix) (es : List Entry) (hs : Sem re m es)
    (qs : List Query) :
    specQueries re es qs (qs.map (fun q => m.match re q.toWire)) = true := by
  induction qs with
  | nil => rfl
  | cons q rest ih =>
    simp only [List.map_cons, specQueries, ih, Bool.and_true]
    cases q with
    | wire n => rfl
    | labels ls =>
      simp only [specQuery, Query.toWire]
      split
      · rename_i hc
        simp only [Bool.and_eq_true] at hc
        obtain ⟨hg, hw⟩ := goodName_good ls hc.1
        simp [hs ls hg hw]
      · rfl

/-! ### the builder's data always scans (the `none` branch of the model's `Mix.add` is dead) -/

theorem encode_append (a b : List Label) : encode (a ++ b) = encode a ++ encode b := by
  induction a with
  | nil => rfl
  | cons l ls ih => simp [encode, ih]

/-- `buf[:l]` is the wire form of labels of 1..63 octets, at most 253 octets. -/
def BuilderInv (b : Builder) : Prop :=
  (∃ ls, b.data = encode ls ∧ GoodLabels ls) ∧ b.data.length ≤ 253

theorem appendLabel_inv (b b' : Builder) (s : Bytes) (hb : BuilderInv b)
    (h : b.appendLabel s = some b') : BuilderInv b' := by
  unfold Builder.appendLabel at h
  simp only [labelMax, builderMax] at h
  by_cases h0 : s.length = 0
  · simp [h0] at h
  · by_cases h63 : s.length > 63
    · simp [h0, h63] at h
    · by_cases hw : b.data.length + 1 + s.length > 253
      · simp [h0, h63, hw] at h
      · simp only [beq_iff_eq, h0, h63, hw, ↓reduceIte, Option.some.injEq] at h
        subst h
        obtain ⟨⟨ls, hd, hg⟩, _⟩ := hb
        refine ⟨⟨ls ++ [s], ?_, ?_⟩, ?_⟩
        · simp [encode_append, hd, encode]
        · intro x hx
          simp only [List.mem_append, List.mem_singleton] at hx
          rcases hx with hx | rfl
          · exact hg x hx
          · omega
        · simp; omega

theorem parseLoop_inv (fuel : Nat) (rest : Bytes) (b b' : Builder) (hb : BuilderInv b)
    (h : parseLoop fuel rest b = some b') : BuilderInv b' := by
  induction fuel generalizing rest b with
  | zero => simp only [parseLoop, Option.some.injEq] at h; exact h ▸ hb
  | succ f ih =>
    simp only [parseLoop] at h
    split at h
    · simp only [Option.some.injEq] at h; exact h ▸ hb
    · split at h
      · simp at h
      · rename_i b1 hb1
        exact ih _ b1 (appendLabel_inv b b1 _ hb hb1) h

/-- whatever `ParseReadable` accepts — including the ill-formed texts it does not reject —
    leaves a buffer that scans without error, before and after `ToLowerName`. -/
theorem parseReadable_scans (x : Bytes) (b : Builder) (h : parseReadable x = some b) :
    ∃ ls, GoodLabels ls ∧ wireLen ls ≤ 253 ∧ b.data = encode ls ∧
      scan (toLowerName b.data) = some (ls.map lowerLabel) := by
  have h0 : BuilderInv {} := ⟨⟨[], rfl, fun _ hx => by simp at hx⟩, by decide⟩
  have hinv : BuilderInv b := by
    unfold parseReadable at h
    simp only at h
    split at h
    · simp only [Option.some.injEq] at h; exact h ▸ h0
    · exact parseLoop_inv _ _ _ _ h0 h
  obtain ⟨⟨ls, hd, hg⟩, hl⟩ := hinv
  have hw : wireLen ls ≤ 253 := by rw [← encode_length, ← hd]; exact hl
  refine ⟨ls, hg, hw, hd, ?_⟩
  rw [hd, toLowerName_encode ls hg (by omega),
    scan_encode _ (goodLabels_lower ls hg) (by rw [wireLen_lower]; omega)]

/-! ### entries are case-insensitive -/

set_option maxRecDepth 100000 in
theorem lowerByte_facts : ∀ n, n < 256 →
    (lowerByte (UInt8.ofNat n) = 46 ↔ UInt8.ofNat n = 46) ∧
    lowerByte (lowerByte (UInt8.ofNat n)) = lowerByte (UInt8.ofNat n) := by decide

theorem lowerByte_eq_dot (c : UInt8) : lowerByte c = 46 ↔ c = 46 := by
  have := (lowerByte_facts c.toNat c.toNat_lt).1
  rwa [UInt8.ofNat_toNat] at this

theorem lowerByte_idem (c : UInt8) : lowerByte (lowerByte c) = lowerByte c := by
  have := (lowerByte_facts c.toNat c.toNat_lt).2
  rwa [UInt8.ofNat_toNat] at this

theorem lowerLabel_idem (l : Label) : lowerLabel (lowerLabel l) = lowerLabel l := by
  simp [lowerLabel, lowerByte_idem]

theorem splitDots_lower (y : Bytes) :
    splitDots (y.map lowerByte) = (splitDots y).map lowerLabel := by
  induction y with
  | nil => rfl
  | cons c cs ih =>
    by_cases hc : c = 46
    · subst hc
      simp [splitDots, ih, lowerLabel, show lowerByte 46 = 46 from by decide]
    · have hc' : ¬ lowerByte c = 46 := fun h => hc ((lowerByte_eq_dot c).mp h)
      simp only [List.map_cons, splitDots, hc, hc', ↓reduceIte, ih]
      cases splitDots cs with
      | nil => simp [lowerLabel]
      | cons h t => simp [lowerLabel]

theorem all_goodLabel_lower (ls : List Label) :
    (ls.map lowerLabel).all goodLabel = ls.all goodLabel := by
  induction ls with
  | nil => rfl
  | cons l ls ih => simp [goodLabel, lowerLabel_length, ih]

theorem nameOctets_lower (ls : List Label) : nameOctets (ls.map lowerLabel) = nameOctets ls := by
  rw [nameOctets_eq_wireLen, nameOctets_eq_wireLen, wireLen_lower]

theorem getLast?_lower (x : Bytes) :
    ((x.map lowerByte).getLast? = some 46) ↔ (x.getLast? = some 46) := by
  rw [List.getLast?_map]
  cases x.getLast? with
  | none => simp
  | some c => simp [lowerByte_eq_dot]

/-- the name an entry denotes does not depend on the case of its letters. -/
theorem specName_lower (x : Bytes) : specName (x.map lowerByte) = specName x := by
  unfold specName
  by_cases hl : x.getLast? = some 46
  · have hl' := (getLast?_lower x).mpr hl
    simp only [hl, hl', ↓reduceIte]
    rw [show (x.map lowerByte).dropLast = x.dropLast.map lowerByte from by simp [List.dropLast_eq_take]]
    generalize x.dropLast = y
    simp only [List.map_eq_nil_iff, splitDots_lower, all_goodLabel_lower, nameOctets_lower,
      List.map_map]
    have : (lowerLabel ∘ lowerLabel) = lowerLabel := by
      funext l; simp [lowerLabel_idem]
    rw [this]
  · have hl' : ¬ (x.map lowerByte).getLast? = some 46 := fun h => hl ((getLast?_lower x).mp h)
    simp only [hl, hl', ↓reduceIte]
    simp only [List.map_eq_nil_iff, splitDots_lower, all_goodLabel_lower, nameOctets_lower,
      List.map_map]
    have : (lowerLabel ∘ lowerLabel) = lowerLabel := by
      funext l; simp [lowerLabel_idem]
    rw [this]

theorem specName_case (x x' : Bytes) (h : x.map lowerByte = x'.map lowerByte) :
    specName x = specName x' := by
  rw [← specName_lower x, h, specName_lower]

end MosVerif.DomainSet
