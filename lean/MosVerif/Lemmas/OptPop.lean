/-
  `popEDNS0` (swap-remove of the last OPT record) removes exactly one OPT record.
-/
import MosVerif.Model.Router
namespace MosVerif.Router
open MosVerif.Wire

def isOptB (r : Resource) : Bool := r.rtype == typeOPT
/-- number of OPT records -/
def countOpt (rs : List Resource) : Nat := rs.countP isOptB

theorem lastOptIdx_none (rs : List Resource) (h : lastOptIdx rs = none) : countOpt rs = 0 := by
  unfold lastOptIdx at h
  simp only [List.getLast?_eq_none_iff, List.filter_eq_nil_iff, List.mem_range] at h
  unfold countOpt
  rw [List.countP_eq_zero]
  intro r hr
  obtain ⟨i, hi, rfl⟩ := List.getElem_of_mem hr
  have := h i hi
  simpa [List.getElem?_eq_getElem hi, isOptB] using this

theorem lastOptIdx_some (rs : List Resource) (i : Nat) (h : lastOptIdx rs = some i) :
    ∃ hi : i < rs.length, isOptB rs[i] = true := by
  unfold lastOptIdx at h
  have hm := List.mem_of_getLast? h
  simp only [List.mem_filter, List.mem_range] at hm
  refine ⟨hm.1, ?_⟩
  simpa [List.getElem?_eq_getElem hm.1, isOptB] using hm.2

/-- swap-remove at an OPT position lowers the OPT count by exactly one -/
theorem countOpt_swapRemove (rs : List Resource) (i : Nat) (hi : i < rs.length) (last : Resource)
    (hl : rs.getLast? = some last) (hopt : isOptB rs[i] = true) :
    countOpt (rs.set i last).dropLast + 1 = countOpt rs := by
  have hne : rs ≠ [] := by intro h; simp [h] at hi
  have hsne : rs.set i last ≠ [] := by simpa using hne
  have hlast' : rs.getLast hne = last := by
    rw [List.getLast?_eq_some_getLast hne] at hl; exact Option.some.inj hl
  -- the last element of the list after `set` is `last` in both cases
  have hgl : (rs.set i last).getLast hsne = last := by
    rw [List.getLast_eq_getElem, List.getElem_set]
    split
    · rfl
    · simp only [List.length_set]
      rw [← List.getLast_eq_getElem hne]
      exact hlast'
  have hsplit := List.dropLast_concat_getLast hsne
  have hc : countOpt (rs.set i last) = countOpt (rs.set i last).dropLast + (if isOptB last then 1 else 0) := by
    have : countOpt ((rs.set i last).dropLast ++ [(rs.set i last).getLast hsne])
        = countOpt (rs.set i last).dropLast + (if isOptB last then 1 else 0) := by
      unfold countOpt
      rw [List.countP_append, List.countP_singleton, hgl]
    rw [hsplit] at this
    exact this
  have hs : countOpt (rs.set i last) = countOpt rs - 1 + (if isOptB last then 1 else 0) := by
    unfold countOpt
    rw [List.countP_set hi, hopt]
    simp
  have hpos : 1 ≤ countOpt rs := by
    unfold countOpt
    exact List.countP_pos_iff.mpr ⟨rs[i], List.getElem_mem hi, hopt⟩
  omega

/-- ★ `popEDNS0` removes one OPT if there is one, and changes nothing otherwise. -/
theorem countOpt_pop (rs : List Resource) : countOpt (popEDNS0 rs).2 = countOpt rs - 1 := by
  unfold popEDNS0
  cases h : lastOptIdx rs with
  | none => simp [lastOptIdx_none rs h]
  | some i =>
    obtain ⟨hi, hopt⟩ := lastOptIdx_some rs i h
    have hne : rs ≠ [] := by intro h; simp [h] at hi
    simp only [List.getElem?_eq_getElem hi, List.getLast?_eq_some_getLast hne]
    have := countOpt_swapRemove rs i hi (rs.getLast hne) (List.getLast?_eq_some_getLast hne) hopt
    omega

theorem pop_none_iff (rs : List Resource) : (popEDNS0 rs).1 = none ↔ countOpt rs = 0 := by
  unfold popEDNS0
  cases h : lastOptIdx rs with
  | none => simp [lastOptIdx_none rs h]
  | some i =>
    obtain ⟨hi, hopt⟩ := lastOptIdx_some rs i h
    have hne : rs ≠ [] := by intro h; simp [h] at hi
    simp only [List.getElem?_eq_getElem hi, List.getLast?_eq_some_getLast hne]
    have hpos : 1 ≤ countOpt rs := by
      unfold countOpt
      exact List.countP_pos_iff.mpr ⟨rs[i], List.getElem_mem hi, hopt⟩
    simp; omega

end MosVerif.Router
