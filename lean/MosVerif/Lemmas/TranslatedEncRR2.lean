/-
  Tie by translation (C02/C09): the packers of rr.go whose RDATA holds names (CNAME/NS/PTR, MX, SRV, SOA).  They write
  the record header with RDLENGTH 0, keep `dataLenPlaceholder := msg[off-2 : off]` (a WINDOW of the buffer), pack the
  RDATA and back-patch `putUint16(dataLenPlaceholder, uint16(off)-uint16(dataStartOff))`.  The model produces RDATA
  first and prefixes its length; `backpatch` is the bridge.  Every theorem: `packResourceBuf … = Translated.<T>_pack …`
  for all buffers, offsets, tables and field values.
-/
import MosVerif.Lemmas.TranslatedEncName
namespace MosVerif.Wire
open MosVerif

theorem enc16_length (v : Nat) : (enc16 v).length = 2 := rfl

/-- the RDLENGTH back-patch: the header was written with length 0 at `off0` (ending at `o1`), the RDATA `rd` behind
    it; patching the two octets in front of `o1` with `v` gives the buffer in which header, `v` and RDATA were
    written in one go -/
theorem backpatch (msg : Bytes) (off0 : Nat) (fixed rd m1 : Bytes) (o1 : Nat) (m2 : Bytes) (o2 v : Nat)
    (h1 : writeAt msg off0 (fixed ++ enc16 0) = .ok (m1, o1)) (h2 : writeAt m1 o1 rd = .ok (m2, o2)) :
    ∃ m', (GoSem.natOfInt (((o1 : Nat) : Int) - ((2 : Nat) : Int)) >>= fun lo =>
            GoSem.slice m2 lo o1 >>= fun t => Translated.putUint16 t v >>= fun w => pure (GoSem.splice m2 lo w)) = .ok m' ∧
          GoSem.slice m1 (o1 - 2) o1 ≠ .panic ∧
          writeAt msg off0 (fixed ++ enc16 v ++ rd) = .ok (m', o2) := by
  obtain ⟨hl1, ho1, hf1⟩ := writeAt_ok_length _ _ _ _ _ h1
  obtain ⟨hl2, ho2, hf2⟩ := writeAt_ok_length _ _ _ _ _ h2
  have hfl : (fixed ++ enc16 0).length = fixed.length + 2 := by simp [enc16_length]
  obtain ⟨p, m, r, rfl, rfl, hm⟩ := split3 msg off0 _ hf1
  rw [writeAt_split p m r _ hm.symm] at h1
  simp only [Res.ok.injEq, Prod.mk.injEq] at h1
  obtain ⟨rfl, _⟩ := h1
  -- the RDATA window
  have hr : rd.length ≤ r.length := by
    simp only [List.length_append] at hf2 hl1 ⊢; omega
  obtain ⟨r1, r2, rfl, hr1⟩ : ∃ r1 r2, r = r1 ++ r2 ∧ r1.length = rd.length :=
    ⟨r.take rd.length, r.drop rd.length, by simp, by simp; omega⟩
  have e1 : p ++ (fixed ++ enc16 0 ++ (r1 ++ r2)) = (p ++ (fixed ++ enc16 0)) ++ (r1 ++ r2) := by simp
  have e2 : o1 = (p ++ (fixed ++ enc16 0)).length := by simp [ho1, hfl] <;> omega
  rw [e1, e2, writeAt_split (p ++ (fixed ++ enc16 0)) r1 r2 rd hr1.symm] at h2
  simp only [Res.ok.injEq, Prod.mk.injEq] at h2
  obtain ⟨rfl, _⟩ := h2
  have hnat : GoSem.natOfInt (((o1 : Nat) : Int) - ((2 : Nat) : Int)) = .ok (o1 - 2) := by
    unfold GoSem.natOfInt
    have : (0 : Int) ≤ ((o1 : Nat) : Int) - ((2 : Nat) : Int) := by omega
    simp only [this, if_true]
    congr 1; omega
  have hlo : o1 - 2 = (p ++ fixed).length := by simp [ho1, hfl] <;> omega
  have hshape : p ++ (fixed ++ enc16 0) ++ (rd ++ r2) = (p ++ fixed) ++ (enc16 0 ++ (rd ++ r2)) := by simp
  have hsl : GoSem.slice ((p ++ fixed) ++ (enc16 0 ++ (rd ++ r2))) (p ++ fixed).length o1 = .ok (enc16 0) := by
    unfold GoSem.slice
    have hb : (p ++ fixed).length ≤ o1 ∧ o1 ≤ ((p ++ fixed) ++ (enc16 0 ++ (rd ++ r2))).length := by
      simp [ho1, hfl, enc16_length] <;> omega
    have ho : o1 = (p ++ fixed).length + (enc16 0).length := by simp [ho1, hfl, enc16_length] <;> omega
    rw [if_pos hb, ho, List.take_length_add_append, List.drop_left]
    simp
  refine ⟨(p ++ fixed) ++ (enc16 v ++ (rd ++ r2)), ?_, ?_, ?_⟩
  · rw [hnat]
    simp only [Res.bind_ok', hshape, hlo, hsl]
    simp only [Translated.putUint16, GoSem.putUint16, enc16, Res.bind_ok', Res.pure_eq, GoSem.splice, List.take_left,
      u8_ofNat_mod]
    congr 1
    have e : p ++ fixed ++ ([UInt8.ofNat (0 / 256), UInt8.ofNat 0] ++ (rd ++ r2)) =
        (p ++ fixed ++ [UInt8.ofNat (0 / 256), UInt8.ofNat 0]) ++ (rd ++ r2) := by simp
    have e' : (p ++ fixed).length + [UInt8.ofNat (v / 256), UInt8.ofNat v].length =
        (p ++ fixed ++ [UInt8.ofNat (0 / 256), UInt8.ofNat 0]).length := by simp <;> omega
    rw [e, e', List.drop_left]
    simp
  · have hshape1 : p ++ (fixed ++ enc16 0 ++ (r1 ++ r2)) = (p ++ fixed) ++ (enc16 0 ++ (r1 ++ r2)) := by simp
    rw [hshape1, hlo]
    unfold GoSem.slice
    have hb : (p ++ fixed).length ≤ o1 ∧ o1 ≤ ((p ++ fixed) ++ (enc16 0 ++ (r1 ++ r2))).length := by
      simp [ho1, hfl, enc16_length] <;> omega
    rw [if_pos hb]
    simp
  · have e3 : p ++ (m ++ (r1 ++ r2)) = p ++ ((m ++ r1) ++ r2) := by simp
    rw [e3, writeAt_split p (m ++ r1) r2 _ (by simp [enc16_length, hm, hfl, hr1]; omega)]
    simp [ho2, ho1, enc16_length, hfl]
    omega

theorem writeAt_ne_panic (b : Bytes) (off : Nat) (bs : Bytes) : writeAt b off bs ≠ .panic := by
  unfold writeAt; split <;> simp

/-- the shape shared by `NAMEResource.pack`, `MX.pack`, `SRV.pack`, `SOA.pack`: header with RDLENGTH 0, the window
    in front of the RDATA, the RDATA (`rdGo`, tied to the model's `rdModel`), the back-patch — against the model's
    `packResource` shape (RDATA produced for its start offset, prefixed by its length) -/
theorem rr_backpatch (name : Name) (ty cls ttl : Nat) (msg : Bytes) (off0 : Nat) (tbl : Option Table)
    (rdModel : Nat → Option Table → Res (Bytes × Option Table))
    (rdGo : Bytes → Nat → Option Table → Res (Bytes × Option Table × Nat))
    (hrd : ∀ m o t, rdGo m o t = writeRes m o (rdModel o t)) (hnp : ∀ o t, rdModel o t ≠ .panic) :
    writeRes msg off0 (packName off0 tbl name >>= fun r =>
        rdModel (off0 + (r.1 ++ enc16 ty ++ enc16 cls ++ enc32 ttl).length + 2) r.2 >>= fun d =>
          .ok (r.1 ++ enc16 ty ++ enc16 cls ++ enc32 ttl ++ enc16 (d.1.length % 65536) ++ d.1, d.2)) =
      (Translated.ResourceHdr_pack name ty cls ttl msg off0 tbl 0 >>= fun h =>
        GoSem.natOfInt (((h.2.2 : Nat) : Int) - ((2 : Nat) : Int)) >>= fun lo =>
        GoSem.slice h.1 lo h.2.2 >>= fun _ =>
        rdGo h.1 h.2.2 h.2.1 >>= fun d =>
        GoSem.slice d.1 lo h.2.2 >>= fun t =>
        Translated.putUint16 t (((d.2.2 % 65536) + 65536 - (h.2.2 % 65536)) % 65536) >>= fun w =>
        pure (GoSem.splice d.1 lo w, d.2.1, d.2.2)) := by
  rw [ResourceHdr_pack_tied]
  cases hp : packName off0 tbl name with
  | err => rfl
  | panic => rfl
  | ok r =>
    obtain ⟨nb, t1⟩ := r
    simp only [Res.bind_ok']
    generalize hfx : nb ++ enc16 ty ++ enc16 cls ++ enc32 ttl = fixed
    rw [writeRes_ok]
    cases hw1 : writeAt msg off0 (fixed ++ enc16 0) with
    | panic => exact absurd hw1 (writeAt_ne_panic _ _ _)
    | err =>
      simp only [Res.bind_err']
      have hno : ¬ off0 + (fixed ++ enc16 0).length ≤ msg.length := by
        intro hle
        unfold writeAt at hw1
        rw [if_pos hle] at hw1
        cases hw1
      cases hm : rdModel (off0 + fixed.length + 2) t1 with
      | panic => exact absurd hm (hnp _ _)
      | err => rfl
      | ok d =>
        simp only [Res.bind_ok', writeRes]
        rw [writeAt_err]
        simp only [List.length_append, enc16_length] at hno ⊢
        omega
    | ok w1 =>
      obtain ⟨m1, o1⟩ := w1
      obtain ⟨hl1, ho1, hf1⟩ := writeAt_ok_length _ _ _ _ _ hw1
      have ho1' : o1 = off0 + fixed.length + 2 := by simp [ho1, enc16_length]; omega
      have hnat : GoSem.natOfInt (((o1 : Nat) : Int) - ((2 : Nat) : Int)) = .ok (o1 - 2) := by
        unfold GoSem.natOfInt
        have : (0 : Int) ≤ ((o1 : Nat) : Int) - ((2 : Nat) : Int) := by omega
        simp only [this, if_true]
        congr 1; omega
      have hsl1 : ∃ x, GoSem.slice m1 (o1 - 2) o1 = .ok x := by
        unfold GoSem.slice
        have : o1 - 2 ≤ o1 ∧ o1 ≤ m1.length := by omega
        exact ⟨_, if_pos this⟩
      obtain ⟨x1, hx1⟩ := hsl1
      simp only [Res.bind_ok', hnat, hx1, hrd, ← ho1']
      cases hm : rdModel o1 t1 with
      | panic => exact absurd hm (hnp _ _)
      | err => rfl
      | ok d =>
        obtain ⟨rd, t2⟩ := d
        simp only [Res.bind_ok', writeRes_ok]
        cases hw2 : writeAt m1 o1 rd with
        | panic => exact absurd hw2 (writeAt_ne_panic _ _ _)
        | err =>
          simp only [Res.bind_err']
          have hno : ¬ o1 + rd.length ≤ m1.length := by
            intro hle
            unfold writeAt at hw2
            rw [if_pos hle] at hw2
            cases hw2
          rw [writeAt_err]
          · rfl
          · simp only [List.length_append, enc16_length] at hno ho1 ⊢
            omega
        | ok w2 =>
          obtain ⟨m2, o2⟩ := w2
          obtain ⟨_, ho2, _⟩ := writeAt_ok_length _ _ _ _ _ hw2
          obtain ⟨m', hpatch, _, hwhole⟩ := backpatch msg off0 fixed rd m1 o1 m2 o2
            (((o2 % 65536) + 65536 - (o1 % 65536)) % 65536) hw1 hw2
          have hv : ((o2 % 65536) + 65536 - (o1 % 65536)) % 65536 = rd.length % 65536 := by omega
          rw [hv] at hpatch hwhole
          rw [hnat] at hpatch
          simp only [Res.bind_ok'] at hpatch
          simp only [Res.bind_ok', hwhole, hv]
          cases hs2 : GoSem.slice m2 (o1 - 2) o1 with
          | err => rw [hs2] at hpatch; simp at hpatch
          | panic => rw [hs2] at hpatch; simp at hpatch
          | ok t =>
            rw [hs2] at hpatch
            simp only [Res.bind_ok'] at hpatch ⊢
            cases hpu : Translated.putUint16 t (rd.length % 65536) with
            | err => rw [hpu] at hpatch; simp at hpatch
            | panic => rw [hpu] at hpatch; simp at hpatch
            | ok w =>
              rw [hpu] at hpatch
              simp only [Res.bind_ok', Res.pure_eq, Res.ok.injEq] at hpatch ⊢
              rw [hpatch]

/-- `NAMEResource.pack` (CNAME, NS, PTR): the RDATA is a name, compressed with the same table -/
theorem NAME_pack_tied (msg : Bytes) (off : Nat) (tbl : Option Table) (name : Name) (ty cls ttl : Nat) (n : Name) :
    packResourceBuf msg off tbl ⟨name, ty, cls, ttl, .name n⟩ =
      Translated.NAMEResource_pack name ty cls ttl n msg off tbl := by
  have h := rr_backpatch name ty cls ttl msg off tbl (fun o t => packName o t n)
    (fun m o t => Translated.Name_pack n m o t) (fun m o t => (Name_pack_translated n m o t).symm)
    (fun o t => packName_ne_panic o t n)
  unfold packResourceBuf packResource Translated.NAMEResource_pack
  simp only [packRData]
  exact h

/-- fixed octets, then a name: the Go writers in sequence are the model's "name packed for the offset behind the
    fixed octets, prefixed by them" -/
theorem pre_name (pre : Bytes) (n : Name) (m : Bytes) (o : Nat) (t : Option Table) :
    (writeAt m o pre >>= fun w => Translated.Name_pack n w.1 w.2 t) =
      writeRes m o (packName (o + pre.length) t n >>= fun r => .ok (pre ++ r.1, r.2)) := by
  cases hw : writeAt m o pre with
  | panic => exact absurd hw (writeAt_ne_panic _ _ _)
  | err =>
    simp only [Res.bind_err']
    cases hp : packName (o + pre.length) t n with
    | panic => exact absurd hp (packName_ne_panic _ _ _)
    | err => rfl
    | ok r => simp only [Res.bind_ok', writeRes_ok, writeAt_append, hw, Res.bind_err']
  | ok w =>
    obtain ⟨m', o'⟩ := w
    obtain ⟨_, ho, _⟩ := writeAt_ok_length _ _ _ _ _ hw
    subst ho
    simp only [Res.bind_ok']
    rw [← Name_pack_translated n m' (o + pre.length) t]
    unfold packNameBuf
    cases hp : packName (o + pre.length) t n with
    | panic => rfl
    | err => rfl
    | ok r =>
      obtain ⟨nb, t'⟩ := r
      simp only [Res.bind_ok', writeRes_ok, writeAt_append, hw, Res.bind_assoc']

theorem rdModel_mx_ne_panic (pre : Bytes) (n : Name) (o : Nat) (t : Option Table) :
    (packName (o + pre.length) t n >>= fun r => (.ok (pre ++ r.1, r.2) : Res (Bytes × Option Table))) ≠ .panic := by
  cases hp : packName (o + pre.length) t n with
  | panic => exact absurd hp (packName_ne_panic _ _ _)
  | err => simp
  | ok r => simp

/-- `MX.pack` -/
theorem MX_pack_tied (msg : Bytes) (off : Nat) (tbl : Option Table) (name : Name) (ty cls ttl pref : Nat) (n : Name) :
    packResourceBuf msg off tbl ⟨name, ty, cls, ttl, .mx pref n⟩ =
      Translated.MX_pack name ty cls ttl pref n msg off tbl := by
  have h := rr_backpatch name ty cls ttl msg off tbl
    (fun o t => packName (o + (enc16 pref).length) t n >>= fun r => .ok (enc16 pref ++ r.1, r.2))
    (fun m o t => writeAt m o (enc16 pref) >>= fun w => Translated.Name_pack n w.1 w.2 t)
    (fun m o t => pre_name (enc16 pref) n m o t) (fun o t => rdModel_mx_ne_panic (enc16 pref) n o t)
  unfold packResourceBuf packResource Translated.MX_pack
  simp only [packRData]
  refine h.trans ?_
  simp only [Res.bind_assoc', packUint16_translated]

/-- `SRV.pack` (the target is compressed like every other name, as the Go code does) -/
theorem SRV_pack_tied (msg : Bytes) (off : Nat) (tbl : Option Table) (name : Name) (ty cls ttl prio weight port : Nat)
    (n : Name) :
    packResourceBuf msg off tbl ⟨name, ty, cls, ttl, .srv prio weight port n⟩ =
      Translated.SRV_pack name ty cls ttl prio weight port n msg off tbl := by
  have h := rr_backpatch name ty cls ttl msg off tbl
    (fun o t => packName (o + (enc16 prio ++ enc16 weight ++ enc16 port).length) t n >>= fun r =>
      .ok (enc16 prio ++ enc16 weight ++ enc16 port ++ r.1, r.2))
    (fun m o t => writeAt m o (enc16 prio ++ enc16 weight ++ enc16 port) >>= fun w => Translated.Name_pack n w.1 w.2 t)
    (fun m o t => pre_name _ n m o t) (fun o t => rdModel_mx_ne_panic _ n o t)
  unfold packResourceBuf packResource Translated.SRV_pack
  simp only [packRData]
  refine h.trans ?_
  simp only [writeAt_append, Res.bind_assoc', packUint16_translated]

/-- the RDATA of an SOA record in the model: two names (the second packed for the offset behind the first), then
    fixed octets -/
def soaModel (ns mbox : Name) (tail : Bytes) (o : Nat) (t : Option Table) : Res (Bytes × Option Table) :=
  packName o t ns >>= fun r1 => packName (o + r1.1.length) r1.2 mbox >>= fun r2 => .ok (r1.1 ++ r2.1 ++ tail, r2.2)

theorem soaModel_ne_panic (ns mbox : Name) (tail : Bytes) (o : Nat) (t : Option Table) :
    soaModel ns mbox tail o t ≠ .panic := by
  unfold soaModel
  cases h1 : packName o t ns with
  | panic => exact absurd h1 (packName_ne_panic _ _ _)
  | err => simp
  | ok r1 =>
    simp only [Res.bind_ok']
    cases h2 : packName (o + r1.1.length) r1.2 mbox with
    | panic => exact absurd h2 (packName_ne_panic _ _ _)
    | err => simp
    | ok r2 => simp

theorem soa_rd (ns mbox : Name) (tail m : Bytes) (o : Nat) (t : Option Table) :
    (Translated.Name_pack ns m o t >>= fun a => Translated.Name_pack mbox a.1 a.2.2 a.2.1 >>= fun b =>
        writeAt b.1 b.2.2 tail >>= fun w => (.ok (w.1, b.2.1, w.2) : Res (Bytes × Option Table × Nat))) =
      writeRes m o (soaModel ns mbox tail o t) := by
  unfold soaModel
  rw [← Name_pack_translated ns m o t]
  unfold packNameBuf
  cases h1 : packName o t ns with
  | panic => rfl
  | err => rfl
  | ok r1 =>
    obtain ⟨b1, t1⟩ := r1
    simp only [Res.bind_ok', writeRes_ok]
    cases hw : writeAt m o b1 with
    | panic => exact absurd hw (writeAt_ne_panic _ _ _)
    | err =>
      simp only [Res.bind_err']
      cases h2 : packName (o + b1.length) t1 mbox with
      | panic => exact absurd h2 (packName_ne_panic _ _ _)
      | err => rfl
      | ok r2 => simp only [Res.bind_ok', writeRes_ok, writeAt_append, hw, Res.bind_err']
    | ok w =>
      obtain ⟨m1, o1⟩ := w
      obtain ⟨_, ho, _⟩ := writeAt_ok_length _ _ _ _ _ hw
      subst ho
      simp only [Res.bind_ok']
      rw [← Name_pack_translated mbox m1 (o + b1.length) t1]
      unfold packNameBuf
      cases h2 : packName (o + b1.length) t1 mbox with
      | panic => rfl
      | err => rfl
      | ok r2 =>
        obtain ⟨b2, t2⟩ := r2
        simp only [Res.bind_ok', writeRes_ok, writeAt_append, hw, Res.bind_assoc']

/-- `SOA.pack` -/
theorem SOA_pack_tied (msg : Bytes) (off : Nat) (tbl : Option Table) (name : Name) (ty cls ttl : Nat) (ns mbox : Name)
    (serial refresh retry expire minttl : Nat) :
    packResourceBuf msg off tbl ⟨name, ty, cls, ttl, .soa ns mbox serial refresh retry expire minttl⟩ =
      Translated.SOA_pack name ty cls ttl ns mbox serial refresh retry expire minttl msg off tbl := by
  have h := rr_backpatch name ty cls ttl msg off tbl
    (soaModel ns mbox (enc32 serial ++ enc32 refresh ++ enc32 retry ++ enc32 expire ++ enc32 minttl))
    (fun m o t => Translated.Name_pack ns m o t >>= fun a => Translated.Name_pack mbox a.1 a.2.2 a.2.1 >>= fun b =>
        writeAt b.1 b.2.2 (enc32 serial ++ enc32 refresh ++ enc32 retry ++ enc32 expire ++ enc32 minttl) >>= fun w =>
          .ok (w.1, b.2.1, w.2))
    (fun m o t => soa_rd ns mbox _ m o t) (fun o t => soaModel_ne_panic ns mbox _ o t)
  unfold packResourceBuf packResource Translated.SOA_pack
  simp only [packRData]
  refine Eq.trans ?_ (h.trans ?_)
  · unfold soaModel
    congr 1
    cases packName off tbl name with
    | panic => rfl
    | err => rfl
    | ok r =>
      simp only [Res.bind_ok', Res.bind_assoc', List.append_assoc]
  · simp only [writeAt_append, Res.bind_assoc', packUint32_translated, Res.bind_ok']

/-- `header.pack` (called last by `Msg.Pack`, on `b[:12]`): id, flag word and the four section counts, big-endian,
    over the first twelve octets — the model's header prefix `enc16 id ++ enc16 bits ++ enc16 counts…` -/
theorem header_pack_translated (id bits q a n x : Nat) (msg : Bytes) :
    (writeAt msg 0 (enc16 id ++ enc16 bits ++ enc16 q ++ enc16 a ++ enc16 n ++ enc16 x) >>= fun w =>
        (.ok (w.1, 8) : Res (Bytes × Nat))) =
      Translated.header_pack id bits q a n x msg := by
  unfold Translated.header_pack
  by_cases h : msg.length < 12
  · have : ¬ 0 + (enc16 id ++ enc16 bits ++ enc16 q ++ enc16 a ++ enc16 n ++ enc16 x).length ≤ msg.length := by
      simp [enc16_length]; omega
    rw [writeAt_err _ _ _ this]
    simp [h]
  · obtain ⟨p, m, r, rfl, hp, hm⟩ := split3 msg 0 12 (by omega)
    have hp' : p = [] := List.length_eq_zero_iff.1 hp
    subst hp'
    match m, hm with
    | [b0, b1, b2, b3, b4, b5, b6, b7, b8, b9, b10, b11], _ =>
      simp +arith [Translated.putUint16, GoSem.slice, GoSem.putUint16, GoSem.splice, writeAt, enc16, u8_ofNat_mod]

end MosVerif.Wire
