/-
  C06 — the content invariant of the `Reuse` transition system: against a server that answers
  queries in order and may repeat frames it already sent (but does not forge frames), every
  frame whose wire id equals the id of the outstanding query answers that query.
-/
import MosVerif.Lemmas.ReuseInv
namespace MosVerif.Reuse

/-- content invariant of one connection: every frame and every owed query carries a wire id
    that was already handed out, and while a worker waits for the reply to the query it wrote
    with id `qid`, everything labelled `qid` belongs to that worker's exchange -/
def CC (k : Conn) : Prop :=
  (∀ f ∈ k.inbuf, f.id < k.nextQid) ∧ (∀ f ∈ k.sentLog, f.id < k.nextQid) ∧ (∀ p ∈ k.owed, p.2 < k.nextQid) ∧
  match k.worker with
  | some (.read e _ qid) =>
    qid + 1 = k.nextQid ∧ (∀ f ∈ k.inbuf, f.id = qid → f.q = e) ∧ (∀ f ∈ k.sentLog, f.id = qid → f.q = e) ∧
    (∀ p ∈ k.owed, p.2 = qid → p.1 = e)
  | some (.post e _ (.ok q)) => q = e
  | _ => True

structure InvC (s : State) : Prop where
  own : (mon s.hist).own = true
  conn : ∀ c, CC (s.conn c)
  chan : ∀ e a q, s.chan e a = some (.ok q) → q = e

theorem invC_init : InvC State.init := by
  refine ⟨rfl, fun c => ?_, ?_⟩
  · simp [CC, State.init, Conn.fresh]
  · simp [State.init]

attribute [local simp] State.setConn State.setCaller State.emit State.finish State.spawn State.netClose
  State.rcClose monStep

theorem foldl_cl_own (l : List Nat) (m : Mon) : ((l.map Event.cl).foldl monStep m).own = m.own :=
  (foldl_cl l m).2.2.2.2.2.2.2.2.1

/-- the generic case: connections changed by `upd`, no message was returned -/
macro "cc_cases" h:ident : tactic =>
  `(tactic| (refine ⟨?_, fun c' => ?_, ?_⟩
             · first | exact InvC.own $h | (simp [InvC.own $h]; done) | (simp; repeat' split) <;> simp [InvC.own $h]
             · have hc' := InvC.conn $h c'
               simp only [State.setConn, State.setCaller, State.emit, State.finish, State.spawn, upd_apply]
               repeat' split
               all_goals first
                 | exact hc'
                 | (rename_i heq; subst heq; simp [CC, Conn.fresh] at hc' ⊢ <;> grind)
                 | (simp [CC, Conn.fresh] at hc' ⊢ <;> grind)
             · first
                 | exact InvC.chan $h
                 | (intro e a q hq; exact InvC.chan $h e a q (by simpa using hq))))

theorem stepC_recvRes (h : InvC s) (e : Nat) : InvC (stepCoreG false false s (.recvRes e)) := by
  simp only [stepCoreG]
  split
  · split
    · rename_i q hq
      have := h.chan _ _ _ hq
      subst this
      refine ⟨by simp [h.own], fun c' => by simpa using h.conn c', by simpa using h.chan⟩
    · split
      · cc_cases h
      · cc_cases h
    · exact h
  · exact h

theorem stepC_workerPost (h : InvC s) (c : Nat) : InvC (stepCoreG false false s (.workerPost c)) := by
  simp only [stepCoreG]
  split
  · rename_i e a r hw
    have hcc := h.conn c
    refine ⟨h.own, fun c' => ?_, ?_⟩
    · have hc' := h.conn c'
      simp only [State.setConn, upd_apply]
      split
      · rename_i heq; subst heq; simp [CC, hw] at hc' ⊢; exact ⟨hc'.1, hc'.2.1, hc'.2.2.1⟩
      · exact hc'
    · intro e' a' q hq
      by_cases he : e' = e
      · by_cases ha : a' = a
        · subst he ha
          simp at hq; subst hq
          simp [CC, hw] at hcc
          exact hcc.2.2.2
        · subst he
          simp [ha] at hq
          exact h.chan _ _ _ hq
      · simp [he] at hq
        exact h.chan _ _ _ hq
  · exact h

theorem stepC_tClose (h : InvC s) : InvC (stepCoreG false false s .tClose) := by
  simp only [stepCoreG]
  split
  · exact h
  · refine ⟨?_, fun c' => ?_, h.chan⟩
    · simp only [mon_append, List.foldl_cons]; rw [foldl_cl_own]; simp [h.own]
    · have hc' := h.conn c'
      by_cases hin : c' ∈ s.all
      · simpa [CC, hin] using hc'
      · simpa [hin] using hc'

theorem stepC_start (h : InvC s) (e : Nat) : InvC (stepCoreG false false s (.start e)) := by
  simp only [stepCoreG, State.rcClose, State.netClose]
  repeat' split
  all_goals first | exact h | cc_cases h

theorem stepC_cancel (h : InvC s) (e : Nat) : InvC (stepCoreG false false s (.cancel e)) := by
  simp only [stepCoreG, State.rcClose, State.netClose]
  repeat' split
  all_goals first | exact h | cc_cases h

theorem stepC_getIdle (h : InvC s) (e : Nat) (p : Option Nat) : InvC (stepCoreG false false s (.getIdle e p)) := by
  simp only [stepCoreG, State.rcClose, State.netClose]
  repeat' split
  all_goals first | exact h | cc_cases h

theorem stepC_giveUp (h : InvC s) (e : Nat) : InvC (stepCoreG false false s (.giveUp e)) := by
  simp only [stepCoreG, State.rcClose, State.netClose]
  repeat' split
  all_goals first | exact h | cc_cases h

theorem stepC_dialDone (h : InvC s) (e : Nat) (b : Bool) : InvC (stepCoreG false false s (.dialDone e b)) := by
  simp only [stepCoreG, State.rcClose, State.netClose]
  repeat' split
  all_goals first | exact h | cc_cases h

theorem stepC_dialExit (h : InvC s) (c : Nat) : InvC (stepCoreG false false s (.dialExit c)) := by
  simp only [stepCoreG, State.rcClose, State.netClose]
  repeat' split
  all_goals first | exact h | cc_cases h

theorem stepC_dialDeliver (h : InvC s) (c : Nat) (b : Bool) : InvC (stepCoreG false false s (.dialDeliver c b)) := by
  simp only [stepCoreG, State.rcClose, State.netClose]
  repeat' split
  all_goals first | exact h | cc_cases h

theorem stepC_dialFail (h : InvC s) (e : Nat) (b : Bool) : InvC (stepCoreG false false s (.dialFail e b)) := by
  simp only [stepCoreG, State.rcClose, State.netClose]
  repeat' split
  all_goals first | exact h | cc_cases h

theorem stepC_workerWrite (h : InvC s) (c : Nat) (b : Bool) : InvC (stepCoreG false false s (.workerWrite c b)) := by
  simp only [stepCoreG, State.rcClose, State.netClose]
  repeat' split
  all_goals first | exact h | cc_cases h

theorem stepC_workerReadPart (h : InvC s) (c : Nat) : InvC (stepCoreG false false s (.workerReadPart c)) := by
  simp only [stepCoreG, State.rcClose, State.netClose]
  repeat' split
  all_goals first | exact h | cc_cases h

theorem stepC_workerReadOk (h : InvC s) (c : Nat) : InvC (stepCoreG false false s (.workerReadOk c)) := by
  simp only [stepCoreG, State.rcClose, State.netClose]
  repeat' split
  all_goals first | exact h | cc_cases h

theorem stepC_workerReadErr (h : InvC s) (c : Nat) : InvC (stepCoreG false false s (.workerReadErr c)) := by
  simp only [stepCoreG, State.rcClose, State.netClose]
  repeat' split
  all_goals first | exact h | cc_cases h

theorem stepC_workerRelA (h : InvC s) (c : Nat) : InvC (stepCoreG false false s (.workerRelA c)) := by
  simp only [stepCoreG, State.rcClose, State.netClose]
  repeat' split
  all_goals first | exact h | cc_cases h

theorem stepC_workerRelB (h : InvC s) (c : Nat) : InvC (stepCoreG false false s (.workerRelB c)) := by
  simp only [stepCoreG, State.rcClose, State.netClose]
  repeat' split
  all_goals first | exact h | cc_cases h

theorem stepC_idleTimer (h : InvC s) (c : Nat) : InvC (stepCoreG false false s (.idleTimer c)) := by
  simp only [stepCoreG, State.rcClose, State.netClose]
  repeat' split
  all_goals first | exact h | cc_cases h

theorem stepC_srvReply (h : InvC s) (c : Nat) (b : Bool) : InvC (stepCoreG false false s (.srvReply c b)) := by
  simp only [stepCoreG, State.rcClose, State.netClose]
  repeat' split
  all_goals first | exact h | cc_cases h

theorem stepC_srvDup (h : InvC s) (c n : Nat) : InvC (stepCoreG false false s (.srvDup c n)) := by
  simp only [stepCoreG, State.rcClose, State.netClose]
  repeat' split
  all_goals first | exact h | cc_cases h

theorem stepC_srvStray (h : InvC s) (c : Nat) (f : Frame) : InvC (stepCoreG false false s (.srvStray c f)) := by
  simp only [stepCoreG, State.rcClose, State.netClose]
  repeat' split
  all_goals first | exact h | cc_cases h

theorem stepC_srvAbort (h : InvC s) (c : Nat) : InvC (stepCoreG false false s (.srvAbort c)) := by
  simp only [stepCoreG, State.rcClose, State.netClose]
  repeat' split
  all_goals first | exact h | cc_cases h

theorem stepC_inv (h : InvC s) (a : Act) : InvC (stepCoreG false false s a) := by
  cases a with
  | recvRes e => exact stepC_recvRes h e
  | workerPost c => exact stepC_workerPost h c
  | tClose => exact stepC_tClose h
  | start e => exact stepC_start h e
  | cancel e => exact stepC_cancel h e
  | getIdle e p => exact stepC_getIdle h e p
  | giveUp e => exact stepC_giveUp h e
  | dialDone e b => exact stepC_dialDone h e b
  | dialExit c => exact stepC_dialExit h c
  | dialDeliver c b => exact stepC_dialDeliver h c b
  | dialFail e b => exact stepC_dialFail h e b
  | workerWrite c b => exact stepC_workerWrite h c b
  | workerReadPart c => exact stepC_workerReadPart h c
  | workerReadOk c => exact stepC_workerReadOk h c
  | workerReadErr c => exact stepC_workerReadErr h c
  | workerRelA c => exact stepC_workerRelA h c
  | workerRelB c => exact stepC_workerRelB h c
  | idleTimer c => exact stepC_idleTimer h c
  | srvReply c b => exact stepC_srvReply h c b
  | srvDup c n => exact stepC_srvDup h c n
  | srvStray c f => exact stepC_srvStray h c f
  | srvAbort c => exact stepC_srvAbort h c

theorem stepC (h : InvC s) (a : Act) : InvC (step s a) := by
  unfold step
  split
  · exact h
  · exact stepC_inv h a

theorem execC_inv (h : InvC s) (acts : List Act) : InvC (exec s acts) := by
  induction acts generalizing s with
  | nil => exact h
  | cons a as ih => exact ih (stepC h a)

/-- the content invariant holds in every state reachable against a server that does not forge frames -/
theorem reachC_inv (acts : List Act) : InvC (exec State.init acts) := execC_inv invC_init acts

end MosVerif.Reuse
