/-
  C15 helper lemmas, part 3: the model satisfies the executable specification.
-/
import MosVerif.Lemmas.LimiterTable
namespace MosVerif.Limiter

/-! ### the defaults, as the specification reads them -/

theorem setDefault_limit (c : Opts) : (c.setDefault).limit = if c.limit ≤ 0 then 20 else c.limit := by
  unfold Opts.setDefault
  simp only [defaultLimit, defaultV4Mask, defaultV6Mask]
  repeat' split
  all_goals simp_all

theorem setDefault_burst (c : Opts) :
    (c.setDefault).burst = if c.burst ≤ 0 then (if c.limit ≤ 0 then 20 else c.limit) else c.burst := by
  unfold Opts.setDefault
  simp only [defaultLimit, defaultV4Mask, defaultV6Mask]
  repeat' split
  all_goals simp_all

theorem setDefault_v4 (c : Opts) :
    (c.setDefault).v4Mask = if c.v4Mask ≤ 0 ∨ c.v4Mask > 32 then 24 else c.v4Mask := by
  unfold Opts.setDefault
  simp only [defaultLimit, defaultV4Mask, defaultV6Mask]
  repeat' split
  all_goals simp_all

theorem setDefault_v6 (c : Opts) :
    (c.setDefault).v6Mask = if c.v6Mask ≤ 0 ∨ c.v6Mask > 128 then 48 else c.v6Mask := by
  unfold Opts.setDefault
  simp only [defaultLimit, defaultV4Mask, defaultV6Mask]
  repeat' split
  all_goals simp_all

theorem new_limit (c : Opts) : (ClientLimiter.new c).limit = specLimit c := by
  simp only [ClientLimiter.new, ClientLimiter.limit, setDefault_limit, specLimit]
  split <;> split <;> omega

theorem new_burst (c : Opts) : (ClientLimiter.new c).burst = specBurst c := by
  simp only [ClientLimiter.new, ClientLimiter.burst, setDefault_burst, specBurst, specLimit]
  repeat' split
  all_goals omega

theorem specLimit_pos (c : Opts) : 0 < specLimit c := by
  unfold specLimit; split <;> omega

theorem setDefault_v4_spec (c : Opts) : (c.setDefault).v4Mask = (specBits4 c : Int) := by
  rw [setDefault_v4]; unfold specBits4
  split <;> split <;> omega

theorem setDefault_v6_spec (c : Opts) : (c.setDefault).v6Mask = (specBits6 c : Int) := by
  rw [setDefault_v6]; unfold specBits6
  split <;> split <;> omega

theorem specBits4_range (c : Opts) : 1 ≤ specBits4 c ∧ specBits4 c ≤ 32 := by
  unfold specBits4; split <;> omega

theorem specBits6_range (c : Opts) : 1 ≤ specBits6 c ∧ specBits6 c ≤ 128 := by
  unfold specBits6; split <;> omega

/-! ### keys and the subnet relation -/

theorem mask_v4 (c : Opts) (a : Nat) : mask c.setDefault (.v4 a) = .v4 (maskBits 32 (specBits4 c) a) := by
  have := specBits4_range c
  simp only [mask, Addr.unmap, prefixMaskedAddr, setDefault_v4_spec]
  rw [if_pos (by omega)]
  simp

/-- the key of an address in terms of the specification's reading of the address -/
def specKey (c : Opts) (x : Addr) : Addr :=
  match specClient x with
  | none => .zero
  | some (true, a) => .v4 (maskBits 32 (specBits4 c) a)
  | some (false, a) => .v6 (maskBits 128 (specBits6 c) a) ""

theorem mask_eq_specKey (c : Opts) (x : Addr) : mask c.setDefault x = specKey c x := by
  have h4 := specBits4_range c
  have h6 := specBits6_range c
  cases x with
  | zero => rfl
  | v4 a => rw [mask_v4]; rfl
  | v6 a z =>
    by_cases h : a / 2 ^ 32 = 0xffff
    · have hu : (Addr.v6 a z).unmap = .v4 (a % 2 ^ 32) := by simp [Addr.unmap, h]
      have hs : specClient (.v6 a z) = some (true, a % 2 ^ 32) := by simp [specClient, h]
      unfold mask specKey
      rw [hu, hs]
      simp only [prefixMaskedAddr, setDefault_v4_spec]
      rw [if_pos (by omega)]; simp
    · have hu : (Addr.v6 a z).unmap = .v6 a z := by simp [Addr.unmap, h]
      have hs : specClient (.v6 a z) = some (false, a) := by simp [specClient, h]
      unfold mask specKey
      rw [hu, hs]
      simp only [prefixMaskedAddr, setDefault_v6_spec]
      rw [if_pos (by omega)]; simp

theorem maskBits_eq_iff (w b x y : Nat) : maskBits w b x = maskBits w b y ↔ x / 2 ^ (w - b) = y / 2 ^ (w - b) := by
  unfold maskBits
  exact Nat.mul_right_cancel_iff (Nat.pow_pos (by decide))

/-- the specification's subnet relation is "same key" -/
theorem specSame_eq (c : Opts) (x y : Addr) :
    specSame c x y = decide (mask c.setDefault x = mask c.setDefault y) := by
  rw [mask_eq_specKey, mask_eq_specKey]
  unfold specSame subnetId specKey
  cases hx : specClient x with
  | none =>
    cases hy : specClient y with
    | none => simp
    | some q => obtain ⟨f, b⟩ := q; cases f <;> simp
  | some p =>
    obtain ⟨f, a⟩ := p
    cases hy : specClient y with
    | none => cases f <;> simp
    | some q =>
      obtain ⟨g, b⟩ := q
      cases f <;> cases g <;> simp [maskBits_eq_iff, Bool.beq_eq_decide_eq]

theorem toS_id_beq (c : Opts) (e0 e : Ev) :
    ((e0.toS c).id == (e.toS c).id) = decide (mask c.setDefault e0.addr = mask c.setDefault e.addr) :=
  specSame_eq c e0.addr e.addr

/-! ### clause 1: the window bound, as the specification walks it -/

/-- arrival times are non-decreasing and not before `τ` -/
def sortedEvs (τ : Nat) : List Ev → Prop
  | [] => True
  | e :: es => τ ≤ e.t ∧ sortedEvs e.t es

theorem sortedEvs_of_sortedTimes : ∀ (es : List Ev), sortedTimes es = true → sortedEvs 0 es
  | [], _ => trivial
  | [e], _ => ⟨Nat.zero_le _, trivial⟩
  | e :: e' :: es, h => by
    simp [sortedTimes] at h
    have ih := sortedEvs_of_sortedTimes (e' :: es) h.2
    exact ⟨Nat.zero_le _, h.1, ih.2⟩

theorem cast_mul_sub (L a b : Nat) (h : b ≤ a) : ((L * (a - b) : Nat) : Int) = (L : Int) * ((a : Int) - b) := by
  rw [Int.natCast_mul, Int.natCast_sub h]

theorem limit_of_opts (c : Opts) (cl : ClientLimiter) (h : cl.opts = c.setDefault) : cl.limit = specLimit c := by
  have := new_limit c
  simpa [ClientLimiter.limit, ClientLimiter.new, h] using this

theorem burst_of_opts (c : Opts) (cl : ClientLimiter) (h : cl.opts = c.setDefault) : cl.burst = specBurst c := by
  have := new_burst c
  simpa [ClientLimiter.burst, ClientLimiter.new, h] using this

theorem specWalk_ok (c : Opts) (slack : Int) (e0 : Ev) (hslack : (specLimit c : Int) - 1 ≤ slack) :
    ∀ (es : List Ev) (cl : ClientLimiter) (acc τ : Nat), cl.opts = c.setDefault →
      (cl.bucketOf (mask cl.opts e0.addr)).Inv cl.limit τ → sortedEvs τ es → e0.t ≤ τ →
      ((acc * nano : Nat) : Int) + (cl.bucketOf (mask cl.opts e0.addr)).avail cl.limit cl.burst τ
        ≤ ((cl.burst * nano : Nat) : Int) + ((cl.limit * (τ - e0.t) : Nat) : Int) →
      specWalk c slack (e0.toS c) acc (es.map (Ev.toS c)) (cl.runAt es) = true := by
  intro es
  induction es with
  | nil => intro cl acc τ _ _ _ _ _; rfl
  | cons e es ih =>
    intro cl acc τ hopts hinv hs h0 hpot
    obtain ⟨hte, hs'⟩ := hs
    have hL := limit_of_opts c cl hopts
    have hB := burst_of_opts c cl hopts
    have hLpos : 0 < cl.limit := hL ▸ specLimit_pos c
    have hinv' := cl.bucket_inv_step (mask cl.opts e0.addr) e hinv hte
    have hstep := Bucket.avail_step cl.limit cl.burst (cl.bucketOf (mask cl.opts e0.addr)) hinv.2 (Nat.le_refl τ) hte
    have hdist : cl.limit * (e.t - e0.t) = cl.limit * (τ - e0.t) + cl.limit * (e.t - τ) := by
      rw [← Nat.mul_add]; congr 1; omega
    have hge := Bucket.avail_ge cl.limit cl.burst hLpos _ e.t e.t hinv'
    have hcast := cast_mul_sub cl.limit e.t e0.t (Nat.le_trans h0 hte)
    simp only [ClientLimiter.runAt, List.map, specWalk, toS_id_beq, ← hopts]
    have ht0 : (e0.toS c).t = e0.t := rfl
    have hte' : (e.toS c).t = e.t := rfl
    have hne : (e.toS c).n = e.n := rfl
    rw [ht0, hte', hne]
    by_cases hk : mask cl.opts e0.addr = mask cl.opts e.addr
    · simp only [hk, decide_true, if_true, Bool.and_eq_true, decide_eq_true_eq]
      rw [hk] at hinv' hstep hpot hge hinv
      rw [ClientLimiter.bucketOf_allowN_same] at hge
      have IH := fun acc' hp => ih (cl.allowNAt e.addr e.t e.n).2 acc' e.t (by simpa using hopts)
        (by simpa [hk] using hinv') hs' (Nat.le_trans h0 hte) hp
      simp only [ClientLimiter.allowN_opts, ClientLimiter.allowN_limit, ClientLimiter.allowN_burst, hk,
        ClientLimiter.bucketOf_allowN_same] at IH
      cases hd : (cl.allowNAt e.addr e.t e.n).1 with
      | true =>
        rw [ClientLimiter.allowN_fst] at hd
        obtain ⟨_, _, h3⟩ := Bucket.allowN_true hd
        have hcap := Bucket.avail_le_cap cl.limit cl.burst (cl.bucketOf (mask cl.opts e.addr)) e.t
        have hn : (0:Int) ≤ ((e.n * nano : Nat) : Int) := Int.natCast_nonneg _
        rw [h3, Bucket.avail_after _ _ _ _ (by omega)] at hge
        have hp : (((acc + e.n) * nano : Nat) : Int) +
            ((cl.bucketOf (mask cl.opts e.addr)).allowN cl.limit cl.burst e.t e.n).2.avail cl.limit cl.burst e.t
              ≤ ((cl.burst * nano : Nat) : Int) + ((cl.limit * (e.t - e0.t) : Nat) : Int) := by
          rw [h3, Bucket.avail_after _ _ _ _ (by omega), hdist, Nat.add_mul]
          push_cast at hpot hstep ⊢
          omega
        refine ⟨?_, IH _ hp⟩
        simp only [if_true, specBudget, ← hL, ← hB, ← hcast]
        rw [h3, Bucket.avail_after _ _ _ _ (by omega)] at hp
        omega
      | false =>
        rw [ClientLimiter.allowN_fst] at hd
        have h3 := (Bucket.allowN_false hd).2
        rw [h3] at hge
        have hp : ((acc * nano : Nat) : Int) +
            ((cl.bucketOf (mask cl.opts e.addr)).allowN cl.limit cl.burst e.t e.n).2.avail cl.limit cl.burst e.t
              ≤ ((cl.burst * nano : Nat) : Int) + ((cl.limit * (e.t - e0.t) : Nat) : Int) := by
          rw [h3, hdist]
          push_cast at hpot hstep ⊢
          omega
        refine ⟨?_, by simpa using IH _ hp⟩
        simp only [Bool.false_eq_true, if_false, Nat.add_zero, specBudget, ← hL, ← hB, ← hcast]
        rw [h3] at hp
        omega
    · simp only [hk, decide_false, Bool.false_eq_true, if_false]
      have hk' : mask cl.opts e.addr ≠ mask cl.opts e0.addr := fun h => hk h.symm
      have IH := ih (cl.allowNAt e.addr e.t e.n).2 acc e.t (by simpa using hopts) (by simpa using hinv') hs'
        (Nat.le_trans h0 hte)
      simp only [ClientLimiter.allowN_opts, ClientLimiter.allowN_limit, ClientLimiter.allowN_burst,
        ClientLimiter.bucketOf_allowN_other _ _ _ _ _ hk'] at IH
      apply IH
      rw [hdist]
      push_cast at hpot hstep ⊢
      omega

/-- clause 1 holds for the model from every state that satisfies the invariant -/
theorem specBound_ok (c : Opts) (slack : Int) (hslack : (specLimit c : Int) - 1 ≤ slack) :
    ∀ (es : List Ev) (cl : ClientLimiter) (τ : Nat), cl.opts = c.setDefault → cl.Inv τ → sortedEvs τ es →
      specBound c slack es (cl.runAt es) = true := by
  unfold specBound
  intro es
  induction es with
  | nil => intro cl τ _ _ _; rfl
  | cons e es ih =>
    intro cl τ hopts hinv hs
    have hL := limit_of_opts c cl hopts
    have hLpos : 0 < cl.limit := hL ▸ specLimit_pos c
    have hw := specWalk_ok c slack e hslack (e :: es) cl 0 e.t hopts ((hinv _).mono hs.1)
      ⟨Nat.le_refl _, hs.2⟩ (Nat.le_refl _) (by
        have := Bucket.avail_le_cap cl.limit cl.burst (cl.bucketOf (mask cl.opts e.addr)) e.t
        simp only [Nat.zero_mul, Nat.sub_self, Nat.mul_zero]
        omega)
    have IH := ih (cl.allowNAt e.addr e.t e.n).2 e.t (by simpa using hopts) (cl.inv_step e hinv hs.1) hs.2
    simp only [ClientLimiter.runAt, List.map] at hw
    simp only [ClientLimiter.runAt, List.map, specBoundS, hw, IH, Bool.and_self]

/-! ### clause 2: no refusal while the own subnet is within budget -/

theorem specBudget_add (c : Opts) (d d' : Int) :
    specBudget c (d + d') = specBudget c d + (specLimit c : Int) * d' := by
  unfold specBudget
  rw [Int.mul_add]; omega

/-- looking back from a later instant with correspondingly more cost is the same scan -/
theorem specScan_shift (c : Opts) (slack : Int) (a : Option (Bool × Nat)) (t te : Nat) :
    ∀ (ps : List (SEv × Bool)) (x : Int),
      specScan c slack a te (x - (specLimit c : Int) * ((t : Int) - te)) ps = specScan c slack a t x ps := by
  intro ps
  induction ps with
  | nil => intro x; rfl
  | cons p ps ih =>
    intro x
    obtain ⟨p, d⟩ := p
    simp only [specScan]
    split
    · have hb : specBudget c ((t : Int) - p.t) =
          specBudget c ((te : Int) - p.t) + (specLimit c : Int) * ((t : Int) - te) := by
        rw [← specBudget_add]; congr 1; omega
      have hx : x - (specLimit c : Int) * ((t : Int) - te) + (if d = true then ((p.n * nano : Nat) : Int) else 0)
          = x + (if d = true then ((p.n * nano : Nat) : Int) else 0) - (specLimit c : Int) * ((t : Int) - te) := by
        omega
      rw [hx, ih, hb]
      congr 1
      apply decide_eq_decide.mpr
      constructor <;> intro h <;> omega
    · exact ih x

/-- every shortfall of `k`'s bucket is explained by a window of `k`'s own past arrivals:
    whoever asks at `t` for more (`x` nano-tokens) than the bucket holds would exceed
    `burst + rate·window` for the window starting now or at one of the past arrivals of `k`. -/
def Tight (c : Opts) (slack : Int) (cl : ClientLimiter) (k : Addr) (past : List (SEv × Bool)) (τ : Nat) : Prop :=
  ∀ (t : Nat) (x : Int) (a : Addr), τ ≤ t → t ≤ maxDuration → mask cl.opts a = k →
    (cl.bucketOf k).avail cl.limit cl.burst t < x →
    x + slack > specBudget c 0 ∨ specScan c slack (subnetId c a) t x past = true

theorem specBudget_zero (c : Opts) : specBudget c 0 = ((specBurst c * nano : Nat) : Int) := by
  simp [specBudget]

theorem avail_fresh (c : Opts) (L B t : Nat) (hL : L = specLimit c) (hB : B = specBurst c)
    (hs : saneBurst c = true) : Bucket.fresh.avail L B t = ((B * nano : Nat) : Int) := by
  subst hL hB
  simp only [saneBurst, decide_eq_true_eq] at hs
  simp only [Bucket.avail, Bucket.fresh, Bucket.elapsed]
  have : ((specBurst c * nano : Nat) : Int) ≤ ((specLimit c * maxDuration : Nat) : Int) := Int.ofNat_le.mpr hs
  omega

theorem tight_new (c : Opts) (slack : Int) (hslack : 0 ≤ slack) (hs : saneBurst c = true) (k : Addr) (τ : Nat) :
    Tight c slack (ClientLimiter.new c) k [] τ := by
  intro t x a _ _ _ hx
  left
  rw [ClientLimiter.bucketOf_new, avail_fresh c _ _ t (new_limit c) (new_burst c) hs, new_burst] at hx
  rw [specBudget_zero]
  omega

theorem avail_mk (L B : Nat) (x : Int) (te t : Nat) (h : te ≤ t) (hM : t ≤ maxDuration) :
    (Bucket.mk x (some te)).avail L B t = min ((B * nano : Nat) : Int) (x + ((L * (t - te) : Nat) : Int)) := by
  have hel : (Bucket.mk x (some te)).elapsed t = t - te := by
    simp only [Bucket.elapsed]
    rw [if_neg (by omega)]
    omega
  simp only [Bucket.avail, hel]

theorem tight_step (c : Opts) (slack : Int) (hslack : 0 ≤ slack) (cl : ClientLimiter) (hopts : cl.opts = c.setDefault)
    (past : List (SEv × Bool)) (τ : Nat) (e : Ev) (hte : τ ≤ e.t) (k : Addr)
    (hinv : (cl.bucketOf k).Inv cl.limit τ)
    (h : Tight c slack cl k past τ) :
    Tight c slack (cl.allowNAt e.addr e.t e.n).2 k ((e.toS c, (cl.allowNAt e.addr e.t e.n).1) :: past) e.t := by
  have hL := limit_of_opts c cl hopts
  have hB := burst_of_opts c cl hopts
  intro t x a ht htM ha hx
  simp only [ClientLimiter.allowN_opts, ClientLimiter.allowN_limit, ClientLimiter.allowN_burst] at ha hx
  by_cases hk : mask cl.opts e.addr = k
  · -- an arrival of this key
    have hsame : (subnetId c a == (e.toS c).id) = true := by
      have := specSame_eq c a e.addr
      unfold specSame at this
      simp only [Ev.toS]
      rw [this, ← hopts, ha, hk]; simp
    have hpt : (e.toS c).t = e.t := rfl
    have hpn : (e.toS c).n = e.n := rfl
    subst hk
    rw [ClientLimiter.bucketOf_allowN_same] at hx
    simp only [specScan, hsame, if_true, Bool.or_eq_true, decide_eq_true_eq, hpt, hpn]
    cases hd : (cl.allowNAt e.addr e.t e.n).1 with
    | false =>
      rw [ClientLimiter.allowN_fst] at hd
      rw [(Bucket.allowN_false hd).2] at hx
      rcases h t x a (Nat.le_trans hte ht) htM ha hx with h1 | h1
      · left; exact h1
      · right; right
        simpa using h1
    | true =>
      rw [ClientLimiter.allowN_fst] at hd
      obtain ⟨_, _, h3⟩ := Bucket.allowN_true hd
      rw [h3] at hx
      -- what the new bucket holds at `t`
      rw [avail_mk _ _ _ _ _ ht htM] at hx
      have hcast := cast_mul_sub cl.limit t e.t ht
      by_cases hcap : ((cl.burst * nano : Nat) : Int) < x
      · left
        rw [specBudget_zero, ← hB]; omega
      · right
        have hx' : (cl.bucketOf (mask cl.opts e.addr)).avail cl.limit cl.burst e.t
            < x + ((e.n * nano : Nat) : Int) - (specLimit c : Int) * ((t : Int) - e.t) := by
          rw [← hL, ← hcast]
          omega
        rcases h e.t _ a hte (Nat.le_trans ht htM) ha hx' with h1 | h1
        · left
          have := specBudget_add c 0 ((t : Int) - e.t)
          simp only [Int.zero_add] at this
          simp only [if_true]
          rw [this]
          omega
        · right
          rw [specScan_shift] at h1
          simpa using h1
  · -- an arrival of another key: the bucket is untouched, the scan skips it
    have hdiff : (subnetId c a == (e.toS c).id) = false := by
      have := specSame_eq c a e.addr
      unfold specSame at this
      simp only [Ev.toS]
      rw [this, ← hopts, ha]
      simp only [decide_eq_false_iff_not]
      exact fun h => hk h.symm
    rw [ClientLimiter.bucketOf_allowN_other _ _ _ _ _ hk] at hx
    simp only [specScan, hdiff, Bool.false_eq_true, if_false]
    exact h t x a (Nat.le_trans hte ht) htM ha hx

/-- clause 2 holds for the model from every tight state -/
theorem specNoSpur_ok (c : Opts) (slack : Int) (hslack : 0 ≤ slack) :
    ∀ (es : List Ev) (cl : ClientLimiter) (past : List (SEv × Bool)) (τ : Nat), cl.opts = c.setDefault →
      cl.Inv τ → (∀ k, Tight c slack cl k past τ) → sortedEvs τ es → (∀ e ∈ es, e.t ≤ maxDuration) →
      specNoSpuriousRefusalS c slack past (es.map (Ev.toS c)) (cl.runAt es) = true := by
  intro es
  induction es with
  | nil => intro cl past τ _ _ _ _ _; rfl
  | cons e es ih =>
    intro cl past τ hopts hinv ht hs hM
    have hL := limit_of_opts c cl hopts
    have hB := burst_of_opts c cl hopts
    have hLpos : 0 < cl.limit := hL ▸ specLimit_pos c
    have IH := ih (cl.allowNAt e.addr e.t e.n).2 ((e.toS c, (cl.allowNAt e.addr e.t e.n).1) :: past) e.t
      (by simpa using hopts) (cl.inv_step e hinv hs.1)
      (fun k => tight_step c slack hslack cl hopts past τ e hs.1 k (hinv k) (ht k)) hs.2
      (fun e' he' => hM e' (List.mem_cons_of_mem _ he'))
    simp only [ClientLimiter.runAt, List.map, specNoSpuriousRefusalS, IH, Bool.and_true]
    cases hd : (cl.allowNAt e.addr e.t e.n).1 with
    | true => rfl
    | false =>
      rw [ClientLimiter.allowN_fst] at hd
      have hno := (Bucket.allowN_false hd).1
      have hpt : (e.toS c).t = e.t := rfl
      have hpn : (e.toS c).n = e.n := rfl
      have hpi : (e.toS c).id = subnetId c e.addr := rfl
      simp only [Bool.false_or, specExhausted, Bool.or_eq_true, decide_eq_true_eq, hpt, hpn, hpi]
      by_cases hn : e.n ≤ cl.burst
      · have hlt : (cl.bucketOf (mask cl.opts e.addr)).avail cl.limit cl.burst e.t < ((e.n * nano : Nat) : Int) := by
          have : ¬ (-((cl.bucketOf (mask cl.opts e.addr)).avail cl.limit cl.burst e.t - ((e.n * nano : Nat) : Int))
              < (cl.limit : Int)) := fun h => hno ⟨hn, h⟩
          omega
        rcases ht _ e.t _ e.addr hs.1 (hM e List.mem_cons_self) rfl hlt with h1 | h1
        · left; exact h1
        · right; exact h1
      · left
        rw [specBudget_zero, ← hB]
        have : cl.burst * nano < e.n * nano := Nat.mul_lt_mul_of_pos_right (by omega) (by decide)
        omega

end MosVerif.Limiter
