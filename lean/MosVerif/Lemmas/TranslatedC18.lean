/-
  Tie by translation (C18, counting / limit conditions): the close model (Model/Close.lean) abstracts a pipelined
  connection's id counter as `left` = the number of wire ids it has left = `idSpace - nextQid`. Under that reading
  its two tests — `0 < c.left` in `usable` (the pool picks the connection: `Status().Available`, nothing reserved)
  and `c.left = 0 && no query in flight` in `sweep` (`deleteQueueC`: `eol := c.nextQid > 65535 && len(c.queue) ==
  0`) — are, for every value of the counter, the conditions translated mechanically from the current Go source
  (fragments shared with C05: internal/upstream/transport/pipeline_conn.go).
-/
import MosVerif.Generated.Translated
import MosVerif.Model.Close
namespace MosVerif.Close
open MosVerif

theorem id_pure_c18 {α : Type} (x : α) : (pure x : Id α) = x := rfl

/-- normalise a translated fragment: unfold the `do` block, split its `if`s, Bool equality as `↔`, then
    simplification and linear arithmetic -/
local macro "tie_tac" : tactic => `(tactic| (
  (try simp only [Id.run, id_pure_c18])
  <;> (try (repeat' split))
  <;> (try (rw [Bool.eq_iff_iff]))
  <;> (try simp_all)
  <;> (try omega)))

theorem c18_addQ_eol_eq (n : Nat) : Translated.c05_addQ_eol n = decide (n > 65535) := by
  unfold Translated.c05_addQ_eol
  tie_tac

theorem c18_delQ_eol_eq (n l : Nat) : Translated.c05_delQ_eol n l = (decide (n > 65535) && decide (l = 0)) := by
  unfold Translated.c05_delQ_eol
  tie_tac

theorem c18_status_avail_eq (a : Bool) (n r : Nat) : Translated.c05_status_avail a n r = decide (n + r ≤ 65535) := by
  unfold Translated.c05_status_avail
  tie_tac

/-- `usable`: a pipelined connection is picked iff it is open, tracked and `Status().Available` (translated) -/
theorem usable_pipe_translated (c : Conn) (nextQid : Nat) (a : Bool) (h : c.left = idSpace - nextQid) :
    usable .pipe c = (c.isOpen && c.tracked && Translated.c05_status_avail a nextQid 0) := by
  rw [c18_status_avail_eq]
  unfold usable idSpace at *
  by_cases h1 : nextQid ≤ 65535
  · have : 0 < c.left := by omega
    simp [h1, this]
  · have : ¬ 0 < c.left := by omega
    simp [h1, this]

/-- the counter test of `addQueueC` (end of life: no id is handed out) is `left = 0` -/
theorem left_zero_translated (nextQid : Nat) :
    decide (idSpace - nextQid = 0) = Translated.c05_addQ_eol nextQid := by
  rw [c18_addQ_eol_eq]
  unfold idSpace
  by_cases h : nextQid > 65535
  · have : 65536 - nextQid = 0 := by omega
    simp [h, this]
  · have : ¬ 65536 - nextQid = 0 := by omega
    simp [h, this]

/-- `sweep`: the connection closes itself iff the translated `eol` holds of its counter and of the number of
    its queries in flight (`len(c.queue)`) -/
theorem sweep_cond_translated (c : Conn) (exs : List Ex) (nextQid : Nat) (h : c.left = idSpace - nextQid) :
    (decide (c.left = 0) && !(exs.any (fun x => x.res.isNone && x.loc == .conn c.id))) =
      Translated.c05_delQ_eol nextQid (exs.filter (fun x => x.res.isNone && x.loc == .conn c.id)).length := by
  rw [c18_delQ_eol_eq, h, left_zero_translated, c18_addQ_eol_eq]
  have hl : (!(exs.any (fun x => x.res.isNone && x.loc == .conn c.id))) =
      decide ((exs.filter (fun x => x.res.isNone && x.loc == .conn c.id)).length = 0) := by
    generalize (fun x : Ex => x.res.isNone && x.loc == .conn c.id) = p
    induction exs with
    | nil => simp
    | cons x xs ih => cases hp : p x <;> simp_all [List.filter]
  rw [hl]

end MosVerif.Close
