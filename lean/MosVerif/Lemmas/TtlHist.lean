/-
  C08 — invariants of the memory backend model over arbitrary histories (Model/Ttl.lean).
-/
import MosVerif.Lemmas.Ttl
namespace MosVerif.Ttl

/-- nanoseconds per second = per tick of otter's clock -/
abbrev G : Nat := 1000000000

/-- What is assumed of otter's clock (`unixtime.Now()`, a counter bumped by a one-second ticker): instants are
    nanoseconds from an arbitrary origin, the clock's own origin lies `off` ns before it; the counter is never
    ahead of real time and less than one tick behind. -/
structure ClockOK (clock : Nat → Nat) (off : Nat) : Prop where
  notAhead : ∀ t, clock t ≤ (t + off) / G
  lag : ∀ t, (t + off) / G ≤ clock t + 1

theorem clockOK_exact (off : Nat) : ClockOK (fun t => (t + off) / G) off :=
  ⟨fun _ => Nat.le_refl _, fun _ => Nat.le_succ _⟩

theorem clockOK_hist : ClockOK histClock (500 * msNs) := clockOK_exact _

/-- what is true of every node of the hash map -/
structure EntryOK (cfg : Cfg) (off : Nat) (e : Entry) : Prop where
  /-- expireTime = storedTime + the policy's lifetime for the stored message -/
  life : (e.expire : Int) = e.stored + storeTtl e.msg cfg.maximumTtl
  /-- a truncated message is never stored -/
  notTC : e.msg.tc = false
  /-- otter's expiration tick is at most ⌈expireTime⌉ on its clock -/
  tick : e.expTick * G < e.expire + off + G

def Inv (cfg : Cfg) (off : Nat) (mem : Mem) : Prop := ∀ k e, mem k = some e → EntryOK cfg off e

theorem inv_empty (cfg : Cfg) (off : Nat) : Inv cfg off Mem.empty := by
  intro k e h; simp [Mem.empty] at h

theorem inv_del (cfg : Cfg) (off : Nat) (mem : Mem) (k : Nat) (h : Inv cfg off mem) : Inv cfg off (mem.del k) := by
  intro k' e he
  unfold Mem.del at he
  split at he
  · cases he
  · exact h k' e he

theorem inv_set (cfg : Cfg) (off : Nat) (mem : Mem) (k : Nat) (e : Entry) (h : Inv cfg off mem)
    (he : EntryOK cfg off e) : Inv cfg off (mem.set k e) := by
  intro k' e' h'
  unfold Mem.set at h'
  split at h'
  · cases h'; exact he
  · exact h k' e' h'

/-- otter's getTTL never rounds up by more than one tick -/
theorem otterTtlTicks_le (x : Int) (hx : 0 ≤ x + 999999999) :
    (otterTtlTicks x : Int) * 1000000000 ≤ x + 999999999 := by
  unfold otterTtlTicks second u32
  have h0 : (0 : Int) ≤ x + 1000000000 - 1 := by omega
  rw [Int.tdiv_eq_ediv_of_nonneg h0]
  omega

theorem store_some (b : Bool) (m : Msg) (cap : Int) (c : StoreCall) (h : store b (some m) cap = some c) :
    b = true ∧ m.tc = false ∧ c.msg = m ∧ c.ttl = storeTtl m cap ∧ c.setNX = (m.rcode != 0) := by
  unfold store at h
  cases b <;> cases htc : m.tc <;> simp [htc] at h
  subst h; simp

theorem storeTtl_pos (m : Msg) (cap : Int) (hc : 0 < cap) : 0 < storeTtl m cap ∧ storeTtl m cap ≤ cap := by
  rw [storeTtl_eq]
  generalize baseTtl m.rcode (getMinimalTTL m).1.toNat (getMinimalTTL m).2 = B
  unfold clampTtl second
  simp only
  split <;> split <;> omega

/-- the node cacheCtl.Store creates satisfies the invariant (the Store call is not stalled for a second or more
    between `time.Now()` and the backend's clock read) -/
theorem cacheStore_inv (clock : Nat → Nat) (off : Nat) (cfg : Cfg) (mem : Mem) (k : Nat) (resp : Option Msg)
    (now delay id : Nat) (hclk : ClockOK clock off) (hcap : 0 < cfg.maximumTtl) (hd : delay < G)
    (h : Inv cfg off mem) : Inv cfg off (cacheStore clock cfg mem k resp now delay id) := by
  unfold cacheStore
  cases resp with
  | none => cases hb : cfg.hasBackend <;> simpa [store, hb] using h
  | some m =>
    cases hs : store cfg.hasBackend (some m) cfg.maximumTtl with
    | none => simpa using h
    | some c =>
      obtain ⟨-, htc, hmsg, httl, -⟩ := store_some _ _ _ _ hs
      have hpos := storeTtl_pos m cfg.maximumTtl hcap
      rw [← httl] at hpos
      simp only
      unfold otterSet
      have hnew : EntryOK cfg off
          { stored := now, expire := ((now : Int) + c.ttl).toNat,
            expTick := (clock (now + delay) + otterTtlTicks ((now : Int) + c.ttl - ((now + delay : Nat) : Int))) % u32,
            msg := c.msg, id := id } := by
        have hexp : ((((now : Int) + c.ttl).toNat : Nat) : Int) = now + c.ttl := by
          apply Int.toNat_of_nonneg; omega
        refine ⟨?_, ?_, ?_⟩
        · simp only [hmsg]; rw [hexp, httl]
        · simp only [hmsg]; exact htc
        · simp only
          have ha := hclk.notAhead (now + delay)
          have ha' : clock (now + delay) * 1000000000 ≤ now + delay + off :=
            Nat.le_trans (Nat.mul_le_mul_right _ ha) (Nat.div_mul_le_self _ _)
          have hb := otterTtlTicks_le ((now : Int) + c.ttl - ((now + delay : Nat) : Int)) (by simp only [G] at hd; omega)
          generalize otterTtlTicks _ = b at hb ⊢
          generalize clock (now + delay) = a at ha' ⊢
          generalize ((now : Int) + c.ttl).toNat = ex at hexp ⊢
          simp only [G] at hd ⊢
          unfold u32
          clear ha
          have hr : (a + b) % 4294967296 ≤ a + b := Nat.mod_le _ _
          generalize (a + b) % 4294967296 = r at hr ⊢
          omega
      split
      · split
        · split
          · exact inv_set _ _ _ _ _ h hnew
          · exact h
        · exact inv_set _ _ _ _ _ h hnew
      · exact inv_set _ _ _ _ _ h hnew

/-- an error response (rcode ≠ 0) is stored set-if-absent: if the key has a live node (not expired on the cache
    clock at the time of the Store), Store changes nothing -/
theorem cacheStore_neg_present (clock : Nat → Nat) (cfg : Cfg) (mem : Mem) (k : Nat) (m : Msg)
    (now delay id : Nat) (e : Entry) (hneg : m.rcode ≠ 0) (hpres : mem k = some e)
    (hlive : clock (now + delay) < e.expTick) :
    cacheStore clock cfg mem k (some m) now delay id = mem := by
  unfold cacheStore
  cases hs : store cfg.hasBackend (some m) cfg.maximumTtl with
  | none => rfl
  | some c =>
    have hc := store_some _ _ _ _ hs
    have hnx : c.setNX = true := by rw [hc.2.2.2.2]; simp [hneg]
    have hx : ¬ e.expTick ≤ clock (now + delay) := by omega
    simp [otterSet, hnx, hpres, hx]

/-- a positive response (rcode 0, not truncated) is stored with Set and replaces whatever is there -/
theorem cacheStore_pos (clock : Nat → Nat) (cfg : Cfg) (mem : Mem) (k : Nat) (m : Msg) (now delay id : Nat)
    (hb : cfg.hasBackend = true) (htc : m.tc = false) (hpos : m.rcode = 0) :
    ∃ e, cacheStore clock cfg mem k (some m) now delay id k = some e ∧ e.msg = m ∧ e.id = id ∧ e.stored = now := by
  simp [cacheStore, store, hb, htc, hpos, otterSet, Mem.set]

/-- a hit, unfolded -/
theorem cacheGet_some (clock : Nat → Nat) (mem : Mem) (k now : Nat) (served : Msg) (e : Entry)
    (h : cacheGet clock mem k now = some (served, e)) :
    mem k = some e ∧ clock now < e.expTick ∧ served = subtractTTL e.msg (elapsedDelta (now - e.stored)) := by
  unfold cacheGet otterGet at h
  cases hm : mem k with
  | none => simp [hm] at h
  | some e' =>
    simp only [hm] at h
    by_cases hx : e'.expTick ≤ clock now
    · simp [hx] at h
    · simp only [hx, if_false, Option.some.injEq, Prod.mk.injEq] at h
      obtain ⟨h1, h2⟩ := h
      subst h2
      exact ⟨rfl, by omega, h1.symm⟩

/-- a hit happens less than 2 s after the node's expireTime -/
theorem hit_before_expiry (clock : Nat → Nat) (off : Nat) (cfg : Cfg) (e : Entry) (now : Nat)
    (hclk : ClockOK clock off) (he : EntryOK cfg off e) (hlive : clock now < e.expTick) :
    now < e.expire + 2 * G := by
  have h1 := hclk.lag now
  have h2 := he.tick
  have h3 : now + off < ((now + off) / G + 1) * G := by
    have := Nat.lt_div_mul_add (a := now + off) (b := G) (by decide)
    have hm := Nat.mod_lt (now + off) (show G > 0 by decide)
    have hd := Nat.div_add_mod (now + off) G
    simp only [G] at *
    omega
  have h4 : ((now + off) / G + 1) * G ≤ (e.expTick + 1) * G := Nat.mul_le_mul_right _ (by omega)
  simp only [G] at *
  omega

theorem handleQuery_inv (clock : Nat → Nat) (off : Nat) (cfg : Cfg) (mem : Mem) (k : Nat) (up : Upstream)
    (now delay id : Nat) (hclk : ClockOK clock off) (hcap : 0 < cfg.maximumTtl) (hd : delay < G)
    (h : Inv cfg off mem) : Inv cfg off (handleQuery clock cfg mem k up now delay id).1 := by
  unfold handleQuery
  cases hg : cacheGet clock mem k now with
  | some p => obtain ⟨served, e⟩ := p; simpa using h
  | none =>
    cases up with
    | err => simpa using h
    | reply m => simpa using cacheStore_inv clock off cfg mem k _ now delay id hclk hcap hd h

/-- the Store calls of a step are not stalled for a second or more -/
def Step.prompt : Step → Prop
  | .store _ _ _ d => d < G
  | .query _ _ _ d => d < G
  | _ => True

theorem step_inv (clock : Nat → Nat) (off : Nat) (cfg : Cfg) (mem : Mem) (id : Nat) (s : Step)
    (hclk : ClockOK clock off) (hcap : 0 < cfg.maximumTtl) (hp : s.prompt) (h : Inv cfg off mem) :
    Inv cfg off (step clock cfg mem id s).1 := by
  cases s with
  | store k resp t delay => exact cacheStore_inv clock off cfg mem k resp t delay id hclk hcap hp h
  | get k t =>
    cases hg : cacheGet clock mem k t with
    | none => simpa [step, hg] using h
    | some p => obtain ⟨served, e⟩ := p; simpa [step, hg] using h
  | query k up t delay =>
    unfold step
    exact handleQuery_inv clock off cfg mem k up t delay id hclk hcap hp h
  | evict k => exact inv_del _ _ _ _ h

/-- what a single observation guarantees -/
def ObsOK (cfg : Cfg) (off : Nat) : Step → Obs → Prop
  | .get _ t, .hit e served =>
    EntryOK cfg off e ∧ t < e.expire + 2 * G ∧ served = subtractTTL e.msg (elapsedDelta (t - e.stored))
  | .get _ _, .miss => True
  | .query _ _ t _, .q (.cached id served) =>
    ∃ e, e.id = id ∧ EntryOK cfg off e ∧ t < e.expire + 2 * G ∧
      served = popEDNS0 (subtractTTL e.msg (elapsedDelta (t - e.stored)))
  | .query _ (.reply m) _ _, .q (.upstream _ m') => m' = removeEDNS0 m
  | .query _ .err _ _, .q .failed => True
  | .store _ _ _ _, .none => True
  | .evict _, .none => True
  | _, _ => False

theorem step_obs (clock : Nat → Nat) (off : Nat) (cfg : Cfg) (mem : Mem) (id : Nat) (s : Step)
    (hclk : ClockOK clock off) (h : Inv cfg off mem) : ObsOK cfg off s (step clock cfg mem id s).2 := by
  cases s with
  | store k resp t delay => simp [step, ObsOK]
  | get k t =>
    cases hg : cacheGet clock mem k t with
    | none => simp [step, hg, ObsOK]
    | some p =>
      obtain ⟨served, e⟩ := p
      obtain ⟨hm, hl, hs⟩ := cacheGet_some _ _ _ _ _ _ hg
      have he := h k e hm
      simp only [step, hg, ObsOK]
      exact ⟨he, hit_before_expiry clock off cfg e t hclk he hl, hs⟩
  | query k up t delay =>
    cases hg : cacheGet clock mem k t with
    | some p =>
      obtain ⟨served, e⟩ := p
      obtain ⟨hm, hl, hs⟩ := cacheGet_some _ _ _ _ _ _ hg
      have he := h k e hm
      simp only [step, handleQuery, hg, ObsOK]
      exact ⟨e, rfl, he, hit_before_expiry clock off cfg e t hclk he hl, by rw [hs]⟩
    | none =>
      cases up with
      | err => simp [step, handleQuery, hg, ObsOK]
      | reply m => simp [step, handleQuery, hg, ObsOK]
  | evict k => simp [step, ObsOK]

/-- all observations of a history -/
def AllObsOK (cfg : Cfg) (off : Nat) : List Step → List Obs → Prop
  | [], [] => True
  | s :: ss, o :: os => ObsOK cfg off s o ∧ AllObsOK cfg off ss os
  | _, _ => False

theorem run_sound (clock : Nat → Nat) (off : Nat) (cfg : Cfg) (hclk : ClockOK clock off) (hcap : 0 < cfg.maximumTtl)
    (steps : List Step) : ∀ (mem : Mem) (id : Nat), (∀ s ∈ steps, s.prompt) → Inv cfg off mem →
    Inv cfg off (runFrom clock cfg mem id steps).1 ∧ AllObsOK cfg off steps (runFrom clock cfg mem id steps).2 := by
  induction steps with
  | nil => intro mem id _ h; exact ⟨h, trivial⟩
  | cons s rest ih =>
    intro mem id hp h
    have hs := step_inv clock off cfg mem id s hclk hcap (hp s (by simp)) h
    have ho := step_obs clock off cfg mem id s hclk h
    have := ih (step clock cfg mem id s).1 (id + 1) (fun x hx => hp x (by simp [hx])) hs
    simp only [runFrom]
    exact ⟨this.1, ho, this.2⟩

/-! ### the lifetime policy against the property text -/

/-- The lifetime `cacheCtl.Store` gives to a response, for every message and every configured maximum whose
    seconds·10⁹ fit int64: at least 1 s; at most the configured maximum (6 h when the setting is ≤ 0); at most
    30 s for NXDOMAIN; exactly 1 s for SERVFAIL; at most 5 s for the other error codes; at most 30 s for an answer
    without records; at most the smallest record TTL when there are records (1 s when that TTL is 0). -/
theorem lifetimeBounds (m : Msg) (cfgMax : Int) (h1 : -9223372037 < cfgMax) (h2 : cfgMax < 9223372037) :
    second ≤ storeTtl m (initMaxTtl cfgMax) ∧
    storeTtl m (initMaxTtl cfgMax) ≤ initMaxTtl cfgMax ∧
    (cfgMax ≤ 0 → storeTtl m (initMaxTtl cfgMax) ≤ 21600 * second) ∧
    (0 < cfgMax → storeTtl m (initMaxTtl cfgMax) ≤ cfgMax * second) ∧
    (m.rcode = 3 → storeTtl m (initMaxTtl cfgMax) ≤ 30 * second) ∧
    (m.rcode = 2 → storeTtl m (initMaxTtl cfgMax) = second) ∧
    (m.rcode ≠ 0 → m.rcode ≠ 2 → m.rcode ≠ 3 → storeTtl m (initMaxTtl cfgMax) ≤ 5 * second) ∧
    ((getMinimalTTL m).2 = false → storeTtl m (initMaxTtl cfgMax) ≤ 30 * second) ∧
    ((getMinimalTTL m).2 = true → 1 ≤ (getMinimalTTL m).1.toNat →
        storeTtl m (initMaxTtl cfgMax) ≤ (getMinimalTTL m).1.toNat * second) ∧
    ((getMinimalTTL m).2 = true → (getMinimalTTL m).1.toNat = 0 → storeTtl m (initMaxTtl cfgMax) = second) := by
  obtain ⟨hcap, -, -, hdef, hcfg, -⟩ := initMaxTtl_bounds cfgMax h1 h2
  rw [storeTtl_eq]
  have hb := baseTtl_bounds m.rcode (getMinimalTTL m).1.toNat (getMinimalTTL m).2
  have hc := clampTtl_bounds _ (initMaxTtl cfgMax) hcap hb.1
  generalize baseTtl m.rcode (getMinimalTTL m).1.toNat (getMinimalTTL m).2 = B at hb hc ⊢
  generalize clampTtl B (initMaxTtl cfgMax) = L at hc ⊢
  generalize (getMinimalTTL m).1.toNat = u at hb ⊢
  generalize initMaxTtl cfgMax = cap at *
  obtain ⟨-, b3, b2, b5, bno, bhas⟩ := hb
  obtain ⟨c1, c2, c3, c4⟩ := hc
  unfold second at *
  refine ⟨c1, c2, ?_, ?_, ?_, ?_, ?_, ?_, ?_, ?_⟩
  · intro h; have := hdef h; omega
  · intro h; have := hcfg h; omega
  · intro h; have := b3 h; omega
  · intro h; have := b2 h; omega
  · intro h0 h2' h3; have := b5 h0 h2' h3; omega
  · intro h; have := bno h; omega
  · intro h hu; have := bhas h; omega
  · intro h hu; have := bhas h; omega

theorem le_max1_min (L : Int) (a b : Nat) (ha : L ≤ (Nat.max 1 a : Nat) * 1000000000)
    (hb : L ≤ (Nat.max 1 b : Nat) * 1000000000) : L ≤ (Nat.max 1 (Nat.min a b) : Nat) * 1000000000 := by
  simp only [Nat.max_def, Nat.min_def] at *
  split at ha <;> split at hb <;> (repeat' split) <;> omega

theorem le_max1 (L : Int) (a : Nat) (ha : L ≤ (a : Nat) * 1000000000) : L ≤ (Nat.max 1 a : Nat) * 1000000000 := by
  simp only [Nat.max_def]
  split <;> omega

/-- the policy's lifetime never exceeds the lifetime of the property text (at least one second) -/
theorem storeTtl_le_spec (m : Msg) (cfgMax : Int) (h1 : -9223372037 < cfgMax) (h2 : cfgMax < 9223372037) :
    storeTtl m (initMaxTtl cfgMax) ≤ (Nat.max 1 (specLifetime m cfgMax) : Nat) * 1000000000 := by
  obtain ⟨b1, -, bd, bc, b3, b2, b5, bno, bhas, bzero⟩ := lifetimeBounds m cfgMax h1 h2
  generalize storeTtl m (initMaxTtl cfgMax) = L at *
  unfold second at *
  -- the cap
  have hcap : L ≤ (Nat.max 1 (specCap cfgMax) : Nat) * 1000000000 := by
    apply le_max1
    unfold specCap
    by_cases hc : cfgMax ≤ 0
    · have := bd hc; simp only [hc, if_true]; omega
    · have := bc (by omega); simp only [hc, if_false]; omega
  -- the records
  have hrec : L ≤ (Nat.max 1 (match specMinTtl m with | none => specCap cfgMax | some t => Nat.min t (specCap cfgMax)) : Nat) * 1000000000 := by
    rcases getMinimalTTL_eq m with ⟨hs, hg⟩ | ⟨t, hs, hg2, hg1⟩
    · rw [hs]; exact hcap
    · rw [hs]
      apply le_max1_min _ _ _ _ hcap
      by_cases ht : 1 ≤ t
      · have := bhas hg2 (by omega); rw [hg1] at this
        apply le_max1; omega
      · have := bzero hg2 (by omega)
        have ht0 : t = 0 := by omega
        subst ht0
        show L ≤ ((1 : Nat) : Int) * 1000000000
        omega
  unfold specLifetime
  apply le_max1_min _ _ _ hrec
  by_cases r3 : m.rcode = 3
  · have := b3 r3; rw [if_pos r3]; apply le_max1; omega
  · rw [if_neg r3]
    by_cases r2 : m.rcode = 2
    · have := b2 r2; rw [if_pos r2]; apply le_max1; omega
    · rw [if_neg r2]
      by_cases r0 : m.rcode = 0
      · rw [if_neg (by simp [r0])]
        rcases getMinimalTTL_eq m with ⟨hs, hg⟩ | ⟨t, hs, hg2, hg1⟩
        · have := bno (by rw [hg]); rw [hs]; simp only [Option.isNone_none, if_true]; apply le_max1; omega
        · rw [hs] at hrec ⊢; simpa using hrec
      · have := b5 r0 r2 r3
        rw [if_pos r0]
        apply le_max1; omega

end MosVerif.Ttl
