/-
  C13 — every decoded query gets exactly one response (for every interleaving of segments and
  handler completions), and the model's observables are the reference ones.
-/
import MosVerif.Lemmas.GnetRun
namespace MosVerif.Gnet

/-- a decoded query together with the kind of response it is due -/
def Event.tag (e : Event) : Bytes × Bool := (e.body, e.isRefused)

theorem perm_cons_eraseIdx {α} : ∀ (l : List α) (j : Nat) (b : α), l[j]? = some b →
    (b :: l.eraseIdx j).Perm l := by
  intro l
  induction l with
  | nil => intro j b h; simp at h
  | cons x xs ih =>
    intro j b h
    cases j with
    | zero =>
      simp at h; subst h
      simp
    | succ j =>
      simp at h
      have := ih j b h
      simp only [List.eraseIdx_cons_succ]
      exact (List.Perm.swap x b _).trans (this.cons x)

theorem refusedW_eq (evs : List Event) : refusedW evs = (evs.filter Event.isRefused).map Event.tag := by
  simp only [refusedW]
  apply List.map_congr_left
  intro e he
  have := (List.mem_filter.mp he).2
  simp [Event.tag, this]

theorem accepted_eq (evs : List Event) :
    (accepted evs).map (fun b => (b, false)) = (evs.filter (fun e => !e.isRefused)).map Event.tag := by
  simp only [accepted, List.map_map]
  apply List.map_congr_left
  intro e he
  have := (List.mem_filter.mp he).2
  simp at this
  simp [Event.tag, this]

theorem split_perm (evs : List Event) :
    (refusedW evs ++ (accepted evs).map (fun b => (b, false))).Perm (evs.map Event.tag) := by
  rw [refusedW_eq, accepted_eq, ← List.map_append]
  exact (List.filter_append_perm Event.isRefused evs).map _

/-- invariant: the responses written so far plus the handlers still running account for exactly the
    decoded queries, each with the kind of response it is due -/
def Accounted (c : Conn) : Prop :=
  (c.writes ++ c.pending.map (fun b => (b, false))).Perm (c.log.map Event.tag)

theorem accounted_step (dec : Bytes → Bool) (max : Nat) (c : Conn) (op : Op) (h : Accounted c) :
    Accounted (step dec max c op) := by
  cases op with
  | seg bs =>
    by_cases hc : c.closed = true
    · simpa [step, hc] using h
    · simp only [step, hc, Bool.false_eq_true, if_false, Accounted]
      generalize onTraffic dec max ((c.inb ++ bs).length + 1) c.cc (c.inb ++ bs) = o
      simp only [List.map_append]
      have h2 := split_perm o.evs
      have : ((c.writes ++ refusedW o.evs) ++ (c.pending.map (fun b => (b, false)) ++
            (accepted o.evs).map (fun b => (b, false)))).Perm
          ((c.writes ++ c.pending.map (fun b => (b, false))) ++
            (refusedW o.evs ++ (accepted o.evs).map (fun b => (b, false)))) := by
        simp only [List.append_assoc]
        apply List.Perm.append_left
        rw [← List.append_assoc, ← List.append_assoc]
        exact List.Perm.append_right _ List.perm_append_comm
      exact this.trans (h.append h2)
  | rel j =>
    simp only [step]
    cases hj : c.pending[j]? with
    | none => exact h
    | some b =>
      simp only [Accounted]
      have hp := perm_cons_eraseIdx c.pending j b hj
      have : ((c.writes ++ [(b, false)]) ++ (c.pending.eraseIdx j).map (fun b => (b, false))).Perm
          (c.writes ++ c.pending.map (fun b => (b, false))) := by
        rw [List.append_assoc]
        apply List.Perm.append_left
        have := hp.map (fun b => (b, false))
        simpa using this
      exact this.trans h

theorem accounted_run (dec : Bytes → Bool) (max : Nat) : ∀ (ops : List Op) (c : Conn),
    Accounted c → Accounted (runOps dec max ops c) := by
  intro ops
  induction ops with
  | nil => intro c h; exact h
  | cons op ops ih => intro c h; exact ih _ (accounted_step dec max c op h)

theorem obs_of_sim {c : Conn} {r : Ref} (h : Sim c r) :
    obsOf c.log c.writes c.closed = obsOf r.log r.writes r.closed := by
  rw [h.log, h.writes, h.closed]

end MosVerif.Gnet
