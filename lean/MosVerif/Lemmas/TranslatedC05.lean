/-
  Tie by translation (C05): the integer / boolean logic of `pipelineConn` (internal/upstream/transport/
  pipeline_conn.go) — the `reserved` bookkeeping of `addQueueC` and `Reserve`, the end-of-life tests of `addQueueC`
  and `deleteQueueC`, the `uint16` conversion of the id counter and its increment, `Status().Available` — is
  translated mechanically from the current Go source (`Generated/Translated.lean`); every operation of the model's
  `Conn` (Model/Pipeline.lean) is proved EQUAL, for all connections and arguments, to the operation assembled from
  the translated pieces (the map operations `qput`/`qdel` stay the model's own: they are pinned textually).
  The `c05_*_eq` lemmas bring each translated fragment to the model's form by case analysis + linear arithmetic, so
  that a rewrite of the Go text that keeps the meaning (`65535 < c.nextQid`, `c.nextQid >= 65536`, swapped
  conjuncts) keeps them provable, and a change of meaning does not.
-/
import MosVerif.Generated.Translated
import MosVerif.Model.Pipeline
namespace MosVerif.Pipeline
open MosVerif

theorem id_pure_c05 {α : Type} (x : α) : (pure x : Id α) = x := rfl

/-- normalise a translated fragment: unfold the `do` block, split its `if`s, Bool equality as `↔`, then
    simplification and linear arithmetic -/
local macro "tie_tac" : tactic => `(tactic| (
  (try simp only [Id.run, id_pure_c05])
  <;> (try (repeat' split))
  <;> (try (rw [Bool.eq_iff_iff]))
  <;> (try simp_all)
  <;> (try omega)))

theorem c05_addQ_reserved_eq (r : Nat) : Translated.c05_addQ_reserved r = if r > 0 then r - 1 else r := by
  unfold Translated.c05_addQ_reserved
  tie_tac

theorem c05_addQ_eol_eq (n : Nat) : Translated.c05_addQ_eol n = decide (n > 65535) := by
  unfold Translated.c05_addQ_eol
  tie_tac

theorem c05_addQ_qid_eq (n : Nat) : Translated.c05_addQ_qid n = n % 65536 := by
  unfold Translated.c05_addQ_qid
  tie_tac

theorem c05_addQ_next_eq (n : Nat) : Translated.c05_addQ_next n = n + 1 := by
  unfold Translated.c05_addQ_next
  tie_tac

theorem c05_delQ_eol_eq (n l : Nat) : Translated.c05_delQ_eol n l = (decide (n > 65535) && decide (l = 0)) := by
  unfold Translated.c05_delQ_eol
  tie_tac

theorem c05_status_avail_eq (a : Bool) (n r : Nat) : Translated.c05_status_avail a n r = decide (n + r ≤ 65535) := by
  unfold Translated.c05_status_avail
  tie_tac

theorem c05_reserve_eq (n r : Nat) : Translated.c05_reserve n r = if n + r < 65535 then r + 1 else r := by
  unfold Translated.c05_reserve
  tie_tac

/-- `addQueueC`: decrement of `reserved`, end-of-life test, `qid := uint16(c.nextQid)`, `c.nextQid++` -/
theorem addQueueC_translated (c : Conn) (ch : Nat) :
    c.addQueueC ch =
      let c := { c with reserved := Translated.c05_addQ_reserved c.reserved }
      if Translated.c05_addQ_eol c.nextQid then (c, none)
      else
        let qid := Translated.c05_addQ_qid c.nextQid
        ({ c with nextQid := Translated.c05_addQ_next c.nextQid, queue := qput qid ch c.queue }, some qid) := by
  simp only [c05_addQ_reserved_eq, c05_addQ_eol_eq, c05_addQ_qid_eq, c05_addQ_next_eq]
  unfold Conn.addQueueC
  cases c with
  | mk n r cl q =>
    by_cases hr : r > 0 <;> by_cases hn : n > 65535 <;> simp [hr, hn]

/-- `deleteQueueC`: `eol := c.nextQid > 65535 && len(c.queue) == 0` (evaluated after the `delete`) -/
theorem deleteQueueC_translated (c : Conn) (qid : Nat) :
    c.deleteQueueC qid =
      let q := qdel qid c.queue
      { c with queue := q, closed := c.closed || Translated.c05_delQ_eol c.nextQid q.length } := by
  simp only [c05_delQ_eol_eq]
  unfold Conn.deleteQueueC
  cases h : qdel qid c.queue <;> simp

/-- `Status().Available` (whatever the field held before the assignment) -/
theorem status_translated (c : Conn) (a : Bool) :
    c.status = (c.closed, Translated.c05_status_avail a c.nextQid c.reserved) := by
  simp only [c05_status_avail_eq]
  rfl

/-- `Reserve()` -/
theorem reserve_translated (c : Conn) :
    c.reserve = { c with reserved := Translated.c05_reserve c.nextQid c.reserved } := by
  simp only [c05_reserve_eq]
  unfold Conn.reserve
  cases c with
  | mk n r cl q => by_cases h : n + r < 65535 <;> simp [h]

end MosVerif.Pipeline
