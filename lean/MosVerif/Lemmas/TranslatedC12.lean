/-
  Tie by translation (C12): the ECS option constants of `makeEdns0ClientSubnetReqOpt` (OPTION-LENGTH = 2 + 1 + 1 +
  truncated, FAMILY), the size floor of `newEDNS0` and the guard of the ECS option in `packReq`, translated
  mechanically from the current Go source, equal the definitions `Router.makeECS`, `Router.newEDNS0` and
  `Router.reqMsg` are built from.
-/
import MosVerif.Generated.Translated
import MosVerif.Model.Router
namespace MosVerif.Router
open MosVerif

theorem id_pure_nat (x : Nat) : (pure x : Id Nat) = x := rfl

/-- OPTION-LENGTH of the IPv4 / IPv6 ECS option (`length4`, `length6`) -/
theorem ecs_length4_translated : ecsLen4 = Translated.c12_ecs_length4 := by decide
theorem ecs_length6_translated : ecsLen6 = Translated.c12_ecs_length6 := by decide

/-- FAMILY (`family4`, `family6`) -/
theorem ecs_family4_translated : ecsFamily4 = Translated.c12_ecs_family4 := by decide
theorem ecs_family6_translated : ecsFamily6 = Translated.c12_ecs_family6 := by decide

/-- `if udpSize < 512 { udpSize = 512 }` -/
theorem newEDNS0_size_translated (size : Nat) : ednsSize size = Translated.c12_newEDNS0_size size := by
  unfold ednsSize Translated.c12_newEDNS0_size
  simp only [Id.run, id_pure_nat, decide_eq_true_eq]
  all_goals ((repeat' split) <;> omega)

/-- the class field of the OPT record `newEDNS0` builds is the translated size computation -/
theorem newEDNS0_class_translated (size : Nat) (d : Wire.Bytes) :
    (newEDNS0 size d).rclass = Translated.c12_newEDNS0_size size := by
  rw [← newEDNS0_size_translated]; rfl

/-- `r.opt.ecsEnabled && remoteAddr.IsValid()` -/
theorem ecsGuard_translated (e v : Bool) : ecsGuard e v = Translated.c12_ecsGuard e v := by
  cases e <;> cases v <;> rfl

end MosVerif.Router
