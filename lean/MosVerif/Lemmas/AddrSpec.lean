/-
  C17 — the model's observation satisfies the executable specification.
-/
import MosVerif.Lemmas.AddrUpstream
namespace MosVerif.Addr

/-- `SplitHostPort ∘ JoinHostPort` is the identity on the supported hosts -/
theorem split_join {h : Host} {p : Str} (wh : h.wf = true) (fp : PlainFacts p) :
    splitHostPort (joinHostPort h.bare p) = .ok (h.bare, p) := by
  cases h with
  | plain h =>
    have f := Host.wf_plain wh
    simpa [joinHostPort, Host.bare, f.colon] using splitHostPort_plain f fp
  | v6 x =>
    have f := Host.wf_v6 wh
    have e := splitHostPort_v6port f fp
    simp only [List.cons_append] at e
    simpa [joinHostPort, Host.bare, f.colon] using e

theorem defaultPort_facts (s : Scheme) : PlainFacts s.defaultPort := by
  cases s <;> exact port_facts (by decide)

theorem port_getD_facts {p : Option Str} (s : Scheme) (wp : portWf p = true) :
    PlainFacts (p.getD s.defaultPort) := by
  cases p with
  | none => exact defaultPort_facts s
  | some p => exact portWf_some wp

theorem ctlOf_inet (ns : List (Str × Str)) {net : Str} {h : Host} {p : Str} (hn : net ≠ sUnix)
    (wh : h.wf = true) (fp : PlainFacts p) :
    ctlOf ns net (joinHostPort h.bare p) = (Target.inet net h.bare p).ctl ns := by
  simp only [ctlOf, hn, if_false, split_join wh fp]
  simp only [Target.ctl, joinHostPort]
  split <;> simp

theorem isLive_inet {net : Str} {h : Host} {p : Str} (hn : net ≠ sUnix)
    (wh : h.wf = true) (fp : PlainFacts p) :
    isLive net (joinHostPort h.bare p) = (p == sPORT) := by
  simp [isLive, hn, split_join wh fp]

theorem ctl_inet_ne_none (ns : List (Str × Str)) {net h p : Str} (hn : net = sTcp ∨ net = sUdp) :
    (Target.inet net h p).ctl ns ≠ sNone := by
  rcases hn with e | e <;> subst e <;> simp only [Target.ctl] <;> split <;> simp [sTcp, sUdp, sNone]

/-- the socket network of an IP dial -/
theorem expNet_inet {c : Case} (hd : ∀ n, c.dial ≠ .unix n) (hr : ∀ s, c.dial ≠ .raw s) :
    c.expNet = c.scheme.sock := by
  cases h : c.dial with
  | unix n => exact absurd h (hd n)
  | raw s => exact absurd h (hr s)
  | none => cases hs : c.scheme <;> simp [Case.expNet, Scheme.stream, Scheme.sock, h, hs]
  | host a b => cases hs : c.scheme <;> simp [Case.expNet, Scheme.stream, Scheme.sock, h, hs]
  | bracketed x => cases hs : c.scheme <;> simp [Case.expNet, Scheme.stream, Scheme.sock, h, hs]

theorem sock_cases (s : Scheme) : s.sock = sTcp ∨ s.sock = sUdp := by
  cases s <;> simp [Scheme.sock]

theorem sock_ne_unix (s : Scheme) : s.sock ≠ sUnix := by
  cases s <;> simp [Scheme.sock, sTcp, sUdp, sUnix]

/-- the specification holds of the model's observation whenever the connection goes to an
    IP/domain target -/
theorem spec_inet {c : Case} (w : c.wf = true) {hb : Host} {port : Str} (whb : hb.wf = true)
    (fp : PlainFacts port) (ht : c.target = .inet c.scheme.sock hb.bare port)
    (he : c.expDial = joinHostPort hb.bare port) (hnet : c.expNet = c.scheme.sock) :
    specDial c (observe c (.ok c.expPlan)) = true := by
  have hctl := ctlOf_inet c.ns (sock_ne_unix c.scheme) whb fp
  have hlive := isLive_inet (sock_ne_unix c.scheme) whb fp
  have hne := ctl_inet_ne_none c.ns (h := hb.bare) (p := port) (sock_cases c.scheme)
  have hctlT := ctlOf_inet c.ns (net := sTcp) (by decide) whb fp
  simp only [specDial, w, ht, observe, Case.expPlan, he, hnet, hctl, hlive, Target.live, expectedCtl]
  cases hs : c.scheme <;> rw [hs] at hne <;>
    simp [hs, Scheme.proto, Scheme.isH3, Scheme.tlsBased, Scheme.quicBased, Case.expServerName,
      Case.expHttpHost, Scheme.tcpRetry, hctlT] <;>
    first
      | exact ⟨Or.inr hne, hne⟩
      | (by_cases hp : port = sPORT <;> simp [hp] <;> simp [hp] at hne <;> simp [hne])

/-- ... and whenever it goes to an abstract unix socket (stream based schemes) -/
theorem spec_unix {c : Case} (w : c.wf = true) {n : Str} (hd : c.dial = .unix n)
    (hst : c.scheme.stream = true) :
    specDial c (observe c (.ok c.expPlan)) = true := by
  have ht : c.target = .unix ('@' :: n) := by simp [Case.target, hd, hst]
  have he : c.expDial = '@' :: n := by simp [Case.expDial, hd]
  have hnet : c.expNet = sUnix := by simp [Case.expNet, hd, hst]
  simp only [specDial, w, ht, observe, Case.expPlan, he, hnet, ctlOf, isLive, Target.live]
  cases hs : c.scheme <;> simp [hs, Scheme.stream] at hst <;>
    simp [hs, Scheme.proto, Scheme.isH3, Scheme.tlsBased, Scheme.quicBased, Case.expServerName,
      Case.expHttpHost, Scheme.tcpRetry, expectedCtl, Target.ctl] <;>
    (by_cases hp : n = ['U', 'N', 'I', 'X'] <;> simp [hp, sUNIX])

/-- ★ the model satisfies the executable specification on every case -/
theorem dial_model_meets_spec (c : Case) : specDial c (modelDial c) = true := by
  by_cases w : c.wf = true
  case neg => simp [specDial, w]
  have f := Case.facts w
  rw [modelDial, newUpstream_case w]
  cases hd : c.dial with
  | raw s => simp [specDial, Case.target, hd]
  | unix n =>
    by_cases hst : c.scheme.stream = true
    · exact spec_unix w hd hst
    · simp [specDial, Case.target, hd, hst]
  | none =>
    refine spec_inet w (hb := c.host) f.host (port_getD_facts c.scheme f.port) ?_ ?_ ?_
    · simp [Case.target, hd]
    · simp [Case.expDial, hd]
    · exact expNet_inet (by simp [hd]) (by simp [hd])
  | host h p =>
    have wd := f.dial
    simp only [hd, Dial.wf, Bool.and_eq_true] at wd
    refine spec_inet w (hb := h) wd.1 (port_getD_facts c.scheme wd.2) ?_ ?_ ?_
    · simp [Case.target, hd]
    · simp [Case.expDial, hd]
    · exact expNet_inet (by simp [hd]) (by simp [hd])
  | bracketed x =>
    have wd := f.dial
    simp only [hd, Dial.wf] at wd
    refine spec_inet w (hb := .v6 x) (by simpa [Host.wf] using wd) (defaultPort_facts c.scheme) ?_ ?_ ?_
    · simp [Case.target, hd, Host.bare]
    · simp [Case.expDial, hd, Host.bare]
    · exact expNet_inet (by simp [hd]) (by simp [hd])

/-! ### the pure helpers -/

theorem trim_model_meets_spec (s : Str) : specTrim s (tryTrimIpv6Brackets? s) = true := by
  unfold specTrim
  split
  · rename_i t
    split
    · rename_i hl
      obtain ⟨ys, e⟩ := List.getLast?_eq_some_iff.mp hl
      subst e
      have := trim_bracketed ys
      simp only [List.cons_append] at this
      simp [this]
    · rename_i hl
      have : ¬ ∃ x, '[' :: t = '[' :: x ++ [']'] := by
        rintro ⟨x, e⟩
        simp only [List.cons_append, List.cons.injEq, true_and] at e
        exact hl (by rw [e, List.getLast?_concat])
      simp [trim_other _ this]
  · rename_i hn
    have : ¬ ∃ x, s = '[' :: x ++ [']'] := by
      rintro ⟨x, e⟩
      exact hn (x ++ [']']) (by simp [e])
    simp [trim_other _ this]

theorem net_model_meets_spec (s : Str) : specNet s (dialNetworkTcpOrUnix s) = true := by
  unfold specNet
  split
  · simp [dialNetworkTcpOrUnix, hasAtPrefix]
  · rename_i hn
    have : hasAtPrefix s = false := by
      cases s with
      | nil => rfl
      | cons a t =>
        have : ¬ a = '@' := fun e => hn t (by rw [e])
        simp [hasAtPrefix, this]
    simp [dialNetworkTcpOrUnix, this]

theorem form_model_meets_spec (c : FormCase) : specForm c (modelForm c) = true := by
  by_cases w : c.wf = true
  case neg => simp [specForm, w]
  simp only [FormCase.wf, Bool.and_eq_true] at w
  obtain ⟨⟨⟨wh, wp⟩, wd⟩, wdef⟩ := w
  have ht := trim_authority wh wp
  have hr := tryRemovePort_render wh wp
  have e1 : expTrim c.host c.port = Dial.render (.host c.host c.port) := by
    cases hc : c.host with
    | plain h => cases c.port <;> simp [expTrim, Dial.render, Host.url]
    | v6 x => cases c.port <;> simp [expTrim, Dial.render, Host.url, portSuffix]
  have rn : Dial.render .none = [] := rfl
  simp only [specForm, FormCase.wf, wh, wp, wd, wdef, modelForm, ht]
  rw [e1, hr]
  cases hd : c.dial with
  | none =>
    have := getDialAddr_url c.dflt wh wp
    simp [rn, this, dialNetworkTcpOrUnix, join_no_at _ wh]
  | host h p =>
    simp only [hd, Dial.wf, Bool.and_eq_true] at wd
    have := getDialAddr_override (Dial.render (.host c.host c.port)) c.dflt wd.1 wd.2
    simp [this, dialNetworkTcpOrUnix, join_no_at _ wd.1]
  | bracketed x =>
    simp only [hd, Dial.wf] at wd
    have rb : Dial.render (.bracketed x) = '[' :: x ++ [']'] := rfl
    have hj := join_no_at (h := .v6 x) c.dflt (by simpa [Host.wf] using wd)
    simp only [Host.bare] at hj
    have hg := getDialAddr_bracketed (Dial.render (.host c.host c.port)) c.dflt wd
    simp only [List.cons_append] at hg
    simp [rb, hg, dialNetworkTcpOrUnix, hj]
  | unix n =>
    have ru : Dial.render (.unix n) = '@' :: n := rfl
    simp [ru, getDialAddr_unix, dialNetworkTcpOrUnix, hasAtPrefix]
  | raw s => simp

end MosVerif.Addr
