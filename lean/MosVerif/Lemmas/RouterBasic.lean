/-
  Helper lemmas about the request handling model (Model/Router.lean).
-/
import MosVerif.Model.Router
namespace MosVerif.Router
open MosVerif.Wire

/-- `findRule` returns the first rule that applies, with its index. -/
theorem find_spec (qname : Name) (rules : List Rule) (i : Nat) :
    findRule qname i rules =
      match rules.findIdx? (fun r => r.applies qname), rules.find? (fun r => r.applies qname) with
      | some j, some r => some (i + j, r)
      | _, _ => none := by
  induction rules generalizing i with
  | nil => simp [findRule]
  | cons r rs ih =>
    simp only [findRule, List.findIdx?_cons, List.find?_cons]
    by_cases h : r.applies qname
    · simp [h]
    · simp only [h, Bool.false_eq_true, ↓reduceIte]
      rw [ih (i + 1)]
      cases rs.findIdx? (fun r => r.applies qname) <;> cases rs.find? (fun r => r.applies qname) <;> simp
      omega

end MosVerif.Router

namespace MosVerif.Router
open MosVerif.Wire

theorem lowerByte_idem (b : UInt8) : lowerByte (lowerByte b) = lowerByte b := by
  unfold lowerByte
  by_cases h : 65 ≤ b.toNat ∧ b.toNat ≤ 90
  · have h2 : (UInt8.ofNat (b.toNat + 32)).toNat = b.toNat + 32 := by
      simp [UInt8.toNat_ofNat]; omega
    simp only [h, and_self, ↓reduceIte, h2]
    have : ¬ (65 ≤ b.toNat + 32 ∧ b.toNat + 32 ≤ 90) := by omega
    rw [if_neg this]
  · simp [h]

theorem lowerName_idem (n : Name) : lowerName (lowerName n) = lowerName n := by
  simp [lowerName, List.map_map, Function.comp_def, lowerByte_idem]

theorem lowerName_length (n : Name) : (lowerName n).length = n.length := by simp [lowerName]

/-- `handleReq` answers with the question it was given, or with an upstream reply that passed the
    question check. -/
theorem handleReq_questions (env : Env) (q : Question) :
    (handleReq env q).1.questions = [q] ∨
    ∃ rq, (handleReq env q).1.questions = [rq] ∧ rq.qclass = q.qclass ∧ rq.qtype = q.qtype ∧
      lowerName rq.name = lowerName q.name := by
  unfold handleReq
  split
  · left; rfl
  · split
    · left; rfl
    · split
      · left; rfl
      · split
        · split
          · split
            · rename_i resp _ hresp
              right
              unfold isRespOfQuestion at hresp
              split at hresp
              · rename_i rq hq
                simp only [Bool.and_eq_true, beq_iff_eq] at hresp
                refine ⟨rq, ?_, hresp.1.1.1, hresp.1.1.2, hresp.2⟩
                simp [stripOpt, hq]
              · simp at hresp
            · left; rfl
          · left; rfl
        · left; rfl

end MosVerif.Router
