/-
  C15 helper lemmas, part 4: garbage collection of full idle buckets is unobservable.
-/
import MosVerif.Lemmas.LimiterTable
namespace MosVerif.Limiter

theorem Bucket.elapsed_mono (b : Bucket) {τ t t' : Nat} (h : b.lastLe τ) (h1 : τ ≤ t) (h2 : t ≤ t') :
    b.elapsed t ≤ b.elapsed t' := by
  unfold Bucket.elapsed
  cases hl : b.last with
  | none => simp
  | some l =>
    have := h l hl
    simp only
    split <;> split <;> omega

theorem Bucket.avail_mono (L B : Nat) (b : Bucket) {τ t t' : Nat} (h : b.lastLe τ) (h1 : τ ≤ t) (h2 : t ≤ t') :
    b.avail L B t ≤ b.avail L B t' := by
  have he := Nat.mul_le_mul_left L (b.elapsed_mono h h1 h2)
  unfold Bucket.avail
  omega

theorem Bucket.avail_fresh_full (L B t : Nat) (hs : B * nano ≤ L * maxDuration) :
    Bucket.fresh.avail L B t = ((B * nano : Nat) : Int) := by
  simp only [Bucket.avail, Bucket.fresh, Bucket.elapsed]
  have : ((B * nano : Nat) : Int) ≤ ((L * maxDuration : Nat) : Int) := Int.ofNat_le.mpr hs
  omega

/-- the verdict depends on the bucket only through what it holds at the time of the arrival -/
theorem Bucket.allowN_congr (L B : Nat) (b1 b2 : Bucket) (t n : Nat) (h : b1.avail L B t = b2.avail L B t) :
    (b1.allowN L B t n).1 = (b2.allowN L B t n).1 ∧
    ((b1.allowN L B t n).1 = true → (b1.allowN L B t n).2 = (b2.allowN L B t n).2) := by
  unfold Bucket.allowN
  simp only [h]
  split <;> simp

theorem Bucket.allowN_lastLe {L B : Nat} {b : Bucket} {τ t n : Nat} (h : b.lastLe τ) (ht : τ ≤ t) :
    (b.allowN L B t n).2.lastLe t := by
  cases hd : (b.allowN L B t n).1 with
  | true =>
    rw [(Bucket.allowN_true hd).2.2]
    intro l hl; simp at hl; omega
  | false =>
    rw [(Bucket.allowN_false hd).2]
    exact fun l hl => Nat.le_trans (h l hl) ht

/-- the simulation between a limiter that is garbage collected (`c1`) and one that is not (`c2`):
    from `τ` on every key's bucket holds the same on both sides. -/
def GcSim (c1 c2 : ClientLimiter) (τ : Nat) : Prop :=
  c1.opts = c2.opts ∧
  (∀ k, (c1.bucketOf k).lastLe τ ∧ (c2.bucketOf k).lastLe τ) ∧
  ∀ k t, τ ≤ t → (c1.bucketOf k).avail c1.limit c1.burst t = (c2.bucketOf k).avail c1.limit c1.burst t

theorem GcSim.refl (c : ClientLimiter) (τ : Nat) (h : ∀ k, (c.bucketOf k).lastLe τ) : GcSim c c τ :=
  ⟨rfl, fun k => ⟨h k, h k⟩, fun _ _ _ => rfl⟩

theorem gcSim_allow {c1 c2 : ClientLimiter} {τ : Nat} (h : GcSim c1 c2 τ) (e : Ev) (hte : τ ≤ e.t) :
    (c1.allowNAt e.addr e.t e.n).1 = (c2.allowNAt e.addr e.t e.n).1 ∧
    GcSim (c1.allowNAt e.addr e.t e.n).2 (c2.allowNAt e.addr e.t e.n).2 e.t := by
  obtain ⟨ho, hl, ha⟩ := h
  have hlim : c1.limit = c2.limit := by simp [ClientLimiter.limit, ho]
  have hbu : c1.burst = c2.burst := by simp [ClientLimiter.burst, ho]
  have hk := ha (mask c1.opts e.addr) e.t hte
  have hc := Bucket.allowN_congr c1.limit c1.burst _ _ e.t e.n hk
  have hfst : (c1.allowNAt e.addr e.t e.n).1 = (c2.allowNAt e.addr e.t e.n).1 := by
    rw [ClientLimiter.allowN_fst, ClientLimiter.allowN_fst, ← ho, ← hlim, ← hbu]; exact hc.1
  refine ⟨hfst, by simpa using ho, fun k => ?_, fun k t ht => ?_⟩
  · by_cases hkk : mask c1.opts e.addr = k
    · have hkk2 : mask c2.opts e.addr = k := ho ▸ hkk
      have h1 := c1.bucketOf_allowN_same e.addr e.t e.n
      have h2 := c2.bucketOf_allowN_same e.addr e.t e.n
      rw [hkk] at h1; rw [hkk2] at h2
      rw [h1, h2]
      constructor
      · exact Bucket.allowN_lastLe (hl k).1 hte
      · exact Bucket.allowN_lastLe (hl k).2 hte
    · have hkk2 : mask c2.opts e.addr ≠ k := ho ▸ hkk
      rw [ClientLimiter.bucketOf_allowN_other _ _ _ _ _ hkk, ClientLimiter.bucketOf_allowN_other _ _ _ _ _ hkk2]
      exact ⟨fun l hl' => Nat.le_trans ((hl k).1 l hl') hte, fun l hl' => Nat.le_trans ((hl k).2 l hl') hte⟩
  · simp only [ClientLimiter.allowN_limit, ClientLimiter.allowN_burst]
    by_cases hkk : mask c1.opts e.addr = k
    · have hkk2 : mask c2.opts e.addr = k := ho ▸ hkk
      have h1 := c1.bucketOf_allowN_same e.addr e.t e.n
      have h2 := c2.bucketOf_allowN_same e.addr e.t e.n
      rw [hkk] at h1; rw [hkk2] at h2
      rw [h1, h2, ← hlim, ← hbu]
      rw [hkk] at hc hk
      cases hd : ((c1.bucketOf k).allowN c1.limit c1.burst e.t e.n).1 with
      | true => rw [hc.2 hd]
      | false =>
        have hd2 := hc.1 ▸ hd
        rw [(Bucket.allowN_false hd).2, (Bucket.allowN_false hd2).2]
        exact ha k t (Nat.le_trans hte ht)
    · have hkk2 : mask c2.opts e.addr ≠ k := ho ▸ hkk
      rw [ClientLimiter.bucketOf_allowN_other _ _ _ _ _ hkk, ClientLimiter.bucketOf_allowN_other _ _ _ _ _ hkk2]
      exact ha k t (Nat.le_trans hte ht)

theorem gcSim_gc {c1 c2 : ClientLimiter} {τ : Nat} (h : GcSim c1 c2 τ) (now : Nat) (only : Option Addr) (hte : τ ≤ now)
    (hs : c1.burst * nano ≤ c1.limit * maxDuration) :
    GcSim (c1.gcWith true now only) c2 now := by
  obtain ⟨ho, hl, ha⟩ := h
  refine ⟨by simpa using ho, fun k => ?_, fun k t ht => ?_⟩
  · refine ⟨?_, fun l hl' => Nat.le_trans ((hl k).2 l hl') hte⟩
    rcases c1.bucketOf_gcWith true now only k with h1 | ⟨h1, _⟩
    · rw [h1]; exact fun l hl' => Nat.le_trans ((hl k).1 l hl') hte
    · rw [h1]; intro l hl'; simp [Bucket.fresh] at hl'
  · simp only [ClientLimiter.gcWith_limit, ClientLimiter.gcWith_burst]
    rcases c1.bucketOf_gcWith true now only k with h1 | ⟨h1, h2⟩
    · rw [h1]; exact ha k t (Nat.le_trans hte ht)
    · rw [h1, Bucket.avail_fresh_full _ _ _ hs, ← ha k t (Nat.le_trans hte ht)]
      have hm := Bucket.avail_mono c1.limit c1.burst (c1.bucketOf k) (hl k).1 hte ht
      have hc := Bucket.avail_le_cap c1.limit c1.burst (c1.bucketOf k) t
      have := h2 rfl
      omega

/-- **gc is unobservable**: with the fullness requirement the verdicts of a time-ordered
    history do not depend on the gc passes in it. -/
theorem gc_transparent_gen :
    ∀ (os : List Op) (c1 c2 : ClientLimiter) (τ : Nat), GcSim c1 c2 τ → sortedFrom τ os →
      c1.burst * nano ≤ c1.limit * maxDuration →
      c1.runOpsAtWith true os = c2.runAt (Op.evs os) := by
  intro os
  induction os with
  | nil => intro _ _ _ _ _ _; rfl
  | cons o os ih =>
    intro c1 c2 τ hsim hsort hs
    obtain ⟨hte, hsort'⟩ := hsort
    cases o with
    | gc now only =>
      simp only [Op.time] at hte hsort'
      simp only [ClientLimiter.runOpsAtWith, Op.evs]
      exact ih _ _ now (gcSim_gc hsim now only hte hs) hsort' (by simpa using hs)
    | allow e =>
      simp only [Op.time] at hte hsort'
      have h := gcSim_allow hsim e hte
      simp only [ClientLimiter.runOpsAtWith, Op.evs, ClientLimiter.runAt]
      rw [h.1, ih _ _ e.t h.2 hsort' (by simpa using hs)]

end MosVerif.Limiter
