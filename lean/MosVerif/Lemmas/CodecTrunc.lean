/-
  Codec lemmas, part 8 (C09): the size-limited section loops of `Msg.Pack`.
  `keptQ` / `keptR` compute the sub-list a limited loop retains; a limited loop that succeeds is
  the unlimited loop on the retained sub-list (`*_kept`).  Under well-formedness the running
  offset never passes the budget (`*_bound`) and nothing is skipped when everything fits (`*_fits`).
-/
import MosVerif.Lemmas.CodecWF
namespace MosVerif.Wire

/-- the `size > 0 && off+len > size` test of the loops -/
def skips (limit : Option Nat) (off len : Nat) : Bool :=
  match limit with
  | some size => decide (off + len > size)
  | none => false

/-- the questions a (possibly limited) loop retains, in order -/
def keptQ (limit : Option Nat) : List Question → PState → List Question
  | [], _ => []
  | q :: qs, s =>
    if skips limit (12 + s.body.length) (questionLen q) then keptQ limit qs s
    else match packQuestion (12 + s.body.length) s.tbl q with
      | .ok (bs, tbl) => q :: keptQ limit qs ⟨s.body ++ bs, tbl⟩
      | _ => [q]

/-- the records a (possibly limited) loop retains, in order -/
def keptR (limit : Option Nat) : List Resource → PState → List Resource
  | [], _ => []
  | r :: rs, s =>
    if skips limit (12 + s.body.length) (resourcePackLen r) then keptR limit rs s
    else match packResource (12 + s.body.length) s.tbl r with
      | .ok (bs, tbl) => r :: keptR limit rs ⟨s.body ++ bs, tbl⟩
      | _ => [r]

theorem keptQ_sublist (limit : Option Nat) (qs : List Question) : ∀ s, (keptQ limit qs s).Sublist qs := by
  induction qs with
  | nil => intro s; simp [keptQ]
  | cons q qs ih =>
    intro s
    simp only [keptQ]
    split
    · exact (ih s).cons q
    · split
      · exact (ih _).cons_cons q
      · exact (List.nil_sublist _).cons_cons q

theorem keptR_sublist (limit : Option Nat) (rs : List Resource) : ∀ s, (keptR limit rs s).Sublist rs := by
  induction rs with
  | nil => intro s; simp [keptR]
  | cons r rs ih =>
    intro s
    simp only [keptR]
    split
    · exact (ih s).cons r
    · split
      · exact (ih _).cons_cons r
      · exact (List.nil_sublist _).cons_cons r

/-- one step of either loop, written uniformly in `skips` -/
theorem packQuestionsLoop_cons (limit : Option Nat) (q : Question) (qs : List Question) (s : PState) :
    packQuestionsLoop limit (q :: qs) s =
      if skips limit (12 + s.body.length) (questionLen q) then
        (packQuestionsLoop limit qs s >>= fun p => .ok (p.1, p.2 + 1))
      else (packQuestion (12 + s.body.length) s.tbl q >>= fun p =>
        packQuestionsLoop limit qs ⟨s.body ++ p.1, p.2⟩) := by
  cases limit with
  | none => simp only [packQuestionsLoop, skips]; rfl
  | some size =>
    simp only [packQuestionsLoop, skips, decide_eq_true_eq]

theorem packResourcesLoop_cons (limit : Option Nat) (r : Resource) (rs : List Resource) (s : PState) :
    packResourcesLoop limit (r :: rs) s =
      if skips limit (12 + s.body.length) (resourcePackLen r) then
        (packResourcesLoop limit rs s >>= fun p => .ok (p.1, p.2 + 1))
      else (packResource (12 + s.body.length) s.tbl r >>= fun p =>
        packResourcesLoop limit rs ⟨s.body ++ p.1, p.2⟩) := by
  cases limit with
  | none => simp only [packResourcesLoop, skips]; rfl
  | some size =>
    simp only [packResourcesLoop, skips, decide_eq_true_eq]

/-- A limited loop that succeeds is the unlimited loop on what it kept; the number of skipped
    elements is the difference of the lengths. No well-formedness needed. -/
theorem packQuestionsLoop_kept (limit : Option Nat) (qs : List Question) :
    ∀ (s s' : PState) (k : Nat), packQuestionsLoop limit qs s = .ok (s', k) →
      packQuestionsLoop none (keptQ limit qs s) s = .ok (s', 0) ∧ k + (keptQ limit qs s).length = qs.length := by
  induction qs with
  | nil =>
    intro s s' k h
    simp only [packQuestionsLoop, Res.ok.injEq, Prod.mk.injEq] at h
    simp [keptQ, packQuestionsLoop, h.1, ← h.2]
  | cons q qs ih =>
    intro s s' k h
    rw [packQuestionsLoop_cons] at h
    simp only [keptQ]
    split at h
    · rename_i hs
      obtain ⟨⟨s1, k1⟩, h1, h2⟩ := Res.bind_eq_ok h
      simp only [Res.ok.injEq, Prod.mk.injEq] at h2
      obtain ⟨e1, e2⟩ := ih s s1 k1 h1
      rw [if_pos hs]
      refine ⟨by rw [e1, h2.1], ?_⟩
      simp only [List.length_cons]; omega
    · rename_i hs
      obtain ⟨⟨bs, tbl⟩, h1, h2⟩ := Res.bind_eq_ok h
      simp only at h2
      obtain ⟨e1, e2⟩ := ih _ s' k h2
      rw [if_neg hs, h1]
      refine ⟨?_, by simp only [List.length_cons]; omega⟩
      rw [packQuestionsLoop_cons]
      simp only [skips, Bool.false_eq_true, if_false, h1, Res.ok_bind]
      exact e1

theorem packResourcesLoop_kept (limit : Option Nat) (rs : List Resource) :
    ∀ (s s' : PState) (k : Nat), packResourcesLoop limit rs s = .ok (s', k) →
      packResourcesLoop none (keptR limit rs s) s = .ok (s', 0) ∧ k + (keptR limit rs s).length = rs.length := by
  induction rs with
  | nil =>
    intro s s' k h
    simp only [packResourcesLoop, Res.ok.injEq, Prod.mk.injEq] at h
    simp [keptR, packResourcesLoop, h.1, ← h.2]
  | cons r rs ih =>
    intro s s' k h
    rw [packResourcesLoop_cons] at h
    simp only [keptR]
    split at h
    · rename_i hs
      obtain ⟨⟨s1, k1⟩, h1, h2⟩ := Res.bind_eq_ok h
      simp only [Res.ok.injEq, Prod.mk.injEq] at h2
      obtain ⟨e1, e2⟩ := ih s s1 k1 h1
      rw [if_pos hs]
      refine ⟨by rw [e1, h2.1], ?_⟩
      simp only [List.length_cons]; omega
    · rename_i hs
      obtain ⟨⟨bs, tbl⟩, h1, h2⟩ := Res.bind_eq_ok h
      simp only at h2
      obtain ⟨e1, e2⟩ := ih _ s' k h2
      rw [if_neg hs, h1]
      refine ⟨?_, by simp only [List.length_cons]; omega⟩
      rw [packResourcesLoop_cons]
      simp only [skips, Bool.false_eq_true, if_false, h1, Res.ok_bind]
      exact e1

/-- the unlimited loop over a concatenation is the loop over the parts -/
theorem packResourcesLoop_none_append (a b : List Resource) :
    ∀ (s : PState), packResourcesLoop none (a ++ b) s =
      (packResourcesLoop none a s >>= fun p => packResourcesLoop none b p.1) := by
  induction a with
  | nil => intro s; simp [packResourcesLoop, Res.ok_bind]
  | cons r a ih =>
    intro s
    simp only [List.cons_append]
    rw [packResourcesLoop_cons, packResourcesLoop_cons]
    simp only [skips, Bool.false_eq_true, if_false]
    cases packResource (12 + s.body.length) s.tbl r with
    | ok p => simp only [Res.ok_bind]; exact ih _
    | err => rfl
    | panic => rfl


/-- Invariants of a (possibly limited) loop on well-formed elements: the table invariant is kept,
    the running offset never passes `max L 12`, and if everything that is left fits the budget
    nothing is skipped. -/
theorem packQuestionsLoop_wf (H : Bytes) (hH : H.length = 12) (limit : Option Nat) (xs : List Question) :
    ∀ (body : Bytes) (tbl : Option Table) (s' : PState) (k : Nat), (∀ x ∈ xs, questionWF x = true) →
    TableOK' (H ++ body) tbl → packQuestionsLoop limit xs ⟨body, tbl⟩ = .ok (s', k) →
    TableOK' (H ++ s'.body) s'.tbl ∧
    (∀ L, limit = some L → 12 + body.length ≤ max L 12 → 12 + s'.body.length ≤ max L 12) ∧
    (∀ L, limit = some L → 12 + body.length + (xs.map questionLen).sum ≤ L →
      k = 0 ∧ s'.body.length ≤ body.length + (xs.map questionLen).sum) := by
  induction xs with
  | nil =>
    intro body tbl s' k _ hT h
    simp only [packQuestionsLoop, Res.ok.injEq, Prod.mk.injEq] at h
    obtain ⟨rfl, rfl⟩ := h
    exact ⟨hT, fun L _ hb => hb, fun L _ _ => ⟨rfl, by simp⟩⟩
  | cons x xs ih =>
    intro body tbl s' k hwf hT h
    rw [packQuestionsLoop_cons] at h
    split at h
    · rename_i hs
      obtain ⟨⟨s1, k1⟩, h1, h2⟩ := Res.bind_eq_ok h
      simp only [Res.ok.injEq, Prod.mk.injEq] at h2
      obtain ⟨rfl, rfl⟩ := h2
      obtain ⟨c1, c2, c3⟩ := ih body tbl s1 k1 (fun y hy => hwf y (by simp [hy])) hT h1
      refine ⟨c1, c2, ?_⟩
      intro L hL hfit
      subst hL
      simp only [skips, decide_eq_true_eq, List.map_cons, List.sum_cons] at hs hfit
      omega
    · rename_i hs
      obtain ⟨⟨bs, tbl1⟩, h1, h2⟩ := Res.bind_eq_ok h
      simp only at h1 h2
      obtain ⟨bs', tbl1', hp, hE⟩ := packQuestion_enc (H ++ body) (12 + body.length)
        (by simp only [List.length_append, hH]) tbl x (hwf x (by simp)) hT
      rw [h1] at hp
      simp only [Res.ok.injEq, Prod.mk.injEq] at hp
      obtain ⟨rfl, rfl⟩ := hp
      have hle := hE.le
      obtain ⟨c1, c2, c3⟩ := ih (body ++ bs) tbl1 s' k (fun y hy => hwf y (by simp [hy]))
        (by have := hE.table; simpa [List.append_assoc] using this) h2
      refine ⟨c1, ?_, ?_⟩
      · intro L hL _
        subst hL
        simp only [skips, decide_eq_true_eq] at hs
        apply c2 L rfl
        simp only [List.length_append]; omega
      · intro L hL hfit
        simp only [List.map_cons, List.sum_cons] at hfit ⊢
        have := c3 L hL (by simp only [List.length_append]; omega)
        simp only [List.length_append] at this
        omega

/-- Invariants of a (possibly limited) loop on well-formed elements: the table invariant is kept,
    the running offset never passes `max L 12`, and if everything that is left fits the budget
    nothing is skipped. -/
theorem packResourcesLoop_wf (H : Bytes) (hH : H.length = 12) (limit : Option Nat) (xs : List Resource) :
    ∀ (body : Bytes) (tbl : Option Table) (s' : PState) (k : Nat), (∀ x ∈ xs, resourceWF x = true) →
    TableOK' (H ++ body) tbl → packResourcesLoop limit xs ⟨body, tbl⟩ = .ok (s', k) →
    TableOK' (H ++ s'.body) s'.tbl ∧
    (∀ L, limit = some L → 12 + body.length ≤ max L 12 → 12 + s'.body.length ≤ max L 12) ∧
    (∀ L, limit = some L → 12 + body.length + (xs.map resourcePackLen).sum ≤ L →
      k = 0 ∧ s'.body.length ≤ body.length + (xs.map resourcePackLen).sum) := by
  induction xs with
  | nil =>
    intro body tbl s' k _ hT h
    simp only [packResourcesLoop, Res.ok.injEq, Prod.mk.injEq] at h
    obtain ⟨rfl, rfl⟩ := h
    exact ⟨hT, fun L _ hb => hb, fun L _ _ => ⟨rfl, by simp⟩⟩
  | cons x xs ih =>
    intro body tbl s' k hwf hT h
    rw [packResourcesLoop_cons] at h
    split at h
    · rename_i hs
      obtain ⟨⟨s1, k1⟩, h1, h2⟩ := Res.bind_eq_ok h
      simp only [Res.ok.injEq, Prod.mk.injEq] at h2
      obtain ⟨rfl, rfl⟩ := h2
      obtain ⟨c1, c2, c3⟩ := ih body tbl s1 k1 (fun y hy => hwf y (by simp [hy])) hT h1
      refine ⟨c1, c2, ?_⟩
      intro L hL hfit
      subst hL
      simp only [skips, decide_eq_true_eq, List.map_cons, List.sum_cons] at hs hfit
      omega
    · rename_i hs
      obtain ⟨⟨bs, tbl1⟩, h1, h2⟩ := Res.bind_eq_ok h
      simp only at h1 h2
      obtain ⟨bs', tbl1', hp, hE⟩ := packResource_enc (H ++ body) (12 + body.length)
        (by simp only [List.length_append, hH]) tbl x (hwf x (by simp)) hT
      rw [h1] at hp
      simp only [Res.ok.injEq, Prod.mk.injEq] at hp
      obtain ⟨rfl, rfl⟩ := hp
      have hle := hE.le
      obtain ⟨c1, c2, c3⟩ := ih (body ++ bs) tbl1 s' k (fun y hy => hwf y (by simp [hy]))
        (by have := hE.table; simpa [List.append_assoc] using this) h2
      refine ⟨c1, ?_, ?_⟩
      · intro L hL _
        subst hL
        simp only [skips, decide_eq_true_eq] at hs
        apply c2 L rfl
        simp only [List.length_append]; omega
      · intro L hL hfit
        simp only [List.map_cons, List.sum_cons] at hfit ⊢
        have := c3 L hL (by simp only [List.length_append]; omega)
        simp only [List.length_append] at this
        omega

/-! ### PopEDNS0 (swap-remove of the last OPT record) -/

theorem lastOptIdx_some {rs : List Resource} {i : Nat} (h : lastOptIdx rs = some i) :
    ∃ o, rs[i]? = some o ∧ o.rtype = typeOPT := by
  unfold lastOptIdx at h
  simp only at h
  obtain ⟨ys, hys⟩ := List.getLast?_eq_some_iff.1 h
  have hmem : i ∈ List.filter (fun i => match rs[i]? with | some r => r.rtype == typeOPT | none => false)
      (List.range rs.length) := by
    have : i ∈ ys ++ [i] := by simp
    rw [← hys] at this; exact this
  rw [List.mem_filter] at hmem
  obtain ⟨_, hp⟩ := hmem
  cases hr : rs[i]? with
  | none => simp [hr] at hp
  | some o => simp only [hr, beq_iff_eq] at hp; exact ⟨o, rfl, hp⟩

theorem sum_set_map (f : Resource → Nat) : ∀ (l : List Resource) (i : Nat) (x o : Resource), l[i]? = some o →
    ((l.set i x).map f).sum + f o = (l.map f).sum + f x := by
  intro l
  induction l with
  | nil => intro i x o h; simp at h
  | cons a l ih =>
    intro i x o h
    cases i with
    | zero => simp only [List.getElem?_cons_zero, Option.some.injEq] at h; subst h; simp; omega
    | succ j =>
      simp only [List.getElem?_cons_succ] at h
      have := ih j x o h
      simp only [List.set_cons_succ, List.map_cons, List.sum_cons]; omega

/-- What `PopEDNS0` returns. -/
theorem popEDNS0_spec (rs : List Resource) :
    (popEDNS0 rs = (none, rs)) ∨
    (∃ o rs', popEDNS0 rs = (some o, rs') ∧ o.rtype = typeOPT ∧ o ∈ rs ∧ rs'.length + 1 = rs.length ∧
      (∀ x ∈ rs', x ∈ rs) ∧
      ∀ f : Resource → Nat, (rs'.map f).sum + f o = (rs.map f).sum) := by
  unfold popEDNS0
  cases hi : lastOptIdx rs with
  | none => left; rfl
  | some i =>
    obtain ⟨o, ho, hopt⟩ := lastOptIdx_some hi
    cases hl : rs.getLast? with
    | none => left; simp [ho]
    | some last =>
      right
      obtain ⟨ys, rfl⟩ := List.getLast?_eq_some_iff.1 hl
      refine ⟨o, ((ys ++ [last]).set i last).dropLast, by simp [ho], hopt, List.mem_of_getElem? ho, ?_, ?_, ?_⟩
      · simp
      · intro x hx
        have hx' : x ∈ (ys ++ [last]).set i last := (List.dropLast_sublist _).subset hx
        rcases List.mem_or_eq_of_mem_set hx' with h | h
        · exact h
        · subst h; simp
      · intro f
        by_cases hlt : i < ys.length
        · have hset : (ys ++ [last]).set i last = ys.set i last ++ [last] := by
            rw [List.set_append]; simp [hlt]
          have hoy : ys[i]? = some o := by
            rw [List.getElem?_append_left hlt] at ho; exact ho
          rw [hset, List.dropLast_concat]
          have := sum_set_map f ys i last o hoy
          simp only [List.map_append, List.sum_append, List.map_cons, List.map_nil, List.sum_cons, List.sum_nil]
          omega
        · have hlen : i < (ys ++ [last]).length := by
            have := (List.getElem?_eq_some_iff.1 ho).1; exact this
          simp only [List.length_append, List.length_cons, List.length_nil] at hlen
          have hi' : i = ys.length := by omega
          subst hi'
          have hol : o = last := by
            rw [List.getElem?_append_right (Nat.le_refl _)] at ho
            simpa using ho.symm
          subst hol
          have hset : (ys ++ [o]).set ys.length o = ys ++ [o] := by
            rw [List.set_append]; simp
          rw [hset, List.dropLast_concat]
          simp

theorem popEDNS0_none_eq {rs rs' : List Resource} (h : popEDNS0 rs = (none, rs')) : rs' = rs := by
  rcases popEDNS0_spec rs with h' | ⟨o, rs'', h', _⟩
  · rw [h'] at h; simpa using h.symm
  · rw [h'] at h; simp at h

/-! ### the TC bit -/

theorem orIf_or (b : Bool) (m x k : Nat) : (orIf b m x) ||| k = orIf b m (x ||| k) := by
  cases b
  · simp [orIf]
  · simp only [orIf, if_true, lor_eq]
    rw [Nat.or_assoc, Nat.or_comm m k, ← Nat.or_assoc]

/-- or-ing `headerBitTC` into the packed flag word = packing the header with `Truncated` set -/
theorem bitsOfHeader_tc (h : Header) :
    Nat.lor (bitsOfHeader h) headerBitTC = bitsOfHeader { h with truncated := true } := by
  rw [lor_eq, bitsOfHeader_orIf, bitsOfHeader_orIf, headerBitTC, orIf_or, orIf_or, orIf_or, orIf_or, orIf_or]
  congr 5
  cases h.truncated
  · simp [orIf, lor_eq]
  · simp only [orIf, if_true, lor_eq]
    rw [Nat.or_assoc, Nat.or_self]

end MosVerif.Wire
