/-
  C13 — a whole connection (segments and handler completions in any order):
  the mode machine simulates the reference semantics.
-/
import MosVerif.Lemmas.GnetMachine
namespace MosVerif.Gnet

theorem Rest.set_concurrent {cc : ConnCtx} {inb u : Bytes} (h : Rest cc inb u) (k : Nat) :
    Rest { cc with concurrent := k } inb u := by
  cases h with
  | idle rn rh c => exact Rest.idle rn rh k
  | hdr c x => exact Rest.hdr k x
  | body c a b _ ht => exact Rest.body k a b _ ht

/-- the simulation relation between the modelled connection and the reference state -/
structure Sim (c : Conn) (r : Ref) : Prop where
  bad : c.bad = false
  log : c.log = r.log
  pending : c.pending = r.pending
  writes : c.writes = r.writes
  closed : c.closed = r.closed
  rest : c.closed = false → Rest c.cc c.inb r.rest ∧ c.cc.concurrent = r.running

theorem sim_init : Sim {} {} :=
  ⟨rfl, rfl, rfl, rfl, rfl, fun _ => ⟨Rest.idle 0 false 0, rfl⟩⟩

/-- the frames a segment completes are all non-empty (zero-length frames are not queries: C01) -/
def opNoEmpty (r : Ref) : Op → Bool
  | .seg bs => !bs.isEmpty && (r.closed || (parse (r.rest ++ bs)).1.all (fun f => !f.isEmpty))
  | .rel _ => true

theorem noEmptyRun_cons (dec : Bytes → Bool) (max : Nat) (op : Op) (ops : List Op) (r : Ref) :
    noEmptyRun dec max (op :: ops) r = (opNoEmpty r op && noEmptyRun dec max ops (refStep dec max r op)) := by
  cases op <;> simp [noEmptyRun, opNoEmpty]

theorem sim_step (dec : Bytes → Bool) (max : Nat) (c : Conn) (r : Ref) (op : Op)
    (hs : Sim c r) (hne : opNoEmpty r op = true) :
    Sim (step dec max c op) (refStep dec max r op) := by
  cases op with
  | seg bs =>
    by_cases hcl : c.closed = true
    · have hrc : r.closed = true := by rw [← hs.closed]; exact hcl
      simp only [step, refStep, hcl, hrc, if_true]; exact hs
    · have hcl' : c.closed = false := by simpa using hcl
      have hrc : r.closed = false := by rw [← hs.closed]; exact hcl'
      obtain ⟨hrest, hrun⟩ := hs.rest hcl'
      have hne' : ∀ f ∈ (parse (r.rest ++ bs)).1, f ≠ [] := by
        intro f hf
        simp only [opNoEmpty, hrc, Bool.false_or, Bool.and_eq_true, List.all_eq_true] at hne
        have := hne.2 f hf
        intro h0; simp [h0] at this
      have hseg : bs ≠ [] := by
        simp only [opNoEmpty, Bool.and_eq_true] at hne
        intro h0; simp [h0] at hne
      have g := good_step dec max c.cc c.inb r.rest bs hrest hseg hne'
      rw [hrun] at g
      simp only [step, refStep, hcl', hrc, Bool.false_eq_true, if_false]
      generalize onTraffic dec max ((c.inb ++ bs).length + 1) c.cc (c.inb ++ bs) = o at g ⊢
      obtain ⟨gev, gact⟩ := g
      by_cases hall : (parse (r.rest ++ bs)).1.all dec = true
      · simp only [hall, if_true] at gact
        obtain ⟨ga, gr, gc⟩ := gact
        refine ⟨?_, ?_, ?_, ?_, ?_, ?_⟩
        · simp [ga, hs.bad]
        · simp [gev, hs.log]
        · simp [gev, hs.pending]
        · simp [gev, hs.writes]
        · simp [ga, hall]
        · intro _; exact ⟨gr, gc⟩
      · simp only [hall] at gact
        have gact : o.act = .close := by simpa using gact
        refine ⟨?_, ?_, ?_, ?_, ?_, ?_⟩
        · simp [gact, hs.bad]
        · simp [gev, hs.log]
        · simp [gev, hs.pending]
        · simp [gev, hs.writes]
        · simp [gact, hall]
        · intro h; simp [gact] at h
  | rel j =>
    simp only [step, refStep, ← hs.pending]
    cases hj : c.pending[j]? with
    | none => exact hs
    | some b =>
      refine ⟨hs.bad, hs.log, by simp [hs.pending], by simp [hs.writes], hs.closed, ?_⟩
      intro hcl
      obtain ⟨hrest, hrun⟩ := hs.rest hcl
      exact ⟨hrest.set_concurrent _, by simp [hrun]⟩

/-- ★ refinement: for every sequence of segments and handler completions the mode machine does
    exactly what the reference semantics (stream parser + admission counter) prescribes,
    and it neither panics nor runs out of loop fuel. -/
theorem run_refines (dec : Bytes → Bool) (max : Nat) : ∀ (ops : List Op) (c : Conn) (r : Ref),
    Sim c r → noEmptyRun dec max ops r = true →
    Sim (runOps dec max ops c) (refRun dec max ops r) := by
  intro ops
  induction ops with
  | nil => intro c r hs _; exact hs
  | cons op ops ih =>
    intro c r hs hne
    rw [noEmptyRun_cons] at hne
    simp only [Bool.and_eq_true] at hne
    exact ih _ _ (sim_step dec max c r op hs hne.1) hne.2

theorem sim_drain {c : Conn} {r : Ref} (hs : Sim c r) : Sim (drain c) (refDrain r) := by
  refine ⟨hs.bad, hs.log, rfl, by simp [drain, refDrain, hs.writes, hs.pending], hs.closed, ?_⟩
  intro hcl
  obtain ⟨hrest, hrun⟩ := hs.rest hcl
  exact ⟨hrest.set_concurrent _, by simp [drain, refDrain, hrun, hs.pending]⟩


/-! ### segments only: closed form of the reference run -/

theorem takeWhile_append_all {α} (p : α → Bool) (xs ys : List α) (h : xs.all p = true) :
    (xs ++ ys).takeWhile p = xs ++ ys.takeWhile p := by
  induction xs with
  | nil => rfl
  | cons x xs ih =>
    simp only [List.all_cons, Bool.and_eq_true] at h
    simp [List.takeWhile_cons, h.1, ih h.2]

theorem takeWhile_append_notall {α} (p : α → Bool) (xs ys : List α) (h : xs.all p = false) :
    (xs ++ ys).takeWhile p = xs.takeWhile p := by
  induction xs with
  | nil => simp at h
  | cons x xs ih =>
    by_cases hx : p x = true
    · have : xs.all p = false := by simpa [List.all_cons, hx] using h
      simp [List.takeWhile_cons, hx, ih this]
    · simp [List.takeWhile_cons, hx]

theorem accepted_append (a b : List Event) : accepted (a ++ b) = accepted a ++ accepted b := by
  simp [accepted]

theorem refusedW_append (a b : List Event) : refusedW (a ++ b) = refusedW a ++ refusedW b := by
  simp [refusedW]

theorem refRun_segs_closed (dec : Bytes → Bool) (max : Nat) (segs : List Bytes) (r : Ref)
    (h : r.closed = true) : refRun dec max (segs.map Op.seg) r = r := by
  induction segs with
  | nil => rfl
  | cons s segs ih => simpa [refRun, refStep, h] using ih

/-- `r'` is what the reference semantics reaches from `r` when the octets `S` arrive (in whatever
    segmentation): the reference parser applied to the leftover followed by `S`. -/
structure RefAfter (dec : Bytes → Bool) (max : Nat) (r r' : Ref) (S : Bytes) : Prop where
  log : r'.log = r.log ++ (admission max r.running ((parse (r.rest ++ S)).1.takeWhile dec)).1
  closed : r'.closed = !(parse (r.rest ++ S)).1.all dec
  pending : r'.pending = r.pending ++ accepted (admission max r.running ((parse (r.rest ++ S)).1.takeWhile dec)).1
  writes : r'.writes = r.writes ++ refusedW (admission max r.running ((parse (r.rest ++ S)).1.takeWhile dec)).1
  rest : (parse (r.rest ++ S)).1.all dec = true →
    r'.rest = (parse (r.rest ++ S)).2 ∧
    r'.running = (admission max r.running ((parse (r.rest ++ S)).1.takeWhile dec)).2

/-- the reference run over segments only, in closed form: it is the reference parser applied to
    the concatenation (compositionality of `parse`) -/
theorem ref_segs (dec : Bytes → Bool) (max : Nat) : ∀ (segs : List Bytes) (r : Ref),
    r.closed = false → Incomplete r.rest →
    RefAfter dec max r (refRun dec max (segs.map Op.seg) r) segs.flatten := by
  intro segs
  induction segs with
  | nil =>
    intro r hc hi
    have hp : parse r.rest = ([], r.rest) := parse_of_incomplete hi
    constructor <;> simp [hp, refRun, admission, accepted, refusedW, hc]
  | cons s segs ih =>
    intro r hc hi
    have hpa : parse (r.rest ++ (s :: segs).flatten) =
        ((parse (r.rest ++ s)).1 ++ (parse ((parse (r.rest ++ s)).2 ++ segs.flatten)).1,
         (parse ((parse (r.rest ++ s)).2 ++ segs.flatten)).2) := by
      rw [List.flatten_cons, ← List.append_assoc, parse_append]
    have hrun : refRun dec max ((s :: segs).map Op.seg) r =
        refRun dec max (segs.map Op.seg) (refStep dec max r (.seg s)) := rfl
    rw [hrun]
    generalize hr1 : refStep dec max r (.seg s) = r1
    have hr1' : r1 = { r with rest := (parse (r.rest ++ s)).2
                              running := (admission max r.running ((parse (r.rest ++ s)).1.takeWhile dec)).2
                              log := r.log ++ (admission max r.running ((parse (r.rest ++ s)).1.takeWhile dec)).1
                              pending := r.pending ++ accepted (admission max r.running ((parse (r.rest ++ s)).1.takeWhile dec)).1
                              writes := r.writes ++ refusedW (admission max r.running ((parse (r.rest ++ s)).1.takeWhile dec)).1
                              closed := !(parse (r.rest ++ s)).1.all dec } := by
      rw [← hr1]; simp [refStep, hc]
    by_cases hall : (parse (r.rest ++ s)).1.all dec = true
    · have h1c : r1.closed = false := by rw [hr1']; simp [hall]
      have h1i : Incomplete r1.rest := by rw [hr1']; exact parse_rest_incomplete _
      have g := ih r1 h1c h1i
      have e1 : r1.rest = (parse (r.rest ++ s)).2 := by rw [hr1']
      have e2 : r1.running = (admission max r.running ((parse (r.rest ++ s)).1.takeWhile dec)).2 := by rw [hr1']
      have e3 : r1.log = r.log ++ (admission max r.running ((parse (r.rest ++ s)).1.takeWhile dec)).1 := by rw [hr1']
      have e4 : r1.pending = r.pending ++ accepted (admission max r.running ((parse (r.rest ++ s)).1.takeWhile dec)).1 := by rw [hr1']
      have e5 : r1.writes = r.writes ++ refusedW (admission max r.running ((parse (r.rest ++ s)).1.takeWhile dec)).1 := by rw [hr1']
      have htw := takeWhile_append_all dec (parse (r.rest ++ s)).1
        (parse ((parse (r.rest ++ s)).2 ++ segs.flatten)).1 hall
      have htw1 : List.takeWhile dec (parse (r.rest ++ s)).1 = (parse (r.rest ++ s)).1 := by
        have := takeWhile_append_all dec (parse (r.rest ++ s)).1 [] hall
        simpa using this
      rw [htw1] at e2 e3 e4 e5
      constructor
      · rw [g.log, hpa, e1, e2, e3]; simp only []; rw [htw, admission_append]; simp
      · rw [g.closed, hpa, e1]; simp [hall]
      · rw [g.pending, hpa, e1, e2, e4]; simp only []; rw [htw, admission_append]; simp [accepted_append]
      · rw [g.writes, hpa, e1, e2, e5]; simp only []; rw [htw, admission_append]; simp [refusedW_append]
      · intro hall2
        rw [hpa] at hall2
        simp only [List.all_append, Bool.and_eq_true] at hall2
        have g5 := g.rest (by rw [e1]; exact hall2.2)
        rw [hpa]; simp only []
        rw [htw, admission_append]
        rw [e1, e2] at g5
        simpa using g5
    · have hall' : (parse (r.rest ++ s)).1.all dec = false := by simpa using hall
      have h1c : r1.closed = true := by rw [hr1']; simp [hall']
      rw [refRun_segs_closed dec max segs r1 h1c]
      have htw := takeWhile_append_notall dec (parse (r.rest ++ s)).1
        (parse ((parse (r.rest ++ s)).2 ++ segs.flatten)).1 hall'
      constructor
      · rw [hpa]; simp only []; rw [htw, hr1']
      · rw [hpa]; simp only []; rw [hr1']; simp [hall']
      · rw [hpa]; simp only []; rw [htw, hr1']
      · rw [hpa]; simp only []; rw [htw, hr1']
      · intro hall2; rw [hpa] at hall2; simp [hall'] at hall2


/-- a stream whose frames are all non-empty, cut into non-empty segments, is an admissible run -/
theorem noEmpty_segs (dec : Bytes → Bool) (max : Nat) : ∀ (segs : List Bytes) (r : Ref),
    (∀ s ∈ segs, s ≠ []) →
    (r.closed = true ∨ ∀ f ∈ (parse (r.rest ++ segs.flatten)).1, f ≠ []) →
    noEmptyRun dec max (segs.map Op.seg) r = true := by
  intro segs
  induction segs with
  | nil => intro r _ _; rfl
  | cons s segs ih =>
    intro r hs hf
    have hsne : s ≠ [] := hs s (List.mem_cons_self ..)
    have hs' : ∀ t ∈ segs, t ≠ [] := fun t ht => hs t (List.mem_cons_of_mem _ ht)
    have hsi : s.isEmpty = false := by
      cases s with
      | nil => exact absurd rfl hsne
      | cons _ _ => rfl
    rw [List.map_cons, noEmptyRun_cons, Bool.and_eq_true]
    by_cases hc : r.closed = true
    · refine ⟨by simp [opNoEmpty, hsi, hc], ?_⟩
      have : refStep dec max r (.seg s) = r := by simp [refStep, hc]
      rw [this]
      exact ih r hs' (Or.inl hc)
    · have hc' : r.closed = false := by simpa using hc
      have hf' := hf.resolve_left hc
      have hpa : parse (r.rest ++ (s :: segs).flatten) =
          ((parse (r.rest ++ s)).1 ++ (parse ((parse (r.rest ++ s)).2 ++ segs.flatten)).1,
           (parse ((parse (r.rest ++ s)).2 ++ segs.flatten)).2) := by
        rw [List.flatten_cons, ← List.append_assoc, parse_append]
      rw [hpa] at hf'
      refine ⟨?_, ?_⟩
      · simp only [opNoEmpty, hsi, hc', Bool.not_false, Bool.true_and, Bool.false_or, List.all_eq_true]
        intro f hfm
        have := hf' f (by simp [hfm])
        cases f with
        | nil => exact absurd rfl this
        | cons _ _ => rfl
      · apply ih _ hs'
        right
        intro f hfm
        have hr : (refStep dec max r (.seg s)).rest = (parse (r.rest ++ s)).2 := by simp [refStep, hc']
        rw [hr] at hfm
        exact hf' f (by simp [hfm])

end MosVerif.Gnet
