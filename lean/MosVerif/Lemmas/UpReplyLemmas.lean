/-
  Lemmas for C01 (upstream side): the read paths of the upstream transports (Model/UpReply.lean) never
  panic, the pipelined read loop never blocks, and a reply that reaches a waiter was decoded from a unit
  the server sent with the waiter's id.
-/
import MosVerif.Model.UpReply
import MosVerif.Lemmas.WireSafe
namespace MosVerif.UpReply
open MosVerif MosVerif.Wire

theorem unpackMsg_ne_panic (b : Bytes) : unpackMsg b ≠ .panic := by
  rw [unpackMsg_eq]
  have h := (unpackMsgEnd_safe b).1
  cases hm : unpackMsgEnd b with
  | ok p => simp [Bind.bind, Res.bind]
  | err => simp [Bind.bind, Res.bind]
  | panic => exact absurd hm h

/-! ### framing -/

theorem readMsgFromTCP_ne_panic (s : Bytes) : readMsgFromTCP s ≠ .panic := by
  unfold readMsgFromTCP
  split
  · split
    · simp
    · split
      · simp
      · simp
      · next h => exact absurd h (unpackMsg_ne_panic _)
  · simp

/-- A message returned by `ReadMsgFromTCP` is decoded from exactly the octets the length prefix announces:
    nothing behind them is looked at, and they are all there. -/
theorem readMsgFromTCP_msg {s : Bytes} {m : Msg} {rest : Bytes} (h : readMsgFromTCP s = .msg m rest) :
    ∃ a b body, s = a :: b :: (body ++ rest) ∧ body.length = be16 a b ∧ unpackMsg body = .ok m := by
  unfold readMsgFromTCP tcpBodyLen at h
  split at h
  · next a b r =>
    split at h
    · simp at h
    · next hl =>
      split at h
      · next m' hm =>
        simp only [Read.msg.injEq] at h
        refine ⟨a, b, r.take (be16 a b), ?_, ?_, ?_⟩
        · rw [← h.2, List.take_append_drop]
        · rw [List.length_take]; omega
        · rw [hm, h.1]
      · simp at h
      · simp at h
  · simp at h

/-- The first frame of the protocol-level framing is what `ReadMsgFromTCP` decodes. -/
theorem readMsgFromTCP_msg_frames {s : Bytes} {m : Msg} {rest : Bytes} (h : readMsgFromTCP s = .msg m rest) :
    ∃ f, f ∈ (frames s).1 ∧ unpackMsg f = .ok m := by
  unfold readMsgFromTCP tcpBodyLen at h
  split at h
  · next a b r =>
    split at h
    · simp at h
    · next hl =>
      split at h
      · next m' hm =>
        simp only [Read.msg.injEq] at h
        refine ⟨r.take (be16 a b), ?_, by rw [hm, h.1]⟩
        simp [frames, framesAux, hl]
      · simp at h
      · simp at h
  · simp at h

/-! ### the queue -/

theorem qget_mem {q : Queue} {id : Nat} {ch : Chan} (h : qget q id = some ch) : (id, ch) ∈ q := by
  unfold qget at h
  cases hf : q.find? (fun e => e.1 == id) with
  | none => simp [hf] at h
  | some e =>
    simp [hf] at h
    have h1 := List.find?_some hf
    have h2 := List.mem_of_find?_eq_some hf
    simp at h1
    obtain ⟨a, c⟩ := e
    simp at h h1
    subst h h1
    exact h2

/-- every message waiting in a channel satisfies `P id` for the id that owns the channel -/
def Good (P : Nat → Msg → Prop) (q : Queue) : Prop := ∀ e ∈ q, ∀ m ∈ e.2.buf, P e.1 m

theorem Good.qdel {P} {q : Queue} (h : Good P q) (id : Nat) : Good P (qdel q id) := by
  intro e he
  unfold UpReply.qdel at he
  exact h e (List.mem_filter.mp he).1

theorem Good.qset {P} {q : Queue} (h : Good P q) (id : Nat) (ch : Chan) (hc : ∀ m ∈ ch.buf, P id m) :
    Good P (qset q id ch) := by
  intro e he
  unfold UpReply.qset at he
  rcases List.mem_cons.mp he with rfl | he
  · exact hc
  · exact h.qdel id e he

theorem Good.get {P} {q : Queue} (h : Good P q) {id : Nat} {ch : Chan} (hg : qget q id = some ch) :
    ∀ m ∈ ch.buf, P id m := h (id, ch) (qget_mem hg)

theorem deliver_good {P} {b : Bool} {q : Queue} {m : Msg} (h : Good P q) (hm : P m.hdr.id m) :
    Good P (deliver b q m).1 := by
  unfold deliver
  split
  · exact h
  · next ch hg =>
    split
    · apply h.qset
      intro x hx
      rcases List.mem_append.mp hx with hx | hx
      · exact h.get hg x hx
      · simp at hx; subst hx; exact hm
    · split <;> exact h

/-- ★ (mechanism) The hand-over with `select … default` never blocks, whatever the queue holds. -/
theorem deliver_nonblocking (q : Queue) (m : Msg) : (deliver false q m).2 ≠ .blocked := by
  unfold deliver
  split
  · simp
  · split <;> simp

theorem readMsgFromUDP_ne_panic (b : Bytes) : readMsgFromUDP b ≠ .panic := by
  unfold readMsgFromUDP readMsgFromUDPn
  split
  · simp
  · split <;> simp
  · next h => exact absurd h (unpackMsg_ne_panic _)

/-- A message comes out of `ReadMsgFromUDP` either because the datagram decodes, or as the header-only
    stand-in of a datagram that does not. -/
theorem readMsgFromUDP_msg {b : Bytes} {m : Msg} (h : readMsgFromUDP b = .msg m) :
    unpackMsg (b.take udpBuf) = .ok m ∨
    (unpackMsg (b.take udpBuf) = .err ∧ headerOnly (b.take udpBuf) = some m) := by
  unfold readMsgFromUDP readMsgFromUDPn at h
  split at h
  · next m' hm => simp at h; left; rw [hm, h]
  · next he =>
    split at h
    · next m' hh => simp at h; right; exact ⟨he, by rw [hh, h]⟩
    · simp at h
  · simp at h

theorem headerOnly_some {d : Bytes} {m : Msg} (h : headerOnly d = some m) :
    ∃ a b f rest, d = a :: b :: f :: rest ∧ 12 ≤ d.length ∧ (f.toNat / 2) % 2 = 1 ∧
      m.hdr.id = be16 a b ∧ m.hdr.truncated = true ∧ m.hdr.response = decide ((f.toNat / 128) % 2 = 1) ∧
      m.questions = [] ∧ m.answers = [] ∧ m.authorities = [] ∧ m.additionals = [] := by
  unfold headerOnly at h
  split at h
  · next a b f rest =>
    split at h
    · next hc =>
      simp at h
      subst h
      exact ⟨a, b, f, rest, rfl, hc.1, hc.2, rfl, rfl, rfl, rfl, rfl, rfl, rfl⟩
    · simp at h
  · simp at h

theorem unitStep_ne_panic (isTCP : Bool) (b : Bytes) : unitStep isTCP b ≠ .panic := by
  unfold unitStep
  split
  · split
    · simp
    · simp
    · next h => exact absurd h (unpackMsg_ne_panic _)
  · split
    · simp
    · split <;> simp
    · next h => exact absurd h (readMsgFromUDP_ne_panic _)

/-- does unit `b` make the loop close the connection? -/
def closes (isTCP : Bool) (b : Bytes) : Prop := unitStep isTCP b = .close

/-- ★ Progress of the read loop (no bound on the number of events, any interleaving of replies with
    exchanges joining, receiving and leaving, any initial queue): the loop never blocks and never panics; it
    either reads every unit, or stops at a unit that closes the connection (TCP: a frame that does not decode,
    UDP: an empty datagram). -/
theorem runLoop_progress (isTCP : Bool) (es : List Ev) : ∀ (q : Queue) (n : Nat),
    (runLoop false isTCP q n es).2 = .idle (n + unitsOf es) ∨
    ∃ k, n ≤ k ∧ k < n + unitsOf es ∧ (runLoop false isTCP q n es).2 = .closed k := by
  induction es with
  | nil => intro q n; simp [runLoop, unitsOf]
  | cons e es ih =>
    intro q n
    cases e with
    | join id => simpa [runLoop, unitsOf] using ih _ n
    | take id => simpa [runLoop, unitsOf] using ih _ n
    | leave id => simpa [runLoop, unitsOf] using ih _ n
    | unit b =>
      simp only [runLoop, unitsOf]
      cases hu : unitStep isTCP b with
      | panic => exact absurd hu (unitStep_ne_panic _ _)
      | close => right; exact ⟨n, Nat.le_refl _, by omega, rfl⟩
      | skip =>
        simp only
        rcases ih q (n + 1) with h | ⟨k, h1, h2, h3⟩
        · left; rw [h]; congr 1; omega
        · right; exact ⟨k, by omega, by omega, h3⟩
      | msg m =>
        simp only
        have hnb := deliver_nonblocking q m
        cases hd : deliver false q m with
        | mk q' s =>
          rw [hd] at hnb
          cases s with
          | blocked => exact absurd rfl hnb
          | sent =>
            simp only
            rcases ih q' (n + 1) with h | ⟨k, h1, h2, h3⟩
            · left; rw [h]; congr 1; omega
            · right; exact ⟨k, by omega, by omega, h3⟩
          | dropped =>
            simp only
            rcases ih q' (n + 1) with h | ⟨k, h1, h2, h3⟩
            · left; rw [h]; congr 1; omega
            · right; exact ⟨k, by omega, by omega, h3⟩

theorem runLoop_not_blocked (isTCP : Bool) (es : List Ev) (q : Queue) (n k : Nat) :
    (runLoop false isTCP q n es).2 ≠ .blocked k ∧ (runLoop false isTCP q n es).2 ≠ .panic := by
  rcases runLoop_progress isTCP es q n with h | ⟨k', _, _, h⟩ <;> rw [h] <;> simp

/-- If no unit closes the connection, every unit is read — replies whose waiter has left, whose channel is
    full, or that nobody asked for are dropped and the loop goes on. -/
theorem runLoop_reads_all (isTCP : Bool) (es : List Ev) (hno : ∀ b, Ev.unit b ∈ es → ¬ closes isTCP b) :
    ∀ (q : Queue) (n : Nat), (runLoop false isTCP q n es).2 = .idle (n + unitsOf es) := by
  induction es with
  | nil => intro q n; simp [runLoop, unitsOf]
  | cons e es ih =>
    have ih' := ih (fun b hb => hno b (List.mem_cons_of_mem _ hb))
    intro q n
    cases e with
    | join id => simpa [runLoop, unitsOf] using ih' _ n
    | take id => simpa [runLoop, unitsOf] using ih' _ n
    | leave id => simpa [runLoop, unitsOf] using ih' _ n
    | unit b =>
      simp only [runLoop, unitsOf]
      cases hu : unitStep isTCP b with
      | panic => exact absurd hu (unitStep_ne_panic _ _)
      | close => exact absurd hu (hno b (List.mem_cons_self))
      | skip => simp only; rw [ih' q (n + 1)]; congr 1; omega
      | msg m =>
        simp only
        have hnb := deliver_nonblocking q m
        cases hd : deliver false q m with
        | mk q' s =>
          rw [hd] at hnb
          cases s with
          | blocked => exact absurd rfl hnb
          | sent => simp only; rw [ih' q' (n + 1)]; congr 1; omega
          | dropped => simp only; rw [ih' q' (n + 1)]; congr 1; omega

/-- Every message that waits in a channel after the loop was either there before, or was decoded from a unit
    that arrived, and carries the id of the channel's owner. -/
theorem runLoop_good (blocking isTCP : Bool) (U : Bytes → Prop) (es : List Ev) :
    ∀ (q : Queue) (n : Nat), (∀ b, Ev.unit b ∈ es → U b) →
      Good (fun id m => m.hdr.id = id ∧ ∃ b, U b ∧ unitStep isTCP b = .msg m) q →
      Good (fun id m => m.hdr.id = id ∧ ∃ b, U b ∧ unitStep isTCP b = .msg m) (runLoop blocking isTCP q n es).1 := by
  induction es with
  | nil => intro q n _ hg; simpa [runLoop] using hg
  | cons e es ih =>
    intro q n hU hg
    have hU' : ∀ b, Ev.unit b ∈ es → U b := fun b hb => hU b (List.mem_cons_of_mem _ hb)
    cases e with
    | join id =>
      simp only [runLoop]
      exact ih _ n hU' (hg.qset id ⟨[], 1⟩ (by simp))
    | take id =>
      simp only [runLoop]
      apply ih _ n hU'
      split
      · next ch hq =>
        apply hg.qset
        intro m hm
        exact hg.get hq m (List.mem_of_mem_drop hm)
      · exact hg
    | leave id =>
      simp only [runLoop]
      exact ih _ n hU' (hg.qdel id)
    | unit b =>
      simp only [runLoop]
      cases hu : unitStep isTCP b with
      | panic => simpa using hg
      | close => simpa using hg
      | skip => simpa using ih q (n + 1) hU' hg
      | msg m =>
        simp only
        have hd := deliver_good (b := blocking) (q := q) (m := m) hg ⟨rfl, b, hU b (List.mem_cons_self), hu⟩
        cases hdd : deliver blocking q m with
        | mk q' s =>
          rw [hdd] at hd
          cases s with
          | blocked => simpa using hd
          | sent => simpa using ih q' (n + 1) hU' hd
          | dropped => simpa using ih q' (n + 1) hU' hd

theorem delivered_good {P} {q : Queue} (h : Good P q) {id : Nat} {m : Msg} (hd : delivered q id = some m) : P id m := by
  unfold delivered at hd
  split at hd
  · next ch hq =>
    apply h.get hq
    exact List.mem_of_mem_head? hd
  · simp at hd

/-! ### DoH -/

theorem dohExchange_ne_panic (status : Nat) (cl : Int) (body : Bytes) (e : Bool) :
    dohExchange false status cl body e ≠ .panic := by
  unfold dohExchange
  split
  · simp
  · split
    · next h => simp at h
    · split
      · simp
      · exact unpackMsg_ne_panic _

end MosVerif.UpReply
