/-
  Tie by translation (C14): the loop conditions of the three retrying transports — `!newConn && retry < 5 &&
  !ctxIsDone(ctx)` (pipeline, quic), `retry <= 5` and `!isNewConn && retry <= 5 && !ctxIsDone(ctx)` (reuse) —
  are translated mechanically from the current Go source (`Generated/Translated.lean`); each model loop is shown
  to be the loop that branches on exactly the translated condition. A change of a bound, a dropped conjunct or a
  flipped negation in the Go source changes the translated definition and breaks the corresponding equation.
-/
import MosVerif.Generated.Translated
import MosVerif.Model.Retry
namespace MosVerif.Retry
open MosVerif

theorem id_pure_c14 {α : Type} (x : α) : (pure x : Id α) = x := rfl

/-- normalise a translated fragment: unfold the `do` block, split its `if`s, Bool equality as `↔`, then
    simplification and linear arithmetic -/
local macro "tie_tac" : tactic => `(tactic| (
  (try simp only [Id.run, id_pure_c14])
  <;> (try (repeat' split))
  <;> (try (rw [Bool.eq_iff_iff]))
  <;> (try simp_all)
  <;> (try omega)))

/-! the translated conditions in the model's form (case analysis + linear arithmetic: a rewrite of the Go text that
    keeps the meaning — `retry <= 4`, swapped conjuncts — keeps them provable, a change of meaning does not) -/

theorem pipeline_retryCond_eq (newConn : Bool) (retry : Nat) (done : Bool) :
    Translated.pipeline_retryCond newConn retry done = (!newConn && decide (retry < 5) && !done) := by
  unfold Translated.pipeline_retryCond
  cases newConn <;> cases done <;> tie_tac

theorem quic_retryCond_eq (newConn : Bool) (retry : Nat) (done : Bool) :
    Translated.quic_retryCond newConn retry done = (!newConn && decide (retry < 5) && !done) := by
  unfold Translated.quic_retryCond
  cases newConn <;> cases done <;> tie_tac

theorem reuse_poolCond_eq' (retry : Nat) : Translated.reuse_poolCond retry = decide (retry ≤ 5) := by
  unfold Translated.reuse_poolCond
  tie_tac

theorem reuse_retryCond_eq' (new : Bool) (retry : Nat) (done : Bool) :
    Translated.reuse_retryCond new retry done = (!new && decide (retry ≤ 5) && !done) := by
  unfold Translated.reuse_retryCond
  cases new <;> cases done <;> tie_tac

theorem doh_retryCond_eq (connErr reused quicErr h3Err : Bool) (retry : Nat) (alive : Bool) :
    Translated.doh_retryCond connErr reused quicErr h3Err retry alive =
      (connErr && (reused || quicErr || h3Err) && decide (retry < 3) && alive) := by
  unfold Translated.doh_retryCond
  cases connErr <;> cases reused <;> cases quicErr <;> cases h3Err <;> cases alive <;> tie_tac

theorem pipelineLoop_translated (o : Oracle) (retry i : Nat) :
    pipelineLoop o retry i =
      match (o i).get with
      | .poolErr => ⟨none, i + 1⟩
      | .dialErr => ⟨none, i + 1⟩
      | g =>
        match (o i).res with
        | some r => ⟨some r, i + 1⟩
        | none =>
          if Translated.pipeline_retryCond (g == .fresh) retry (o i).ctxDone then pipelineLoop o (retry + 1) (i + 1)
          else ⟨none, i + 1⟩ := by
  rw [pipelineLoop]
  simp only [pipeline_retryCond_eq]
  cases hg : (o i).get <;> cases hr : (o i).res <;> cases hc : (o i).ctxDone <;>
    by_cases h : retry < 5 <;> simp [h]

theorem quicLoop_translated (o : Oracle) (retry i : Nat) (forgot : Bool) :
    quicLoop o retry i forgot =
      let a := if forgot then forcedDial (o i) else o i
      match a.get with
      | .poolErr => ⟨none, i + 1⟩
      | .dialErr => ⟨none, i + 1⟩
      | g =>
        match a.res with
        | some r => ⟨some r, i + 1⟩
        | none =>
          if Translated.quic_retryCond (g == .fresh) retry a.ctxDone then quicLoop o (retry + 1) (i + 1) a.connErr
          else ⟨none, i + 1⟩ := by
  rw [quicLoop]
  simp only [quic_retryCond_eq]
  generalize (if forgot then forcedDial (o i) else o i) = a
  cases a with
  | mk g r c f fd ce =>
    cases g <;> cases r <;> cases c <;> by_cases h : retry < 5 <;> simp [h]

theorem reuseLoop_translated (o : Oracle) (retry i : Nat) :
    reuseLoop o retry i =
      let a := if Translated.reuse_poolCond retry then o i else forcedDial (o i)
      match a.get with
      | .poolErr => ⟨none, i + 1⟩
      | .dialErr => ⟨none, i + 1⟩
      | g =>
        match a.res with
        | some r => ⟨some r, i + 1⟩
        | none =>
          if Translated.reuse_retryCond (g == .fresh) retry a.ctxDone then reuseLoop o (retry + 1) (i + 1)
          else ⟨none, i + 1⟩ := by
  rw [reuseLoop]
  simp only [reuse_retryCond_eq', reuse_poolCond_eq']
  by_cases h : retry ≤ 5
  · simp only [h, decide_true, if_true]
    cases hg : (o i).get <;> cases hr : (o i).res <;> cases hc : (o i).ctxDone <;> simp
  · simp only [h, decide_false, if_false, Bool.false_eq_true]
    cases hg : (forcedDial (o i)).get <;> cases hr : (forcedDial (o i)).res <;>
      cases hc : (forcedDial (o i)).ctxDone <;> simp

/-- the DoH loop branches on exactly the translated condition (`connErr` = not a response error,
    `reused` = the connection came from the pool, the model's `connErr` flag = `isQuicConnErr(err) ||
    isHttp3Err(err)` — whichever way it splits into the two —, `ctx.Err() == nil` = the caller's context
    is alive: the transport's own 6 s context outlives it) -/
theorem dohLoop_translated (o : Oracle) (retry i : Nat) (quicErr h3Err : Bool)
    (hsplit : (quicErr || h3Err) = (o i).connErr) :
    dohLoop o retry i =
      let a := o i
      if a.ctxDone then ⟨none, i + 1⟩
      else if !a.get.isErr && a.res.isSome then ⟨a.res, i + 1⟩
      else if Translated.doh_retryCond (!a.respErr) (a.get == .pooled) quicErr h3Err retry (!a.ctxDone) then
        dohLoop o (retry + 1) (i + 1)
      else ⟨none, i + 1⟩ := by
  rw [dohLoop]
  simp only [doh_retryCond_eq]
  generalize o i = a at hsplit ⊢
  cases a with
  | mk g x c f fd ce re =>
    simp only at hsplit
    subst hsplit
    by_cases h : retry < 3 <;> cases g <;> cases x <;> cases c <;> cases quicErr <;> cases h3Err <;> cases re <;>
      simp [Get.isErr, h]

end MosVerif.Retry
