/-
  C05 — a reply that arrives when no exchange waits under its (connection, wire id)
  is never received by anybody; unfolding of the history predicates into explicit shapes.
-/
import MosVerif.Lemmas.PipelineDeliver
namespace MosVerif.Pipeline

/-- the reply event with index `k` can never be received any more -/
def Dormant (k : Nat) (s : State) : Prop :=
  (∀ e, (e, k) ∉ s.taken) ∧
  (∀ e c q ch p, (s.pcs e = .registered c q ch ∨ s.pcs e = .waiting c q ch) → s.chans ch ≠ .full p k) ∧
  k < s.hist.length

theorem dormant_step {cfg : Cfg} {s : State} {k : Nat} (h : Dormant k s) (st : Step) : Dormant k (step cfg s st) := by
  obtain ⟨d1, d2, d3⟩ := h
  have hlen : ∀ ev : Ev, (ev :: s.hist).length = s.hist.length + 1 := fun _ => rfl
  cases st with
  | reserve c => exact ⟨d1, d2, d3⟩
  | close c => exact ⟨d1, d2, d3⟩
  | addQ e c =>
    simp only [step]
    split
    · split
      · exact ⟨d1, d2, d3⟩
      · refine ⟨d1, ?_, by simp only [hlen]; omega⟩
        simp only []; grind [upd]
    · exact ⟨d1, d2, d3⟩
  | write e ok closes =>
    simp only [step]
    split
    · split
      · refine ⟨d1, ?_, by simp only [hlen]; omega⟩
        simp only []; grind [upd]
      · refine ⟨d1, ?_, d3⟩
        simp only []; grind [upd]
    · exact ⟨d1, d2, d3⟩
  | srvReply c id p =>
    simp only [step]
    split
    · exact ⟨d1, d2, by simp only [hlen]; omega⟩
    · split
      · refine ⟨d1, ?_, by simp only [hlen]; omega⟩
        simp only []; grind [upd]
      · exact ⟨d1, d2, by simp only [hlen]; omega⟩
  | take e =>
    simp only [step]
    split
    · rename_i c q ch hpc
      split
      · rename_i p k' hfull
        have hk : k' ≠ k := by
          intro hk; subst hk
          exact d2 e c q ch p (Or.inr hpc) hfull
        refine ⟨?_, ?_, d3⟩
        · intro e' hm
          simp only [List.mem_cons] at hm
          rcases hm with hm | hm
          · cases hm; exact hk rfl
          · exact d1 e' hm
        · simp only []; grind [upd]
      · exact ⟨d1, d2, d3⟩
    · exact ⟨d1, d2, d3⟩
  | cancel e =>
    simp only [step]
    split
    · refine ⟨d1, ?_, d3⟩
      simp only []; grind [upd]
    · exact ⟨d1, d2, d3⟩
  | dead e =>
    simp only [step]
    split
    · split
      · refine ⟨d1, ?_, d3⟩
        simp only []; grind [upd]
      · exact ⟨d1, d2, d3⟩
    · exact ⟨d1, d2, d3⟩
  | delQ e =>
    simp only [step]
    split
    · rename_i c q r hpc
      cases r with
      | none =>
        refine ⟨d1, ?_, d3⟩
        simp only []; grind [upd]
      | some p =>
        refine ⟨d1, ?_, by simp only [hlen]; omega⟩
        simp only []; grind [upd]
    · exact ⟨d1, d2, d3⟩
  | giveUp e =>
    simp only [step]
    split
    · refine ⟨d1, ?_, by simp only [hlen]; omega⟩
      simp only []; grind [upd]
    · exact ⟨d1, d2, d3⟩

theorem dormant_exec {cfg : Cfg} {s : State} {k : Nat} (h : Dormant k s) (steps : List Step) :
    Dormant k (exec cfg s steps) := by
  induction steps generalizing s with
  | nil => exact h
  | cons st rest ih => exact ih (dormant_step h st)

/-- a reply for `(c, id)` that arrives while nobody is registered or waiting under `(c, id)`
    is dormant from the start -/
theorem dormant_of_no_waiter {cfg : Cfg} {s : State} (hi : Inv cfg s) (hg : GInv cfg s) (c id p : Nat)
    (hno : ∀ e ch, s.pcs e ≠ .registered c id ch ∧ s.pcs e ≠ .waiting c id ch) :
    Dormant s.hist.length (step cfg s (.srvReply c id p)) := by
  have t1 : ∀ e, (e, s.hist.length) ∉ s.taken := fun e hm => Nat.lt_irrefl _ (hg.tk_st e _ hm)
  have t2 : ∀ e c' q ch p', (s.pcs e = .registered c' q ch ∨ s.pcs e = .waiting c' q ch) →
      s.chans ch ≠ .full p' s.hist.length := fun e c' q ch p' _ hf => Nat.lt_irrefl _ (hg.ch_st ch p' _ hf)
  have hlen : (Ev.reply c id p :: s.hist).length = s.hist.length + 1 := rfl
  simp only [step]
  split
  · exact ⟨t1, t2, by simp only [hlen]; omega⟩
  · rename_i ch hq
    split
    · refine ⟨t1, ?_, by simp only [hlen]; omega⟩
      intro e c' q' ch' p' hp hf
      by_cases hch : ch' = ch
      · subst hch
        obtain ⟨h1, h2⟩ := hi.own c id ch' e c' q' hq hp
        subst h1; subst h2
        rcases hp with hp | hp
        · exact (hno e ch').1 hp
        · exact (hno e ch').2 hp
      · simp only [upd_other _ _ _ _ hch] at hf
        exact t2 e c' q' ch' p' hp hf
    · exact ⟨t1, t2, by simp only [hlen]; omega⟩

/-! ### explicit shapes -/

theorem curAssign_mem {e c id : Nat} {h : List Ev} (hc : curAssign e h = some (c, id)) : Ev.assign e c id ∈ h := by
  induction h with
  | nil => simp [curAssign] at hc
  | cons ev t ih =>
    cases ev with
    | assign e' c' id' =>
      by_cases he : e' = e
      · subst he; simp [curAssign] at hc; obtain ⟨h1, h2⟩ := hc; subst h1; subst h2; exact List.mem_cons_self
      · simp [curAssign, he] at hc; exact List.mem_cons_of_mem _ (ih hc)
    | query _ _ _ => exact List.mem_cons_of_mem _ (ih (by simpa [curAssign] using hc))
    | reply _ _ _ => exact List.mem_cons_of_mem _ (ih (by simpa [curAssign] using hc))
    | ret _ _ => exact List.mem_cons_of_mem _ (ih (by simpa [curAssign] using hc))

/-- `curAssign e h = some (c, id)`: the newest `assign e …` event in `h` is `assign e c id` -/
theorem curAssign_shape {e c id : Nat} {h : List Ev} (hc : curAssign e h = some (c, id)) :
    ∃ l2 l3, h = l2 ++ Ev.assign e c id :: l3 ∧ ∀ c' id', Ev.assign e c' id' ∉ l2 := by
  induction h with
  | nil => simp [curAssign] at hc
  | cons ev t ih =>
    have push : curAssign e t = some (c, id) → (∀ c' id', ev ≠ Ev.assign e c' id') →
        ∃ l2 l3, ev :: t = l2 ++ Ev.assign e c id :: l3 ∧ ∀ c' id', Ev.assign e c' id' ∉ l2 := by
      intro hc' hne
      obtain ⟨l2, l3, h1, h2⟩ := ih hc'
      refine ⟨ev :: l2, l3, by simp [h1], ?_⟩
      intro c' id' hm
      rcases List.mem_cons.mp hm with h3 | h3
      · exact hne c' id' h3.symm
      · exact h2 c' id' h3
    cases ev with
    | assign e' c' id' =>
      by_cases he : e' = e
      · subst he; simp [curAssign] at hc; obtain ⟨h1, h2⟩ := hc; subst h1; subst h2
        exact ⟨[], t, rfl, by simp⟩
      · simp [curAssign, he] at hc
        exact push hc (by intro _ _ h; cases h; exact he rfl)
    | query _ _ _ => exact push (by simpa [curAssign] using hc) (by intro _ _; simp)
    | reply _ _ _ => exact push (by simpa [curAssign] using hc) (by intro _ _; simp)
    | ret _ _ => exact push (by simpa [curAssign] using hc) (by intro _ _; simp)

/-- the two history predicates of the specification, spelled out: the history (newest first) is
    `l1 ++ reply c id p :: l2 ++ assign e c id :: l3` with no `assign e …` in `l1`, `l2` -/
theorem since_shape {e c id p : Nat} {h : List Ev} (hc : curAssign e h = some (c, id))
    (hr : replySince e c id p h = true) :
    ∃ l1 l2 l3, h = l1 ++ Ev.reply c id p :: (l2 ++ Ev.assign e c id :: l3) ∧
      (∀ c' id', Ev.assign e c' id' ∉ l1) ∧ (∀ c' id', Ev.assign e c' id' ∉ l2) := by
  induction h with
  | nil => simp [curAssign] at hc
  | cons ev t ih =>
    have push : curAssign e t = some (c, id) → replySince e c id p t = true → (∀ c' id', ev ≠ Ev.assign e c' id') →
        ∃ l1 l2 l3, ev :: t = l1 ++ Ev.reply c id p :: (l2 ++ Ev.assign e c id :: l3) ∧
          (∀ c' id', Ev.assign e c' id' ∉ l1) ∧ (∀ c' id', Ev.assign e c' id' ∉ l2) := by
      intro hc' hr' hne
      obtain ⟨l1, l2, l3, h1, h2, h3⟩ := ih hc' hr'
      refine ⟨ev :: l1, l2, l3, by simp [h1], ?_, h3⟩
      intro c' id' hm
      rcases List.mem_cons.mp hm with h4 | h4
      · exact hne c' id' h4.symm
      · exact h2 c' id' h4
    cases ev with
    | assign e' c' id' =>
      by_cases he : e' = e
      · subst he; simp [replySince] at hr
      · simp [curAssign, he] at hc
        simp [replySince, he] at hr
        exact push hc hr (by intro _ _ h; cases h; exact he rfl)
    | reply c' id' p' =>
      have hc' : curAssign e t = some (c, id) := by simpa [curAssign] using hc
      simp only [replySince, Bool.or_eq_true, Bool.and_eq_true, beq_iff_eq] at hr
      rcases hr with ⟨⟨h1, h2⟩, h3⟩ | hr
      · subst h1; subst h2; subst h3
        obtain ⟨l2, l3, h4, h5⟩ := curAssign_shape hc'
        exact ⟨[], l2, l3, by simp [h4], by simp, h5⟩
      · exact push hc' hr (by intro _ _; simp)
    | query _ _ _ => exact push (by simpa [curAssign] using hc) (by simpa [replySince] using hr) (by intro _ _; simp)
    | ret _ _ => exact push (by simpa [curAssign] using hc) (by simpa [replySince] using hr) (by intro _ _; simp)

/-- in a history that satisfies the specification a (connection, wire id) pair belongs to one exchange -/
theorem spec_assign_unique {cfg : Cfg} {h : List Ev} (hs : spec cfg h = true) {e e' c id : Nat}
    (h1 : Ev.assign e c id ∈ h) (h2 : Ev.assign e' c id ∈ h) : e = e' := by
  induction h with
  | nil => simp at h1
  | cons ev t ih =>
    simp only [spec, Bool.and_eq_true] at hs
    obtain ⟨hev, hst⟩ := hs
    rcases List.mem_cons.mp h1 with a1 | a1 <;> rcases List.mem_cons.mp h2 with a2 | a2
    · rw [← a1] at a2; cases a2; rfl
    · subst a1
      simp only [okEv, Bool.and_eq_true, Bool.not_eq_true'] at hev
      have := (idUsed_eq_true_iff c id t).mpr ⟨e', a2⟩
      simp [this] at hev
    · subst a2
      simp only [okEv, Bool.and_eq_true, Bool.not_eq_true'] at hev
      have := (idUsed_eq_true_iff c id t).mpr ⟨e, a1⟩
      simp [this] at hev
    · exact ih hst a1 a2

/-- a suffix (older part) of a history that satisfies the specification satisfies it -/
theorem spec_suffix {cfg : Cfg} (newer older : List Ev) (hs : spec cfg (newer ++ older) = true) : spec cfg older = true := by
  induction newer with
  | nil => exact hs
  | cons ev t ih =>
    simp only [List.cons_append, spec, Bool.and_eq_true] at hs
    exact ih hs.2

end MosVerif.Pipeline
