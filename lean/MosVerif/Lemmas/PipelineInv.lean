/-
  C05 — the inductive invariant of Model/Pipeline.lean and its preservation by every step.
-/
import MosVerif.Lemmas.PipelineBasic
namespace MosVerif.Pipeline

structure Inv (cfg : Cfg) (s : State) : Prop where
  /-- no wrap-around: the counter never exceeds 65536 -/
  nq_le : ∀ c, (s.conns c).nextQid ≤ 65536
  base_le : ∀ c, cfg.base c ≤ (s.conns c).nextQid
  /-- every wire id handed out on `c` is below `c`'s counter -/
  asg_lt : ∀ e c id, Ev.assign e c id ∈ s.hist → id < (s.conns c).nextQid
  cur_reg : ∀ e c q ch, s.pcs e = .registered c q ch → curAssign e s.hist = some (c, q)
  cur_wait : ∀ e c q ch, s.pcs e = .waiting c q ch → curAssign e s.hist = some (c, q)
  cur_leave : ∀ e c q r, s.pcs e = .leaving c q r → curAssign e s.hist = some (c, q)
  noret : ∀ e, s.pcs e ≠ .done → returned e s.hist = false
  ch_lt : ∀ e c q ch, (s.pcs e = .registered c q ch ∨ s.pcs e = .waiting c q ch) → ch < s.nchan
  qch_lt : ∀ c q ch, qget q (s.conns c).queue = some ch → ch < s.nchan
  /-- a channel found under key `q` of connection `c` belongs to an exchange registered as `(c, q)` -/
  own : ∀ c q ch e c' q', qget q (s.conns c).queue = some ch →
        (s.pcs e = .registered c' q' ch ∨ s.pcs e = .waiting c' q' ch) → c' = c ∧ q' = q
  /-- what sits in the channel of a registered exchange was sent by the server for its wire id -/
  buf : ∀ e c q ch p k, (s.pcs e = .registered c q ch ∨ s.pcs e = .waiting c q ch) →
        s.chans ch = .full p k → replySince e c q p s.hist = true
  got : ∀ e c q p, s.pcs e = .leaving c q (some p) → replySince e c q p s.hist = true
  sp : spec cfg s.hist = true

theorem inv_init (cfg : Cfg) (hb : ∀ c, cfg.base c ≤ 65536) : Inv cfg (init cfg) := by
  refine ⟨?_, ?_, ?_, ?_, ?_, ?_, ?_, ?_, ?_, ?_, ?_, ?_, ?_⟩ <;> simp [init, hb, returned, spec]

section steps
variable {cfg : Cfg} {s : State}

theorem inv_reserve (h : Inv cfg s) (c : Nat) : Inv cfg (step cfg s (.reserve c)) := by
  have hq : ∀ c', (upd s.conns c (s.conns c).reserve c').queue = (s.conns c').queue := by
    intro c'; by_cases hc : c' = c
    · subst hc; simp [reserve_queue]
    · simp [hc]
  have hn : ∀ c', (upd s.conns c (s.conns c).reserve c').nextQid = (s.conns c').nextQid := by
    intro c'; by_cases hc : c' = c
    · subst hc; simp [reserve_nextQid]
    · simp [hc]
  constructor <;> simp only [step, hq, hn]
  · exact h.nq_le
  · exact h.base_le
  · exact h.asg_lt
  · exact h.cur_reg
  · exact h.cur_wait
  · exact h.cur_leave
  · exact h.noret
  · exact h.ch_lt
  · exact h.qch_lt
  · exact h.own
  · exact h.buf
  · exact h.got
  · exact h.sp

theorem inv_close (h : Inv cfg s) (c : Nat) : Inv cfg (step cfg s (.close c)) := by
  have hq : ∀ c', (upd s.conns c { s.conns c with closed := true } c').queue = (s.conns c').queue := by
    intro c'; by_cases hc : c' = c
    · subst hc; simp
    · simp [hc]
  have hn : ∀ c', (upd s.conns c { s.conns c with closed := true } c').nextQid = (s.conns c').nextQid := by
    intro c'; by_cases hc : c' = c
    · subst hc; simp
    · simp [hc]
  constructor <;> simp only [step, hq, hn]
  · exact h.nq_le
  · exact h.base_le
  · exact h.asg_lt
  · exact h.cur_reg
  · exact h.cur_wait
  · exact h.cur_leave
  · exact h.noret
  · exact h.ch_lt
  · exact h.qch_lt
  · exact h.own
  · exact h.buf
  · exact h.got
  · exact h.sp

theorem mem_cons_reply {e c id c' id' p' : Nat} {h : List Ev}
    (hm : Ev.assign e c id ∈ Ev.reply c' id' p' :: h) : Ev.assign e c id ∈ h := by
  rcases List.mem_cons.mp hm with h1 | h1
  · cases h1
  · exact h1

theorem inv_srvReply (h : Inv cfg s) (c id p : Nat) : Inv cfg (step cfg s (.srvReply c id p)) := by
  have hca : ∀ e, curAssign e (Ev.reply c id p :: s.hist) = curAssign e s.hist := fun e => rfl
  have hret : ∀ e, returned e (Ev.reply c id p :: s.hist) = returned e s.hist := fun e =>
    returned_cons_of_not_ret _ _ _ (by intro r; simp)
  have hrs : ∀ e c' q' p', replySince e c' q' p' s.hist = true →
      replySince e c' q' p' (Ev.reply c id p :: s.hist) = true := fun e c' q' p' hr =>
    replySince_cons_of_not_assign _ _ _ _ _ _ (by intro _ _; simp) hr
  have hsp : spec cfg (Ev.reply c id p :: s.hist) = true := by simp [spec, okEv, h.sp]
  -- the state with only the history extended
  have base : Inv cfg { s with hist := Ev.reply c id p :: s.hist } :=
    { nq_le := h.nq_le, base_le := h.base_le
      asg_lt := fun e c' id' hm => h.asg_lt e c' id' (mem_cons_reply hm)
      cur_reg := fun e c' q ch hp => by simpa [hca] using h.cur_reg e c' q ch hp
      cur_wait := fun e c' q ch hp => by simpa [hca] using h.cur_wait e c' q ch hp
      cur_leave := fun e c' q r hp => by simpa [hca] using h.cur_leave e c' q r hp
      noret := fun e hp => by simpa [hret] using h.noret e hp
      ch_lt := h.ch_lt, qch_lt := h.qch_lt, own := h.own
      buf := fun e c' q ch p' k hp hc => hrs _ _ _ _ (h.buf e c' q ch p' k hp hc)
      got := fun e c' q p' hp => hrs _ _ _ _ (h.got e c' q p' hp)
      sp := hsp }
  simp only [step]
  split
  · exact base
  · rename_i ch hq
    split
    · rename_i hempty
      refine { base with buf := ?_ }
      intro e c' q' ch' p' k hp hc
      by_cases hch : ch' = ch
      · subst hch
        simp at hc
        obtain ⟨h1, _⟩ := hc
        subst h1
        obtain ⟨h2, h3⟩ := h.own c id ch' e c' q' hq hp
        subst h2; subst h3
        exact replySince_reply _ _ _ _ _
      · simp [hch] at hc
        exact hrs _ _ _ _ (h.buf e c' q' ch' p' k hp hc)
    · exact base

end steps
end MosVerif.Pipeline
