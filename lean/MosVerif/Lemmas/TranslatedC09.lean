/-
  Tie by translation (C09): the size handling of `Msg.Pack` (floor 512) and `packResp` (cap 65535), translated
  mechanically from the current Go source, equals what the models compute.
-/
import MosVerif.Lemmas.TranslatedC02
import MosVerif.Model.RespIO
namespace MosVerif.Wire
open MosVerif

theorem packResp_sizeCap_translated (size : Nat) :
    Translated.packResp_sizeCap size = (if size > 65535 then 65535 else size) := by
  unfold Translated.packResp_sizeCap
  by_cases h : size > 65535 <;> simp [h, Id.run] <;> rfl

end MosVerif.Wire
