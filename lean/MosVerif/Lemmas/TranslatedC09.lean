/-
  Tie by translation (C09): the size handling of `Msg.Pack` (floor 512) and `packResp` (cap 65535), translated
  mechanically from the current Go source, equals what the models compute.
-/
import MosVerif.Lemmas.TranslatedC02
import MosVerif.Model.RespIO
namespace MosVerif.Wire
open MosVerif

theorem packResp_sizeCap_translated (size : Nat) :
    Translated.packResp_sizeCap size = (if size > 65535 then 65535 else size) := by
  unfold Translated.packResp_sizeCap
  by_cases h : size > 65535 <;> simp [h, Id.run] <;> rfl

/-- the floor 512 / cap `maxUdpPayloadSize` clamps of `udpServer.handleReq` -/
theorem udpClamp_translated (s : Nat) : udpClamp s = Translated.c09_udpClamp s := by
  unfold udpClamp Translated.c09_udpClamp udpFloor udpMax
  by_cases h1 : s < 512 <;> by_cases h2 : s > 65507 <;> simp [h1, h2, Id.run] <;> first | rfl | omega

end MosVerif.Wire
