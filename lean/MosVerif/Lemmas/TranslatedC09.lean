/-
  Tie by translation (C09): the size handling of `Msg.Pack` (floor 512) and `packResp` (cap 65535), translated
  mechanically from the current Go source, equals what the models compute.
-/
import MosVerif.Lemmas.TranslatedC02
import MosVerif.Model.RespIO
namespace MosVerif.Wire
open MosVerif

theorem packResp_sizeCap_translated (size : Nat) :
    Translated.packResp_sizeCap size = (if size > 65535 then 65535 else size) := by
  unfold Translated.packResp_sizeCap
  by_cases h : size > 65535 <;> simp [h, Id.run] <;> rfl

/-- the floor 512 / cap `maxUdpPayloadSize` clamps of `udpServer.handleReq` -/
theorem udpClamp_translated (s : Nat) : udpClamp s = Translated.c09_udpClamp s := by
  unfold udpClamp Translated.c09_udpClamp udpFloor udpMax
  by_cases h1 : s < 512 <;> by_cases h2 : s > 65507 <;> simp [h1, h2, Id.run] <;> first | rfl | omega

/-! ### the per-section loop body of `Msg.Pack`: the fit test, the skip, the OPT budget -/

/-- canonical form of the fit test `size > 0 && off+x.Len() > size` (questions, answers, authorities, additionals) -/
theorem skipCondQ_eq (size off len : Nat) : Translated.c09_skipCondQ size off len = decide (0 < size ∧ size < off + len) := by
  unfold Translated.c09_skipCondQ
  by_cases h1 : 0 < size <;> by_cases h2 : size < off + len <;> simp [h1, h2] <;> omega
theorem skipCondAn_eq (size off len : Nat) : Translated.c09_skipCondAn size off len = decide (0 < size ∧ size < off + len) := by
  unfold Translated.c09_skipCondAn
  by_cases h1 : 0 < size <;> by_cases h2 : size < off + len <;> simp [h1, h2] <;> omega
theorem skipCondNs_eq (size off len : Nat) : Translated.c09_skipCondNs size off len = decide (0 < size ∧ size < off + len) := by
  unfold Translated.c09_skipCondNs
  by_cases h1 : 0 < size <;> by_cases h2 : size < off + len <;> simp [h1, h2] <;> omega
theorem skipCondAr_eq (size off len : Nat) : Translated.c09_skipCondAr size off len = decide (0 < size ∧ size < off + len) := by
  unfold Translated.c09_skipCondAr
  by_cases h1 : 0 < size <;> by_cases h2 : size < off + len <;> simp [h1, h2] <;> omega

/-- the test the model's section loops make (`limit = none` ⇔ Go's `size ≤ 0`) -/
theorem limit_test (limit : Option Nat) (hpos : ∀ sz, limit = some sz → 0 < sz) (off len : Nat) :
    decide (0 < limit.getD 0 ∧ limit.getD 0 < off + len) =
      (match limit with | some size => decide (off + len > size) | none => false) := by
  cases limit with
  | none => simp
  | some sz => have := hpos sz rfl; simp [this]

/-- ONE iteration of the questions loop of `Msg.Pack`: the model's `packQuestionsLoop` skips (count + 1, i.e.
    `h.questions--` and TC) exactly when the translated fit test says so, and packs otherwise -/
theorem packQuestionsLoop_cons_translated (limit : Option Nat) (hpos : ∀ sz, limit = some sz → 0 < sz)
    (q : Question) (qs : List Question) (s : PState) :
    packQuestionsLoop limit (q :: qs) s =
      if Translated.c09_skipCondQ (limit.getD 0) (12 + s.body.length) (questionLen q) then
        (packQuestionsLoop limit qs s >>= fun r => .ok (r.1, r.2 + 1))
      else
        (packQuestion (12 + s.body.length) s.tbl q >>= fun r => packQuestionsLoop limit qs ⟨s.body ++ r.1, r.2⟩) := by
  rw [skipCondQ_eq, limit_test limit hpos]
  simp only [packQuestionsLoop]
  cases limit with
  | none =>
    simp only [Bool.false_eq_true, if_false]
  | some sz =>
    simp only [decide_eq_true_eq]

/-- ONE iteration of the record loops (answers; the authorities and additionals loops have the same test:
    `skipCondNs_eq`, `skipCondAr_eq`) -/
theorem packResourcesLoop_cons_translated (limit : Option Nat) (hpos : ∀ sz, limit = some sz → 0 < sz)
    (r : Resource) (rs : List Resource) (s : PState) :
    packResourcesLoop limit (r :: rs) s =
      if Translated.c09_skipCondAn (limit.getD 0) (12 + s.body.length) (resourcePackLen r) then
        (packResourcesLoop limit rs s >>= fun x => .ok (x.1, x.2 + 1))
      else
        (packResource (12 + s.body.length) s.tbl r >>= fun x => packResourcesLoop limit rs ⟨s.body ++ x.1, x.2⟩) := by
  rw [skipCondAn_eq, limit_test limit hpos]
  simp only [packResourcesLoop]
  cases limit with
  | none =>
    simp only [Bool.false_eq_true, if_false]
  | some sz =>
    simp only [decide_eq_true_eq]

theorem skipCond_same (size off len : Nat) :
    Translated.c09_skipCondNs size off len = Translated.c09_skipCondAn size off len ∧
    Translated.c09_skipCondAr size off len = Translated.c09_skipCondAn size off len := by
  rw [skipCondNs_eq, skipCondAr_eq, skipCondAn_eq]; exact ⟨rfl, rfl⟩

/-- `size -= edns0Opt.packLen()` (an `int` that may become ≤ 0, which disables the limit): the model's budget -/
theorem optBudget_translated (size len : Nat) :
    (if size > len then some (size - len) else none) =
      (if Translated.c09_optBudget size len > 0 then some (Translated.c09_optBudget size len).toNat else none) := by
  have e : Translated.c09_optBudget size len = (size : Int) - (len : Int) := by
    unfold Translated.c09_optBudget; rfl
  rw [e]
  by_cases h : size > len
  · have h2 : (size : Int) - (len : Int) > 0 := by omega
    simp only [h, h2, if_true]
    congr 1; omega
  · have h2 : ¬ (size : Int) - (len : Int) > 0 := by omega
    simp only [h, h2, if_false]

/-- `h.bits |= headerBitTC` -/
theorem skipBits_translated (bits : Nat) : Translated.c09_skipBits bits = Nat.lor bits headerBitTC := by
  unfold Translated.c09_skipBits headerBitTC
  simp [Id.run]
  rfl

/-- the four `len(m.<Section>) > int(^uint16(0))` guards at the top of `Msg.Pack` are the model's `length > 65535` -/
theorem tooMany_translated (n : Nat) :
    decide (n > 65535) = Translated.c09_tooManyQ n ∧ decide (n > 65535) = Translated.c09_tooManyAn n ∧
    decide (n > 65535) = Translated.c09_tooManyNs n ∧ decide (n > 65535) = Translated.c09_tooManyAr n := by
  have hc : (65536 - 1 - (0 % 65536)) = 65535 := by decide
  unfold Translated.c09_tooManyQ Translated.c09_tooManyAn Translated.c09_tooManyNs Translated.c09_tooManyAr
  by_cases h : n > 65535 <;> simp [hc, h] <;> omega

/-- the guard of `packMsg` in terms of the translated conditions -/
theorem packMsg_guard_translated (m : Msg) :
    decide (m.questions.length > 65535 ∨ m.answers.length > 65535 ∨ m.authorities.length > 65535
      ∨ m.additionals.length > 65535) =
      (Translated.c09_tooManyQ m.questions.length || Translated.c09_tooManyAn m.answers.length ||
        Translated.c09_tooManyNs m.authorities.length || Translated.c09_tooManyAr m.additionals.length) := by
  rw [← (tooMany_translated m.questions.length).1, ← (tooMany_translated m.answers.length).2.1,
    ← (tooMany_translated m.authorities.length).2.2.1, ← (tooMany_translated m.additionals.length).2.2.2]
  simp [Bool.or_assoc]

end MosVerif.Wire
