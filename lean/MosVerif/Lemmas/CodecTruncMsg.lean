/-
  Codec lemmas, part 9 (C09): `Msg.Pack` with a size limit is `Msg.Pack` without limit on the
  sub-message it retains (`keptMsg`), with TC or-ed in iff something was skipped.
-/
import MosVerif.Lemmas.CodecTrunc
namespace MosVerif.Wire

/-- the limit after the floor (`if size > 0 && size < 512 { size = 512 }`) -/
def effSize (size : Nat) : Nat := if size > 0 ∧ size < minSize then minSize else size

/-- `(edns0Opt, m.Additionals after PopEDNS0)`; nothing is popped when there is no limit -/
def popped (m : Msg) (size : Nat) : Option Resource × List Resource :=
  if effSize size > 0 then popEDNS0 m.additionals else (none, m.additionals)

/-- the budget the loops compare against: `size - edns0Opt.packLen()`, `none` = no limit -/
def limitOf (m : Msg) (size : Nat) : Option Nat :=
  if effSize size > 0 then
    match (popped m size).1 with
    | some o => if effSize size > resourcePackLen o then some (effSize size - resourcePackLen o) else none
    | none => some (effSize size)
  else none

def countsOK (m : Msg) : Prop :=
  m.questions.length ≤ 65535 ∧ m.answers.length ≤ 65535 ∧ m.authorities.length ≤ 65535 ∧ m.additionals.length ≤ 65535

def initState (c : Bool) : PState := ⟨[], if c then some [] else none⟩

/-- `Msg.Pack` spelled out with the helpers above -/
theorem packMsg_unfold (m : Msg) (c : Bool) (size cap : Nat) (hcnt : countsOK m) (hcap : 12 ≤ cap) :
    packMsg m c size cap =
      (packQuestionsLoop (limitOf m size) m.questions (initState c) >>= fun p1 =>
       packResourcesLoop (limitOf m size) m.answers p1.1 >>= fun p2 =>
       packResourcesLoop (limitOf m size) m.authorities p2.1 >>= fun p3 =>
       packResourcesLoop (limitOf m size) (popped m size).2 p3.1 >>= fun p4 =>
       packOpt (popped m size).1 p4.1 >>= fun s5 =>
       if (hdrBytes m.hdr.id
          (if p1.2 + p2.2 + p3.2 + p4.2 > 0 then Nat.lor (bitsOfHeader m.hdr) headerBitTC else bitsOfHeader m.hdr)
          (m.questions.length - p1.2) (m.answers.length - p2.2) (m.authorities.length - p3.2)
          (m.additionals.length - p4.2) ++ s5.body).length > cap then .err
       else .ok (hdrBytes m.hdr.id
          (if p1.2 + p2.2 + p3.2 + p4.2 > 0 then Nat.lor (bitsOfHeader m.hdr) headerBitTC else bitsOfHeader m.hdr)
          (m.questions.length - p1.2) (m.answers.length - p2.2) (m.authorities.length - p3.2)
          (m.additionals.length - p4.2) ++ s5.body)) := by
  obtain ⟨c1, c2, c3, c4⟩ := hcnt
  have hc : ¬ (m.questions.length > 65535 ∨ m.answers.length > 65535 ∨ m.authorities.length > 65535
      ∨ m.additionals.length > 65535) := by omega
  have hcap' : ¬ cap < 12 := by omega
  unfold packMsg
  simp only [hc, hcap', if_false]
  rfl

/-- The sub-message `Msg.Pack(…, size)` retains: the kept questions and records in their original
    order, the popped OPT re-appended last, `Truncated` or-ed with "something was skipped". -/
def keptMsg (m : Msg) (c : Bool) (size : Nat) : Msg :=
  match packQuestionsLoop (limitOf m size) m.questions (initState c) with
  | .ok (s1, kq) =>
    match packResourcesLoop (limitOf m size) m.answers s1 with
    | .ok (s2, ka) =>
      match packResourcesLoop (limitOf m size) m.authorities s2 with
      | .ok (s3, kn) =>
        match packResourcesLoop (limitOf m size) (popped m size).2 s3 with
        | .ok (_, kx) =>
          { hdr := { m.hdr with truncated := m.hdr.truncated || decide (kq + ka + kn + kx > 0) }
            questions := keptQ (limitOf m size) m.questions (initState c)
            answers := keptR (limitOf m size) m.answers s1
            authorities := keptR (limitOf m size) m.authorities s2
            additionals := keptR (limitOf m size) (popped m size).2 s3 ++ (popped m size).1.toList }
        | _ => m
      | _ => m
    | _ => m
  | _ => m

theorem effSize_zero : effSize 0 = 0 := by simp [effSize]

theorem limitOf_zero (m : Msg) : limitOf m 0 = none := by simp [limitOf, effSize_zero]

theorem popped_zero (m : Msg) : popped m 0 = (none, m.additionals) := by simp [popped, effSize_zero]

theorem popped_length (m : Msg) (size : Nat) :
    (popped m size).2.length + (popped m size).1.toList.length = m.additionals.length := by
  unfold popped
  split
  · rcases popEDNS0_spec m.additionals with h | ⟨o, rs', h, _, _, hl, _⟩
    · rw [h]; simp
    · rw [h]; simp; omega
  · simp

/-- everything `packMsg … = .ok out` says, with the intermediate states named -/
theorem packMsg_ok_inv (m : Msg) (c : Bool) (size cap : Nat) (hcnt : countsOK m) (hcap : 12 ≤ cap) (out : Bytes)
    (h : packMsg m c size cap = .ok out) :
    ∃ s1 kq s2 ka s3 kn s4 kx s5,
      packQuestionsLoop (limitOf m size) m.questions (initState c) = .ok (s1, kq) ∧
      packResourcesLoop (limitOf m size) m.answers s1 = .ok (s2, ka) ∧
      packResourcesLoop (limitOf m size) m.authorities s2 = .ok (s3, kn) ∧
      packResourcesLoop (limitOf m size) (popped m size).2 s3 = .ok (s4, kx) ∧
      packResourcesLoop none (popped m size).1.toList s4 = .ok (s5, 0) ∧
      out = hdrBytes m.hdr.id
          (if kq + ka + kn + kx > 0 then Nat.lor (bitsOfHeader m.hdr) headerBitTC else bitsOfHeader m.hdr)
          (m.questions.length - kq) (m.answers.length - ka) (m.authorities.length - kn) (m.additionals.length - kx)
        ++ s5.body ∧ out.length ≤ cap := by
  rw [packMsg_unfold m c size cap hcnt hcap] at h
  obtain ⟨⟨s1, kq⟩, h1, h⟩ := Res.bind_eq_ok h
  obtain ⟨⟨s2, ka⟩, h2, h⟩ := Res.bind_eq_ok h
  obtain ⟨⟨s3, kn⟩, h3, h⟩ := Res.bind_eq_ok h
  obtain ⟨⟨s4, kx⟩, h4, h⟩ := Res.bind_eq_ok h
  obtain ⟨s5, h5, h⟩ := Res.bind_eq_ok h
  simp only at h1 h2 h3 h4 h5 h
  refine ⟨s1, kq, s2, ka, s3, kn, s4, kx, s5, h1, h2, h3, h4, ?_, ?_⟩
  · cases ho : (popped m size).1 with
    | none =>
      rw [ho] at h5
      simp only [packOpt, Res.ok.injEq] at h5
      simp [packResourcesLoop, h5]
    | some o =>
      rw [ho] at h5
      simp only [packOpt] at h5
      obtain ⟨⟨bs, tbl⟩, h6, h7⟩ := Res.bind_eq_ok h5
      simp only [Res.ok.injEq] at h7
      simp only [Option.toList_some]
      rw [packResourcesLoop_cons]
      simp only [skips, Bool.false_eq_true, if_false, h6, Res.ok_bind, packResourcesLoop, h7]
  · generalize hdrBytes _ _ _ _ _ _ ++ s5.body = o' at h ⊢
    split at h
    · simp at h
    · rename_i hlen
      simp only [Res.ok.injEq] at h
      exact ⟨h.symm, by rw [← h]; omega⟩

/-- `trunc_is_pack_of_kept`: a size-limited `Msg.Pack` that succeeds produces exactly the bytes of
    the unlimited `Msg.Pack` of the retained sub-message `keptMsg` (TC set iff something was
    skipped, counts = what is present).  For ALL messages (no well-formedness needed), all limits,
    compression on or off. -/
theorem packMsg_kept (m : Msg) (c : Bool) (size cap : Nat) (hcnt : countsOK m) (out : Bytes)
    (h : packMsg m c size cap = .ok out) : packMsg (keptMsg m c size) c 0 cap = .ok out := by
  have hcap : 12 ≤ cap := by
    unfold packMsg at h
    split at h
    · simp at h
    · simp only at h
      split at h
      · simp at h
      · omega
  obtain ⟨s1, kq, s2, ka, s3, kn, s4, kx, s5, h1, h2, h3, h4, h5, hout, hlen⟩ :=
    packMsg_ok_inv m c size cap hcnt hcap out h
  obtain ⟨c1, c2, c3, c4⟩ := hcnt
  obtain ⟨e1, l1⟩ := packQuestionsLoop_kept _ _ _ _ _ h1
  obtain ⟨e2, l2⟩ := packResourcesLoop_kept _ _ _ _ _ h2
  obtain ⟨e3, l3⟩ := packResourcesLoop_kept _ _ _ _ _ h3
  obtain ⟨e4, l4⟩ := packResourcesLoop_kept _ _ _ _ _ h4
  have hpl := popped_length m size
  have hk : keptMsg m c size =
      { hdr := { m.hdr with truncated := m.hdr.truncated || decide (kq + ka + kn + kx > 0) }
        questions := keptQ (limitOf m size) m.questions (initState c)
        answers := keptR (limitOf m size) m.answers s1
        authorities := keptR (limitOf m size) m.authorities s2
        additionals := keptR (limitOf m size) (popped m size).2 s3 ++ (popped m size).1.toList } := by
    simp only [keptMsg, h1, h2, h3, h4]
  have hcnt' : countsOK (keptMsg m c size) := by
    rw [hk]
    simp only [countsOK, List.length_append]
    omega
  rw [packMsg_unfold _ c 0 cap hcnt' hcap, limitOf_zero, popped_zero, hk]
  simp only
  have e4' : packResourcesLoop none (keptR (limitOf m size) (popped m size).2 s3 ++ (popped m size).1.toList) s3
      = .ok (s5, 0) := by
    rw [packResourcesLoop_none_append, e4]
    simp only [Res.ok_bind]
    exact h5
  rw [e1]; simp only [Res.ok_bind]
  rw [e2]; simp only [Res.ok_bind]
  rw [e3]; simp only [Res.ok_bind]
  rw [e4']; simp only [Res.ok_bind, packOpt, Nat.add_zero, Nat.lt_irrefl, if_false, Nat.sub_zero, gt_iff_lt]
  have hbits : bitsOfHeader { m.hdr with truncated := m.hdr.truncated || decide (0 < kq + ka + kn + kx) }
      = (if 0 < kq + ka + kn + kx then Nat.lor (bitsOfHeader m.hdr) headerBitTC else bitsOfHeader m.hdr) := by
    split
    · rename_i hpos
      rw [bitsOfHeader_tc]
      simp [hpos]
    · rename_i hpos
      simp [hpos]
  have n1 : (keptQ (limitOf m size) m.questions (initState c)).length = m.questions.length - kq := by omega
  have n2 : (keptR (limitOf m size) m.answers s1).length = m.answers.length - ka := by omega
  have n3 : (keptR (limitOf m size) m.authorities s2).length = m.authorities.length - kn := by omega
  have n4 : (keptR (limitOf m size) (popped m size).2 s3 ++ (popped m size).1.toList).length
      = m.additionals.length - kx := by rw [List.length_append]; omega
  rw [hbits, n1, n2, n3, n4]
  subst hout
  rw [if_neg (Nat.not_lt.2 hlen)]

end MosVerif.Wire
