/-
  Tie by translation (C01/C02): name decoding.  The `Loop:` of `NameBuilder.unpack` is translated into ONE
  iteration `Translated.NameBuilder_unpack_step` over the state (currOff, name, newOff, ptr); `Wire.nameLoop`
  satisfies the unfolding equation with that step (`nameLoop_step_translated`), every continuing iteration
  decreases the model's termination measure, hence `Wire.nameLoop` IS the loop (`nameLoop_translated`) and
  `Wire.unpackName = Translated.unpackName`.
-/
import MosVerif.Lemmas.TranslatedCodec
namespace MosVerif.Wire
open MosVerif

set_option maxRecDepth 100000 in
theorem land192_zero : ∀ c, c < 256 → ((c &&& 192 = 0) ↔ c < 64) := by decide
set_option maxRecDepth 100000 in
theorem land192_ptr : ∀ c, c < 256 → ((c &&& 192 = 192) ↔ c ≥ 192) := by decide
set_option maxRecDepth 100000 in
theorem xor192 : ∀ c, c < 256 → c ≥ 192 → c ^^^ 192 = c - 192 := by decide

theorem ptr_target (c c1 : Nat) (hc : c < 256) (h : c ≥ 192) (h1 : c1 < 256) :
    ((c ^^^ 192) <<< 8) ||| c1 = (c - 192) * 256 + c1 := by
  rw [xor192 c hc h, ← Nat.shiftLeft_add_eq_or_of_lt (by simpa using h1), Nat.shiftLeft_eq]

/-- what `n.ToName()` makes of the loop's result -/
def namePost (r : Bytes × Nat × Nat) : Res (Bytes × Nat) :=
  GoSem.builderToName r.1 r.2.1 >>= fun x => .ok (x, r.2.2)

theorem namePost_len (name : Bytes) (o : Nat) :
    namePost (name, name.length % 256, o) = if name.length > 254 then .panic else .ok (name, o) := by
  unfold namePost GoSem.builderToName
  by_cases h : name.length > 254
  · simp [h]
  · have : name.length % 256 = name.length := Nat.mod_eq_of_lt (by omega)
    simp [h, this]

/-- THE unfolding equation of the name loop: one iteration of the model is the translated iteration. -/
theorem nameLoop_step_translated (msg : Bytes) (off currOff newOff ptr : Nat) (name : Bytes) :
    nameLoop msg currOff newOff ptr name =
      match Translated.NameBuilder_unpack_step msg off (currOff, name, newOff, ptr) with
      | .ok (.inl (c', name', n', p')) => nameLoop msg c' n' p' name'
      | .ok (.inr r) => namePost r
      | .err => .err
      | .panic => .panic := by
  rw [nameLoop]
  unfold Translated.NameBuilder_unpack_step
  have hcap : nameCap = 255 := rfl
  have hhop : hopLimit = 10 := rfl
  by_cases h : currOff ≥ msg.length
  · simp [h]
  · have hlt : currOff < msg.length := by omega
    have hc : (msg[currOff]'hlt).toNat < 256 := UInt8.toNat_lt _
    simp only [h, dite_false, GoSem.index, hlt, dite_true, GoSem.len, ge_iff_le, decide_false, decide_true,
      Bool.false_eq_true, if_false, Res.bind_ok', Res.pure_eq]
    generalize (msg[currOff]'hlt).toNat = c at hc
    by_cases h64 : c < 64
    · have hz : c &&& 192 = 0 := (land192_zero c hc).2 h64
      simp only [h64, if_true, hz, decide_true]
      by_cases h0 : c = 0
      · subst h0
        simp only [if_true, decide_true]
        by_cases hp : ptr = 0
        · simp [hp, namePost_len]
        · simp [hp, namePost_len]
      · simp only [h0, if_false, decide_false, Bool.false_eq_true]
        by_cases he : currOff + 1 + c > msg.length
        · simp [he]
        · simp only [he, if_false, gt_iff_lt, decide_false, Bool.false_eq_true, hcap]
          by_cases hn : name.length + 1 + c + 1 > 255
          · simp [hn]
          · have hs : currOff + 1 ≤ currOff + 1 + c ∧ currOff + 1 + c ≤ msg.length := by omega
            have hm : c % 256 = c := Nat.mod_eq_of_lt hc
            have hd : List.drop (currOff + 1) (List.take (currOff + 1 + c) msg) = List.take c (List.drop (currOff + 1) msg) := by
              rw [List.drop_take]; congr 1; omega
            simp [hn, GoSem.slice, hs, hm, GoSem.appendByte, GoSem.appendBytes, hd]
    · have hz : ¬ (c &&& 192 = 0) := fun e => h64 ((land192_zero c hc).1 e)
      simp only [h64, if_false, hz, decide_false, Bool.false_eq_true]
      by_cases h192 : c ≥ 192
      · have hp : c &&& 192 = 192 := (land192_ptr c hc).2 h192
        simp only [h192, if_true, hp, decide_true]
        by_cases h2 : currOff + 1 ≥ msg.length
        · simp [h2]
        · have hlt2 : currOff + 1 < msg.length := by omega
          have hc1 : (msg[currOff + 1]'hlt2).toNat < 256 := UInt8.toNat_lt _
          simp only [h2, dite_false, hlt2, dite_true, ge_iff_le, decide_false, Bool.false_eq_true, if_false,
            Res.bind_ok', hhop]
          generalize (msg[currOff + 1]'hlt2).toNat = c1 at hc1
          have ht := ptr_target c c1 hc h192 hc1
          by_cases hp0 : ptr = 0
          · subst hp0; simp [ht]
          · by_cases hp10 : ptr + 1 > 10
            · simp [hp0, hp10]
            · simp [hp0, hp10, ht]
      · have hp : ¬ (c &&& 192 = 192) := fun e => h192 ((land192_ptr c hc).1 e)
        simp [h192, hp]

/-- the termination measure of `nameLoop` on the translated state -/
def nameMeasure (msg : Bytes) (s : Nat × Bytes × Nat × Nat) : Nat × Nat := (11 - s.2.2.2, msg.length - s.1)

/-- every continuing iteration of the TRANSLATED step decreases the measure (so the Go loop terminates) -/
theorem nameStep_decreases (msg : Bytes) (off : Nat) (s s' : Nat × Bytes × Nat × Nat)
    (hstep : Translated.NameBuilder_unpack_step msg off s = .ok (.inl s')) :
    Prod.Lex (· < ·) (· < ·) (nameMeasure msg s') (nameMeasure msg s) := by
  obtain ⟨currOff, name, newOff, ptr⟩ := s
  unfold Translated.NameBuilder_unpack_step at hstep
  unfold nameMeasure
  by_cases h : currOff ≥ msg.length
  · simp [h] at hstep
  · have hlt : currOff < msg.length := by omega
    have hc : (msg[currOff]'hlt).toNat < 256 := UInt8.toNat_lt _
    simp only [GoSem.index, hlt, dite_true, GoSem.len, ge_iff_le, h, decide_false,
      Bool.false_eq_true, if_false, Res.bind_ok', Res.pure_eq] at hstep
    generalize (msg[currOff]'hlt).toNat = c at hc hstep
    by_cases hz : c &&& 192 = 0
    · simp only [hz, decide_true, if_true] at hstep
      by_cases h0 : c = 0
      · subst h0
        by_cases hp : ptr = 0 <;> simp [hp] at hstep
      · simp only [h0, decide_false, Bool.false_eq_true, if_false] at hstep
        by_cases he : currOff + 1 + c > msg.length
        · simp [he] at hstep
        · by_cases hn : name.length + 1 + c + 1 > 255
          · simp [he, hn] at hstep
          · have hs : currOff + 1 ≤ currOff + 1 + c ∧ currOff + 1 + c ≤ msg.length := by omega
            simp [he, hn, GoSem.slice, hs] at hstep
            subst hstep
            exact Prod.Lex.right _ (by simp only; omega)
    · simp only [hz, decide_false, Bool.false_eq_true, if_false] at hstep
      by_cases hp : c &&& 192 = 192
      · simp only [hp, decide_true, if_true] at hstep
        by_cases h2 : currOff + 1 ≥ msg.length
        · simp [h2] at hstep
        · have hlt2 : currOff + 1 < msg.length := by omega
          simp only [h2, decide_false, Bool.false_eq_true, if_false, hlt2, dite_true, Res.bind_ok'] at hstep
          by_cases hp10 : ptr + 1 > 10
          · by_cases hp0 : ptr = 0 <;> simp [hp0, hp10] at hstep
            omega
          · by_cases hp0 : ptr = 0
            · subst hp0
              simp at hstep
              subst hstep
              exact Prod.Lex.left _ _ (by simp)
            · simp [hp0, hp10] at hstep
              subst hstep
              exact Prod.Lex.left _ _ (by simp only; omega)
      · simp [hp] at hstep

/-- `Wire.nameLoop` IS the translated Go loop (followed by `n.ToName()`), from every state. -/
theorem nameLoop_translated (msg : Bytes) (off currOff newOff ptr : Nat) (name : Bytes) :
    nameLoop msg currOff newOff ptr name =
      Res.bind (GoSem.loop (Translated.NameBuilder_unpack_step msg off) (currOff, name, newOff, ptr)) namePost := by
  have hwf : WellFounded (Prod.Lex (· < · : Nat → Nat → Prop) (· < · : Nat → Nat → Prop)) :=
    (Prod.lex Nat.lt_wfRel Nat.lt_wfRel).wf
  exact GoSem.loop_unique_bind (Translated.NameBuilder_unpack_step msg off) namePost
    (fun s => nameLoop msg s.1 s.2.2.1 s.2.2.2 s.2.1) _ hwf (nameMeasure msg)
    (nameStep_decreases msg off)
    (fun s => by
      obtain ⟨c, nm, n, p⟩ := s
      show nameLoop msg c n p nm = _
      rw [nameLoop_step_translated msg off c n p nm]
      cases Translated.NameBuilder_unpack_step msg off (c, nm, n, p) with
      | ok x =>
        cases x with
        | inl s' => obtain ⟨c', nm', n', p'⟩ := s'; rfl
        | inr v => rfl
      | err => rfl
      | panic => rfl)
    (currOff, name, newOff, ptr)

/-- `unpackName` -/
theorem unpackName_translated (msg : Bytes) (off : Nat) : unpackName msg off = Translated.unpackName msg off := by
  unfold unpackName Translated.unpackName Translated.NameBuilder_unpack Translated.NameBuilder_unpack_init
  rw [nameLoop_translated msg off]
  cases GoSem.loop (Translated.NameBuilder_unpack_step msg off) (off, [], off, 0) with
  | err => rfl
  | panic => rfl
  | ok r =>
    obtain ⟨nm, l, o⟩ := r
    show namePost (nm, l, o) = _
    unfold namePost
    cases h : GoSem.builderToName nm l <;> simp [h]

end MosVerif.Wire
