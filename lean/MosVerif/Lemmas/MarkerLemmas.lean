/-
  Helper lemmas for the range-file loader (C07): the loader's builder state corresponds line by
  line to the ranges the specification reads off the file.
-/
import MosVerif.Lemmas.NetlistLemmas
namespace MosVerif.Netlist

/-- the specification-level view of a built range, given the final label table -/
def toS (labels : List Bytes) (r : Range Nat) : SRange :=
  ⟨r.start.val, r.stop.val, (labels[r.v]?).getD []⟩

theorem findIdx_some {labels : List Bytes} {s : Bytes} {i : Nat} (h : findIdx labels s = some i) :
    labels[i]? = some s := by
  induction labels generalizing i with
  | nil => simp [findIdx] at h
  | cons x rest ih =>
    unfold findIdx at h
    by_cases hx : x = s
    · simp only [hx, if_true, Option.some.injEq] at h
      subst h; simp [hx]
    · simp only [hx, if_false] at h
      cases hr : findIdx rest s with
      | none => simp [hr] at h
      | some j =>
        simp only [hr, Option.map_some, Option.some.injEq] at h
        subst h
        simpa using ih hr

theorem assignIdx_spec (labels : List Bytes) (s : Bytes) :
    ∃ ext, (assignIdx labels s).2 = labels ++ ext ∧
      (assignIdx labels s).2[(assignIdx labels s).1]? = some s := by
  unfold assignIdx
  cases h : findIdx labels s with
  | some i => exact ⟨[], by simp, by simpa using findIdx_some h⟩
  | none => exact ⟨[s], rfl, by simp⟩

/-- builder invariant: every range is valid and its label index is inside the table -/
def Inv (b : List (Range Nat)) (labels : List Bytes) : Prop :=
  ∀ r ∈ b, r.Valid ∧ r.v < labels.length

theorem toS_append {labels ext : List Bytes} {r : Range Nat} (h : r.v < labels.length) :
    toS (labels ++ ext) r = toS labels r := by
  simp [toS, List.getElem?_append_left h]

theorem map_toS_append {labels ext : List Bytes} {b : List (Range Nat)} (h : Inv b labels) :
    b.map (toS (labels ++ ext)) = b.map (toS labels) := by
  apply List.map_congr_left
  intro r hr
  exact toS_append (h r hr).2

def allValid (rs : List SRange) : Bool := rs.all (fun r => decide (r.lo ≤ r.hi))

theorem builderAdd_eq (b : List (Range Nat)) (a e : Addr) (v : Nat) :
    builderAdd b a e v =
      if a.isValid && e.isValid then
        if (addr2Ipv6 e).val < (addr2Ipv6 a).val then none
        else some (b ++ [{ start := addr2Ipv6 a, stop := addr2Ipv6 e, v := v }])
      else none := by
  unfold builderAdd
  cases a.isValid <;> cases e.isValid <;> simp [cmp_gt_iff]

/-- The scanner loop against the specification's reading of the same lines. -/
theorem loadLines_spec (pa : Bytes → Option Addr) :
    ∀ (lines : List Bytes) (b : List (Range Nat)) (labels : List Bytes), Inv b labels →
    (specRanges pa lines = none → ∃ e, loadLines pa lines b labels = .error e) ∧
    (∀ rs, specRanges pa lines = some rs →
      (allValid rs = false → ∃ e, loadLines pa lines b labels = .error e) ∧
      (allValid rs = true → ∃ b' labels' ext, loadLines pa lines b labels = .ok (b', labels') ∧
          Inv b' labels' ∧ labels' = labels ++ ext ∧
          b'.map (toS labels') = b.map (toS labels') ++ rs))
  | [], b, labels, hinv => by
    refine ⟨by simp [specRanges], ?_⟩
    intro rs hrs
    simp only [specRanges, Option.some.injEq] at hrs
    subst hrs
    exact ⟨by simp [allValid], fun _ => ⟨b, labels, [], by simp [loadLines], hinv, by simp, by simp⟩⟩
  | t :: rest, b, labels, hinv => by
    rw [specRanges, loadLines]
    simp only []
    by_cases hemp : (trimSpace (cut t 35).1).isEmpty = true
    · simp only [hemp, if_true]
      exact loadLines_spec pa rest b labels hinv
    · simp only [hemp, Bool.false_eq_true, if_false]
      cases hpl : parseLine pa (trimSpace (cut t 35).1) with
      | none =>
        refine ⟨fun _ => ⟨.parse, rfl⟩, ?_⟩
        intro rs hrs; simp at hrs
      | some x =>
        obtain ⟨a, e, lab⟩ := x
        obtain ⟨ext1, hext1, hidx1⟩ := assignIdx_spec labels lab
        cases hA : assignIdx labels lab with
        | mk idx labels1 =>
        rw [hA] at hext1 hidx1
        simp only at hext1 hidx1
        simp only [builderAdd_eq, hA]
        by_cases hval : (a.isValid && e.isValid) = true
        · simp only [hval, if_true]
          by_cases hlt : (addr2Ipv6 e).val < (addr2Ipv6 a).val
          · -- start > end: `Add` fails; the specification sees an invalid range
            simp only [hlt, if_true]
            refine ⟨fun _ => ⟨.range, rfl⟩, ?_⟩
            intro rs hrs
            refine ⟨fun _ => ⟨.range, rfl⟩, ?_⟩
            intro hall
            cases hr : specRanges pa rest with
            | none => simp [hr] at hrs
            | some rs' =>
              simp only [hr, hval, if_true, Option.some.injEq] at hrs
              subst hrs
              simp only [allValid, List.all_cons, Bool.and_eq_true, decide_eq_true_eq] at hall
              omega
          · simp only [hlt, if_false]
            have hinv1 : Inv (b ++ [{ start := addr2Ipv6 a, stop := addr2Ipv6 e, v := idx }]) labels1 := by
              intro r hr
              rcases List.mem_append.mp hr with hr | hr
              · have := hinv r hr
                refine ⟨this.1, ?_⟩
                rw [hext1, List.length_append]; omega
              · simp only [List.mem_singleton] at hr
                subst hr
                refine ⟨by unfold Range.Valid; simp only; omega, ?_⟩
                simp only
                have : (labels1[idx]?).isSome := by simp [hidx1]
                exact (List.getElem?_eq_some_iff.mp hidx1).1
            have ih := loadLines_spec pa rest _ labels1 hinv1
            cases hr : specRanges pa rest with
            | none =>
              refine ⟨fun _ => ih.1 hr, ?_⟩
              intro rs hrs; simp at hrs
            | some rs' =>
              refine ⟨fun h => by simp [hval] at h, ?_⟩
              intro rs hrs
              simp only [hval, if_true, Option.some.injEq] at hrs
              subst hrs
              obtain ⟨ih1, ih2⟩ := ih.2 rs' hr
              have hnot : ¬ (addr2Ipv6 a).val ≤ (addr2Ipv6 e).val → False := fun h => h (by omega)
              constructor
              · intro hall
                apply ih1
                simp only [allValid, List.all_cons, Bool.and_eq_false_iff, decide_eq_false_iff_not] at hall
                rcases hall with h | h
                · exact absurd (by omega) h
                · exact h
              · intro hall
                simp only [allValid, List.all_cons, Bool.and_eq_true, decide_eq_true_eq] at hall
                obtain ⟨b', labels', ext, hok, hinv', hlab, hmap⟩ := ih2 hall.2
                refine ⟨b', labels', ext1 ++ ext, hok, hinv', by rw [hlab, hext1, List.append_assoc], ?_⟩
                rw [hmap, List.map_append, List.append_assoc]
                congr 1
                simp only [List.map_cons, List.map_nil, List.singleton_append, List.cons.injEq, and_true]
                unfold toS
                simp only [SRange.mk.injEq, true_and]
                have hi : idx < labels1.length := (List.getElem?_eq_some_iff.mp hidx1).1
                rw [hlab, List.getElem?_append_left hi, hidx1]
                rfl
        · simp only [hval, Bool.false_eq_true, if_false]
          refine ⟨fun _ => ⟨.range, rfl⟩, ?_⟩
          intro rs hrs
          cases hr : specRanges pa rest <;> simp [hr, hval] at hrs

theorem noIntersect_iff (rs : List SRange) :
    noIntersect rs = true ↔ List.Pairwise (fun r s => r.intersects s = false) rs := by
  induction rs with
  | nil => simp [noIntersect]
  | cons r rest ih =>
    simp only [noIntersect, Bool.and_eq_true, List.all_eq_true, Bool.not_eq_eq_eq_not, Bool.not_true,
      List.pairwise_cons, ih]

theorem intersects_toS (labels : List Bytes) (r s : Range Nat) :
    (toS labels r).intersects (toS labels s) = false ↔ Disj r s := by
  unfold SRange.intersects toS Disj
  simp only [decide_eq_false_iff_not]
  omega

theorem noIntersect_map_toS (labels : List Bytes) (b : List (Range Nat)) :
    noIntersect (b.map (toS labels)) = true ↔ List.Pairwise Disj b := by
  rw [noIntersect_iff, List.pairwise_map]
  constructor <;> intro h <;> exact h.imp (fun h => by simpa [intersects_toS] using h)

theorem allValid_map_toS (labels : List Bytes) (b : List (Range Nat)) (h : ∀ r ∈ b, r.Valid) :
    allValid (b.map (toS labels)) = true := by
  simp only [allValid, List.all_map, List.all_eq_true, Function.comp_apply, decide_eq_true_eq]
  intro r hr
  exact h r hr

/-- in a pairwise disjoint list at most one range contains a given address -/
theorem unique_containing {b : List (Range Nat)} (hd : List.Pairwise Disj b) {r r' : Range Nat}
    (hr : r ∈ b) (hr' : r' ∈ b) {x : Nat}
    (h1 : r.start.val ≤ x ∧ x ≤ r.stop.val) (h2 : r'.start.val ≤ x ∧ x ≤ r'.stop.val) : r = r' := by
  obtain ⟨i, hi, rfl⟩ := List.mem_iff_getElem.mp hr
  obtain ⟨j, hj, rfl⟩ := List.mem_iff_getElem.mp hr'
  have hidx := List.pairwise_iff_getElem.mp hd
  by_cases hij : i = j
  · subst hij; rfl
  · by_cases hlt : i < j
    · have := hidx i j hi hj hlt
      unfold Disj at this; omega
    · have := hidx j i hj hi (by omega)
      unfold Disj at this; omega

/-- the linear scan of the specification agrees with "the unique containing range" -/
theorem specLabel_map_toS {labels : List Bytes} {b : List (Range Nat)} (hd : List.Pairwise Disj b)
    (hinv : Inv b labels) (a : Addr) (ha : a.isValid = true) :
    (∀ r ∈ b, r.start.val ≤ (addr2Ipv6 a).val → (addr2Ipv6 a).val ≤ r.stop.val →
        labels[r.v]? = some (specLabel (b.map (toS labels)) a)) ∧
    ((∀ r ∈ b, ¬ (r.start.val ≤ (addr2Ipv6 a).val ∧ (addr2Ipv6 a).val ≤ r.stop.val)) →
        specLabel (b.map (toS labels)) a = []) := by
  unfold specLabel
  simp only [ha, Bool.not_true, Bool.false_eq_true, if_false]
  constructor
  · intro r hr h1 h2
    cases hf : List.find? (fun r => decide (r.lo ≤ (addr2Ipv6 a).val ∧ (addr2Ipv6 a).val ≤ r.hi))
        (b.map (toS labels)) with
    | none =>
      have := List.find?_eq_none.mp hf (toS labels r) (List.mem_map_of_mem hr)
      rw [decide_eq_true_eq] at this
      exact absurd ⟨h1, h2⟩ this
    | some s =>
      have hs := List.find?_some hf
      have hm := List.mem_of_find?_eq_some hf
      obtain ⟨r', hr', rfl⟩ := List.mem_map.mp hm
      rw [decide_eq_true_eq] at hs
      have : r = r' := unique_containing hd hr hr' ⟨h1, h2⟩ hs
      subst this
      have hi := (hinv r hr).2
      simp [toS, List.getElem?_eq_getElem hi]
  · intro hnone
    cases hf : List.find? (fun r => decide (r.lo ≤ (addr2Ipv6 a).val ∧ (addr2Ipv6 a).val ≤ r.hi))
        (b.map (toS labels)) with
    | none => rfl
    | some s =>
      have hs := List.find?_some hf
      have hm := List.mem_of_find?_eq_some hf
      obtain ⟨r', hr', rfl⟩ := List.mem_map.mp hm
      rw [decide_eq_true_eq] at hs
      exact absurd hs (hnone r' hr')

/-- `Mark` on a loaded marker returns the specification's label, and never panics -/
theorem mark_eq_specLabel {b l : List (Range Nat)} {labels : List Bytes} (hinv : Inv b labels)
    (hb : build b = some l) (a : Addr) :
    (Marker.mk l labels).mark a = some (specLabel (b.map (toS labels)) a) := by
  have hv : ∀ r ∈ b, r.Valid := fun r hr => (hinv r hr).1
  obtain ⟨hsep, hvl, hperm⟩ := build_sep hv hb
  have hd : List.Pairwise Disj b := (hperm.pairwise_iff Disj.symm).mp (disj_of_sep hsep)
  unfold Marker.mark
  cases ha : a.isValid with
  | false => simp [specLabel, ha]
  | true =>
    simp only [Bool.not_true, Bool.false_eq_true, if_false]
    obtain ⟨res, hres, hiff⟩ := lookupAddr_of_sep hvl hsep a ha
    obtain ⟨hs1, hs2⟩ := specLabel_map_toS hd hinv a ha
    rw [hres]
    cases res with
    | none =>
      simp only
      rw [hs2]
      intro r hr hc
      have := (hiff r.v).mpr ⟨r, hperm.mem_iff.mpr hr, hc.1, hc.2, rfl⟩
      cases this
    | some idx =>
      simp only
      obtain ⟨r, hr, h1, h2, h3⟩ := (hiff idx).mp rfl
      subst h3
      exact hs1 r (hperm.mem_iff.mp hr) h1 h2

theorem marksOf_eq {m : Marker} {f : Addr → Bytes} (h : ∀ a, m.mark a = some (f a)) :
    ∀ addrs, marksOf m addrs = some (addrs.map f)
  | [] => rfl
  | a :: rest => by simp [marksOf, h a, marksOf_eq h rest]

/-- ★ (ipmark) for every range file, every address parser and every list of client addresses the
    model's outcome satisfies the specification: a file is rejected only if a line does not parse,
    a range has start > end or two ranges intersect; otherwise every client gets the label of the
    (unique) range containing its address as a 128-bit number, or none. -/
theorem marker_meets_spec (pa : Bytes → Option Addr) (file : Bytes) (addrs : List Addr) :
    spec pa file addrs (model pa file addrs) = true := by
  have hL := loadLines_spec pa (splitLines file) [] [] (by intro r hr; cases hr)
  unfold spec model loadMarker
  cases hS : specRanges pa (splitLines file) with
  | none =>
    obtain ⟨e, he⟩ := hL.1 hS
    simp [he]
  | some rs =>
    obtain ⟨h1, h2⟩ := hL.2 rs hS
    cases hav : allValid rs with
    | false =>
      obtain ⟨e, he⟩ := h1 hav
      have : fileOK rs = false := by
        unfold fileOK; unfold allValid at hav; simp [hav]
      simp [he, this]
    | true =>
      obtain ⟨b', labels', ext, hok, hinv, hlab, hmap⟩ := h2 hav
      simp only [List.map_nil, List.nil_append] at hmap
      have hv : ∀ r ∈ b', r.Valid := fun r hr => (hinv r hr).1
      simp only [hok]
      cases hb : build b' with
      | none =>
        have hnd := (build_eq_none_iff hv).mp hb
        have : fileOK rs = false := by
          rw [← hmap]
          unfold fileOK
          have : noIntersect (b'.map (toS labels')) = false := by
            cases hni : noIntersect (b'.map (toS labels')) with
            | false => rfl
            | true => exact absurd ((noIntersect_map_toS _ _).mp hni) hnd
          simp [this]
        simp [this]
      | some l =>
        have hd : List.Pairwise Disj b' := by
          obtain ⟨hsep, _, hperm⟩ := build_sep hv hb
          exact (hperm.pairwise_iff Disj.symm).mp (disj_of_sep hsep)
        have hfile : fileOK rs = true := by
          rw [← hmap]
          unfold fileOK
          have h1 := allValid_map_toS labels' b' hv
          unfold allValid at h1
          simp [h1, (noIntersect_map_toS labels' b').mpr hd]
        have hm := marksOf_eq (m := ⟨l, labels'⟩) (fun a => mark_eq_specLabel hinv hb a) addrs
        simp only [hm, hmap, hfile, Bool.true_and]
        simp

end MosVerif.Netlist
