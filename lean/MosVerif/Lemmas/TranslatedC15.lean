/-
  Tie by translation (C15): the mask defaults of `ClientLimiterOpts.setDefault`, translated mechanically from the
  current Go source, equal the model's `Opts.setDefault` (this is the D8 regression: the V6 branch must assign V6Mask).
-/
import MosVerif.Generated.Translated
import MosVerif.Model.Limiter
namespace MosVerif.Limiter
open MosVerif

theorem id_pure_int' (x : Int) : (pure x : Id Int) = x := rfl

/-- equality of two Boolean tests built from `decide`s of linear (in)equalities, `&&`, `||`, `!`: robust against
    reordering and re-phrasing (`a > 0` / `a ≥ 1` / `0 < a`) of the translated side -/
macro "bool_arith15" : tactic =>
  `(tactic| (rw [Bool.eq_iff_iff] <;>
      simp only [Bool.and_eq_true, Bool.or_eq_true, Bool.not_eq_true', Bool.not_eq_eq_eq_not, Bool.not_true,
        decide_eq_true_eq, decide_eq_false_iff_not] <;> omega))

/-- ★ the WHOLE body of `ClientLimiterOpts.setDefault` (all four defaults, and nothing else: a further statement
    touching one of the four fields would show up here), field by field.  The rate is an integer in the model as in the
    configuration (`Limit: float64(cfg.Client.Limit)`), so `int(opts.Limit)` is the value itself. -/
theorem setDefault_translated (o : Opts) :
    (o.setDefault).limit = Translated.c15_setDefault_limit o.limit o.burst o.v4Mask o.v6Mask ∧
    (o.setDefault).burst = Translated.c15_setDefault_burst o.limit o.burst o.v4Mask o.v6Mask ∧
    (o.setDefault).v4Mask = Translated.c15_setDefault_v4mask o.limit o.burst o.v4Mask o.v6Mask ∧
    (o.setDefault).v6Mask = Translated.c15_setDefault_v6mask o.limit o.burst o.v4Mask o.v6Mask := by
  unfold Opts.setDefault Translated.c15_setDefault_limit Translated.c15_setDefault_burst
    Translated.c15_setDefault_v4mask Translated.c15_setDefault_v6mask
  simp only [Id.run, id_pure_int', decide_eq_true_eq, Bool.or_eq_true, defaultLimit, defaultV4Mask, defaultV6Mask]
  refine ⟨?_, ?_, ?_, ?_⟩ <;> (repeat' split) <;> simp_all <;> omega

/-- `cfg.GlobalLimit > 0`: a global limiter is built -/
theorem initGlobalCond_translated (g : Int) : limitSet g = Translated.c15_initGlobalCond g := by
  unfold limitSet Translated.c15_initGlobalCond
  bool_arith15

/-- `cfg.Client.Limit > 0`: a client limiter is built -/
theorem initClientCond_translated (l : Int) : limitSet l = Translated.c15_initClientCond l := by
  unfold limitSet Translated.c15_initClientCond
  bool_arith15

theorem setDefault_masks_translated (o : Opts) :
    (o.setDefault).v4Mask = Translated.setDefault_V4Mask o.v4Mask o.v6Mask ∧
    (o.setDefault).v6Mask = Translated.setDefault_V6Mask o.v4Mask o.v6Mask := by
  unfold Opts.setDefault Translated.setDefault_V4Mask Translated.setDefault_V6Mask
  simp only [Id.run, id_pure_int', decide_eq_true_eq, Bool.or_eq_true, defaultV4Mask, defaultV6Mask]
  constructor <;> (repeat' split) <;> simp_all <;> omega
