/-
  Tie by translation (C15): the mask defaults of `ClientLimiterOpts.setDefault`, translated mechanically from the
  current Go source, equal the model's `Opts.setDefault` (this is the D8 regression: the V6 branch must assign V6Mask).
-/
import MosVerif.Generated.Translated
import MosVerif.Model.Limiter
namespace MosVerif.Limiter
open MosVerif

theorem id_pure_int' (x : Int) : (pure x : Id Int) = x := rfl

theorem setDefault_masks_translated (o : Opts) :
    (o.setDefault).v4Mask = Translated.setDefault_V4Mask o.v4Mask o.v6Mask ∧
    (o.setDefault).v6Mask = Translated.setDefault_V6Mask o.v4Mask o.v6Mask := by
  unfold Opts.setDefault Translated.setDefault_V4Mask Translated.setDefault_V6Mask
  simp only [Id.run, id_pure_int', decide_eq_true_eq, Bool.or_eq_true, defaultV4Mask, defaultV6Mask]
  constructor <;> (repeat' split) <;> simp_all <;> omega
