/-
  Helper lemmas for the netlist model (C07): `cmp` is the order of the 128-bit value,
  `sort.Search`, `Build`, `Lookup`.
-/
import MosVerif.Model.Netlist
namespace MosVerif.Netlist

/-! ### `cmp` -/

theorem cmp_lt_iff (a b : Ipv6) : a.cmp b < 0 ↔ a.val < b.val := by
  have := a.l.toNat_lt; have := b.l.toNat_lt
  unfold Ipv6.cmp Ipv6.val
  simp only [UInt64.lt_iff_toNat_lt, gt_iff_lt]
  repeat' split
  all_goals omega

theorem cmp_le_iff (a b : Ipv6) : a.cmp b ≤ 0 ↔ a.val ≤ b.val := by
  have := a.l.toNat_lt; have := b.l.toNat_lt
  unfold Ipv6.cmp Ipv6.val
  simp only [UInt64.lt_iff_toNat_lt, gt_iff_lt]
  repeat' split
  all_goals omega

theorem cmp_gt_iff (a b : Ipv6) : a.cmp b > 0 ↔ b.val < a.val := by
  have := a.l.toNat_lt; have := b.l.toNat_lt
  unfold Ipv6.cmp Ipv6.val
  simp only [UInt64.lt_iff_toNat_lt, gt_iff_lt]
  repeat' split
  all_goals omega

theorem cmp_ge_iff (a b : Ipv6) : a.cmp b ≥ 0 ↔ b.val ≤ a.val := by
  have := a.l.toNat_lt; have := b.l.toNat_lt
  unfold Ipv6.cmp Ipv6.val
  simp only [UInt64.lt_iff_toNat_lt, gt_iff_lt]
  repeat' split
  all_goals omega

theorem val_inj {a b : Ipv6} : a.val = b.val ↔ a = b := by
  constructor
  · intro h
    have := a.l.toNat_lt; have := b.l.toNat_lt
    unfold Ipv6.val at h
    cases a; cases b
    simp only [Ipv6.mk.injEq]
    constructor <;> apply UInt64.toNat_inj.mp <;> simp only at * <;> omega
  · intro h; rw [h]

/-! ### `sort.Search` -/

/-- The loop of `sort.Search` on a predicate that never panics on `[0,n)` and is monotone there
    returns the first index at which it holds (or `n`). -/
theorem searchLoop_spec (f : Nat → Option Bool) (p : Nat → Bool) (n : Nat)
    (hf : ∀ k, k < n → f k = some (p k))
    (mono : ∀ k k', k ≤ k' → k' < n → p k = true → p k' = true) :
    ∀ (d i j : Nat), j - i = d → i ≤ j → j ≤ n → (∀ k, k < i → p k = false) →
      (∀ k, j ≤ k → k < n → p k = true) →
      ∃ r, searchLoop f i j = some r ∧ r ≤ n ∧ (∀ k, k < r → p k = false) ∧
        (∀ k, r ≤ k → k < n → p k = true) := by
  intro d
  induction d using Nat.strongRecOn with
  | _ d ih =>
    intro i j hd hij hjn hlo hhi
    rw [searchLoop]
    by_cases hlt : i < j
    · simp only [hlt, if_true]
      have hh : (i + j) / 2 < n := by omega
      rw [hf _ hh]
      cases hp : p ((i + j) / 2) with
      | false =>
        simp only
        refine ih (j - ((i + j) / 2 + 1)) (by omega) _ _ rfl (by omega) hjn ?_ hhi
        intro k hk
        by_cases hki : k < i
        · exact hlo k hki
        · cases hpk : p k with
          | false => rfl
          | true =>
            have := mono k ((i + j) / 2) (by omega) hh hpk
            rw [hp] at this; exact absurd this (by simp)
      | true =>
        simp only
        refine ih ((i + j) / 2 - i) (by omega) _ _ rfl (by omega) (by omega) hlo ?_
        intro k hk hkn
        exact mono _ k hk hkn hp
    · simp only [hlt, if_false]
      refine ⟨i, rfl, by omega, hlo, ?_⟩
      intro k hk hkn
      exact hhi k (by omega) hkn

/-! ### `Build` -/

variable {V : Type}

/-- `start ≤ end` (what `Add` guarantees) -/
def Range.Valid (r : Range V) : Prop := r.start.val ≤ r.stop.val
/-- `r` lies strictly before `s` -/
def Sep (r s : Range V) : Prop := r.stop.val < s.start.val
/-- the two ranges have no address in common -/
def Disj (r s : Range V) : Prop := r.stop.val < s.start.val ∨ s.stop.val < r.start.val
def StartLe (r s : Range V) : Prop := r.start.val ≤ s.start.val

theorem Disj.symm {r s : Range V} (h : Disj r s) : Disj s r := Or.symm h

theorem sep_of_overlapAdj_false : ∀ (l : List (Range V)), (∀ r ∈ l, r.Valid) →
    overlapAdj l = false → List.Pairwise Sep l
  | [], _, _ => List.Pairwise.nil
  | [_], _, _ => by simp
  | a :: b :: rest, hv, h => by
    simp only [overlapAdj, Bool.or_eq_false_iff, decide_eq_false_iff_not] at h
    obtain ⟨hab, hrest⟩ := h
    have hab' : a.stop.val < b.start.val := by
      have : ¬ b.start.val ≤ a.stop.val := fun h => hab ((cmp_ge_iff a.stop b.start).mpr h)
      omega
    have ih := sep_of_overlapAdj_false (b :: rest) (fun r hr => hv r (List.mem_cons_of_mem _ hr)) hrest
    refine List.pairwise_cons.mpr ⟨?_, ih⟩
    intro s hs
    rcases List.mem_cons.mp hs with rfl | hs
    · exact hab'
    · have hbs : Sep b s := (List.pairwise_cons.mp ih).1 s hs
      have hvb : b.Valid := hv b (by simp)
      unfold Sep Range.Valid at *
      omega

theorem overlapAdj_false_of_sep : ∀ (l : List (Range V)), List.Pairwise Sep l → overlapAdj l = false
  | [], _ => rfl
  | [_], _ => rfl
  | a :: b :: rest, h => by
    have hab : Sep a b := (List.pairwise_cons.mp h).1 b (by simp)
    have ih := overlapAdj_false_of_sep (b :: rest) (List.pairwise_cons.mp h).2
    simp only [overlapAdj, Bool.or_eq_false_iff, decide_eq_false_iff_not, ih, and_true]
    intro hge
    have := (cmp_ge_iff a.stop b.start).mp hge
    unfold Sep at hab
    omega

theorem sep_of_disj_sorted {l : List (Range V)} (hv : ∀ r ∈ l, r.Valid)
    (hs : List.Pairwise StartLe l) (hd : List.Pairwise Disj l) : List.Pairwise Sep l := by
  induction l with
  | nil => exact List.Pairwise.nil
  | cons a rest ih =>
    obtain ⟨hs1, hs2⟩ := List.pairwise_cons.mp hs
    obtain ⟨hd1, hd2⟩ := List.pairwise_cons.mp hd
    refine List.pairwise_cons.mpr ⟨?_, ih (fun r hr => hv r (List.mem_cons_of_mem _ hr)) hs2 hd2⟩
    intro s hsm
    have h1 := hs1 s hsm
    have h2 := hd1 s hsm
    have h3 : s.Valid := hv s (List.mem_cons_of_mem _ hsm)
    unfold Sep StartLe Disj Range.Valid at *
    omega

theorem disj_of_sep {l : List (Range V)} (h : List.Pairwise Sep l) : List.Pairwise Disj l :=
  h.imp (fun h => Or.inl h)

theorem startLe_trans (a b c : Range V) : startLe a b = true → startLe b c = true → startLe a c = true := by
  simp only [startLe, decide_eq_true_eq, cmp_le_iff]; omega

theorem startLe_total (a b : Range V) : (startLe a b || startLe b a) = true := by
  simp only [startLe, Bool.or_eq_true, decide_eq_true_eq, cmp_le_iff]; omega

/-- what a successful `Build` returns: a permutation of the added ranges, sorted by start,
    that passed the adjacent overlap test -/
structure IsBuildOf (l b : List (Range V)) : Prop where
  perm : l.Perm b
  sorted : List.Pairwise StartLe l
  noOverlap : overlapAdj l = false

theorem build_spec {b l : List (Range V)} (h : build b = some l) : IsBuildOf l b := by
  unfold build at h
  by_cases ho : overlapAdj (b.mergeSort startLe) = true
  · simp [ho] at h
  · simp only [ho, Bool.false_eq_true, if_false, Option.some.injEq] at h
    subst h
    refine ⟨List.mergeSort_perm _ _, ?_, by simpa using ho⟩
    have := List.pairwise_mergeSort (le := startLe) startLe_trans startLe_total b
    exact this.imp (fun h => by simpa [startLe, cmp_le_iff, StartLe] using h)

theorem valid_of_perm {l b : List (Range V)} (hp : l.Perm b) (hv : ∀ r ∈ b, r.Valid) :
    ∀ r ∈ l, r.Valid := fun r hr => hv r (hp.mem_iff.mp hr)

/-- for sorted valid ranges the adjacent test is exactly pairwise disjointness of the *input* -/
theorem overlapAdj_iff {l b : List (Range V)} (hp : l.Perm b) (hs : List.Pairwise StartLe l)
    (hv : ∀ r ∈ b, r.Valid) : overlapAdj l = false ↔ List.Pairwise Disj b := by
  have hvl := valid_of_perm hp hv
  constructor
  · intro h
    exact (hp.pairwise_iff Disj.symm).mp (disj_of_sep (sep_of_overlapAdj_false l hvl h))
  · intro h
    exact overlapAdj_false_of_sep l (sep_of_disj_sorted hvl hs ((hp.pairwise_iff Disj.symm).mpr h))

theorem mergeSort_sorted (b : List (Range V)) : List.Pairwise StartLe (b.mergeSort startLe) := by
  have := List.pairwise_mergeSort (le := startLe) startLe_trans startLe_total b
  exact this.imp (fun h => by simpa [startLe, cmp_le_iff, StartLe] using h)

/-- `Build` fails exactly when two of the added ranges intersect -/
theorem build_eq_none_iff {b : List (Range V)} (hv : ∀ r ∈ b, r.Valid) :
    build b = none ↔ ¬ List.Pairwise Disj b := by
  rw [← overlapAdj_iff (List.mergeSort_perm b startLe) (mergeSort_sorted b) hv]
  unfold build
  cases h : overlapAdj (b.mergeSort startLe) <;> simp [h]

/-- a successful `Build` returns valid, strictly separated ranges -/
theorem build_sep {b l : List (Range V)} (hv : ∀ r ∈ b, r.Valid) (h : build b = some l) :
    List.Pairwise Sep l ∧ (∀ r ∈ l, r.Valid) ∧ l.Perm b := by
  have hb := build_spec h
  have hvl := valid_of_perm hb.perm hv
  exact ⟨sep_of_overlapAdj_false l hvl hb.noOverlap, hvl, hb.perm⟩

/-! ### `Lookup` -/

theorem contains_eq_some {r : Range V} {ip : Ipv6} {v : V} :
    r.contains ip = some v ↔ r.start.val ≤ ip.val ∧ ip.val ≤ r.stop.val ∧ r.v = v := by
  unfold Range.contains
  simp only [cmp_le_iff]
  by_cases h : r.start.val ≤ ip.val ∧ ip.val ≤ r.stop.val
  · simp [h]
  · simp only [h, if_false]
    constructor
    · intro h'; cases h'
    · intro h'; exact absurd ⟨h'.1, h'.2.1⟩ h

/-- On a list of valid, strictly separated ranges (what `Build` returns) `Lookup` never panics
    and finds exactly the range containing the address, if any. -/
theorem lookup_of_sep {l : List (Range V)} (hv : ∀ r ∈ l, r.Valid) (hsep : List.Pairwise Sep l)
    (ip : Ipv6) :
    ∃ res, lookup l ip = some res ∧
      ∀ v, res = some v ↔ ∃ r ∈ l, r.start.val ≤ ip.val ∧ ip.val ≤ r.stop.val ∧ r.v = v := by
  have hidx := List.pairwise_iff_getElem.mp hsep
  let p : Nat → Bool := fun k => if h : k < l.length then decide (ip.cmp l[k].start < 0) else false
  have hpt : ∀ k (hk : k < l.length), p k = true → ip.val < l[k].start.val := by
    intro k hk h
    simp only [p, hk, dite_true, decide_eq_true_eq] at h
    exact (cmp_lt_iff _ _).mp h
  have hpf : ∀ k (hk : k < l.length), p k = false → l[k].start.val ≤ ip.val := by
    intro k hk h
    simp only [p, hk, dite_true, decide_eq_false_iff_not] at h
    have : ¬ ip.val < l[k].start.val := fun h' => h ((cmp_lt_iff _ _).mpr h')
    omega
  have hpi : ∀ k (hk : k < l.length), ip.val < l[k].start.val → p k = true := by
    intro k hk h
    simp only [p, hk, dite_true, decide_eq_true_eq]
    exact (cmp_lt_iff _ _).mpr h
  have hf : ∀ k, k < l.length →
      (fun i => (l[i]?).map fun r => decide (ip.cmp r.start < 0)) k = some (p k) := by
    intro k hk
    simp only [List.getElem?_eq_getElem hk, Option.map_some, p, hk, dite_true]
  have mono : ∀ k k', k ≤ k' → k' < l.length → p k = true → p k' = true := by
    intro k k' hkk hk' hp
    have hk : k < l.length := by omega
    have hp' := hpt k hk hp
    apply hpi k' hk'
    by_cases he : k = k'
    · subst he; exact hp'
    · have h1 : Sep l[k] l[k'] := hidx k k' hk hk' (by omega)
      have h2 : (l[k]).Valid := hv _ (List.getElem_mem hk)
      unfold Sep at h1
      unfold Range.Valid at h2
      omega
  obtain ⟨i, hi, hin, hlo, hhi⟩ := searchLoop_spec _ p l.length hf mono l.length 0 l.length rfl
    (Nat.zero_le _) (Nat.le_refl _) (fun k hk => absurd hk (Nat.not_lt_zero _))
    (fun k hk hkn => absurd hkn (by omega))
  unfold lookup
  rw [hi]
  by_cases hi0 : i = 0
  · subst hi0
    refine ⟨none, by simp, ?_⟩
    intro v
    simp only [reduceCtorEq, false_iff, not_exists, not_and]
    intro r hr h1 _ _
    obtain ⟨k, hk, rfl⟩ := List.mem_iff_getElem.mp hr
    have := hpt k hk (hhi k (Nat.zero_le _) hk)
    omega
  · have hi1 : i - 1 < l.length := by omega
    refine ⟨(l[i - 1]).contains ip, by simp [hi0, List.getElem?_eq_getElem hi1], ?_⟩
    intro v
    rw [contains_eq_some]
    constructor
    · intro h; exact ⟨_, List.getElem_mem hi1, h⟩
    · rintro ⟨r, hr, h1, h2, h3⟩
      obtain ⟨k, hk, rfl⟩ := List.mem_iff_getElem.mp hr
      have hki : k < i := by
        apply Decidable.byContradiction
        intro hn
        have := hpt k hk (hhi k (by omega) hk)
        omega
      have hlo1 := hpf (i - 1) hi1 (hlo (i - 1) (by omega))
      by_cases hk1 : k = i - 1
      · subst hk1; exact ⟨h1, h2, h3⟩
      · have hs : Sep l[k] l[i - 1] := hidx k (i - 1) hk hi1 (by omega)
        unfold Sep at hs
        omega

/-- same, for an address given as `netip.Addr` (`LookupAddr`) -/
theorem lookupAddr_of_sep {l : List (Range V)} (hv : ∀ r ∈ l, r.Valid) (hsep : List.Pairwise Sep l)
    (a : Addr) (ha : a.isValid = true) :
    ∃ res, lookupAddr l a = some res ∧
      ∀ v, res = some v ↔ ∃ r ∈ l, r.start.val ≤ (addr2Ipv6 a).val ∧ (addr2Ipv6 a).val ≤ r.stop.val ∧ r.v = v := by
  unfold lookupAddr
  simp only [ha, Bool.not_true, Bool.false_eq_true, if_false]
  exact lookup_of_sep hv hsep _

end MosVerif.Netlist
