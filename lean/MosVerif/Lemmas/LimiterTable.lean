/-
  C15 helper lemmas, part 2: the bucket table of `ClientLimiter`; windows of a history;
  isolation.  Histories are op sequences (arrivals and gc passes).
-/
import MosVerif.Lemmas.LimiterBucket
namespace MosVerif.Limiter

/-- the bucket a key currently has (`LoadOrCompute`: a missing entry is a new limiter) -/
def ClientLimiter.bucketOf (cl : ClientLimiter) (k : Addr) : Bucket :=
  match cl.m k with
  | some e => e.b
  | none => Bucket.fresh

@[simp] theorem ClientLimiter.allowN_opts (cl : ClientLimiter) (a : Addr) (t n : Nat) :
    (cl.allowNAt a t n).2.opts = cl.opts := rfl
@[simp] theorem ClientLimiter.allowN_limit (cl : ClientLimiter) (a : Addr) (t n : Nat) :
    (cl.allowNAt a t n).2.limit = cl.limit := rfl
@[simp] theorem ClientLimiter.allowN_burst (cl : ClientLimiter) (a : Addr) (t n : Nat) :
    (cl.allowNAt a t n).2.burst = cl.burst := rfl
@[simp] theorem ClientLimiter.gcWith_opts (rf : Bool) (cl : ClientLimiter) (now : Nat) (only : Option Addr) :
    (cl.gcWith rf now only).opts = cl.opts := rfl
@[simp] theorem ClientLimiter.gcWith_limit (rf : Bool) (cl : ClientLimiter) (now : Nat) (only : Option Addr) :
    (cl.gcWith rf now only).limit = cl.limit := rfl
@[simp] theorem ClientLimiter.gcWith_burst (rf : Bool) (cl : ClientLimiter) (now : Nat) (only : Option Addr) :
    (cl.gcWith rf now only).burst = cl.burst := rfl

theorem ClientLimiter.allowN_fst (cl : ClientLimiter) (a : Addr) (t n : Nat) :
    (cl.allowNAt a t n).1 = ((cl.bucketOf (mask cl.opts a)).allowN cl.limit cl.burst t n).1 := rfl

theorem ClientLimiter.bucketOf_allowN_same (cl : ClientLimiter) (a : Addr) (t n : Nat) :
    (cl.allowNAt a t n).2.bucketOf (mask cl.opts a)
      = ((cl.bucketOf (mask cl.opts a)).allowN cl.limit cl.burst t n).2 := by
  simp [ClientLimiter.allowNAt, ClientLimiter.bucketOf, Table.set]
  rfl

theorem ClientLimiter.bucketOf_allowN_other (cl : ClientLimiter) (a : Addr) (t n : Nat) (k : Addr)
    (h : mask cl.opts a ≠ k) : (cl.allowNAt a t n).2.bucketOf k = cl.bucketOf k := by
  have h' : ¬ k = mask cl.opts a := fun e => h e.symm
  simp [ClientLimiter.allowNAt, ClientLimiter.bucketOf, Table.set, h']

theorem ClientLimiter.m_allowN_other (cl : ClientLimiter) (a : Addr) (t n : Nat) (k : Addr)
    (h : mask cl.opts a ≠ k) : (cl.allowNAt a t n).2.m k = cl.m k := by
  have h' : ¬ k = mask cl.opts a := fun e => h e.symm
  simp [ClientLimiter.allowNAt, Table.set, h']

/-- (moved here from part 5) -/
theorem ClientLimiter.m_allowN_same (cl : ClientLimiter) (a : Addr) (t n : Nat) :
    (cl.allowNAt a t n).2.m (mask cl.opts a)
      = some ⟨((cl.bucketOf (mask cl.opts a)).allowN cl.limit cl.burst t n).2, t⟩ := by
  simp [ClientLimiter.allowNAt, ClientLimiter.bucketOf, Table.set]
  rfl

theorem ClientLimiter.bucketOf_new (o : Opts) (k : Addr) : (ClientLimiter.new o).bucketOf k = Bucket.fresh := rfl

/-- a gc pass either leaves a key's bucket alone or replaces it by a new one; with the
    fullness requirement only a bucket that is full at `now` is replaced. -/
theorem ClientLimiter.bucketOf_gcWith (rf : Bool) (cl : ClientLimiter) (now : Nat) (only : Option Addr) (k : Addr) :
    (cl.gcWith rf now only).bucketOf k = cl.bucketOf k ∨
    ((cl.gcWith rf now only).bucketOf k = Bucket.fresh ∧
      (rf = true → ((cl.burst * nano : Nat) : Int) ≤ (cl.bucketOf k).avail cl.limit cl.burst now)) := by
  have hb : cl.bucketOf k = match cl.m k with | some e => e.b | none => Bucket.fresh := rfl
  have hg : (cl.gcWith rf now only).bucketOf k = match (cl.gcWith rf now only).m k with | some e => e.b | none => Bucket.fresh := rfl
  have hgm : (cl.gcWith rf now only).m k = match cl.m k with
      | some e =>
        if (only = none ∨ only = some k) ∧ e.lastSeen + entryTtl < now ∧
            (rf = false ∨ ((cl.burst * nano : Nat) : Int) ≤ e.b.avail cl.limit cl.burst now)
        then none else some e
      | none => none := rfl
  cases hm : cl.m k with
  | none =>
    left
    rw [hg, hb, hgm, hm]
  | some e =>
    rw [hm] at hgm hb
    dsimp only at hgm hb
    by_cases hc : (only = none ∨ only = some k) ∧ e.lastSeen + entryTtl < now ∧
            (rf = false ∨ ((cl.burst * nano : Nat) : Int) ≤ e.b.avail cl.limit cl.burst now)
    · right
      rw [if_pos hc] at hgm
      rw [hg, hgm, hb]
      refine ⟨rfl, fun hrf => ?_⟩
      rcases hc.2.2 with h | h
      · rw [hrf] at h; cases h
      · exact h
    · left
      rw [if_neg hc] at hgm
      rw [hg, hgm, hb]

/-- the op times are non-decreasing and not before `τ` -/
def sortedFrom (τ : Nat) : List Op → Prop
  | [] => True
  | o :: os => τ ≤ o.time ∧ sortedFrom o.time os

theorem sortedFrom_mono {τ τ' : Nat} (h : τ' ≤ τ) : ∀ {os : List Op}, sortedFrom τ os → sortedFrom τ' os
  | [], _ => trivial
  | _ :: _, hs => ⟨Nat.le_trans h hs.1, hs.2⟩

theorem sortedFrom_of_sortedOps : ∀ (os : List Op), sortedOps os = true → sortedFrom 0 os
  | [], _ => trivial
  | [o], _ => ⟨Nat.zero_le _, trivial⟩
  | o :: o' :: os, h => by
    simp [sortedOps] at h
    have ih := sortedFrom_of_sortedOps (o' :: os) h.2
    exact ⟨Nat.zero_le _, h.1, ih.2⟩

/-- total cost of the admitted arrivals selected by `P` (`ds` = the verdicts of the arrivals) -/
def admittedCost (P : Ev → Bool) : List Op → List Bool → Nat
  | .allow e :: os, d :: ds => (if P e && d then e.n else 0) + admittedCost P os ds
  | .allow _ :: _, [] => 0
  | .gc _ _ :: os, ds => admittedCost P os ds
  | [], _ => 0

/-- arrivals of subnet key `k` in the closed time window `[a, b]` -/
def inWindow (o : Opts) (k : Addr) (a b : Nat) (e : Ev) : Bool :=
  decide (mask o e.addr = k) && decide (a ≤ e.t) && decide (e.t ≤ b)

/-- every bucket of the table satisfies the invariant -/
def ClientLimiter.Inv (cl : ClientLimiter) (τ : Nat) : Prop := ∀ k, (cl.bucketOf k).Inv cl.limit τ

theorem ClientLimiter.inv_new (o : Opts) (h : 0 < (ClientLimiter.new o).limit) (τ : Nat) :
    (ClientLimiter.new o).Inv τ := fun _ => Bucket.inv_fresh _ h τ

theorem ClientLimiter.bucket_inv_step (cl : ClientLimiter) (k : Addr) {τ : Nat} (e : Ev)
    (h : (cl.bucketOf k).Inv cl.limit τ) (ht : τ ≤ e.t) :
    ((cl.allowNAt e.addr e.t e.n).2.bucketOf k).Inv cl.limit e.t := by
  by_cases hk : mask cl.opts e.addr = k
  · subst hk
    rw [ClientLimiter.bucketOf_allowN_same]
    exact Bucket.allowN_inv h ht
  · rw [ClientLimiter.bucketOf_allowN_other _ _ _ _ _ hk]
    exact h.mono ht

theorem ClientLimiter.bucket_inv_gc (rf : Bool) (cl : ClientLimiter) (k : Addr) {τ now : Nat} (only : Option Addr) (hL : 0 < cl.limit)
    (h : (cl.bucketOf k).Inv cl.limit τ) (ht : τ ≤ now) :
    ((cl.gcWith rf now only).bucketOf k).Inv cl.limit now := by
  rcases cl.bucketOf_gcWith rf now only k with h1 | ⟨h1, _⟩
  · rw [h1]; exact h.mono ht
  · rw [h1]; exact Bucket.inv_fresh _ hL _

theorem ClientLimiter.inv_step (cl : ClientLimiter) {τ : Nat} (e : Ev) (h : cl.Inv τ) (ht : τ ≤ e.t) :
    (cl.allowNAt e.addr e.t e.n).2.Inv e.t := fun k => cl.bucket_inv_step k e (h k) ht

theorem ClientLimiter.inv_gc (rf : Bool) (cl : ClientLimiter) {τ now : Nat} (only : Option Addr) (hL : 0 < cl.limit) (h : cl.Inv τ) (ht : τ ≤ now) :
    (cl.gcWith rf now only).Inv now := fun k => cl.bucket_inv_gc rf k only hL (h k) ht

/-- a gc pass (with the fullness requirement) never increases what a bucket holds -/
theorem ClientLimiter.avail_gc_le (cl : ClientLimiter) (k : Addr) (now : Nat) (only : Option Addr) :
    ((cl.gcWith true now only).bucketOf k).avail cl.limit cl.burst now ≤ (cl.bucketOf k).avail cl.limit cl.burst now := by
  rcases cl.bucketOf_gcWith true now only k with h1 | ⟨h1, h2⟩
  · rw [h1]; exact Int.le_refl _
  · rw [h1]
    have := h2 rfl
    have := Bucket.avail_le_cap cl.limit cl.burst Bucket.fresh now
    omega

/-- **potential argument, inside the window.**  From any state at time `τ ≥ a`: what is still
    admitted for `k` up to `b` is bounded by what the bucket holds now plus the refill until `b`
    plus the truncation slack. -/
theorem window_inside (k : Addr) (a b : Nat) :
    ∀ (os : List Op) (cl : ClientLimiter) (τ : Nat), 0 < cl.limit →
      (cl.bucketOf k).Inv cl.limit τ → sortedFrom τ os → a ≤ τ →
      (τ ≤ b → ((admittedCost (inWindow cl.opts k a b) os (cl.runOpsAtWith true os) * nano : Nat) : Int)
                ≤ (cl.bucketOf k).avail cl.limit cl.burst τ + ((cl.limit * (b - τ) : Nat) : Int)
                  + ((cl.limit : Int) - 1))
      ∧ (b < τ → admittedCost (inWindow cl.opts k a b) os (cl.runOpsAtWith true os) = 0) := by
  intro os
  induction os with
  | nil =>
    intro cl τ hL hinv _ _
    refine ⟨fun _ => ?_, fun _ => rfl⟩
    have := Bucket.avail_ge cl.limit cl.burst hL _ τ τ hinv
    simp only [admittedCost]
    have : (0:Int) ≤ ((cl.limit * (b - τ) : Nat) : Int) := Int.natCast_nonneg _
    omega
  | cons o os ih =>
    intro cl τ hL hinv hs ha
    obtain ⟨hte, hs'⟩ := hs
    cases o with
    | gc now only =>
      simp only [Op.time] at hte hs'
      have hinv' := cl.bucket_inv_gc true k only hL hinv hte
      have IH := ih (cl.gcWith true now only) now (by simpa using hL) (by simpa using hinv') hs' (Nat.le_trans ha hte)
      simp only [ClientLimiter.gcWith_opts, ClientLimiter.gcWith_limit, ClientLimiter.gcWith_burst] at IH
      simp only [ClientLimiter.runOpsAtWith, admittedCost]
      refine ⟨fun hτb => ?_, fun hbτ => IH.2 (by omega)⟩
      by_cases hnb : now ≤ b
      · have IH1 := IH.1 hnb
        have hstep := Bucket.avail_step cl.limit cl.burst (cl.bucketOf k) hinv.2 (Nat.le_refl τ) hte
        have hgc := cl.avail_gc_le k now only
        have hdist : cl.limit * (b - τ) = cl.limit * (now - τ) + cl.limit * (b - now) := by
          rw [← Nat.mul_add]; congr 1; omega
        rw [hdist]
        push_cast at IH1 hstep ⊢
        omega
      · rw [IH.2 (by omega)]
        have := Bucket.avail_ge cl.limit cl.burst hL _ τ τ hinv
        have : (0:Int) ≤ ((cl.limit * (b - τ) : Nat) : Int) := Int.natCast_nonneg _
        simp only [Nat.zero_mul]
        omega
    | allow e =>
    simp only [Op.time] at hte hs'
    have hinv' := cl.bucket_inv_step k e hinv hte
    have IH := ih (cl.allowNAt e.addr e.t e.n).2 e.t (by simpa using hL) (by simpa using hinv') hs' (Nat.le_trans ha hte)
    simp only [ClientLimiter.allowN_opts, ClientLimiter.allowN_limit, ClientLimiter.allowN_burst] at IH
    simp only [ClientLimiter.runOpsAtWith, admittedCost]
    constructor
    · intro hτb
      by_cases htb : e.t ≤ b
      · have IH1 := IH.1 htb
        have hstep := Bucket.avail_step cl.limit cl.burst (cl.bucketOf k) hinv.2 (Nat.le_refl τ) hte
        have hdist : cl.limit * (b - τ) = cl.limit * (e.t - τ) + cl.limit * (b - e.t) := by
          rw [← Nat.mul_add]; congr 1; omega
        by_cases hk : mask cl.opts e.addr = k
        · subst hk
          rw [ClientLimiter.bucketOf_allowN_same] at IH1
          cases hd : (cl.allowNAt e.addr e.t e.n).1 with
          | true =>
            rw [ClientLimiter.allowN_fst] at hd
            obtain ⟨_, _, h3⟩ := Bucket.allowN_true hd
            rw [h3, Bucket.avail_after] at IH1
            · have hw : inWindow cl.opts (mask cl.opts e.addr) a b e = true := by
                simp [inWindow]; omega
              simp only [hw, Bool.and_self, if_true]
              rw [hdist, Nat.add_mul]
              push_cast at IH1 hstep ⊢
              omega
            · have := Bucket.avail_le_cap cl.limit cl.burst (cl.bucketOf (mask cl.opts e.addr)) e.t
              have : (0:Int) ≤ ((e.n * nano : Nat) : Int) := Int.natCast_nonneg _
              omega
          | false =>
            rw [ClientLimiter.allowN_fst] at hd
            rw [(Bucket.allowN_false hd).2] at IH1
            simp only [Bool.and_false, Bool.false_eq_true, if_false, Nat.zero_add]
            rw [hdist]
            push_cast at IH1 hstep ⊢
            omega
        · rw [ClientLimiter.bucketOf_allowN_other _ _ _ _ _ hk] at IH1
          have hw : inWindow cl.opts k a b e = false := by simp [inWindow, hk]
          simp only [hw, Bool.false_and, Bool.false_eq_true, if_false, Nat.zero_add]
          rw [hdist]
          push_cast at IH1 hstep ⊢
          omega
      · have IH2 := IH.2 (by omega)
        have hw : inWindow cl.opts k a b e = false := by simp [inWindow]; intro _ _; omega
        simp only [hw, Bool.false_and, Bool.false_eq_true, if_false, Nat.zero_add, IH2]
        have := Bucket.avail_ge cl.limit cl.burst hL _ τ τ hinv
        have : (0:Int) ≤ ((cl.limit * (b - τ) : Nat) : Int) := Int.natCast_nonneg _
        simp only [Nat.zero_mul]
        omega
    · intro hbτ
      have IH2 := IH.2 (by omega)
      have hw : inWindow cl.opts k a b e = false := by simp [inWindow]; intro _ _; omega
      simp only [hw, Bool.false_and, Bool.false_eq_true, if_false, Nat.zero_add, IH2]

/-- **before the window.**  Whatever happened earlier, the window `[a, b]` admits at most a
    full bucket plus the refill during the window plus the truncation slack. -/
theorem window_outside (k : Addr) (a b : Nat) (hab : a ≤ b) :
    ∀ (os : List Op) (cl : ClientLimiter) (τ : Nat), 0 < cl.limit →
      (cl.bucketOf k).Inv cl.limit τ → sortedFrom τ os → τ ≤ a →
      ((admittedCost (inWindow cl.opts k a b) os (cl.runOpsAtWith true os) * nano : Nat) : Int)
        ≤ ((cl.burst * nano : Nat) : Int) + ((cl.limit * (b - a) : Nat) : Int) + ((cl.limit : Int) - 1) := by
  intro os
  induction os with
  | nil =>
    intro cl τ hL _ _ _
    simp only [admittedCost]
    have : (0:Int) ≤ ((cl.limit * (b - a) : Nat) : Int) := Int.natCast_nonneg _
    have : (0:Int) ≤ ((cl.burst * nano : Nat) : Int) := Int.natCast_nonneg _
    omega
  | cons o os ih =>
    intro cl τ hL hinv hs hτa
    obtain ⟨hs1, hs2⟩ := hs
    by_cases hea : a ≤ o.time
    · -- the window has begun: the whole rest is "inside" from time `a`
      have hin := (window_inside k a b (o :: os) cl a hL (hinv.mono hτa) ⟨hea, hs2⟩ (Nat.le_refl a)).1 hab
      have := Bucket.avail_le_cap cl.limit cl.burst (cl.bucketOf k) a
      omega
    · cases o with
      | gc now only =>
        simp only [Op.time] at hea hs1 hs2
        have hinv' := cl.bucket_inv_gc true k only hL hinv hs1
        have IH := ih (cl.gcWith true now only) now (by simpa using hL) (by simpa using hinv') hs2 (by omega)
        simpa only [ClientLimiter.gcWith_opts, ClientLimiter.gcWith_limit, ClientLimiter.gcWith_burst,
          ClientLimiter.runOpsAtWith, admittedCost] using IH
      | allow e =>
        simp only [Op.time] at hea hs1 hs2
        have hinv' := cl.bucket_inv_step k e hinv hs1
        have IH := ih (cl.allowNAt e.addr e.t e.n).2 e.t (by simpa using hL) (by simpa using hinv') hs2 (by omega)
        simp only [ClientLimiter.allowN_opts, ClientLimiter.allowN_limit, ClientLimiter.allowN_burst] at IH
        have hw : inWindow cl.opts k a b e = false := by simp [inWindow]; intro _ _; omega
        simp only [ClientLimiter.runOpsAtWith, admittedCost, hw, Bool.false_and, Bool.false_eq_true, if_false, Nat.zero_add]
        exact IH

/-! ### isolation -/

/-- the verdicts of the arrivals of key `k` -/
def decisionsFor (o : Opts) (k : Addr) : List Op → List Bool → List Bool
  | .allow e :: os, d :: ds => if mask o e.addr = k then d :: decisionsFor o k os ds else decisionsFor o k os ds
  | .allow _ :: _, [] => []
  | .gc _ _ :: os, ds => decisionsFor o k os ds
  | [], _ => []

/-- erase the arrivals of every other key (gc passes stay) -/
def onlyKey (o : Opts) (k : Addr) : List Op → List Op
  | [] => []
  | .allow e :: os => if mask o e.addr = k then .allow e :: onlyKey o k os else onlyKey o k os
  | .gc now only :: os => .gc now only :: onlyKey o k os

theorem ClientLimiter.m_gcWith (rf : Bool) (c1 c2 : ClientLimiter) (now : Nat) (only : Option Addr) (k : Addr)
    (ho : c1.opts = c2.opts) (hm : c1.m k = c2.m k) : (c1.gcWith rf now only).m k = (c2.gcWith rf now only).m k := by
  have hl : c1.limit = c2.limit := by simp [ClientLimiter.limit, ho]
  have hbu : c1.burst = c2.burst := by simp [ClientLimiter.burst, ho]
  simp only [ClientLimiter.gcWith, hm, hl, hbu]

/-- two limiters with the same options and the same entry for `k` decide `k`'s arrivals alike,
    whatever else is in their tables and whatever other keys' arrivals are interleaved. -/
theorem isolation_gen (rf : Bool) (k : Addr) :
    ∀ (os : List Op) (c1 c2 : ClientLimiter), c1.opts = c2.opts → c1.m k = c2.m k →
      decisionsFor c1.opts k os (c1.runOpsAtWith rf os) = c2.runOpsAtWith rf (onlyKey c1.opts k os) := by
  intro os
  induction os with
  | nil => intro c1 c2 _ _; rfl
  | cons o os ih =>
    intro c1 c2 ho hm
    have hl : c1.limit = c2.limit := by simp [ClientLimiter.limit, ho]
    have hbu : c1.burst = c2.burst := by simp [ClientLimiter.burst, ho]
    have hb : c1.bucketOf k = c2.bucketOf k := by simp [ClientLimiter.bucketOf, hm]
    cases o with
    | gc now only =>
      simp only [ClientLimiter.runOpsAtWith, decisionsFor, onlyKey]
      have IH := ih (c1.gcWith rf now only) (c2.gcWith rf now only) (by simpa using ho) (ClientLimiter.m_gcWith rf c1 c2 now only k ho hm)
      simpa using IH
    | allow e =>
    by_cases hk : mask c1.opts e.addr = k
    · have hk2 : mask c2.opts e.addr = k := ho ▸ hk
      simp only [ClientLimiter.runOpsAtWith, decisionsFor, onlyKey, hk, if_true]
      have hfst : (c1.allowNAt e.addr e.t e.n).1 = (c2.allowNAt e.addr e.t e.n).1 := by
        rw [ClientLimiter.allowN_fst, ClientLimiter.allowN_fst, hk, hk2, hb, hl, hbu]
      have hsnd : (c1.allowNAt e.addr e.t e.n).2.m k = (c2.allowNAt e.addr e.t e.n).2.m k := by
        simp only [ClientLimiter.allowNAt, Table.set, hk, hk2, if_true, hm, hl, hbu]
      have IH := ih (c1.allowNAt e.addr e.t e.n).2 (c2.allowNAt e.addr e.t e.n).2 (by simpa using ho) hsnd
      simp only [ClientLimiter.allowN_opts] at IH
      rw [hfst, IH]
    · simp only [ClientLimiter.runOpsAtWith, decisionsFor, onlyKey, hk, if_false]
      have hsnd : (c1.allowNAt e.addr e.t e.n).2.m k = c2.m k := by
        rw [ClientLimiter.m_allowN_other _ _ _ _ _ hk, hm]
      have IH := ih (c1.allowNAt e.addr e.t e.n).2 c2 (by simpa using ho) hsnd
      simp only [ClientLimiter.allowN_opts] at IH
      exact IH

end MosVerif.Limiter
