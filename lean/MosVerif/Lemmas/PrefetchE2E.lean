/-
  C19 — the scenario model of component prefetch_e2e satisfies its specification for every number of hits.
-/
import MosVerif.Lemmas.PrefetchWave
namespace MosVerif.Prefetch
open MosVerif.Ttl

/-- the cache after the successful refresh stored its answer at 3.8 s -/
def e2eMem3 : Mem :=
  cacheStore e2eParams.clock e2eParams.cfg e2eMem0 0 (some (removeEDNS0 (aRecord 4))) (3800 * msNs) 0 2

/-- what a lookup at `t` finds: (does the window test fire, the TTL served) -/
def look (mem : Mem) (t : Nat) : Option (Bool × Nat) :=
  (cacheGet e2eClock mem 0 t).map fun p =>
    (needPrefetch p.2.stored p.2.expire t, ttlOfHit ⟨p.1, p.2.stored, p.2.expire, p.2.id⟩)

set_option maxRecDepth 100000 in
/-- the five lookups of the scenarios, evaluated -/
theorem look_facts :
    look e2eMem0 (3300 * msNs) = some (true, 1) ∧ look e2eMem0 (3550 * msNs) = some (true, 1) ∧
    look e2eMem3 (3950 * msNs) = some (false, 4) ∧
    look e2eMem0 (3700 * msNs) = some (true, 1) ∧ look e2eMem0 (4600 * msNs) = none ∧
    (e2eMem0 0).map (·.expTick) = some 4 := by decide

theorem look_some (mem : Mem) (t : Nat) (b : Bool) (ttl : Nat) (h : look mem t = some (b, ttl)) :
    ∃ sv e, cacheGet e2eClock mem 0 t = some (sv, e) ∧ needPrefetch e.stored e.expire t = b ∧
      ttlOfHit ⟨sv, e.stored, e.expire, e.id⟩ = ttl := by
  unfold look at h
  cases hg : cacheGet e2eClock mem 0 t with
  | none => simp [hg] at h
  | some p =>
    obtain ⟨sv, e⟩ := p
    simp only [hg, Option.map_some, Option.some.injEq, Prod.mk.injEq] at h
    exact ⟨sv, e, rfl, h.1, h.2⟩

theorem look_none (mem : Mem) (t : Nat) (h : look mem t = none) : cacheGet e2eClock mem 0 t = none := by
  unfold look at h
  cases hg : cacheGet e2eClock mem 0 t with
  | none => rfl
  | some p => simp [hg] at h

/-- the results of a wave read off a client list that is known position by position -/
theorem waveResult_of (s : State) (first n : Nat) (hn : 0 < n) (h : Hit)
    (hc : ∀ i, i < n → s.clients[first + i]? = some ⟨0, .responded h⟩) :
    waveResult s first n = (n, ttlOfHit h) := by
  have hl : (s.clients.drop first).take n = List.replicate n ⟨0, .responded h⟩ := by
    apply List.ext_getElem?
    intro i
    by_cases hi : i < n
    · simp [List.getElem?_take, hc i hi, hi]
    · simp [List.getElem?_take, hi]
  unfold waveResult
  simp only [hl]
  have hf : (List.replicate n (⟨0, .responded h⟩ : Client)).filterMap respondedTtl = List.replicate n (ttlOfHit h) := by
    clear hl hc hn
    induction n with
    | zero => rfl
    | succ m ih => simp [List.replicate_succ, respondedTtl, ih]
  rw [hf]
  cases n with
  | zero => omega
  | succ m => simp [List.replicate_succ, commonTtl]

theorem init_clients (mem : Mem) (m id i : Nat) (hi : i < m) :
    (init mem (List.replicate m 0) id).clients[i]? = some ⟨0, .start⟩ := by
  simp [init, hi]

theorem waveState_spawned (P : Params) (s : State) (k now : Nat) (sv : Msg) (e : Entry) (first n : Nat)
    (h : spawns P s k e now = true) (hn : 0 < n) :
    (waveState P s k now sv e first n).queue = (reserve s.queue (P.pkey k)).1 ∧
    (waveState P s k now sv e first n).refreshers = s.refreshers ++ [⟨k, P.pkey k, .spawned⟩] := by
  simp [waveState, h, hn]

theorem waveState_quiet (P : Params) (s : State) (k now : Nat) (sv : Msg) (e : Entry) (first n : Nat)
    (h : spawns P s k e now = false) :
    (waveState P s k now sv e first n).queue = s.queue ∧
    (waveState P s k now sv e first n).refreshers = s.refreshers := by
  simp [waveState, h]

/-- a client thread whose lookup misses goes to the miss path at once -/
theorem client_run_miss (P : Params) (s : State) (i now k : Nat) (hc : s.clients[i]? = some ⟨k, .start⟩)
    (hget : cacheGet P.clock s.mem k now = none) :
    run P s (clientLabels i now) = { s with clients := s.clients.set i ⟨k, .missed⟩ } := by
  obtain ⟨hi, he⟩ := getElem?_some _ _ _ hc
  unfold clientLabels
  simp only [run, step]
  have h1 : clientStep P s i now = { s with clients := s.clients.set i ⟨k, .missed⟩ } := by
    simp [clientStep, hc, hget]
  rw [h1]
  simp [clientStep, List.getElem?_set, hi]

/-- wave 1, for every `n ≥ 1`: all `n` clients answered with TTL 1, exactly one refresh started -/
theorem afterWave1 (n : Nat) (hn : 0 < n) :
    ∃ h1 : Hit, ttlOfHit h1 = 1 ∧
      (e2eAfterWave1 n).mem = e2eMem0 ∧ (e2eAfterWave1 n).nextId = 2 ∧
      (e2eAfterWave1 n).queue = (reserve Queue.empty 0).1 ∧
      (e2eAfterWave1 n).refreshers = [⟨0, 0, .spawned⟩] ∧
      (e2eAfterWave1 n).clients =
        markRange (init e2eMem0 (List.replicate (2 * n + 2) 0) 2).clients 0 n ⟨0, .responded h1⟩ := by
  obtain ⟨l1, -, -, -, -, -⟩ := look_facts
  obtain ⟨sv1, e1, g1, need1, ttl1⟩ := look_some _ _ _ _ l1
  have hs1 := wave_run e2eParams 0 (3300 * msNs) sv1 e1 0 n (init e2eMem0 (List.replicate (2 * n + 2) 0) 2)
      (fun i hi => by rw [Nat.zero_add]; exact init_clients _ _ _ _ (by omega)) g1
  have sp1 : spawns e2eParams (init e2eMem0 (List.replicate (2 * n + 2) 0) 2) 0 e1 (3300 * msNs) = true := by
    show (needPrefetch e1.stored e1.expire (3300 * msNs : Nat) && !Queue.empty 0) = true
    rw [need1]; rfl
  obtain ⟨q1, r1⟩ := waveState_spawned e2eParams _ 0 (3300 * msNs) sv1 e1 0 n sp1 hn
  refine ⟨⟨sv1, e1.stored, e1.expire, e1.id⟩, ttl1, ?_, ?_, ?_, ?_, ?_⟩
  all_goals (unfold e2eAfterWave1 e2eT1; rw [hs1])
  · rfl
  · rfl
  · exact q1
  · exact r1
  · rfl

/-- positions of the client list after the waves -/
theorem base_len (n : Nat) : (init e2eMem0 (List.replicate (2 * n + 2) 0) 2).clients.length = 2 * n + 2 := by
  simp [init]

set_option maxRecDepth 100000 in
/-- mode 0, for every `n ≥ 1` -/
theorem finalOk (n : Nat) (hn : 0 < n) :
    waveResult (e2eFinalOk n 500) 0 n = (n, 1) ∧ waveResult (e2eFinalOk n 500) n n = (n, 1) ∧
    (e2eFinalOk n 500).refreshers.length = 1 ∧ probeResult (e2eFinalOk n 500) (2 * n) = some (true, 4) := by
  obtain ⟨-, l2, l3, -, -, -⟩ := look_facts
  obtain ⟨sv2, e2, g2, -, ttl2⟩ := look_some _ _ _ _ l2
  obtain ⟨sv3, e3, g3, need3, ttl3⟩ := look_some _ _ _ _ l3
  obtain ⟨h1, ttl1, m1, id1, q1, r1, c1⟩ := afterWave1 n hn
  -- wave 2: the reservation is held, nobody spawns
  have hs2 := wave_run e2eParams 0 (3550 * msNs) sv2 e2 n n (e2eAfterWave1 n)
      (fun i hi => by
        rw [c1, markRange_get_out _ _ _ _ _ (by omega)]
        exact init_clients _ _ _ _ (by omega)) (by rw [m1]; exact g2)
  have sp2 : spawns e2eParams (e2eAfterWave1 n) 0 e2 (3550 * msNs) = false := by
    show (needPrefetch e2.stored e2.expire (3550 * msNs : Nat) && !(e2eAfterWave1 n).queue 0) = false
    rw [q1, reserve_fst_self Queue.empty 0 rfl]; simp
  obtain ⟨q2, r2⟩ := waveState_quiet e2eParams (e2eAfterWave1 n) 0 (3550 * msNs) sv2 e2 n n sp2
  generalize hS2 : waveState e2eParams (e2eAfterWave1 n) 0 (3550 * msNs) sv2 e2 n n = S2 at hs2 q2 r2
  have c2 : S2.clients = markRange (e2eAfterWave1 n).clients n n ⟨0, .responded ⟨sv2, e2.stored, e2.expire, e2.id⟩⟩ := by
    rw [← hS2]; rfl
  have m2 : S2.mem = e2eMem0 := by rw [← hS2]; exact m1
  have id2 : S2.nextId = 2 := by rw [← hS2]; exact id1
  rw [r1] at r2
  -- the refresh returns, stores, releases
  have hs3 : run e2eParams S2 [.forward 0 (.reply (aRecord 4)), .store 0 (3800 * msNs) 0, .done 0] =
      { S2 with mem := e2eMem3, nextId := 3, queue := done S2.queue 0, refreshers := [⟨0, 0, .finished⟩] } := by
    simp only [run, step, forwardStep, r2]
    simp [storeStep, doneStep, e2eMem3, m2, id2]
  generalize hS3 : ({ S2 with mem := e2eMem3, nextId := 3, queue := done S2.queue 0, refreshers := [⟨0, 0, .finished⟩] } : State) = S3 at hs3
  have c3 : S3.clients = S2.clients := by rw [← hS3]
  have m3 : S3.mem = e2eMem3 := by rw [← hS3]
  have r3 : S3.refreshers = [⟨0, 0, .finished⟩] := by rw [← hS3]
  have len1 : (e2eAfterWave1 n).clients.length = 2 * n + 2 := by rw [c1, markRange_length, base_len]
  -- the last query: fresh entry, TTL 4, outside the window
  have cl : S3.clients[2 * n]? = some ⟨0, .start⟩ := by
    rw [c3, c2, markRange_get_out _ _ _ _ _ (by omega), c1, markRange_get_out _ _ _ _ _ (by omega)]
    exact init_clients _ _ _ _ (by omega)
  have hs4 := client_run e2eParams S3 (2 * n) (3950 * msNs) 0 sv3 e3 cl (by rw [m3]; exact g3)
  have sp3 : spawns e2eParams S3 0 e3 (3950 * msNs) = false := by
    show (needPrefetch e3.stored e3.expire (3950 * msNs : Nat) && !S3.queue 0) = false
    rw [need3]; rfl
  rw [sp3] at hs4
  simp only [Bool.false_eq_true, if_false] at hs4
  have hfinal : e2eFinalOk n 500 = { S3 with clients := S3.clients.set (2 * n) ⟨0, .responded ⟨sv3, e3.stored, e3.expire, e3.id⟩⟩ } := by
    unfold e2eFinalOk e2eT1
    simp only
    rw [show (3300 + 500 / 2) * msNs = 3550 * msNs from rfl, show (3300 + 500) * msNs = 3800 * msNs from rfl,
      show (3300 + 500 + 150) * msNs = 3950 * msNs from rfl, hs2, hs3, hs4]
  rw [hfinal]
  have len2 : S2.clients.length = 2 * n + 2 := by rw [c2, markRange_length, len1]
  refine ⟨?_, ?_, ?_, ?_⟩
  · rw [waveResult_of _ 0 n hn h1, ttl1]
    intro i hi
    show (S3.clients.set (2 * n) _)[0 + i]? = _
    rw [List.getElem?_set_ne (by omega), c3, c2, markRange_get_out _ _ _ _ _ (by omega), c1]
    exact markRange_get_in _ _ _ _ _ (by omega) (by rw [base_len]; omega)
  · rw [waveResult_of _ n n hn ⟨sv2, e2.stored, e2.expire, e2.id⟩, ttl2]
    intro i hi
    show (S3.clients.set (2 * n) _)[n + i]? = _
    rw [List.getElem?_set_ne (by omega), c3, c2]
    exact markRange_get_in _ _ _ _ _ (by omega) (by rw [len1]; omega)
  · show S3.refreshers.length = 1
    rw [r3]; rfl
  · unfold probeResult
    show (match (S3.clients.set (2 * n) _)[2 * n]? with | some c => _ | none => none) = _
    rw [List.getElem?_set_self (by rw [c3, len2]; omega)]
    simp [ttl3]

/-- a refresh that ends badly (mode 1: the exchange fails, mode 2: NXDOMAIN): the reservation is released; the
    cache is unchanged when the exchange failed, or when the NXDOMAIN comes while the entry is still alive (before
    tick 4 of the cache clock) -/
theorem bad_refresh (mode : Nat) (hm : mode = 1 ∨ mode = 2) (S : State) (j t : Nat)
    (hr : S.refreshers[j]? = some ⟨0, 0, .spawned⟩) (hmem : S.mem = e2eMem0) :
    ∃ S', run e2eParams S [.forward j (e2eOutcome mode), .store j t 0, .done j] = S' ∧
      ((mode = 1 ∨ e2eClock t < 4) → S'.mem = e2eMem0) ∧ S'.clients = S.clients ∧ S'.queue = done S.queue 0 ∧
      S'.refreshers = S.refreshers.set j ⟨0, 0, .finished⟩ := by
  obtain ⟨hj, -⟩ := getElem?_some _ _ _ hr
  simp only [run, step]
  rcases hm with hm | hm
  · subst hm
    have f1 : forwardStep S j (e2eOutcome 1) = { S with refreshers := S.refreshers.set j ⟨0, 0, .finishing⟩ } := by
      simp [forwardStep, hr, e2eOutcome]
    have g1 : ({ S with refreshers := S.refreshers.set j ⟨0, 0, .finishing⟩ } : State).refreshers[j]?
        = some ⟨0, 0, .finishing⟩ := by simp [List.getElem?_set, hj]
    have f2 : storeStep e2eParams { S with refreshers := S.refreshers.set j ⟨0, 0, .finishing⟩ } j t 0
        = { S with refreshers := S.refreshers.set j ⟨0, 0, .finishing⟩ } := by
      simp only [storeStep, g1]
    have f3 : doneStep { S with refreshers := S.refreshers.set j ⟨0, 0, .finishing⟩ } j
        = { S with queue := done S.queue 0, refreshers := (S.refreshers.set j ⟨0, 0, .finishing⟩).set j ⟨0, 0, .finished⟩ } := by
      simp only [doneStep, g1]
    rw [f1, f2, f3]
    exact ⟨_, rfl, fun _ => hmem, rfl, rfl, by simp⟩
  · subst hm
    have hneg : e2eClock t < 4 → cacheStore e2eParams.clock e2eParams.cfg e2eMem0 0 (some (removeEDNS0 ⟨3, false, [], [], []⟩)) t 0 S.nextId
        = e2eMem0 := by
      intro hl
      have hf := look_facts.2.2.2.2.2
      cases he0 : e2eMem0 0 with
      | none => rw [he0] at hf; cases hf
      | some e0 =>
        rw [he0] at hf
        simp only [Option.map_some, Option.some.injEq] at hf
        exact cacheStore_neg_present _ _ _ _ _ _ _ _ e0 (by decide) he0 (by rw [hf]; exact hl)
    generalize hM : cacheStore e2eParams.clock e2eParams.cfg e2eMem0 0 (some (removeEDNS0 ⟨3, false, [], [], []⟩)) t 0 S.nextId = M at hneg
    have f1 : forwardStep S j (e2eOutcome 2)
        = { S with refreshers := S.refreshers.set j ⟨0, 0, .fetched (removeEDNS0 ⟨3, false, [], [], []⟩)⟩ } := by
      simp [forwardStep, hr, e2eOutcome]
    have g1 : ({ S with refreshers := S.refreshers.set j ⟨0, 0, .fetched (removeEDNS0 ⟨3, false, [], [], []⟩)⟩ } : State).refreshers[j]?
        = some ⟨0, 0, .fetched (removeEDNS0 ⟨3, false, [], [], []⟩)⟩ := by simp [List.getElem?_set, hj]
    have f2 : storeStep e2eParams { S with refreshers := S.refreshers.set j ⟨0, 0, .fetched (removeEDNS0 ⟨3, false, [], [], []⟩)⟩ } j t 0
        = { S with mem := M, nextId := S.nextId + 1, refreshers := (S.refreshers.set j ⟨0, 0, .fetched (removeEDNS0 ⟨3, false, [], [], []⟩)⟩).set j ⟨0, 0, .finishing⟩ } := by
      simp only [storeStep, g1, hmem, hM]
    have g2 : ({ S with mem := M, nextId := S.nextId + 1, refreshers := (S.refreshers.set j ⟨0, 0, .fetched (removeEDNS0 ⟨3, false, [], [], []⟩)⟩).set j ⟨0, 0, .finishing⟩ } : State).refreshers[j]?
        = some ⟨0, 0, .finishing⟩ := by simp [List.getElem?_set, hj]
    have f3 : doneStep { S with mem := M, nextId := S.nextId + 1, refreshers := (S.refreshers.set j ⟨0, 0, .fetched (removeEDNS0 ⟨3, false, [], [], []⟩)⟩).set j ⟨0, 0, .finishing⟩ } j
        = { S with mem := M, nextId := S.nextId + 1, queue := done S.queue 0, refreshers := ((S.refreshers.set j ⟨0, 0, .fetched (removeEDNS0 ⟨3, false, [], [], []⟩)⟩).set j ⟨0, 0, .finishing⟩).set j ⟨0, 0, .finished⟩ } := by
      simp only [doneStep, g2]
    rw [f1, f2, f3]
    refine ⟨_, rfl, ?_, rfl, rfl, by simp⟩
    intro h
    rcases h with h | h
    · cases h
    · exact hneg h

set_option maxRecDepth 100000 in
/-- modes 1 and 2, for every `n ≥ 1` -/
theorem finalBad (mode : Nat) (hm : mode = 1 ∨ mode = 2) (n : Nat) (hn : 0 < n) :
    waveResult (e2eFinalBad mode n 300) 0 n = (n, 1) ∧ (e2eFinalBad mode n 300).refreshers.length = 2 ∧
    probeResult (e2eFinalBad mode n 300) (2 * n) = some (true, 1) ∧
    (mode = 1 → probeResult (e2eFinalBad mode n 300) (2 * n + 1) = some (false, 0)) := by
  obtain ⟨-, -, -, l4, l5, -⟩ := look_facts
  obtain ⟨sv4, e4, g4, need4, ttl4⟩ := look_some _ _ _ _ l4
  have g5 := look_none _ _ l5
  obtain ⟨h1, ttl1, m1, -, q1, r1, c1⟩ := afterWave1 n hn
  have len1 : (e2eAfterWave1 n).clients.length = 2 * n + 2 := by rw [c1, markRange_length, base_len]
  -- the first refresh ends badly
  obtain ⟨S2, hs2, m2', c2, q2, r2⟩ := bad_refresh mode hm (e2eAfterWave1 n) 0 (3600 * msNs) (by rw [r1]; rfl) m1
  have m2 : S2.mem = e2eMem0 := m2' (Or.inr (by decide))
  rw [r1] at r2
  have q2' : S2.queue 0 = false := by rw [q2]; simp [done]
  -- 100 ms later: still served (TTL 1), and the next refresh starts
  have cl : S2.clients[2 * n]? = some ⟨0, .start⟩ := by
    rw [c2, c1, markRange_get_out _ _ _ _ _ (by omega)]
    exact init_clients _ _ _ _ (by omega)
  have hs3 := client_run e2eParams S2 (2 * n) (3700 * msNs) 0 sv4 e4 cl (by rw [m2]; exact g4)
  have sp3 : spawns e2eParams S2 0 e4 (3700 * msNs) = true := by
    show (needPrefetch e4.stored e4.expire (3700 * msNs : Nat) && !S2.queue 0) = true
    rw [need4, q2']; rfl
  rw [sp3] at hs3
  simp only [if_true] at hs3
  generalize hS3 : run e2eParams S2 (clientLabels (2 * n) (3700 * msNs)) = S3 at hs3
  have c3 : S3.clients = S2.clients.set (2 * n) ⟨0, .responded ⟨sv4, e4.stored, e4.expire, e4.id⟩⟩ := by rw [hs3]
  have m3 : S3.mem = e2eMem0 := by rw [hs3]; exact m2
  have r3 : S3.refreshers = [⟨0, 0, .finished⟩, ⟨0, 0, .spawned⟩] := by rw [hs3]; simp [r2, e2eParams]
  -- the second refresh ends the same way
  obtain ⟨S4, hs4, m4', c4, -, r4⟩ := bad_refresh mode hm S3 1 (4000 * msNs) (by rw [r3]; rfl) m3
  rw [r3] at r4
  have len2 : S2.clients.length = 2 * n + 2 := by rw [c2, len1]
  have cw : ∀ i, i < n → S4.clients[0 + i]? = some ⟨0, .responded h1⟩ := by
    intro i hi
    rw [c4, c3, List.getElem?_set_ne (by omega), c2, c1]
    exact markRange_get_in _ _ _ _ _ (by omega) (by rw [base_len]; omega)
  have cp : S4.clients[2 * n]? = some ⟨0, .responded ⟨sv4, e4.stored, e4.expire, e4.id⟩⟩ := by
    rw [c4, c3, List.getElem?_set_self (by rw [len2]; omega)]
  have hrun : run e2eParams (run e2eParams (run e2eParams (e2eAfterWave1 n)
        [.forward 0 (e2eOutcome mode), .store 0 (3600 * msNs) 0, .done 0])
        (clientLabels (2 * n) (3700 * msNs)))
        [.forward 1 (e2eOutcome mode), .store 1 (4000 * msNs) 0, .done 1] = S4 := by
    rw [hs2, hS3, hs4]
  rcases hm with hm | hm
  · -- mode 1: a last query after expiry misses
    subst hm
    have cl5 : S4.clients[2 * n + 1]? = some ⟨0, .start⟩ := by
      rw [c4, c3, List.getElem?_set_ne (by omega), c2, c1, markRange_get_out _ _ _ _ _ (by omega)]
      exact init_clients _ _ _ _ (by omega)
    have m4 : S4.mem = e2eMem0 := m4' (Or.inl rfl)
    have hs5 := client_run_miss e2eParams S4 (2 * n + 1) (4600 * msNs) 0 cl5 (by rw [m4]; exact g5)
    have hfinal : e2eFinalBad 1 n 300 = { S4 with clients := S4.clients.set (2 * n + 1) ⟨0, .missed⟩ } := by
      unfold e2eFinalBad e2eT1
      simp only [if_true]
      rw [show (3300 + 300) * msNs = 3600 * msNs from rfl, show (3300 + 300 + 100) * msNs = 3700 * msNs from rfl,
        show (3300 + 2 * 300 + 100) * msNs = 4000 * msNs from rfl, hrun, hs5]
    rw [hfinal]
    have len4 : S4.clients.length = 2 * n + 2 := by rw [c4, c3, List.length_set, len2]
    refine ⟨?_, ?_, ?_, ?_⟩
    · rw [waveResult_of _ 0 n hn h1, ttl1]
      intro i hi
      show (S4.clients.set (2 * n + 1) _)[0 + i]? = _
      rw [List.getElem?_set_ne (by omega)]; exact cw i hi
    · show S4.refreshers.length = 2
      rw [r4]; rfl
    · unfold probeResult
      show (match (S4.clients.set (2 * n + 1) _)[2 * n]? with | some c => _ | none => none) = _
      rw [List.getElem?_set_ne (by omega), cp]
      simp [ttl4]
    · intro _
      unfold probeResult
      show (match (S4.clients.set (2 * n + 1) _)[2 * n + 1]? with | some c => _ | none => none) = _
      rw [List.getElem?_set_self (by rw [len4]; omega)]
  · subst hm
    have hfinal : e2eFinalBad 2 n 300 = S4 := by
      unfold e2eFinalBad e2eT1
      simp only [show (2 : Nat) = 1 ↔ False from by decide, if_false]
      rw [show (3300 + 300) * msNs = 3600 * msNs from rfl, show (3300 + 300 + 100) * msNs = 3700 * msNs from rfl,
        show (3300 + 2 * 300 + 100) * msNs = 4000 * msNs from rfl, hrun]
    rw [hfinal]
    refine ⟨?_, ?_, ?_, ?_⟩
    · rw [waveResult_of _ 0 n hn h1 cw, ttl1]
    · rw [r4]; rfl
    · unfold probeResult
      rw [cp]; simp [ttl4]
    · intro h; cases h

/-- the scenario model satisfies the specification: every mode, every number `n ≥ 1` of hits per wave (with the
    harness' upstream delays: 500 ms in mode 0, 300 ms in modes 1 and 2) -/
theorem specE2E_model (mode n : Nat) (hm : mode ≤ 2) (hn : 0 < n) :
    specE2E mode n (modelE2E mode n (if mode = 0 then 500 else 300)) = true := by
  have hm3 : mode = 0 ∨ mode = 1 ∨ mode = 2 := by omega
  rcases hm3 with h | h | h
  · subst h
    obtain ⟨w1, w2, r, p⟩ := finalOk n hn
    simp [modelE2E, specE2E, w1, w2, r, p]
  · subst h
    obtain ⟨w1, r, p, p2⟩ := finalBad 1 (Or.inl rfl) n hn
    simp [modelE2E, specE2E, w1, r, p]
  · subst h
    obtain ⟨w1, r, p, -⟩ := finalBad 2 (Or.inr rfl) n hn
    simp [modelE2E, specE2E, w1, r, p]

end MosVerif.Prefetch
