/-
  C11 — the text form: `ToReadable` computes the specification's `specText`,
  and `specText` is injective on well-formed names (the escape is a prefix code).
-/
import MosVerif.Model.DomainSet
import MosVerif.Lemmas.TextLemmas
namespace MosVerif.DomainSet
open MosVerif.Text

/-! ### model = specification, octet by octet -/

set_option maxRecDepth 100000 in
theorem escapeByte_all : ∀ n, n < 256 → escapeByte (UInt8.ofNat n) = specEscape (UInt8.ofNat n) := by
  decide

/-- `appendEscapedLabel`'s step is the escape of the property text, for every octet. -/
theorem escapeByte_eq_spec (b : UInt8) : escapeByte b = specEscape b := by
  have := escapeByte_all b.toNat b.toNat_lt
  rwa [UInt8.ofNat_toNat] at this

theorem appendEscapedLabel_eq (dst : Bytes) (l : Label) :
    appendEscapedLabel dst l = dst ++ l.flatMap specEscape := by
  unfold appendEscapedLabel
  induction l generalizing dst with
  | nil => simp
  | cons b bs ih =>
    rw [List.foldl_cons, ih, escapeByte_eq_spec, List.flatMap_cons, List.append_assoc]

theorem readableLoop_true (b : Bytes) (ls : List Label) :
    readableLoop true b ls = b ++ ls.flatMap (fun l => 46 :: l.flatMap specEscape) := by
  induction ls generalizing b with
  | nil => simp [readableLoop]
  | cons l ls ih => simp [readableLoop, ih, appendEscapedLabel_eq]

theorem joinDots_cons (x : Bytes) (xs : List Bytes) :
    joinDots (x :: xs) = x ++ xs.flatMap (fun y => 46 :: y) := by
  induction xs generalizing x with
  | nil => simp [joinDots]
  | cons y ys ih => simp [joinDots, ih]

theorem readableLoop_false (ls : List Label) (hne : ls ≠ []) :
    readableLoop false [] ls = joinDots (ls.map (fun l => l.flatMap specEscape)) := by
  cases ls with
  | nil => exact absurd rfl hne
  | cons l ls =>
    simp [readableLoop, readableLoop_true, appendEscapedLabel_eq, joinDots_cons, List.flatMap_map]

/-- `ToReadable` on a well-formed name is the text form of the property. -/
theorem toReadable_encode (ls : List Label) (hg : GoodLabels ls) (hw : wireLen ls ≤ 254) :
    toReadable (encode ls) = some (specText ls) := by
  unfold toReadable specText
  cases ls with
  | nil => simp [encode]
  | cons l rest =>
    have hlen : ((encode (l :: rest)).length == 0) = false := by simp [encode]
    simp only [hlen, Bool.false_eq_true, ↓reduceIte, scan_encode _ hg hw, Option.map_some]
    rw [readableLoop_false _ (by simp)]
    simp

/-! ### the escape is uniquely decodable -/

/-- reads one escaped octet. -/
def decode1 : Bytes → Option (UInt8 × Bytes)
  | [] => none
  | c :: rest =>
    if c = 92 then
      match rest with
      | [] => none
      | d :: rest' =>
        if d = 46 ∨ d = 92 then some (d, rest')
        else match rest' with
          | e :: f :: r =>
            some (UInt8.ofNat ((d.toNat - 48) * 100 + (e.toNat - 48) * 10 + (f.toNat - 48)), r)
          | _ => none
    else some (c, rest)

theorem decode1_append (c : Bytes) (b : UInt8) (r x : Bytes) (h : decode1 c = some (b, r)) :
    decode1 (c ++ x) = some (b, r ++ x) := by
  cases c with
  | nil => simp [decode1] at h
  | cons c0 rest =>
    by_cases h0 : c0 = 92
    · cases rest with
      | nil => simp [decode1, h0] at h
      | cons d rest' =>
        by_cases hd : d = 46 ∨ d = 92
        · simp only [decode1, h0, hd, ↓reduceIte, Option.some.injEq, Prod.mk.injEq] at h
          obtain ⟨rfl, rfl⟩ := h
          simp [decode1, h0, hd]
        · cases rest' with
          | nil => simp [decode1, h0, hd] at h
          | cons e r1 =>
            cases r1 with
            | nil => simp [decode1, h0, hd] at h
            | cons f r2 =>
              simp only [decode1, h0, hd, ↓reduceIte, Option.some.injEq, Prod.mk.injEq] at h
              obtain ⟨rfl, rfl⟩ := h
              simp [decode1, h0, hd]
    · simp only [decode1, h0, ↓reduceIte, Option.some.injEq, Prod.mk.injEq] at h
      obtain ⟨rfl, rfl⟩ := h
      simp [decode1, h0]

set_option maxRecDepth 100000 in
theorem decode1_escape_all :
    ∀ n, n < 256 → decode1 (specEscape (UInt8.ofNat n)) = some (UInt8.ofNat n, []) := by decide

theorem decode1_escape (b : UInt8) (x : Bytes) : decode1 (specEscape b ++ x) = some (b, x) := by
  have h := decode1_escape_all b.toNat b.toNat_lt
  rw [UInt8.ofNat_toNat] at h
  simpa using decode1_append _ _ _ x h

set_option maxRecDepth 100000 in
theorem escape_head_all :
    ∀ n, n < 256 → (specEscape (UInt8.ofNat n)).head? ≠ none ∧
      (specEscape (UInt8.ofNat n)).head? ≠ some 46 := by decide

theorem escape_head (b : UInt8) : ∃ c rest, specEscape b = c :: rest ∧ c ≠ 46 := by
  have h := escape_head_all b.toNat b.toNat_lt
  rw [UInt8.ofNat_toNat] at h
  cases hs : specEscape b with
  | nil => simp [hs] at h
  | cons c rest =>
    refine ⟨c, rest, rfl, ?_⟩
    intro hc
    simp [hs, hc] at h

/-- a symbol of the text form: an octet of a label, or the dot between two labels. -/
def code : Option UInt8 → Bytes
  | none => [46]
  | some b => specEscape b

def decodeSym : Bytes → Option (Option UInt8 × Bytes)
  | [] => none
  | c :: rest =>
    if c = 46 then some (none, rest)
    else (decode1 (c :: rest)).map (fun p => (some p.1, p.2))

theorem decodeSym_code (s : Option UInt8) (x : Bytes) : decodeSym (code s ++ x) = some (s, x) := by
  cases s with
  | none => simp [code, decodeSym]
  | some b =>
    obtain ⟨c, rest, hs, hc⟩ := escape_head b
    have := decode1_escape b x
    simp only [code]
    rw [hs] at this ⊢
    simp only [List.cons_append] at this ⊢
    simp [decodeSym, hc, this]

theorem flatMap_code_injective (ts us : List (Option UInt8))
    (h : ts.flatMap code = us.flatMap code) : ts = us := by
  induction ts generalizing us with
  | nil =>
    cases us with
    | nil => rfl
    | cons u us =>
      have := decodeSym_code u (us.flatMap code)
      simp only [List.flatMap_nil, List.flatMap_cons] at h
      rw [← h] at this
      simp [decodeSym] at this
  | cons t ts ih =>
    cases us with
    | nil =>
      have := decodeSym_code t (ts.flatMap code)
      simp only [List.flatMap_nil, List.flatMap_cons] at h
      rw [h] at this
      simp [decodeSym] at this
    | cons u us =>
      simp only [List.flatMap_cons] at h
      have h1 := decodeSym_code t (ts.flatMap code)
      have h2 := decodeSym_code u (us.flatMap code)
      rw [h, h2] at h1
      simp only [Option.some.injEq, Prod.mk.injEq] at h1
      rw [h1.1, ih us h1.2.symm]

/-- the symbols of a name. -/
def symsOf : List Label → List (Option UInt8)
  | [] => []
  | [l] => l.map some
  | l :: l' :: rest => l.map some ++ none :: symsOf (l' :: rest)

theorem flatMap_code_symsOf (ls : List Label) :
    (symsOf ls).flatMap code = joinDots (ls.map (fun l => l.flatMap specEscape)) := by
  induction ls with
  | nil => rfl
  | cons l rest ih =>
    cases rest with
    | nil => simp [symsOf, joinDots, List.flatMap_map, code]
    | cons l' rest' =>
      simp only [symsOf, List.flatMap_append, List.flatMap_cons, List.map_cons, joinDots] at ih ⊢
      rw [ih]
      simp [List.flatMap_map, code]

/-- `X` is the end, or starts with a separator. -/
def SepOrEnd (X : List (Option UInt8)) : Prop := X = [] ∨ ∃ t, X = none :: t

theorem map_some_append_inj (l l' : Label) (X Y : List (Option UInt8)) (hX : SepOrEnd X)
    (hY : SepOrEnd Y) (h : l.map some ++ X = l'.map some ++ Y) : l = l' ∧ X = Y := by
  induction l generalizing l' with
  | nil =>
    cases l' with
    | nil => exact ⟨rfl, by simpa using h⟩
    | cons c l'' =>
      rcases hX with rfl | ⟨t, rfl⟩ <;> simp at h
  | cons c l ih =>
    cases l' with
    | nil =>
      rcases hY with rfl | ⟨t, rfl⟩ <;> simp at h
    | cons c' l'' =>
      simp only [List.map_cons, List.cons_append, List.cons.injEq, Option.some.injEq] at h
      obtain ⟨rfl, h⟩ := h
      obtain ⟨rfl, hxy⟩ := ih l'' h
      exact ⟨rfl, hxy⟩

theorem symsOf_injective (a b : List Label) (ha : GoodLabels a) (hb : GoodLabels b)
    (h : symsOf a = symsOf b) : a = b := by
  induction a generalizing b with
  | nil =>
    cases b with
    | nil => rfl
    | cons l rest =>
      have hl := (hb.head).1
      cases rest with
      | nil =>
        simp only [symsOf] at h
        have := congrArg List.length h
        simp only [List.length_map, List.length_nil] at this; omega
      | cons l' rest' =>
        simp only [symsOf] at h
        have := congrArg List.length h
        simp at this
  | cons l rest ih =>
    have hl := (ha.head).1
    cases b with
    | nil =>
      cases rest with
      | nil =>
        simp only [symsOf] at h
        have := congrArg List.length h
        simp only [List.length_map, List.length_nil] at this; omega
      | cons l' rest' =>
        simp only [symsOf] at h
        have := congrArg List.length h
        simp at this
    | cons m mrest =>
      cases rest with
      | nil =>
        cases mrest with
        | nil =>
          simp only [symsOf] at h
          have := map_some_append_inj l m [] [] (Or.inl rfl) (Or.inl rfl) (by simpa using h)
          rw [this.1]
        | cons m' mrest' =>
          simp only [symsOf] at h
          have := map_some_append_inj l m [] _ (Or.inl rfl) (Or.inr ⟨_, rfl⟩) (by simpa using h)
          simp at this
      | cons l' rest' =>
        cases mrest with
        | nil =>
          simp only [symsOf] at h
          have := map_some_append_inj l m _ [] (Or.inr ⟨_, rfl⟩) (Or.inl rfl) (by simpa using h)
          simp at this
        | cons m' mrest' =>
          simp only [symsOf] at h
          have := map_some_append_inj l m _ _ (Or.inr ⟨_, rfl⟩) (Or.inr ⟨_, rfl⟩) h
          obtain ⟨rfl, h2⟩ := this
          simp only [List.cons.injEq, true_and] at h2
          rw [ih _ ha.tail hb.tail h2]

/-- different well-formed names have different text forms (the root included). -/
theorem specText_injective (a b : List Label) (ha : GoodLabels a) (hb : GoodLabels b)
    (h : specText a = specText b) : a = b := by
  have key : ∀ ls : List Label, GoodLabels ls → ls ≠ [] → specText ls ≠ [46] := by
    intro ls hg hne htext
    simp only [specText, hne, ↓reduceIte] at htext
    rw [← flatMap_code_symsOf, show ([46] : Bytes) = [none].flatMap code from rfl] at htext
    have hs := flatMap_code_injective _ _ htext
    cases ls with
    | nil => exact hne rfl
    | cons l rest =>
      have hl := (hg.head).1
      cases rest with
      | nil =>
        cases l with
        | nil => simp at hl
        | cons c l' => simp [symsOf] at hs
      | cons l' rest' =>
        cases l with
        | nil => simp at hl
        | cons c l'' => simp [symsOf] at hs
  by_cases hane : a = []
  · subst hane
    by_cases hbne : b = []
    · exact hbne.symm
    · exact absurd h.symm (by simpa [specText] using key b hb hbne)
  · by_cases hbne : b = []
    · subst hbne
      exact absurd h (by simpa [specText] using key a ha hane)
    · simp only [specText, hane, hbne, ↓reduceIte] at h
      rw [← flatMap_code_symsOf, ← flatMap_code_symsOf] at h
      exact symsOf_injective a b ha hb (flatMap_code_injective _ _ h)

end MosVerif.DomainSet
