/-
  Tie by translation (C03): the "not implemented" predicate of `router.handleReqMsg` (app/router/router.go), the
  size floor of `newEDNS0` (app/router/utils.go) and the client-size computation of the UDP listener
  (app/router/server_udp.go `handleReq`: OPT class, floor 512, cap `maxUdpPayloadSize`) are translated mechanically
  from the current Go source (`Generated/Translated.lean`); the model's `Router.handle`, `Router.newEDNS0` and
  `Listeners.udpClientSize` are proved to compute exactly the translated fragments, for all arguments.
-/
import MosVerif.Generated.Translated
import MosVerif.Model.Router
import MosVerif.Model.Listeners
namespace MosVerif.Router
open MosVerif MosVerif.Wire

theorem id_pure_c03 {α : Type} (x : α) : (pure x : Id α) = x := rfl

/-- normalise a translated fragment: unfold the `do` block, split its `if`s, Bool equality as `↔`, then
    simplification and linear arithmetic -/
local macro "tie_tac" : tactic => `(tactic| (
  (try simp only [Id.run, id_pure_c03])
  <;> (try (repeat' split))
  <;> (try (rw [Bool.eq_iff_iff]))
  <;> (try simp_all)
  <;> (try omega)))

theorem c03_notImpl_eq (qr rd : Bool) (op nq : Nat) :
    Translated.c03_notImpl qr rd op nq = (qr || !rd || op != 0 || nq != 1) := by
  unfold Translated.c03_notImpl
  have hb : ∀ a b : Nat, (a == b) = decide (a = b) := fun a b => by by_cases h : a = b <;> simp [h]
  cases qr <;> cases rd <;> simp only [bne, hb] <;> tie_tac

theorem c03_edns0Size_eq (size : Nat) : Translated.c03_edns0Size size = if size < 512 then 512 else size := by
  unfold Translated.c03_edns0Size
  tie_tac

theorem c03_udpClientSize_eq (optHdr : Nat) (opt : Bool) (size : Nat) :
    Translated.c03_udpClientSize optHdr opt size = Nat.min (if opt ∧ size ≥ 512 then size else 512) 65507 := by
  unfold Translated.c03_udpClientSize
  cases opt <;> simp only [Nat.min_def] <;> tie_tac

/-- the predicate `handle` branches on is the translated `notImpl := hdr.Response || !hdr.RecursionDesired ||
    hdr.OpCode != dnsmsg.OpCode(0) || len(m.Questions) != 1` -/
theorem notImpl_translated (m : Msg) :
    (m.hdr.response || !m.hdr.rd || m.hdr.opcode != 0 || m.questions.length != 1) =
      Translated.c03_notImpl m.hdr.response m.hdr.rd m.hdr.opcode m.questions.length := by
  rw [c03_notImpl_eq]

/-- `handle` is the function that branches on the translated predicate -/
theorem handle_translated (env : Env) (m : Msg) :
    handle env m =
      let notImpl := Translated.c03_notImpl m.hdr.response m.hdr.rd m.hdr.opcode m.questions.length
      let (resp, idx, fw) :=
        if notImpl then (makeEmptyRespM m rcodeNotImp, 0, [])
        else
          match m.questions with
          | q0 :: _ =>
            let q : Question := { q0 with name := lowerName q0.name }
            let (resp, idx, fw) := handleReq env q
            let clientEDNS0 := queryHasOptAny m
            let resp := if clientEDNS0 then addOrReplaceOpt resp else removeEDNS0 resp
            (resp, idx, fw)
          | [] => (makeEmptyRespM m rcodeNotImp, 0, [])
      let resp := { resp with hdr := { resp.hdr with id := m.hdr.id, response := true, opcode := m.hdr.opcode, ra := true, rd := m.hdr.rd } }
      ⟨resp, idx, fw⟩ := by
  rw [← notImpl_translated]
  rfl

/-- `newEDNS0`: the class of the OPT record is the translated `if udpSize < 512 { udpSize = 512 }` -/
theorem newEDNS0_translated (size : Nat) (data : Bytes) :
    newEDNS0 size data = ⟨[], typeOPT, Translated.c03_edns0Size size, 0, .raw data⟩ := by
  rw [c03_edns0Size_eq]
  rfl

/-- the UDP listener's client limit is the translated statements `clientUdpSize := 0` … `if clientUdpSize >
    maxUdpPayloadSize { clientUdpSize = maxUdpPayloadSize }` (`optHdr`: whatever `queryOpt(m)` returned) -/
theorem udpClientSize_translated (optHdr : Nat) (opt : Bool) (size : Nat) :
    Listeners.udpClientSize opt size = Translated.c03_udpClientSize optHdr opt size := by
  rw [c03_udpClientSize_eq]
  rfl

end MosVerif.Router
