/-
  C08 — the executable specification of timed histories (`specHist`, Model/Ttl.lean) accepts the model's own
  observations: provenance invariant of the memory model along a history of harness events.
-/
import MosVerif.Lemmas.TtlHist
namespace MosVerif.Ttl

/-- a positive, cacheable Store event of `key` (what `livePositiveBefore` looks for, without the time test) -/
def PosOn (ev : Ev) (k : Nat) : Bool :=
  ev.kind == 0 && ev.key == k &&
  match ev.up with
  | .reply m => m.rcode == 0 && !m.tc
  | .err => false

theorem livePositive_posOn (cfgMax : Int) (evs : List Ev) (n key t : Nat)
    (h : livePositiveBefore cfgMax evs n key t = true) : ∃ ev ∈ evs.take n, PosOn ev key = true := by
  unfold livePositiveBefore at h
  rw [List.any_eq_true] at h
  obtain ⟨ev, hmem, hp⟩ := h
  refine ⟨ev, hmem, ?_⟩
  unfold PosOn
  simp only [Bool.and_eq_true] at hp ⊢
  refine ⟨hp.1, ?_⟩
  cases hu : ev.up with
  | err => rw [hu] at hp; simp at hp
  | reply m =>
    rw [hu] at hp
    simp only [Bool.and_eq_true] at hp ⊢
    exact hp.2.1

/-- sortedness gives the order of planned times by position -/
theorem sorted_head_le (a : Ev) (l : List Ev) (h : sortedEvs (a :: l) = true) : ∀ b ∈ l, a.t ≤ b.t := by
  induction l generalizing a with
  | nil => intro b hb; cases hb
  | cons x xs ih =>
    intro b hb
    simp only [sortedEvs, Bool.and_eq_true, decide_eq_true_eq] at h
    cases hb with
    | head => exact h.1
    | tail _ hb' =>
      have := ih x h.2 b hb'
      omega

theorem sorted_tail (a : Ev) (l : List Ev) (h : sortedEvs (a :: l) = true) : sortedEvs l = true := by
  cases l with
  | nil => rfl
  | cons x xs => simp only [sortedEvs, Bool.and_eq_true] at h; exact h.2

theorem sorted_get (l : List Ev) (h : sortedEvs l = true) :
    ∀ (i j : Nat) (a b : Ev), i ≤ j → l[i]? = some a → l[j]? = some b → a.t ≤ b.t := by
  induction l with
  | nil => intro i j a b _ ha; simp at ha
  | cons x xs ih =>
    intro i j a b hij ha hb
    cases i with
    | zero =>
      simp at ha; subst ha
      cases j with
      | zero => simp at hb; subst hb; exact Nat.le_refl _
      | succ j =>
        simp at hb
        exact sorted_head_le _ xs h b (List.mem_of_getElem? hb)
    | succ i =>
      cases j with
      | zero => omega
      | succ j =>
        simp at ha hb
        exact ih (sorted_tail x xs h) i j a b (by omega) ha hb

/-! ### provenance invariant -/

/-- the cache configuration of a harness history -/
def histCfg (cfgMax : Int) : Cfg := ⟨true, initMaxTtl cfgMax⟩

abbrev histOff : Nat := 500 * msNs

/-- where a node comes from: a storing event among the first `n`, of the same key, at that event's time; an
    error response was stored only when no positive Store of the key had happened before it -/
structure Prov (evs : List Ev) (n k : Nat) (e : Entry) : Prop where
  idle : e.id ≤ n
  src : ∃ ev, evMsg evs e.id = some (ev, e.msg) ∧ ev.key = k ∧ e.stored = ev.t * msNs
  neg : e.msg.rcode ≠ 0 → ∀ ev ∈ evs.take (e.id - 1), PosOn ev k = false

structure HInv (cfgMax : Int) (evs : List Ev) (n : Nat) (mem : Mem) : Prop where
  inv : Inv (histCfg cfgMax) histOff mem
  prov : ∀ k e, mem k = some e → Prov evs n k e
  pos : ∀ ev ∈ evs.take n, ∀ k, PosOn ev k = true → mem k ≠ none

theorem mem_take_succ (evs : List Ev) (n : Nat) (ev x : Ev) (hn : evs[n]? = some ev)
    (hx : x ∈ evs.take (n + 1)) : x ∈ evs.take n ∨ x = ev := by
  rw [List.take_add_one, hn] at hx
  simp at hx
  exact hx

theorem hinv_same (cfgMax : Int) (evs : List Ev) (n : Nat) (mem : Mem) (ev : Ev) (h : HInv cfgMax evs n mem)
    (hn : evs[n]? = some ev) (hp : ∀ k, PosOn ev k = false) : HInv cfgMax evs (n + 1) mem := by
  refine ⟨h.inv, ?_, ?_⟩
  · intro k e he
    have := h.prov k e he
    exact ⟨Nat.le_succ_of_le this.idle, this.src, this.neg⟩
  · intro x hx k hk
    rcases mem_take_succ evs n ev x hn hx with h1 | h1
    · exact h.pos x h1 k hk
    · subst h1; rw [hp k] at hk; cases hk

theorem cacheStore_shape (clock : Nat → Nat) (cfg : Cfg) (mem : Mem) (k : Nat) (m : Msg) (now delay id : Nat)
    (hb : cfg.hasBackend = true) :
    (m.tc = true → cacheStore clock cfg mem k (some m) now delay id = mem) ∧
    (m.tc = false → m.rcode ≠ 0 → (∃ e0, mem k = some e0) → cacheStore clock cfg mem k (some m) now delay id = mem) ∧
    (m.tc = false → (m.rcode = 0 ∨ mem k = none) →
      ∃ e', cacheStore clock cfg mem k (some m) now delay id = mem.set k e' ∧ e'.msg = m ∧ e'.id = id ∧ e'.stored = now) := by
  refine ⟨?_, ?_, ?_⟩
  · intro htc; simp [cacheStore, store, hb, htc]
  · intro htc hneg ⟨e0, he0⟩
    exact cacheStore_neg_present clock cfg mem k m now delay id e0 hneg he0
  · intro htc hor
    by_cases hz : m.rcode = 0
    · simp only [cacheStore, store, hb, htc, hz, otterSet]
      simp only [Bool.not_true, Bool.false_eq_true, if_false, bne_self_eq_false]
      exact ⟨_, rfl, rfl, rfl, rfl⟩
    · have hnone : mem k = none := by
        rcases hor with h | h
        · exact absurd h hz
        · exact h
      have hne : (m.rcode != 0) = true := by simpa using hz
      simp only [cacheStore, store, hb, htc, otterSet, hnone, hne]
      simp only [Bool.not_true, Bool.false_eq_true, if_false, if_true]
      exact ⟨_, rfl, rfl, rfl, rfl⟩

theorem sane_cap (cfgMax : Int) (h1 : -9223372037 < cfgMax) (h2 : cfgMax < 9223372037) :
    second ≤ initMaxTtl cfgMax := by
  rw [initMaxTtl_eq cfgMax h1 h2]; unfold defaultMaxCacheTtl second; split <;> omega

theorem hinv_store (cfgMax : Int) (h1 : -9223372037 < cfgMax) (h2 : cfgMax < 9223372037)
    (evs : List Ev) (n : Nat) (mem : Mem) (ev : Ev) (m : Msg) (h : HInv cfgMax evs n mem)
    (hn : evs[n]? = some ev) (hsrc : evMsg evs (n + 1) = some (ev, m))
    (hp : ∀ k, PosOn ev k = true → k = ev.key ∧ m.rcode = 0 ∧ m.tc = false) :
    HInv cfgMax evs (n + 1)
      (cacheStore histClock (histCfg cfgMax) mem ev.key (some m) (ev.t * msNs) 0 (n + 1)) := by
  have hcap : 0 < (histCfg cfgMax).maximumTtl := by
    have := sane_cap cfgMax h1 h2; unfold histCfg second at *; simp only; omega
  have hinv' := cacheStore_inv histClock histOff (histCfg cfgMax) mem ev.key (some m) (ev.t * msNs) 0 (n + 1)
    clockOK_hist hcap (by decide) h.inv
  obtain ⟨s1, s2, s3⟩ := cacheStore_shape histClock (histCfg cfgMax) mem ev.key m (ev.t * msNs) 0 (n + 1) rfl
  -- the cases in which nothing changes
  have hsame : cacheStore histClock (histCfg cfgMax) mem ev.key (some m) (ev.t * msNs) 0 (n + 1) = mem →
      (∀ k, PosOn ev k = false) →
      HInv cfgMax evs (n + 1) (cacheStore histClock (histCfg cfgMax) mem ev.key (some m) (ev.t * msNs) 0 (n + 1)) := by
    intro he hpf; rw [he]; exact hinv_same cfgMax evs n mem ev h hn hpf
  by_cases htc : m.tc = true
  · apply hsame (s1 htc)
    intro k
    cases hk : PosOn ev k with
    | false => rfl
    | true => have := (hp k hk).2.2; rw [htc] at this; cases this
  · have htc' : m.tc = false := by simpa using htc
    by_cases hkeep : m.rcode ≠ 0 ∧ ∃ e0, mem ev.key = some e0
    · apply hsame (s2 htc' hkeep.1 hkeep.2)
      intro k
      cases hk : PosOn ev k with
      | false => rfl
      | true => exact absurd (hp k hk).2.1 hkeep.1
    · have hor : m.rcode = 0 ∨ mem ev.key = none := by
        by_cases hz : m.rcode = 0
        · left; exact hz
        · right
          cases hm : mem ev.key with
          | none => rfl
          | some e0 => exact absurd ⟨hz, e0, hm⟩ hkeep
      obtain ⟨e', hset, hmsg, hid, hst⟩ := s3 htc' hor
      rw [hset] at hinv' ⊢
      refine ⟨hinv', ?_, ?_⟩
      · intro k e he
        unfold Mem.set at he
        by_cases hk : k = ev.key
        · simp only [hk, if_true, Option.some.injEq] at he
          subst he
          refine ⟨by omega, ⟨ev, by rw [hid, hmsg]; exact hsrc, hk.symm, hst⟩, ?_⟩
          intro hneg x hx
          rw [hid] at hx
          simp only [Nat.add_sub_cancel] at hx
          rw [hmsg] at hneg
          have hnone : mem ev.key = none := by
            rcases hor with hz | hnone
            · exact absurd hz hneg
            · exact hnone
          cases hpx : PosOn x k with
          | false => rfl
          | true =>
            have := h.pos x hx k hpx
            rw [hk] at this
            exact absurd hnone this
        · simp only [hk, if_false] at he
          have := h.prov k e he
          exact ⟨Nat.le_succ_of_le this.idle, this.src, this.neg⟩
      · intro x hx k hk
        unfold Mem.set
        by_cases hkk : k = ev.key
        · simp [hkk]
        · simp only [hkk, if_false]
          rcases mem_take_succ evs n ev x hn hx with hx1 | hx1
          · exact h.pos x hx1 k hk
          · subst hx1; exact absurd (hp k hk).1 hkk

/-! ### the checks of `specHit` on a hit of the model -/

theorem evMsg_some (evs : List Ev) (j : Nat) (ev : Ev) (m : Msg) (h : evMsg evs j = some (ev, m)) :
    j ≠ 0 ∧ evs[j - 1]? = some ev := by
  unfold evMsg at h
  by_cases hj : j = 0
  · simp [hj] at h
  · simp only [hj, if_false] at h
    cases he : evs[j - 1]? with
    | none => simp [he] at h
    | some e =>
      simp only [he] at h
      split at h
      · simp only [Option.some.injEq, Prod.mk.injEq] at h; exact ⟨hj, by rw [h.1]⟩
      · simp only [Option.some.injEq, Prod.mk.injEq] at h; exact ⟨hj, by rw [h.1]⟩
      · cases h

/-- with the harness' exact clock a hit happens less than one tick after expireTime -/
theorem hit_before_expiry_hist (cfg : Cfg) (e : Entry) (now : Nat) (he : EntryOK cfg histOff e)
    (hl : histClock now < e.expTick) : now < e.expire + 1000000000 := by
  have h2 := he.tick
  unfold histClock at hl
  have hm := Nat.mod_lt (now + 500 * msNs) (show 1000000000 > 0 by decide)
  have hd := Nat.div_add_mod (now + 500 * msNs) 1000000000
  have h4 : ((now + 500 * msNs) / 1000000000 + 1) * 1000000000 ≤ e.expTick * 1000000000 :=
    Nat.mul_le_mul_right _ (by omega)
  simp only [G, histOff] at h2
  generalize (now + 500 * msNs) / 1000000000 = q at *
  generalize (now + 500 * msNs) % 1000000000 = r at *
  generalize 500 * msNs = o at *
  omega

/-- no lifetime exceeds 2³²−1 seconds (the largest TTL) when the cap is at least a second -/
theorem storeTtl_le_u32 (m : Msg) (cap : Int) (hc : second ≤ cap) : storeTtl m cap ≤ 4294967295 * second := by
  rw [storeTtl_eq]
  have hb := baseTtl_bounds m.rcode (getMinimalTTL m).1.toNat (getMinimalTTL m).2
  have hcl := clampTtl_bounds _ cap hc hb.1
  have hu := (getMinimalTTL m).1.toNat_lt
  generalize baseTtl m.rcode (getMinimalTTL m).1.toNat (getMinimalTTL m).2 = B at hb hcl ⊢
  generalize clampTtl B cap = L at hcl ⊢
  generalize (getMinimalTTL m).1.toNat = u at hb hu
  obtain ⟨-, -, -, -, bno, bhas⟩ := hb
  obtain ⟨-, -, c3, c4⟩ := hcl
  unfold second at *
  cases hh : (getMinimalTTL m).2 with
  | false =>
    have := bno hh
    by_cases hB : 0 < B
    · have := c3 hB; omega
    · have := c4 (by omega); omega
  | true =>
    have := bhas hh
    by_cases hB : 0 < B
    · have := c3 hB; omega
    · have := c4 (by omega); omega

theorem mem_popOPT (l : List RR) : ∀ x ∈ popOPT l, x ∈ l := by
  induction l with
  | nil => intro x hx; simp [popOPT] at hx
  | cons rr rest ih =>
    intro x hx
    unfold popOPT at hx
    split at hx
    · cases hx with
      | head => simp
      | tail _ h => exact List.mem_cons_of_mem _ (ih x h)
    · split at hx
      · cases hl : rest.getLast? with
        | none => rw [hl] at hx; simp at hx
        | some l =>
          rw [hl] at hx
          simp only at hx
          cases hx with
          | head => exact List.mem_cons_of_mem _ (List.mem_of_getLast? hl)
          | tail _ h => exact List.mem_cons_of_mem _ (List.dropLast_subset _ h)
      · exact hx

/-- the order-insensitive check accepts any sub-collection of the aged records -/
theorem specServedAnyRRs_sub (d : UInt32) (el : Nat) (hel : el ≤ d.toNat) (l served : List RR)
    (hsub : ∀ x ∈ served, x ∈ l.map (subRR d)) : specServedAnyRRs el l served = true := by
  unfold specServedAnyRRs
  rw [List.all_eq_true]
  intro x hx
  have hx' : x ∈ served := by
    simp only [realRRs, List.mem_filter] at hx; exact hx.1
  have hreal : x.isOPT = false := by
    simp only [realRRs, List.mem_filter, Bool.not_eq_true'] at hx; exact hx.2
  obtain ⟨o, ho, hox⟩ := List.mem_map.1 (hsub x hx')
  rw [List.any_eq_true]
  have hoopt : o.isOPT = false := by rw [← subRR_isOPT d o, hox]; exact hreal
  have hotyp : o.typ ≠ typeOPT := by
    intro hc; rw [(isOPT_iff o).2 hc] at hoopt; cases hoopt
  refine ⟨o, by simp [realRRs, ho, hoopt], ?_⟩
  have hr := subRR_real d o hotyp
  rw [hox] at hr
  simp only [Bool.and_eq_true, beq_iff_eq, decide_eq_true_eq]
  refine ⟨hr.1.symm, ?_⟩
  rw [hr.2]; simp only [Nat.max_def]; split <;> split <;> omega

theorem specServedAny_sub (m : Msg) (d : UInt32) (el : Nat) (hel : el ≤ d.toNat) :
    specServedAny el m (removeEDNS0 (subtractTTL m d)) = true := by
  unfold specServedAny removeEDNS0 subtractTTL
  simp only [Bool.and_eq_true]
  refine ⟨⟨specServedAnyRRs_sub d el hel _ _ (fun x hx => hx), specServedAnyRRs_sub d el hel _ _ (fun x hx => hx)⟩,
    specServedAnyRRs_sub d el hel _ _ (fun x hx => mem_popOPT _ x hx)⟩

theorem specHit_ok (cfgMax : Int) (h1 : -9223372037 < cfgMax) (h2 : cfgMax < 9223372037)
    (evs : List Ev) (hsorted : sortedEvs evs = true) (n : Nat) (mem : Mem) (h : HInv cfgMax evs n mem)
    (ev : Ev) (hn : evs[n]? = some ev) (served : Msg) (e : Entry)
    (hg : cacheGet histClock mem ev.key (ev.t * msNs) = some (served, e)) :
    specHit cfgMax evs (n + 1) ev.key ev.t e.id (some (e.expire - e.stored)) served = true ∧
    specHit cfgMax evs (n + 1) ev.key ev.t e.id none (removeEDNS0 served) = true := by
  obtain ⟨hm, hl, hs⟩ := cacheGet_some _ _ _ _ _ _ hg
  have hok := h.inv ev.key e hm
  obtain ⟨hidle, ⟨ev0, hsrc, hkey, hst⟩, hneg⟩ := h.prov ev.key e hm
  obtain ⟨hj0, hev0⟩ := evMsg_some _ _ _ _ hsrc
  have hcap := sane_cap cfgMax h1 h2
  -- facts
  have f3 : ev0.t ≤ ev.t := sorted_get evs hsorted (e.id - 1) n ev0 ev (by omega) hev0 hn
  have hlife := hok.life
  simp only [histCfg] at hlife
  have hspec := storeTtl_le_spec e.msg cfgMax h1 h2
  have hu32 := storeTtl_le_u32 e.msg (initMaxTtl cfgMax) hcap
  have hpos := (storeTtl_pos e.msg (initMaxTtl cfgMax) (by unfold second at hcap; omega)).1
  have hexp := hit_before_expiry_hist _ e (ev.t * msNs) hok hl
  have f5 : specLifeOK e.msg cfgMax (e.expire - e.stored) = true := by
    unfold specLifeOK
    simp only [decide_eq_true_eq]
    omega
  have f6 : ev.t - ev0.t < specLifetime e.msg cfgMax * 1000 + 2000 + tolMs := by
    unfold tolMs
    rw [hst] at hlife
    simp only [msNs] at hexp hlife
    simp only [Nat.max_def] at hspec
    split at hspec <;> omega
  -- elapsed seconds, no uint32 wrap
  have hdelta : (elapsedDelta (ev.t * msNs - e.stored)).toNat = (ev.t - ev0.t) / 1000 := by
    unfold elapsedDelta
    rw [UInt32.toNat_ofNat', hst]
    have hq : (ev.t * msNs - ev0.t * msNs) / 1000000000 = (ev.t - ev0.t) / 1000 := by
      simp only [msNs]
      rw [← Nat.sub_mul]
      rw [show (1000000000 : Nat) = 1000000 * 1000 from rfl, ← Nat.div_div_eq_div_mul,
        Nat.mul_div_cancel _ (by decide : 0 < 1000000)]
    rw [hq]
    apply Nat.mod_eq_of_lt
    rw [hst] at hlife
    simp only [msNs] at hexp hlife
    unfold second at hu32
    omega
  have hel : (ev.t - ev0.t - tolMs) / 1000 ≤ (elapsedDelta (ev.t * msNs - e.stored)).toNat := by
    rw [hdelta]; exact Nat.div_le_div_right (Nat.sub_le _ _)
  have f8 : (e.msg.rcode == 0 || !livePositiveBefore cfgMax evs (e.id - 1) ev.key ev0.t) = true := by
    by_cases hz : e.msg.rcode = 0
    · simp [hz]
    · have hnp := hneg hz
      cases hlp : livePositiveBefore cfgMax evs (e.id - 1) ev.key ev0.t with
      | false => simp
      | true =>
        obtain ⟨x, hx, hpx⟩ := livePositive_posOn _ _ _ _ _ hlp
        rw [hnp x hx] at hpx; cases hpx
  have common : ∀ (life : Option Nat) (sv : Msg),
      (match life with | none => true | some l => specLifeOK e.msg cfgMax l) = true →
      (if life.isSome then specServed ((ev.t - ev0.t - tolMs) / 1000) e.msg sv
       else specServedAny ((ev.t - ev0.t - tolMs) / 1000) e.msg sv) = true →
      specHit cfgMax evs (n + 1) ev.key ev.t e.id life sv = true := by
    intro life sv hlf hsv
    unfold specHit
    rw [hsrc]
    simp only [Bool.and_eq_true, decide_eq_true_eq, beq_iff_eq, Bool.not_eq_true']
    exact ⟨⟨⟨⟨⟨⟨⟨by omega, hkey⟩, f3⟩, hok.notTC⟩, hlf⟩, f6⟩, hsv⟩, f8⟩
  constructor
  · apply common (some (e.expire - e.stored)) served f5
    simp only [Option.isSome_some, if_true]
    rw [hs]; exact specServed_sub _ _ _ hel
  · apply common none (removeEDNS0 served) rfl
    simp only [Option.isSome_none, Bool.false_eq_true, if_false]
    rw [hs]; exact specServedAny_sub _ _ _ hel

/-! ### one event, then a whole history -/

theorem posOn_kind (ev : Ev) (k : Nat) (h : PosOn ev k = true) : ev.kind = 0 := by
  unfold PosOn at h
  simp only [Bool.and_eq_true, beq_iff_eq] at h
  exact h.1.1

theorem cacheStore_none (clock : Nat → Nat) (cfg : Cfg) (mem : Mem) (k now delay id : Nat) :
    cacheStore clock cfg mem k none now delay id = mem := by
  cases hb : cfg.hasBackend <;> simp [cacheStore, store, hb]

theorem step_spec (cfgMax : Int) (h1 : -9223372037 < cfgMax) (h2 : cfgMax < 9223372037)
    (evs : List Ev) (hsorted : sortedEvs evs = true) (n : Nat) (mem : Mem) (h : HInv cfgMax evs n mem)
    (ev : Ev) (hn : evs[n]? = some ev) (hkind : ev.kind ≤ 3) :
    HInv cfgMax evs (n + 1) (step histClock (histCfg cfgMax) mem (n + 1) ev.toStep).1 ∧
    specObs cfgMax evs (n + 1) ev (step histClock (histCfg cfgMax) mem (n + 1) ev.toStep).2 = true := by
  have hsame : ∀ (hp : ∀ k, PosOn ev k = false), HInv cfgMax evs (n + 1) mem :=
    fun hp => hinv_same cfgMax evs n mem ev h hn hp
  have hnotpos : ev.kind ≠ 0 → ∀ k, PosOn ev k = false := by
    intro hk k
    cases hp : PosOn ev k with
    | false => rfl
    | true => exact absurd (posOn_kind ev k hp) hk
  have hk4 : ev.kind = 0 ∨ ev.kind = 1 ∨ ev.kind = 2 ∨ ev.kind = 3 := by omega
  rcases hk4 with hk | hk | hk | hk
  · -- s: Store
    cases hup : ev.up with
    | err =>
      have hstep : ev.toStep = .store ev.key none (ev.t * msNs) 0 := by simp [Ev.toStep, hk, hup]
      rw [hstep]
      simp only [step, cacheStore_none]
      refine ⟨hsame ?_, by simp [specObs, hk]⟩
      intro k; simp [PosOn, hup]
    | reply m =>
      have hstep : ev.toStep = .store ev.key (some m) (ev.t * msNs) 0 := by simp [Ev.toStep, hk, hup]
      rw [hstep]
      simp only [step]
      refine ⟨?_, by simp [specObs, hk]⟩
      apply hinv_store cfgMax h1 h2 evs n mem ev m h hn
      · simp [evMsg, hn, hk, hup]
      · intro k hp
        unfold PosOn at hp
        rw [hup] at hp
        simp only [Bool.and_eq_true, beq_iff_eq, Bool.not_eq_true'] at hp
        exact ⟨hp.1.2.symm, hp.2.1, hp.2.2⟩
  · -- n: Store(nil)
    have hstep : ev.toStep = .store ev.key none (ev.t * msNs) 0 := by simp [Ev.toStep, hk]
    rw [hstep]
    simp only [step, cacheStore_none]
    exact ⟨hsame (hnotpos (by omega)), by simp [specObs, hk]⟩
  · -- g: Get
    have hstep : ev.toStep = .get ev.key (ev.t * msNs) := by simp [Ev.toStep, hk]
    rw [hstep]
    cases hg : cacheGet histClock mem ev.key (ev.t * msNs) with
    | none =>
      simp only [step, hg]
      exact ⟨hsame (hnotpos (by omega)), by simp [specObs, hk]⟩
    | some p =>
      obtain ⟨served, e⟩ := p
      simp only [step, hg]
      refine ⟨hsame (hnotpos (by omega)), ?_⟩
      have := (specHit_ok cfgMax h1 h2 evs hsorted n mem h ev hn served e hg).1
      simp [specObs, hk, this]
  · -- q: client query
    have hstep : ev.toStep = .query ev.key ev.up (ev.t * msNs) 0 := by simp [Ev.toStep, hk]
    rw [hstep]
    cases hg : cacheGet histClock mem ev.key (ev.t * msNs) with
    | some p =>
      obtain ⟨served, e⟩ := p
      simp only [step, handleQuery, hg]
      refine ⟨hsame (hnotpos (by omega)), ?_⟩
      have := (specHit_ok cfgMax h1 h2 evs hsorted n mem h ev hn served e hg).2
      simp [specObs, hk, this]
    | none =>
      cases hup : ev.up with
      | err =>
        simp only [step, handleQuery, hg]
        exact ⟨hsame (hnotpos (by omega)), by simp [specObs, hk]⟩
      | reply m =>
        simp only [step, handleQuery, hg]
        refine ⟨?_, by simp [specObs, hk]⟩
        apply hinv_store cfgMax h1 h2 evs n mem ev (removeEDNS0 m) h hn
        · simp [evMsg, hn, hk, hup]
        · intro k hp
          exact absurd (posOn_kind ev k hp) (by omega)

theorem run_spec (cfgMax : Int) (h1 : -9223372037 < cfgMax) (h2 : cfgMax < 9223372037)
    (evs : List Ev) (hsorted : sortedEvs evs = true) (hkinds : ∀ e ∈ evs, e.kind ≤ 3) (suf : List Ev) :
    ∀ (n : Nat) (mem : Mem), HInv cfgMax evs n mem → (∀ i, suf[i]? = evs[n + i]?) →
      specHistFrom cfgMax evs (n + 1) suf
        (runFrom histClock (histCfg cfgMax) mem (n + 1) (suf.map Ev.toStep)).2 = true := by
  induction suf with
  | nil => intro n mem _ _; rfl
  | cons ev rest ih =>
    intro n mem h hal
    have hn : evs[n]? = some ev := by have := hal 0; simpa using this.symm
    have hkind := hkinds ev (List.mem_of_getElem? hn)
    obtain ⟨hinv', hobs⟩ := step_spec cfgMax h1 h2 evs hsorted n mem h ev hn hkind
    have hrest := ih (n + 1) _ hinv' (by
      intro i
      have := hal (i + 1)
      simp only [List.getElem?_cons_succ] at this
      rw [this]; congr 1; omega)
    simp only [List.map_cons, runFrom, specHistFrom, Bool.and_eq_true]
    exact ⟨hobs, hrest⟩

theorem hinv_start (cfgMax : Int) (evs : List Ev) : HInv cfgMax evs 0 Mem.empty := by
  refine ⟨inv_empty _ _, ?_, ?_⟩
  · intro k e he; simp [Mem.empty] at he
  · intro ev hev; simp at hev

end MosVerif.Ttl
