/-
  C08 — the executable specification of timed histories (`specHist`, Model/Ttl.lean) accepts the model's own
  observations: provenance invariant of the memory model along a history of harness events.
-/
import MosVerif.Lemmas.TtlHist
namespace MosVerif.Ttl

/-- sortedness gives the order of planned times by position -/
theorem sorted_head_le (a : Ev) (l : List Ev) (h : sortedEvs (a :: l) = true) : ∀ b ∈ l, a.t ≤ b.t := by
  induction l generalizing a with
  | nil => intro b hb; cases hb
  | cons x xs ih =>
    intro b hb
    simp only [sortedEvs, Bool.and_eq_true, decide_eq_true_eq] at h
    cases hb with
    | head => exact h.1
    | tail _ hb' =>
      have := ih x h.2 b hb'
      omega

theorem sorted_tail (a : Ev) (l : List Ev) (h : sortedEvs (a :: l) = true) : sortedEvs l = true := by
  cases l with
  | nil => rfl
  | cons x xs => simp only [sortedEvs, Bool.and_eq_true] at h; exact h.2

theorem sorted_get (l : List Ev) (h : sortedEvs l = true) :
    ∀ (i j : Nat) (a b : Ev), i ≤ j → l[i]? = some a → l[j]? = some b → a.t ≤ b.t := by
  induction l with
  | nil => intro i j a b _ ha; simp at ha
  | cons x xs ih =>
    intro i j a b hij ha hb
    cases i with
    | zero =>
      simp at ha; subst ha
      cases j with
      | zero => simp at hb; subst hb; exact Nat.le_refl _
      | succ j =>
        simp at hb
        exact sorted_head_le _ xs h b (List.mem_of_getElem? hb)
    | succ i =>
      cases j with
      | zero => omega
      | succ j =>
        simp at ha hb
        exact ih (sorted_tail x xs h) i j a b (by omega) ha hb

/-! ### the last positive Store of a key -/

theorem lastPos_snoc (l : List Ev) (x : Ev) (k : Nat) :
    lastPos (l ++ [x]) k = if posStore x k then some x else lastPos l k := by
  simp [lastPos, List.foldl_append]

theorem lastPos_fold (l : List Ev) (k : Nat) (ev : Ev) : ∀ acc,
    l.foldl (fun acc e => if posStore e k then some e else acc) acc = some ev →
    (ev ∈ l ∧ posStore ev k = true) ∨ acc = some ev := by
  induction l with
  | nil => intro acc h; right; simpa using h
  | cons x xs ih =>
    intro acc h
    simp only [List.foldl_cons] at h
    rcases ih _ h with h' | h'
    · left; exact ⟨by simp [h'.1], h'.2⟩
    · by_cases hp : posStore x k = true
      · simp only [hp, if_true, Option.some.injEq] at h'
        subst h'; left; exact ⟨by simp, hp⟩
      · simp only [hp, if_false] at h'
        right; exact h'

theorem lastPos_some (l : List Ev) (k : Nat) (ev : Ev) (h : lastPos l k = some ev) :
    ev ∈ l ∧ posStore ev k = true := by
  rcases lastPos_fold l k ev none h with h' | h'
  · exact h'
  · cases h'

theorem take_succ_snoc (evs : List Ev) (n : Nat) (ev : Ev) (hn : evs[n]? = some ev) :
    evs.take (n + 1) = evs.take n ++ [ev] := by
  rw [List.take_add_one, hn]; rfl

theorem mem_take_succ (evs : List Ev) (n : Nat) (ev x : Ev) (hn : evs[n]? = some ev)
    (hx : x ∈ evs.take (n + 1)) : x ∈ evs.take n ∨ x = ev := by
  rw [take_succ_snoc evs n ev hn] at hx
  simpa using hx

theorem mem_take_get (evs : List Ev) (n : Nat) (x : Ev) (hx : x ∈ evs.take n) : ∃ i, i < n ∧ evs[i]? = some x := by
  obtain ⟨i, hi, he⟩ := List.getElem_of_mem hx
  have hlen := List.length_take (i := n) (l := evs)
  have hin : i < n := by omega
  have hil : i < evs.length := by omega
  refine ⟨i, hin, ?_⟩
  rw [List.getElem_take] at he
  rw [List.getElem?_eq_getElem hil, he]

theorem posStore_up (ev : Ev) (k : Nat) (h : posStore ev k = true) :
    ev.kind = 0 ∧ ev.key = k ∧ ∃ m, ev.up = .reply m ∧ m.rcode = 0 ∧ m.tc = false := by
  unfold posStore at h
  simp only [Bool.and_eq_true, beq_iff_eq] at h
  cases hu : ev.up with
  | err => rw [hu] at h; simp at h
  | reply m =>
    rw [hu] at h
    simp only [Bool.and_eq_true, beq_iff_eq, Bool.not_eq_true'] at h
    exact ⟨h.1.1, h.1.2, m, rfl, h.2.1, h.2.2⟩

/-! ### lifetimes of positive answers from below -/

/-- the cache configuration of a harness history -/
def histCfg (cfgMax : Int) : Cfg := ⟨true, initMaxTtl cfgMax⟩

abbrev histOff : Nat := 500 * msNs

theorem sane_cap (cfgMax : Int) (h1 : -9223372037 < cfgMax) (h2 : cfgMax < 9223372037) :
    second ≤ initMaxTtl cfgMax := (initMaxTtl_bounds cfgMax h1 h2).1

/-- a positive answer lives at least as long as the property text says (or ten years) -/
theorem storeTtl_ge_spec_pos (m : Msg) (cfgMax : Int) (h1 : -9223372037 < cfgMax) (h2 : cfgMax < 9223372037)
    (hpos : m.rcode = 0) :
    ((Nat.min (specLifetime m cfgMax) tenYears : Nat) : Int) * 1000000000 ≤ storeTtl m (initMaxTtl cfgMax) ∧
    storeTtl m (initMaxTtl cfgMax) ≤ 315360000 * second := by
  have hcapv := initMaxTtl_eq cfgMax h1 h2
  obtain ⟨hc1, hc2, -, -, -, -⟩ := initMaxTtl_bounds cfgMax h1 h2
  have hrange := storeTtl_pos m (initMaxTtl cfgMax) (by unfold second at hc1; omega)
  refine ⟨?_, by omega⟩
  rw [storeTtl_eq]
  unfold specLifetime specCap tenYears
  rw [hpos]
  simp only [show ((0 : Nat) = 3) = False from by simp, show ((0 : Nat) = 2) = False from by simp, if_false, ne_eq,
    not_true_eq_false]
  rcases getMinimalTTL_eq m with ⟨hs, hg⟩ | ⟨t, hs, hg2, hg1⟩
  · rw [hs, hg]
    simp only [Option.isNone_none, if_true, baseTtl, Bool.false_eq_true, if_false]
    rw [hcapv]
    unfold clampTtl defaultMaxCacheTtl maxCacheTtlLimit second
    simp only [Nat.min_def]
    repeat' split
    all_goals omega
  · rw [hs]
    have hb : baseTtl 0 (getMinimalTTL m).1.toNat (getMinimalTTL m).2 = (t : Int) * second := by
      simp [baseTtl, hg2, hg1]
    rw [hb, hcapv]
    unfold clampTtl defaultMaxCacheTtl maxCacheTtlLimit second
    simp only [Option.isNone_some, Bool.false_eq_true, if_false, Nat.min_def]
    repeat' split
    all_goals omega

/-- otter's getTTL of a lifetime of at most ten years: no uint32 truncation, at least the lifetime -/
theorem otterTtlTicks_ge (x : Int) (h0 : 0 < x) (h1 : x ≤ 315360000 * second) :
    x ≤ (otterTtlTicks x : Int) * 1000000000 ∧ otterTtlTicks x ≤ 315360000 := by
  unfold otterTtlTicks second u32 at *
  have hn : (0 : Int) ≤ x + 1000000000 - 1 := by omega
  rw [Int.tdiv_eq_ediv_of_nonneg hn]
  have hq : (x + 1000000000 - 1) / 1000000000 ≤ 315360000 := by omega
  have hq0 : 0 ≤ (x + 1000000000 - 1) / 1000000000 := by omega
  rw [Int.emod_eq_of_lt hq0 (by omega)]
  omega

/-- the cache-clock tick at which the node written by a positive Store event expires -/
def expOf (cfgMax : Int) (ev : Ev) : Nat :=
  match ev.up with
  | .reply m => (histClock (ev.t * msNs) + otterTtlTicks (storeTtl m (initMaxTtl cfgMax))) % u32
  | .err => 0

/-- if the last positive Store is "certainly alive" at `tMs` in the specification's sense, its node has not
    expired on the cache clock -/
theorem alive_of_spec (cfgMax : Int) (h1 : -9223372037 < cfgMax) (h2 : cfgMax < 9223372037)
    (ev : Ev) (m : Msg) (tMs : Nat) (hu : ev.up = .reply m) (hpos : m.rcode = 0) (hshort : ev.t ≤ histLimitMs)
    (hlive : tMs + tolMs + 1000 < ev.t + Nat.min (specLifetime m cfgMax) tenYears * 1000) :
    histClock (tMs * msNs) < expOf cfgMax ev := by
  obtain ⟨hge, hle⟩ := storeTtl_ge_spec_pos m cfgMax h1 h2 hpos
  have hpos' := (storeTtl_pos m (initMaxTtl cfgMax) (by have := sane_cap cfgMax h1 h2; unfold second at this; omega)).1
  obtain ⟨hk1, hk2⟩ := otterTtlTicks_ge _ hpos' hle
  unfold expOf
  rw [hu]
  simp only
  unfold histClock msNs tolMs histLimitMs u32 at *
  generalize otterTtlTicks (storeTtl m (initMaxTtl cfgMax)) = ticks at *
  generalize storeTtl m (initMaxTtl cfgMax) = L at *
  generalize Nat.min (specLifetime m cfgMax) tenYears = S at *
  have hS : S ≤ ticks := by omega
  rw [Nat.mod_eq_of_lt (by omega)]
  omega

/-! ### provenance invariant -/

/-- where a node comes from: a storing event among the first `n`, of the same key, at that event's time, with
    otter's expiration computed from that time; an error response was stored only when the key's positive entry
    was not "certainly alive" -/
structure Prov (cfgMax : Int) (evs : List Ev) (n k : Nat) (e : Entry) : Prop where
  idle : e.id ≤ n
  src : ∃ ev, evMsg evs e.id = some (ev, e.msg) ∧ ev.key = k ∧ e.stored = ev.t * msNs ∧
    (e.msg.rcode ≠ 0 → livePositiveBefore cfgMax evs (e.id - 1) k ev.t = false)

structure HInv (cfgMax : Int) (evs : List Ev) (n : Nat) (mem : Mem) : Prop where
  inv : Inv (histCfg cfgMax) histOff mem
  prov : ∀ k e, mem k = some e → Prov cfgMax evs n k e
  /-- the node of the last positive Store of a key is in place, unless an event has already seen it expired -/
  last : ∀ k ev, lastPos (evs.take n) k = some ev →
    (∃ e, mem k = some e ∧ e.expTick = expOf cfgMax ev) ∨
    (∃ x ∈ evs.take n, expOf cfgMax ev ≤ histClock (x.t * msNs))

theorem hinv_same (cfgMax : Int) (evs : List Ev) (n : Nat) (mem : Mem) (ev : Ev) (h : HInv cfgMax evs n mem)
    (hn : evs[n]? = some ev) (hp : ∀ k, posStore ev k = false) : HInv cfgMax evs (n + 1) mem := by
  refine ⟨h.inv, ?_, ?_⟩
  · intro k e he
    have := h.prov k e he
    exact ⟨Nat.le_succ_of_le this.idle, this.src⟩
  · intro k ev0 hl
    rw [take_succ_snoc evs n ev hn, lastPos_snoc, hp k] at hl
    simp only [Bool.false_eq_true, if_false] at hl
    rcases h.last k ev0 hl with d1 | ⟨x, hx, hle⟩
    · left; exact d1
    · right; exact ⟨x, by rw [take_succ_snoc evs n ev hn]; simp [hx], hle⟩

theorem cacheStore_shape (clock : Nat → Nat) (cfg : Cfg) (mem : Mem) (k : Nat) (m : Msg) (now id : Nat)
    (hb : cfg.hasBackend = true) :
    (m.tc = true → cacheStore clock cfg mem k (some m) now 0 id = mem) ∧
    (m.tc = false → m.rcode ≠ 0 → (∃ e0, mem k = some e0 ∧ clock now < e0.expTick) →
      cacheStore clock cfg mem k (some m) now 0 id = mem) ∧
    (m.tc = false → (m.rcode = 0 ∨ mem k = none ∨ ∃ e0, mem k = some e0 ∧ e0.expTick ≤ clock now) →
      ∃ e', cacheStore clock cfg mem k (some m) now 0 id = mem.set k e' ∧ e'.msg = m ∧ e'.id = id ∧ e'.stored = now ∧
        e'.expTick = (clock now + otterTtlTicks (storeTtl m cfg.maximumTtl)) % u32) := by
  have hu : ∀ (L : Int), (now : Int) + L - (now : Int) = L := by intro L; omega
  refine ⟨?_, ?_, ?_⟩
  · intro htc; simp [cacheStore, store, hb, htc]
  · intro htc hneg ⟨e0, he0, hl⟩
    exact cacheStore_neg_present clock cfg mem k m now 0 id e0 hneg he0 (by simpa using hl)
  · intro htc hor
    by_cases hz : m.rcode = 0
    · simp only [cacheStore, store, hb, htc, hz, otterSet]
      simp only [Bool.not_true, Bool.false_eq_true, if_false, bne_self_eq_false, hu, Nat.add_zero]
      exact ⟨_, rfl, rfl, rfl, rfl, rfl⟩
    · have hne : (m.rcode != 0) = true := by simpa using hz
      rcases hor with h | h | ⟨e0, he0, hexp⟩
      · exact absurd h hz
      · simp only [cacheStore, store, hb, htc, otterSet, h, hne]
        simp only [Bool.not_true, Bool.false_eq_true, if_false, if_true, hu, Nat.add_zero]
        exact ⟨_, rfl, rfl, rfl, rfl, rfl⟩
      · simp only [cacheStore, store, hb, htc, otterSet, he0, hne]
        simp only [Bool.not_true, Bool.false_eq_true, if_false, if_true, hu, Nat.add_zero, hexp]
        exact ⟨_, rfl, rfl, rfl, rfl, rfl⟩

theorem histClock_mono (a b : Nat) (h : a ≤ b) : histClock (a * msNs) ≤ histClock (b * msNs) := by
  unfold histClock msNs
  apply Nat.div_le_div_right
  omega

theorem hinv_store (cfgMax : Int) (h1 : -9223372037 < cfgMax) (h2 : cfgMax < 9223372037)
    (evs : List Ev) (hsorted : sortedEvs evs = true) (hshort : shortEvs evs = true)
    (n : Nat) (mem : Mem) (ev : Ev) (m : Msg) (h : HInv cfgMax evs n mem)
    (hn : evs[n]? = some ev) (hsrc : evMsg evs (n + 1) = some (ev, m))
    (hp : ∀ k, posStore ev k = true → ev.up = .reply m)
    (hq : ∀ e0, mem ev.key = some e0 → m.rcode = 0 → m.tc = false →
      (posStore ev ev.key = true ∨ e0.expTick ≤ histClock (ev.t * msNs))) :
    HInv cfgMax evs (n + 1)
      (cacheStore histClock (histCfg cfgMax) mem ev.key (some m) (ev.t * msNs) 0 (n + 1)) := by
  have hcap : 0 < (histCfg cfgMax).maximumTtl := by
    have := sane_cap cfgMax h1 h2; unfold histCfg second at *; simp only; omega
  have hinv' := cacheStore_inv histClock histOff (histCfg cfgMax) mem ev.key (some m) (ev.t * msNs) 0 (n + 1)
    clockOK_hist hcap (by decide) h.inv
  obtain ⟨s1, s2, s3⟩ := cacheStore_shape histClock (histCfg cfgMax) mem ev.key m (ev.t * msNs) (n + 1) rfl
  have hposfacts : ∀ k, posStore ev k = true → k = ev.key ∧ m.rcode = 0 ∧ m.tc = false := by
    intro k hk
    obtain ⟨-, hkey, m', hu, hr, ht⟩ := posStore_up ev k hk
    have := hp k hk
    rw [hu] at this
    cases this
    exact ⟨hkey.symm, hr, ht⟩
  -- the cases in which nothing changes
  have hsame : cacheStore histClock (histCfg cfgMax) mem ev.key (some m) (ev.t * msNs) 0 (n + 1) = mem →
      (∀ k, posStore ev k = false) →
      HInv cfgMax evs (n + 1) (cacheStore histClock (histCfg cfgMax) mem ev.key (some m) (ev.t * msNs) 0 (n + 1)) := by
    intro he hpf; rw [he]; exact hinv_same cfgMax evs n mem ev h hn hpf
  by_cases htc : m.tc = true
  · apply hsame (s1 htc)
    intro k
    cases hk : posStore ev k with
    | false => rfl
    | true => have := (hposfacts k hk).2.2; rw [htc] at this; cases this
  · have htc' : m.tc = false := by simpa using htc
    by_cases hkeep : m.rcode ≠ 0 ∧ ∃ e0, mem ev.key = some e0 ∧ histClock (ev.t * msNs) < e0.expTick
    · apply hsame (s2 htc' hkeep.1 hkeep.2)
      intro k
      cases hk : posStore ev k with
      | false => rfl
      | true => exact absurd (hposfacts k hk).2.1 hkeep.1
    · have hor : m.rcode = 0 ∨ mem ev.key = none ∨ ∃ e0, mem ev.key = some e0 ∧ e0.expTick ≤ histClock (ev.t * msNs) := by
        by_cases hz : m.rcode = 0
        · left; exact hz
        · right
          cases hm : mem ev.key with
          | none => left; rfl
          | some e0 =>
            right
            refine ⟨e0, rfl, ?_⟩
            by_cases hx : e0.expTick ≤ histClock (ev.t * msNs)
            · exact hx
            · exact absurd ⟨hz, e0, hm, by omega⟩ hkeep
      obtain ⟨e', hset, hmsg, hid, hst, hexp⟩ := s3 htc' hor
      -- whatever node the key had is expired now, unless this is a positive Store
      have hold : ∀ e0, mem ev.key = some e0 → posStore ev ev.key = true ∨ e0.expTick ≤ histClock (ev.t * msNs) := by
        intro e0 he0
        by_cases hz : m.rcode = 0
        · exact hq e0 he0 hz htc'
        · right
          rcases hor with h' | h' | ⟨e1, he1, hx⟩
          · exact absurd h' hz
          · rw [h'] at he0; cases he0
          · rw [he1] at he0; cases he0; exact hx
      have hevmem : ev ∈ evs.take (n + 1) := by rw [take_succ_snoc evs n ev hn]; simp
      rw [hset] at hinv' ⊢
      refine ⟨hinv', ?_, ?_⟩
      · intro k e he
        unfold Mem.set at he
        by_cases hk : k = ev.key
        · simp only [hk, if_true, Option.some.injEq] at he
          subst he
          refine ⟨by omega, ⟨ev, by rw [hid, hmsg]; exact hsrc, hk.symm, hst, ?_⟩⟩
          intro hneg
          rw [hid, hmsg] at *
          simp only [Nat.add_sub_cancel]
          unfold livePositiveBefore
          cases hl : lastPos (evs.take n) k with
          | none => rfl
          | some ev0 =>
            simp only
            obtain ⟨hmem0, hps0⟩ := lastPos_some _ _ _ hl
            obtain ⟨-, -, m0, hu0, hr0, -⟩ := posStore_up ev0 k hps0
            rw [hu0]
            simp only [decide_eq_false_iff_not]
            intro hlive
            obtain ⟨i0, hi0, hget0⟩ := mem_take_get evs n ev0 hmem0
            have hshort0 : ev0.t ≤ histLimitMs := by
              have := List.all_eq_true.1 hshort ev0 (List.mem_of_getElem? hget0)
              simpa using this
            have halive := alive_of_spec cfgMax h1 h2 ev0 m0 ev.t hu0 hr0 hshort0 hlive
            -- but the node was expired (or absent) when this error response went in
            have hexpd : expOf cfgMax ev0 ≤ histClock (ev.t * msNs) := by
              rcases h.last k ev0 hl with ⟨e0, he0, hx0⟩ | ⟨x, hx, hle⟩
              · rw [hk] at he0
                rcases hold e0 he0 with hpp | hxx
                · exact absurd (hposfacts _ hpp).2.1 hneg
                · omega
              · obtain ⟨ix, hix, hgetx⟩ := mem_take_get evs n x hx
                have := sorted_get evs hsorted ix n x ev (by omega) hgetx hn
                exact Nat.le_trans hle (histClock_mono _ _ this)
            omega
        · simp only [hk, if_false] at he
          have := h.prov k e he
          exact ⟨Nat.le_succ_of_le this.idle, this.src⟩
      · intro k ev0 hl
        rw [take_succ_snoc evs n ev hn, lastPos_snoc] at hl
        by_cases hps : posStore ev k = true
        · simp only [hps, if_true, Option.some.injEq] at hl
          subst hl
          obtain ⟨hkk, -, -⟩ := hposfacts k hps
          left
          refine ⟨e', by simp [Mem.set, hkk], ?_⟩
          rw [hexp]
          unfold expOf
          rw [hp k hps]
          rfl
        · simp only [hps, if_false] at hl
          rcases h.last k ev0 hl with ⟨e0, he0, hx0⟩ | ⟨x, hx, hle⟩
          · by_cases hkk : k = ev.key
            · right
              refine ⟨ev, hevmem, ?_⟩
              rw [hkk] at he0
              rcases hold e0 he0 with hpp | hxx
              · rw [← hkk] at hpp; exact absurd hpp hps
              · omega
            · left
              exact ⟨e0, by simp [Mem.set, hkk, he0], hx0⟩
          · right; exact ⟨x, by rw [take_succ_snoc evs n ev hn]; simp [hx], hle⟩

/-! ### the checks of `specHit` on a hit of the model -/

theorem evMsg_some (evs : List Ev) (j : Nat) (ev : Ev) (m : Msg) (h : evMsg evs j = some (ev, m)) :
    j ≠ 0 ∧ evs[j - 1]? = some ev := by
  unfold evMsg at h
  by_cases hj : j = 0
  · simp [hj] at h
  · simp only [hj, if_false] at h
    cases he : evs[j - 1]? with
    | none => simp [he] at h
    | some e =>
      simp only [he] at h
      split at h
      · simp only [Option.some.injEq, Prod.mk.injEq] at h; exact ⟨hj, by rw [h.1]⟩
      · simp only [Option.some.injEq, Prod.mk.injEq] at h; exact ⟨hj, by rw [h.1]⟩
      · cases h

/-- with the harness' exact clock a hit happens less than one tick after expireTime -/
theorem hit_before_expiry_hist (cfg : Cfg) (e : Entry) (now : Nat) (he : EntryOK cfg histOff e)
    (hl : histClock now < e.expTick) : now < e.expire + 1000000000 := by
  have h2 := he.tick
  unfold histClock at hl
  have hm := Nat.mod_lt (now + 500 * msNs) (show 1000000000 > 0 by decide)
  have hd := Nat.div_add_mod (now + 500 * msNs) 1000000000
  have h4 : ((now + 500 * msNs) / 1000000000 + 1) * 1000000000 ≤ e.expTick * 1000000000 :=
    Nat.mul_le_mul_right _ (by omega)
  simp only [G, histOff] at h2
  generalize (now + 500 * msNs) / 1000000000 = q at *
  generalize (now + 500 * msNs) % 1000000000 = r at *
  generalize 500 * msNs = o at *
  omega

/-- no lifetime exceeds 2³²−1 seconds (the largest TTL) when the cap is at least a second -/
theorem storeTtl_le_u32 (m : Msg) (cap : Int) (hc : second ≤ cap) : storeTtl m cap ≤ 4294967295 * second := by
  rw [storeTtl_eq]
  have hb := baseTtl_bounds m.rcode (getMinimalTTL m).1.toNat (getMinimalTTL m).2
  have hcl := clampTtl_bounds _ cap hc hb.1
  have hu := (getMinimalTTL m).1.toNat_lt
  generalize baseTtl m.rcode (getMinimalTTL m).1.toNat (getMinimalTTL m).2 = B at hb hcl ⊢
  generalize clampTtl B cap = L at hcl ⊢
  generalize (getMinimalTTL m).1.toNat = u at hb hu
  obtain ⟨-, -, -, -, bno, bhas⟩ := hb
  obtain ⟨-, -, c3, c4⟩ := hcl
  unfold second at *
  cases hh : (getMinimalTTL m).2 with
  | false =>
    have := bno hh
    by_cases hB : 0 < B
    · have := c3 hB; omega
    · have := c4 (by omega); omega
  | true =>
    have := bhas hh
    by_cases hB : 0 < B
    · have := c3 hB; omega
    · have := c4 (by omega); omega

theorem mem_popOPT (l : List RR) : ∀ x ∈ popOPT l, x ∈ l := by
  induction l with
  | nil => intro x hx; simp [popOPT] at hx
  | cons rr rest ih =>
    intro x hx
    unfold popOPT at hx
    split at hx
    · cases hx with
      | head => simp
      | tail _ h => exact List.mem_cons_of_mem _ (ih x h)
    · split at hx
      · cases hl : rest.getLast? with
        | none => rw [hl] at hx; simp at hx
        | some l =>
          rw [hl] at hx
          simp only at hx
          cases hx with
          | head => exact List.mem_cons_of_mem _ (List.mem_of_getLast? hl)
          | tail _ h => exact List.mem_cons_of_mem _ (List.dropLast_subset _ h)
      · exact hx

/-- the order-insensitive check accepts any sub-collection of the aged records -/
theorem specServedAnyRRs_sub (d : UInt32) (el : Nat) (hel : el ≤ d.toNat) (l served : List RR)
    (hsub : ∀ x ∈ served, x ∈ l.map (subRR d)) : specServedAnyRRs el l served = true := by
  unfold specServedAnyRRs
  rw [List.all_eq_true]
  intro x hx
  have hx' : x ∈ served := by
    simp only [realRRs, List.mem_filter] at hx; exact hx.1
  have hreal : x.isOPT = false := by
    simp only [realRRs, List.mem_filter, Bool.not_eq_true'] at hx; exact hx.2
  obtain ⟨o, ho, hox⟩ := List.mem_map.1 (hsub x hx')
  rw [List.any_eq_true]
  have hoopt : o.isOPT = false := by rw [← subRR_isOPT d o, hox]; exact hreal
  have hotyp : o.typ ≠ typeOPT := by
    intro hc; rw [(isOPT_iff o).2 hc] at hoopt; cases hoopt
  refine ⟨o, by simp [realRRs, ho, hoopt], ?_⟩
  have hr := subRR_real d o hotyp
  rw [hox] at hr
  simp only [Bool.and_eq_true, beq_iff_eq, decide_eq_true_eq]
  refine ⟨hr.1.symm, ?_⟩
  rw [hr.2]; simp only [Nat.max_def]; split <;> split <;> omega

theorem specServedAny_sub (m : Msg) (d : UInt32) (el : Nat) (hel : el ≤ d.toNat) :
    specServedAny el m (popEDNS0 (subtractTTL m d)) = true := by
  unfold specServedAny popEDNS0 subtractTTL
  simp only [Bool.and_eq_true]
  refine ⟨⟨specServedAnyRRs_sub d el hel _ _ (fun x hx => hx), specServedAnyRRs_sub d el hel _ _ (fun x hx => hx)⟩,
    specServedAnyRRs_sub d el hel _ _ (fun x hx => mem_popOPT _ x hx)⟩

theorem specHit_ok (cfgMax : Int) (h1 : -9223372037 < cfgMax) (h2 : cfgMax < 9223372037)
    (evs : List Ev) (hsorted : sortedEvs evs = true) (n : Nat) (mem : Mem) (h : HInv cfgMax evs n mem)
    (ev : Ev) (hn : evs[n]? = some ev) (served : Msg) (e : Entry)
    (hg : cacheGet histClock mem ev.key (ev.t * msNs) = some (served, e)) :
    specHit cfgMax evs (n + 1) ev.key ev.t e.id (some (e.expire - e.stored)) served = true ∧
    specHit cfgMax evs (n + 1) ev.key ev.t e.id none (popEDNS0 served) = true := by
  obtain ⟨hm, hl, hs⟩ := cacheGet_some _ _ _ _ _ _ hg
  have hok := h.inv ev.key e hm
  obtain ⟨hidle, ⟨ev0, hsrc, hkey, hst, hneg⟩⟩ := h.prov ev.key e hm
  obtain ⟨hj0, hev0⟩ := evMsg_some _ _ _ _ hsrc
  have hcap := sane_cap cfgMax h1 h2
  -- facts
  have f3 : ev0.t ≤ ev.t := sorted_get evs hsorted (e.id - 1) n ev0 ev (by omega) hev0 hn
  have hlife := hok.life
  simp only [histCfg] at hlife
  have hspec := storeTtl_le_spec e.msg cfgMax h1 h2
  have hu32 := storeTtl_le_u32 e.msg (initMaxTtl cfgMax) hcap
  have hpos := (storeTtl_pos e.msg (initMaxTtl cfgMax) (by unfold second at hcap; omega)).1
  have hexp := hit_before_expiry_hist _ e (ev.t * msNs) hok hl
  have f5 : specLifeOK e.msg cfgMax (e.expire - e.stored) = true := by
    unfold specLifeOK
    simp only [decide_eq_true_eq]
    omega
  have f6 : ev.t - ev0.t < specLifetime e.msg cfgMax * 1000 + 2000 + tolMs := by
    unfold tolMs
    rw [hst] at hlife
    simp only [msNs] at hexp hlife
    simp only [Nat.max_def] at hspec
    split at hspec <;> omega
  -- elapsed seconds, no uint32 wrap
  have hdelta : (elapsedDelta (ev.t * msNs - e.stored)).toNat = (ev.t - ev0.t) / 1000 := by
    unfold elapsedDelta
    rw [UInt32.toNat_ofNat', hst]
    have hq : (ev.t * msNs - ev0.t * msNs) / 1000000000 = (ev.t - ev0.t) / 1000 := by
      simp only [msNs]
      rw [← Nat.sub_mul]
      rw [show (1000000000 : Nat) = 1000000 * 1000 from rfl, ← Nat.div_div_eq_div_mul,
        Nat.mul_div_cancel _ (by decide : 0 < 1000000)]
    rw [hq]
    apply Nat.mod_eq_of_lt
    rw [hst] at hlife
    simp only [msNs] at hexp hlife
    unfold second at hu32
    omega
  have hel : (ev.t - ev0.t - tolMs) / 1000 ≤ (elapsedDelta (ev.t * msNs - e.stored)).toNat := by
    rw [hdelta]; exact Nat.div_le_div_right (Nat.sub_le _ _)
  have f8 : (e.msg.rcode == 0 || !livePositiveBefore cfgMax evs (e.id - 1) ev.key ev0.t) = true := by
    by_cases hz : e.msg.rcode = 0
    · simp [hz]
    · rw [hneg hz]; simp
  have common : ∀ (life : Option Nat) (sv : Msg),
      (match life with | none => true | some l => specLifeOK e.msg cfgMax l) = true →
      (if life.isSome then specServed ((ev.t - ev0.t - tolMs) / 1000) e.msg sv
       else specServedAny ((ev.t - ev0.t - tolMs) / 1000) e.msg sv) = true →
      specHit cfgMax evs (n + 1) ev.key ev.t e.id life sv = true := by
    intro life sv hlf hsv
    unfold specHit
    rw [hsrc]
    simp only [Bool.and_eq_true, decide_eq_true_eq, beq_iff_eq, Bool.not_eq_true']
    exact ⟨⟨⟨⟨⟨⟨⟨by omega, hkey⟩, f3⟩, hok.notTC⟩, hlf⟩, f6⟩, hsv⟩, f8⟩
  constructor
  · apply common (some (e.expire - e.stored)) served f5
    simp only [Option.isSome_some, if_true]
    rw [hs]; exact specServed_sub _ _ _ hel
  · apply common none (popEDNS0 served) rfl
    simp only [Option.isSome_none, Bool.false_eq_true, if_false]
    rw [hs]; exact specServedAny_sub _ _ _ hel

/-! ### one event, then a whole history -/

theorem posOn_kind (ev : Ev) (k : Nat) (h : posStore ev k = true) : ev.kind = 0 := (posStore_up ev k h).1

theorem cacheStore_none (clock : Nat → Nat) (cfg : Cfg) (mem : Mem) (k now delay id : Nat) :
    cacheStore clock cfg mem k none now delay id = mem := by
  cases hb : cfg.hasBackend <;> simp [cacheStore, store, hb]

theorem step_spec (cfgMax : Int) (h1 : -9223372037 < cfgMax) (h2 : cfgMax < 9223372037)
    (evs : List Ev) (hsorted : sortedEvs evs = true) (hshort : shortEvs evs = true)
    (n : Nat) (mem : Mem) (h : HInv cfgMax evs n mem)
    (ev : Ev) (hn : evs[n]? = some ev) (hkind : ev.kind ≤ 3) :
    HInv cfgMax evs (n + 1) (step histClock (histCfg cfgMax) mem (n + 1) ev.toStep).1 ∧
    specObs cfgMax evs (n + 1) ev (step histClock (histCfg cfgMax) mem (n + 1) ev.toStep).2 = true := by
  have hsame : ∀ (hp : ∀ k, posStore ev k = false), HInv cfgMax evs (n + 1) mem :=
    fun hp => hinv_same cfgMax evs n mem ev h hn hp
  have hnotpos : ev.kind ≠ 0 → ∀ k, posStore ev k = false := by
    intro hk k
    cases hp : posStore ev k with
    | false => rfl
    | true => exact absurd (posOn_kind ev k hp) hk
  have hk4 : ev.kind = 0 ∨ ev.kind = 1 ∨ ev.kind = 2 ∨ ev.kind = 3 := by omega
  rcases hk4 with hk | hk | hk | hk
  · -- s: Store
    cases hup : ev.up with
    | err =>
      have hstep : ev.toStep = .store ev.key none (ev.t * msNs) 0 := by simp [Ev.toStep, hk, hup]
      rw [hstep]
      simp only [step, cacheStore_none]
      refine ⟨hsame ?_, by simp [specObs, hk]⟩
      intro k; simp [posStore, hup]
    | reply m =>
      have hstep : ev.toStep = .store ev.key (some m) (ev.t * msNs) 0 := by simp [Ev.toStep, hk, hup]
      rw [hstep]
      simp only [step]
      refine ⟨?_, by simp [specObs, hk]⟩
      apply hinv_store cfgMax h1 h2 evs hsorted hshort n mem ev m h hn
      · simp [evMsg, hn, hk, hup]
      · intro k _; exact hup
      · intro e0 _ hz htc
        left
        simp [posStore, hk, hup, hz, htc]
  · -- n: Store(nil)
    have hstep : ev.toStep = .store ev.key none (ev.t * msNs) 0 := by simp [Ev.toStep, hk]
    rw [hstep]
    simp only [step, cacheStore_none]
    exact ⟨hsame (hnotpos (by omega)), by simp [specObs, hk]⟩
  · -- g: Get
    have hstep : ev.toStep = .get ev.key (ev.t * msNs) := by simp [Ev.toStep, hk]
    rw [hstep]
    cases hg : cacheGet histClock mem ev.key (ev.t * msNs) with
    | none =>
      simp only [step, hg]
      exact ⟨hsame (hnotpos (by omega)), by simp [specObs, hk]⟩
    | some p =>
      obtain ⟨served, e⟩ := p
      simp only [step, hg]
      refine ⟨hsame (hnotpos (by omega)), ?_⟩
      have := (specHit_ok cfgMax h1 h2 evs hsorted n mem h ev hn served e hg).1
      simp [specObs, hk, this]
  · -- q: client query
    have hstep : ev.toStep = .query ev.key ev.up (ev.t * msNs) 0 := by simp [Ev.toStep, hk]
    rw [hstep]
    cases hg : cacheGet histClock mem ev.key (ev.t * msNs) with
    | some p =>
      obtain ⟨served, e⟩ := p
      simp only [step, handleQuery, hg]
      refine ⟨hsame (hnotpos (by omega)), ?_⟩
      have := (specHit_ok cfgMax h1 h2 evs hsorted n mem h ev hn served e hg).2
      simp [specObs, hk, this]
    | none =>
      cases hup : ev.up with
      | err =>
        simp only [step, handleQuery, hg]
        exact ⟨hsame (hnotpos (by omega)), by simp [specObs, hk]⟩
      | reply m =>
        simp only [step, handleQuery, hg]
        refine ⟨?_, by simp [specObs, hk]⟩
        apply hinv_store cfgMax h1 h2 evs hsorted hshort n mem ev (removeEDNS0 m) h hn
        · simp [evMsg, hn, hk, hup]
        · intro k hp
          exact absurd (posOn_kind ev k hp) (by omega)
        · intro e0 he0 _ _
          right
          -- the lookup missed although the key has a node: the node is expired
          unfold cacheGet otterGet at hg
          rw [he0] at hg
          by_cases hx : e0.expTick ≤ histClock (ev.t * msNs)
          · exact hx
          · simp [hx] at hg

theorem run_spec (cfgMax : Int) (h1 : -9223372037 < cfgMax) (h2 : cfgMax < 9223372037)
    (evs : List Ev) (hsorted : sortedEvs evs = true) (hshort : shortEvs evs = true)
    (hkinds : ∀ e ∈ evs, e.kind ≤ 3) (suf : List Ev) :
    ∀ (n : Nat) (mem : Mem), HInv cfgMax evs n mem → (∀ i, suf[i]? = evs[n + i]?) →
      specHistFrom cfgMax evs (n + 1) suf
        (runFrom histClock (histCfg cfgMax) mem (n + 1) (suf.map Ev.toStep)).2 = true := by
  induction suf with
  | nil => intro n mem _ _; rfl
  | cons ev rest ih =>
    intro n mem h hal
    have hn : evs[n]? = some ev := by have := hal 0; simpa using this.symm
    have hkind := hkinds ev (List.mem_of_getElem? hn)
    obtain ⟨hinv', hobs⟩ := step_spec cfgMax h1 h2 evs hsorted hshort n mem h ev hn hkind
    have hrest := ih (n + 1) _ hinv' (by
      intro i
      have := hal (i + 1)
      simp only [List.getElem?_cons_succ] at this
      rw [this]; congr 1; omega)
    simp only [List.map_cons, runFrom, specHistFrom, Bool.and_eq_true]
    exact ⟨hobs, hrest⟩

theorem hinv_start (cfgMax : Int) (evs : List Ev) : HInv cfgMax evs 0 Mem.empty := by
  refine ⟨inv_empty _ _, ?_, ?_⟩
  · intro k e he; simp [Mem.empty] at he
  · intro k ev hl; simp [lastPos] at hl

end MosVerif.Ttl
