/-
  C15 helper lemmas, part 7: time stamps in any order (repair f8b61d0).
  `ClientLimiter.allowN` clamps the caller's time stamp to the entry's `lastSeen`; on histories
  whose time stamps never go back this is `allowNAt`, for which parts 1-4 were written.
-/
import MosVerif.Lemmas.LimiterSpec
import MosVerif.Lemmas.LimiterGc
namespace MosVerif.Limiter

/-- no entry has been seen later than `τ` -/
def ClientLimiter.SeenLe (cl : ClientLimiter) (τ : Nat) : Prop := ∀ k e, cl.m k = some e → e.lastSeen ≤ τ

theorem ClientLimiter.seenLe_new (o : Opts) (τ : Nat) : (ClientLimiter.new o).SeenLe τ := by
  intro k e h; simp [ClientLimiter.new] at h

theorem ClientLimiter.clock_of_seenLe (cl : ClientLimiter) {τ t : Nat} (h : cl.SeenLe τ) (ht : τ ≤ t) (a : Addr) :
    cl.clock a t = t := by
  unfold ClientLimiter.clock
  cases hm : cl.m (mask cl.opts a) with
  | none => rfl
  | some e => have := h _ e hm; simp only; omega

theorem ClientLimiter.allowN_of_seenLe (cl : ClientLimiter) {τ t : Nat} (h : cl.SeenLe τ) (ht : τ ≤ t) (a : Addr) (n : Nat) :
    cl.allowN a t n = cl.allowNAt a t n := by
  unfold ClientLimiter.allowN; rw [cl.clock_of_seenLe h ht]

theorem ClientLimiter.seenLe_allowNAt (cl : ClientLimiter) {τ t : Nat} (h : cl.SeenLe τ) (ht : τ ≤ t) (a : Addr) (n : Nat) :
    (cl.allowNAt a t n).2.SeenLe t := by
  intro k e hm
  simp only [ClientLimiter.allowNAt, Table.set] at hm
  split at hm
  · cases hm; exact Nat.le_refl _
  · exact Nat.le_trans (h k e hm) ht

theorem ClientLimiter.seenLe_gc (rf : Bool) (cl : ClientLimiter) {τ t : Nat} (h : cl.SeenLe τ) (ht : τ ≤ t)
    (now : Nat) (only : Option Addr) : (cl.gcWith rf now only).SeenLe t := by
  intro k e hm
  simp only [ClientLimiter.gcWith] at hm
  cases hk : cl.m k with
  | none => simp [hk] at hm
  | some e' =>
    simp only [hk] at hm
    split at hm
    · cases hm
    · injection hm with hm; subst hm; exact Nat.le_trans (h k _ hk) ht

/-- on a time-ordered history the clamp never acts -/
theorem runOpsWith_eq_at (rf : Bool) : ∀ (os : List Op) (cl : ClientLimiter) (τ : Nat), cl.SeenLe τ → sortedFrom τ os →
    cl.runOpsWith rf os = cl.runOpsAtWith rf os := by
  intro os
  induction os with
  | nil => intro _ _ _ _; rfl
  | cons o os ih =>
    intro cl τ h hs
    cases o with
    | gc now only =>
      simp only [ClientLimiter.runOpsWith, ClientLimiter.runOpsAtWith]
      exact ih _ now (cl.seenLe_gc rf h hs.1 now only) hs.2
    | allow e =>
      have hte : τ ≤ e.t := hs.1
      simp only [ClientLimiter.runOpsWith, ClientLimiter.runOpsAtWith, cl.allowN_of_seenLe h hte]
      rw [ih _ e.t (cl.seenLe_allowNAt h hte e.addr e.n) hs.2]

theorem run_eq_at : ∀ (es : List Ev) (cl : ClientLimiter) (τ : Nat), cl.SeenLe τ → sortedEvs τ es →
    cl.run es = cl.runAt es := by
  intro es
  induction es with
  | nil => intro _ _ _ _; rfl
  | cons e es ih =>
    intro cl τ h hs
    simp only [ClientLimiter.run, ClientLimiter.runAt, cl.allowN_of_seenLe h hs.1]
    rw [ih _ e.t (cl.seenLe_allowNAt h hs.1 e.addr e.n) hs.2]

/-! ### time stamps in any order -/

/-- every entry: the bucket's `last` is not after the entry's clock, and the token count is
    not more than the truncation slack below zero -/
def ClientLimiter.Ok (cl : ClientLimiter) : Prop :=
  ∀ k e, cl.m k = some e → e.b.Inv cl.limit e.lastSeen

theorem ClientLimiter.ok_new (o : Opts) : (ClientLimiter.new o).Ok := by
  intro k e h; simp [ClientLimiter.new] at h

theorem ClientLimiter.clock_ge (cl : ClientLimiter) (a : Addr) (t : Nat) : t ≤ cl.clock a t := by
  unfold ClientLimiter.clock; split <;> omega

theorem ClientLimiter.clock_some (cl : ClientLimiter) (a : Addr) (t : Nat) (e : Entry)
    (h : cl.m (mask cl.opts a) = some e) : cl.clock a t = max e.lastSeen t := by
  simp [ClientLimiter.clock, h]

theorem ClientLimiter.bucketOf_some (cl : ClientLimiter) (k : Addr) (e : Entry) (h : cl.m k = some e) :
    cl.bucketOf k = e.b := by simp [ClientLimiter.bucketOf, h]

theorem ClientLimiter.bucketOf_none (cl : ClientLimiter) (k : Addr) (h : cl.m k = none) :
    cl.bucketOf k = Bucket.fresh := by simp [ClientLimiter.bucketOf, h]

@[simp] theorem ClientLimiter.allowNc_opts (cl : ClientLimiter) (a : Addr) (t n : Nat) :
    (cl.allowN a t n).2.opts = cl.opts := rfl
@[simp] theorem ClientLimiter.allowNc_limit (cl : ClientLimiter) (a : Addr) (t n : Nat) :
    (cl.allowN a t n).2.limit = cl.limit := rfl
@[simp] theorem ClientLimiter.allowNc_burst (cl : ClientLimiter) (a : Addr) (t n : Nat) :
    (cl.allowN a t n).2.burst = cl.burst := rfl

theorem ClientLimiter.ok_allowN (cl : ClientLimiter) (hL : 0 < cl.limit) (h : cl.Ok) (a : Addr) (t n : Nat) :
    (cl.allowN a t n).2.Ok := by
  intro k e hm
  simp only [ClientLimiter.allowNc_limit]
  by_cases hk : mask cl.opts a = k
  · subst hk
    have h1 : (cl.allowN a t n).2.m (mask cl.opts a) = _ := cl.m_allowN_same a (cl.clock a t) n
    rw [h1] at hm
    injection hm with hm; subst hm
    simp only
    cases hc : cl.m (mask cl.opts a) with
    | none =>
      rw [cl.bucketOf_none _ hc]
      exact Bucket.allowN_inv (Bucket.inv_fresh _ hL (cl.clock a t)) (Nat.le_refl _)
    | some e0 =>
      rw [cl.bucketOf_some _ e0 hc]
      refine Bucket.allowN_inv (h _ e0 hc) ?_
      rw [cl.clock_some a t e0 hc]; omega
  · have h1 : (cl.allowN a t n).2.m k = cl.m k := cl.m_allowN_other a (cl.clock a t) n k hk
    rw [h1] at hm
    exact h k e hm

theorem ClientLimiter.ok_gc (rf : Bool) (cl : ClientLimiter) (h : cl.Ok) (now : Nat) (only : Option Addr) :
    (cl.gcWith rf now only).Ok := by
  intro k e hm
  simp only [ClientLimiter.gcWith] at hm
  cases hk : cl.m k with
  | none => simp [hk] at hm
  | some e' =>
    simp only [hk] at hm
    split at hm
    · cases hm
    · injection hm with hm; subst hm; exact h k _ hk

/-- the limiter after a history -/
def ClientLimiter.afterOps (cl : ClientLimiter) : List Op → ClientLimiter
  | [] => cl
  | .allow e :: os => ClientLimiter.afterOps (cl.allowN e.addr e.t e.n).2 os
  | .gc now only :: os => ClientLimiter.afterOps (cl.gc now only) os

theorem ClientLimiter.afterOps_opts : ∀ (os : List Op) (cl : ClientLimiter), (cl.afterOps os).opts = cl.opts
  | [], _ => rfl
  | .allow e :: os, cl => by simp only [ClientLimiter.afterOps]; rw [ClientLimiter.afterOps_opts os]; rfl
  | .gc now only :: os, cl => by simp only [ClientLimiter.afterOps]; rw [ClientLimiter.afterOps_opts os]; rfl

theorem ClientLimiter.ok_afterOps : ∀ (os : List Op) (cl : ClientLimiter), 0 < cl.limit → cl.Ok → (cl.afterOps os).Ok
  | [], _, _, h => h
  | .allow e :: os, cl, hL, h => ClientLimiter.ok_afterOps os _ (by simpa using hL) (cl.ok_allowN hL h e.addr e.t e.n)
  | .gc now only :: os, cl, hL, h => ClientLimiter.ok_afterOps os _ (by simpa [ClientLimiter.gc] using hL) (cl.ok_gc _ h now only)

/-- total cost of the admitted arrivals of key `k` -/
def admittedK (o : Opts) (k : Addr) : List Ev → List Bool → Nat
  | e :: es, d :: ds => (if mask o e.addr = k ∧ d = true then e.n else 0) + admittedK o k es ds
  | _, _ => 0

/-- the clock of `k`'s bucket after the arrivals `es`, if it was `C` before: the newest time stamp seen -/
def clockAfter (o : Opts) (k : Addr) (C : Nat) : List Ev → Nat
  | [] => C
  | e :: es => clockAfter o k (if mask o e.addr = k then max C e.t else C) es

theorem clockAfter_ge (o : Opts) (k : Addr) : ∀ (es : List Ev) (C : Nat), C ≤ clockAfter o k C es
  | [], _ => Nat.le_refl _
  | e :: es, C => by
    simp only [clockAfter]
    by_cases h : mask o e.addr = k
    · rw [if_pos h]; have := clockAfter_ge o k es (max C e.t); omega
    · rw [if_neg h]; exact clockAfter_ge o k es C

/-- **potential argument on the bucket's own clock.**  From an entry with clock `C`: what is
    admitted for `k` afterwards is bounded by what the bucket holds at `C`, plus the refill while
    its clock advances to the newest time stamp seen, plus the truncation slack.  Time stamps
    in any order. -/
theorem clock_phase (k : Addr) :
    ∀ (es : List Ev) (cl : ClientLimiter) (en : Entry), 0 < cl.limit → cl.Ok → cl.m k = some en →
      ((admittedK cl.opts k es (cl.run es) * nano : Nat) : Int)
        ≤ en.b.avail cl.limit cl.burst en.lastSeen
          + ((cl.limit * (clockAfter cl.opts k en.lastSeen es - en.lastSeen) : Nat) : Int) + ((cl.limit : Int) - 1) := by
  intro es
  induction es with
  | nil =>
    intro cl en hL hok hm
    have := Bucket.avail_ge cl.limit cl.burst hL en.b en.lastSeen en.lastSeen (hok k en hm)
    simp only [admittedK, clockAfter, Nat.sub_self, Nat.mul_zero, Nat.zero_mul]
    omega
  | cons e es ih =>
    intro cl en hL hok hm
    have hok' := cl.ok_allowN hL hok e.addr e.t e.n
    simp only [ClientLimiter.run, admittedK, clockAfter]
    by_cases hk : mask cl.opts e.addr = k
    · subst hk
      -- an arrival of `k`: its clock moves to `max lastSeen t`
      have hclk := cl.clock_some e.addr e.t en hm
      have hm' : (cl.allowN e.addr e.t e.n).2.m (mask cl.opts e.addr) = _ := cl.m_allowN_same e.addr (cl.clock e.addr e.t) e.n
      rw [cl.bucketOf_some _ en hm, hclk] at hm'
      have IH := ih (cl.allowN e.addr e.t e.n).2 _ (by simpa using hL) hok' hm'
      simp only [ClientLimiter.allowNc_opts, ClientLimiter.allowNc_limit, ClientLimiter.allowNc_burst] at IH
      have hinv := hok _ en hm
      have hstep := Bucket.avail_step cl.limit cl.burst en.b hinv.2 (Nat.le_refl _) (Nat.le_max_left en.lastSeen e.t)
      have hge := clockAfter_ge cl.opts (mask cl.opts e.addr) es (max en.lastSeen e.t)
      have hdist : cl.limit * (clockAfter cl.opts (mask cl.opts e.addr) (max en.lastSeen e.t) es - en.lastSeen)
          = cl.limit * (max en.lastSeen e.t - en.lastSeen)
            + cl.limit * (clockAfter cl.opts (mask cl.opts e.addr) (max en.lastSeen e.t) es - max en.lastSeen e.t) := by
        rw [← Nat.mul_add]; congr 1; omega
      have hfst : (cl.allowN e.addr e.t e.n).1 = (en.b.allowN cl.limit cl.burst (max en.lastSeen e.t) e.n).1 := by
        show (cl.allowNAt e.addr (cl.clock e.addr e.t) e.n).1 = _
        rw [ClientLimiter.allowN_fst, cl.bucketOf_some _ en hm, hclk]
      simp only [true_and, if_true]
      rw [hdist]
      cases hd : (cl.allowN e.addr e.t e.n).1 with
      | true =>
        rw [hfst] at hd
        obtain ⟨_, _, h3⟩ := Bucket.allowN_true hd
        rw [h3] at IH
        have hcap := Bucket.avail_le_cap cl.limit cl.burst en.b (max en.lastSeen e.t)
        have hn : (0:Int) ≤ ((e.n * nano : Nat) : Int) := Int.natCast_nonneg _
        rw [Bucket.avail_after _ _ _ _ (by omega)] at IH
        simp only [if_true]
        rw [Nat.add_mul]
        push_cast at IH hstep ⊢
        omega
      | false =>
        rw [hfst] at hd
        rw [(Bucket.allowN_false hd).2] at IH
        have hstep2 := Bucket.avail_step cl.limit cl.burst en.b hinv.2 (Nat.le_refl _) (Nat.le_max_left en.lastSeen e.t)
        simp only [Bool.false_eq_true, if_false, Nat.zero_add]
        -- the entry is ⟨en.b, max ..⟩: what it holds at its new clock
        push_cast at IH hstep ⊢
        omega
    · have hm' : (cl.allowN e.addr e.t e.n).2.m k = some en := by
        have h1 : (cl.allowN e.addr e.t e.n).2.m k = cl.m k := cl.m_allowN_other e.addr (cl.clock e.addr e.t) e.n k hk
        rw [h1, hm]
      have IH := ih (cl.allowN e.addr e.t e.n).2 en (by simpa using hL) hok' hm'
      simp only [ClientLimiter.allowNc_opts, ClientLimiter.allowNc_limit, ClientLimiter.allowNc_burst] at IH
      simp only [hk, false_and, if_false, Nat.zero_add]
      exact IH

/-- newest − oldest among `lo`, `hi` and the time stamps of `k`'s arrivals -/
def spanFrom (o : Opts) (k : Addr) (lo hi : Nat) : List Ev → Nat
  | [] => hi - lo
  | e :: es => if mask o e.addr = k then spanFrom o k (min lo e.t) (max hi e.t) es else spanFrom o k lo hi es

/-- newest − oldest time stamp among `k`'s arrivals (0 if there are none) -/
def spanK (o : Opts) (k : Addr) : List Ev → Nat
  | [] => 0
  | e :: es => if mask o e.addr = k then spanFrom o k e.t e.t es else spanK o k es

theorem clockAfter_span (o : Opts) (k : Addr) : ∀ (es : List Ev) (C lo hi C0 : Nat),
    C0 ≤ C → lo ≤ C0 → C ≤ max C0 hi → clockAfter o k C es - C0 ≤ spanFrom o k lo hi es := by
  intro es
  induction es with
  | nil => intro C lo hi C0 h1 h2 h3; simp only [clockAfter, spanFrom]; omega
  | cons e es ih =>
    intro C lo hi C0 h1 h2 h3
    simp only [clockAfter, spanFrom]
    by_cases hk : mask o e.addr = k
    · rw [if_pos hk, if_pos hk]
      exact ih _ _ _ C0 (by omega) (by omega) (by omega)
    · rw [if_neg hk, if_neg hk]
      exact ih _ _ _ C0 h1 h2 h3

/-- **the bound for time stamps in any order**, from any state that satisfies the invariant -/
theorem any_order_bound (k : Addr) :
    ∀ (es : List Ev) (cl : ClientLimiter), 0 < cl.limit → cl.Ok →
      ((admittedK cl.opts k es (cl.run es) * nano : Nat) : Int)
        ≤ ((cl.burst * nano : Nat) : Int) + ((cl.limit * spanK cl.opts k es : Nat) : Int) + ((cl.limit : Int) - 1) := by
  intro es
  induction es with
  | nil =>
    intro cl hL _
    simp only [admittedK, spanK, Nat.zero_mul, Nat.mul_zero]
    have : (0:Int) ≤ ((cl.burst * nano : Nat) : Int) := Int.natCast_nonneg _
    omega
  | cons e es ih =>
    intro cl hL hok
    have hok' := cl.ok_allowN hL hok e.addr e.t e.n
    simp only [ClientLimiter.run, admittedK, spanK]
    by_cases hk : mask cl.opts e.addr = k
    · subst hk
      rw [if_pos rfl]
      have hm' : (cl.allowN e.addr e.t e.n).2.m (mask cl.opts e.addr) = _ := cl.m_allowN_same e.addr (cl.clock e.addr e.t) e.n
      have hph := clock_phase (mask cl.opts e.addr) es (cl.allowN e.addr e.t e.n).2 _ (by simpa using hL) hok' hm'
      simp only [ClientLimiter.allowNc_opts, ClientLimiter.allowNc_limit, ClientLimiter.allowNc_burst] at hph
      have hspan := clockAfter_span cl.opts (mask cl.opts e.addr) es (cl.clock e.addr e.t) e.t e.t (cl.clock e.addr e.t)
        (Nat.le_refl _) (cl.clock_ge e.addr e.t) (by omega)
      have hmul := Nat.mul_le_mul_left cl.limit hspan
      have hfst : (cl.allowN e.addr e.t e.n).1
          = ((cl.bucketOf (mask cl.opts e.addr)).allowN cl.limit cl.burst (cl.clock e.addr e.t) e.n).1 := by
        show (cl.allowNAt e.addr (cl.clock e.addr e.t) e.n).1 = _
        rw [ClientLimiter.allowN_fst]
      have hcap := Bucket.avail_le_cap cl.limit cl.burst (cl.bucketOf (mask cl.opts e.addr)) (cl.clock e.addr e.t)
      have hn : (0:Int) ≤ ((e.n * nano : Nat) : Int) := Int.natCast_nonneg _
      cases hd : (cl.allowN e.addr e.t e.n).1 with
      | true =>
        rw [hfst] at hd
        obtain ⟨_, _, h3⟩ := Bucket.allowN_true hd
        rw [h3] at hph
        rw [Bucket.avail_after _ _ _ _ (by omega)] at hph
        simp only [true_and, if_true]
        rw [Nat.add_mul]
        push_cast at hph hmul ⊢
        omega
      | false =>
        rw [hfst] at hd
        rw [(Bucket.allowN_false hd).2] at hph
        have hcap2 := Bucket.avail_le_cap cl.limit cl.burst (cl.bucketOf (mask cl.opts e.addr)) (cl.clock e.addr e.t)
        simp only [Bool.false_eq_true, and_false, if_false, Nat.zero_add]
        push_cast at hph hmul ⊢
        omega
    · have IH := ih (cl.allowN e.addr e.t e.n).2 (by simpa using hL) hok'
      simp only [ClientLimiter.allowNc_opts, ClientLimiter.allowNc_limit, ClientLimiter.allowNc_burst] at IH
      simp only [hk, false_and, if_false, Nat.zero_add]
      exact IH

/-! ### the executable form of the any-order bound -/

theorem id_beq (c : Opts) (a0 : Addr) (e : Ev) :
    (subnetId c a0 == (e.toS c).id) = decide (mask c.setDefault a0 = mask c.setDefault e.addr) :=
  specSame_eq c a0 e.addr

theorem segWalk_ok (c : Opts) (slack : Int) (hslack : (specLimit c : Int) - 1 ≤ slack) (a0 : Addr) :
    ∀ (es : List Ev) (cl : ClientLimiter) (en : Entry) (acc lo hi C0 : Nat), cl.opts = c.setDefault → cl.Ok →
      cl.m (mask cl.opts a0) = some en → C0 ≤ en.lastSeen → lo ≤ C0 → en.lastSeen ≤ max C0 hi →
      ((acc * nano : Nat) : Int) + en.b.avail cl.limit cl.burst en.lastSeen
        ≤ ((cl.burst * nano : Nat) : Int) + ((cl.limit * (en.lastSeen - C0) : Nat) : Int) →
      segWalk c slack (subnetId c a0) lo hi acc (es.map (Ev.toS c)) (cl.run es) = true := by
  intro es
  induction es with
  | nil => intro _ _ _ _ _ _ _ _ _ _ _ _ _; rfl
  | cons e es ih =>
    intro cl en acc lo hi C0 hopts hok hm h1 h2 h3 hpot
    have hL := limit_of_opts c cl hopts
    have hB := burst_of_opts c cl hopts
    have hLpos : 0 < cl.limit := hL ▸ specLimit_pos c
    have hok' := cl.ok_allowN hLpos hok e.addr e.t e.n
    simp only [ClientLimiter.run, List.map, segWalk, id_beq, ← hopts]
    have hte : (e.toS c).t = e.t := rfl
    have hne : (e.toS c).n = e.n := rfl
    rw [hte, hne]
    by_cases hk : mask cl.opts a0 = mask cl.opts e.addr
    · simp only [hk, decide_true, if_true, Bool.and_eq_true, decide_eq_true_eq]
      rw [hk] at hm
      have hclk := cl.clock_some e.addr e.t en hm
      have hm' : (cl.allowN e.addr e.t e.n).2.m (mask cl.opts e.addr) = _ := cl.m_allowN_same e.addr (cl.clock e.addr e.t) e.n
      rw [cl.bucketOf_some _ en hm, hclk] at hm'
      have hinv := hok _ en hm
      have hstep := Bucket.avail_step cl.limit cl.burst en.b hinv.2 (Nat.le_refl _) (Nat.le_max_left en.lastSeen e.t)
      have hdist : cl.limit * (max en.lastSeen e.t - C0) = cl.limit * (en.lastSeen - C0) + cl.limit * (max en.lastSeen e.t - en.lastSeen) := by
        rw [← Nat.mul_add]; congr 1; omega
      have hspan : cl.limit * (max en.lastSeen e.t - C0) ≤ cl.limit * (max hi e.t - min lo e.t) :=
        Nat.mul_le_mul_left _ (by omega)
      have hfst : (cl.allowN e.addr e.t e.n).1 = (en.b.allowN cl.limit cl.burst (max en.lastSeen e.t) e.n).1 := by
        show (cl.allowNAt e.addr (cl.clock e.addr e.t) e.n).1 = _
        rw [ClientLimiter.allowN_fst, cl.bucketOf_some _ en hm, hclk]
      have hcast : (specLimit c : Int) * ((max hi e.t - min lo e.t : Nat) : Int) = ((cl.limit * (max hi e.t - min lo e.t) : Nat) : Int) := by
        rw [Int.natCast_mul, hL]
      have IH := fun acc' hp => ih (cl.allowN e.addr e.t e.n).2 _ acc' (min lo e.t) (max hi e.t) C0 (by simpa using hopts) hok'
        (by simpa [hk] using hm') (by simp only; omega) (by omega) (by simp only; omega) hp
      simp only [ClientLimiter.allowNc_limit, ClientLimiter.allowNc_burst] at IH
      have hcap := Bucket.avail_le_cap cl.limit cl.burst en.b (max en.lastSeen e.t)
      have hn : (0:Int) ≤ ((e.n * nano : Nat) : Int) := Int.natCast_nonneg _
      cases hd : (cl.allowN e.addr e.t e.n).1 with
      | true =>
        rw [hfst] at hd
        obtain ⟨_, _, h3'⟩ := Bucket.allowN_true hd
        have hge := Bucket.avail_ge cl.limit cl.burst hLpos _ _ (max en.lastSeen e.t) (hok' _ _ hm')
        try simp only [ClientLimiter.allowNc_limit] at hge
        rw [h3'] at hge IH
        try simp only at hge IH
        rw [Bucket.avail_after _ _ _ _ (by omega)] at hge IH
        have hp : (((acc + e.n) * nano : Nat) : Int) + (en.b.avail cl.limit cl.burst (max en.lastSeen e.t) - ((e.n * nano : Nat) : Int))
            ≤ ((cl.burst * nano : Nat) : Int) + ((cl.limit * (max en.lastSeen e.t - C0) : Nat) : Int) := by
          rw [hdist, Nat.add_mul]
          push_cast at hpot hstep ⊢
          omega
        refine ⟨?_, IH _ hp⟩
        simp only [if_true, specBudget, hcast, ← hB]
        omega
      | false =>
        rw [hfst] at hd
        have h3' := (Bucket.allowN_false hd).2
        have hge := Bucket.avail_ge cl.limit cl.burst hLpos _ _ (max en.lastSeen e.t) (hok' _ _ hm')
        try simp only [ClientLimiter.allowNc_limit] at hge
        rw [h3'] at hge IH
        try simp only at hge IH
        have hp : ((acc * nano : Nat) : Int) + en.b.avail cl.limit cl.burst (max en.lastSeen e.t)
            ≤ ((cl.burst * nano : Nat) : Int) + ((cl.limit * (max en.lastSeen e.t - C0) : Nat) : Int) := by
          rw [hdist]
          push_cast at hpot hstep ⊢
          omega
        refine ⟨?_, by simpa using IH _ hp⟩
        simp only [Bool.false_eq_true, if_false, Nat.add_zero, specBudget, hcast, ← hB]
        omega
    · simp only [hk, decide_false, Bool.false_eq_true, if_false]
      have hk' : mask cl.opts e.addr ≠ mask cl.opts a0 := fun h => hk h.symm
      have hm' : (cl.allowN e.addr e.t e.n).2.m (mask cl.opts a0) = some en := by
        have h1' : (cl.allowN e.addr e.t e.n).2.m (mask cl.opts a0) = cl.m (mask cl.opts a0) :=
          cl.m_allowN_other e.addr (cl.clock e.addr e.t) e.n _ hk'
        rw [h1', hm]
      have IH := ih (cl.allowN e.addr e.t e.n).2 en acc lo hi C0 (by simpa using hopts) hok' (by simpa using hm') h1 h2 h3
      simp only [ClientLimiter.allowNc_limit, ClientLimiter.allowNc_burst] at IH
      exact IH hpot

theorem segBound_ok (c : Opts) (slack : Int) (hslack : (specLimit c : Int) - 1 ≤ slack) :
    ∀ (es : List Ev) (cl : ClientLimiter), cl.opts = c.setDefault → cl.Ok → segBound c slack es (cl.run es) = true := by
  unfold segBound
  intro es
  induction es with
  | nil => intro _ _ _; rfl
  | cons e es ih =>
    intro cl hopts hok
    have hL := limit_of_opts c cl hopts
    have hB := burst_of_opts c cl hopts
    have hLpos : 0 < cl.limit := hL ▸ specLimit_pos c
    have hok' := cl.ok_allowN hLpos hok e.addr e.t e.n
    have IH := ih (cl.allowN e.addr e.t e.n).2 (by simpa using hopts) hok'
    have hm' : (cl.allowN e.addr e.t e.n).2.m (mask cl.opts e.addr) = _ := cl.m_allowN_same e.addr (cl.clock e.addr e.t) e.n
    have hfst : (cl.allowN e.addr e.t e.n).1
        = ((cl.bucketOf (mask cl.opts e.addr)).allowN cl.limit cl.burst (cl.clock e.addr e.t) e.n).1 := by
      show (cl.allowNAt e.addr (cl.clock e.addr e.t) e.n).1 = _
      rw [ClientLimiter.allowN_fst]
    have hcap := Bucket.avail_le_cap cl.limit cl.burst (cl.bucketOf (mask cl.opts e.addr)) (cl.clock e.addr e.t)
    have hn : (0:Int) ≤ ((e.n * nano : Nat) : Int) := Int.natCast_nonneg _
    have hge := Bucket.avail_ge cl.limit cl.burst hLpos _ _ (cl.clock e.addr e.t) (hok' _ _ hm')
    try simp only [ClientLimiter.allowNc_limit] at hge
    have hw := fun acc hp => segWalk_ok c slack hslack e.addr es (cl.allowN e.addr e.t e.n).2 _ acc e.t e.t (cl.clock e.addr e.t)
      (by simpa using hopts) hok' (by simpa using hm') (Nat.le_refl _) (cl.clock_ge e.addr e.t) (by simp only; omega) hp
    simp only [ClientLimiter.allowNc_limit, ClientLimiter.allowNc_burst, Nat.sub_self, Nat.mul_zero] at hw
    simp only [ClientLimiter.run, List.map, segBoundS, IH, Bool.and_true]
    simp only [segWalk, beq_self_eq_true, if_true, Nat.min_self, Nat.max_self, Nat.sub_self, Nat.zero_add,
      Bool.and_eq_true, decide_eq_true_eq]
    have hte : (e.toS c).t = e.t := rfl
    have hne : (e.toS c).n = e.n := rfl
    have hid : (e.toS c).id = subnetId c e.addr := rfl
    rw [hte, hne, hid]
    try simp only [Nat.min_self, Nat.max_self, Nat.sub_self]
    cases hd : (cl.allowN e.addr e.t e.n).1 with
    | true =>
      rw [hfst] at hd
      obtain ⟨_, _, h3'⟩ := Bucket.allowN_true hd
      rw [h3'] at hge hw
      try simp only at hge hw
      rw [Bucket.avail_after _ _ _ _ (by omega)] at hge hw
      simp only [if_true]
      refine ⟨?_, hw e.n (by omega)⟩
      simp only [specBudget, ← hB]
      omega
    | false =>
      rw [hfst] at hd
      have h3' := (Bucket.allowN_false hd).2
      rw [h3'] at hge hw
      try simp only at hge hw
      simp only [Bool.false_eq_true, if_false]
      refine ⟨?_, hw 0 (by simp only [Nat.zero_mul]; omega)⟩
      simp only [Nat.zero_mul, specBudget, ← hB]
      have : (0:Int) ≤ ((cl.burst * nano : Nat) : Int) := Int.natCast_nonneg _
      have := specLimit_pos c
      omega

/-! ### isolation, with the clamp -/

theorem ClientLimiter.allowN_congr (c1 c2 : ClientLimiter) (a : Addr) (t n : Nat) (ho : c1.opts = c2.opts)
    (hm : c1.m (mask c1.opts a) = c2.m (mask c1.opts a)) :
    (c1.allowN a t n).1 = (c2.allowN a t n).1 ∧
    (c1.allowN a t n).2.m (mask c1.opts a) = (c2.allowN a t n).2.m (mask c1.opts a) := by
  have hl : c1.limit = c2.limit := by simp [ClientLimiter.limit, ho]
  have hbu : c1.burst = c2.burst := by simp [ClientLimiter.burst, ho]
  have hc : c1.clock a t = c2.clock a t := by
    simp only [ClientLimiter.clock, ← ho, hm]
  simp only [ClientLimiter.allowN, hc, ClientLimiter.allowNAt, Table.set, ← ho, hm, hl, hbu, if_true, and_self]

theorem isolation_clamped (rf : Bool) (k : Addr) :
    ∀ (os : List Op) (c1 c2 : ClientLimiter), c1.opts = c2.opts → c1.m k = c2.m k →
      decisionsFor c1.opts k os (c1.runOpsWith rf os) = c2.runOpsWith rf (onlyKey c1.opts k os) := by
  intro os
  induction os with
  | nil => intro c1 c2 _ _; rfl
  | cons o os ih =>
    intro c1 c2 ho hm
    cases o with
    | gc now only =>
      simp only [ClientLimiter.runOpsWith, decisionsFor, onlyKey]
      have IH := ih (c1.gcWith rf now only) (c2.gcWith rf now only) (by simpa using ho) (ClientLimiter.m_gcWith rf c1 c2 now only k ho hm)
      simpa using IH
    | allow e =>
      by_cases hk : mask c1.opts e.addr = k
      · subst hk
        obtain ⟨hfst, hsnd⟩ := c1.allowN_congr c2 e.addr e.t e.n ho hm
        simp only [ClientLimiter.runOpsWith, decisionsFor, onlyKey, if_true]
        have IH := ih (c1.allowN e.addr e.t e.n).2 (c2.allowN e.addr e.t e.n).2 (by simpa using ho) hsnd
        simp only [ClientLimiter.allowNc_opts] at IH
        rw [hfst, IH]
      · simp only [ClientLimiter.runOpsWith, decisionsFor, onlyKey, hk, if_false]
        have hsnd : (c1.allowN e.addr e.t e.n).2.m k = c2.m k := by
          have h1 : (c1.allowN e.addr e.t e.n).2.m k = c1.m k := c1.m_allowN_other e.addr (c1.clock e.addr e.t) e.n k hk
          rw [h1, hm]
        have IH := ih (c1.allowN e.addr e.t e.n).2 c2 (by simpa using ho) hsnd
        simp only [ClientLimiter.allowNc_opts] at IH
        exact IH

end MosVerif.Limiter
