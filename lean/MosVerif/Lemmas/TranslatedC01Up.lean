/-
  Tie by translation (C01, upstream side): the integer / boolean conditions of the upstream-reply readers
  (`dnsutils.ReadMsgFromTCP`, `dnsutils.ReadMsgFromUDP`, `pipelineConn.readLoop`, `exchangeConn`), translated
  mechanically from the current Go source (`extract/translate.d/C01.json` → `Generated/Translated.lean`), equal
  the named definitions that `Model/UpReply.lean` really uses.
-/
import MosVerif.Generated.Translated
import MosVerif.Model.UpReply
import MosVerif.Lemmas.TranslatedCodecRecord
namespace MosVerif.UpReply
open MosVerif

/-! ### canonical forms of the generated definitions -/

theorem c01up_udpFloor_eq (n : Nat) : Translated.c01up_udpFloor n = if n < 2048 then 2048 else n := by
  unfold Translated.c01up_udpFloor
  by_cases h : n < 2048 <;> simp [h, Id.run] <;> first | rfl | omega

/-- bit 1 of a number, as a mask test and arithmetically -/
theorem land2 (b2 : Nat) : (b2 &&& 2 = 0) ↔ ¬ (b2 / 2 % 2 = 1) := by
  have h := Wire.testBit_land b2 1
  unfold Wire.testBit at h
  have e : (1 <<< 1 : Nat) = 2 := rfl
  rw [e, Nat.pow_one] at h
  by_cases h0 : b2 &&& 2 = 0 <;> by_cases h1 : b2 / 2 % 2 = 1 <;> simp_all

/-- canonical form, by evaluating the generated condition in each of the 2·2·2 cases (so the order of the conjuncts
    and the spelling of the mask / of the comparison in the source do not matter) -/
theorem c01up_udpTcCut_eq (failed : Bool) (n b2 : Nat) :
    Translated.c01up_udpTcCut failed n b2 = (failed && decide (n ≥ 12) && decide ((b2 / 2) % 2 = 1)) := by
  unfold Translated.c01up_udpTcCut
  by_cases h0 : b2 &&& 2 = 0
  · have h2 : ¬ (b2 / 2 % 2 = 1) := (land2 b2).mp h0
    cases failed <;> by_cases h1 : n ≥ 12 <;> simp [h0, h1, h2]
  · have h2 : b2 / 2 % 2 = 1 := Classical.byContradiction fun h => h0 ((land2 b2).mpr h)
    cases failed <;> by_cases h1 : n ≥ 12 <;> simp [h0, h1, h2]

/-! ### the model's definitions ARE the translated ones -/

/-- `if bufSize < 2048 { bufSize = 2048 }` (`ReadMsgFromUDP`) -/
theorem udpFloor_translated (n : Nat) : udpFloor n = Translated.c01up_udpFloor n := by
  rw [c01up_udpFloor_eq]

/-- the read buffer of the model is the translated floor applied to the argument `readLoop` passes -/
theorem udpBuf_translated : udpBuf = Translated.c01up_udpFloor Facts.c01up_udpBufSize := by
  unfold udpBuf; exact udpFloor_translated _

/-- `msgBuf := pool.GetBuf(int(length))` (`ReadMsgFromTCP`): exactly `length` octets are read after the prefix -/
theorem tcpBodyLen_translated (length : Nat) : tcpBodyLen length = Translated.c01up_tcpBodyLen length := by
  unfold Translated.c01up_tcpBodyLen tcpBodyLen
  first | rfl | simp | omega

/-- `err != nil && n >= 12 && b[2]&(1<<1) != 0` (`ReadMsgFromUDP`): with `failed = true` — the `.err` branch of
    `readMsgFromUDPn`, the only place where `headerOnly` is consulted — the condition is `tcCut`; with
    `failed = false` it is false (a decoded message is returned as it is). -/
theorem tcCut_translated (failed : Bool) (n b2 : Nat) :
    (failed && decide (tcCut n b2)) = Translated.c01up_udpTcCut failed n b2 := by
  rw [c01up_udpTcCut_eq]
  cases failed <;> by_cases h1 : n ≥ 12 <;> by_cases h2 : (b2 / 2) % 2 = 1 <;> simp [tcCut, h1, h2]

/-- `headerOnly` answers exactly when the translated condition holds (on the datagram's length and third octet) -/
theorem headerOnly_isSome_translated (a b f : UInt8) (rest : Wire.Bytes) :
    (headerOnly (a :: b :: f :: rest)).isSome =
      Translated.c01up_udpTcCut true (a :: b :: f :: rest).length f.toNat := by
  rw [← tcCut_translated]
  unfold headerOnly
  generalize (a :: b :: f :: rest).length = n
  by_cases h : tcCut n f.toNat
  · simp only [if_pos h, Option.isSome_some, Bool.true_and, decide_eq_true h]
  · simp only [if_neg h, Option.isSome_none, Bool.true_and, decide_eq_false h]

/-- `if n > 0 { … continue }` (`readLoop`, udp) -/
theorem udpSkips_translated (n : Nat) : decide (udpSkips n) = Translated.c01up_udpSkip n := by
  unfold Translated.c01up_udpSkip udpSkips
  by_cases h : n = 0
  · subst h; simp
  · have h1 : n > 0 := by omega
    have h2 : n ≥ 1 := by omega
    have h3 : n ≠ 0 := h
    simp [h1, h2, h3]

/-- `if r.Header.ID != qid { … error }` (`exchangeConn`) -/
theorem idMatches_translated (id qid : Nat) : (!decide (idMatches id qid)) = Translated.c01up_reuseIdMismatch id qid := by
  unfold Translated.c01up_reuseIdMismatch idMatches
  by_cases h : id = qid
  · subst h; simp
  · have h' : ¬ qid = id := fun e => h e.symm
    simp [h, h']

end MosVerif.UpReply
