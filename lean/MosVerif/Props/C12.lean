/-
  C12 — EDNS0 ends at the proxy; ECS reveals only a truncated client prefix.
  Theorems over `Router.handle`, `Router.reqMsg`, `Router.makeECS` for every query, rule list, client
  address and upstream reply (any number of OPT records in any section: `dnsmsg.RemoveEDNS0` removes them all).
-/
import MosVerif.Props.C12Pins
import MosVerif.Lemmas.TranslatedC12
import MosVerif.Lemmas.RouterBasic
import MosVerif.Lemmas.OptPop
import MosVerif.Lemmas.RouterSpecMain
import MosVerif.Model.RouterIO
namespace MosVerif.C12
open MosVerif.Wire MosVerif.Router

/-- "the query contained an OPT record": in ANY section (`queryOpt(m) != nil`) -/
def queryHasOpt (m : Msg) : Bool := queryHasOptAny m

theorem queryHasOpt_iff (m : Msg) :
    queryHasOpt m = (m.answers ++ m.authorities ++ m.additionals).any (fun r => r.rtype == typeOPT) :=
  (queryAny_eq m).symm

theorem countOpt_nil : countOpt [] = 0 := rfl

theorem countOpt_newEDNS0 (size : Nat) (d : Bytes) : countOpt [newEDNS0 size d] = 1 := by
  simp [countOpt, newEDNS0, isOptB]

/-- ★ `dnsmsg.RemoveEDNS0`: whatever the upstream sent — any number of OPT records, in any section — nothing of
    it is left; every other record stays, in order (`relayed` is the specification's "everything but OPT"). -/
theorem stripOpt_spec (x : Msg) :
    RouterIO.optCount (stripOpt x) = 0 ∧ (stripOpt x).answers = RouterIO.relayed x.answers ∧
      (stripOpt x).authorities = RouterIO.relayed x.authorities ∧
      (stripOpt x).additionals = RouterIO.relayed x.additionals ∧
      (stripOpt x).hdr = x.hdr ∧ (stripOpt x).questions = x.questions :=
  ⟨stripOpt_noOpt x, rfl, rfl, rfl, rfl, rfl⟩

/-- what `handleReq` returns never carries an OPT record, in no section: it is either a locally built empty
    response or an upstream reply from which every OPT was removed — no hypothesis on the upstream -/
theorem handleReq_no_opt (env : Env) (q : Question) : RouterIO.optCount (handleReq env q).1 = 0 := by
  rw [← routed_fst]
  exact routed_noOpt env q

theorem supported_notImpl (m : Msg) (q0 : Question) (hq : m.questions = [q0])
    (hs : m.hdr.response = false ∧ m.hdr.rd = true ∧ m.hdr.opcode = 0) : notImpl m = false := by
  simp [notImpl, hs.1, hs.2.1, hs.2.2, hq]

/-- ★ The answer to a supported query contains exactly one OPT record (counting ALL sections) iff the query
    contained one (in any section), and none otherwise — on every path (no rule, reject, forward, upstream
    failure, relayed reply), whatever the upstream replied. -/
theorem resp_opt_iff (env : Env) (m : Msg) (q0 : Question) (hq : m.questions = [q0])
    (hs : m.hdr.response = false ∧ m.hdr.rd = true ∧ m.hdr.opcode = 0) :
    RouterIO.optCount (handle env m).resp = if queryHasOpt m then 1 else 0 := by
  obtain ⟨h1, _⟩ := handle_impl env m q0 (supported_notImpl m q0 hq hs) hq
  rw [h1]
  exact (optFix_opt m _ (handleReq_no_opt env _)).1

/-- ★ … and that OPT record is the proxy's own, in the additional section: UDP size 1200, TTL 0 (no extended
    rcode, version 0, DO clear) and no options — nothing of the upstream's or the client's OPT is relayed. -/
theorem resp_opt_content (env : Env) (m : Msg) (q0 : Question) (hq : m.questions = [q0])
    (hs : m.hdr.response = false ∧ m.hdr.rd = true ∧ m.hdr.opcode = 0)
    (hopt : queryHasOpt m = true) :
    (handle env m).resp.additionals.filter isOptB = [⟨[], typeOPT, 1200, 0, .raw []⟩] := by
  obtain ⟨h1, _⟩ := handle_impl env m q0 (supported_notImpl m q0 hq hs) hq
  rw [h1]
  exact (optFix_opt m _ (handleReq_no_opt env _)).2 hopt

/-- ★ The answer and authority sections of the response never contain an OPT record. -/
theorem resp_no_opt_outside_additional (env : Env) (m : Msg) (q0 : Question) (hq : m.questions = [q0])
    (hs : m.hdr.response = false ∧ m.hdr.rd = true ∧ m.hdr.opcode = 0) :
    (handle env m).resp.answers.filter isOptB = [] ∧ (handle env m).resp.authorities.filter isOptB = [] := by
  obtain ⟨h1, _⟩ := handle_impl env m q0 (supported_notImpl m q0 hq hs) hq
  rw [h1]
  have h0 := handleReq_no_opt env ⟨lowerName q0.name, q0.qtype, q0.qclass⟩
  rw [optCount_parts] at h0
  simp only [fixHdr_answers, optFix_answers, fixHdr_authorities, optFix_authorities]
  show List.filter (fun (x : Resource) => x.rtype == typeOPT) _ = [] ∧ List.filter (fun (x : Resource) => x.rtype == typeOPT) _ = []
  exact ⟨List.length_eq_zero_iff.mp (by omega), List.length_eq_zero_iff.mp (by omega)⟩

/-- ★ A response never contains an OPT record unless the query did: also for unsupported queries. -/
theorem unsupported_no_opt (env : Env) (m : Msg)
    (h : (m.hdr.response || !m.hdr.rd || m.hdr.opcode != 0 || m.questions.length != 1) = true) :
    (handle env m).resp.additionals = [] := by
  unfold handle
  simp [h, makeEmptyRespM]

/-- ★ Every upstream query carries exactly one additional record, an OPT with the proxy's UDP size, whose
    only possible option is the ECS option — present iff ECS is enabled and the client address is known.
    The upstream query is a function of the question, the ECS switch and the client address only:
    nothing of the client's own OPT (cookies, ECS, padding, DO, …) can reach the upstream. -/
theorem upstream_query_one_opt (env : Env) (q : Question) :
    (reqMsg env q).additionals =
      [⟨[], typeOPT, 1200, 0, .raw (if env.ecs ∧ env.addr.isValid then (makeECS env.addr).getD [] else [])⟩] := by
  simp [reqMsg, newEDNS0, udpSize, Facts.udpSize]

theorem client_options_never_forwarded (env : Env) (m m' : Msg)
    (hq : m.questions = m'.questions) (hh : m.hdr = m'.hdr) :
    (handle env m).forwards = (handle env m').forwards := by
  unfold handle
  rw [hq, hh]
  cases m'.questions with
  | nil => simp
  | cons q0 rest =>
    simp only
    split <;> rfl

/-- ★ ECS for an IPv4 client (also when it arrives as an IPv4-mapped IPv6 address): option code 8,
    length 7, family 1, source prefix 24, scope 0 and exactly the first three address octets. -/
theorem ecs_v4 (b0 b1 b2 b3 : UInt8) :
    makeECS (.v4 [b0, b1, b2, b3]) = some [0, 8, 0, 7, 0, 1, 24, 0, b0, b1, b2] := by
  simp [makeECS, Addr.unmap, enc16, ecsLen4, ecsFamily4, ecsKeep4, ecsMask4, Facts.ecs_truncated4, Facts.ecs_mask4, maskBytes, List.range,
    List.range.loop]

theorem ecs_v4mapped (b0 b1 b2 b3 : UInt8) :
    makeECS (.v6 [0, 0, 0, 0, 0, 0, 0, 0, 0, 0, 255, 255, b0, b1, b2, b3]) = makeECS (.v4 [b0, b1, b2, b3]) := by
  simp [makeECS, Addr.unmap]

/-- ★ ECS for an IPv6 client: length 11, family 2, source prefix 56, scope 0, first seven octets. -/
theorem ecs_v6 (a0 a1 a2 a3 a4 a5 a6 a7 a8 a9 a10 a11 a12 a13 a14 a15 : UInt8)
    (hnm : ¬ ([a0, a1, a2, a3, a4, a5, a6, a7, a8, a9] = List.replicate 10 0 ∧ [a10, a11] = [255, 255])) :
    makeECS (.v6 [a0, a1, a2, a3, a4, a5, a6, a7, a8, a9, a10, a11, a12, a13, a14, a15])
      = some [0, 8, 0, 11, 0, 2, 56, 0, a0, a1, a2, a3, a4, a5, a6] := by
  have : Addr.unmap (.v6 [a0, a1, a2, a3, a4, a5, a6, a7, a8, a9, a10, a11, a12, a13, a14, a15])
      = .v6 [a0, a1, a2, a3, a4, a5, a6, a7, a8, a9, a10, a11, a12, a13, a14, a15] := by
    simp only [Addr.unmap, List.take, List.drop]
    rw [if_neg hnm]
  simp [makeECS, this, enc16, ecsLen6, ecsFamily6, ecsKeep6, ecsMask6, Facts.ecs_truncated6, Facts.ecs_mask6, maskBytes, List.range,
    List.range.loop]

/-- no ECS for an unknown client address -/
theorem ecs_none : makeECS .none = none := rfl

/-- ★ The ECS option the proxy builds is octet for octet the one the executable specification expects
    (code 8, length 7 / 11, family, /24 or /56, scope 0, the first 3 / 7 address octets; nothing when ECS is off
    or the address unknown) — for every client address, whatever its length. -/
theorem ecs_matches_spec (env : Env) :
    (if env.ecs ∧ env.addr.isValid then (makeECS env.addr).getD [] else []) = RouterIO.wantEcs env :=
  reqData_eq env

/-- ★ What the upstream receives, decoded from the wire: one additional record, the proxy's own OPT (UDP
    size 1200, TTL 0) carrying exactly the expected ECS option or nothing. -/
theorem upstream_query_wire_opt (env : Env) (q : Question) (hq : questionWF q = true) :
    ∃ wire fm, packReq env q = .ok wire ∧ unpackMsg wire = .ok fm ∧
      fm.additionals = [⟨[], typeOPT, 1200, 0, .raw (RouterIO.wantEcs env)⟩] := by
  obtain ⟨wire, h1, h2⟩ := packReq_decodes env q hq
  exact ⟨wire, _, h1, h2, by rw [reqMsg_eq]; rfl⟩

/-- ★ The EDNS0 judgement of the executable specification (client side: OPT iff the query had one, and then the
    proxy's own; relayed sections = the upstream's minus OPT; upstream side: one OPT, expected ECS data) accepts
    the model on every path, for every decoded query and EVERY upstream reply — the C12 face of
    `C03.model_meets_spec`. -/
theorem edns0_meets_spec (env : Env) (m : Msg) (hm : msgWF m = true) (hrej : ∀ ru ∈ env.rules, ru.reject < 16) :
    RouterIO.spec env m ⟨(handle env m).resp, (handle env m).forwards⟩ = "ok" :=
  spec_model env m (msgWF_parts hm).2.1 hrej

/-- a reply full of OPT records, relayed: all of them are removed, then the fix-up attaches the proxy's own iff
    the query had one -/
theorem all_opts_removed (m x : Msg) :
    RouterIO.optCount (optFix m (stripOpt x)) = if queryHasOpt m then 1 else 0 :=
  (optFix_opt m (stripOpt x) (stripOpt_noOpt x)).1

/-- non-vacuity: OPT records in all three sections of a reply, a query whose only OPT is in its authority
    section, and a concrete v4 witness -/
example : stripOpt ⟨emptyHdr, [], [⟨[], 41, 1, 0, .raw []⟩, ⟨[1, 97], 1, 1, 60, .a [1, 2, 3, 4]⟩],
      [⟨[], 41, 2, 0, .raw []⟩], [⟨[1, 120], 16, 1, 5, .raw []⟩, ⟨[], 41, 3, 0, .raw []⟩, ⟨[], 41, 4, 0, .raw []⟩]⟩
    = ⟨emptyHdr, [], [⟨[1, 97], 1, 1, 60, .a [1, 2, 3, 4]⟩], [], [⟨[1, 120], 16, 1, 5, .raw []⟩]⟩ := by decide
example : queryHasOpt ⟨emptyHdr, [⟨[1, 97], 1, 1⟩], [], [⟨[], 41, 4096, 0, .raw []⟩], []⟩ = true := by decide
example : queryHasOpt ⟨emptyHdr, [⟨[1, 97], 1, 1⟩], [], [], [⟨[1, 120], 16, 1, 5, .raw []⟩]⟩ = false := by decide
example : makeECS (.v4 [192, 0, 2, 77]) = some [0, 8, 0, 7, 0, 1, 24, 0, 192, 0, 2] := by decide

end MosVerif.C12
