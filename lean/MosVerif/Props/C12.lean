/-
  C12 — EDNS0 ends at the proxy; ECS reveals only a truncated client prefix.
  Theorems over `Router.handle`, `Router.reqMsg`, `Router.makeECS` for every query, rule list, client
  address and upstream reply (at most one OPT per message, as RFC 6891 requires and the property states).
-/
import MosVerif.Props.C12Pins
import MosVerif.Lemmas.RouterBasic
import MosVerif.Lemmas.OptPop
import MosVerif.Lemmas.RouterSpecMain
import MosVerif.Model.RouterIO
namespace MosVerif.C12
open MosVerif.Wire MosVerif.Router

def queryHasOpt (m : Msg) : Bool := m.additionals.any (fun r => r.rtype == typeOPT)

/-- every upstream reply carries at most one OPT record (RFC 6891 6.1.1) -/
def UpsOneOpt (env : Env) : Prop :=
  ∀ (u : Nat) (resp : Msg), env.ups[u]? = some (UpOutcome.reply resp) → countOpt resp.additionals ≤ 1

theorem countOpt_nil : countOpt [] = 0 := rfl

theorem countOpt_newEDNS0 (size : Nat) (d : Bytes) : countOpt [newEDNS0 size d] = 1 := by
  simp [countOpt, newEDNS0, isOptB]

/-- what `handleReq` returns never carries an OPT record: it is either a locally built empty
    response or an upstream reply from which the (single) OPT was removed -/
theorem handleReq_no_opt (env : Env) (q : Question) (h : UpsOneOpt env) :
    countOpt (handleReq env q).1.additionals = 0 := by
  unfold handleReq
  split
  · rfl
  · split
    · rfl
    · split
      · rfl
      · split
        · split
          · split
            · rename_i u _ _ _ _ _ resp hup _
              simp only [removeEDNS0]
              rw [countOpt_pop]
              have := h u resp hup
              omega
            · rfl
          · rfl
        · rfl

/-- ★ The answer to a supported query contains exactly one OPT record iff the query contained one,
    and none otherwise — on every path (no rule, reject, forward, upstream failure). -/
theorem resp_opt_iff (env : Env) (m : Msg) (q0 : Question) (hq : m.questions = [q0])
    (hs : m.hdr.response = false ∧ m.hdr.rd = true ∧ m.hdr.opcode = 0) (h : UpsOneOpt env) :
    countOpt (handle env m).resp.additionals = if queryHasOpt m then 1 else 0 := by
  unfold handle
  simp only [hs.1, hs.2.1, hs.2.2, hq, List.length_cons, List.length_nil]
  simp only [Bool.not_true, Bool.or_self, bne_self_eq_false, Bool.false_eq_true, ↓reduceIte, Nat.zero_add]
  have h0 := handleReq_no_opt env { q0 with name := lowerName q0.name } h
  unfold queryHasOpt
  by_cases hopt : (m.additionals.any fun r => r.rtype == typeOPT) = true
  · simp only [hopt, ↓reduceIte, addOrReplaceOpt]
    unfold countOpt at *
    rw [List.countP_append]
    have := countOpt_pop (handleReq env { q0 with name := lowerName q0.name }).1.additionals
    unfold countOpt at this
    rw [this, h0]
    simp [newEDNS0, isOptB]
  · simp only [hopt, Bool.false_eq_true, ↓reduceIte, removeEDNS0]
    rw [countOpt_pop, h0]

/-- ★ … and that OPT record is the proxy's own: UDP size 1200, TTL 0 (no extended rcode, version 0,
    DO clear) and no options — nothing of the upstream's or the client's OPT is relayed. -/
theorem resp_opt_content (env : Env) (m : Msg) (q0 : Question) (hq : m.questions = [q0])
    (hs : m.hdr.response = false ∧ m.hdr.rd = true ∧ m.hdr.opcode = 0) (h : UpsOneOpt env)
    (hopt : queryHasOpt m = true) :
    (handle env m).resp.additionals.filter isOptB = [⟨[], typeOPT, 1200, 0, .raw []⟩] := by
  unfold handle
  simp only [hs.1, hs.2.1, hs.2.2, hq, List.length_cons, List.length_nil]
  simp only [Bool.not_true, Bool.or_self, bne_self_eq_false, Bool.false_eq_true, ↓reduceIte, Nat.zero_add]
  unfold queryHasOpt at hopt
  simp only [hopt, ↓reduceIte, addOrReplaceOpt, List.filter_append]
  have h0 := handleReq_no_opt env { q0 with name := lowerName q0.name } h
  have h1 := countOpt_pop (handleReq env { q0 with name := lowerName q0.name }).1.additionals
  rw [h0] at h1
  unfold countOpt at h1
  rw [List.countP_eq_length_filter, Nat.zero_sub, List.length_eq_zero_iff] at h1
  rw [h1]
  simp [newEDNS0, isOptB, udpSize, Facts.udpSize]

/-- ★ A response never contains an OPT record unless the query did: also for unsupported queries. -/
theorem unsupported_no_opt (env : Env) (m : Msg)
    (h : (m.hdr.response || !m.hdr.rd || m.hdr.opcode != 0 || m.questions.length != 1) = true) :
    (handle env m).resp.additionals = [] := by
  unfold handle
  simp [h, makeEmptyRespM]

/-- ★ Every upstream query carries exactly one additional record, an OPT with the proxy's UDP size, whose
    only possible option is the ECS option — present iff ECS is enabled and the client address is known.
    The upstream query is a function of the question, the ECS switch and the client address only:
    nothing of the client's own OPT (cookies, ECS, padding, DO, …) can reach the upstream. -/
theorem upstream_query_one_opt (env : Env) (q : Question) :
    (reqMsg env q).additionals =
      [⟨[], typeOPT, 1200, 0, .raw (if env.ecs ∧ env.addr.isValid then (makeECS env.addr).getD [] else [])⟩] := by
  simp [reqMsg, newEDNS0, udpSize, Facts.udpSize]

theorem client_options_never_forwarded (env : Env) (m m' : Msg)
    (hq : m.questions = m'.questions) (hh : m.hdr = m'.hdr) :
    (handle env m).forwards = (handle env m').forwards := by
  unfold handle
  rw [hq, hh]
  cases m'.questions with
  | nil => simp
  | cons q0 rest =>
    simp only
    split <;> rfl

/-- ★ ECS for an IPv4 client (also when it arrives as an IPv4-mapped IPv6 address): option code 8,
    length 7, family 1, source prefix 24, scope 0 and exactly the first three address octets. -/
theorem ecs_v4 (b0 b1 b2 b3 : UInt8) :
    makeECS (.v4 [b0, b1, b2, b3]) = some [0, 8, 0, 7, 0, 1, 24, 0, b0, b1, b2] := by
  simp [makeECS, Addr.unmap, enc16, ecsKeep4, ecsMask4, Facts.ecs_truncated4, Facts.ecs_mask4, maskBytes, List.range,
    List.range.loop]

theorem ecs_v4mapped (b0 b1 b2 b3 : UInt8) :
    makeECS (.v6 [0, 0, 0, 0, 0, 0, 0, 0, 0, 0, 255, 255, b0, b1, b2, b3]) = makeECS (.v4 [b0, b1, b2, b3]) := by
  simp [makeECS, Addr.unmap]

/-- ★ ECS for an IPv6 client: length 11, family 2, source prefix 56, scope 0, first seven octets. -/
theorem ecs_v6 (a0 a1 a2 a3 a4 a5 a6 a7 a8 a9 a10 a11 a12 a13 a14 a15 : UInt8)
    (hnm : ¬ ([a0, a1, a2, a3, a4, a5, a6, a7, a8, a9] = List.replicate 10 0 ∧ [a10, a11] = [255, 255])) :
    makeECS (.v6 [a0, a1, a2, a3, a4, a5, a6, a7, a8, a9, a10, a11, a12, a13, a14, a15])
      = some [0, 8, 0, 11, 0, 2, 56, 0, a0, a1, a2, a3, a4, a5, a6] := by
  have : Addr.unmap (.v6 [a0, a1, a2, a3, a4, a5, a6, a7, a8, a9, a10, a11, a12, a13, a14, a15])
      = .v6 [a0, a1, a2, a3, a4, a5, a6, a7, a8, a9, a10, a11, a12, a13, a14, a15] := by
    simp only [Addr.unmap, List.take, List.drop]
    rw [if_neg hnm]
  simp [makeECS, this, enc16, ecsKeep6, ecsMask6, Facts.ecs_truncated6, Facts.ecs_mask6, maskBytes, List.range,
    List.range.loop]

/-- no ECS for an unknown client address -/
theorem ecs_none : makeECS .none = none := rfl

/-- ★ The ECS option the proxy builds is octet for octet the one the executable specification expects
    (code 8, length 7 / 11, family, /24 or /56, scope 0, the first 3 / 7 address octets; nothing when ECS is off
    or the address unknown) — for every client address, whatever its length. -/
theorem ecs_matches_spec (env : Env) :
    (if env.ecs ∧ env.addr.isValid then (makeECS env.addr).getD [] else []) = RouterIO.wantEcs env :=
  reqData_eq env

/-- ★ What the upstream receives, decoded from the wire: one additional record, the proxy's own OPT (UDP
    size 1200, TTL 0) carrying exactly the expected ECS option or nothing. -/
theorem upstream_query_wire_opt (env : Env) (q : Question) (hq : questionWF q = true) :
    ∃ wire fm, packReq env q = .ok wire ∧ unpackMsg wire = .ok fm ∧
      fm.additionals = [⟨[], typeOPT, 1200, 0, .raw (RouterIO.wantEcs env)⟩] := by
  obtain ⟨wire, h1, h2⟩ := packReq_decodes env q hq
  exact ⟨wire, _, h1, h2, by rw [reqMsg_eq]; rfl⟩

/-- ★ The EDNS0 judgement of the executable specification (client side: OPT iff the query had one, and then the
    proxy's own; upstream side: one OPT, expected ECS data) accepts the model on every path, for every decoded
    query — the C12 face of `C03.model_meets_spec`, under this file's `UpsOneOpt`. -/
theorem edns0_meets_spec (env : Env) (m : Msg) (hm : msgWF m = true) (hrej : ∀ ru ∈ env.rules, ru.reject < 16)
    (hups : UpsOneOpt env) :
    RouterIO.spec env m ⟨(handle env m).resp, (handle env m).forwards⟩ = "ok" :=
  spec_model env m (msgWF_parts hm).2.1 hrej (fun u resp h => Nat.le_succ_of_le (hups u resp h))

/-- `UpsOneOpt` is not the weakest condition: a second OPT in the relayed reply is removed by the EDNS0 fix-up of
    `handleReqMsg` (`PopEDNS0` before the proxy's own OPT is attached) — two are harmless, three are not
    (see the examples next to `C03.model_meets_spec`). -/
theorem two_opts_removed (m x : Msg) (hx : countOpt x.additionals ≤ 2) :
    countOpt (optFix m (removeEDNS0 x)).additionals = if queryHasOpt m then 1 else 0 := by
  have h1 : countOpt (removeEDNS0 x).additionals ≤ 1 := by
    simp only [removeEDNS0]; rw [countOpt_pop]; omega
  have := (optFix_opt m (removeEDNS0 x) h1).1
  rw [optCount_eq] at this
  exact this

/-- non-vacuity of `UpsOneOpt`, and a concrete v4 witness -/
example : UpsOneOpt ⟨true, .v4 [10, 1, 2, 3], [], [.fail]⟩ := by
  unfold UpsOneOpt
  intro u resp h
  cases u with
  | zero => simp at h
  | succ n => simp at h
example : makeECS (.v4 [192, 0, 2, 77]) = some [0, 8, 0, 7, 0, 1, 24, 0, 192, 0, 2] := by decide

end MosVerif.C12
