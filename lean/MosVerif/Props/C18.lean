/-
  C18 — Shutdown and failed start-up are orderly.

  Models:  Model/Startup.lean  router `run` (sequential start with a closer list), `close` (sync.Once), `closeImpl`
           Model/Close.lean    close protocol of the upstream transports (reuse / https tracker, pipelined, quic)
           Model/Shutdown.lean a running router with traffic that is closed
  Lemmas:  Lemmas/StartupLemmas, CloseLemmas (invariants), CloseHistory, CloseSpec, ShutdownLemmas.
  ★ marks the property theorems of DESIGN §5 C18.  Every ★ theorem quantifies over all configurations / all
  positions of the failing item / all operation sequences / all numbers of queries in flight — no bounds.
  Promptness and absence of deadlock of the real code are observed by the harness with time-outs, not proved:
  the models are sequentially consistent step machines (one step per lock acquisition / gate).
-/
import MosVerif.Lemmas.StartupLemmas
import MosVerif.Lemmas.CloseSpec
import MosVerif.Lemmas.ShutdownLemmas
import MosVerif.Lemmas.TranslatedC18
import MosVerif.Lemmas.LockOrder
import MosVerif.Generated.Facts
namespace MosVerif.C18

/-! ## start-up and shutdown of the router -/
section startup
open MosVerif.Startup

/-- ★ A start-up failure is orderly — for EVERY staged configuration and EVERY position of the first failing
    item (metrics endpoint, upstream, domain set, rule, memory cache, redis backend, ip marker, listener): `run`
    returns an error, nothing panics, no nil closer is ever called, the items behind the failing one are never
    touched, and EVERY stage that had been started is released: afterwards no item owns a socket, a connection
    or goroutines.  The backends that `initCache` had started when its redis or ip-marker stage fails are closed
    by its own error path (`c.Close()`, `r.cache` is still nil); everything else by the deferred `close`, in the
    order of `closeImpl`: context, limiter, upstreams, the cache that was assigned, listeners 0..i−1. -/
theorem startup_failure_clean (pre post : List Item) (it : Item)
    (hpre : ∀ x ∈ pre, x.ok = true) (hit : it.ok = false) (hst : staged (pre ++ it :: post) = true) :
    let res := run (pre ++ it :: post)
    res.err = true ∧ res.w.panicked = false ∧ Act.nilCall ∉ res.w.acts ∧
    res.w.live = [] ∧
    res.attempted = List.range (pre.length + 1) ∧
    res.r.closeDone = true ∧
    res.w.acts =
      (if releasesLocal it.kind then (afterPrefix pre).1.cacheLocal.map .cacheClose else []) ++
      [.cancel, .limiterClose] ++ (upstreamIds 0 pre).map .upClose
        ++ ((afterPrefix pre).1.cache.getD []).map .cacheClose ++ (listenerIds 0 pre).map .srvClose := by
  have hlive := live_after_fail pre it (staged_local pre post it hst)
  simp only [run_failure pre post it hpre hit, hlive]
  by_cases hrel : releasesLocal it.kind = true
  · have hfc : failState pre it =
        ({ (afterPrefix pre).1 with cacheLocal := [] },
          closeBackends (afterPrefix pre).1.cacheLocal (afterPrefix pre).2) := by
      unfold failState
      cases hk : it.kind <;> simp [releasesLocal, hk] at hrel <;> simp [failCleanup, hk]
    simp [hfc, hrel, afterPrefix, closeImpl_eq, closeBackends_eq]
  · have hfc : failState pre it = afterPrefix pre := by
      unfold failState
      cases hk : it.kind <;> simp [releasesLocal, hk] at hrel <;> simp [failCleanup, hk]
    simp [hfc, hrel, afterPrefix, closeImpl_eq]

/-- the hypotheses of `startup_failure_clean` are satisfiable, and its conclusion is about real work:
    two listeners and a quic upstream are started, the third listener fails, all three are closed. -/
example :
    (run [⟨.upstream, true, true⟩, ⟨.server, true, true⟩, ⟨.server, true, true⟩, ⟨.server, false, true⟩,
          ⟨.server, true, true⟩]).w.acts
      = [.cancel, .limiterClose, .upClose 0, .srvClose 1, .srvClose 2] := by decide

/-- the cache stage: the memory cache is running when the redis backend cannot be reached — `initCache`'s own
    error path closes it (`r.cache` was never assigned, `closeImpl` alone would not: second example);
    and a listener that fails later finds the cache assigned, `closeImpl` closes it. -/
example :
    (run [⟨.upstream, true, false⟩, ⟨.memCache, true, true⟩, ⟨.redisCache, false, true⟩, ⟨.cacheDone, true, false⟩,
          ⟨.server, true, true⟩]).w
      = { live := [], acts := [.cacheClose 1, .cancel, .limiterClose, .upClose 0], panicked := false } := by
  decide
example : (closeImpl ⟨[], [1], none, [], false⟩ { live := [1] }).live = [1] := by decide
example :
    (run [⟨.memCache, true, true⟩, ⟨.cacheDone, true, false⟩, ⟨.server, true, true⟩, ⟨.server, false, true⟩]).w
      = { live := [], acts := [.cancel, .limiterClose, .cacheClose 0, .srvClose 2], panicked := false } := by
  decide

/-- every configuration either starts completely or has a first failing item (so the theorem above and
    `startup_ok` below cover every configuration). -/
theorem startup_cases (cfg : List Item) :
    (∀ x ∈ cfg, x.ok = true) ∨
    ∃ pre it post, cfg = pre ++ it :: post ∧ (∀ x ∈ pre, x.ok = true) ∧ it.ok = false :=
  split_first_fail cfg

/-- every configuration the code can run is staged: the sub-stages of `initCache` (memory cache first) are
    followed by the assignment `r.cache = cache` before anything else is started. -/
example : staged [⟨.metrics, true, true⟩, ⟨.upstream, true, false⟩, ⟨.memCache, true, true⟩,
    ⟨.redisCache, false, true⟩, ⟨.ipMarker, true, false⟩, ⟨.cacheDone, true, false⟩, ⟨.server, true, true⟩] = true := by
  decide

/-- a configuration whose items all initialise: `run` returns the router, nothing has been closed, every
    closer that was registered is non-nil. -/
theorem startup_ok (cfg : List Item) (h : ∀ x ∈ cfg, x.ok = true) :
    let res := run cfg
    res.err = false ∧ res.w.panicked = false ∧ res.w.acts = [] ∧ res.r.closeDone = false ∧
    res.w.live = resIds 0 cfg ∧ (∀ c ∈ res.r.closers, c ≠ none) := by
  simp only [run_success cfg h]
  simp [afterPrefix]

/-- ★ `close` is idempotent (sync.Once): a second close changes nothing — for every router state. -/
theorem router_close_idempotent (r : Router) (w : World) :
    close (close r w).1 (close r w).2 = close r w := by
  by_cases h : r.closeDone = true <;> simp [close, h]

/-- ★ order of `closeImpl` — for every router whose closers are all non-nil: cancel the context, close the
    limiter, every upstream, the backends of the cache (if assigned), then the listeners in the order they were
    started; nothing panics and nothing that was registered keeps its resource. -/
theorem close_order (ups loc : List Nat) (c : Option (List Nat)) (ls : List Nat) (w : World) :
    closeImpl ⟨ups, loc, c, ls.map some, false⟩ w =
      { live := ((w.live.filter (fun i => !ups.contains i)).filter (fun i => !(c.getD []).contains i)).filter
                  (fun i => !ls.contains i)
        acts := w.acts ++ [.cancel, .limiterClose] ++ ups.map .upClose ++ (c.getD []).map .cacheClose
                  ++ ls.map .srvClose
        panicked := w.panicked } :=
  closeImpl_eq ups loc c ls false w

/-- ★ shutdown of a started router: after `close` (any number ≥ 1 of times) nothing owns a resource and there
    was no panic — for every staged configuration. -/
theorem shutdown_clean (cfg : List Item) (h : ∀ x ∈ cfg, x.ok = true) (hst : staged cfg = true) (n : Nat) :
    let res := runThenClose cfg (n + 1)
    res.err = false ∧ res.w.panicked = false ∧ res.w.live = [] ∧ Act.nilCall ∉ res.w.acts ∧
    res.w = (runThenClose cfg 1).w := by
  have hl := live_after_close cfg hst
  simp only [runThenClose, run_success cfg h, closeN, close, afterPrefix] at hl ⊢
  simp only [Bool.false_eq_true, if_false]
  rw [closeN_closed n _ _ rfl]
  simp [closeImpl_eq] at hl ⊢
  exact hl

/-- the nil-closer panic is really in the model: had `run` registered the nil closer of a failed listener
    (defect D12), close would panic. -/
example : (closeImpl ⟨[], [], none, [some 0, none], false⟩ {}).panicked = true := by decide

/-- ★ the model meets the executable specification that judges the implementation's observations
    (error iff some item fails, never a panic; no address still bound; no socket or goroutine left) —
    for EVERY staged configuration and any number of additional `close` calls. -/
theorem startup_model_meets_spec (cfg : List Item) (hst : staged cfg = true) (n : Nat) :
    spec cfg (obsOf (runThenClose cfg (n + 1))) = true := by
  rcases split_first_fail cfg with h | ⟨pre, it, post, rfl, hp, hi⟩
  · have hs := shutdown_clean cfg h hst n
    simp only at hs
    obtain ⟨h1, h2, h3, _, _⟩ := hs
    have hany : cfg.any (fun it => !it.ok) = false := by
      simp only [List.any_eq_false]
      intro x hx
      simp [h x hx]
    simp [spec, obsOf, h1, h2, h3, hany]
  · have hf := startup_failure_clean pre post it hp hi hst
    simp only at hf
    obtain ⟨h1, h2, _, h4, _⟩ := hf
    have hany : (pre ++ it :: post).any (fun it => !it.ok) = true := by
      simp [hi]
    simp [spec, obsOf, runThenClose, h1, h2, h4, hany]

/-- the specification is not vacuous: it rejects a panic, a success after a failure, a port left bound, a leak. -/
example : spec [⟨.server, false, true⟩] ⟨"panic", [], 0⟩ = false := by decide
example : spec [⟨.server, true, true⟩, ⟨.server, false, true⟩] ⟨"err", [0], 0⟩ = false := by decide
example : spec [⟨.server, true, true⟩, ⟨.server, false, true⟩] ⟨"err", [], 1⟩ = false := by decide
example : spec [⟨.server, true, true⟩, ⟨.server, false, true⟩] ⟨"ok", [], 0⟩ = false := by decide
example : spec [⟨.server, true, true⟩, ⟨.server, false, true⟩] ⟨"err", [], 0⟩ = true := by decide
example : spec [⟨.server, true, true⟩] ⟨"ok", [], 0⟩ = true := by decide

end startup

/-! ## close protocol of the upstream transports (Model/Close.lean)

  All statements are about every transport kind (reuse / https tracker, pipelined, quic) and every state that
  is reachable by ANY sequence of operations: exchanges starting, dials returning (with a connection or an
  error, before or after Close), replies, cancellations of the callers' contexts, idle time-outs, Close. -/
section close
open MosVerif.Close

/-- ★ `Close` is idempotent: closing a closed transport changes nothing — for every state. -/
theorem close_idempotent (s : St) : closeOp (closeOp s) = closeOp s := close_idem s

/-- `Close` closes: the transport is closed afterwards, and stays closed whatever happens next. -/
theorem close_closes (s : St) (ops : List Op) : (run (closeOp s) ops).closed = true :=
  closed_run _ _ (closeOp_closed s)

/-- ★ after Close every connection is closed — tracked or not, whatever happened before and whatever
    happens afterwards (late dials, releases, further exchanges, repeated Close). -/
theorem after_close_all_closed (k : Kind) (ops : List Op) :
    (run (init k) ops).closed = true → ∀ c ∈ (run (init k) ops).conns, c.isOpen = false :=
  (reach_inv k ops).closedNoOpen

/-- the reason Close reaches every connection: in every reachable state an open connection is tracked. -/
theorem open_conns_are_tracked (k : Kind) (ops : List Op) :
    ∀ c ∈ (run (init k) ops).conns, c.isOpen = true → c.tracked = true :=
  (reach_inv k ops).openTracked

/-- ★ a dial that completes after Close: the new connection is closed and not tracked, the dial is no longer
    pending, every caller that waited for it has an error, nobody is left on it, and (again) no connection at
    all is open — for every reachable closed state with that dial pending. -/
theorem late_dial_closed (k : Kind) (ops : List Op) (d : Nat)
    (hc : (run (init k) ops).closed = true) (hd : (run (init k) ops).hasDial d = true) :
    let s' := step (run (init k) ops) (.dialOk d)
    (⟨d, false, false, false, 0⟩ : Conn) ∈ s'.conns ∧
    (∀ c ∈ s'.conns, c.isOpen = false) ∧
    s'.hasDial d = false ∧
    (∀ x ∈ s'.exs, x.loc ≠ .dial d) ∧
    (∀ x ∈ (run (init k) ops).exs, x.loc = .dial d → ∃ y ∈ s'.exs, y.id = x.id ∧ y.res ≠ none) := by
  have hinv : Inv (step (run (init k) ops) (.dialOk d)) := inv_step _ _ (reach_inv k ops)
  have hcl := closed_step _ (.dialOk d) hc
  refine ⟨?_, hinv.closedNoOpen hcl, ?_, ?_, ?_⟩
  · simp [step, late_dial _ d hc hd]
  · simp [step, late_dial _ d hc hd, St.hasDial]
  · simp only [step, late_dial _ d hc hd, failWaiters, List.mem_map]
    rintro x ⟨y, _, rfl⟩
    split <;> simp_all
  · intro x hx hl
    refine ⟨{ x with res := x.res.or (some .err), loc := .none }, ?_, rfl, ?_⟩
    · simp only [step, late_dial _ d hc hd, failWaiters, List.mem_map]
      exact ⟨x, hx, by simp [hl]⟩
    · cases x.res <;> simp

/-- non-vacuity: a reachable closed state with a pending (stubborn) dial, and the late dial's connection. -/
example : (run (init .reuse) [.start 1 true, .close]).closed = true ∧
    (run (init .reuse) [.start 1 true, .close]).hasDial 1 = true ∧
    (run (init .reuse) [.start 1 true, .close, .dialOk 1]).conns = [⟨1, false, false, false, 0⟩] ∧
    (run (init .reuse) [.start 1 true, .close, .dialOk 1]).exs = [⟨1, some .err, .none⟩] := by decide

/-- ★ an exchange that starts after Close fails at once: it gets an error, dials nothing and touches no
    connection — for every closed state and every new exchange. -/
theorem after_close_exchange_fails (s : St) (e : Nat) (b : Bool)
    (hc : s.closed = true) (he : s.hasEx e = false) :
    step s (.start e b) = { s with exs := s.exs ++ [⟨e, some .err, .none⟩] } :=
  start_after_close s e b hc he

/-- ★ in-flight exchanges fail instead of hanging: right after Close (in any reachable state) a caller that
    has not returned can only be waiting for a dial whose DialContext ignores the cancellation of its context
    — never on a pipelined transport — and every caller that was on a connection has an error. -/
theorem close_fails_in_flight (k : Kind) (ops : List Op) :
    let s := run (init k) (ops ++ [.close])
    (∀ x ∈ s.exs, x.res = none → (∃ d ∈ s.dials, x.loc = .dial d.id ∧ d.stubborn = true) ∧ k ≠ .pipe) := by
  intro s x hx hn
  have hinv : Inv s := reach_inv k _
  have hc : s.closed = true := by
    simp only [s, run, List.foldl_append, List.foldl_cons, List.foldl_nil, step]
    exact closeOp_closed _
  obtain ⟨⟨d, hd, hl⟩, hk⟩ := hinv.closedBlocked hc x hx hn
  refine ⟨⟨d, hd, hl, hinv.closedDials hc d hd⟩, ?_⟩
  have : s.kind = k := run_kind (init k) (ops ++ [.close])
  simpa [this] using hk

/-- ★ nothing hangs: once the transport is closed and no dial is pending any more, every exchange has
    returned — for every reachable state; in particular at the end of every script of the harness, whose
    epilogue lets every pending dial return. -/
theorem no_hang_after_close (k : Kind) (ops : List Op)
    (hc : (run (init k) ops).closed = true) (hd : (run (init k) ops).dials = []) :
    ∀ x ∈ (run (init k) ops).exs, x.res ≠ none := by
  intro x hx hn
  obtain ⟨⟨d, hdm, _⟩, _⟩ := (reach_inv k ops).closedBlocked hc x hx hn
  simp [hd] at hdm

theorem script_no_hang (k : Kind) (ops : List Op) (hc : (run (init k) ops).closed = true) :
    let s := epilogue (run (init k) ops)
    s.closed = true ∧ s.dials = [] ∧ (∀ c ∈ s.conns, c.isOpen = false) ∧ (∀ x ∈ s.exs, x.res ≠ none) := by
  have hinv := epilogue_inv _ (reach_inv k ops)
  have hcl := epilogue_closed _ hc
  have hdl := epilogue_dials _ hc
  refine ⟨hcl, hdl, hinv.closedNoOpen hcl, ?_⟩
  intro x hx hn
  obtain ⟨⟨d, hdm, _⟩, _⟩ := hinv.closedBlocked hcl x hx hn
  simp [hdl] at hdm

/-- ★ after Close no exchange succeeds any more: an exchange that is `ok` after a step taken in a closed
    state was `ok` before it (only a reply that arrived before Close makes an exchange succeed). -/
theorem no_success_after_close (k : Kind) (ops : List Op) (op : Op)
    (hc : (run (init k) ops).closed = true) :
    ∀ x ∈ (step (run (init k) ops) op).exs, x.res = some .ok →
      ∃ y ∈ (run (init k) ops).exs, y.id = x.id ∧ y.res = some .ok :=
  no_ok_after_close _ op (reach_inv k ops) hc

/-- non-vacuity / sanity of the model: Close during an exchange fails it, a reply before Close succeeds. -/
example : (run (init .pipe) [.start 1 false, .dialOk 1, .close]).exs = [⟨1, some .err, .none⟩] := by decide
example : (run (init .quic) [.start 1 false, .dialOk 1, .reply 1, .close]).exs = [⟨1, some .ok, .none⟩] := by decide

/-! ### wire-id exhaustion of a pipelined connection -/

/-- a pipelined connection whose wire ids are used up is never picked again -/
theorem exhausted_conn_not_picked (c : Conn) (h : usable .pipe c = true) : 0 < c.left := by
  simp only [usable, Bool.and_eq_true, Bool.or_eq_true, decide_eq_true_eq] at h
  rcases h.2 with h | h
  · exact absurd h (by decide)
  · exact h

/-- the self-close of an exhausted connection only hits connections without a query in flight: whatever
    `sweep` closes was closed already, or had no ids left and nobody waiting on it. -/
theorem sweep_closes_only_idle_exhausted (s : St) :
    ∀ c ∈ (sweep s).conns, c.isOpen = false →
      ∃ c0 ∈ s.conns, c0.id = c.id ∧
        (c0.isOpen = false ∨
          (c0.left = 0 ∧ ∀ x ∈ s.exs, x.res = none → x.loc ≠ .conn c0.id)) := by
  intro c hc ho
  unfold sweep at hc
  split at hc
  · simp only [List.mem_map] at hc
    obtain ⟨c0, hc0, rfl⟩ := hc
    refine ⟨c0, hc0, ?_, ?_⟩
    · split <;> rfl
    · split at ho
      · rename_i hcond
        right
        simp only [Bool.and_eq_true, decide_eq_true_eq, Bool.not_eq_true', List.any_eq_false] at hcond
        refine ⟨hcond.1, ?_⟩
        intro x hx hn hl
        exact hcond.2 x hx ⟨by simp [hn], by simp [hl]⟩
      · exact Or.inl ho
  · exact ⟨c, hc, rfl, Or.inl ho⟩

/-- non-vacuity: the history of the seeded defect is reachable in the model — one connection, 65534 ids burnt,
    the last two taken by unanswered queries, a further exchange has to dial, one caller gives up: the exhausted
    connection is still open AND tracked (`open_conns_are_tracked`), so Close closes it and fails its caller. -/
example :
    (run (init .pipe) [.start 1 false, .dialOk 1, .reply 1, .burn 2, .start 2 false, .start 3 false,
        .start 4 false, .cancel 2]).conns = [⟨1, true, true, false, 0⟩] ∧
    (run (init .pipe) [.start 1 false, .dialOk 1, .reply 1, .burn 2, .start 2 false, .start 3 false,
        .start 4 false, .cancel 2, .close]).conns = [⟨1, false, true, false, 0⟩] ∧
    (run (init .pipe) [.start 1 false, .dialOk 1, .reply 1, .burn 2, .start 2 false, .start 3 false,
        .start 4 false, .cancel 2, .close]).exs =
      [⟨1, some .ok, .none⟩, ⟨2, some .ctx, .none⟩, ⟨3, some .err, .none⟩, ⟨4, some .err, .none⟩] := by
  decide

/-- and an exhausted connection closes itself once its last query is answered -/
example :
    (run (init .pipe) [.start 1 false, .dialOk 1, .reply 1, .burn 1, .start 2 false, .reply 2]).conns
      = [⟨1, false, true, false, 0⟩] := by decide

/-- ★ the model meets the executable specification that judges the implementation's observations (every
    Close returns, also the repeated ones; no exchange is left hanging; exchanges started after the Close fail;
    exchanges in flight at the Close do not succeed; no connection is left open, late dials included; nobody is
    blocked once Close has returned unless the script's dialer ignores its context) — for EVERY transport kind,
    both modes and EVERY script. -/
theorem closeproto_model_meets_spec (k : Kind) (auto : Bool) (ops : List Op) :
    spec auto ops (obsOf ((fullOps auto ops).filter (· == .close)).length (runScript k auto ops)) = true :=
  model_meets_spec k auto ops

/-- the specification is not vacuous: it rejects a hanging exchange, a success after Close, an exchange in
    flight that succeeds, an open connection, a Close that did not return, a blocked caller after Close. -/
example : spec false [.start 1 false, .close] ⟨[(1, "pend")], some 1, 0, []⟩ = false := by decide
example : spec false [.close, .start 1 false] ⟨[(1, "ok")], some 1, 0, []⟩ = false := by decide
example : spec false [.start 1 false, .dialOk 1, .close] ⟨[(1, "ok")], some 1, 0, []⟩ = false := by decide
example : spec false [.start 1 true, .close, .dialOk 1] ⟨[(1, "err")], some 1, 1, [1]⟩ = false := by decide
example : spec false [.close, .close] ⟨[], some 1, 0, []⟩ = false := by decide
example : spec false [.start 1 false, .close] ⟨[(1, "err")], some 1, 0, [1]⟩ = false := by decide
example : spec false [.start 1 false, .dialOk 1, .reply 1, .close, .start 2 false]
    ⟨[(1, "ok"), (2, "err")], some 1, 0, []⟩ = true := by decide

end close

/-! ## shutdown of a running router with traffic (Model/Shutdown.lean) -/
section shutdown
open MosVerif.Shutdown

/-- ★ shutdown with traffic meets the specification — for EVERY configuration whose items all start, every
    upstream kind, with or without a warm-up query and for EVERY number `n` of queries in flight: `run`
    succeeds, both closes return, each of the `n` in-flight queries and the query that arrives after the close
    fail (SERVFAIL) instead of hanging or succeeding, no listening address stays bound and no socket or upstream
    connection stays open. -/
theorem shutdown_model_meets_spec (cfg : List Startup.Item) (h : ∀ x ∈ cfg, x.ok = true)
    (hst : Startup.staged cfg = true) (k : Close.Kind) (warm : Bool) (n : Nat) :
    Shutdown.spec (model cfg k warm n) = true := by
  obtain ⟨h1, h2, h3, _, _⟩ := shutdown_clean cfg h hst 1
  obtain ⟨hin, haf, hop⟩ := upstream_side k warm n
  have hall : (List.range n).all
      (fun i => resOf (Close.runScript k true (script warm n)) (i + 1) == some Close.Res.err) = true := by
    simp only [List.all_eq_true, List.mem_range]
    intro i hi
    simp [hin i hi]
  have hres : (Startup.obsOf (Startup.runThenClose cfg 2)).res = "ok" := by
    simp [Startup.obsOf, h1, h2]
  unfold Shutdown.spec model
  simp only [hall, haf, hop, h3, hres, if_true]
  cases warm
  · simp only [Bool.false_eq_true, if_false]
    decide
  · simp only [if_true]
    split <;> decide

/-- the specification is not vacuous -/
example : Shutdown.spec ⟨"ok", "ok", some 2, "hang", "fail", [], 0⟩ = false := by decide
example : Shutdown.spec ⟨"ok", "ok", some 2, "fail", "ok", [], 0⟩ = false := by decide
example : Shutdown.spec ⟨"ok", "-", some 1, "fail", "fail", [], 0⟩ = false := by decide
example : Shutdown.spec ⟨"ok", "-", some 2, "fail", "fail", [3], 0⟩ = false := by decide
example : Shutdown.spec ⟨"ok", "-", some 2, "fail", "fail", [], 1⟩ = false := by decide
example : Shutdown.spec ⟨"ok", "ok", some 2, "fail", "fail", [], 0⟩ = true := by decide

end shutdown

/-! ## tie: pinned source facts -/

/-- The statement order in `run`'s listener loop (start, error check with `return`, only then the append),
    the deferred close on error, `closeOnce`, the body of `closeImpl`, and `startServer` returning a nil
    closer together with every error. -/
theorem pins_startup :
    Facts.c18_startLoop =
      "for i, serverCfg := range cfg.Servers { closer, err := r.startServer(&serverCfg) if err != nil { err = fmt.Errorf(\"failed to start server #%d, %w\", i, err) return nil, err } r.serverClosers = append(r.serverClosers, closer) }" ∧
    Facts.c18_startCall = "closer, err := r.startServer(&serverCfg)" ∧
    Facts.c18_appendCloser = "r.serverClosers = append(r.serverClosers, closer)" ∧
    Facts.c18_startCount = 1 ∧ Facts.c18_appendCloserCount = 1 ∧
    Facts.c18_deferClose = "defer func() { if err != nil { r.close(err) } }()" ∧
    Facts.c18_closeOnce = "r.closeOnce.Do(func() { r.closeImpl(err) })" ∧
    Facts.c18_closeImpl =
      "{ r.cancel(err) r.limiter.Close() for _, u := range r.upstreams { u.u.Close() } if r.cache != nil { r.cache.Close() } for _, f := range r.serverClosers { f() } }" ∧
    Facts.c18_startServerDefault = "return nil, fmt.Errorf(\"invalid server protocol [%s]\", cfg.Protocol)" ∧
    Facts.c18_startServerNilOnErr = 8 := by
  (repeat' apply And.intro) <;> rfl

/-- The close protocol in the source: every transport's `Close` (mark closed under the lock, close what is
    tracked, cancel), the `closed` checks where a dial registers its connection (reuse asyncDial, quic
    runDialingCall incl. waking the waiters, the https `connTracker.track`) and where a connection is released
    (releaseConn); `DoHTransport.Close` delegating to its closer (D13); the https closer closing the tracked
    connections (D14); quic/h3 upstreams and the quic listener closing their QUIC transport and UDP socket;
    the fasthttp listener closing its net.Listener; udpWithFallback closing both legs. -/
theorem pins_close :
    Facts.c18_dohClose = "{ if u.closer != nil { return u.closer.Close() } return nil }" ∧
    Facts.c18_fallbackClose = "{ u.u.Close() u.t.Close() return nil }" ∧
    Facts.c18_fastHttpClose = "{ s.closed.Store(true) ctx, cancel := context.WithTimeout(context.Background(), time.Millisecond*100) err := s.s.ShutdownWithContext(ctx) cancel() s.l.Close() s.m.Lock() for c := range s.conns { c.Close() } s.m.Unlock() if errors.Is(err, context.DeadlineExceeded) { err = nil } return err }" ∧
    Facts.c18_fastHttpShutdownInStartServer = 0 ∧
    Facts.c18_h3Closer = "addonCloser = closerFunc(func() error { quicTransport.Close(); return conn.Close() })" ∧
    Facts.c18_httpsCloser = "addonCloser = closerFunc(func() error { t1.CloseIdleConnections(); ct.close(); return nil })" ∧
    Facts.c18_httpsDialTrack = "return ct.track(c)" ∧
    Facts.c18_pipeClose = "{ return t.pool.Close() }" ∧
    Facts.c18_pipeConnClose = "{ if err == nil { err = errPipelineConnClosed } c.m.Lock() if c.closed { c.m.Unlock() return } c.closed = true c.m.Unlock() c.cancelCause(err) go c.c.Close() debugLogTransportConnClosed(c.c, c.t.logger, err) }" ∧
    Facts.c18_quicClose = "{ t.m.Lock() defer t.m.Unlock() if t.closed { return nil } t.closed = true t.cancelCtx(ErrClosedTransport) if t.c != nil { t.c.CloseWithError(quic.ApplicationErrorCode(_DOQ_NO_ERROR), \"\") } return nil }" ∧
    Facts.c18_quicDialClosed = "if t.closed { t.m.Unlock() if c != nil { c.CloseWithError(quic.ApplicationErrorCode(_DOQ_NO_ERROR), \"\") } call.err = ErrClosedTransport close(call.done) return }" ∧
    Facts.c18_quicDialWake = 2 ∧
    Facts.c18_quicGetClosed = "t.closed" ∧
    Facts.c18_quicServerClose = "{ s.closeOnce.Do(func() { s.closed.Store(true) s.l.Close() s.qt.Close() s.uc.Close() }) return nil }" ∧
    Facts.c18_quicUpCloser = "return &upstreamWithCloser{ Transport: transport.NewQuicTransport(transport.QuicTransportOpts{ DialContext: dialQuicConn, Logger: logger, }), closer: closerFunc(func() error { t.Close(); return uc.Close() }), }, nil" ∧
    Facts.c18_reuseClose = "{ t.m.Lock() defer t.m.Unlock() if t.closed { return nil } t.closed = true for c := range t.conns { c.c.Close() } t.cancelCause(ErrClosedTransport) return nil }" ∧
    Facts.c18_reuseDialClosed = "if t.closed { t.m.Unlock() rc.close() rc = nil err = ErrClosedTransport } else { t.conns[rc] = struct{}{} t.m.Unlock() debugLogTransportConnOpen(c, t.logger) }" ∧
    Facts.c18_reuseGetClosed = "t.closed" ∧
    Facts.c18_reuseReleaseClosed = "if t.closed { t.m.Unlock() if err == nil { rc.close() } return }" ∧
    Facts.c18_tcpServerClose = "{ s.closeOnce.Do(func() { s.closed.Store(true) s.l.Close() }) return nil }" ∧
    Facts.c18_trackerClose = "{ t.m.Lock() t.closed = true conns := t.conns t.conns = nil t.m.Unlock() for c := range conns { c.Conn.Close() } }" ∧
    Facts.c18_trackerTrack = "{ t.m.Lock() defer t.m.Unlock() if t.closed { c.Close() return nil, transport.ErrClosedTransport } tc := &trackedConn{Conn: c, t: t} t.conns[tc] = struct{}{} return tc, nil }" ∧
    Facts.c18_udpServerClose = "{ s.closeOnce.Do(func() { s.closed.Store(true) for _, c := range s.cs { c.c.Close() } }) return nil }" ∧
    Facts.c18_upCloserClose = "{ err := u.Transport.Close() u.closer.Close() return err }" := by
  (repeat' apply And.intro) <;> rfl

/-- Wire-id exhaustion and dials in progress, in the source: `Status()` reports a pipelined connection as closed
    only when it IS closed (the pool forgets — without closing — what reports closed), it stops being available
    when its 65536 ids are used, and it closes itself when the last query of an exhausted connection is done;
    the TLS handshake of a tls:// dial and the QUIC handshakes follow the dial context, and the dial contexts of
    the reuse and quic transports derive from the transport's context that Close cancels. -/
theorem pins_exhaustion_and_dials :
    -- (the counter tests `c.nextQid > 65535`, `eol := …` and `Available` are tied by translation:
    --  Lemmas/TranslatedC18.lean `left_zero_translated`, `sweep_cond_translated`, `usable_pipe_translated`)
    Facts.c18_pipeStatus = "s.Closed = c.closed" ∧
    Facts.c18_pipeStatusRLock = "c.m.RLock()" ∧ Facts.c18_pipeStatusRUnlock = "defer c.m.RUnlock()" ∧
    Facts.c18_tlsHandshake = "err := tlsConn.HandshakeContext(ctx)" ∧
    Facts.c18_tlsHandshakeCount = 1 ∧
    Facts.c18_h3DialEarly = "return quicTransport.DialEarly(ctx, ua, tlsCfg, cfg)" ∧
    Facts.c18_quicDialEarly = "ec, err := t.DialEarly(ctx, ua, tlsConfig, quicConfig)" ∧
    Facts.c18_reuseDialCtx = "dialCtx, cancelDial := context.WithTimeout(t.ctx, t.dialTimeout())" ∧
    Facts.c18_quicDialCtx = "ctx, cancel := context.WithTimeout(t.ctx, t.dialTimeout())" := by
  (repeat' apply And.intro) <;> rfl

/-- The cache stage and the fasthttp listener, in the source: `initCache` closes its local cacheCtl (`c.Close()`)
    in the error path of the redis backend — the memory cache was started just before — and of the ip marker;
    `r.cache = cache` happens only after `initCache` returned; `cacheCtl.Close` closes both backends;
    `fastHttpServer.Close` (pinned in `pins_close`) bounds the shutdown by 100 ms and then closes the connections
    it tracks through the ConnState hook. -/
theorem pins_cache_and_fasthttp :
    Facts.c18_initCacheRedis = "if len(cfg.Redis) > 0 { redisCache, err := cache.NewRedisCache(cfg.Redis, r.subLogger(\"redis_cache\")) if err != nil { c.Close() return nil, fmt.Errorf(\"failed to init redis cache, %w\", err) } c.redis = redisCache err = regMetrics(prometheus.WrapRegistererWithPrefix(\"cache_redis\", r.metricsReg), redisCache.Collectors()...) if err != nil { c.Close() return nil, err } }" ∧
    Facts.c18_initCacheMarker = "if len(cfg.IpMarker) > 0 { marker, err := loadIpMarkerFromFile(cfg.IpMarker) if err != nil { c.Close() return nil, fmt.Errorf(\"failed to load ip marker, %w\", err) } c.logger.Info(). Str(\"file\", cfg.IpMarker). Int(\"len\", marker.IpLen()). Int(\"marks\", marker.MarkLen()). Msg(\"ip marker file loaded\") c.ipMarker = marker }" ∧
    Facts.c18_initCacheCloses = 4 ∧
    Facts.c18_cacheAssign = "r.cache = cache" ∧
    Facts.c18_cacheCtlClose = "{ if c.memory != nil { c.memory.Close() } if c.redis != nil { c.redis.Close() } return nil }" ∧
    Facts.c18_fastHttpConnState = "s.ConnState = fs.trackConnState" ∧
    Facts.c18_fastHttpTrack = "{ s.m.Lock() defer s.m.Unlock() switch state { case fasthttp.StateNew: s.conns[c] = struct{}{} case fasthttp.StateClosed, fasthttp.StateHijacked: delete(s.conns, c) } }" := by
  (repeat' apply And.intro) <;> rfl

/-! ## the lock protocol of the reusable-connection transport (idle timers against `getIdleConn` and `Close`) -/

/-- ★ `Close`, an exchange picking an idle connection (`getIdleConn`, which looks at the idle connections one after
    the other with `t.m` held), the idle timers of those connections and an exchange that returns its connection
    never dead-lock — for EVERY interleaving, schedules of every length: after any schedule either all of them
    have returned or one of them can take its next step (so `Close` returns, and no exchange waits for a mutex
    beyond its context). -/
theorem reuse_locks_never_deadlock (sched : List Nat) :
    LockOrder.stuck false (LockOrder.run false sched LockOrder.init) = false :=
  LockOrder.code_never_stuck sched

/-- non-vacuity: the goroutines of that model do all run to completion under a fair schedule -/
theorem reuse_locks_round_robin_finishes :
    LockOrder.finished false (LockOrder.run false LockOrder.roundRobin LockOrder.init) = true :=
  LockOrder.round_robin_finishes

/-- ★ what it rests on is the order `t.m` before `c.m`: an idle timer that calls back into the transport while it
    holds `c.m` can block `getIdleConn` for ever — and with it `Close` (thread 3), which then never returns. -/
theorem reuse_nested_idle_timer_can_deadlock :
    ∃ sched, LockOrder.stuck true (LockOrder.run true sched LockOrder.init) = true ∧
      LockOrder.enabled true (LockOrder.run true sched LockOrder.init) 3 = false ∧
      LockOrder.finished true (LockOrder.run true sched LockOrder.init) = false :=
  LockOrder.nested_timer_can_deadlock

/-- The lock sequences of that model, in the source: `closeIfIdle` takes `c.m` and nothing else; `exitIdle` and
    `enterIdle` take `c.m` only; `getIdleConn` calls `exitIdle` with `t.m` held; `releaseConn` has left `c.m`
    (`enterIdle` / `close` have returned) before it takes `t.m`, and calls `rc.close()` after `t.m.Unlock()`;
    `Close` (`c18_reuseClose`, pinned above) takes `t.m` and closes the net.Conns directly. -/
theorem pins_lock_order :
    Facts.c18_lockCloseIfIdle = "{ c.m.Lock() serving := c.serving if !serving { c.closed = true defer c.c.Close() } c.m.Unlock() }" ∧
    Facts.c18_lockEnterIdle = "{ c.m.Lock() defer c.m.Unlock() if !c.serving { panic(\"call enterIdle on a idle connection\") } c.serving = false c.idleTimer.Reset(c.idleTimeout) }" ∧
    Facts.c18_lockExitIdle = "{ c.m.Lock() defer c.m.Unlock() if c.closed { return true } if c.serving { panic(\"call exitIdle on a busy connection\") } c.serving = true c.idleTimer.Stop() err := c.c.SetReadDeadline(time.Time{}) return err != nil }" ∧
    Facts.c18_lockGetIdleConn = "{ t.m.Lock() defer t.m.Unlock() if t.closed { return nil, ErrClosedTransport } for c := range t.idleConns { delete(t.idleConns, c) if closed := c.exitIdle(); closed { delete(t.conns, c) continue } return c, nil } return nil, nil }" ∧
    Facts.c18_lockReleaseConn = "{ if err != nil { debugLogTransportConnClosed(rc.c, t.logger, err) rc.close() } else { rc.enterIdle() } t.m.Lock() if t.closed { t.m.Unlock() if err == nil { rc.close() } return } if err != nil { delete(t.conns, rc) } else { t.idleConns[rc] = struct{}{} } t.m.Unlock() }" := by
  (repeat' apply And.intro) <;> rfl

end MosVerif.C18
