/-
  C18 — Shutdown and failed start-up are orderly.
  Property theorems over Model/Startup.lean (router `run`/`close`/`closeImpl`) and Model/Close.lean
  (close protocol of the upstream transports).  Helper lemmas: Lemmas/StartupLemmas.lean, Lemmas/CloseLemmas.lean.
  ★ marks the property theorems of DESIGN §5.
-/
import MosVerif.Lemmas.StartupLemmas
import MosVerif.Generated.Facts
namespace MosVerif.C18
open MosVerif.Startup

/-! ## start-up and shutdown of the router -/

/-- ★ A start-up failure is orderly — for EVERY configuration and EVERY position of the first failing item
    (listener, metrics endpoint, upstream, domain set, rule or cache): `run` returns an error, nothing panics,
    no nil closer is ever called, the items behind the failing one are never touched, and the deferred
    `close` releases everything that had been started: afterwards no item owns a socket, every started upstream
    and every started listener 0..i−1 has been closed exactly once, in the order of `closeImpl`. -/
theorem startup_failure_clean (pre post : List Item) (it : Item)
    (hpre : ∀ x ∈ pre, x.ok = true) (hit : it.ok = false) :
    let res := run (pre ++ it :: post)
    res.err = true ∧ res.w.panicked = false ∧ Act.nilCall ∉ res.w.acts ∧
    res.w.live = [] ∧
    res.attempted = List.range (pre.length + 1) ∧
    res.r.closeDone = true ∧
    res.w.acts = [.cancel, .limiterClose] ++ (upstreamIds 0 pre).map .upClose
                  ++ (cacheId 0 pre none).toList.map .cacheClose ++ (listenerIds 0 pre).map .srvClose := by
  simp only [run_failure pre post it hpre hit, live_after_close]
  simp [afterPrefix, closeImpl_eq]

/-- the hypotheses of `startup_failure_clean` are satisfiable, and its conclusion is about real work:
    two listeners and a quic upstream are started, the third listener fails, all three are closed. -/
example :
    (run [⟨.upstream, true, true⟩, ⟨.server, true, true⟩, ⟨.server, true, true⟩, ⟨.server, false, true⟩,
          ⟨.server, true, true⟩]).w.acts
      = [.cancel, .limiterClose, .upClose 0, .srvClose 1, .srvClose 2] := by decide

/-- every configuration either starts completely or has a first failing item (so the theorem above and
    `startup_ok` below cover every configuration). -/
theorem startup_cases (cfg : List Item) :
    (∀ x ∈ cfg, x.ok = true) ∨
    ∃ pre it post, cfg = pre ++ it :: post ∧ (∀ x ∈ pre, x.ok = true) ∧ it.ok = false :=
  split_first_fail cfg

/-- a configuration whose items all initialise: `run` returns the router, nothing has been closed, every
    closer that was registered is non-nil. -/
theorem startup_ok (cfg : List Item) (h : ∀ x ∈ cfg, x.ok = true) :
    let res := run cfg
    res.err = false ∧ res.w.panicked = false ∧ res.w.acts = [] ∧ res.r.closeDone = false ∧
    res.w.live = sockIds 0 cfg ∧ (∀ c ∈ res.r.closers, c ≠ none) := by
  simp only [run_success cfg h]
  simp [afterPrefix]

/-- ★ `close` is idempotent (sync.Once): a second close changes nothing — for every router state. -/
theorem router_close_idempotent (r : Router) (w : World) :
    close (close r w).1 (close r w).2 = close r w := by
  by_cases h : r.closeDone = true <;> simp [close, h]

/-- ★ order of `closeImpl` — for every router whose closers are all non-nil: cancel the context, close the
    limiter, every upstream, the cache (if any), then the listeners in the order they were started; nothing
    panics and nothing that was registered keeps its socket. -/
theorem close_order (ups : List Nat) (c : Option Nat) (ls : List Nat) (w : World) :
    closeImpl ⟨ups, c, ls.map some, false⟩ w =
      { live := (w.live.filter (fun i => !ups.contains i)).filter (fun i => !ls.contains i)
        acts := w.acts ++ [.cancel, .limiterClose] ++ ups.map .upClose ++ c.toList.map .cacheClose
                  ++ ls.map .srvClose
        panicked := w.panicked } :=
  closeImpl_eq ups c ls false w

/-- ★ shutdown of a started router: after `close` (any number ≥ 1 of times) nothing owns a socket and there
    was no panic — for every configuration. -/
theorem shutdown_clean (cfg : List Item) (h : ∀ x ∈ cfg, x.ok = true) (n : Nat) :
    let res := runThenClose cfg (n + 1)
    res.err = false ∧ res.w.panicked = false ∧ res.w.live = [] ∧ Act.nilCall ∉ res.w.acts ∧
    res.w = (runThenClose cfg 1).w := by
  have hl := live_after_close cfg
  simp only [runThenClose, run_success cfg h, closeN, close, afterPrefix] at hl ⊢
  simp only [Bool.false_eq_true, if_false]
  rw [closeN_closed n _ _ rfl]
  simp [closeImpl_eq] at hl ⊢
  exact hl

/-- the nil-closer panic is really in the model: had `run` registered the nil closer of a failed listener
    (defect D12), close would panic. -/
example : (closeImpl ⟨[], none, [some 0, none], false⟩ {}).panicked = true := by decide

/-- ★ the model meets the executable specification that judges the implementation's observations
    (error iff some item fails, never a panic; no address still bound; no socket left) —
    for EVERY configuration and any number of additional `close` calls. -/
theorem startup_model_meets_spec (cfg : List Item) (n : Nat) :
    spec cfg (obsOf (runThenClose cfg (n + 1))) = true := by
  rcases split_first_fail cfg with h | ⟨pre, it, post, rfl, hp, hi⟩
  · have hs := shutdown_clean cfg h n
    simp only at hs
    obtain ⟨h1, h2, h3, _, _⟩ := hs
    have hany : cfg.any (fun it => !it.ok) = false := by
      simp only [List.any_eq_false]
      intro x hx
      simp [h x hx]
    simp [spec, obsOf, h1, h2, h3, hany]
  · have hf := startup_failure_clean pre post it hp hi
    simp only at hf
    obtain ⟨h1, h2, _, h4, _⟩ := hf
    have hany : (pre ++ it :: post).any (fun it => !it.ok) = true := by
      simp [hi]
    simp [spec, obsOf, runThenClose, h1, h2, h4, hany]

/-- the specification is not vacuous: it rejects a panic, a success after a failure, a port left bound, a leak. -/
example : spec [⟨.server, false, true⟩] ⟨"panic", [], 0⟩ = false := by decide
example : spec [⟨.server, true, true⟩, ⟨.server, false, true⟩] ⟨"err", [0], 0⟩ = false := by decide
example : spec [⟨.server, true, true⟩, ⟨.server, false, true⟩] ⟨"err", [], 1⟩ = false := by decide
example : spec [⟨.server, true, true⟩, ⟨.server, false, true⟩] ⟨"ok", [], 0⟩ = false := by decide
example : spec [⟨.server, true, true⟩, ⟨.server, false, true⟩] ⟨"err", [], 0⟩ = true := by decide
example : spec [⟨.server, true, true⟩] ⟨"ok", [], 0⟩ = true := by decide

/-! ## tie: pinned source facts -/

/-- The statement order in `run`'s listener loop (start, error check with `return`, only then the append),
    the deferred close on error, `closeOnce`, the body of `closeImpl`, and `startServer` returning a nil
    closer together with every error. -/
theorem pins_startup :
    Facts.c18_startLoop =
      "for i, serverCfg := range cfg.Servers { closer, err := r.startServer(&serverCfg) if err != nil { err = fmt.Errorf(\"failed to start server #%d, %w\", i, err) return nil, err } r.serverClosers = append(r.serverClosers, closer) }" ∧
    Facts.c18_startCall = "closer, err := r.startServer(&serverCfg)" ∧
    Facts.c18_appendCloser = "r.serverClosers = append(r.serverClosers, closer)" ∧
    Facts.c18_startCount = 1 ∧ Facts.c18_appendCloserCount = 1 ∧
    Facts.c18_deferClose = "defer func() { if err != nil { r.close(err) } }()" ∧
    Facts.c18_closeOnce = "r.closeOnce.Do(func() { r.closeImpl(err) })" ∧
    Facts.c18_closeImpl =
      "{ r.cancel(err) r.limiter.Close() for _, u := range r.upstreams { u.u.Close() } if r.cache != nil { r.cache.Close() } for _, f := range r.serverClosers { f() } }" ∧
    Facts.c18_startServerDefault = "return nil, fmt.Errorf(\"invalid server protocol [%s]\", cfg.Protocol)" ∧
    Facts.c18_startServerNilOnErr = 8 := by
  (repeat' apply And.intro) <;> rfl

end MosVerif.C18
