/-
  C02 — The wire codec preserves message content.
  (The round-trip theorems are being proved; this file currently carries the tie only.)
-/
import MosVerif.Model.WireIO
namespace MosVerif.C02
open MosVerif.Wire

/-- tie: compression table key expressions and the 14-bit pointer guard. -/
theorem pins :
    Facts.pack_ptrShift = 2 ∧
    Facts.pack_keyLookup = "ptr, ok := compression[string(n[labelStart-1:])]" ∧
    Facts.pack_keyStore = "compression[unsafeStr[suffixStart:]] = uint16(newPtr)" := by decide

end MosVerif.C02
